(* C13_stop_full of Spec/C13_Spec.v does not hold in the model as stated (every world, filter, cursor at or below S):
   a cursor on a forked block numbered 14 whose canonical replacement is block 21 (numbers 14..20 skipped), stop
   block 15, bundles of 10.  With the stop block the file source ends with the bundle of 15 (blocks below 20): the
   resolver never sees a block at or above the cursor block, nothing is delivered, the stream ends with
   stop-block-reached.  Without stop block the resolver reaches 21, undoes the forked block (an event numbered 14,
   below the stop block) and goes on; the handler chain with stop 15 over that output lets the Undo through. *)
From Coq Require Import Sorting.Sorted.
From BV Require Import Base.Prelude Model.Block Model.ForkDB Model.Forkable Model.ForkableLookups Model.Burst Model.Hub
  Model.CursorResolver Model.Joining Spec.C13_Spec.
Local Open Scope N_scope.

Definition r13_b (n p : N) : block := mkBlock n n p 0.
Definition r13_merged : list block := [r13_b 11 10; r13_b 12 11; r13_b 13 12; r13_b 21 13; r13_b 22 21].
Definition r13_f14 : block := mkBlock 114 14 13 0.
Definition r13_cu : cursor := mkCursor SNew (mkR 114 14) (mkR 114 14) (mkR 12 12).
Definition r13_c : jcfg := mkJ 0 0 10 1 0 (Some r13_cu) 15 0 0.
Definition r13_w : world := mkW hub_init [].

Lemma c13_stop_full_refuted_proof : ~ C13_stop_full.
Proof.
  intros H.
  assert (Hs : StronglySorted (fun a b => bnum a < bnum b) r13_merged).
  { vm_compute. repeat (constructor; [|repeat (constructor; [reflexivity|]); constructor]). constructor. }
  assert (Hm : j_mode r13_c = 0 \/ exists cu, j_cursor r13_c = Some cu /\ rn (cu_blk cu) <= j_stop r13_c).
  { right. exists r13_cu. split; [reflexivity|]. vm_compute. discriminate. }
  assert (E1 : stream_run r13_c r13_w [] 30 r13_merged [r13_f14] = ([], JStop)) by (vm_compute; reflexivity).
  assert (Hn : snd (stream_run r13_c r13_w [] 30 r13_merged [r13_f14]) <> JInvalidArg) by (rewrite E1; discriminate).
  assert (H15 : j_stop r13_c <> 0) by (vm_compute; discriminate).
  pose proof (H r13_c r13_w [] 30 r13_merged [r13_f14] H15 Hs Hm Hn) as H0.
  rewrite E1 in H0. cbn [fst] in H0.
  assert (E2 : fst (chain_run r13_c (fst (stream_run (with_stop r13_c 0) r13_w [] 30 r13_merged [r13_f14])))
               = [mkEv SUndo r13_f14 (bref r13_f14) (mkR 114 14) (mkR 12 12) (Some (mkR 13 13)) 0 0]) by (vm_compute; reflexivity).
  rewrite E2 in H0. discriminate.
Qed.
