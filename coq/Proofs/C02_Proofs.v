(* C01 (moving LIB) and C02: from the boolean scope of the statements to the hypotheses of
   Proofs/Fk/MovingLibInv.v and MovingLibFin.v *)
From BV Require Import Base.Prelude Model.Block Model.ForkDB Model.Forkable Spec.Consumer Spec.Universe
  Spec.C01_Spec Spec.C01_Moving_Spec Spec.C02_Spec
  Proofs.Fk.StoreFacts Proofs.Fk.WalkFacts Proofs.Fk.FixedLib Proofs.Fk.MovingLibInv Proofs.Fk.MovingLibFin Proofs.Fk.MovingLibDisc Proofs.Fk.FailPrefix Proofs.Fk.FailRun.
Local Open Scope N_scope.

(* ---- a well-formed history (parent ids may be empty) ---- *)
Section Wf.
  Variable h : list block.
  Hypothesis Hwf : wf_b h = true.

  Lemma wf_block_of b : In b h -> wf_block h b = true.
  Proof. unfold wf_b in Hwf. rewrite forallb_forall in Hwf. apply Hwf. Qed.

  Lemma lookup_self b : In b h -> lookup (bid b) h = Some b.
  Proof.
    intros Hb. pose proof (wf_block_of b Hb) as W. unfold wf_block in W.
    apply andb_true_iff in W as [_ W]. destruct (lookup (bid b) h) as [b'|]; [|discriminate].
    apply block_eqb_eq in W. congruence.
  Qed.

  Lemma bridge_id b : In b h -> bid b <> 0 /\ bid b <> bparent b.
  Proof.
    intros Hb. pose proof (wf_block_of b Hb) as W. unfold wf_block in W.
    apply andb_true_iff in W as [W _]. apply andb_true_iff in W as [W _]. apply andb_true_iff in W as [W1 W2].
    apply negb_true_iff, N.eqb_neq in W1. apply negb_true_iff, N.eqb_neq in W2.
    auto.
  Qed.

  Lemma bridge_uniq x y : In x h -> In y h -> bid x = bid y -> x = y.
  Proof.
    intros Hx Hy E. pose proof (lookup_self x Hx) as Lx. pose proof (lookup_self y Hy) as Ly.
    rewrite E in Lx. congruence.
  Qed.

  Lemma bridge_up x y : In x h -> In y h -> bparent x = bid y -> bnum y < bnum x.
  Proof.
    intros Hx Hy E. pose proof (wf_block_of x Hx) as W. unfold wf_block in W.
    apply andb_true_iff in W as [W _]. apply andb_true_iff in W as [_ W].
    rewrite E, (lookup_self y Hy) in W. apply N.ltb_lt. exact W.
  Qed.

  (* the parent walk of Spec/Universe.v is the complete walk *)
  Definition ents : list entry := map (fun x => mkEntry x false) h.

  Lemma chain_of_uchain : forall f b, In b h -> (below ents (bnum b) <= f)%nat ->
    uchain h b (chain_of f h b).
  Proof.
    induction f as [|f IH]; intros b Hb Hf.
    - cbn [chain_of]. constructor. destruct (lookup (bparent b) h) as [p|] eqn:Lp; [|reflexivity].
      exfalso. destruct (lookup_sound _ _ _ Lp) as [Hp Hpid].
      pose proof (bridge_up b p Hb Hp (eq_sym Hpid)) as Hlt.
      pose proof (below_lt ents (mkEntry b false) (mkEntry p false)) as B. cbn [eb] in B.
      assert (In (mkEntry p false) ents) by (unfold ents; apply (in_map (fun x => mkEntry x false)); exact Hp).
      specialize (B H Hlt). lia.
    - cbn [chain_of]. destruct (lookup (bparent b) h) as [p|] eqn:Lp; [|constructor; exact Lp].
      destruct (lookup_sound _ _ _ Lp) as [Hp Hpid].
      apply (uc_step h b p); [exact Lp|]. apply IH; [exact Hp|].
      pose proof (bridge_up b p Hb Hp (eq_sym Hpid)) as Hlt.
      pose proof (below_lt ents (mkEntry b false) (mkEntry p false)) as B. cbn [eb] in B.
      assert (In (mkEntry p false) ents) by (unfold ents; apply (in_map (fun x => mkEntry x false)); exact Hp).
      specialize (B H Hlt). lia.
  Qed.

  Lemma chain_uchain b : In b h -> uchain h b (Universe.chain h b).
  Proof.
    intros Hb. unfold Universe.chain. apply chain_of_uchain; [exact Hb|].
    pose proof (below_le ents (bnum b)). unfold ents in *. rewrite map_length in *. exact H.
  Qed.
End Wf.

(* ---- a configured starting LIB ---- *)
Section Bridge.
  Variable r0 : ref.
  Variable h : list block.
  Hypothesis Hscope : moving_scope_b r0 h = true.

  Lemma scope_parts : wf_b h = true /\ lib_ok_b (LExcl r0) h = true /\ ri r0 <> 0 /\
                      forall b, In b h -> moving_block_b r0 b = true.
  Proof.
    unfold moving_scope_b in Hscope. apply andb_true_iff in Hscope as [H1 H4]. apply andb_true_iff in H1 as [H1 H3].
    apply andb_true_iff in H1 as [H1 H2].
    split; [exact H1|]. split; [exact H2|]. split.
    - apply negb_true_iff in H3. apply N.eqb_neq. exact H3.
    - rewrite forallb_forall in H4. exact H4.
  Qed.

  Lemma mb_parts b : In b h ->
    bparent b <> 0 /\ (bparent b = ri r0 -> rn r0 < bnum b) /\ (bid b = ri r0 -> bnum b = rn r0).
  Proof.
    intros Hb. destruct scope_parts as (_ & _ & _ & F). specialize (F b Hb). unfold moving_block_b in F.
    apply andb_true_iff in F as [F F3]. apply andb_true_iff in F as [F1 F2].
    apply negb_true_iff, N.eqb_neq in F1. split; [exact F1|]. split; intros E.
    - rewrite E, N.eqb_refl in F2. apply N.ltb_lt. exact F2.
    - rewrite E, N.eqb_refl in F3. apply N.eqb_eq. exact F3.
  Qed.

  Lemma m_wf : wf_b h = true.
  Proof. apply scope_parts. Qed.

  Lemma m_par b : In b h -> bparent b <> 0.
  Proof. intros Hb. apply (mb_parts b Hb). Qed.

  Lemma bridge_decl b : In b h -> decl_ok h r0 b.
  Proof.
    intros Hb. destruct scope_parts as (_ & Hok & _ & _). unfold lib_ok_b in Hok. rewrite forallb_forall in Hok.
    specialize (Hok b Hb). unfold lib_ok_block, mode_root in Hok. apply andb_true_iff in Hok as [Hok _].
    exists (Universe.chain h b). split; [apply (chain_uchain h m_wf b Hb)|].
    apply orb_true_iff in Hok as [Hex|Hlow].
    - left. apply existsb_exists in Hex as (a & Ha & Hn). exists a. split; [exact Ha | apply N.eqb_eq; exact Hn].
    - right. destruct (bparent (last (Universe.chain h b) b) =? ri r0); [apply N.leb_le | apply N.ltb_lt]; exact Hlow.
  Qed.
End Bridge.

(* ---- discovery ---- *)
Section BridgeDisc.
  Variable h : list block.
  Hypothesis Hscope : disc_scope_b h = true.

  Lemma disc_parts : wf_b h = true /\ lib_ok_b LNone h = true /\ forall b, In b h -> bparent b <> 0.
  Proof.
    unfold disc_scope_b in Hscope. apply andb_true_iff in Hscope as [H1 H3]. apply andb_true_iff in H1 as [H1 H2].
    split; [exact H1|]. split; [exact H2|]. rewrite forallb_forall in H3. intros b Hb.
    specialize (H3 b Hb). apply negb_true_iff, N.eqb_neq in H3. exact H3.
  Qed.

  Lemma d_wf : wf_b h = true.
  Proof. apply disc_parts. Qed.

  Lemma d_par b : In b h -> bparent b <> 0.
  Proof. apply disc_parts. Qed.

  Lemma bridge_decl_none b : In b h -> decl_none h b.
  Proof.
    intros Hb. destruct disc_parts as (_ & Hok & _). unfold lib_ok_b in Hok. rewrite forallb_forall in Hok.
    specialize (Hok b Hb). unfold lib_ok_block, mode_root in Hok. apply andb_true_iff in Hok as [Hok _].
    exists (Universe.chain h b). split; [apply (chain_uchain h d_wf b Hb)|].
    apply orb_true_iff in Hok as [Hex|Hlow].
    - left. apply existsb_exists in Hex as (a & Ha & Hn). exists a. split; [exact Ha | apply N.eqb_eq; exact Hn].
    - right. apply N.ltb_lt. exact Hlow.
  Qed.
End BridgeDisc.

Lemma rooted_of r0 m : rooted_mode r0 m -> rooted r0 m.
Proof. intros H. exact H. Qed.

(* the never-failing handler *)
Lemma c01_moving_nofail cfg r0 m h :
  c_fail_at cfg = None -> rooted_mode r0 m -> f_new (c_filter cfg) = true -> f_undo (c_filter cfg) = true ->
  moving_scope_b r0 h = true ->
  let t := fk_run cfg (fs_init m) h in
  length t = length h /\ Forall (fun x => snd x = ROk) t /\
  c01_discipline_b m t = true /\ c01_refeed_b [] h t = true /\ c01_error_b (c_fail_at cfg) 0 t = true.
Proof.
  intros Hnofail Hm Hnew Hundo Hscope.
  destruct (scope_parts r0 h Hscope) as (_ & _ & Hr0 & _).
  exact (moving_lib_run h r0 cfg Hnofail Hnew Hundo
           (bridge_id h (m_wf r0 h Hscope)) (bridge_uniq h (m_wf r0 h Hscope)) (bridge_up h (m_wf r0 h Hscope)) Hr0
           (fun y Hy => proj2 (proj2 (mb_parts r0 h Hscope y Hy)))
           (fun x Hx => proj1 (proj2 (mb_parts r0 h Hscope x Hx)))
           (bridge_decl r0 h Hscope)
           m h (rooted_of r0 m Hm) (fun b Hb => Hb)).
Qed.

Lemma c02_moving_nofail cfg r0 m h :
  c_fail_at cfg = None -> rooted_mode r0 m -> f_new (c_filter cfg) = true -> f_undo (c_filter cfg) = true ->
  f_irr (c_filter cfg) = true -> moving_scope_b r0 h = true ->
  c02_b m h (fk_run cfg (fs_init m) h) = true.
Proof.
  intros Hnofail Hm Hnew Hundo Hirr Hscope.
  destruct (scope_parts r0 h Hscope) as (_ & _ & Hr0 & _).
  exact (moving_lib_c02 h r0 cfg Hnofail Hnew Hundo Hirr
           (bridge_id h (m_wf r0 h Hscope)) (bridge_uniq h (m_wf r0 h Hscope)) (bridge_up h (m_wf r0 h Hscope)) Hr0
           (fun y Hy => proj2 (proj2 (mb_parts r0 h Hscope y Hy)))
           (fun x Hx => proj1 (proj2 (mb_parts r0 h Hscope x Hx)))
           (bridge_decl r0 h Hscope)
           m h (rooted_of r0 m Hm) (fun b Hb => Hb)).
Qed.

Lemma rooted_root_lib r0 m t : rooted_mode r0 m -> root_lib m t = ri r0 /\ root_ref m t = r0.
Proof. intros [-> | ->]; split; reflexivity. Qed.

Lemma rooted_ncalls r0 m : rooted_mode r0 m -> ncalls (fs_init m) = 0.
Proof. intros [-> | ->]; reflexivity. Qed.

Lemma c01_moving_lib_proved : c01_moving_lib_statement.
Proof.
  intros cfg r0 m h Hm Hnew Hundo Hscope.
  destruct (c_fail_at cfg) as [k|] eqn:Hf.
  - (* the handler fails at call k: cut the never-failing run *)
    destruct (c01_moving_nofail (nofail cfg) r0 m h eq_refl Hm Hnew Hundo Hscope) as (Hlen & Hok & Hd & Hr & He).
    unfold c01_discipline_b in Hd. rewrite (proj1 (rooted_root_lib r0 m _ Hm)) in Hd.
    destruct (apply_all (ri r0) [] (all_events (fk_run (nofail cfg) (fs_init m) h))) as [S'|] eqn:Happ; [|discriminate].
    destruct (run_fail_c01 cfg k Hf (ri r0) h (fs_init m) [] []) as ((S2 & Happ2) & Hre2 & Herr2 & Hres2).
    + rewrite (rooted_ncalls r0 m Hm). lia.
    + exact Hok.
    + exists S'. exact Happ.
    + exact Hr.
    + unfold c01_statement. split; [|split; [exact Hres2 | intros H; discriminate]].
      split; [|split].
      * unfold c01_discipline_b. rewrite (proj1 (rooted_root_lib r0 m _ Hm)), Happ2. reflexivity.
      * exact Hre2.
      * rewrite Hf. rewrite (rooted_ncalls r0 m Hm) in Herr2. exact Herr2.
  - destruct (c01_moving_nofail cfg r0 m h Hf Hm Hnew Hundo Hscope) as (Hlen & Hok & Hd & Hr & He).
    unfold c01_statement. rewrite Hf in *. split; [repeat split; assumption|]. split.
    + eapply Forall_impl; [|exact Hok]. cbn beta. auto.
    + intros _. split; assumption.
Qed.

Lemma c02_moving_lib_proved : c02_moving_lib_statement.
Proof.
  intros cfg r0 m h Hm Hnew Hundo Hirr Hscope. unfold c02_statement.
  destruct (c_fail_at cfg) as [k|] eqn:Hf.
  - pose proof (c02_moving_nofail (nofail cfg) r0 m h eq_refl Hm Hnew Hundo Hirr Hscope) as HN.
    destruct (c01_moving_nofail (nofail cfg) r0 m h eq_refl Hm Hnew Hundo Hscope) as (_ & Hok & _).
    unfold c02_b in *. rewrite (proj2 (rooted_root_lib r0 m (fk_run (nofail cfg) (fs_init m) h) Hm)) in HN.
    rewrite (proj2 (rooted_root_lib r0 m (fk_run cfg (fs_init m) h) Hm)).
    destruct (fin_trace (ri r0) r0 (mkFM [] 0 r0 false [] []) h (fk_run (nofail cfg) (fs_init m) h)) as [mN|] eqn:EN; [|discriminate].
    destruct (run_fail_c02 cfg k Hf (ri r0) r0 h (fs_init m) (mkFM [] 0 r0 false [] [])) as [m' Hm'].
    + rewrite (rooted_ncalls r0 m Hm). lia.
    + exact Hok.
    + exists mN. exact EN.
    + rewrite Hm'. reflexivity.
  - exact (c02_moving_nofail cfg r0 m h Hf Hm Hnew Hundo Hirr Hscope).
Qed.

(* ---- discovery mode ---- *)

Lemma disc_nofail cfg h :
  c_fail_at cfg = None -> c_hold cfg = true -> c_incl cfg = false ->
  f_new (c_filter cfg) = true -> f_undo (c_filter cfg) = true -> disc_scope_b h = true ->
  let t := fk_run cfg (fs_init LNone) h in
  length t = length h /\ Forall (fun x => snd x = ROk) t /\
  c01_discipline_b LNone t = true /\ c01_refeed_b [] h t = true /\
  c01_error_b (c_fail_at cfg) 0 t = true /\
  (f_irr (c_filter cfg) = true -> c02_b LNone h t = true).
Proof.
  intros Hnofail Hhold Hincl Hnew Hundo Hscope.
  exact (disc_run h cfg Hnofail Hnew Hundo Hhold Hincl
           (bridge_id h (d_wf h Hscope)) (bridge_uniq h (d_wf h Hscope)) (bridge_up h (d_wf h Hscope))
           (bridge_decl_none h Hscope) h (fun b Hb => Hb)).
Qed.

Lemma c01_discovery_proved : c01_discovery_statement.
Proof.
  intros cfg h Hhold Hincl Hnew Hundo Hscope.
  destruct (c_fail_at cfg) as [k|] eqn:Hf.
  - destruct (disc_nofail (nofail cfg) h eq_refl Hhold Hincl Hnew Hundo Hscope) as (Hlen & Hok & Hd & Hr & He & _).
    set (tN := fk_run (nofail cfg) (fs_init LNone) h) in *. set (t := fk_run cfg (fs_init LNone) h).
    destruct (run_fail_events cfg k Hf h (fs_init LNone)) as [rest Hrest]; [cbn; lia | exact Hok|].
    fold tN t in Hrest.
    unfold c01_discipline_b in Hd.
    destruct (apply_all (root_lib LNone tN) [] (all_events tN)) as [S'|] eqn:Happ; [|discriminate].
    destruct (run_fail_c01 cfg k Hf (root_lib LNone tN) h (fs_init LNone) [] []) as ((S2 & Happ2) & Hre2 & Herr2 & Hres2).
    + cbn. lia.
    + exact Hok.
    + exists S'. exact Happ.
    + exact Hr.
    + fold t in Happ2, Hre2, Herr2, Hres2.
      unfold c01_statement. fold t. split; [|split; [exact Hres2 | intros H; discriminate]].
      split; [|split; [exact Hre2 | rewrite Hf; exact Herr2]].
      unfold c01_discipline_b. destruct (all_events t) as [|e l] eqn:Et.
      * unfold root_lib. rewrite Et. reflexivity.
      * assert (Hroot : root_lib LNone t = root_lib LNone tN).
        { unfold root_lib. rewrite Hrest, Et. reflexivity. }
        rewrite Hroot, Happ2. reflexivity.
  - destruct (disc_nofail cfg h Hf Hhold Hincl Hnew Hundo Hscope) as (Hlen & Hok & Hd & Hr & He & _).
    unfold c01_statement. rewrite Hf in *. split; [repeat split; assumption|]. split.
    + eapply Forall_impl; [|exact Hok]. cbn beta. auto.
    + intros _. split; assumption.
Qed.

Lemma c02_discovery_proved : c02_discovery_statement.
Proof.
  intros cfg h Hhold Hincl Hnew Hundo Hirr Hscope. unfold c02_statement.
  destruct (c_fail_at cfg) as [k|] eqn:Hf.
  - destruct (disc_nofail (nofail cfg) h eq_refl Hhold Hincl Hnew Hundo Hscope) as (_ & Hok & _ & _ & _ & HN).
    specialize (HN Hirr).
    set (tN := fk_run (nofail cfg) (fs_init LNone) h) in *. set (t := fk_run cfg (fs_init LNone) h).
    destruct (run_fail_events cfg k Hf h (fs_init LNone)) as [rest Hrest]; [cbn; lia | exact Hok|].
    fold tN t in Hrest.
    unfold c02_b in *.
    destruct (fin_trace (ri (root_ref LNone tN)) (root_ref LNone tN) (mkFM [] 0 (root_ref LNone tN) false [] []) h tN) as [mN|] eqn:EN; [|discriminate].
    destruct (run_fail_c02 cfg k Hf (ri (root_ref LNone tN)) (root_ref LNone tN) h (fs_init LNone) (mkFM [] 0 (root_ref LNone tN) false [] [])) as [m' Hm'].
    + cbn. lia.
    + exact Hok.
    + exists mN. exact EN.
    + fold t in Hm'. destruct (all_events t) as [|e l] eqn:Et.
      * rewrite (fin_trace_quiet _ _ h t _ (all_events_nil t Et)). reflexivity.
      * assert (Hroot : root_ref LNone t = root_ref LNone tN).
        { unfold root_ref. rewrite Hrest, Et. reflexivity. }
        rewrite Hroot, Hm'. reflexivity.
  - destruct (disc_nofail cfg h Hf Hhold Hincl Hnew Hundo Hscope) as (_ & _ & _ & _ & _ & HN). exact (HN Hirr).
Qed.
