(* C20: every step of every thread of the interleaving model preserves the invariant *)
From BV Require Import Base.Prelude Proofs.PreludeFacts Model.BlockServer Model.BlockServerSched
  Spec.C20_Spec Spec.C20_SchedSpec Proofs.C20_Window Proofs.C20_Seq Proofs.C20_Sched.
Local Open Scope Z_scope.
Arguments chan_base : simpl never.

Section Steps.
Variables (buffered : bool) (size : Z) (script : list N) (bursts : list Z).
Local Notation Ginv := (ginv buffered size script bursts).
Local Notation Clok := (cl_ok buffered size bursts).
Local Notation Subinv := (sub_inv buffered size).
Local Notation Burst_at := (burst_at buffered size).

Lemma burst_at_set_csub P s c : Burst_at P (set_csub s c) = Burst_at P c.
Proof. reflexivity. Qed.
Lemma later_of_set_csub P s c : later_of P (set_csub s c) = later_of P c.
Proof. reflexivity. Qed.

Lemma init_inv : Ginv (cinit buffered size script bursts).
Proof.
  constructor; simpl; auto.
  - destruct buffered; split; congruence.
  - intros i H. discriminate.
  - intros b Hb. destruct buffered; inversion Hb; subst. split; [apply buf_new_ok|reflexivity].
  - intros x H. discriminate.
  - constructor.
  - intros i [].
  - constructor.
  - intros i [].
  - intros i c Hn. rewrite nth_error_map in Hn.
    destruct (nth_error bursts i) as [b|] eqn:Eb; simpl in Hn; [|discriminate].
    inversion Hn; subst c. constructor; simpl; auto.
    + split; discriminate.
    + tauto.
    + intros s Hs. discriminate.
Qed.

(* a listed subscription of the producer's todo list *)
Lemma todo_sub st k :
  Ginv st -> In k (todo_of (g_ppc st)) ->
  exists c s, nth_error (g_clients st) k = Some c /\ c_sub c = Some s /\ sub_of st k = Some s /\
              Subinv st k c s /\ s_listed s = true.
Proof.
  intros Hi Hin. apply (i_todo_incl _ _ _ _ _ Hi) in Hin.
  destruct (i_order_sub _ _ _ _ _ Hi k Hin) as (c & s & Hc & Hs).
  pose proof (k_sub _ _ _ _ _ _ (i_clients _ _ _ _ _ Hi k c Hc) s Hs) as Hsi.
  exists c, s. split; [exact Hc|]. split; [exact Hs|]. split; [|split; [exact Hsi|]].
  - unfold sub_of. now rewrite Hc.
  - now apply (u_order _ _ _ _ _ _ Hsi).
Qed.

(* ------------------------------------------------------------------ the producer *)

Lemma later_of_snoc P x c :
  (c_start c <= length P)%nat ->
  later_of (P ++ [x]) c =
    match c_stop c with
    | None => later_of P c ++ [x]
    | Some m => if Nat.leb m (length P) then later_of P c else later_of (P ++ [x]) c
    end.
Proof.
  intros Hs. unfold later_of. destruct (c_stop c) as [m|].
  - destruct (Nat.leb_spec m (length P)) as [Hm|Hm]; auto.
    rewrite skipn_snoc_le by exact Hs.
    apply firstn_snoc_le. rewrite skipn_length. lia.
  - rewrite app_length, skipn_snoc_le by exact Hs. simpl length.
    rewrite !firstn_all2 by (rewrite ?app_length, skipn_length; simpl; lia). reflexivity.
Qed.

Lemma burst_at_snoc P x c :
  (c_start c <= length P)%nat -> Burst_at (P ++ [x]) c = Burst_at P c.
Proof.
  intros Hs. unfold burst_at. now rewrite firstn_snoc_le by exact Hs.
Qed.

Lemma prod_step_inv st : Ginv st -> Ginv (prod_step st).
Proof.
  intros Hi. unfold prod_step.
  destruct (g_ppc st) as [|x|x|x todo|x k todo|x k todo] eqn:Epc.
  - (* PIdle: RLock *)
    destruct (g_script st) as [|x rest] eqn:Es; auto.
    destruct (g_wlock st) as [w|] eqn:Ew; auto.
    destruct Hi as [A B C D E F G H I J K L M N O].
    constructor; simpl; auto.
    + rewrite Ew in F. exact F.
    + rewrite G, Epc, Es. reflexivity.
    + intros b Hb. specialize (H b Hb). now rewrite Epc in H.
    + intros y Hy. discriminate.
    + constructor.
    + intros i [].
    + intros i c Hn. eapply cl_ok_frame; [..|apply (O i c Hn)]; simpl; auto.
      intros j. unfold pend_list. simpl. now rewrite Epc.
  - (* PLocked: AppendHead *)
    destruct Hi as [A B C D E F G H I J K L M N O].
    constructor; simpl; auto.
    + rewrite <- C. destruct (g_buf st); split; congruence.
    + now rewrite D, Epc.
    + rewrite G, Epc. simpl. now rewrite <- app_assoc.
    + intros b Hb. destruct (g_buf st) as [b0|] eqn:Eb; inversion Hb; subst b. clear Hb.
      destruct (H b0 eq_refl) as [Hok Hw]. rewrite Epc in Hw. split.
      * destruct (g_size st >? 0); auto. now apply buf_append_head_ok.
      * exists b0, (g_pushed st). unfold pre_evict. rewrite B. auto.
    + intros y Hy. inversion Hy; subst. eauto.
    + constructor.
    + intros i [].
    + (* the new block is pending for every listed subscription *)
      intros i c Hn. destruct (O i c Hn) as [H1 H2 H3 H4]. constructor; auto.
      intros s Hs. destruct (H4 s Hs) as [U1 U2 U3 U4 U5 U6 (n & U7 & U8 & U9)].
      constructor; simpl; auto.
      * rewrite app_length. simpl. lia.
      * destruct (c_stop c) as [m|]; auto. destruct U5 as [U5 U5']. split; auto.
        rewrite app_length. simpl. lia.
      * now rewrite burst_at_snoc.
      * rewrite burst_at_snoc by exact U4. rewrite later_of_snoc by exact U4.
        unfold pend_list in *. rewrite Epc in U9. simpl in U9. simpl.
        destruct (c_stop c) as [m|] eqn:Estop.
        -- destruct U5 as [U5 U5']. assert (Hm : Nat.leb m (length (g_pushed st)) = true) by (apply Nat.leb_le; lia).
           rewrite Hm. exists n. rewrite U5 in *. simpl in *. auto.
        -- exists n. rewrite U5 in *. simpl in U9.
           assert (Hin : existsb (Nat.eqb i) (g_order st) = true) by (apply existsb_eqb_In, U3; reflexivity).
           rewrite Hin. simpl andb. cbv iota.
           split; [|split].
           ++ rewrite U7. f_equal. rewrite firstn_app.
              destruct (s_chclosed s) eqn:Ec.
              ** specialize (U8 eq_refl).
                 replace (n - length (later_of (g_pushed st) c))%nat with 0%nat by lia.
                 simpl. now rewrite app_nil_r.
              ** specialize (U9 eq_refl).
                 replace (n - length (later_of (g_pushed st) c))%nat with 0%nat by lia.
                 simpl. now rewrite app_nil_r.
           ++ intros Hc. specialize (U8 Hc). rewrite app_length. simpl. lia.
           ++ intros Hc. specialize (U9 Hc). rewrite app_length. simpl. lia.
  - (* PAppended: evict when over capacity, then snapshot the subscriptions *)
    pose proof (i_size _ _ _ _ _ Hi) as Hsz.
    assert (Hgoal : forall ob, (forall b, ob = Some b ->
                       buf_ok b /\ blist b = spec_window size (g_pushed st)) ->
                     (ob = None <-> buffered = false) ->
                     Ginv (mkC ob size (g_order st) (g_rlock st) (g_wlock st) (PLoop x (g_order st))
                               (g_script st) (g_clients st) (g_pushed st) (g_bad st))).
    { intros ob Hob Hnone. destruct Hi as [A B C D E F G H I J K L M N O].
      constructor; simpl; auto.
      - now rewrite D, Epc.
      - rewrite G, Epc. reflexivity.
      - intros y Hy. apply I. now rewrite Epc.
      - apply incl_refl.
      - intros i c Hn. eapply cl_ok_frame; [..|apply (O i c Hn)]; simpl; auto.
        intros j. unfold pend_list. simpl. now rewrite Epc. }
    destruct (g_buf st) as [b|] eqn:Eb.
    + destruct (i_buf _ _ _ _ _ Hi b Eb) as [Hok Hw]. rewrite Epc in Hw.
      destruct Hw as (b0 & P' & HP & Hok0 & Hw0 & Hb).
      assert (Hlen0 : (length (blist b0) <= Z.to_nat size)%nat).
      { rewrite Hw0. destruct (spec_window_inv size P') as [_ _ Hl _]. rewrite Hl. lia. }
      destruct (push_buffer_ok b0 size x Hok0 Hlen0) as (b' & Hp & Hok' & Hbl' & _).
      unfold push_buffer in Hp. unfold pre_evict in Hb. unfold set_ppc. rewrite ?Eb, Hsz.
      assert (Hnone : Some b' = None <-> buffered = false).
      { rewrite <- (i_buffered _ _ _ _ _ Hi), Eb. split; discriminate. }
      assert (Hwin : forall b1, Some b' = Some b1 -> buf_ok b1 /\ blist b1 = spec_window size (g_pushed st)).
      { intros b1 Hb1. inversion Hb1; subst b1. split; auto.
        rewrite Hbl', Hw0, HP, spec_window_snoc. reflexivity. }
      destruct (size >? 0) eqn:Es; simpl.
      * rewrite <- Hb in Hp. destruct (buf_len b >? size) eqn:El.
        -- destruct (buf_delete (buf_tail b) b) as [b2|] eqn:Ed; [|discriminate].
           inversion Hp; subst b2. now apply Hgoal.
        -- inversion Hp; subst b'. now apply Hgoal.
      * inversion Hp; subst b'. rewrite Hb. now apply Hgoal.
    + unfold set_ppc. rewrite Eb, Hsz. apply Hgoal.
      * intros b Hb. discriminate.
      * rewrite <- (i_buffered _ _ _ _ _ Hi), Eb. tauto.
  - destruct todo as [|k todo].
    + (* end of the loop: RUnlock *)
      destruct Hi as [A B C D E F G H I J K L M N O].
      constructor; simpl; auto.
      * intros; discriminate.
      * rewrite G, Epc. reflexivity.
      * intros b Hb. specialize (H b Hb). now rewrite Epc in H.
      * intros y Hy. discriminate.
      * constructor.
      * intros i [].
      * intros i c Hn. eapply cl_ok_frame; [..|apply (O i c Hn)]; simpl; auto.
        intros j. unfold pend_list. simpl. now rewrite Epc.
    + (* next subscription: closed? full? *)
      assert (Hin : In k (todo_of (g_ppc st))) by (rewrite Epc; now left).
      destruct (todo_sub st k Hi Hin) as (c & s & Hc & Hs & Hsub & Hsi & Hlisted).
      rewrite Hsub.
      pose proof (i_todo_nodup _ _ _ _ _ Hi) as Hnd. rewrite Epc in Hnd. simpl in Hnd.
      inversion Hnd as [|? ? Hk Hnd']; subst.
      destruct (s_closed s) eqn:Ecl.
      * (* closed: skipped *)
        destruct Hi as [A B C D E F G H I J K L M N O].
        constructor; simpl; auto.
        -- now rewrite D, Epc.
        -- rewrite G, Epc. reflexivity.
        -- intros b Hb. specialize (H b Hb). now rewrite Epc in H.
        -- intros y Hy. apply I. now rewrite Epc.
        -- rewrite Epc in M. simpl in M. intros j Hj. apply M. now right.
        -- intros i c0 Hn. destruct (O i c0 Hn) as [H1 H2 H3 H4]. constructor; auto.
           intros s0 Hs0. destruct (H4 s0 Hs0) as [U1 U2 U3 U4 U5 U6 (n & U7 & U8 & U9)].
           constructor; simpl; auto.
           exists n. split; [exact U7|]. split; [exact U8|].
           intros Hch. specialize (U9 Hch). unfold pend_list in *. rewrite Epc in U9. simpl in *.
           destruct (Nat.eqb_spec i k) as [->|Hne]; auto.
           (* i = k is closed: contradiction *)
           rewrite Hc in Hn. inversion Hn; subst c0. rewrite Hs in Hs0. inversion Hs0; subst s0.
           rewrite (so_ch s U1) in Hch. congruence.
      * destruct (N.eqb (qlen s) (s_cap s)) eqn:Ef.
        -- (* full: go and close *)
           destruct Hi as [A B C D E F G H I J K L M N O].
           constructor; simpl; auto.
           ++ now rewrite D, Epc.
           ++ rewrite G, Epc. reflexivity.
           ++ intros b Hb. specialize (H b Hb). now rewrite Epc in H.
           ++ intros y Hy. apply I. now rewrite Epc.
           ++ now rewrite Epc in M.
           ++ exists s. split; auto.
           ++ intros i c0 Hn. eapply cl_ok_frame; [..|apply (O i c0 Hn)]; simpl; auto.
              intros j. unfold pend_list. simpl. now rewrite Epc.
        -- (* room: go and send *)
           destruct Hi as [A B C D E F G H I J K L M N O].
           constructor; simpl; auto.
           ++ now rewrite D, Epc.
           ++ rewrite G, Epc. reflexivity.
           ++ intros b Hb. specialize (H b Hb). now rewrite Epc in H.
           ++ intros y Hy. apply I. now rewrite Epc.
           ++ now rewrite Epc in M.
           ++ exists s. split; auto. split; auto.
              apply N.eqb_neq in Ef. pose proof (so_len s (u_ok _ _ _ _ _ _ Hsi)). lia.
           ++ intros i c0 Hn. eapply cl_ok_frame; [..|apply (O i c0 Hn)]; simpl; auto.
              intros j. unfold pend_list. simpl. now rewrite Epc.
  - (* PClose: the once body *)
    pose proof (i_pcsub _ _ _ _ _ Hi) as Hpc. rewrite Epc in Hpc. destruct Hpc as (s & Hsub & Hcl).
    rewrite Hsub.
    assert (Hin : In k (todo_of (g_ppc st))) by (rewrite Epc; now left).
    destruct (todo_sub st k Hi Hin) as (c & s1 & Hc & Hs & Hsub1 & Hsi & Hlisted).
    rewrite Hsub in Hsub1. inversion Hsub1; subst s1. clear Hsub1.
    pose proof (u_ok _ _ _ _ _ _ Hsi) as Hok.
    pose proof (i_todo_nodup _ _ _ _ _ Hi) as Hnd. rewrite Epc in Hnd. simpl in Hnd.
    inversion Hnd as [|? ? Hk Hnd']; subst.
    rewrite (so_once s Hok), Hcl.
    unfold chan_close, set_closed, set_once. simpl. rewrite (so_ch s Hok), Hcl.
    set (s' := mkSub (s_q s) (s_cap s) true true true (s_ncloses s + 1)%N (s_recv s) (s_listed s)).
    destruct Hi as [A B C D E F G H I J K L M N O].
    constructor; simpl; auto.
    + now rewrite D, Epc.
    + rewrite upd_nth_length. exact F.
    + rewrite G, Epc. reflexivity.
    + intros b Hb. specialize (H b Hb). now rewrite Epc in H.
    + intros y Hy. apply I. now rewrite Epc.
    + intros i Hi'. destruct (K i Hi') as (c0 & s0 & Hc0 & Hs0).
      rewrite nth_error_upd_nth. destruct (Nat.eqb k i); rewrite Hc0; simpl.
      * exists (set_csub s' c0), s'. split; reflexivity.
      * exists c0, s0. split; auto.
    + rewrite Epc in M. simpl in M. intros j Hj. apply M. now right.
    + change (upd_nth k (set_csub s') (g_clients st)) with (g_clients (set_ppc (put_sub st k s') (PLoop x todo))).
      eapply (put_sub_clients buffered size bursts st _ k s s'); simpl; auto.
      * intros j Hj. unfold pend_list. simpl. rewrite Epc. simpl.
        apply Nat.eqb_neq in Hj. now rewrite Hj.
      * intros c0 Hc0 Hs0 [U1 U2 U3 U4 U5 U6 (n & U7 & U8 & U9)].
        constructor; rewrite ?burst_at_set_csub, ?later_of_set_csub; simpl; auto.
        -- destruct U1 as [V1 V2 V3 V4]. unfold s'. constructor; simpl; auto; try exact V1; rewrite V4, Hcl; reflexivity.
        -- exists n. split; [exact U7|]. split; [|discriminate]. intros _.
           assert (Hch : s_chclosed s = false) by (rewrite (so_ch s Hok); exact Hcl).
           specialize (U9 Hch). unfold pend_list in U9. rewrite Epc in U9. simpl in U9.
           rewrite Nat.eqb_refl, Hlisted in U9. simpl in U9. lia.
  - (* PSend: the send is enabled and delivers the block *)
    pose proof (i_pcsub _ _ _ _ _ Hi) as Hpc. rewrite Epc in Hpc. destruct Hpc as (s & Hsub & Hcl & Hlt).
    rewrite Hsub.
    assert (Hin : In k (todo_of (g_ppc st))) by (rewrite Epc; now left).
    destruct (todo_sub st k Hi Hin) as (c & s1 & Hc & Hs & Hsub1 & Hsi & Hlisted).
    rewrite Hsub in Hsub1. inversion Hsub1; subst s1. clear Hsub1.
    pose proof (u_ok _ _ _ _ _ _ Hsi) as Hok.
    pose proof (i_todo_nodup _ _ _ _ _ Hi) as Hnd. rewrite Epc in Hnd. simpl in Hnd.
    inversion Hnd as [|? ? Hk Hnd']; subst.
    unfold chan_send. rewrite (so_ch s Hok), Hcl.
    assert (Hltb : N.ltb (qlen s) (s_cap s) = true) by now apply N.ltb_lt.
    rewrite Hltb.
    set (s' := mkSub (s_q s ++ [x]) (s_cap s) false (s_once s) false (s_ncloses s) (s_recv s) (s_listed s)).
    destruct (i_last _ _ _ _ _ Hi x) as (P' & HP); [now rewrite Epc|].
    destruct Hi as [A B C D E F G H I J K L M N O].
    constructor; simpl; auto.
    + now rewrite D, Epc.
    + rewrite upd_nth_length. exact F.
    + rewrite G, Epc. reflexivity.
    + intros b Hb. specialize (H b Hb). now rewrite Epc in H.
    + intros y Hy. apply I. now rewrite Epc.
    + intros i Hi'. destruct (K i Hi') as (c0 & s0 & Hc0 & Hs0).
      rewrite nth_error_upd_nth. destruct (Nat.eqb k i); rewrite Hc0; simpl.
      * exists (set_csub s' c0), s'. split; reflexivity.
      * exists c0, s0. split; auto.
    + rewrite Epc in M. simpl in M. intros j Hj. apply M. now right.
    + change (upd_nth k (set_csub s') (g_clients st)) with (g_clients (set_ppc (put_sub st k s') (PLoop x todo))).
      eapply (put_sub_clients buffered size bursts st _ k s s'); simpl; auto.
      * intros j Hj. unfold pend_list. simpl. rewrite Epc. simpl.
        apply Nat.eqb_neq in Hj. now rewrite Hj.
      * intros c0 Hc0 Hs0 [U1 U2 U3 U4 U5 U6 (n & U7 & U8 & U9)].
        assert (Hch : s_chclosed s = false) by (rewrite (so_ch s U1); exact Hcl).
        constructor; rewrite ?burst_at_set_csub, ?later_of_set_csub; simpl; auto.
        -- destruct U1 as [V1 V2 V3 V4]. unfold s'. constructor; simpl; auto.
           ++ unfold qlen in *. simpl. rewrite app_length. simpl. lia.
           ++ now rewrite V2.
           ++ now rewrite V4, Hcl.
        -- specialize (U9 Hch). unfold pend_list in U9. rewrite Epc in U9. simpl in U9.
           rewrite Nat.eqb_refl, Hlisted in U9. simpl in U9.
           (* the missing block is the last pushed one: x *)
           assert (Hstop : c_stop c0 = None).
           { destruct (c_stop c0); auto. destruct U5. congruence. }
           set (later := later_of (g_pushed st) c0) in *.
           assert (Hlater : later = firstn n later ++ [x]).
           { unfold later, later_of in *. rewrite Hstop in *.
             rewrite firstn_all2 in * by (rewrite skipn_length; lia).
             rewrite HP in *. rewrite skipn_length, app_length in U9. simpl in U9.
             rewrite skipn_snoc_le by lia. rewrite firstn_app.
             rewrite skipn_length.
             replace (n - (length P' - c_start c0))%nat with 0%nat by lia.
             rewrite firstn_all2 by (rewrite skipn_length; lia). simpl. now rewrite app_nil_r. }
           clearbody later.
           exists (S n). split; [|split].
           ++ rewrite app_assoc, U7, <- app_assoc. f_equal.
              rewrite (firstn_all2 (n:=S n) later) by lia. exact (eq_sym Hlater).
           ++ discriminate.
           ++ intros _. unfold pend_list. simpl.
              assert (Hk' : existsb (Nat.eqb k) todo = false) by now apply existsb_eqb_false.
              rewrite Hk', andb_false_r. lia.
Qed.

(* ------------------------------------------------------------------ clients *)

Lemma holds_false_when_free st :
  Ginv st -> g_wlock st = None ->
  forall j cj, nth_error (g_clients st) j = Some cj -> holds cj = false.
Proof.
  intros Hi Hw j cj Hn. destruct (holds cj) eqn:E; auto.
  apply (k_holds _ _ _ _ _ _ (i_clients _ _ _ _ _ Hi j cj Hn)) in E. congruence.
Qed.

Lemma holds_false_other st i :
  Ginv st -> g_wlock st = Some i ->
  forall j cj, j <> i -> nth_error (g_clients st) j = Some cj -> holds cj = false.
Proof.
  intros Hi Hw j cj Hne Hn. destruct (holds cj) eqn:E; auto.
  apply (k_holds _ _ _ _ _ _ (i_clients _ _ _ _ _ Hi j cj Hn)) in E. congruence.
Qed.

Lemma sub_of_clients st st' : g_clients st' = g_clients st -> forall k, sub_of st' k = sub_of st k.
Proof. intros H k. unfold sub_of. now rewrite H. Qed.

(* taking the write lock: only the pc of client i and the lock change *)
Lemma lock_step_inv st i c pc' :
  Ginv st -> nth_error (g_clients st) i = Some c ->
  g_rlock st = false -> g_wlock st = None ->
  (pc' = CSubLocked \/ pc' = CUnsubLocked) ->
  (c_sub c = None <-> (pc' = CStart \/ pc' = CSubLocked)) ->
  (forall s, c_sub c = Some s -> (s_listed s = true <-> (pc' = CSubscribed \/ pc' = CUnsubLocked))) ->
  Ginv (mkC (g_buf st) (g_size st) (g_order st) false (Some i) (g_ppc st) (g_script st)
            (set_client st i (mkClient pc' (c_burst c) (c_sub c) (c_start c) (c_stop c)))
            (g_pushed st) (g_bad st)).
Proof.
  intros Hi Ec Er Ew Hpc Hnosub Hlisted.
  set (c' := mkClient pc' (c_burst c) (c_sub c) (c_start c) (c_stop c)).
  assert (Hsubof : forall k, match nth_error (set_client st i c') k with Some c0 => c_sub c0 | None => None end
                             = sub_of st k).
  { intros k. rewrite nth_set_client. unfold sub_of. destruct (Nat.eqb_spec i k) as [->|Hne]; auto.
    rewrite Ec. reflexivity. }
  pose proof (holds_false_when_free st Hi Ew) as Hfree.
  destruct Hi as [A B C D E F G H I J K L M N O].
  constructor; simpl; auto.
  - now rewrite <- D.
  - discriminate.
  - intros j Hj. inversion Hj; subst j. unfold set_client. rewrite upd_nth_length.
    apply nth_error_Some. congruence.
  - intros j Hj. destruct (K j Hj) as (c0 & s0 & Hc0 & Hs0).
    rewrite nth_set_client. destruct (Nat.eqb_spec i j) as [->|Hne].
    + rewrite Hc0. simpl. exists c', s0. split; auto. simpl. rewrite Ec in Hc0. now inversion Hc0.
    + exists c0, s0. auto.
  - destruct (g_ppc st); auto.
    + destruct N as (s & N1 & N2). exists s. split; auto. unfold sub_of. simpl. rewrite Hsubof. exact N1.
    + destruct N as (s & N1 & N2). exists s. split; auto. unfold sub_of. simpl. rewrite Hsubof. exact N1.
  - intros j cj Hn. rewrite nth_set_client in Hn.
    destruct (Nat.eqb_spec i j) as [->|Hne].
    + rewrite Ec in Hn. simpl in Hn. inversion Hn; subst cj. clear Hn.
      destruct (O j c Ec) as [H1 H2 H3 H4]. constructor; simpl; auto.
      * unfold holds. simpl. destruct Hpc as [-> | ->]; split; auto.
      * intros s Hs. destruct (H4 s Hs) as [U1 U2 U3 U4 U5 U6 U7].
        constructor; simpl; auto.
    + destruct (O j cj Hn) as [H1 H2 H3 H4]. constructor; auto.
      * simpl. rewrite (Hfree j cj Hn). split; [discriminate|]. intros Hj. inversion Hj. congruence.
      * intros s Hs. destruct (H4 s Hs) as [U1 U2 U3 U4 U5 U6 U7].
        constructor; simpl; auto.
Qed.

Lemma NoDup_snoc' (l : list nat) x : NoDup l -> ~ In x l -> NoDup (l ++ [x]).
Proof.
  induction l as [|a l IH]; intros Hnd Hnin; simpl.
  - constructor; [auto|constructor].
  - inversion Hnd; subst. constructor.
    + intros Hin. apply in_app_or in Hin. destruct Hin as [Hin|[Hin|[]]]; auto.
      subst. apply Hnin. now left.
    + apply IH; auto. intros Hin. apply Hnin. now right.
Qed.

Lemma filter_neq_In i (l : list nat) j : In j (filter (fun x => negb (Nat.eqb x i)) l) <-> In j l /\ j <> i.
Proof.
  rewrite filter_In. split; intros [H1 H2]; split; auto.
  - apply negb_true_iff, Nat.eqb_neq in H2. exact H2.
  - apply negb_true_iff, Nat.eqb_neq. exact H2.
Qed.

Lemma client_step_inv st i : Ginv st -> Ginv (client_step st i).
Proof.
  intros Hi. unfold client_step.
  destruct (nth_error (g_clients st) i) as [c|] eqn:Ec; auto.
  pose proof (i_clients _ _ _ _ _ Hi i c Ec) as Hcl.
  destruct (c_pc c) eqn:Epc.
  - (* subscribe: Lock *)
    destruct (g_rlock st) eqn:Er; simpl; auto.
    destruct (g_wlock st) as [w|] eqn:Ew; simpl; auto.
    apply lock_step_inv; auto.
    + split; auto. intros _. apply (k_nosub _ _ _ _ _ _ Hcl). now left.
    + intros s Hs. exfalso.
      assert (Hn : c_sub c = None) by (apply (k_nosub _ _ _ _ _ _ Hcl); now left). congruence.
  - (* subscribe: body and Unlock *)
    assert (Hw : g_wlock st = Some i) by (apply (k_holds _ _ _ _ _ _ Hcl); unfold holds; now rewrite Epc).
    assert (Hr : g_rlock st = false).
    { destruct (g_rlock st) eqn:Er; auto. apply (i_excl _ _ _ _ _ Hi) in Er. congruence. }
    assert (Hidle : g_ppc st = PIdle).
    { pose proof (i_rlock _ _ _ _ _ Hi) as D. rewrite Hr in D. destruct (g_ppc st); simpl in D; congruence. }
    assert (Hnone : c_sub c = None) by (apply (k_nosub _ _ _ _ _ _ Hcl); now right).
    destruct (plan_push_ok (g_buf st) (c_burst c)) as (Hplan & Hmk & Hpush & Hsok).
    rewrite Hplan, Hmk, Hpush.
    set (w := match g_buf st with Some bf => buf_all bf | None => [] end) in *.
    set (B := burst_of (c_burst c) w) in *.
    set (cap := Z.to_N (chan_base + zlen B)) in *.
    set (c' := mkClient CSubscribed (c_burst c) (Some (created_sub B cap)) (length (g_pushed st)) None).
    assert (Hnotin : ~ In i (g_order st)).
    { intros Hin. destruct (i_order_sub _ _ _ _ _ Hi i Hin) as (c0 & s0 & Hc0 & Hs0).
      rewrite Ec in Hc0. inversion Hc0; subst c0. congruence. }
    assert (HB : B = Burst_at (g_pushed st) c').
    { unfold burst_at, B, w. simpl. rewrite firstn_all.
      destruct (g_buf st) as [b|] eqn:Eb.
      - destruct (i_buf _ _ _ _ _ Hi b Eb) as [_ Hwin]. rewrite Hidle in Hwin.
        assert (Hbuf : buffered = true).
        { destruct buffered; auto. assert (g_buf st = None) by now apply (i_buffered _ _ _ _ _ Hi). congruence. }
        rewrite Hbuf. unfold buf_all. now rewrite Hwin.
      - assert (Hbuf : buffered = false) by now apply (i_buffered _ _ _ _ _ Hi). now rewrite Hbuf. }
    pose proof (holds_false_other st i Hi Hw) as Hother.
    destruct Hi as [A B0 C D E F G H I J K L M N O].
    constructor; simpl; auto.
    + intros; discriminate.
    + apply NoDup_snoc'; auto.
    + intros j Hj. apply in_app_or in Hj. rewrite nth_set_client.
      destruct (Nat.eqb_spec i j) as [->|Hne].
      * rewrite Ec. simpl. exists c', (created_sub B cap). auto.
      * destruct Hj as [Hj|[Hj|[]]]; [|congruence]. destruct (K j Hj) as (c0 & s0 & Hc0 & Hs0). eauto.
    + rewrite Hidle. intros j [].
    + now rewrite Hidle.
    + intros j cj Hn. rewrite nth_set_client in Hn.
      destruct (Nat.eqb_spec i j) as [->|Hne].
      * rewrite Ec in Hn. simpl in Hn. inversion Hn; subst cj. clear Hn.
        destruct (O j c Ec) as [H1 H2 H3 H4]. constructor; simpl; auto.
        -- unfold holds. simpl. split; discriminate.
        -- split; [discriminate|]. intros [Hx|Hx]; discriminate.
        -- intros s Hs. inversion Hs; subst s. clear Hs.
           constructor; simpl; auto.
           ++ split; auto.
           ++ split; auto. intros _. apply in_or_app. right. now left.
           ++ fold c'. now rewrite <- HB.
           ++ exists 0%nat. fold c'. rewrite <- HB. unfold later_of. simpl.
              rewrite Nat.sub_diag. simpl. rewrite app_nil_r.
              unfold pend_list. simpl. rewrite Hidle. simpl.
              split; [reflexivity|]. split; [discriminate|reflexivity].
      * destruct (O j cj Hn) as [H1 H2 H3 H4]. constructor; auto.
        -- simpl. rewrite (Hother j cj (not_eq_sym Hne) Hn). split; discriminate.
        -- intros s Hs. destruct (H4 s Hs) as [U1 U2 U3 U4 U5 U6 (n & U7 & U8 & U9)].
           constructor; simpl; auto.
           ++ rewrite U3, in_app_iff. simpl. split; [tauto|]. intros [Hx|[Hx|[]]]; auto. congruence.
           ++ exists n. split; [exact U7|]. split; [exact U8|].
              unfold pend_list in *. simpl. rewrite Hidle in *. exact U9.
  - (* unsubscribe: Lock *)
    destruct (g_rlock st) eqn:Er; simpl; auto.
    destruct (g_wlock st) as [w|] eqn:Ew; simpl; auto.
    apply lock_step_inv; auto.
    + split.
      * intros Hn. apply (k_nosub _ _ _ _ _ _ Hcl) in Hn. destruct Hn; congruence.
      * intros [Hx|Hx]; discriminate.
    + intros s Hs. pose proof (k_sub _ _ _ _ _ _ Hcl s Hs) as Hsi.
      rewrite (u_listed _ _ _ _ _ _ Hsi), Epc. split; auto.
  - (* unsubscribe: body and Unlock *)
    assert (Hw : g_wlock st = Some i) by (apply (k_holds _ _ _ _ _ _ Hcl); unfold holds; now rewrite Epc).
    assert (Hr : g_rlock st = false).
    { destruct (g_rlock st) eqn:Er; auto. apply (i_excl _ _ _ _ _ Hi) in Er. congruence. }
    assert (Hidle : g_ppc st = PIdle).
    { pose proof (i_rlock _ _ _ _ _ Hi) as D. rewrite Hr in D. destruct (g_ppc st); simpl in D; congruence. }
    destruct (c_sub c) as [s|] eqn:Es.
    2:{ exfalso. assert (Hx : c_pc c = CStart \/ c_pc c = CSubLocked) by now apply (k_nosub _ _ _ _ _ _ Hcl).
        destruct Hx; congruence. }
    pose proof (k_sub _ _ _ _ _ _ Hcl s Es) as Hsi.
    set (c' := mkClient CDone (c_burst c) (option_map (set_listed false) (Some s)) (c_start c) (Some (length (g_pushed st)))).
    pose proof (holds_false_other st i Hi Hw) as Hother.
    destruct Hi as [A B0 C D E F G H I J K L M N O].
    constructor; simpl; auto.
    + intros; discriminate.
    + now apply NoDup_filter.
    + intros j Hj. apply filter_neq_In in Hj. destruct Hj as [Hj Hne].
      rewrite nth_set_client. apply Nat.eqb_neq in Hne. rewrite Nat.eqb_sym, Hne. now apply K.
    + rewrite Hidle. intros j [].
    + now rewrite Hidle.
    + intros j cj Hn. rewrite nth_set_client in Hn.
      destruct (Nat.eqb_spec i j) as [->|Hne].
      * rewrite Ec in Hn. simpl in Hn. inversion Hn; subst cj. clear Hn.
        destruct (O j c Ec) as [H1 H2 H3 H4]. constructor; simpl; auto.
        -- unfold holds. simpl. split; discriminate.
        -- split; [discriminate|]. intros [Hx|Hx]; discriminate.
        -- intros s1 Hs1. inversion Hs1; subst s1. clear Hs1.
           destruct Hsi as [U1 U2 U3 U4 U5 U6 (n & U7 & U8 & U9)].
           assert (Hlisted : s_listed s = true) by (apply U2; now right).
           assert (Hstop : c_stop c = None).
           { destruct (c_stop c); auto. destruct U5. congruence. }
           assert (Hlater : later_of (g_pushed st) c' = later_of (g_pushed st) c).
           { unfold later_of. simpl. now rewrite Hstop. }
           constructor; simpl; auto.
           ++ destruct U1 as [V1 V2 V3 V4]. constructor; auto.
           ++ split; [discriminate|]. intros [Hx|Hx]; discriminate.
           ++ split; [discriminate|]. intros Hx. apply filter_neq_In in Hx. destruct Hx. congruence.
           ++ exists n. rewrite Hlater. split; [exact U7|]. split; [exact U8|].
              intros Hc. specialize (U9 Hc). unfold pend_list in U9. rewrite Hidle in U9. simpl in U9.
              rewrite andb_false_r in U9. exact U9.
      * destruct (O j cj Hn) as [H1 H2 H3 H4]. constructor; auto.
        -- simpl. rewrite (Hother j cj (not_eq_sym Hne) Hn). split; discriminate.
        -- intros s1 Hs1. destruct (H4 s1 Hs1) as [U1 U2 U3 U4 U5 U6 (n & U7 & U8 & U9)].
           constructor; simpl; auto.
           ++ rewrite U3, filter_neq_In. split; [|tauto]. intros Hx. split; auto.
           ++ exists n. split; [exact U7|]. split; [exact U8|].
              unfold pend_list in *. simpl. rewrite Hidle in *. exact U9.
  - exact Hi.
Qed.

(* ------------------------------------------------------------------ consumers *)

Lemma cons_step_inv st i : Ginv st -> Ginv (cons_step st i).
Proof.
  intros Hi. unfold cons_step.
  destruct (sub_of st i) as [s|] eqn:Hsub; auto.
  destruct (sub_recv s) as [r s'] eqn:Er. destruct r as [x| |]; auto.
  assert (Hs' : s' = mkSub (tl (s_q s)) (s_cap s) (s_closed s) (s_once s) (s_chclosed s) (s_ncloses s)
                           (s_recv s ++ [x]) (s_listed s) /\ s_q s = x :: tl (s_q s)).
  { unfold sub_recv in Er. destruct (s_q s) as [|y q] eqn:Eq.
    - destruct (s_chclosed s); inversion Er.
    - inversion Er; subst. simpl. auto. }
  destruct Hs' as [Hs' Hq].
  destruct Hi as [A B C D E F G H I J K L M N O].
  constructor; simpl; auto.
  - rewrite upd_nth_length. exact F.
  - intros j Hj. destruct (K j Hj) as (c0 & s0 & Hc0 & Hs0).
    rewrite nth_error_upd_nth. destruct (Nat.eqb i j); rewrite Hc0; simpl.
    + exists (set_csub s' c0), s'. split; reflexivity.
    + exists c0, s0. split; auto.
  - destruct (g_ppc st) as [|y|y|y todo|y k todo|y k todo]; auto.
    + destruct N as (s0 & N1 & N2).
      change (sub_of (put_sub st i s') k) with (sub_of (put_sub st i s') k).
      unfold sub_of in *. simpl. rewrite nth_error_upd_nth.
      destruct (Nat.eqb_spec i k) as [->|Hne].
      * destruct (nth_error (g_clients st) k) as [c0|]; [|discriminate]. simpl.
        rewrite Hsub in N1. inversion N1; subst s0. exists s'. split; auto. rewrite Hs'. exact N2.
      * exists s0. auto.
    + destruct N as (s0 & N1 & N2 & N3).
      unfold sub_of in *. simpl. rewrite nth_error_upd_nth.
      destruct (Nat.eqb_spec i k) as [->|Hne].
      * destruct (nth_error (g_clients st) k) as [c0|]; [|discriminate]. simpl.
        rewrite Hsub in N1. inversion N1; subst s0. exists s'. split; auto. rewrite Hs'. simpl.
        split; [exact N2|]. unfold qlen in *. simpl. rewrite Hq in N3. simpl in N3. lia.
      * exists s0. auto.
  - change (upd_nth i (set_csub s') (g_clients st)) with (g_clients (put_sub st i s')).
    eapply (put_sub_clients buffered size bursts st _ i s s'); simpl; auto.
    intros c0 Hc0 Hs0 [U1 U2 U3 U4 U5 U6 (n & U7 & U8 & U9)].
    constructor; rewrite ?burst_at_set_csub, ?later_of_set_csub; simpl; auto.
    + replace s' with (snd (sub_recv s)) by now rewrite Er. now apply sub_recv_ok.
    + now rewrite Hs'.
    + now rewrite Hs'.
    + destruct (c_stop c0); now rewrite Hs'.
    + now rewrite Hs'.
    + exists n. rewrite Hs'. simpl. split; [|split; auto].
      rewrite <- app_assoc. simpl. rewrite <- Hq. exact U7.
Qed.

Theorem cstep_inv st t : Ginv st -> Ginv (cstep st t).
Proof.
  destruct t; simpl.
  - apply prod_step_inv.
  - apply client_step_inv.
  - apply cons_step_inv.
Qed.

Theorem reachable_inv st : reachable buffered size script bursts st -> Ginv st.
Proof.
  intros (sched & ->). unfold crun.
  assert (H : forall s0, Ginv s0 -> Ginv (fold_left cstep sched s0)).
  { induction sched as [|t sched IH]; intros s0 H0; simpl; auto. apply IH. now apply cstep_inv. }
  apply H, init_inv.
Qed.

End Steps.
