From BV Require Import Base.Prelude.

Lemma eqb_list_eq a b : eqb_list a b = true <-> a = b.
Proof.
  revert b; induction a as [|x a IH]; intros [|y b]; simpl; split; intros H; try congruence; try discriminate.
  - apply andb_true_iff in H as [H1 H2]. apply N.eqb_eq in H1. apply IH in H2. congruence.
  - inversion H; subst. rewrite N.eqb_refl. simpl. apply IH. reflexivity.
Qed.

Lemma eqb_list_refl a : eqb_list a a = true.
Proof. apply eqb_list_eq. reflexivity. Qed.

Lemma memN_In x l : memN x l = true <-> In x l.
Proof.
  induction l as [|y l IH]; simpl.
  - split; [discriminate | tauto].
  - rewrite orb_true_iff, N.eqb_eq, IH. split; intros [H|H]; auto.
Qed.

Lemma list_eqb_eq {A} (eqb : A -> A -> bool) :
  (forall x y, eqb x y = true <-> x = y) ->
  forall a b, list_eqb eqb a b = true <-> a = b.
Proof.
  intros Heq a; induction a as [|x a IH]; intros [|y b]; simpl; split; intros H; try congruence; try discriminate.
  - apply andb_true_iff in H as [H1 H2]. apply Heq in H1. apply IH in H2. congruence.
  - inversion H; subst. apply andb_true_iff. split; [apply Heq | apply IH]; reflexivity.
Qed.
