(* C12 — JoiningSource: termination after Shutdown (fixed code), hang of the unfixed code,
   no handler call after Run returned. *)
From BV Require Import Base.Prelude Model.Lifecycle Proofs.C12_Sched Proofs.C12_Joining.
Import Jn.

Definition rank_run (s : state) : nat :=
  match pcr s with
  | PStart => 5 | PRegLive _ => 2
  | PRunLive => 2 * length (lscript s) + 2
  | PInHLive _ _ => 2 * length (lscript s) + 3
  | PGetFile => 4 | PRegFile => 2
  | PRunFile => 3 * length (fscript s) + 4
  | PInHFile _ _ => 3 * length (fscript s) + 5
  | PInJoinF => 3 * length (fscript s) + 6
  | PJoinRet => 3 * length (fscript s) + 5
  | PShut => 1 | PSdBusy => 0 | PRet => 0
  end.
Definition rank_x (s : state) : nat := match pcx s with XIdle => 1 | _ => 0 end.
Definition rank_sd (s : state) : nat := match sdst s with None => 4 | Some g => sd_rank g end.
Definition rank (s : state) : nat := rank_run s + rank_x s + rank_sd s.

Definition Ph (s : state) : Prop := Inv s /\ terminating s = true.

Ltac unfR := unfold rank, rank_run, rank_x, rank_sd in *.

Lemma term_step : forall c s t, terminating s = true -> terminating (step c s t) = true.
Proof.
  intros c s t H. unfold terminating in *. unfS.
  destruct t; [destruct (pcr s) eqn:Ep | destruct (pcx s) eqn:Ep]; red_proj.
  all: case_step.
  all: try discriminate; try reflexivity.
Qed.

Lemma ph_step : forall lf fa s t, Ph s -> Ph (step (fixed_cfg lf fa) s t).
Proof. intros lf fa s t [Hi Ht]. split; [apply inv_step; exact Hi | apply term_step; exact Ht]. Qed.

Lemma rank_step : forall lf fa s t, Ph s ->
  step (fixed_cfg lf fa) s t = s \/ rank (step (fixed_cfg lf fa) s t) < rank s.
Proof.
  intros lf fa s t [Hi Ht]. unfold fixed_cfg. unfold terminating in Ht. unfS.
  destruct t; [destruct (pcr s) eqn:Ep | destruct (pcx s) eqn:Ep]; red_proj.
  all: case_step.
  all: try (left; reflexivity).
  all: right; unfR; red_proj; case_step; simpl; try lia; try discriminate.
  (* what is left are states excluded by the invariant (a busy thread with the shutdown complete) *)
  all: exfalso; unfI; destruct Hi as (A1 & A2 & A3 & B & C1 & C2 & D1 & D2); rw_hyps; simpl in *; intuition discriminate.
Qed.

Lemma neq_by_pcr : forall s s', pcr s' <> pcr s -> s' <> s.
Proof. intros s s' H E. apply H. rewrite E. reflexivity. Qed.
Lemma neq_by_pcx : forall s s', pcx s' <> pcx s -> s' <> s.
Proof. intros s s' H E. apply H. rewrite E. reflexivity. Qed.
Lemma neq_by_sdst : forall s s', sdst s' <> sdst s -> s' <> s.
Proof. intros s s' H E. apply H. rewrite E. reflexivity. Qed.

(* with the shutdown complete, the Run thread is never blocked *)
Lemma run_enabled : forall lf fa s, Inv s -> terminated s = true -> returned s = false ->
  pcr (step (fixed_cfg lf fa) s TRun) <> pcr s.
Proof.
  intros lf fa s Hi Ht Hr. unfold terminated, returned, fixed_cfg in *. unfS.
  unfI; destruct Hi as (A1 & A2 & A3 & B & C1 & C2 & D1 & D2).
  destruct (sdst s) as [[]|] eqn:Eg; try discriminate.
  destruct (pcr s) eqn:Ep; try discriminate; simpl in *.
  all: case_step; try discriminate.
  all: rw_hyps; simpl in *; intuition discriminate.
Qed.

Lemma progress : forall lf fa s, Ph s -> done s = false -> exists t, step (fixed_cfg lf fa) s t <> s.
Proof.
  intros lf fa s [Hi Ht] Hd. unfold done in Hd.
  destruct (terminated s) eqn:Etd.
  - rewrite andb_true_r in Hd. exists TRun. apply neq_by_pcr. apply run_enabled; assumption.
  - (* the effective Shutdown call is in progress: its thread is enabled *)
    unfold terminating, terminated in *.
    pose proof Hi as Hi'. unfI. destruct Hi' as (A1 & A2 & A3 & B & C1 & C2 & D1 & D2).
    destruct (sdst s) as [[]|] eqn:Eg; try discriminate; simpl in *.
    + destruct (A3 eq_refl) as [Hx|Hx].
      * exists TX. apply neq_by_sdst. unfold fixed_cfg. unfS.
        destruct (pcx s); try discriminate. red_proj. case_step; discriminate.
      * exists TRun. apply neq_by_sdst. unfold fixed_cfg. unfS.
        destruct (pcr s); try discriminate. red_proj. case_step; discriminate.
    + destruct (A3 eq_refl) as [Hx|Hx].
      * exists TX. apply neq_by_sdst. unfold fixed_cfg. unfS.
        destruct (pcx s); try discriminate. red_proj. case_step; discriminate.
      * exists TRun. apply neq_by_sdst. unfold fixed_cfg. unfS.
        destruct (pcr s); try discriminate. red_proj. case_step; discriminate.
Qed.

Lemma done_step : forall c s t, done s = true -> done (step c s t) = true.
Proof.
  intros c s t Hd. unfold done, returned, terminated in *. apply andb_prop in Hd. destruct Hd as [Hr Ht].
  destruct (pcr s) eqn:Ep; try discriminate. destruct (sdst s) as [[]|] eqn:Eg; try discriminate.
  unfS. destruct t; [|destruct (pcx s) eqn:Ex]; red_proj; case_step; auto.
Qed.

Theorem jn_fair_termination : forall lf fa fs ls sched0 sched,
  let s := run (step (fixed_cfg lf fa)) sched0 (init fs ls) in
  terminating s = true ->
  fair_rounds (step (fixed_cfg lf fa)) (rank s) s sched ->
  done (run (step (fixed_cfg lf fa)) sched s) = true.
Proof.
  intros lf fa fs ls sched0 sched s Ht Hf.
  apply (fair_termination (step (fixed_cfg lf fa)) Ph rank done (ph_step lf fa) (rank_step lf fa) (progress lf fa)
           (fun s t _ => done_step (fixed_cfg lf fa) s t) (rank s) s sched);
    [split; [apply inv_run | exact Ht] | apply le_n | exact Hf].
Qed.

(* once Shutdown has been called (the once is won) and the terminating channel is not closed yet,
   the thread that won is enabled and its step closes the channel *)
Theorem jn_closing : forall lf fa fs ls sched,
  let s := run (step (fixed_cfg lf fa)) sched (init fs ls) in
  sdst s = Some SClose -> exists t, terminating (step (fixed_cfg lf fa) s t) = true.
Proof.
  intros lf fa fs ls sched s Hg. pose proof (inv_run lf fa fs ls sched) as Hi. fold s in Hi.
  unfI. destruct Hi as (A1 & A2 & A3 & B & C1 & C2 & D1 & D2). rewrite Hg in *. simpl in *.
  destruct (A3 eq_refl) as [Hx|Hx].
  - exists TX. unfold fixed_cfg, terminating. unfS. destruct (pcx s); try discriminate. red_proj. reflexivity.
  - exists TRun. unfold fixed_cfg, terminating. unfS. destruct (pcr s); try discriminate. red_proj. reflexivity.
Qed.

Theorem jn_no_deadlock : forall lf fa fs ls sched,
  let s := run (step (fixed_cfg lf fa)) sched (init fs ls) in
  terminated s = true -> returned s = false -> step (fixed_cfg lf fa) s TRun <> s.
Proof.
  intros lf fa fs ls sched s Ht Hr. apply neq_by_pcr. apply run_enabled; [apply inv_run | exact Ht | exact Hr].
Qed.

(* ------------------------------------------------------------ the unfixed code hangs *)
Definition unfixed_cfg (lf fa : bool) : cfg := mkcfg false lf fa.

(* place 1: Shutdown completes after the live source is obtained, before it is registered *)
Definition hang_sched_live : list tid := [TRun; TX; TX; TX; TX; TRun; TRun].
Theorem jn_unfixed_hangs_live :
  let s := run (step (unfixed_cfg true true)) hang_sched_live (init [] []) in
  terminated s = true /\ returned s = false /\ forall t, step (unfixed_cfg true true) s t = s.
Proof. vm_compute. repeat split; auto. intros []; reflexivity. Qed.

(* place 2: ... after the file source is obtained, before it is registered *)
Definition hang_sched_file : list tid := [TRun; TRun; TX; TX; TX; TX; TRun; TRun].
Theorem jn_unfixed_hangs_file :
  let s := run (step (unfixed_cfg false true)) hang_sched_file (init [] []) in
  terminated s = true /\ returned s = false /\ forall t, step (unfixed_cfg false true) s t = s.
Proof. vm_compute. repeat split; auto. intros []; reflexivity. Qed.

(* place 3 (+ fileSourceHandler): Shutdown completes inside the handler call that obtains the live source
   (PInJoinF: inside the live-factory call of the join) *)
Definition hang_sched_join : list tid := [TRun; TRun; TRun; TRun; TX; TX; TX; TX; TRun; TRun; TRun; TRun].
Theorem jn_unfixed_hangs_join :
  let s := run (step (unfixed_cfg false true)) hang_sched_join (init [FJoin 4] []) in
  terminated s = true /\ returned s = false /\ forall t, step (unfixed_cfg false true) s t = s.
Proof. vm_compute. repeat split; auto. intros []; reflexivity. Qed.

Example jn_fixed_same_schedules :
  done (run (step (fixed_cfg true true)) hang_sched_live (init [] [])) = true /\
  done (run (step (fixed_cfg false true)) hang_sched_file (init [] [])) = true /\
  done (run (step (fixed_cfg false true)) (hang_sched_join ++ [TRun]) (init [FJoin 4] [])) = true.
Proof. vm_compute. auto. Qed.

(* ------------------------------------------------------------ no handler call after Run returned *)
Lemma returned_step : forall c s t, returned s = true ->
  returned (step c s t) = true /\ hbegun (step c s t) = hbegun s.
Proof.
  intros c s t H. unfold returned in *. destruct (pcr s) eqn:Ep; try discriminate.
  unfS. destruct t; [|destruct (pcx s) eqn:Ex]; red_proj; case_step; auto.
Qed.

Theorem jn_no_call_after : forall c sched s, returned s = true ->
  hbegun (run (step c) sched s) = hbegun s /\ returned (run (step c) sched s) = true.
Proof.
  intros c sched. induction sched as [|t sched IH]; intros s H; [auto|].
  rewrite run_cons. destruct (returned_step c s t H) as [Hr Hh].
  destruct (IH _ Hr) as [A B]. split; [congruence | exact B].
Qed.
