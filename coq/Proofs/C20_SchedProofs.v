(* C20: the schedule statements of Spec/C20_SchedSpec.v, from the invariant *)
From BV Require Import Base.Prelude Proofs.PreludeFacts Model.BlockServer Model.BlockServerSched
  Spec.C20_Spec Spec.C20_SchedSpec Proofs.C20_Window Proofs.C20_Seq Proofs.C20_Sched Proofs.C20_SchedSteps.
Local Open Scope Z_scope.
Arguments chan_base : simpl never.

Theorem c20_sched_safe_proof : C20_sched_safe.
Proof.
  intros buffered size script bursts st Hr.
  apply (i_bad _ _ _ _ _ (reachable_inv _ _ _ _ st Hr)).
Qed.

Theorem c20_sched_producer_enabled_proof : C20_sched_producer_enabled.
Proof.
  intros buffered size script bursts st Hr.
  pose proof (reachable_inv _ _ _ _ st Hr) as Hi.
  split; [|split].
  - intros Hpc. unfold prod_enabled.
    destruct (g_ppc st) as [|x|x|x todo|x k todo|x k todo] eqn:Epc; try reflexivity; try congruence.
    pose proof (i_pcsub _ _ _ _ _ Hi) as Hp. rewrite Epc in Hp.
    destruct Hp as (s & Hsub & Hcl & Hlt). rewrite Hsub.
    assert (Hin : In k (todo_of (g_ppc st))) by (rewrite Epc; now left).
    destruct (todo_sub _ _ _ _ st k Hi Hin) as (c & s1 & Hc & Hs & Hsub1 & Hsi & _).
    rewrite Hsub in Hsub1. inversion Hsub1; subst s1.
    unfold chan_send. rewrite (so_ch s (u_ok _ _ _ _ _ _ Hsi)), Hcl.
    assert (E : N.ltb (qlen s) (s_cap s) = true) by now apply N.ltb_lt.
    now rewrite E.
  - intros Hpc Hs Hw. unfold prod_enabled. rewrite Hpc, Hw. destruct (g_script st); congruence.
  - intros i Hw. simpl. unfold client_step.
    pose proof (i_wl_lt _ _ _ _ _ Hi i Hw) as Hlt.
    destruct (nth_error (g_clients st) i) as [c|] eqn:Ec.
    2:{ apply nth_error_None in Ec. lia. }
    pose proof (i_clients _ _ _ _ _ Hi i c Ec) as Hcl.
    assert (Hh : holds c = true) by now apply (k_holds _ _ _ _ _ _ Hcl).
    unfold holds in Hh. destruct (c_pc c) eqn:Epc; try discriminate.
    + destruct (plan_push_ok (g_buf st) (c_burst c)) as (Hplan & Hmk & Hpush & _).
      rewrite Hplan, Hmk, Hpush. reflexivity.
    + reflexivity.
Qed.

Theorem c20_sched_delivery_proof : C20_sched_delivery.
Proof.
  intros buffered size script bursts st Hr.
  pose proof (reachable_inv _ _ _ _ st Hr) as Hi.
  split.
  - eexists. apply (i_script _ _ _ _ _ Hi).
  - intros i c s Hc Hs P B stop later.
    destruct (i_clients _ _ _ _ _ Hi i c Hc) as [H1 H2 H3 H4].
    destruct (H4 s Hs) as [U1 U2 U3 U4 U5 U6 (n & U7 & U8 & U9)].
    split; [exact H1|]. split; [exact U6|].
    split.
    { rewrite (so_n s U1), (so_ch s U1). reflexivity. }
    exists n. rewrite pending_pend_list.
    split; [exact U7|]. split; [exact U8|].
    intros Hcl. specialize (U9 Hcl). fold P in U9.
    change (later_of P c) with later in U9.
    destruct (s_listed s && existsb (Nat.eqb i) (pend_list st)); lia.
Qed.

Lemma client_step_buf st i : g_buf (client_step st i) = g_buf st /\ g_size (client_step st i) = g_size st.
Proof.
  unfold client_step.
  repeat (match goal with |- context [match ?x with _ => _ end] => destruct x end; simpl; auto).
Qed.

Lemma cons_step_buf st i : g_buf (cons_step st i) = g_buf st /\ g_size (cons_step st i) = g_size st.
Proof.
  unfold cons_step.
  repeat (match goal with |- context [match ?x with _ => _ end] => destruct x end; simpl; auto).
Qed.

Theorem c20_sched_ready_stable_proof : C20_sched_ready_stable.
Proof.
  intros buffered size script bursts st Hr.
  pose proof (reachable_inv _ _ _ _ st Hr) as Hi.
  split.
  - intros Hpc Hb. unfold cwindow.
    destruct (g_buf st) as [b|] eqn:Eb.
    + destruct (i_buf _ _ _ _ _ Hi b Eb) as [_ Hw]. now rewrite Hpc in Hw.
    + assert (buffered = false) by now apply (i_buffered _ _ _ _ _ Hi). congruence.
  - intros t Hrd. destruct t as [|i|i]; simpl.
    + unfold cready in *. unfold prod_step.
      destruct (g_ppc st) as [|x|x|x todo|x k todo|x k todo] eqn:Epc.
      * destruct (g_script st), (g_wlock st); auto.
      * simpl. destruct (g_buf st) as [b|]; auto.
        destruct (g_size st >? 0); auto.
        pose proof (buf_append_head_len x b). lia.
      * destruct (g_buf st) as [b|] eqn:Eb; [|unfold set_ppc; simpl; now rewrite Eb].
        destruct (i_buf _ _ _ _ _ Hi b Eb) as [Hok _].
        destruct ((g_size st >? 0) && (buf_len b >? g_size st)) eqn:Ec.
        -- apply andb_true_iff in Ec. destruct Ec as [Ec1 Ec2].
           destruct (buf_delete_tail_len b Hok) as (b' & Hd & Hl); [lia|].
           rewrite Hd. simpl. lia.
        -- unfold set_ppc. simpl. now rewrite Eb.
      * destruct todo; simpl; auto.
        destruct (sub_of st n); [|now simpl].
        destruct (s_closed s); [now simpl|]. destruct (N.eqb _ _); now simpl.
      * destruct (sub_of st k); [|now simpl].
        destruct (s_once s); [now simpl|].
        destruct (chan_close _); now simpl.
      * destruct (sub_of st k); [|now simpl].
        destruct (chan_send s x); now simpl.
    + unfold cready in *. destruct (client_step_buf st i) as [-> ->]. exact Hrd.
    + unfold cready in *. destruct (cons_step_buf st i) as [-> ->]. exact Hrd.
Qed.

Theorem c20_orig_ready_flips_proof : C20_orig_ready_flips.
Proof.
  exists (mkBuf [1;2;3]%N [3;2;1]%N), 3. eexists. split; [|split].
  - vm_compute. reflexivity.
  - vm_compute. reflexivity.
  - vm_compute. reflexivity.
Qed.
