(* C12 — FileSource (shutdown granularity): the Shutdown protocol (exactly one thread performs the
   effective Shutdown and is never blocked), no handler call once Run has returned / while the
   terminating channel is closed, and which blocking point has which escape.  The ranking argument
   is in C12_FileLive.v. *)
From BV Require Import Base.Prelude Model.Lifecycle Proofs.C12_Sched.
Import Fs.

Definition active (x : option sdstage) : bool :=
  match x with Some SClose | Some SCb | Some STerm => true | _ => false end.
Definition xbusy (s : state) : bool := match pcx s with XBusy => true | _ => false end.
Definition rbusy (s : state) : bool := match pcr s with RSdBusy => true | _ => false end.

Definition Inv (s : state) : Prop :=
  (xbusy s = true -> active (sdst s) = true) /\
  (rbusy s = true -> active (sdst s) = true) /\
  (active (sdst s) = true -> xbusy s = true \/ rbusy s = true) /\
  (xbusy s = true -> rbusy s = true -> False).

Ltac unfI := unfold Inv, xbusy, rbusy in *.
Ltac unfS := unfold step, step_run, step_launch, step_file, step_x, recv_fs, launcher_returns, set_file,
  sd_advance, terminating, terminated, emit.
Ltac fin2 := rw_hyps; simpl in *;
  try match goal with
      | |- context [sdst ?s] => destruct (sdst s) as [[]|] eqn:?
      | _ : context [sdst ?s] |- _ => destruct (sdst s) as [[]|] eqn:?
      end;
  simpl in *; intuition (discriminate || congruence).

Lemma inv_init : forall st sa, Inv (init st sa).
Proof. intros. unfold Inv, init, xbusy, rbusy; simpl. fin. Qed.

Lemma inv_step : forall s t, Inv s -> Inv (step s t).
Proof.
  intros s t H. unfS.
  destruct t; [destruct (pcr s) eqn:Ep | destruct (pcl s) eqn:Ep | | destruct (pcx s) eqn:Ep]; red_proj.
  all: case_step.
  all: unfI; destruct H as (A1 & A2 & A3 & B); rw_hyps.
  all: case_step.
  all: fin.
  all: fin2.
Qed.

Lemma inv_run : forall st sa sched, Inv (run step sched (init st sa)).
Proof. intros. apply (run_inv step Inv inv_step). apply inv_init. Qed.

Theorem fs_closing : forall st sa sched,
  let s := run step sched (init st sa) in
  sdst s = Some SClose -> exists t, terminating (step s t) = true.
Proof.
  intros st sa sched s Hg. pose proof (inv_run st sa sched) as Hi. fold s in Hi.
  unfI. destruct Hi as (A1 & A2 & A3 & B). rewrite Hg in *. simpl in *.
  destruct (A3 eq_refl) as [Hx|Hx].
  - exists TX. unfold terminating. unfS. destruct (pcx s); try discriminate. red_proj. reflexivity.
  - exists (TRun true). unfold terminating. unfS. destruct (pcr s); try discriminate. red_proj. reflexivity.
Qed.

Lemma returned_step : forall s t, returned s = true ->
  returned (step s t) = true /\ hbegun (step s t) = hbegun s.
Proof.
  intros s t H. unfold returned in *. destruct (pcr s) eqn:Ep; try discriminate.
  unfS. destruct t; [| destruct (pcl s) eqn:El | | destruct (pcx s) eqn:Ex]; red_proj; case_step; auto.
Qed.

Theorem fs_no_call_after : forall sched s, returned s = true ->
  hbegun (run step sched s) = hbegun s /\ returned (run step sched s) = true.
Proof.
  intros sched. induction sched as [|t sched IH]; intros s H; [auto|].
  rewrite run_cons. destruct (returned_step s t H) as [Hr Hh].
  destruct (IH _ Hr) as [A B]. split; [congruence | exact B].
Qed.

(* the IsTerminating poll between receiving a block and calling the handler *)
Theorem fs_no_call_begins_when_terminating : forall s t,
  terminating s = true -> hbegun (step s t) = hbegun s.
Proof.
  intros s t H. unfold terminating in H. unfS.
  destruct t; [destruct (pcr s) eqn:Ep | destruct (pcl s) eqn:Ep | | destruct (pcx s) eqn:Ep]; red_proj.
  all: case_step; try reflexivity; try discriminate.
Qed.

Lemma neq_by_pcr : forall s s', pcr s' <> pcr s -> s' <> s.
Proof. intros s s' H E. apply H. rewrite E. reflexivity. Qed.
Lemma neq_by_files : forall s s', files s' <> files s -> s' <> s.
Proof. intros s s' H E. apply H. rewrite E. reflexivity. Qed.

Definition waits_for_file (s : state) (k : nat) : Prop :=
  pcr s = RRange k /\ exists f, nth_error (files s) k = Some f /\ f_slot f = None /\ f_pc f <> FClosed.

(* once the Shutdown is complete, run() is enabled at every blocking point with a Terminating arm;
   the only other blocking point is the receive on the current file's `blocks` channel *)
Theorem fs_run_escape : forall st sa sched c,
  let s := run step sched (init st sa) in
  terminated s = true -> returned s = false ->
  step s (TRun c) <> s \/ (exists k, pcr s = RRange k /\ nth_error (files s) k = None) \/ exists k, waits_for_file s k.
Proof.
  intros st sa sched c s Ht Hr. pose proof (inv_run st sa sched) as Hi. fold s in Hi.
  unfold terminated, returned in *. destruct (sdst s) as [[]|] eqn:Eg; try discriminate.
  unfI. destruct Hi as (A1 & A2 & A3 & B). rewrite Eg in *. simpl in *.
  destruct (pcr s) eqn:Ep; try discriminate.
  - left. apply neq_by_pcr. unfS. rewrite ?Ep, ?Eg. red_proj. case_step; rewrite ?Ep; discriminate.
  - destruct (nth_error (files s) k) as [f|] eqn:Ef; [|right; left; eauto].
    destruct (f_slot f) as [[b ok]|] eqn:Esl.
    + left. apply neq_by_pcr. unfS. rewrite ?Ep, ?Ef, ?Esl. red_proj. rewrite ?Ep. discriminate.
    + destruct (f_pc f) eqn:Efp.
      * right. right. exists k. split; auto. exists f. repeat split; auto. congruence.
      * right. right. exists k. split; auto. exists f. repeat split; auto. congruence.
      * right. right. exists k. split; auto. exists f. repeat split; auto. congruence.
      * left. apply neq_by_pcr. unfS. rewrite ?Ep, ?Ef, ?Esl, ?Efp. red_proj. rewrite ?Ep. discriminate.
  - left. apply neq_by_pcr. unfS. rewrite ?Ep, ?Eg. red_proj. rewrite ?Ep. discriminate.
  - left. apply neq_by_pcr. unfS. rewrite ?Ep. red_proj. rewrite ?Ep. destruct ok; discriminate.
  - left. apply neq_by_pcr. unfS. rewrite ?Ep, ?Eg. red_proj. rewrite ?Ep. discriminate.
  - exfalso. specialize (A2 eq_refl). discriminate.
Qed.

(* ... and the goroutine of that file, once it runs, is enabled as soon as the terminating channel is closed *)
Theorem fs_file_escape : forall s k f,
  terminating s = true -> nth_error (files s) k = Some f -> (f_pc f = FOpening \/ f_pc f = FStreaming) ->
  files (step s (TFile k true)) <> files s.
Proof.
  intros s k f Ht Hk Hp. simpl. unfold step_file, set_file. rewrite Hk, Ht.
  assert (U : forall g, g f <> f -> upd (files s) k g <> files s).
  { intros g Hg E. apply Hg. pose proof (f_equal (fun l => nth_error l k) E) as E1. simpl in E1.
    clear -E1 Hk. revert k E1 Hk. induction (files s) as [|x r IH]; intros [|k] E1 Hk; simpl in *; try discriminate.
    - congruence.
    - eapply IH; eauto. }
  destruct Hp as [Hp|Hp]; rewrite Hp.
  - simpl. apply U. destruct f; simpl in *; subst. discriminate.
  - destruct (f_slot f); simpl; apply U; destruct f; simpl in *; subst; discriminate.
Qed.
