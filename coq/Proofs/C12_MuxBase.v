(* C12 — MultiplexedSource: list lemmas and the effect of the primitive operations on the
   projections the invariants talk about. *)
From BV Require Import Base.Prelude Model.Lifecycle Proofs.C12_Sched.
Import Mx.

Lemma upd_length : forall A (l : list A) k f, length (upd l k f) = length l.
Proof. induction l as [|x r IH]; intros [|k] f; simpl; auto. Qed.

Lemma nth_upd_eq : forall A (l : list A) k f, nth_error (upd l k f) k = option_map f (nth_error l k).
Proof. induction l as [|x r IH]; intros [|k] f; simpl; auto. Qed.

Lemma nth_upd_ne : forall A (l : list A) k j f, j <> k -> nth_error (upd l k f) j = nth_error l j.
Proof.
  induction l as [|x r IH]; intros [|k] [|j] f H; simpl; auto; try congruence.
Qed.

Lemma nth_upd : forall A (l : list A) k j f,
  nth_error (upd l k f) j = if Nat.eqb j k then option_map f (nth_error l k) else nth_error l j.
Proof.
  intros. destruct (Nat.eqb j k) eqn:E.
  - apply Nat.eqb_eq in E. subst. apply nth_upd_eq.
  - apply Nat.eqb_neq in E. apply nth_upd_ne. exact E.
Qed.

Lemma map_upd : forall A B (g : A -> B) (l : list A) k f f',
  (forall x, g (f x) = f' (g x)) -> map g (upd l k f) = upd (map g l) k f'.
Proof. induction l as [|x r IH]; intros [|k] f f' H; simpl; auto; f_equal; auto. Qed.

Lemma map_upd_id : forall A B (g : A -> B) (l : list A) k f,
  (forall x, g (f x) = g x) -> map g (upd l k f) = map g l.
Proof. induction l as [|x r IH]; intros [|k] f H; simpl; auto; f_equal; auto. Qed.

Lemma nth_app_last : forall A (l : list A) x j,
  nth_error (l ++ [x]) j = if Nat.ltb j (length l) then nth_error l j
                           else if Nat.eqb j (length l) then Some x else None.
Proof.
  intros. destruct (Nat.ltb j (length l)) eqn:E.
  - apply Nat.ltb_lt in E. apply nth_error_app1. exact E.
  - apply Nat.ltb_ge in E. rewrite nth_error_app2 by exact E.
    destruct (Nat.eqb j (length l)) eqn:E2.
    + apply Nat.eqb_eq in E2. subst. rewrite Nat.sub_diag. reflexivity.
    + apply Nat.eqb_neq in E2. destruct (j - length l) as [|[|n]] eqn:E3; simpl; auto; lia.
Qed.

(* ---- the three per-inner projections *)
Definition pcs (s : state) : list ipc := map i_pc (inners s).
Definition terms (s : state) : list bool := map i_term (inners s).
Definition slots (s : state) : list nat := map i_slot (inners s).

Lemma nth_pcs : forall s k, nth_error (pcs s) k = option_map i_pc (nth_error (inners s) k).
Proof. intros. unfold pcs. apply nth_error_map. Qed.
Lemma nth_terms : forall s k, nth_error (terms s) k = option_map i_term (nth_error (inners s) k).
Proof. intros. unfold terms. apply nth_error_map. Qed.
Lemma nth_slots : forall s k, nth_error (slots s) k = option_map i_slot (nth_error (inners s) k).
Proof. intros. unfold slots. apply nth_error_map. Qed.

(* ---- shut_inner / shut_all only set i_term flags and extend the log *)
Record same_but_terms (s s' : state) : Prop := {
  sb_pcr : pcr s' = pcr s; sb_pcx : pcx s' = pcx s; sb_sdst : sdst s' = sdst s;
  sb_hh : hholder s' = hholder s; sb_src : sources s' = sources s; sb_sup : supply s' = supply s;
  sb_hb : hbegun s' = hbegun s; sb_ha : hactive s' = hactive s; sb_ov : overlap s' = overlap s;
  sb_fl : failed s' = failed s;
  sb_pcs : pcs s' = pcs s; sb_slots : slots s' = slots s;
  sb_scripts : map i_script (inners s') = map i_script (inners s);
  sb_mono : forall k, inner_term s k = true -> inner_term s' k = true }.

Lemma sbt_refl : forall s, same_but_terms s s.
Proof. intros. constructor; auto. Qed.

Lemma sbt_trans : forall a b c, same_but_terms a b -> same_but_terms b c -> same_but_terms a c.
Proof.
  intros a b c [] []. constructor; try congruence. auto.
Qed.

Lemma inner_term_upd : forall s k j,
  inner_term (set_inners s (upd (inners s) k set_i_term)) j = (Nat.eqb j k || inner_term s j).
Proof.
  intros. unfold inner_term. simpl. rewrite nth_upd.
  destruct (Nat.eqb j k) eqn:E; simpl; auto.
  apply Nat.eqb_eq in E. subst. destruct (nth_error (inners s) k); reflexivity.
Qed.

Lemma shut_inner_sbt : forall k s, same_but_terms s (shut_inner k s).
Proof.
  intros. unfold shut_inner. destruct (inner_term s k) eqn:E; [apply sbt_refl|].
  constructor; simpl; auto; unfold pcs, slots; simpl; try (apply map_upd_id; intros []; reflexivity).
  intros j Hj. change (inner_term (set_inners s (upd (inners s) k set_i_term)) j = true).
  rewrite inner_term_upd, Hj. apply orb_true_r.
Qed.

Lemma shut_inner_term : forall k s, inner_term (shut_inner k s) k = true.
Proof.
  intros. unfold shut_inner. destruct (inner_term s k) eqn:E; [exact E|].
  change (inner_term (set_inners s (upd (inners s) k set_i_term)) k = true).
  rewrite inner_term_upd, Nat.eqb_refl. reflexivity.
Qed.

Lemma shut_all_sbt : forall l s, same_but_terms s (shut_all l s).
Proof.
  induction l as [|[k|] r IH]; intros s; simpl; [apply sbt_refl | | apply IH].
  eapply sbt_trans; [apply shut_inner_sbt | apply IH].
Qed.

Lemma shut_all_term : forall l s k, In (Some k) l -> inner_term (shut_all l s) k = true.
Proof.
  induction l as [|[j|] r IH]; intros s k Hin; simpl in *; [contradiction | |].
  - destruct Hin as [E|Hin]; [|apply IH; exact Hin].
    inversion E; subst. apply (sb_mono _ _ (shut_all_sbt r (shut_inner k s))). apply shut_inner_term.
  - destruct Hin as [E|Hin]; [discriminate | apply IH; exact Hin].
Qed.

Lemma inner_term_nth : forall s k i, nth_error (inners s) k = Some i -> inner_term s k = i_term i.
Proof. intros s k i H. unfold inner_term. rewrite H. reflexivity. Qed.
