(* C15 — the file source, part 1: PassesFilter per file, tweakRangeIndexResults,
   lookupBlockIndex and what launchReader decides before opening a bundle. *)
From Coq Require Import Sorted.
From BV Require Import Base.Prelude Model.BlockIndex Spec.C15_Spec Proofs.PreludeFacts
  Proofs.C15_Sets Proofs.C15_Arith.
Local Open Scope N_scope.

Lemma asc_filter f l : asc l -> asc (filter f l).
Proof.
  induction l as [|x l IH]; intros H; simpl; [apply asc_nil|].
  apply asc_cons in H as [H1 H2]. destruct (f x); [|apply IH; exact H1].
  apply asc_cons. split; [apply IH; exact H1|].
  apply Forall_forall. intros y Hy. apply filter_In in Hy as [Hy _].
  rewrite Forall_forall in H2. apply H2. exact Hy.
Qed.

Lemma filter_length_le {A} (f : A -> bool) l : (length (filter f l) <= length l)%nat.
Proof. induction l as [|x l IH]; simpl; [lia|]. destruct (f x); simpl; lia. Qed.

Arguments BlockIndex.tweak : simpl never.
Arguments BlockIndex.tweak_add : simpl never.
Arguments BlockIndex.lookup : simpl never.
Arguments BlockIndex.plan : simpl never.

(* ---------------- PassesFilter over one file ---------------- *)
  Lemma drop_le_In n l x : In x (drop_le n l) -> In x l.
  Proof.
    induction l as [|y l IH]; simpl; [tauto|].
    destruct (y <=? n); [intros H; right; apply IH; exact H | tauto].
  Qed.

  Lemma drop_le_asc n l : asc l -> asc (drop_le n l).
  Proof.
    induction l as [|y l IH]; intros H; simpl; [exact H|].
    destruct (y <=? n); [|exact H]. apply asc_cons in H as [H1 _]. apply IH. exact H1.
  Qed.

  Lemma drop_le_gt n l x : asc l -> In x (drop_le n l) -> n < x.
  Proof.
    induction l as [|y l IH]; intros H; simpl; [tauto|].
    destruct (y <=? n) eqn:E.
    - apply asc_cons in H as [H1 _]. apply IH. exact H1.
    - apply N.leb_gt in E. apply asc_cons in H as [_ H2]. rewrite Forall_forall in H2.
      intros [Hx|Hx]; [subst; exact E | apply H2 in Hx; lia].
  Qed.

  Lemma drop_le_keep n l x : In x l -> n < x -> In x (drop_le n l).
  Proof.
    induction l as [|y l IH]; simpl; [tauto|].
    intros [Hx|Hx] Hlt.
    - subst y. destruct (x <=? n) eqn:E; [apply N.leb_le in E; lia | left; reflexivity].
    - destruct (y <=? n); [apply IH; assumption | right; exact Hx].
  Qed.

Section PassesFilter.
  Variable start : N.
  Notation stream_file := (stream_file start).

  Lemma stream_sub base filt bl x :
    In x (stream_file base filt bl) -> In x bl /\ start <= x /\ base <= x.
  Proof.
    revert filt. induction bl as [|b bl IH]; intros filt; simpl; [tauto|].
    destruct ((b <? start) || (b <? base)) eqn:E.
    - intros H. apply IH in H. tauto.
    - apply orb_false_iff in E as [E1 E2]. apply N.ltb_ge in E1. apply N.ltb_ge in E2.
      destruct filt as [l|].
      + destruct (passes b l); [intros [H|H]; [subst; tauto | apply IH in H; tauto] | intros H; apply IH in H; tauto].
      + intros [H|H]; [subst; tauto | apply IH in H; tauto].
  Qed.

  Lemma stream_none base bl x :
    In x (stream_file base None bl) <-> In x bl /\ start <= x /\ base <= x.
  Proof.
    split; [apply stream_sub|].
    induction bl as [|b bl IH]; simpl; [tauto|].
    intros [[Hx|Hx] [H1 H2]].
    - subst b. assert ((x <? start) || (x <? base) = false) as ->.
      { apply orb_false_iff. split; apply N.ltb_ge; assumption. }
      left. reflexivity.
    - destruct ((b <? start) || (b <? base)); [|right]; apply IH; auto.
  Qed.

  Lemma stream_asc base filt bl : asc bl -> asc (stream_file base filt bl).
  Proof.
    revert filt. induction bl as [|b bl IH]; intros filt H; simpl; [apply asc_nil|].
    apply asc_cons in H as [H1 H2]. rewrite Forall_forall in H2.
    assert (Hc : forall flt, asc (b :: stream_file base flt bl)).
    { intros flt. apply asc_cons. split; [apply IH; exact H1|]. apply Forall_forall.
      intros y Hy. apply stream_sub in Hy as [Hy _]. apply H2. exact Hy. }
    destruct ((b <? start) || (b <? base)); [apply IH; exact H1|].
    destruct filt as [l|]; [|apply Hc].
    destruct (passes b l); [apply Hc | apply IH; exact H1].
  Qed.

  (* a wanted number that is the number of an existing block gets through *)
  Lemma stream_complete base bl : forall l m,
    asc bl -> asc l -> In m l -> In m bl -> start <= m -> base <= m ->
    In m (stream_file base (Some l) bl).
  Proof.
    induction bl as [|b bl IH]; intros l m Hbl Hl Hml Hmb Hs Hbs; simpl; [contradiction|].
    apply asc_cons in Hbl as [Hbl1 Hbl2]. rewrite Forall_forall in Hbl2.
    destruct Hmb as [Hmb|Hmb].
    - subst b. assert ((m <? start) || (m <? base) = false) as ->.
      { apply orb_false_iff. split; apply N.ltb_ge; assumption. }
      assert (passes m l = true) as ->; [|left; reflexivity].
      destruct l as [|x l]; [contradiction|]. simpl. apply N.leb_le.
      destruct Hml as [Hml|Hml]; [lia|].
      apply asc_cons in Hl as [_ Hl2]. rewrite Forall_forall in Hl2. apply Hl2 in Hml. lia.
    - pose proof (Hbl2 m Hmb) as Hlt.
      destruct ((b <? start) || (b <? base)); [apply IH; assumption|].
      assert (In m (stream_file base (Some (drop_le b l)) bl)).
      { apply IH; try assumption; [apply drop_le_asc; exact Hl | apply drop_le_keep; assumption]. }
      destruct (passes b l); [right|]; assumption.
  Qed.

  (* whatever gets through is the first block, from the start block on, at or after a wanted number *)
  Lemma stream_tight base bl : forall l x,
    asc bl -> asc l -> In x (stream_file base (Some l) bl) ->
    exists w, In w l /\ w <= x /\ forall y, In y bl -> start <= y -> base <= y -> w <= y -> x <= y.
  Proof.
    induction bl as [|b bl IH]; intros l x Hbl Hl; simpl; [tauto|].
    apply asc_cons in Hbl as [Hbl1 Hbl2]. rewrite Forall_forall in Hbl2.
    destruct ((b <? start) || (b <? base)) eqn:E.
    - intros H. destruct (IH l x Hbl1 Hl H) as [w [H1 [H2 H3]]]. exists w. split; [exact H1|]. split; [exact H2|].
      intros y [Hy|Hy] Hys Hyb Hwy; [|apply H3; assumption].
      subst y. apply orb_true_iff in E as [E|E]; apply N.ltb_lt in E; lia.
    - assert (Hrest : In x (stream_file base (Some (drop_le b l)) bl) ->
                      exists w, In w l /\ w <= x /\ forall y, In y (b :: bl) -> start <= y -> base <= y -> w <= y -> x <= y).
      { intros H. destruct (IH (drop_le b l) x Hbl1 (drop_le_asc b l Hl) H) as [w [H1 [H2 H3]]].
        exists w. split; [eapply drop_le_In; exact H1|]. split; [exact H2|].
        intros y [Hy|Hy] Hys Hyb Hwy; [|apply H3; assumption].
        subst y. pose proof (drop_le_gt b l w Hl H1). lia. }
      destruct (passes b l) eqn:Ep; [|exact Hrest].
      intros [Hx|Hx]; [|apply Hrest; exact Hx].
      subst x. destruct l as [|w l]; [discriminate|]. simpl in Ep. apply N.leb_le in Ep.
      exists w. split; [left; reflexivity|]. split; [exact Ep|].
      intros y [Hy|Hy] _ _ _; [lia | apply Hbl2 in Hy; lia].
  Qed.

  Lemma passes_filter_is_per_bundle_proof : passes_filter_is_per_bundle start.
  Proof.
    intros base w bl. induction bl as [|b bl IH]; intros H; simpl; [reflexivity|].
    assert (b < w) as Hlt by (apply H; left; reflexivity).
    assert (IH' : stream_file base (Some [w]) bl = []) by (apply IH; intros y Hy; apply H; right; exact Hy).
    destruct ((b <? start) || (b <? base)); [exact IH'|].
    simpl. assert (w <=? b = false) as -> by (apply N.leb_gt; exact Hlt). exact IH'.
  Qed.

End PassesFilter.

Section Lookup.
  Set Default Proof Using "All".
  Variable PS : Type.
  Variable query : PS -> N -> PS * option (list N).
  Variables start stop bundle : N.
  Variable prog : N -> bool.
  Variable exists_ : N -> bool.
  Variable Inv : PS -> Prop.
  Variable M : N -> Prop.
  Hypothesis Hb : bundle <> 0.
  Hypothesis Hprov : provider_ok PS query bundle Inv M.

  Notation aligned := (aligned bundle).
  Notation in_bundle := (in_bundle bundle).
  Notation bounded := (bounded start stop).
  Notation tweak := (tweak start stop bundle).
  Notation tweak_add := (tweak_add start stop bundle).
  Notation lookup_loop := (lookup_loop PS query start stop bundle prog).
  Notation lookup := (lookup PS query start stop bundle prog).
  Notation plan := (plan PS query start stop bundle prog exists_).
  Notation LkRes := (LkRes PS).
  Notation Pl := (Pl PS).

  Lemma in_bundle_iff b x : in_bundle b x = true <-> b <= x < b + bundle.
  Proof. unfold BlockIndex.in_bundle. rewrite andb_true_iff, N.leb_le, N.ltb_lt. tauto. Qed.

  Lemma bounded_iff x : bounded x = true <-> start <= x /\ (stop = 0 \/ x <= stop).
  Proof. unfold BlockIndex.bounded. rewrite andb_true_iff, orb_true_iff, N.leb_le, N.eqb_eq, N.leb_le. tauto. Qed.

  (* ---------------- tweakRangeIndexResults ---------------- *)
  Definition wanted (wl : list N) (nb w : N) : Prop :=
    M w \/ w = start \/ (stop <> 0 /\ w = stop) \/ In w wl \/ (w = nb /\ prog nb = true).

  Definition filt_ok (wl : list N) (nb : N) (out : list N) : Prop :=
    asc out /\
    (forall w, In w out -> nb <= w < nb + bundle /\ wanted wl nb w) /\
    (forall m, M m -> nb <= m < nb + bundle -> start <= m -> (stop = 0 \/ m <= stop) -> In m out).

  Lemma tweak_add_In b wl x :
    In x (tweak_add b wl) <->
    (In x wl /\ b <= x < b + bundle) \/ (x = start /\ b <= start < b + bundle) \/
    (x = stop /\ stop <> 0 /\ b <= stop < b + bundle).
  Proof.
    unfold BlockIndex.tweak_add. rewrite !in_app_iff, filter_In, in_bundle_iff.
    destruct (in_bundle b start) eqn:E1; destruct (negb (stop =? 0) && in_bundle b stop) eqn:E2; simpl.
    - apply in_bundle_iff in E1. apply andb_true_iff in E2 as [E2 E3]. apply negb_true_iff in E2.
      apply N.eqb_neq in E2. apply in_bundle_iff in E3. intuition.
    - apply in_bundle_iff in E1. split; [intuition|]. intros [H|[H|[H1 [H2 H3]]]]; [tauto | intuition |].
      exfalso. apply andb_false_iff in E2 as [E2|E2].
      + apply negb_false_iff in E2. apply N.eqb_eq in E2. contradiction.
      + apply in_bundle_iff in H3. congruence.
    - apply andb_true_iff in E2 as [E2 E3]. apply negb_true_iff in E2.
      apply N.eqb_neq in E2. apply in_bundle_iff in E3. split; [intuition|].
      intros [H|[[H1 H2]|H]]; [tauto | | intuition]. apply in_bundle_iff in H2. congruence.
    - split; [intuition|]. intros [H|[[H1 H2]|[H1 [H2 H3]]]]; [tauto | |].
      + apply in_bundle_iff in H2. congruence.
      + exfalso. apply andb_false_iff in E2 as [E2|E2].
        * apply negb_false_iff in E2. apply N.eqb_eq in E2. contradiction.
        * apply in_bundle_iff in H3. congruence.
  Qed.

  Lemma tweak_spec b wl inb wl' out :
    tweak b wl inb = (wl', out) ->
    asc inb -> (forall n, In n inb <-> (M n /\ b <= n < b + bundle)) ->
    incl wl' wl /\ (length wl' <= length wl)%nat /\
    asc out /\
    (forall w, In w out -> b <= w < b + bundle /\ (M w \/ w = start \/ (stop <> 0 /\ w = stop) \/ In w wl)) /\
    (forall m, M m -> b <= m < b + bundle -> start <= m -> (stop = 0 \/ m <= stop) -> In m out) /\
    (stop <> 0 -> start <= stop -> b <= stop < b + bundle -> In stop out).
  Proof.
    unfold BlockIndex.tweak. intros H Hasc Hinb. inversion H; subst wl' out; clear H.
    split; [intros x Hx; apply filter_In in Hx; tauto|].
    split; [apply filter_length_le|].
    destruct (tweak_add b wl) as [|a add] eqn:Ea.
    - (* nothing to add: the provider's answer goes through untouched *)
      split; [exact Hasc|]. split; [|split].
      + intros w Hw. apply Hinb in Hw. tauto.
      + intros m Hm Hr _ _. apply Hinb. tauto.
      + intros H0 _ Hr. exfalso. assert (In stop (tweak_add b wl)) as Hin by (apply tweak_add_In; tauto).
        rewrite Ea in Hin. exact Hin.
    - rewrite <- Ea.
      assert (Hin : forall w, In w (filter bounded (fold_right set_insert [] (inb ++ tweak_add b wl))) <->
                              (bounded w = true /\ (In w inb \/ In w (tweak_add b wl)))).
      { intros w. rewrite filter_In, sort_In, in_app_iff. tauto. }
      split; [apply asc_filter; apply sort_asc|]. split; [|split].
      + intros w Hw. apply Hin in Hw as [_ [Hw|Hw]].
        * apply Hinb in Hw. tauto.
        * apply tweak_add_In in Hw as [[H1 H2]|[[H1 H2]|[H1 [H2 H3]]]]; subst; tauto.
      + intros m Hm Hr Hs Hst. apply Hin. split; [apply bounded_iff; tauto|]. left. apply Hinb. tauto.
      + intros H0 Hss Hr. apply Hin. split; [apply bounded_iff; split; [exact Hss | right; lia]|].
        right. apply tweak_add_In. tauto.
  Qed.

  (* ---------------- lookupBlockIndex ---------------- *)
  Definition seen_covered (b : N) : Prop := exists ps0, Inv ps0 /\ snd (query ps0 b) <> None.
  Definition seen_uncovered (b : N) : Prop := exists ps0, Inv ps0 /\ snd (query ps0 b) = None.

  (* the bundles a lookup passed over: the index answered for them and wants nothing in them *)
  Definition skipped_ok (b nb : N) : Prop :=
    forall b', aligned b' -> b <= b' < nb ->
      seen_covered b' /\
      (forall m, M m -> b' <= m < b' + bundle -> start <= m -> (stop = 0 \/ m <= stop) -> False).

  Lemma wanted_incl wl wl' nb w : incl wl' wl -> wanted wl' nb w -> wanted wl nb w.
  Proof. unfold wanted. intros Hi [H|[H|[H|[H|H]]]]; auto. right. right. right. left. apply Hi. exact H. Qed.

  Lemma filt_ok_incl wl wl' nb out : incl wl' wl -> filt_ok wl' nb out -> filt_ok wl nb out.
  Proof.
    intros Hi [H1 [H2 H3]]. split; [exact H1|]. split; [|exact H3].
    intros w Hw. destruct (H2 w Hw) as [Ha Hb']. split; [exact Ha|]. eapply wanted_incl; eassumption.
  Qed.

  Lemma lookup_loop_S lf ps wl b :
    lookup_loop (S lf) ps wl b =
    let (ps', r) := query ps b in
    match r with
    | None => LkRes ps' wl b [] true
    | Some inb =>
        let (wl', out) := tweak b wl inb in
        match out with
        | [] => if prog b then LkRes ps' wl' b [b] false else lookup_loop lf ps' wl' (b + bundle)
        | _ => LkRes ps' wl' b out false
        end
    end.
  Proof. reflexivity. Qed.

  Lemma lookup_loop_spec lf : forall ps wl b ps' wl' nb out noMore,
    lookup_loop lf ps wl b = LkRes ps' wl' nb out noMore -> Inv ps -> aligned b ->
    Inv ps' /\ aligned nb /\ b <= nb /\ incl wl' wl /\ (length wl' <= length wl)%nat /\
    skipped_ok b nb /\
    (stop <> 0 -> start <= stop -> b <= stop -> nb <= stop) /\
    (noMore = true -> out = [] /\ seen_uncovered nb) /\
    (noMore = false -> seen_covered nb /\ filt_ok wl nb out).
  Proof.
    induction lf as [|lf IH]; intros ps wl b ps' wl' nb out noMore; [simpl; discriminate|].
    rewrite lookup_loop_S. intros Hres Hinv Hal.
    destruct (Hprov ps b Hinv Hal) as [Hinv1 Hq].
    destruct (query ps b) as [ps1 r] eqn:Eq. simpl in Hinv1, Hq.
    assert (Hskip0 : skipped_ok b b) by (intros b' _ Hr; lia).
    destruct r as [inb|].
    2:{ (* error from the provider *)
        inversion Hres; subst. repeat split; try assumption; try lia; try apply incl_refl; try discriminate.
        exists ps. rewrite Eq. simpl. split; [exact Hinv | reflexivity]. }
    destruct Hq as [Hasc Hinb].
    assert (Hcov : seen_covered b).
    { exists ps. rewrite Eq. simpl. split; [exact Hinv | discriminate]. }
    destruct (tweak b wl inb) as [wl1 out1] eqn:Et.
    destruct (tweak_spec b wl inb wl1 out1 Et Hasc Hinb) as [Hincl [Hlen [Hao [Htight [Hcompl Hstop]]]]].
    assert (Hret : forall o, filt_ok wl b o -> LkRes ps1 wl1 b o false = LkRes ps' wl' nb out noMore ->
      Inv ps' /\ aligned nb /\ b <= nb /\ incl wl' wl /\ (length wl' <= length wl)%nat /\
      skipped_ok b nb /\ (stop <> 0 -> start <= stop -> b <= stop -> nb <= stop) /\
      (noMore = true -> out = [] /\ seen_uncovered nb) /\ (noMore = false -> seen_covered nb /\ filt_ok wl nb out)).
    { intros o Ho He. inversion He; subst.
      split; [exact Hinv1|]. split; [exact Hal|]. split; [lia|]. split; [exact Hincl|]. split; [exact Hlen|].
      split; [exact Hskip0|]. split; [intros; assumption|]. split; [discriminate|].
      intros _. split; assumption. }
    destruct out1 as [|x out1].
    - destruct (prog b) eqn:Ep.
      + (* progress block *)
        apply (Hret [b]); [|exact Hres]. split; [apply asc_cons; split; [apply asc_nil | constructor]|]. split.
        * intros w [Hw|[]]. subst w. split; [lia|]. unfold wanted. right. right. right. right. auto.
        * intros m Hm Hr Hs Hst. exfalso. apply (Hcompl m Hm Hr Hs Hst).
      + (* nothing wanted here: next bundle *)
        assert (Hal1 : aligned (b + bundle)) by (apply aligned_add; assumption).
        destruct (IH ps1 wl1 (b + bundle) ps' wl' nb out noMore Hres Hinv1 Hal1)
          as [I1 [I2 [I3 [I4 [I5 [I6 [I7 [I8 I9]]]]]]]].
        split; [exact I1|]. split; [exact I2|]. split; [lia|].
        split; [eapply incl_tran; eassumption|]. split; [lia|]. split; [|split; [|split]].
        * intros b' Hb' Hr. destruct (N.eq_dec b' b) as [->|Hne].
          -- split; [exact Hcov|]. intros m Hm Hmr Hs Hst. apply (Hcompl m Hm Hmr Hs Hst).
          -- apply I6; [exact Hb'|]. assert (b < b') by lia.
             pose proof (aligned_step _ _ bundle Hb Hal Hb' H). lia.
        * intros H0 Hss Hle. apply I7; [exact H0 | exact Hss |].
          destruct (N.lt_ge_cases stop (b + bundle)) as [Hlt|Hge]; [|exact Hge].
          exfalso. apply (Hstop H0 Hss). lia.
        * exact I8.
        * intros Hn. destruct (I9 Hn) as [J1 J2]. split; [exact J1|]. eapply filt_ok_incl; eassumption.
    - apply (Hret (x :: out1)); [|exact Hres]. split; [exact Hao|]. split; [|exact Hcompl].
      intros w Hw. destruct (Htight w Hw) as [Hr Hwant]. split; [exact Hr|].
      unfold wanted. destruct Hwant as [H|[H|[H|H]]]; auto.
  Qed.

  (* ---------------- what launchReader decides before opening a bundle ---------------- *)
  Inductive plan_case (prov : option PS) (wl : list N) (base : N) :
    option PS -> list N -> option (list N) -> N -> Prop :=
  | PcNone : prov = None -> plan_case prov wl base None wl None base
  | PcFilt ps ps' wl' out nb :
      prov = Some ps -> Inv ps' -> aligned nb -> base <= nb -> incl wl' wl ->
      (length wl' <= length wl)%nat -> skipped_ok base nb -> seen_covered nb -> filt_ok wl nb out ->
      (stop <> 0 -> start <= stop -> base <= stop -> nb <= stop) ->
      plan_case prov wl base (Some ps') wl' (Some out) nb
  | PcEnd ps wl' nb base' :
      prov = Some ps -> aligned nb -> base <= nb -> incl wl' wl ->
      (length wl' <= length wl)%nat -> skipped_ok base nb ->
      ((stop <> 0 /\ stop < base) \/ seen_uncovered nb) ->
      (base' = nb \/ (base' = nb - bundle /\ base < nb /\ exists_ nb = false)) ->
      plan_case prov wl base None wl' None base'.

  Lemma plan_spec lfuel prov wl base prov' wl' filt base' :
    plan lfuel prov wl base = Pl prov' wl' filt base' ->
    aligned base -> (forall ps, prov = Some ps -> Inv ps) ->
    plan_case prov wl base prov' wl' filt base'.
  Proof.
    unfold BlockIndex.plan. intros H Hal Hinv.
    destruct prov as [ps|]; [|inversion H; subst; apply PcNone; reflexivity].
    pose proof (Hinv ps eq_refl) as Hps.
    unfold BlockIndex.lookup in H.
    destruct (negb (stop =? 0) && (stop <? base)) eqn:Es.
    - (* already past the stop block *)
      apply andb_true_iff in Es as [Es1 Es2]. apply negb_true_iff in Es1. apply N.eqb_neq in Es1.
      apply N.ltb_lt in Es2. simpl in H.
      assert (Hskip : skipped_ok base base) by (intros b' _ Hr; lia).
      destruct (negb (exists_ base) && (base <? base)) eqn:E.
      + apply andb_true_iff in E as [_ E]. apply N.ltb_lt in E. lia.
      + inversion H; subst. eapply PcEnd with (nb := base'); try reflexivity; try assumption; try lia; try apply incl_refl; auto.
    - destruct (lookup_loop lfuel ps wl base) as [|ps1 wl1 nb out noMore] eqn:El; [discriminate|].
      destruct (lookup_loop_spec lfuel ps wl base ps1 wl1 nb out noMore El Hps Hal)
        as [I1 [I2 [I3 [I4 [I5 [I6 [I7 [I8 I9]]]]]]]].
      destruct noMore.
      + destruct (I8 eq_refl) as [_ Hunc].
        destruct (negb (exists_ nb) && (base <? nb)) eqn:E; inversion H; subst.
        * apply andb_true_iff in E as [E1 E2]. apply negb_true_iff in E1. apply N.ltb_lt in E2.
          eapply PcEnd with (nb := nb); try reflexivity; try assumption; auto.
        * eapply PcEnd with (nb := base'); try reflexivity; try assumption; auto.
      + destruct (I9 eq_refl) as [Hcov Hfilt]. inversion H; subst.
        eapply PcFilt; try reflexivity; try assumption.
  Qed.

  (* common to the three cases: where the next bundle lies and what was passed over *)
  Lemma plan_common prov wl base prov' wl' filt base' :
    plan_case prov wl base prov' wl' filt base' -> aligned base ->
    aligned base' /\ base <= base' /\ incl wl' wl /\ (length wl' <= length wl)%nat /\
    (forall ps, prov' = Some ps -> Inv ps) /\
    (forall m, M m -> start <= m -> (stop = 0 \/ m <= stop) -> base <= m -> m < base' -> False).
  Proof.
    intros Hc Hal.
    assert (Hnone : forall nb b1, aligned nb -> aligned b1 -> base <= b1 <= nb -> skipped_ok base nb ->
              forall m, M m -> start <= m -> (stop = 0 \/ m <= stop) -> base <= m -> m < b1 -> False).
    { intros nb b1 Hnb Hb1 Hr Hsk m Hm Hs Hst Hge Hlt.
      pose proof (aligned_le_lb base m bundle Hb Hal Hge) as H1.
      pose proof (lb_below_aligned b1 m bundle Hb Hb1 Hlt) as H2.
      destruct (Hsk (low_boundary m bundle)) as [_ Hno]; [apply lb_mod; exact Hb | lia |].
      apply (Hno m Hm); [|exact Hs | exact Hst].
      pose proof (lb_le m bundle). pose proof (lb_lt m bundle Hb). lia. }
    destruct Hc as [Hp | ps ps' wl1 out nb Hp Hi Hnb Hle Hincl Hlen Hsk Hcov Hf Hst
                       | ps wl1 nb b1 Hp Hnb Hle Hincl Hlen Hsk Hend Hb1].
    - repeat split; try assumption; try lia; try apply incl_refl; try discriminate.
    - repeat split; try assumption.
      + intros ps0 H0. inversion H0; subst. exact Hi.
      + intros m Hm Hs Hstp Hge Hlt. apply (Hnone nb nb Hnb Hnb ltac:(lia) Hsk m Hm Hs Hstp Hge Hlt).
    - assert (Hal1 : aligned b1 /\ base <= b1 <= nb).
      { destruct Hb1 as [->|[-> [Hlt _]]]; [split; [exact Hnb | lia]|].
        pose proof (aligned_step _ _ bundle Hb Hal Hnb Hlt). split; [apply aligned_sub; [exact Hb | exact Hnb | lia] | lia]. }
      destruct Hal1 as [Hal1 Hr1]. repeat split; try assumption; try lia; try discriminate.
      intros m Hm Hs Hstp Hge Hlt. apply (Hnone nb b1 Hnb Hal1 Hr1 Hsk m Hm Hs Hstp Hge Hlt).
  Qed.
End Lookup.
