(* C03 with a failing handler (Spec/C03_Fail_Spec.v): the run is the oracle's cut of the never-failing run
   (Properties/C01_Fail.fk_run_oracle), on which Proofs/C03_MovingProofs.v gives every clause. *)
From BV Require Import Base.Prelude Model.Block Model.ForkDB Model.Forkable Spec.Consumer Spec.Universe
  Spec.ForkChoice Spec.C01_Spec Spec.C01_More_Spec Spec.C01_Moving_Spec Spec.C01_Roots_Spec Spec.C03_Spec Spec.C03_Moving_Spec
  Spec.C03_Fail_Spec Check.Fk_Check Check.Fk_Props_Check
  Proofs.Fk.LoopFacts Proofs.Fk.LoopFactsFail Proofs.Fk.FailPrefix Proofs.Fk.FailRun Proofs.C01_Proofs Proofs.C01_FailProofs
  Proofs.C02_Proofs Proofs.C01_Roots_Proofs Proofs.C03_MovingProofs.
Local Open Scope N_scope.

(* the `nofail` of the statements (Spec/C01_More_Spec.v); Proofs/Fk/FailPrefix.v has its own copy, convertible to it *)
Notation nofail := C01_More_Spec.nofail.

(* ---------------------------------------------------------------- the calls that returned normally *)

Lemma ok_prefix_all t : Forall (fun x : list event * result => snd x = ROk) t -> ok_prefix t = t.
Proof.
  induction 1 as [|[evs r] t Hr _ IH]; [reflexivity|]. cbn [snd] in Hr. subst r. cbn [ok_prefix]. rewrite IH. reflexivity.
Qed.

Lemma ok_prefix_cut t1 pre : Forall (fun x : list event * result => snd x = ROk) t1 ->
  ok_prefix (t1 ++ [(pre, RHandlerErr)]) = t1.
Proof.
  induction 1 as [|[evs r] t Hr _ IH]; [reflexivity|]. cbn [snd] in Hr. subst r. cbn [app ok_prefix]. rewrite IH. reflexivity.
Qed.

Lemma ok_prefix_oracle cfg t0 t : oracle_run cfg t0 t -> Forall (fun x : list event * result => snd x = ROk) t0 ->
  (exists n, ok_prefix t = firstn n t0) /\ (c_fail_at cfg = None -> ok_prefix t = t).
Proof.
  intros Ho Hok. unfold oracle_run in Ho.
  assert (Hsame : t = t0 -> (exists n, ok_prefix t = firstn n t0) /\ ok_prefix t = t).
  { intros ->. rewrite (ok_prefix_all t0 Hok). split; [exists (length t0); rewrite firstn_all; reflexivity | reflexivity]. }
  destruct (c_fail_at cfg) as [k|]; [|destruct (Hsame Ho); split; [assumption | intros _; assumption]].
  split; [|discriminate].
  destruct (k <? N.of_nat (length (all_events t0))); [|exact (proj1 (Hsame Ho))].
  destruct Ho as (t1 & pre & post & r & rest & -> & -> & _).
  apply Forall_app in Hok as [Hok1 _]. rewrite (ok_prefix_cut t1 pre Hok1).
  exists (length t1). rewrite firstn_app, Nat.sub_diag, firstn_all. cbn [firstn]. rewrite app_nil_r. reflexivity.
Qed.

(* ---------------------------------------------------------------- the clauses on a beginning of the run *)

Lemma follows_firstn cfg lib : forall h t fc st fin n,
  c03_follows cfg lib fc st fin h t -> c03_follows cfg lib fc st fin h (firstn n t).
Proof.
  induction h as [|b h IH]; intros t fc st fin n H; [destruct (firstn n t); exact I|].
  destruct n as [|n]; [exact I|]. destruct t as [|[evs r] t]; [exact I|].
  cbn [firstn c03_follows] in *. destruct H as (st' & H1 & H2 & H3 & H4 & H5).
  exists st'. repeat (split; [assumption|]). apply IH. exact H5.
Qed.

Lemma noise_firstn cfg : forall h t fc n, c03_noise cfg fc h t -> c03_noise cfg fc h (firstn n t).
Proof.
  induction h as [|b h IH]; intros t fc n H; [destruct (firstn n t); exact I|].
  destruct n as [|n]; [exact I|]. destruct t as [|[evs r] t]; [exact I|].
  cbn [firstn c03_noise] in *. destruct H as [H1 H2]. split; [exact H1 | apply IH; exact H2].
Qed.

Lemma follow_firstn cfg lib : forall h os fc st lf n,
  c03_follow cfg lib fc st lf h os = true -> c03_follow cfg lib fc st lf h (firstn n os) = true.
Proof.
  induction h as [|b h IH]; intros os fc st lf n H; [destruct (firstn n os); reflexivity|].
  destruct n as [|n]; [reflexivity|]. destruct os as [|o os]; [reflexivity|].
  cbn [firstn c03_follow] in *. destruct (apply_all lib st (o_events o)) as [st'|]; [|discriminate].
  apply andb_true_iff in H as [H1 H2]. rewrite H1. cbn [andb]. apply IH. exact H2.
Qed.

(* the reference and the comparison read the first streamable block, the inclusive flag, the trigger mode and the
   filter of the configuration, never the oracle *)
Lemma follows_nofail cfg lib : forall h t fc st fin,
  c03_follows (nofail cfg) lib fc st fin h t <-> c03_follows cfg lib fc st fin h t.
Proof.
  induction h as [|b h IH]; intros t fc st fin; [reflexivity|]. destruct t as [|[evs r] t]; [reflexivity|].
  cbn [c03_follows]. change (c_first (nofail cfg)) with (c_first cfg). change (c_incl (nofail cfg)) with (c_incl cfg).
  change (c_alltrig (nofail cfg)) with (c_alltrig cfg). change (c_filter (nofail cfg)) with (c_filter cfg).
  split; intros (st' & H1 & H2 & H3 & H4 & H5); exists st'; repeat (split; [assumption|]); apply IH; exact H5.
Qed.

Lemma noise_nofail cfg : forall h t fc, c03_noise (nofail cfg) fc h t <-> c03_noise cfg fc h t.
Proof.
  induction h as [|b h IH]; intros t fc; [reflexivity|]. destruct t as [|[evs r] t]; [reflexivity|].
  cbn [c03_noise]. change (c_first (nofail cfg)) with (c_first cfg). change (c_incl (nofail cfg)) with (c_incl cfg).
  change (c_alltrig (nofail cfg)) with (c_alltrig cfg).
  split; intros [H1 H2]; (split; [exact H1 | apply IH; exact H2]).
Qed.

Lemma follow_nofail cfg lib : forall h os fc st lf,
  c03_follow (nofail cfg) lib fc st lf h os = c03_follow cfg lib fc st lf h os.
Proof.
  induction h as [|b h IH]; intros os fc st lf; [reflexivity|]. destruct os as [|o os]; [reflexivity|].
  cbn [c03_follow]. change (c_first (nofail cfg)) with (c_first cfg). change (c_incl (nofail cfg)) with (c_incl cfg).
  change (c_alltrig (nofail cfg)) with (c_alltrig cfg). change (c_filter (nofail cfg)) with (c_filter cfg).
  destruct (apply_all lib st (o_events o)) as [st'|]; [|reflexivity]. rewrite IH. reflexivity.
Qed.

Lemma fc_after_nofail cfg fc h : fc_after (nofail cfg) fc h = fc_after cfg fc h.
Proof. reflexivity. Qed.

Lemma nofail_id cfg : c_fail_at cfg = None -> nofail cfg = cfg.
Proof. destruct cfg. cbn. intros ->. reflexivity. Qed.

(* ---------------------------------------------------------------- the observation under an oracle *)

Section ObsFail.
  Variable cfg : config.
  Variable k : N.
  Hypothesis Hfail : c_fail_at cfg = Some k.
  Notation cfgN := (nofail cfg).

  Lemma obs_fail : forall h s, ncalls s <= k ->
    Forall (fun x => snd x = ROk) (fk_run cfgN s h) ->
    exists n, ok_obs (fk_obs cfg s h) = firstn n (fk_obs cfgN s h).
  Proof.
    induction h as [|b h IH]; intros s Hk Hok.
    - exists O. reflexivity.
    - pose proof (step_fail cfg k Hfail s b) as R.
      change (FailPrefix.nofail cfg) with (C01_More_Spec.nofail cfg) in R.
      cbn [fk_run fk_obs] in *. destruct (fk_step cfgN s b) as [[sN evsN] rN].
      inversion Hok as [|? ? Hr Hok']; subst. cbn [snd] in Hr. subst rN.
      cbn [step_rel'] in R. destruct R as (_ & evs & Hev & Hn & Hrel). cbn [app] in Hev. subst evs.
      destruct (Hrel Hk) as [HA HB].
      destruct (N.le_gt_cases (ncalls s + N.of_nat (length evsN)) k) as [Hle|Hgt].
      + rewrite (HA Hle). cbn [ok_obs o_result]. destruct (IH sN) as [n Hn']; [lia | exact Hok'|].
        exists (S n). cbn [firstn]. rewrite Hn'. reflexivity.
      + destruct (HB Hgt) as (se & e1 & e2 & He & Hl & ->). cbn [ok_obs o_result]. exists O. reflexivity.
  Qed.
End ObsFail.

(* ---------------------------------------------------------------- the cut is determined by the never-failing run *)

Lemma all_events_len_app (t1 t2 : trace) : length (all_events (t1 ++ t2)) = (length (all_events t1) + length (all_events t2))%nat.
Proof. rewrite all_events_app, app_length. reflexivity. Qed.

Lemma app_same_length {A} : forall (l1 l1' l2 l2' : list A), l1 ++ l2 = l1' ++ l2' -> length l1 = length l1' -> l1 = l1'.
Proof.
  induction l1 as [|x l1 IH]; intros [|y l1'] l2 l2' H Hl; cbn in *; try reflexivity; try discriminate.
  injection H as -> H. f_equal. exact (IH l1' l2 l2' H (eq_add_S _ _ Hl)).
Qed.

Lemma cut_trace_det k t0 t t' : cut_trace k t0 t -> cut_trace k t0 t' -> t = t'.
Proof.
  intros (t1 & pre & post & r & rest & E0 & -> & Hne & Hl) (t1' & pre' & post' & r' & rest' & E0' & -> & Hne' & Hl').
  assert (Hpos : forall (l : list event), l <> [] -> (0 < length l)%nat) by (intros [|x l] H; [congruence | cbn; lia]).
  pose proof (Hpos pre Hne) as Hp. pose proof (Hpos pre' Hne') as Hp'.
  rewrite app_length in Hl, Hl'.
  (* the two decompositions of t0 split at the same step *)
  assert (Hlen : length t1 = length t1').
  { destruct (Nat.lt_trichotomy (length t1) (length t1')) as [Hlt|[Heq|Hgt]]; [exfalso|exact Heq|exfalso].
    - (* t1' = t1 ++ (pre ++ post, r) :: more *)
      assert (Hfn : firstn (length t1') t0 = t1') by (rewrite E0', firstn_app, Nat.sub_diag, firstn_all; cbn [firstn]; apply app_nil_r).
      rewrite E0 in Hfn. rewrite firstn_app in Hfn. rewrite firstn_all2 in Hfn by lia.
      destruct (length t1' - length t1)%nat as [|d] eqn:Ed; [lia|]. cbn [firstn] in Hfn.
      rewrite <- Hfn in Hl'. rewrite all_events_len_app, all_events_cons in Hl'. cbn [fst] in Hl'. rewrite !app_length in Hl'. lia.
    - assert (Hfn : firstn (length t1) t0 = t1) by (rewrite E0, firstn_app, Nat.sub_diag, firstn_all; cbn [firstn]; apply app_nil_r).
      rewrite E0' in Hfn. rewrite firstn_app in Hfn. rewrite firstn_all2 in Hfn by lia.
      destruct (length t1 - length t1')%nat as [|d] eqn:Ed; [lia|]. cbn [firstn] in Hfn.
      rewrite <- Hfn in Hl. rewrite all_events_len_app, all_events_cons in Hl. cbn [fst] in Hl. rewrite !app_length in Hl. lia. }
  rewrite E0 in E0'. apply app_eq_app in E0' as [l [[-> H]|[-> H]]].
  - destruct l as [|x l]; [|rewrite app_length in Hlen; cbn in Hlen; lia].
    rewrite app_nil_r in *. cbn [app] in H. injection H as Hpp _ _.
    assert (length pre = length pre') by lia.
    assert (pre = pre') by (first [exact (app_same_length _ _ _ _ Hpp H) | symmetry; apply (app_same_length _ _ _ _ Hpp); lia]).
    subst pre'. reflexivity.
  - destruct l as [|x l]; [|rewrite app_length in Hlen; cbn in Hlen; lia].
    rewrite app_nil_r in *. cbn [app] in H. injection H as Hpp _ _.
    assert (length pre = length pre') by lia.
    assert (pre = pre') by (first [exact (app_same_length _ _ _ _ Hpp H) | symmetry; apply (app_same_length _ _ _ _ Hpp); lia]).
    subst pre'. reflexivity.
Qed.

Lemma oracle_run_det cfg cfg' t0 t t' : c_fail_at cfg = c_fail_at cfg' ->
  oracle_run cfg t0 t -> oracle_run cfg' t0 t' -> t = t'.
Proof.
  unfold oracle_run. intros <-. destruct (c_fail_at cfg) as [k|]; [|congruence].
  destruct (k <? N.of_nat (length (all_events t0))); [apply cut_trace_det | congruence].
Qed.

Lemma obs_all_ok cfg : forall h s, Forall (fun x => snd x = ROk) (fk_run cfg s h) -> ok_obs (fk_obs cfg s h) = fk_obs cfg s h.
Proof.
  induction h as [|b h IH]; intros s Hok; [reflexivity|]. cbn [fk_run fk_obs] in *.
  destruct (fk_step cfg s b) as [[s' evs] r]. inversion Hok as [|? ? Hr Hok']; subst. cbn [snd] in Hr. subst r.
  cbn [ok_obs o_result]. rewrite (IH s' Hok'). reflexivity.
Qed.

(* ---------------------------------------------------------------- the statement *)

Lemma c03_moving_lib_failures_proved : c03_moving_lib_failures_statement.
Proof.
  intros cfg r0 m h Hm Hnew Hundo Hscope t0 t.
  destruct (c03_moving_lib_roots_proved (nofail cfg) r0 m h Hm eq_refl Hnew Hundo Hscope) as (H1 & H2 & H3 & H4 & H5).
  destruct (c01_roots_nofail (nofail cfg) r0 m h eq_refl Hm Hnew Hundo Hscope) as (Hlen & Hok & _).
  destruct (fk_run_oracle_proved cfg m h) as [Ho _].
  destruct (ok_prefix_oracle cfg t0 t Ho Hok) as [[n Hn] Hnone].
  unfold c03_statement in H1. rewrite (proj1 (rooted_root_lib r0 m _ Hm)) in H1.
  split; [exact Ho|]. split; [eapply results_of_oracle_run; eassumption|]. split; [exists n; exact Hn|]. split; [exact Hnone|].
  split. { rewrite Hn. apply follows_firstn. apply follows_nofail. exact H2. }
  split. { rewrite Hn. apply noise_firstn. apply noise_nofail. exact H3. }
  split.
  { rewrite <- follow_nofail. destruct (c_fail_at cfg) as [k|] eqn:Hf.
    - destruct (obs_fail cfg k Hf h (fs_init m)) as [n' Hn']; [rewrite (rooted_ncalls r0 m Hm); lia | exact Hok|].
      rewrite Hn'. apply follow_firstn. exact H1.
    - rewrite <- (nofail_id cfg Hf) at 2. rewrite (obs_all_ok (nofail cfg) h (fs_init m) Hok). exact H1. }
  split.
  { intros k. pose proof (proj1 (fk_run_oracle_proved (with_kept cfg k) m h)) as Hk.
    assert (E : fk_run (nofail (with_kept cfg k)) (fs_init m) h = fk_run (nofail cfg) (fs_init m) h) by (exact (H4 k)).
    rewrite E in Hk.
    exact (oracle_run_det (with_kept cfg k) cfg _ _ _ eq_refl Hk Ho). }
  intros h1 b h2 Hh Hig. cbv zeta in Hig. cbv zeta.
  pose proof (H5 h1 b h2 Hh Hig) as Hdel. cbv zeta in Hdel. rewrite <- Hdel.
  exact (proj1 (fk_run_oracle_proved cfg m (h1 ++ b :: h2))).
Qed.
