(* GENERIC COPY of Proofs/C08_SchedThms.v: the same proofs with the event production function [hub_push first kept]
   (Model/Hub.v hub_live) replaced by an arbitrary hp : hprod (Model/HubAll.v); see Spec/C08_Sched_Gen_Spec.v. *)
(* C08, schedule part, 5: from the invariants to the statements of Spec/C08_Sched_Spec.v. *)
From BV Require Import Base.Prelude Model.Block Model.ForkDB Model.Forkable Model.ForkableLookups
  Model.Burst Model.Hub Model.HubSubs Model.HubAll Model.HubSched Model.HubSchedG Spec.C08_Spec Spec.C08_Gen_Spec Spec.C08_Sched_Spec Spec.C08_Sched_Gen_Spec
  Proofs.C08_Abstract Proofs.C08G_SchedSerial Proofs.C08G_SchedInv Proofs.C08G_SchedReg Proofs.C08G_SchedRefine
  Proofs.C08G_SchedOrder.
Local Open Scope N_scope.

Lemma list_ext_nth {A} : forall (l l' : list A),
  length l = length l' -> (forall p x, nth_error l' p = Some x -> nth_error l p = Some x) -> l = l'.
Proof.
  induction l as [|a l IH]; intros [|b l'] Hl H; try discriminate; [reflexivity|].
  pose proof (H O b eq_refl) as H0. cbn in H0. inversion H0; subst. f_equal.
  apply IH; [cbn in Hl; lia|]. intros p x Hp. apply (H (S p) x Hp).
Qed.

Section Thms.
  Variables (hp : hprod) (h0 : hub) (script : list block).
  Notation x0 := (xstart (mkSH h0 [])).
  Notation Cof := (Cof hp h0).

  Definition Fof (st : cstate) : xstate := xrun_g hp x0 (map snd (serial st)).

  Lemma serial_ops st :
    map snd (serial st) =
    map snd (g_log st) ++ match inflight st with Some (e, _) => XFan e :: map snd (g_tail st) | None => [] end.
  Proof.
    unfold serial. destruct (inflight st) as [[e todo]|]; [|rewrite app_nil_r; reflexivity].
    rewrite map_app. reflexivity.
  Qed.

  (* the full serialisation on the serial machine, from the invariant on its committed part *)
  Lemma F_facts st :
    RegInv st -> SerInv hp h0 script st ->
    xvalid_g hp x0 (map snd (serial st)) /\
    sh_hub (x_sh (Fof st)) = g_hub st /\
    x_pend (Fof st) = pend_of st /\
    length (sh_subs (x_sh (Fof st))) = length (g_order st) /\
    forall p i, nth_error (g_order st) p = Some i -> xview (Fof st) p = Some (sub_done st i, got_at st i).
  Proof.
    intros R S. pose proof (tail_recvs hp h0 script st S) as Hro.
    pose proof (tail_lown_nil hp h0 script st) as Hnil.
    pose proof S as S'. destruct S' as [S1 S2 S3 S4 S5 S6 S7 S8 S9].
    unfold Fof. rewrite serial_ops. unfold sub_done.
    destruct (inflight st) as [[e todo]|] eqn:Hinf.
    - rewrite xrun_app. change (xrun_g hp x0 (map snd (g_log st))) with (Cof st). rewrite xrun_cons.
      destruct (recvs_only_run hp _ (xstep_g hp (Cof st) (XFan e)) Hro) as [Hv [Hh [Hp [Hn _]]]].
      rewrite xstep_hub in Hh. rewrite xstep_pend, S4 in Hp. rewrite xstep_nsubs in Hn. cbn [tl] in Hp.
      split; [apply xvalid_app; split; [exact S2|]; cbn [xvalid_g xok]; split; [eexists; exact S4 | exact Hv]|].
      split; [rewrite Hh; exact S3|]. split; [exact Hp|]. split; [rewrite Hn; exact S5|].
      intros p i Hpi. destruct (S6 p i Hpi) as [v [Hv' Hr]].
      rewrite <- xrun_cons. rewrite (xview_run hp _ _ _ _ Hv'). rewrite lown_cons. cbn [lown1 app].
      unfold after in Hr. rewrite Hinf in Hr. destruct (memb i todo) eqn:Hm.
      + rewrite (Hnil e todo p i R S eq_refl Hpi Hm). cbn [lrun fold_left] in *. subst v. reflexivity.
      + rewrite Hr. reflexivity.
    - rewrite app_nil_r. change (xrun_g hp x0 (map snd (g_log st))) with (Cof st).
      split; [exact S2|]. split; [exact S3|]. split; [exact S4|]. split; [exact S5|].
      intros p i Hpi. destruct (S6 p i Hpi) as [v [Hv' Hr]]. unfold after in Hr. rewrite Hinf in Hr.
      cbn [lrun fold_left] in Hr. subst v. exact Hv'.
  Qed.

  Lemma F_state st :
    RegInv st -> SerInv hp h0 script st -> Fof st = sview st.
  Proof.
    intros R S. destruct (F_facts st R S) as [_ [Hh [Hp [Hn Hview]]]].
    pose proof (xwf_run hp (map snd (serial st)) x0 (xwf_start _)) as Hwf. fold (Fof st) in Hwf.
    unfold xwf in Hwf. unfold sview.
    destruct (Fof st) as [[h subs] got pend] eqn:HF. cbn [x_sh x_got x_pend sh_hub sh_subs] in *.
    subst h pend. f_equal; [f_equal|].
    - apply list_ext_nth; [rewrite map_length; exact Hn|]. intros p s Hs.
      rewrite nth_error_map in Hs. destruct (nth_error (g_order st) p) as [i|] eqn:Hpi; [|discriminate].
      inversion Hs; subst s. specialize (Hview p i Hpi). unfold xview in Hview. cbn [x_sh x_got sh_subs] in Hview.
      apply view_at_some in Hview. apply Hview.
    - apply list_ext_nth; [rewrite map_length; lia|]. intros p g Hg.
      rewrite nth_error_map in Hg. destruct (nth_error (g_order st) p) as [i|] eqn:Hpi; [|discriminate].
      inversion Hg; subst g. specialize (Hview p i Hpi). unfold xview in Hview. cbn [x_sh x_got sh_subs] in Hview.
      apply view_at_some in Hview. apply Hview.
  Qed.

End Thms.

(* ---------------------------------------------------------------- c08_sched_serializable *)

Theorem c08_sched_serializable_proof hp : C08_sched_serializable_g hp.
Proof.
  intros h0 script reqs sched st ops. subst ops.
  destruct (full_reachable hp h0 script reqs sched) as [[L [R S]] P]. fold st in L, R, S, P.
  destruct (F_facts hp h0 script st R S) as [Hv _].
  split; [exact Hv|]. split; [apply (F_state hp h0 script st R S)|].
  destruct P as [P1 P2 P3 _]. split; [eexists; exact P1|]. split; [exact P2 | exact P3].
Qed.

(* ---------------------------------------------------------------- the lock invariants *)

Lemma reachable_inv hp h0 script reqs st :
  reachable_g hp h0 script reqs st -> FullInv hp h0 script st.
Proof. intros [sched ->]. apply full_reachable. Qed.

Theorem c08_sched_mutual_exclusion_proof hp : C08_sched_mutual_exclusion_g hp.
Proof.
  intros h0 script reqs st Hr. destruct (reachable_inv _ _ _ _ _ Hr) as [[L _] _]. split.
  - intros Hw. apply (lock_writer_excludes st L). rewrite (li_writer _ L). exact Hw.
  - intros i j ci cj Hi Hj Hmi Hmj. pose proof (li_mutex_in _ L i ci Hi Hmi). pose proof (li_mutex_in _ L j cj Hj Hmj).
    congruence.
Qed.

Theorem c08_sched_burst_append_atomic_proof hp : C08_sched_burst_append_atomic_g hp.
Proof.
  intros h0 script reqs st i c Hr Hc Hin. destruct (reachable_inv _ _ _ _ _ Hr) as [[L [R _]] _].
  pose proof (read_cs_not_writer st i c L Hc Hin) as Hnw. split; [exact Hnw|].
  split; [apply (inflight_none_pcs st Hnw)|].
  pose proof (ri_rec _ R i c Hc) as Hrec. unfold rec_ok in Hrec. destruct (r_pc c); try exact I; try exact Hrec.
  apply Hrec.
Qed.

Theorem c08_sched_no_lost_registration_proof hp : C08_sched_no_lost_registration_g hp.
Proof.
  intros h0 script reqs st Hr. destruct (reachable_inv _ _ _ _ _ Hr) as [[_ [R _]] _].
  split; [apply (ri_subs _ R)|]. split; [apply (ri_nodup _ R)|].
  intros i c Hc. rewrite (ri_order _ R i). unfold registered. split.
  - intros [c0 [Hc0 Hreg]]. rewrite Hc in Hc0. inversion Hc0; subst c0. apply andb_true_iff in Hreg.
    destruct Hreg as [H1 H2]. split; [exact H1|]. destruct (r_sub c); [discriminate | discriminate].
  - intros [H1 H2]. exists c. split; [exact Hc|]. rewrite H1. destruct (r_sub c); [reflexivity | contradiction].
Qed.

(* ---------------------------------------------------------------- the property, per schedule *)

Lemma xerase_idem j ops : xerase j (xerase j ops) = xerase j ops.
Proof.
  unfold xerase. induction ops as [|o ops IH]; [reflexivity|]. cbn [filter].
  destruct (match o with XRecv k => negb (Nat.eqb k j) | _ => true end) eqn:E; [|exact IH].
  cbn [filter]. rewrite E, IH. reflexivity.
Qed.

Lemma reg_split hp h0 script st p i :
  RegInv st -> SerInv hp h0 script st -> nth_error (g_order st) p = Some i ->
  exists c pre post burst,
    nth_error (g_reqs st) i = Some c /\
    map snd (serial st) = pre ++ XSub (r_req c) :: post /\
    length (sh_subs (x_sh (xrun_g hp (xstart (mkSH h0 [])) pre))) = p /\
    request_burst (sh_hub (x_sh (xrun_g hp (xstart (mkSH h0 [])) pre))) (r_req c) = Some burst /\
    script = blocks pre ++ blocks post ++ unprocessed st.
Proof.
  intros R S Hp. pose proof (tail_recvs hp h0 script st S) as Hro.
  destruct (si_reg _ _ _ _ S p i Hp) as [c [pre [post [burst [Hc [Hlog [Hlen Hb]]]]]]].
  pose proof (si_script _ _ _ _ S) as Hscr.
  exists c, pre, (post ++ match inflight st with Some (e, _) => XFan e :: map snd (g_tail st) | None => [] end), burst.
  split; [exact Hc|]. split; [rewrite serial_ops, Hlog, <- app_assoc; reflexivity|].
  split; [exact Hlen|]. split; [exact Hb|].
  rewrite Hscr, Hlog, !blocks_app. cbn [blocks flat_map app]. fold (blocks post).
  rewrite <- !app_assoc. f_equal. f_equal.
  destruct (inflight st) as [[e todo]|]; [|reflexivity].
  change (XFan e :: map snd (g_tail st)) with ([XFan e] ++ map snd (g_tail st)). rewrite blocks_app.
  destruct (recvs_only_run hp _ (xstart (mkSH h0 [])) Hro) as [_ [_ [_ [_ [Hb' _]]]]]. rewrite Hb'. reflexivity.
Qed.

Theorem c08_sched_registration_atomic_proof hp : C08_sched_registration_atomic_g hp.
Proof.
  intros h0 script reqs sched p i st Hp.
  destruct (full_reachable hp h0 script reqs sched) as [[L [R S]] P]. fold st in L, R, S, P.
  destruct (reg_split hp h0 script st p i R S Hp) as [c [pre [post [burst [Hc [Hser [Hlen [Hb Hscr]]]]]]]].
  destruct (F_facts hp h0 script st R S) as [Hv [_ [Hpend _]]].
  unfold Fof in Hpend. rewrite Hser in Hv, Hpend.
  apply xvalid_app in Hv. destruct Hv as [Hv1 Hv2].
  destruct (c08_serial_hub_proof hp (mkSH h0 []) pre Hv1) as [Hh1 Hf1]. cbn [sh_hub] in Hh1, Hf1.
  pose proof Hv2 as Hv2'. cbn [xvalid_g xok] in Hv2'. destruct Hv2' as [Hp0 _].
  rewrite Hp0, app_nil_r in Hf1.
  destruct (xrun_hub_gen hp _ _ Hv2) as [_ Hf2]. rewrite <- xrun_app, Hpend, Hp0, Hh1 in Hf2.
  cbn [fans blocks flat_map app] in Hf2. fold (fans post) in Hf2. fold (blocks post) in Hf2.
  exists c, pre, post, burst, (unprocessed st).
  split; [exact Hc|]. split; [exact Hser|]. split; [exact Hlen|]. split; [exact Hscr|].
  cbv zeta. rewrite <- Hh1. split; [exact Hb|]. split; [exact Hf1|]. rewrite Hh1. exact Hf2.
Qed.

Theorem c08_sched_exactly_once_proof hp : C08_sched_exactly_once_g hp.
Proof.
  intros h0 script reqs sched p i st Hp.
  destruct (full_reachable hp h0 script reqs sched) as [[L [R S]] P]. fold st in L, R, S, P.
  destruct (reg_split hp h0 script st p i R S Hp) as [c [pre [post [burst [Hc [Hser [Hlen [Hb Hscr]]]]]]]].
  destruct (F_facts hp h0 script st R S) as [Hv [_ [_ [_ Hview]]]].
  specialize (Hview p i Hp). unfold Fof in Hview. rewrite Hser in Hv, Hview.
  apply xvalid_app in Hv. destruct Hv as [Hv1 _].
  destruct (c08_serial_hub_proof hp (mkSH h0 []) pre Hv1) as [Hh1 _]. cbn [sh_hub] in Hh1.
  destruct (c08_serial_exactly_once_proof hp (mkSH h0 []) pre (r_req c) post burst Hb)
    as [s [got [Hv' [Hcap [Hlive Hdrop]]]]].
  rewrite Hlen in Hv', Hdrop. rewrite Hview in Hv'. inversion Hv' as [[Hs Hg]]. clear Hv'.
  assert (Hgot : got_at st i = r_got c) by (unfold got_at; rewrite Hc; reflexivity).
  exists c, pre, post, burst. split; [exact Hc|]. split; [exact Hser|].
  split; [rewrite <- Hh1; exact Hb|]. cbv zeta. rewrite Hs, <- Hgot, Hg.
  split; [exact Hcap|]. split; [exact Hlive|]. intros Hd.
  destruct (Hdrop Hd) as [post1 [e [post2 [s1 [got1 [H1 [H2 [H3 [H4 [H5 H6]]]]]]]]]].
  exists post1, e, post2, s1, got1. auto.
Qed.

Theorem c08_sched_isolation_proof hp : C08_sched_isolation_g hp.
Proof.
  intros h0 script reqs sched p q i st Hp Hpq.
  destruct (full_reachable hp h0 script reqs sched) as [[L [R S]] P]. fold st in L, R, S, P.
  destruct (F_facts hp h0 script st R S) as [_ [_ [_ [_ Hview]]]].
  rewrite <- (Hview p i Hp). unfold Fof. symmetry.
  apply (c08_serial_isolation_proof hp _ _ _ p q Hpq). symmetry. apply xerase_idem.
Qed.

Theorem c08_sched_hub_unaffected_proof hp : C08_sched_hub_unaffected_g hp.
Proof.
  intros h0 script reqs sched st ops. subst ops.
  destruct (full_reachable hp h0 script reqs sched) as [[L [R S]] P]. fold st in L, R, S, P.
  destruct (F_facts hp h0 script st R S) as [Hv [Hh [Hp _]]].
  destruct (c08_serial_hub_proof hp (mkSH h0 []) _ Hv) as [Hh' Hf']. cbn [sh_hub] in Hh', Hf'.
  unfold Fof in Hh, Hp. rewrite Hh in Hh'. rewrite Hp in Hf'.
  split; [|split; [exact Hh' | exact Hf']].
  exists (unprocessed st). rewrite (si_script _ _ _ _ S) at 1. f_equal.
  rewrite serial_ops, blocks_app. pose proof (tail_recvs hp h0 script st S) as Hro.
  destruct (inflight st) as [[e todo]|]; [|rewrite app_nil_r; reflexivity].
  change (XFan e :: map snd (g_tail st)) with ([XFan e] ++ map snd (g_tail st)). rewrite blocks_app.
  destruct (recvs_only_run hp _ (xstart (mkSH h0 [])) Hro) as [_ [_ [_ [_ [Hb' _]]]]]. rewrite Hb'.
  rewrite app_nil_r. reflexivity.
Qed.

Theorem c08_sched_complete_delivery_proof hp : C08_sched_complete_delivery_g hp.
Proof.
  intros h0 script reqs sched p i st Hfin Hp.
  destruct (c08_sched_exactly_once_proof hp h0 script reqs sched p i Hp)
    as [c [pre' [post' [burst' [Hc [Hser' [Hb' Hrest]]]]]]].
  fold st in Hc, Hser', Hrest.
  destruct (full_reachable hp h0 script reqs sched) as [[L [R S]] P]. fold st in L, R, S, P.
  destruct Hfin as [Hpc [Hscript Hall]]. destruct (Hall i c Hc) as [Hdone Hq].
  assert (Hinf : inflight st = None) by (unfold inflight; rewrite Hpc; reflexivity).
  assert (Hpend : pend_of st = []) by (unfold pend_of; rewrite Hpc; reflexivity).
  assert (Hs : exists s, r_sub c = Some s).
  { assert (Hin : In i (g_order st)) by (apply (nth_error_In _ _ Hp)).
    apply (ri_order _ R) in Hin. destruct Hin as [c0 [Hc0 Hreg]]. rewrite Hc in Hc0. inversion Hc0; subst c0.
    unfold registered in Hreg. apply andb_true_iff in Hreg. destruct Hreg as [_ Hsome].
    destruct (r_sub c) as [s|]; [exists s; reflexivity | discriminate]. }
  destruct Hs as [s Hs]. specialize (Hq s Hs).
  assert (Hsd : sub_done st i = s) by (unfold sub_done; rewrite Hinf; unfold sub_at; rewrite Hc, Hs; reflexivity).
  (* the events fanned out after the registration are the hub's events for the rest of the script *)
  destruct (F_facts hp h0 script st R S) as [Hv [_ [Hp' _]]].
  unfold Fof in Hp'. rewrite Hser' in Hv, Hp'. apply xvalid_app in Hv. destruct Hv as [Hv1 Hv2].
  destruct (c08_serial_hub_proof hp (mkSH h0 []) pre' Hv1) as [Hh1 _]. cbn [sh_hub] in Hh1.
  pose proof Hv2 as Hv2'. cbn [xvalid_g xok] in Hv2'. destruct Hv2' as [Hp0 _].
  destruct (xrun_hub_gen hp _ _ Hv2) as [_ Hf]. rewrite <- xrun_app, Hp', Hp0, Hh1, Hpend, app_nil_r in Hf.
  cbn [fans blocks flat_map app] in Hf. fold (fans post') in Hf. fold (blocks post') in Hf.
  assert (Hsplit : script = blocks pre' ++ blocks post').
  { rewrite (si_script _ _ _ _ S). unfold unprocessed. rewrite Hpc, Hscript, app_nil_r.
    assert (E : map snd (g_log st) = map snd (serial st)) by (rewrite serial_ops, Hinf, app_nil_r; reflexivity).
    rewrite E, Hser', blocks_app. cbn [blocks flat_map app]. reflexivity. }
  cbv zeta in Hrest. rewrite Hsd in Hrest. destruct Hrest as [Hcap [Hlive Hdrop]].
  exists c, s, (blocks pre'), (blocks post'), burst'.
  split; [exact Hc|]. split; [exact Hs|]. split; [exact Hsplit|]. cbv zeta.
  split; [exact Hb'|]. rewrite Hq, app_nil_r in Hlive, Hdrop. split.
  - intros Hd. rewrite (Hlive Hd), Hf. reflexivity.
  - intros Hd. destruct (Hdrop Hd) as [post1 [e [post2 [s1 [got1 [H1 [_ [_ [_ H5]]]]]]]]].
    exists (fans post1), e, (fans post2). split; [|exact H5].
    rewrite <- Hf, H1, fans_app. reflexivity.
Qed.
