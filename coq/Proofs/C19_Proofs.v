(* C19: the statements of Spec/C19_Spec.v, collected from the fact files. *)
From BV Require Import Base.Prelude Base.Decimal Model.Range Spec.C19_Spec
  Proofs.RangeFacts Proofs.RangeSplitFacts Proofs.RangeParseFacts.
Local Open Scope N_scope.

Definition c19_contains_pf : C19_contains := c19_contains_proof.
Definition c19_reached_pf : C19_reached := c19_reached_proof.
Definition c19_size_pf : C19_size := c19_size_proof.
Definition c19_next_pf : C19_next := c19_next_proof.
Definition c19_previous_pf : C19_previous := c19_previous_proof.
Definition c19_isnext_pf : C19_isnext := c19_isnext_proof.
Definition c19_split_partial_pf : C19_split_partial := c19_split_partial_proof.
Definition c19_split_exact_pf : C19_split_exact := c19_split_exact_proof.
Definition c19_split_full_refuted_pf : C19_split_full_refuted := c19_split_full_refuted_proof.
Definition c19_not_split_full_pf : ~ C19_split_full := not_c19_split_full.
Definition c19_split_unfixed_refuted_pf : C19_split_unfixed_refuted := c19_split_unfixed_refuted_proof.
Definition c19_parse_total_pf : C19_parse_total := c19_parse_total_proof.
Definition c19_parse_unfixed_refuted_pf : C19_parse_unfixed_refuted := c19_parse_unfixed_refuted_proof.
Definition c19_constructors_pf : C19_constructors := c19_constructors_proof.
