(* The stateless final-blocks-only filter (before the fix) delivers final blocks twice: the witness of
   Spec/C07_FinalUnfixed_Spec.v, by computation. *)
From BV Require Import Base.Prelude Model.Block Model.ForkDB Model.Forkable Model.ForkableLookups Model.Burst Model.Hub
  Model.CursorResolver Model.Joining
  Spec.Consumer Spec.Universe Check.Burst_Check Check.C07_Check Spec.C06_Spec Spec.C07_Spec Spec.C09_Spec Spec.C07_Compose_Spec
  Spec.C07_FinalUnfixed_Spec Proofs.C07_ComposeCheck.
Local Open Scope N_scope.

Definition fo_b (n : N) : block := mkBlock n n (n - 1) (n - 4).
Definition fo_canon : list block := map fo_b [2;3;4;5;6;7;8;9;10;11;12;13;14].
Definition fo_c : jcfg := mkJ 2 5 10 0 5 None 0 1 0.
Definition fo_w : world := mkW (hub_run 2 5 hub_init []) (map fo_b [8;9;10;11;12;13;14]).
Definition fo_ps : list (N * N) := [(6, 5)].

Lemma c07_final_only_refuted_proof : C07_final_only_refuted.
Proof.
  exists fo_canon, fo_c, fo_w, fo_ps, 12, fo_canon, [].
  split; [vm_compute; reflexivity|]. split; [vm_compute; reflexivity|].
  split.
  { split.
    - exists []. split; [intros b p []|reflexivity].
    - intros b Hb. vm_compute in Hb. vm_compute. tauto. }
  split.
  { split.
    - vm_compute. repeat split.
    - apply (NoDup_map_inv (fun x => x)). rewrite map_id. vm_compute.
      repeat (constructor; [cbn; intros K; repeat (destruct K as [K|K]; [discriminate|]); exact K|]). constructor. }
  split; [intros b Hb; exact Hb|].
  split; [apply eventual_tip_b_sound; vm_compute; reflexivity|].
  split; [reflexivity|]. split; [reflexivity|]. split; [reflexivity|]. split; [reflexivity|].
  split.
  { apply Forall_forall. intros b Hb.
    assert (H : forallb (fun b => bnum b <? file_bound) (filter (fun b => bnum b <? 12) fo_canon) = true) by (vm_compute; reflexivity).
    rewrite forallb_forall in H. apply N.ltb_lt. apply H. exact Hb. }
  split; [exists (fo_b 5); split; [vm_compute; tauto | vm_compute; reflexivity]|].
  cbv zeta. split; [vm_compute; reflexivity|]. split; [vm_compute; reflexivity|]. split; [vm_compute; reflexivity|].
  intros E. apply (f_equal (@length event)) in E. vm_compute in E. discriminate.
Qed.

(* what the two models deliver on the witness *)
Definition fo_show (x : list event * jerr) := (map (fun e => (estep e, bid (eblk e))) (fst x), snd x).
Example c07_final_only_witness_runs :
  fo_show (stream_run_stateless fo_c fo_w fo_ps 12 (filter (fun b => bnum b <? 12) fo_canon) [])
  = ([(SNewIrr, 5); (SNewIrr, 6); (SNewIrr, 7); (SNewIrr, 8); (SNewIrr, 9); (SNewIrr, 10); (SIrr, 9); (SIrr, 10)], JNil) /\
  fo_show (stream_run fo_c fo_w fo_ps 12 (filter (fun b => bnum b <? 12) fo_canon) [])
  = ([(SNewIrr, 5); (SNewIrr, 6); (SNewIrr, 7); (SNewIrr, 8); (SNewIrr, 9); (SNewIrr, 10)], JNil).
Proof. vm_compute. split; reflexivity. Qed.

(* ------------------------------------------------------------------ from a cursor ahead of the hub's LIB *)

Definition fc_canon : list block := map fo_b [2;3;4;5;6;7;8;9;10;11;12;13;14;15;16].
Definition fc_cu : cursor := mkCursor SIrr (mkR 12 12) (mkR 12 12) (mkR 12 12).
Definition fc_c : jcfg := mkJ 2 5 10 1 0 (Some fc_cu) 0 1 0.
Definition fc_l : list (block * pass) := map (fun n => (fo_b n, PBlocks [])) [8;9;10;11;12;13;14].
Definition fc_w : world := mkW (hub_run 2 5 hub_init fc_l) (map fo_b [15;16]).

Lemma c07_final_cursor_refuted_proof : C07_final_cursor_refuted.
Proof.
  exists fc_canon, fc_c, fc_w, [], 12, fc_canon, [], fc_cu, (fo_b 12).
  split; [vm_compute; reflexivity|]. split; [vm_compute; reflexivity|].
  split.
  { split.
    - exists fc_l. split; [|reflexivity]. intros b p Hin. unfold fc_l in Hin. apply in_map_iff in Hin as (n & E & Hn). injection E as <- <-.
      split; [|intros x []]. vm_compute in Hn. repeat (destruct Hn as [<-|Hn]; [vm_compute; tauto|]). destruct Hn.
    - intros b Hb. vm_compute in Hb. vm_compute. tauto. }
  split.
  { split.
    - vm_compute. repeat split.
    - apply (NoDup_map_inv (fun x => x)). rewrite map_id. vm_compute.
      repeat (constructor; [cbn; intros K; repeat (destruct K as [K|K]; [discriminate|]); exact K|]). constructor. }
  split; [intros b Hb; exact Hb|].
  split; [apply eventual_tip_b_sound; vm_compute; reflexivity|].
  split; [reflexivity|]. split; [reflexivity|]. split; [reflexivity|]. split; [reflexivity|]. split; [reflexivity|].
  split; [reflexivity|]. split; [vm_compute; tauto|]. split; [reflexivity|]. split; [reflexivity|].
  cbv zeta. split; [vm_compute; reflexivity|]. split; [vm_compute; reflexivity|].
  split; [eexists; split; [vm_compute; left; reflexivity | vm_compute; discriminate]|].
  split; [vm_compute; reflexivity|].
  assert (E : fst (stream_run fc_c fc_w [] 12 (filter (fun b => bnum b <? 12) fc_canon) []) = []) by (vm_compute; reflexivity).
  rewrite E. constructor.
Qed.

(* a longer tail of arrivals: the memoryless filter delivers 11 12 13 14, the fixed one 13 14 *)
Definition fc_w2 : world := mkW (hub_run 2 5 hub_init fc_l) (map fo_b [15;16;17;18]).
Example c07_final_cursor_witness_run :
  fo_show (stream_run_nomem fc_c fc_w2 [] 12 (filter (fun b => bnum b <? 12) fc_canon) [])
  = ([(SIrr, 11); (SIrr, 12); (SIrr, 13); (SIrr, 14)], JNil) /\
  fo_show (stream_run fc_c fc_w2 [] 12 (filter (fun b => bnum b <? 12) fc_canon) [])
  = ([(SIrr, 13); (SIrr, 14)], JNil).
Proof. vm_compute. split; reflexivity. Qed.
