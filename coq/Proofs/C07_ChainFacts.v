(* Facts about the handler chain (Model/Joining.chain) over a sequence: upto_stop / delivered of Spec/C07_Spec.v,
   filters that let New and Undo through, the consumer of c07_prop from the stack machine. *)
From BV Require Import Base.Prelude Model.Block Model.ForkDB Model.Forkable Model.ForkableLookups
  Model.Burst Model.Hub Model.CursorResolver Model.Joining
  Spec.Consumer Check.Burst_Check Check.C07_Check Spec.C06_Spec Spec.C07_Spec Spec.C13_Spec
  Spec.C07_Compose_Spec Spec.C07_Shapes_Spec Spec.C07_More_Spec
  Proofs.C07_File Proofs.C07_Live Proofs.C13_Proofs Proofs.C07_ComposeStack.
Local Open Scope N_scope.

Lemma upto_stop_chain_run c : forall l, upto_stop c l = chain_run c l.
Proof.
  induction l as [|e l IH]; [reflexivity|]. cbn [upto_stop chain_run]. unfold stops. rewrite IH.
  destruct (snd (Joining.chain c e)); [reflexivity|]. destruct (fst (Joining.chain c e)); reflexivity.
Qed.

Lemma upto_stop_nostop c : forall l, snd (upto_stop c l) = false -> Forall (fun e => stops c e = false) l.
Proof.
  induction l as [|e l IH]; intros H; [constructor|]. cbn [upto_stop] in H.
  destruct (stops c e) eqn:Es; [discriminate|]. constructor; [exact Es | apply IH; exact H].
Qed.

Lemma upto_stop_split c : forall l, snd (upto_stop c l) = true ->
  exists l1 e l2, l = l1 ++ e :: l2 /\ snd (upto_stop c l1) = false /\ stops c e = true /\
    fst (upto_stop c l) = delivered c l1 ++ (if fst (Joining.chain c e) then [e] else []).
Proof.
  induction l as [|x l IH]; intros H; [discriminate|]. cbn [upto_stop] in *.
  destruct (stops c x) eqn:Es.
  - exists [], x, l. split; [reflexivity|]. split; [reflexivity|]. split; [exact Es|]. reflexivity.
  - cbn [snd] in H. destruct (IH H) as (l1 & e & l2 & -> & Hns & Hs & Hf).
    exists (x :: l1), e, l2. split; [reflexivity|]. split; [cbn [upto_stop]; rewrite Es; exact Hns|]. split; [exact Hs|].
    cbn [fst]. rewrite Hf. unfold delivered. cbn [filter]. destruct (fst (Joining.chain c x)); reflexivity.
Qed.

(* an event on which the chain stops *)
Lemma stops_true c e : stops c e = true ->
  passes c e = true /\ j_stop c <> 0 /\ j_stop c <= enum e /\ fst (Joining.chain c e) = (enum e =? j_stop c).
Proof.
  unfold stops. intros H.
  destruct (chain_cases c e) as [[Hp Hc]|[[Hp [H0 [Hlt Hc]]]|[[Hp [H0 [He Hc]]]|[Hp [Hs Hc]]]]]; rewrite Hc in *; cbn [fst snd] in *;
    try discriminate.
  - split; [exact Hp|]. split; [exact H0|]. split; [lia|]. symmetry. apply N.eqb_neq. lia.
  - split; [exact Hp|]. split; [exact H0|]. split; [lia|]. symmetry. apply N.eqb_eq. exact He.
Qed.

(* a passing event on which the chain does not stop is numbered below S *)
Lemma stops_false_pass c e : stops c e = false -> passes c e = true -> j_stop c <> 0 -> enum e < j_stop c.
Proof.
  unfold stops. intros H Hp H0.
  destruct (chain_cases c e) as [[Hp' Hc]|[[_ [_ [Hlt Hc]]]|[[_ [_ [He Hc]]]|[_ [Hs Hc]]]]]; rewrite Hc in *; cbn [fst snd] in *;
    try discriminate; try congruence.
  destruct Hs as [Hs|Hs]; [contradiction | exact Hs].
Qed.

(* without a stop on it, an event is delivered iff it passes the filter *)
Lemma chain_nostop_fst c e : stops c e = false -> fst (Joining.chain c e) = passes c e.
Proof.
  unfold stops. intros H.
  destruct (chain_cases c e) as [[Hp Hc]|[[Hp [_ [_ Hc]]]|[[Hp [_ [_ Hc]]]|[Hp [_ Hc]]]]]; rewrite Hc in *; cbn [fst snd] in *;
    try discriminate; rewrite Hp; reflexivity.
Qed.

Lemma delivered_nostop c l : snd (upto_stop c l) = false -> delivered c l = filter (passes c) l.
Proof.
  intros H. pose proof (upto_stop_nostop c l H) as Hall. unfold delivered.
  apply filter_ext_in. intros e He. rewrite Forall_forall in Hall. apply chain_nostop_fst. apply Hall. exact He.
Qed.

(* ------------------------------------------------------------------ filters with New and Undo *)

Lemma is_nu_nu_ev e : is_nu e = nu_ev e.
Proof. reflexivity. Qed.

Lemma has_nu_pass c e : has_nu (j_filter c) (j_custom c) = true -> is_nu e = true -> passes c e = true.
Proof.
  unfold has_nu, passes, filter_pass, is_nu. intros H He.
  destruct (j_filter c =? 0) eqn:E0; [exact He|]. cbn [orb] in H.
  apply andb_true_iff in H as [H H2]. apply andb_true_iff in H as [Hf H1].
  apply N.eqb_eq in Hf. rewrite Hf. cbn [N.eqb Pos.eqb].
  apply negb_true_iff in H1, H2. apply N.eqb_neq in H1, H2. apply negb_true_iff. apply N.eqb_neq.
  destruct (j_custom c) as [|p]; [cbn in H1; congruence|].
  destruct (estep e); cbn in He; try discriminate; cbn [step_bits].
  - (* New: bit 1 *) destruct p; cbn in H1 |- *; congruence.
  - (* Undo: bit 2 *) destruct p as [[p|p|]|[p|p|]|]; cbn in H2 |- *; congruence.
  - (* new+irreversible 17 *) destruct p as [p|p|]; cbn in H1 |- *; try congruence.
    destruct p as [[[[p|p|]|[p|p|]|]|[[p|p|]|[p|p|]|]|]|[[[p|p|]|[p|p|]|]|[[p|p|]|[p|p|]|]|]|]; cbn; try discriminate;
      try (destruct (Pos.land _ _); discriminate); try (destruct p; discriminate).
Qed.

Lemma nu_delivered c l : has_nu (j_filter c) (j_custom c) = true -> snd (upto_stop c l) = false ->
  filter is_nu (delivered c l) = filter is_nu l.
Proof.
  intros Hnu H. rewrite (delivered_nostop c l H).
  induction l as [|e l IH]; [reflexivity|]. cbn [upto_stop] in H. destruct (stops c e); [discriminate|]. cbn [snd] in H.
  cbn [filter]. destruct (is_nu e) eqn:En.
  - rewrite (has_nu_pass c e Hnu En). cbn [filter]. rewrite En, (IH H). reflexivity.
  - destruct (passes c e); cbn [filter]; rewrite ?En; exact (IH H).
Qed.

(* ------------------------------------------------------------------ the checker's consumer from the stack machine *)

Lemma raw_fold_sfold J0 X J : sfold J0 X = Some J -> raw_fold J0 X = Some (mkCons J 0 false).
Proof.
  intros H. unfold raw_fold.
  rewrite (sfold_cons_aside false (filter is_nu X) J0).
  - change (filter is_nu X) with (filter nu_ev X). rewrite sfold_filter, H. reflexivity.
  - apply Forall_forall. intros e He. apply filter_In in He as [_ He]. exact He.
Qed.

Lemma cons_fold_sfold_nu J0 l J : sfold J0 l = Some J ->
  cons_fold_aside (mkCons J0 0 false) (map as_new (filter is_nu l)) = Some (mkCons J 0 false).
Proof. exact (raw_fold_sfold J0 l J). Qed.

Lemma cons_of_sfold_nu J0 L J : sfold J0 (filter is_nu L) = Some J ->
  cons_fold_aside (mkCons J0 0 false) (map as_new (filter is_nu L)) = Some (mkCons J 0 false).
Proof.
  intros H. rewrite (sfold_cons_aside false (filter is_nu L) J0), H; [reflexivity|].
  apply Forall_forall. intros e He. apply filter_In in He as [_ He]. exact He.
Qed.

Lemma sfold_nu_filter J0 L : sfold J0 (filter is_nu L) = sfold J0 L.
Proof. exact (sfold_filter L J0). Qed.

(* ------------------------------------------------------------------ what a New|Undo consumer sees of a run *)

(* for a filter with New and Undo: the New / Undo / new+irreversible events delivered are those of a beginning Xa of the
   raw sequence; all of it when the stream ends waiting *)
Lemma nu_raw_out_prefix c X res (P : Prop) : has_nu (j_filter c) (j_custom c) = true -> raw_out c X res P ->
  exists Xa Xb, X = Xa ++ Xb /\ filter is_nu (fst res) = filter is_nu Xa /\ (snd res = JNil -> Xb = [] /\ P).
Proof.
  intros Hnu Hro. unfold raw_out in Hro. destruct (snd res) eqn:Er; try contradiction.
  - destruct Hro as (HP & Hns & Hf). exists X, []. split; [rewrite app_nil_r; reflexivity|].
    split; [rewrite Hf; apply nu_delivered; assumption | intros _; auto].
  - destruct Hro as (Hs & Hf). destruct (upto_stop_split c X Hs) as (X1 & e & X2 & EX & Hns & Hse & Hfu).
    destruct (stops_true c e Hse) as (_ & _ & _ & Hd).
    rewrite Hf, Hfu. destruct (fst (Joining.chain c e)).
    + exists (X1 ++ [e]), X2. split; [rewrite EX, <- app_assoc; reflexivity|]. split; [|discriminate].
      rewrite !filter_app, (nu_delivered c X1 Hnu Hns). reflexivity.
    + exists X1, (e :: X2). split; [exact EX|]. split; [|discriminate].
      rewrite app_nil_r. apply nu_delivered; assumption.
  - destruct Hro as (X1 & X2 & EX & Hns & Hf). exists X1, X2. split; [exact EX|]. split; [|discriminate].
    rewrite Hf. apply nu_delivered; assumption.
Qed.

Lemma nu_files_out_prefix c X fend res : has_nu (j_filter c) (j_custom c) = true -> files_out c X fend res ->
  exists Xa Xb, X = Xa ++ Xb /\ filter is_nu (fst res) = filter is_nu Xa /\ (snd res = JNil -> Xb = [] /\ fend = JNil).
Proof.
  intros Hnu [[Hns Hr]|[Hs Hr]]; rewrite Hr; cbn [fst snd].
  - exists X, []. split; [rewrite app_nil_r; reflexivity|]. split; [apply nu_delivered; assumption | auto].
  - destruct (upto_stop_split c X Hs) as (X1 & e & X2 & EX & Hns & Hse & Hfu). rewrite Hfu.
    destruct (fst (Joining.chain c e)).
    + exists (X1 ++ [e]), X2. split; [rewrite EX, <- app_assoc; reflexivity|]. split; [|discriminate].
      rewrite !filter_app, (nu_delivered c X1 Hnu Hns). reflexivity.
    + exists X1, (e :: X2). split; [exact EX|]. split; [|discriminate].
      rewrite app_nil_r. apply nu_delivered; assumption.
Qed.

(* the consumer over such a beginning *)
Lemma nu_fold_prefix J0 X Xa Xb J out : X = Xa ++ Xb -> sfold J0 X = Some J -> filter is_nu out = filter is_nu Xa ->
  exists Ja, cons_fold_aside (mkCons J0 0 false) (map as_new (filter is_nu out)) = Some (mkCons Ja 0 false) /\
             sfold J0 Xa = Some Ja.
Proof.
  intros EX HJ Ef. rewrite EX in HJ. destruct (sfold_prefix Xa Xb J0 J HJ) as [Ja HJa].
  exists Ja. split; [|exact HJa]. rewrite Ef. apply cons_of_sfold_nu. rewrite sfold_nu_filter. exact HJa.
Qed.

Lemma has_nu_not_final c : has_nu (j_filter c) (j_custom c) = true -> j_filter c <> 1.
Proof. intros Hnu E. unfold has_nu in Hnu. rewrite E in Hnu. cbn in Hnu. discriminate. Qed.
