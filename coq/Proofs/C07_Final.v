(* C07, final blocks only, number mode (Spec/C07_Final_Spec.v): the Irreversible / new+irreversible events of the raw
   sequence of a run announce a parent-linked run of blocks - the file blocks, the burst up to the hub's LIB block,
   then the blocks that become final - provided the join happens at or below the hub's LIB (files_final). *)
From Coq Require Import Sorted.
From BV Require Import Base.Prelude Model.Block Model.ForkDB Model.Forkable Model.ForkableLookups Model.Burst Model.Hub
  Model.CursorResolver Model.Joining
  Spec.Consumer Spec.Universe Check.Fk_Check Check.Burst_Check Check.C07_Check
  Spec.C09_Spec Spec.C05_Spec Spec.C06_Spec Spec.C07_Spec Spec.C13_Spec Spec.C07_Compose_Spec Spec.C07_Shapes_Spec Spec.C07_More_Spec
  Spec.C07_Final_Spec Spec.C13_More_Spec
  Spec.C01_Spec Spec.C01_Moving_Spec Spec.C01_Roots_Spec
  Proofs.C06_Lists Proofs.C06_Proofs Proofs.C13_Proofs
  Proofs.C09_Store Proofs.C09_Segment Proofs.C09_Proofs
  Proofs.Fk.LoopFacts Proofs.Fk.MovingLibDisc Proofs.C02_Proofs Proofs.C01_Roots_Proofs
  Proofs.Hub.ConsFacts Proofs.Hub.HubInv Proofs.Hub.HubFed Proofs.Hub.LinkedRuns Proofs.Hub.C09_History
  Proofs.C07_File Proofs.C07_Live
  Proofs.C07_ComposeStack Proofs.C07_ComposeHub Proofs.C07_ComposeRun Proofs.C07_Compose Proofs.C07_ComposeCheck
  Proofs.C07_Raw Proofs.C07_Shapes Proofs.C07_Filters Proofs.C07_ChainFacts Proofs.C07_FiltersNum Proofs.C07_FinalHub.
Local Open Scope N_scope.

(* ------------------------------------------------------------------ lists *)

Lemma final_fold_lnk : forall l p, lnk p (map eblk l) -> final_fold (Some p) l = true.
Proof.
  induction l as [|e l IH]; intros p H; [reflexivity|].
  cbn [map lnk] in H. destruct H as [Hp Hl]. cbn [final_fold]. rewrite Hp, N.eqb_refl. cbn [andb]. apply IH. exact Hl.
Qed.

Lemma final_fold_none l : (exists p, lnk p (map eblk l)) -> final_fold None l = true.
Proof.
  intros [p H]. destruct l as [|e l]; [reflexivity|]. cbn [map lnk] in H. destruct H as [_ H].
  cbn [final_fold]. apply final_fold_lnk. exact H.
Qed.

Lemma last_shift {A} : forall l (x y : A), last (y :: l) x = last l y.
Proof.
  induction l as [|z l IH]; intros x y; [reflexivity|].
  change (last (y :: z :: l) x) with (last (z :: l) x). rewrite (IH x z), (IH y z). reflexivity.
Qed.

Lemma x_cons_last {A} (x : A) l : exists l', x :: l = l' ++ [last l x].
Proof.
  revert x. induction l as [|y l IH]; intros x; [exists []; reflexivity|].
  destruct (IH y) as [l' E]. exists (x :: l'). cbn [app]. rewrite last_shift, <- E. reflexivity.
Qed.

Lemma libblk_last a Fin F : libblk a (Fin ++ F) = last F (libblk a Fin).
Proof.
  unfold libblk. rewrite rev_app_distr. destruct F as [|f F] using rev_ind; [reflexivity|].
  rewrite rev_app_distr. cbn [rev app]. rewrite last_last. reflexivity.
Qed.

(* of a run sorted by number, the blocks up to a block t of it *)
Lemma sorted_filter_le pre t post : StronglySorted blt (pre ++ t :: post) ->
  filter (fun b => bnum b <=? bnum t) (pre ++ t :: post) = pre ++ [t].
Proof.
  intros HS. destruct (StronglySorted_split blt pre t post HS) as [HA HB].
  rewrite filter_app. cbn [filter]. rewrite N.leb_refl.
  rewrite (C06_Lists.filter_all _ _ pre), (C06_Lists.filter_none _ _ post); [reflexivity| |].
  - apply Forall_forall. intros y Hy. specialize (HB y Hy). unfold blt in HB. apply N.leb_gt. exact HB.
  - apply Forall_forall. intros y Hy. specialize (HA y Hy). unfold blt in HA. apply N.leb_le. lia.
Qed.

Lemma seg_of_prefix start cpre t cpost : StronglySorted blt (cpre ++ t :: cpost) ->
  from_num start (cpre ++ [t]) = seg_num start (bnum t) (cpre ++ t :: cpost).
Proof.
  intros HS. destruct (StronglySorted_split blt cpre t cpost HS) as [HA HB].
  unfold seg_num, from_num.
  change (t :: cpost) with ([t] ++ cpost). rewrite app_assoc, (filter_app _ (cpre ++ [t]) cpost).
  rewrite (C06_Lists.filter_none _ _ cpost), app_nil_r.
  - apply filter_ext_in. intros y Hy. replace (bnum y <=? bnum t) with true; [rewrite andb_true_r; reflexivity|].
    symmetry. apply N.leb_le. apply in_app_or in Hy as [Hy|[<-|[]]]; [specialize (HA y Hy); unfold blt in HA; lia | lia].
  - apply Forall_forall. intros y Hy. specialize (HB y Hy). unfold blt in HB. apply andb_false_iff. right. apply N.leb_gt. exact HB.
Qed.

(* the new+irreversible events of a snapshot *)
Lemma filter_irr_snap s hd : forall L,
  map eblk (filter irr_ev (map (snap_event s hd) L)) =
  filter (fun b => bnum b <=? rn (libref (db s))) (map seg_blk L).
Proof.
  induction L as [|y L IH]; [reflexivity|]. cbn [map filter].
  unfold irr_ev at 1. unfold snap_event at 1. cbn [estep].
  destruct (bnum (seg_blk y) <=? rn (libref (db s))); cbn [matches_irr map]; rewrite IH; reflexivity.
Qed.

(* ------------------------------------------------------------------ the stateful filter on blocks *)

(* what the filter's memory lets through of a sequence of final blocks: the left-to-right maxima by number *)
Fixpoint records (lf : option N) (B : list block) : list block :=
  match B with
  | [] => []
  | b :: B' =>
      if match lf with Some n => bnum b <=? n | None => false end then records lf B'
      else b :: records (Some (bnum b)) B'
  end.

Lemma undup_blocks c : j_filter c = 1 -> forall X lf,
  map eblk (undup c lf X) = records lf (map eblk (filter irr_ev X)).
Proof.
  intros Hf. induction X as [|e X IH]; intros lf; [reflexivity|].
  cbn [undup filter]. unfold filter_pass. rewrite Hf. cbn [N.eqb Pos.eqb]. fold (irr_ev e).
  destruct (irr_ev e); [|apply IH]. cbn [map records].
  destruct (match lf with Some n => bnum (eblk e) <=? n | None => false end); [apply IH|].
  cbn [map]. rewrite IH. reflexivity.
Qed.

Lemma undup_passes c : forall X lf, Forall (fun e => filter_pass c (estep e) = true) (undup c lf X).
Proof.
  induction X as [|e X IH]; intros lf; [constructor|]. cbn [undup].
  destruct (filter_pass c (estep e)) eqn:Ep; [|apply IH].
  destruct (match lf with Some n => bnum (eblk e) <=? n | None => false end); [apply IH|].
  constructor; [exact Ep | apply IH].
Qed.

Lemma records_above : forall B n, Forall (fun b => n < bnum b) B -> StronglySorted blt B -> records (Some n) B = B.
Proof.
  induction B as [|b B IH]; intros n Hab HS; [reflexivity|]. cbn [records].
  pose proof (Forall_inv Hab) as Hb. cbn beta in Hb.
  replace (bnum b <=? n) with false by (symmetry; apply N.leb_gt; exact Hb).
  inversion HS as [|? ? HS' Hall]; subst. f_equal. apply IH; [|exact HS'].
  eapply Forall_impl; [|exact Hall]. cbn beta. intros y Hy. exact Hy.
Qed.

Lemma records_none B : StronglySorted blt B -> records None B = B.
Proof.
  destruct B as [|b B]; intros HS; [reflexivity|]. cbn [records]. inversion HS as [|? ? HS' Hall]; subst.
  f_equal. apply records_above; [exact Hall | exact HS'].
Qed.

Lemma records_filter n : forall B, StronglySorted blt B -> records (Some n) B = filter (fun b => n <? bnum b) B.
Proof.
  induction B as [|b B IH]; intros HS; [reflexivity|]. inversion HS as [|? ? HS' Hall]; subst. cbn [records filter].
  destruct (N.leb_spec (bnum b) n) as [Hle|Hgt].
  - replace (n <? bnum b) with false by (symmetry; apply N.ltb_ge; exact Hle). apply IH. exact HS'.
  - replace (n <? bnum b) with true by (symmetry; apply N.ltb_lt; exact Hgt). f_equal.
    rewrite (records_above B (bnum b) Hall HS'). symmetry. apply C06_Lists.filter_all.
    eapply Forall_impl; [|exact Hall]. cbn beta. intros y Hy. unfold blt in Hy. apply N.ltb_lt. lia.
Qed.

(* a sorted run that the memory lets through entirely, then more *)
Lemma records_app_kept : forall B1 t lf B2, StronglySorted blt (B1 ++ [t]) ->
  match lf with Some n => Forall (fun b => n < bnum b) (B1 ++ [t]) | None => True end ->
  records lf ((B1 ++ [t]) ++ B2) = (B1 ++ [t]) ++ records (Some (bnum t)) B2.
Proof.
  induction B1 as [|b B1 IH]; intros t lf B2 HS Hlf.
  - cbn [app records]. replace (match lf with Some n => bnum t <=? n | None => false end) with false; [reflexivity|].
    destruct lf as [n|]; [|reflexivity]. symmetry. apply N.leb_gt. exact (Forall_inv Hlf).
  - cbn [app records] in *. inversion HS as [|? ? HS' Hall]; subst.
    replace (match lf with Some n => bnum b <=? n | None => false end) with false.
    + f_equal. apply IH; [exact HS'|]. eapply Forall_impl; [|exact Hall]. cbn beta. intros y Hy. exact Hy.
    + destruct lf as [n|]; [|reflexivity]. symmetry. apply N.leb_gt. exact (Forall_inv Hlf).
Qed.

(* the blocks of a sorted run above a number: an end of it *)
Lemma sorted_split_above n : forall B, StronglySorted blt B ->
  exists B1 B2, B = B1 ++ B2 /\ Forall (fun b => bnum b <= n) B1 /\ Forall (fun b => n < bnum b) B2 /\
                filter (fun b => n <? bnum b) B = B2.
Proof.
  induction B as [|b B IH]; intros HS; [exists [], []; repeat split; constructor|].
  inversion HS as [|? ? HS' Hall]; subst. cbn [filter].
  destruct (N.ltb_spec n (bnum b)) as [Hlt|Hge].
  - exists [], (b :: B). split; [reflexivity|]. split; [constructor|].
    assert (HB : Forall (fun y => n < bnum y) B).
    { eapply Forall_impl; [|exact Hall]. cbn beta. intros y Hy. unfold blt in Hy. lia. }
    split; [constructor; assumption|]. f_equal. apply C06_Lists.filter_all.
    eapply Forall_impl; [|exact HB]. cbn beta. intros y Hy. apply N.ltb_lt. exact Hy.
  - destruct (IH HS') as (B1 & B2 & E & H1 & H2 & Hf). exists (b :: B1), B2. split; [rewrite E; reflexivity|].
    split; [constructor; assumption|]. split; assumption.
Qed.

(* ------------------------------------------------------------------ the cut at a stop block *)

Lemma filter_comm2 {A} (p q : A -> bool) : forall l, filter p (filter q l) = filter q (filter p l).
Proof. induction l as [|x l IH]; [reflexivity|]. cbn [filter]. destruct (q x) eqn:Eq, (p x) eqn:Ep; cbn [filter]; rewrite ?Eq, ?Ep, IH; reflexivity. Qed.

Lemma filter_filter2 {A} (p q : A -> bool) : forall l, filter p (filter q l) = filter (fun x => q x && p x) l.
Proof. induction l as [|x l IH]; [reflexivity|]. cbn [filter]. destruct (q x); cbn [filter andb]; rewrite IH; reflexivity. Qed.

(* records keeps strictly increasing numbers *)
Lemma records_above_mem : forall B lf b, In b (records lf B) -> match lf with Some n => n < bnum b | None => True end.
Proof.
  induction B as [|x B IH]; intros lf b Hb; [destruct Hb|]. cbn [records] in Hb.
  destruct lf as [n|].
  - destruct (N.leb_spec (bnum x) n) as [Hle|Hgt].
    + exact (IH (Some n) b Hb).
    + destruct Hb as [<-|Hb]; [exact Hgt|]. specialize (IH (Some (bnum x)) b Hb). cbn in IH. lia.
  - destruct Hb as [<-|Hb]; exact I.
Qed.

Lemma records_sorted : forall B lf, StronglySorted blt (records lf B).
Proof.
  induction B as [|x B IH]; intros lf; [constructor|]. cbn [records].
  destruct (match lf with Some n => bnum x <=? n | None => false end); [apply IH|].
  constructor; [apply IH|]. apply Forall_forall. intros b Hb. exact (records_above_mem B (Some (bnum x)) b Hb).
Qed.

Lemma records_app : forall l1 l2 lf, exists lf', records lf (l1 ++ l2) = records lf l1 ++ records lf' l2.
Proof.
  induction l1 as [|b l1 IH]; intros l2 lf; [exists lf; reflexivity|].
  cbn [app records]. destruct (match lf with Some n => bnum b <=? n | None => false end).
  - apply IH.
  - destruct (IH l2 (Some (bnum b))) as [lf' E]. exists lf'. rewrite E. reflexivity.
Qed.

Lemma final_cut_ext c canon start lf X X' Bd' hi out bS :
  j_filter c = 1 ->
  (exists Xt, X' = X ++ Xt) ->
  records lf (map eblk (filter irr_ev X')) = Bd' -> StronglySorted blt Bd' ->
  from_num start Bd' = seg_num start hi canon ->
  snd (upto_stop c (undup c lf X)) = true -> out = fst (upto_stop c (undup c lf X)) ->
  In bS canon -> bnum bS = j_stop c -> (j_stop c <> 0 -> start <= j_stop c) ->
  exists pre e, out = pre ++ [e] /\ eblk e = bS /\ from_num start (map eblk out) = seg_num start (j_stop c) canon /\
    exists Y2, undup c lf X = out ++ Y2.
Proof.
  intros Hfilter [Xt EX'] EBd HS Hfrom Hs Hout HbS HnS Hle0.
  set (Y := undup c lf X) in *.
  pose proof (undup_passes c X lf) as Hp. fold Y in Hp.
  destruct (upto_stop_split c Y Hs) as (Y1 & e & Y2 & EY & Hns & Hse & Hf).
  destruct (stops_true c e Hse) as (_ & H0 & Hge & Hfst). pose proof (Hle0 H0) as Hle.
  assert (Hp1 : Forall (fun e => filter_pass c (estep e) = true) Y1) by (rewrite EY in Hp; apply Forall_app in Hp as [H _]; exact H).
  assert (Hd1 : delivered c Y1 = Y1) by (rewrite (delivered_nostop c Y1 Hns); apply C06_Lists.filter_all; exact Hp1).
  (* the blocks: Bd' = B1 ++ be :: B2 *)
  assert (EB : exists B2, Bd' = map eblk Y1 ++ eblk e :: B2).
  { rewrite <- EBd, EX', filter_app, map_app. destruct (records_app (map eblk (filter irr_ev X)) (map eblk (filter irr_ev Xt)) lf) as [lf' E].
    rewrite E, <- (undup_blocks c Hfilter X lf). fold Y. rewrite EY, map_app. cbn [map]. rewrite <- app_assoc. cbn [app].
    eexists. reflexivity. }
  destruct EB as [B2 EB].
  assert (HB1 : forall b, In b (map eblk Y1) -> bnum b < j_stop c).
  { intros b Hb. apply in_map_iff in Hb as (x & <- & Hx). pose proof (upto_stop_nostop c Y1 Hns) as Hall. rewrite Forall_forall in Hall.
    rewrite Forall_forall in Hp1. exact (stops_false_pass c x (Hall x Hx) (Hp1 x Hx) H0). }
  rewrite EB in HS.
  destruct (Proofs.C09_Proofs.StronglySorted_split blt (map eblk Y1) (eblk e) B2 HS) as [_ HB2].
  (* the block of e is canonical, at or below hi; block S is in Bd': it is the block of e *)
  assert (Hein : In (eblk e) (seg_num start hi canon)).
  { rewrite <- Hfrom, EB. unfold from_num. apply filter_In. split; [apply in_or_app; right; left; reflexivity|]. apply N.leb_le. unfold enum in Hge. lia. }
  unfold seg_num in Hein. apply filter_In in Hein as [Hec Hehi]. apply andb_true_iff in Hehi as [_ Hehi]. apply N.leb_le in Hehi.
  assert (HbSin : In bS Bd').
  { assert (H : In bS (from_num start Bd')).
    { rewrite Hfrom. unfold seg_num. apply filter_In. split; [exact HbS|]. apply andb_true_iff. unfold enum in Hge. split; apply N.leb_le; lia. }
    unfold from_num in H. apply filter_In in H as [H _]. exact H. }
  assert (Ee : eblk e = bS).
  { rewrite EB in HbSin. apply in_app_or in HbSin as [H|[H|H]].
    - specialize (HB1 bS H). lia.
    - exact H.
    - specialize (HB2 bS H). unfold blt in HB2. unfold enum in Hge. lia. }
  assert (Een : enum e =? j_stop c = true) by (apply N.eqb_eq; unfold enum; rewrite Ee; exact HnS).
  exists Y1, e. rewrite Hout, Hf, Hd1, Hfst, Een. split; [reflexivity|]. split; [exact Ee|].
  split; [|exists Y2; fold Y; rewrite EY, <- app_assoc; reflexivity].
  (* cut both sides of from_num start Bd' = seg_num start hi canon at S *)
  rewrite map_app. cbn [map].
  assert (Hcut : filter (fun b => bnum b <=? j_stop c) (from_num start Bd') = from_num start (map eblk Y1 ++ [eblk e])).
  { rewrite EB. unfold from_num. rewrite filter_comm2. f_equal.
    change (eblk e :: B2) with ([eblk e] ++ B2). rewrite app_assoc, filter_app.
    rewrite (C06_Lists.filter_none _ _ B2), app_nil_r.
    - apply C06_Lists.filter_all. apply Forall_forall. intros b Hb. apply N.leb_le.
      apply in_app_or in Hb as [Hb|[<-|[]]]; [specialize (HB1 b Hb); lia | rewrite Ee; lia].
    - apply Forall_forall. intros b Hb. specialize (HB2 b Hb). unfold blt in HB2. apply N.leb_gt. rewrite Ee in HB2. lia. }
  rewrite <- Hcut, Hfrom. unfold seg_num. rewrite filter_filter2. apply filter_ext_in. intros b _.
  assert (HShi : j_stop c <= hi) by (rewrite Ee in Hehi; lia).
  destruct (N.leb_spec start (bnum b)), (N.leb_spec (bnum b) hi), (N.leb_spec (bnum b) (j_stop c)); cbn [andb]; try reflexivity; lia.
Qed.

Lemma final_cut c canon start lf X X' Bd' hi out bS :
  j_filter c = 1 ->
  (exists Xt, X' = X ++ Xt) ->
  records lf (map eblk (filter irr_ev X')) = Bd' -> StronglySorted blt Bd' ->
  from_num start Bd' = seg_num start hi canon ->
  snd (upto_stop c (undup c lf X)) = true -> out = fst (upto_stop c (undup c lf X)) ->
  In bS canon -> bnum bS = j_stop c -> (j_stop c <> 0 -> start <= j_stop c) ->
  exists pre e, out = pre ++ [e] /\ eblk e = bS /\ from_num start (map eblk out) = seg_num start (j_stop c) canon.
Proof.
  intros H1 H2 H3 H4 H5 H6 H7 H8 H9 H10.
  destruct (final_cut_ext c canon start lf X X' Bd' hi out bS H1 H2 H3 H4 H5 H6 H7 H8 H9 H10) as (pre & e & E1 & E2 & E3 & _).
  exists pre, e. auto.
Qed.

Section FinalRun.
  Variable U : list block.
  Variable c : jcfg.
  Variable canon : list block.
  Variable start : N.

  Hypothesis U_id : forall b, In b U -> bid b <> 0 /\ bid b <> bparent b.
  Hypothesis U_uniq : forall x y, In x U -> In y U -> bid x = bid y -> x = y.
  Hypothesis U_up : forall x y, In x U -> In y U -> bparent x = bid y -> bnum y < bnum x.
  Hypothesis D_decl : forall b, In b U -> decl_none U b.

  Hypothesis Hcanon_U : Forall (fun x => In x U) canon.
  Hypothesis Hcanon_l : exists x, lnk x canon.
  Hypothesis Hcanon_start : exists b, In b canon /\ bnum b <= start.

  Let first := j_first c.
  Let kept := j_kept c.

  Lemma lnk_sorted l x : lnk x l -> Forall (fun y => In y U) l -> StronglySorted blt l.
  Proof. intros Hl HU. exact (linked_sorted U U_id U_uniq U_up l x Hl HU). Qed.

  (* ---------------------------------------------------------------- the burst for a block number *)

  Lemma burst_irr a Fin A s V n evs :
    VStateX U first kept a Fin A s V -> blocks_from_num s n = BOk evs ->
    (n <= bnum (libblk a Fin) ->
       exists pre post, map eblk evs = pre ++ libblk a Fin :: post /\
                        map eblk (filter irr_ev evs) = pre ++ [libblk a Fin]) /\
    (bnum (libblk a Fin) < n -> filter irr_ev evs = []).
  Proof.
    intros HX Hb. pose proof (vstatex_vstate U first kept a Fin A s V HX) as HV.
    destruct (vstate_facts U first kept U_id U_uniq U_up s V HV) as (_ & _ & W & hd & Hls & Hhd).
    destruct (vstatex_rev U first kept U_id U_uniq U_up a Fin A s V HX) as (_ & _ & _ & _ & HLU & Hlib).
    pose proof (c09_from_num_proof s n W) as Hspec. unfold from_num_spec in Hspec. rewrite Hb in Hspec.
    destruct Hspec as (hd' & sg & pre0 & x & suf & (_ & Hls' & Eseg & Hsg & Hnx & Hpre0 & Hsuf) & Hevs & _).
    rewrite Hls in Hls'. injection Hls' as <-.
    assert (Hm : rn (libref (db s)) = bnum (libblk a Fin)) by (rewrite Hlib; reflexivity).
    assert (Hirr : map eblk (filter irr_ev evs) = filter (fun b => bnum b <=? bnum (libblk a Fin)) (map eblk evs)).
    { rewrite Hevs, filter_irr_snap, map_eblk_snap, Hm. reflexivity. }
    split.
    - intros Hle.
      destruct (burst_shape U c U_id U_uniq U_up s V n evs HV Hb)
        as (_ & _ & x' & suf' & l & _ & _ & _ & _ & _ & Hmap & _ & HbU & Hlsuf & _).
      assert (HS : StronglySorted blt (map eblk evs)).
      { rewrite Hmap. apply (lnk_sorted _ (bparent (seg_blk x'))); [cbn [lnk]; auto | exact HbU]. }
      destruct (vstatex_segment U first kept U_id U_uniq U_up a Fin A s V hd sg HX Hls Eseg) as (lo & xL & hi & Hsplit & HbL & _).
      assert (HxLin : In xL (x :: suf)).
      { assert (H : In xL sg) by (rewrite Hsplit; apply in_or_app; right; left; reflexivity).
        rewrite Hsg in H. apply in_app_or in H as [H|H]; [|exact H]. specialize (Hpre0 xL H). rewrite HbL in Hpre0. lia. }
      assert (HLin : In (libblk a Fin) (map eblk evs)).
      { rewrite Hevs, map_eblk_snap, <- HbL. apply in_map. exact HxLin. }
      apply in_split in HLin as (pre & post & Esplit). exists pre, post. split; [exact Esplit|].
      rewrite Hirr, Esplit. apply sorted_filter_le. rewrite <- Esplit. exact HS.
    - intros Hlt. assert (H : map eblk (filter irr_ev evs) = []).
      { rewrite Hirr, Hevs, map_eblk_snap. apply C06_Lists.filter_none. apply Forall_forall. intros b Hbin.
        apply in_map_iff in Hbin as (y & <- & Hy). apply N.leb_gt.
        destruct Hy as [<-|Hy]; [lia | specialize (Hsuf y Hy); lia]. }
      destruct (filter irr_ev evs); [reflexivity | discriminate].
  Qed.

  (* ---------------------------------------------------------------- the delivered run against canon *)

  (* Bp: a run that ends with the hub's last LIB block L and starts at or below `start`; Wv: the chain of the hub's
     last head, oldest first *)
  Lemma final_complete Bq L Wv hdF cpre Wpre :
    (exists x, lnk x (Bq ++ [L])) -> Forall (fun y => In y U) (Bq ++ [L]) ->
    (forall z r, Bq ++ [L] = z :: r -> bnum z <= start) ->
    (exists x, lnk x Wv) -> Forall (fun y => In y U) Wv -> In L Wv -> Wv = Wpre ++ [hdF] ->
    canon = cpre ++ [hdF] ->
    from_num start (Bq ++ [L]) = seg_num start (bnum L) canon.
  Proof.
    intros [xb HlB] HBU Hbot [xw HlW] HWU HLW EW Ecan.
    destruct Hcanon_l as [xc Hlc]. destruct Hcanon_start as (b0 & Hb0 & Hnb0).
    pose proof (lnk_sorted canon xc Hlc Hcanon_U) as HSc.
    pose proof (lnk_sorted Wv xw HlW HWU) as HSw.
    pose proof (lnk_sorted (Bq ++ [L]) xb HlB HBU) as HSb.
    (* L is on canon, or everything canonical is above L *)
    assert (Hcases : In L canon \/ (forall y, In y canon -> bnum L < bnum y)).
    { rewrite EW in HlW, HWU. rewrite Ecan in Hlc, Hcanon_U.
      destruct (linked_same_end U U_uniq Wpre cpre xw xc hdF HlW Hlc HWU Hcanon_U) as [[d Hd]|[d Hd]].
      - (* Wv = d ++ canon *)
        rewrite EW, Hd, <- app_assoc, <- Ecan in HLW. apply in_app_or in HLW as [HLd|HLc]; [|left; exact HLc].
        right. intros y Hy. rewrite EW, Hd, <- app_assoc, <- Ecan in HSw.
        apply in_split in HLd as (d1 & d2 & Ed). rewrite Ed, <- app_assoc in HSw. cbn [app] in HSw.
        destruct (StronglySorted_split blt d1 L (d2 ++ canon) HSw) as [_ HB]. apply HB. apply in_or_app. right. exact Hy.
      - (* canon = d ++ Wv *)
        left. rewrite Ecan, Hd, <- app_assoc, <- EW. apply in_or_app. right. exact HLW. }
    destruct Hcases as [HLc|Habove].
    - apply in_split in HLc as (c1 & c2 & Ec).
      assert (HSt : Stand U start (rev (Bq ++ [L]))).
      { split; [rewrite rev_app_distr; discriminate|]. split.
        - split; [apply Forall_forall; intros y Hy; apply in_rev in Hy; rewrite Forall_forall in HBU; apply HBU; exact Hy|].
          exists xb. rewrite rev_involutive. exact HlB.
        - destruct (Bq ++ [L]) as [|z r] eqn:Ez; [destruct Bq; discriminate|].
          exists (rev r), z. split; [reflexivity | apply (Hbot z r eq_refl)]. }
      pose proof (rel_top_canon U U_id U_uniq U_up start _ (rev (Bq ++ [L])) L (rev Bq) canon c1 c2 (stand_rel U start _ HSt)) as H.
      rewrite rev_involutive in H. rewrite H; [|rewrite rev_app_distr; reflexivity | exact Ec | exact Hcanon_U | exists xc; exact Hlc
                                              | exists b0; auto].
      rewrite Ec. apply seg_of_prefix. rewrite <- Ec. exact HSc.
    - (* start is above L: nothing at or above start on either side *)
      assert (Hlt : bnum L < start) by (specialize (Habove b0 Hb0); lia).
      rewrite from_num_none.
      + symmetry. unfold seg_num. apply C06_Lists.filter_none. apply Forall_forall. intros y Hy. specialize (Habove y Hy).
        apply andb_false_iff. right. apply N.leb_gt. exact Habove.
      + apply Forall_forall. intros y Hy.
        destruct (StronglySorted_split blt Bq L [] HSb) as [HA _].
        apply in_app_or in Hy as [Hy|[<-|[]]]; [specialize (HA y Hy); unfold blt in HA; lia | exact Hlt].
  Qed.

  (* ---------------------------------------------------------------- the final blocks after the file blocks *)

  (* C: a parent-linked run of the universe holding p and the run Lj :: F; the first block f of F above p is the child
     of p as soon as what precedes it is at or below p *)
  Lemma child_on_chain C p q f : (exists x, lnk x C) -> Forall (fun y => In y U) C ->
    In p C -> In q C -> In f C -> bparent f = bid q -> bnum q <= bnum p -> bnum p < bnum f -> q = p.
  Proof.
    intros [xc Hlc] HCU Hp Hq Hf Hpar Hqp Hpf.
    pose proof (lnk_sorted C xc Hlc HCU) as HS.
    apply in_split in Hf as (Ca & C2 & EC). rewrite EC in HS, Hlc, Hp, Hq, HCU.
    destruct (StronglySorted_split blt Ca f C2 HS) as [HA HB].
    assert (HqU : In q U) by (rewrite Forall_forall in HCU; apply HCU; exact Hq).
    assert (HqCa : In q Ca).
    { apply in_app_or in Hq as [Hq|[Hq|Hq]]; [exact Hq | subst q; lia | specialize (HB q Hq); unfold blt in HB; lia]. }
    assert (HpCa : In p Ca).
    { apply in_app_or in Hp as [Hp|[Hp|Hp]]; [exact Hp | subst p; lia | specialize (HB p Hp); unfold blt in HB; lia]. }
    destruct Ca as [|c0 Ca0] using rev_ind; [destruct HqCa|]. clear IHCa0.
    (* the block right before f is its parent q *)
    assert (Er : c0 = q).
    { pose proof (linked_mid _ _ _ _ Hlc) as Hm. rewrite tip_snoc in Hm.
      apply U_uniq; [rewrite Forall_forall in HCU; apply HCU; apply in_or_app; left; apply in_or_app; right; left; reflexivity
                    | exact HqU | congruence]. }
    subst c0. apply in_app_or in HpCa as [HpC|[E|[]]]; [|exact E].
    rewrite <- app_assoc in HS. cbn [app] in HS.
    destruct (StronglySorted_split blt Ca0 q (f :: C2) HS) as [HA' _]. specialize (HA' p HpC). unfold blt in HA'. lia.
  Qed.

  (* a run that starts at or below `start` and ends with a canonical block t: from start on, canon up to t *)
  Lemma top_on_canon Bq t :
    (exists x, lnk x (Bq ++ [t])) -> Forall (fun y => In y U) (Bq ++ [t]) ->
    (forall z r, Bq ++ [t] = z :: r -> bnum z <= start) -> In t canon ->
    from_num start (Bq ++ [t]) = seg_num start (bnum t) canon.
  Proof.
    intros [xb HlB] HBU Hbot HLc.
    destruct Hcanon_l as [xc Hlc]. destruct Hcanon_start as (b0 & Hb0 & Hnb0).
    pose proof (lnk_sorted canon xc Hlc Hcanon_U) as HSc.
    apply in_split in HLc as (c1 & c2 & Ec).
    assert (HSt : Stand U start (rev (Bq ++ [t]))).
    { split; [rewrite rev_app_distr; discriminate|]. split.
      - split; [apply Forall_forall; intros y Hy; apply in_rev in Hy; rewrite Forall_forall in HBU; apply HBU; exact Hy|].
        exists xb. rewrite rev_involutive. exact HlB.
      - destruct (Bq ++ [t]) as [|z r] eqn:Ez; [destruct Bq; discriminate|].
        exists (rev r), z. split; [reflexivity | apply (Hbot z r eq_refl)]. }
    pose proof (rel_top_canon U U_id U_uniq U_up start _ (rev (Bq ++ [t])) t (rev Bq) canon c1 c2 (stand_rel U start _ HSt)) as H.
    rewrite rev_involutive in H. rewrite H; [|rewrite rev_app_distr; reflexivity | exact Ec | exact Hcanon_U | exists xc; exact Hlc
                                            | exists b0; auto].
    rewrite Ec. apply seg_of_prefix. rewrite <- Ec. exact HSc.
  Qed.

  (* the hub's last chain and canon end with the same block: one run holds both *)
  Lemma common_chain Wv Wpre hdF cpre :
    (exists x, lnk x Wv) -> Forall (fun y => In y U) Wv -> Wv = Wpre ++ [hdF] -> canon = cpre ++ [hdF] ->
    exists C, (exists x, lnk x C) /\ Forall (fun y => In y U) C /\ incl Wv C /\ incl canon C.
  Proof.
    intros [xw HlW] HWU EW Ecan. destruct Hcanon_l as [xc Hlc].
    pose proof HlW as HlW'. pose proof HWU as HWU'. pose proof Hlc as Hlc'. pose proof Hcanon_U as HcU'.
    rewrite EW in HlW', HWU'. rewrite Ecan in Hlc', HcU'.
    destruct (linked_same_end U U_uniq Wpre cpre xw xc hdF HlW' Hlc' HWU' HcU') as [[d Hd]|[d Hd]].
    - exists Wv. split; [exists xw; exact HlW|]. split; [exact HWU|]. split; [intros y Hy; exact Hy|].
      intros y Hy. rewrite EW, Hd, <- app_assoc, <- Ecan. apply in_or_app. right. exact Hy.
    - exists canon. split; [exists xc; exact Hlc|]. split; [exact Hcanon_U|]. split; [|intros y Hy; exact Hy].
      intros y Hy. rewrite Ecan, Hd, <- app_assoc, <- EW. apply in_or_app. right. exact Hy.
  Qed.

  (* a burst that starts above the LIB block: the parent of its first block is at or above the LIB block *)
  Lemma burst_parent_le a Fin A s V n evs bn sufb p :
    VStateX U first kept a Fin A s V -> blocks_from_num s n = BOk evs -> map eblk evs = bn :: sufb ->
    bnum (libblk a Fin) < n -> In p U -> bparent bn = bid p ->
    bnum (libblk a Fin) <= bnum p.
  Proof.
    intros HX Hb Hmap Hlt HpU Hpar. pose proof (vstatex_vstate U first kept a Fin A s V HX) as HV.
    destruct (vstate_facts U first kept U_id U_uniq U_up s V HV) as (_ & _ & W & hd & Hls & Hhd).
    pose proof (c09_from_num_proof s n W) as Hspec. unfold from_num_spec in Hspec. rewrite Hb in Hspec.
    destruct Hspec as (hd' & sg & pre0 & x & suf & (_ & Hls' & Eseg & Hsg & Hnx & Hpre0 & Hsuf) & Hevs & _).
    rewrite Hls in Hls'. injection Hls' as <-.
    assert (Ebn : bn = seg_blk x).
    { rewrite Hevs, map_eblk_snap in Hmap. cbn [map] in Hmap. injection Hmap as E _. symmetry. exact E. }
    destruct (vstatex_segment U first kept U_id U_uniq U_up a Fin A s V hd sg HX Hls Eseg) as (lo & xL & hi & Hsplit & HbL & _ & Hgood & HsU).
    destruct Hgood as [Hstd Hlk Hinc Hnd].
    destruct (seg_linked_all sg Hlk Hstd) as [y Hly].
    assert (HsgU : Forall (fun z => In z U) (map seg_blk sg)).
    { apply Forall_forall. intros z Hz. apply in_map_iff in Hz as (q & <- & Hq). rewrite Forall_forall in HsU. apply HsU. exact Hq. }
    pose proof (lnk_sorted _ y Hly HsgU) as HS.
    rewrite Hsg, map_app in Hly, HS, HsgU. cbn [map] in Hly, HS, HsgU. rewrite <- Ebn in Hly, HS, HsgU.
    (* the LIB block lies before bn *)
    assert (HLin : In (libblk a Fin) (map seg_blk pre0)).
    { assert (H : In xL sg) by (rewrite Hsplit; apply in_or_app; right; left; reflexivity).
      rewrite Hsg in H. rewrite <- HbL. apply in_app_or in H as [H|[H|H]].
      - apply in_map. exact H.
      - exfalso. subst xL. rewrite HbL in Hnx. lia.
      - exfalso. specialize (Hsuf xL H). rewrite HbL in Hsuf. lia. }
    destruct (map seg_blk pre0) as [|r0 P0] using rev_ind; [destruct HLin|]. clear IHP0.
    pose proof (linked_mid _ _ _ _ Hly) as Hm. rewrite tip_snoc in Hm.
    assert (Er : r0 = p).
    { apply U_uniq; [rewrite Forall_forall in HsgU; apply HsgU; apply in_or_app; left; apply in_or_app; right; left; reflexivity
                    | exact HpU | congruence]. }
    subst r0. apply in_app_or in HLin as [HL|[E|[]]]; [|rewrite <- E; lia].
    rewrite <- app_assoc in HS. cbn [app] in HS.
    destruct (StronglySorted_split blt P0 p (bn :: map seg_blk suf) HS) as [HA _]. specialize (HA _ HL). unfold blt in HA. lia.
  Qed.
End FinalRun.


(* ------------------------------------------------------------------ number mode *)


(* ------------------------------------------------------------------ number mode *)

Section FinalNum.
  Variable U : list block.
  Variable c : jcfg.
  Variable canon : list block.
  Variable start : N.
  Variable w : world.
  Variable ps : list (N * N).
  Variable merged_end : N.
  Variable forked : list block.

  Hypothesis U_id : forall b, In b U -> bid b <> 0 /\ bid b <> bparent b.
  Hypothesis U_uniq : forall x y, In x U -> In y U -> bid x = bid y -> x = y.
  Hypothesis U_up : forall x y, In x U -> In y U -> bparent x = bid y -> bnum y < bnum x.
  Hypothesis D_decl : forall b, In b U -> decl_none U b.

  Hypothesis Hchain : chain_ok canon.
  Hypothesis Hincl : incl canon U.
  Hypothesis Hstartblk : exists b, In b canon /\ bnum b = start.
  Hypothesis Hstart : run_start c w = start.
  Hypothesis HW : WOK U c w.
  Hypothesis Htip : eventual_tip c w canon.
  Hypothesis Hmode : j_mode c = 0.
  Hypothesis Hfilter : j_filter c = 1.
  Hypothesis Hbundle : 0 < j_bundle c.

  Let merged := filter (fun b => bnum b <? merged_end) canon.
  Hypothesis Hbound : Forall (fun b => bnum b < file_bound) merged.

  Let res := stream_run c w ps merged_end merged forked.
  Let stopf := if j_stop c =? 0 then file_bound else j_stop c.
  Let D := file_delivery merged start stopf (j_bundle c).
  Let fend := if negb (j_stop c =? 0) && ((j_stop c / j_bundle c + 1) * j_bundle c <=? merged_end) then JStop else JNil.
  Let first := j_first c.
  Let kept := j_kept c.

  Let HcU : Forall (fun x => In x U) canon.
  Proof. apply Forall_forall. exact Hincl. Qed.
  Let HmU : forall b, In b merged -> In b U.
  Proof. intros b Hb. apply Hincl. unfold merged in Hb. apply filter_In in Hb as [Hb _]. exact Hb. Qed.
  Let Hsl : exists b, In b canon /\ bnum b <= start.
  Proof. destruct Hstartblk as (b0 & H1 & H2). exists b0. split; [exact H1 | lia]. Qed.
  Let Hcl : exists x, lnk x canon := lnk_of_chain_ok canon Hchain.

  Let D_ok' : chain_ok D := D_ok c canon start merged_end Hchain.
  Let D_in' b : In b D <-> In b merged /\ start <= bnum b < (stopf / j_bundle c + 1) * j_bundle c := D_in c canon start merged_end b.
  Let D_bot' : forall z r, D = z :: r -> bnum z <= start :=
    D_bot U c canon start w merged_end U_id U_uniq U_up D_decl Hchain Hstartblk Hstart Hmode Hbundle.

  Let lsorted : forall l x, lnk x l -> Forall (fun y => In y U) l -> StronglySorted blt l := lnk_sorted U U_id U_uniq U_up.
  Let burst_irr' := burst_irr U c U_id U_uniq U_up D_decl.
  Let final_complete' := final_complete U c canon start U_id U_uniq U_up D_decl HcU Hcl Hsl.
  Let top_on_canon' := top_on_canon U canon start U_id U_uniq U_up HcU Hcl Hsl.
  Let common_chain' := common_chain U canon U_uniq HcU Hcl.
  Let burst_parent_le' := burst_parent_le U c U_id U_uniq U_up D_decl.
  Let child_on_chain' := child_on_chain U c U_id U_uniq U_up D_decl.

  (* ---------------------------------------------------------------- what the handler receives *)

  Lemma passes_irr e : passes c e = irr_ev e.
  Proof. unfold passes, filter_pass, irr_ev. rewrite Hfilter. reflexivity. Qed.

  Lemma delivered_all_pass Y : Forall (fun e => filter_pass c (estep e) = true) Y -> snd (upto_stop c Y) = false ->
    delivered c Y = Y.
  Proof. intros Hp Hns. rewrite (delivered_nostop c Y Hns). apply C06_Lists.filter_all. exact Hp. Qed.

  Lemma upto_stop_is_prefix Y : Forall (fun e => filter_pass c (estep e) = true) Y -> snd (upto_stop c Y) = true ->
    exists rest, Y = fst (upto_stop c Y) ++ rest.
  Proof.
    intros Hp Hs. destruct (upto_stop_split c Y Hs) as (Y1 & e & Y2 & EY & Hns & Hse & Hf).
    assert (Hp1 : Forall (fun e => filter_pass c (estep e) = true) Y1) by (rewrite EY in Hp; apply Forall_app in Hp as [H _]; exact H).
    rewrite Hf, (delivered_all_pass Y1 Hp1 Hns). destruct (fst (Joining.chain c e)).
    - exists Y2. rewrite EY, <- app_assoc. reflexivity.
    - exists (e :: Y2). rewrite app_nil_r. exact EY.
  Qed.

  (* the output is a beginning of what the filter lets through of the raw sequence *)
  Lemma raw_out_is_prefix X P : raw_out c (undup c None X) res P -> exists rest, undup c None X = fst res ++ rest.
  Proof.
    pose proof (undup_passes c X None) as Hp. unfold raw_out. destruct (snd res); try contradiction.
    - intros (_ & Hns & Hf). exists []. rewrite Hf, (delivered_all_pass _ Hp Hns), app_nil_r. reflexivity.
    - intros (Hs & Hf). rewrite Hf. apply upto_stop_is_prefix; assumption.
    - intros (Y1 & Y2 & EY & Hns & Hf). exists Y2. rewrite Hf, delivered_all_pass; [exact EY | | exact Hns].
      rewrite EY in Hp. apply Forall_app in Hp as [H _]. exact H.
  Qed.

  Lemma files_out_is_prefix X fe : files_out c (undup c None X) fe res -> exists rest, undup c None X = fst res ++ rest.
  Proof.
    pose proof (undup_passes c X None) as Hp.
    intros [[Hns Hr]|[Hs Hr]]; rewrite Hr; cbn [fst].
    - exists []. rewrite (delivered_all_pass _ Hp Hns), app_nil_r. reflexivity.
    - apply upto_stop_is_prefix; assumption.
  Qed.

  Lemma prefix_fold X out : (exists rest, undup c None X = out ++ rest) ->
    (exists p, lnk p (records None (map eblk (filter irr_ev X)))) -> final_fold None out = true.
  Proof.
    intros [rest E] [p Hl]. apply final_fold_none. exists p.
    rewrite <- (undup_blocks c Hfilter X None), E, map_app in Hl. eapply linked_prefix. exact Hl.
  Qed.

  Lemma irr_fev l : filter irr_ev (map fev l) = map fev l.
  Proof. apply C06_Lists.filter_all. apply Forall_forall. intros e He. apply in_map_iff in He as (b & <- & _). reflexivity. Qed.

  (* ---------------------------------------------------------------- the end of a joined run *)

  (* the hub after the last arrival: it has gone on finalising F' after Fin; its head is the last block of canon *)
  Lemma end_world wj a Fin A mm :
    wj = world_after c mm w -> LOKX U c a Fin A wj ->
    exists F' Vend hdF cpre,
      VStateX U first kept a (Fin ++ F') A (h_f (w_hub (world_after c (length (w_rest w)) w))) Vend /\
      lnk (bid (libblk a Fin)) F' /\
      hd_error Vend = Some hdF /\ canon = cpre ++ [hdF].
  Proof.
    intros Ewj HLX.
    destruct (lokx_push_n U c U_id U_uniq U_up D_decl (length (w_rest wj)) a Fin A wj HLX) as (F' & (Hrd & [Vend HXe] & _) & EF' & HlF' & _).
    assert (Hdone : w_rest (world_after c (length (w_rest wj)) wj) = []).
    { pose proof (world_after_rest c (length (w_rest wj)) wj) as H. rewrite Nat.sub_diag in H.
      destruct (w_rest (world_after c (length (w_rest wj)) wj)); [reflexivity | discriminate]. }
    assert (Eend : world_after c (length (w_rest wj)) wj = world_after c (length (w_rest w)) w).
    { rewrite Ewj, wafter_add in *. apply world_after_done. exact Hdone. }
    rewrite Eend in HXe.
    pose proof (vstatex_vstate U first kept a (Fin ++ F') A _ Vend HXe) as HVe.
    destruct (vstate_facts U first kept U_id U_uniq U_up _ Vend HVe) as (_ & _ & _ & hdF & Hls & Hhd).
    assert (Ecan : exists cpre, canon = cpre ++ [hdF]).
    { apply (Htip (length (w_rest w)) hdF); [rewrite <- Eend; exact Hdone | exact Hls]. }
    destruct Ecan as [cpre Ecan]. exists F', Vend, hdF, cpre.
    split; [exact HXe|]. split; [exact HlF'|]. split; [exact Hhd | exact Ecan].
  Qed.

  (* the hub after the last arrival, its LIB block L = the last final block *)
  Lemma end_complete wj a Fin A F kk Bq :
    (exists mm, wj = world_after c mm w) ->
    LOKX U c a (Fin ++ F) A (world_after c kk wj) -> w_rest (world_after c kk wj) = [] ->
    let L := libblk a (Fin ++ F) in
    (exists x, lnk x (Bq ++ [L])) -> Forall (fun y => In y U) (Bq ++ [L]) ->
    (forall z r, Bq ++ [L] = z :: r -> bnum z <= start) ->
    final_lib c w = bnum L /\ from_num start (Bq ++ [L]) = seg_num start (final_lib c w) canon.
  Proof.
    intros [mm Ewj] (Hrd & [Vend HXe] & _) Hdone L HlB HBU Hbot.
    assert (Eend : world_after c kk wj = world_after c (length (w_rest w)) w).
    { rewrite Ewj, wafter_add in *. apply world_after_done. exact Hdone. }
    pose proof (vstatex_vstate U first kept a (Fin ++ F) A _ Vend HXe) as HVe.
    destruct (vstate_facts U first kept U_id U_uniq U_up _ Vend HVe) as (HVne & [HVU [xv Hlv]] & _ & hdF & Hls & Hhd).
    destruct (vstatex_rev U first kept U_id U_uniq U_up a (Fin ++ F) A _ Vend HXe) as (pre' & pend & EAF & Erev & HLU & Hlib).
    assert (Ecan : exists cpre, canon = cpre ++ [hdF]).
    { rewrite Ewj, wafter_add in Hdone, Hls. exact (Htip (mm + kk)%nat hdF Hdone Hls). }
    destruct Ecan as [cpre Ecan].
    assert (Elib : final_lib c w = bnum L).
    { unfold final_lib. rewrite <- Eend, Hlib. reflexivity. }
    split; [exact Elib|]. rewrite Elib.
    destruct Vend as [|v0 V0]; [contradiction|]. cbn [hd_error] in Hhd. injection Hhd as ->.
    apply (final_complete' Bq L (rev (hdF :: V0)) hdF cpre (rev V0) HlB HBU Hbot).
    - exists xv. exact Hlv.
    - apply Forall_forall. intros y Hy. apply in_rev in Hy. rewrite Forall_forall in HVU. apply HVU. exact Hy.
    - rewrite Erev. apply in_or_app. left. fold L in EAF. rewrite EAF. apply in_or_app. right. left. reflexivity.
    - reflexivity.
    - exact Ecan.
  Qed.

  (* a ready world of the run, its hub with the final part explicit *)
  Lemma lokx_of_world wj : WOK U c wj -> h_ready (w_hub wj) = true ->
    exists a Fin A V, LOKX U c a Fin A wj /\ VStateX U first kept a Fin A (h_f (w_hub wj)) V.
  Proof.
    intros [Hok Hrest] Hrd.
    destruct (vstate_of_hub U first kept U_id U_uniq U_up D_decl (w_hub wj) Hok Hrd) as [V HV].
    destruct (vstate_x U first kept _ _ HV) as (a & Fin & A & HX).
    exists a, Fin, A, V. split; [|exact HX]. split; [exact Hrd|]. split; [exists V; exact HX | exact Hrest].
  Qed.

  (* what a shape lemma delivers: the run Bd the handler receives in the end *)
  Definition final_shape (X : list event) (complete : Prop) : Prop :=
    exists Bd, records None (map eblk (filter irr_ev X)) = Bd /\ (exists p, lnk p Bd) /\
      (complete -> exists hi, final_lib c w <= hi /\ from_num start Bd = seg_num start hi canon).

  (* ---------------------------------------------------------------- live from the start *)

  Lemma final_live burst k :
    h_ready (w_hub w) = true -> blocks_from_num (h_f (w_hub w)) start = BOk burst ->
    final_shape (burst ++ pushed c k w) (w_rest (world_after c k w) = []).
  Proof.
    intros Hrd Hb. set (X := burst ++ pushed c k w).
    destruct (lokx_of_world w HW Hrd) as (a & Fin & A & V & HLX & HX).
    pose proof (vstatex_vstate U first kept a Fin A _ V HX) as HV.
    destruct (burst_shape U c U_id U_uniq U_up (h_f (w_hub w)) V start burst HV Hb)
      as (hd & sg & x & suf & l & Hls & Hhd & Eseg & Hxin & Hnx & Hmap & Hnew & HbU & Hlsuf & Hlast).
    destruct (vstatex_rev U first kept U_id U_uniq U_up a Fin A _ V HX) as (_ & _ & _ & _ & HLU & Hlib).
    destruct (lokx_push_n U c U_id U_uniq U_up D_decl k a Fin A w HLX) as (F & HLXe & EF & HlF & HFU).
    set (Lj := libblk a Fin) in *.
    destruct (x_cons_last Lj F) as [l' El'].
    assert (EL : last F Lj = libblk a (Fin ++ F)) by (symmetry; apply libblk_last).
    assert (HFU' : Forall (fun y => In y U) F) by (eapply Forall_impl; [|exact HFU]; cbn beta; tauto).
    destruct (burst_irr' a Fin A _ V start burst HX Hb) as [Hirr1 Hirr2].
    assert (Ew0 : w = world_after c 0 w) by reflexivity.
    destruct (N.le_gt_cases start (bnum Lj)) as [Hle|Hgt].
    - (* the burst reaches down to the LIB block *)
      destruct (Hirr1 Hle) as (pre & post & Esplit & Ebi). fold Lj in Esplit, Ebi. rewrite Hmap in Esplit.
      assert (Hlall : lnk (bparent (seg_blk x)) (pre ++ Lj :: F)).
      { assert (H1 : lnk (bparent (seg_blk x)) ((pre ++ [Lj]) ++ post)).
        { rewrite <- app_assoc. cbn [app]. rewrite <- Esplit. cbn [lnk]. auto. }
        apply linked_prefix in H1.
        replace (pre ++ Lj :: F) with ((pre ++ [Lj]) ++ F) by (rewrite <- app_assoc; reflexivity).
        apply linked_app_iff. split; [exact H1|]. rewrite tip_snoc. exact HlF. }
      assert (Eall : pre ++ Lj :: F = (pre ++ l') ++ [libblk a (Fin ++ F)]).
      { rewrite <- EL, <- app_assoc. f_equal. exact El'. }
      assert (HallU : Forall (fun y => In y U) (pre ++ Lj :: F)).
      { apply Forall_app. split.
        - apply Forall_forall. intros y Hy. rewrite Forall_forall in HbU. apply HbU. rewrite Esplit. apply in_or_app. left. exact Hy.
        - constructor; [exact HLU | exact HFU']. }
      exists (pre ++ Lj :: F). split.
      { unfold X. rewrite filter_irr_app, map_app, Ebi, EF, <- app_assoc. cbn [app]. apply records_none. exact (lsorted _ _ Hlall HallU). }
      split; [eexists; exact Hlall|]. intros Hdone. exists (final_lib c w). split; [lia|]. rewrite Eall.
      apply (end_complete w a Fin A F k (pre ++ l') (ex_intro _ 0%nat Ew0) HLXe Hdone).
      + eexists. rewrite <- Eall. exact Hlall.
      + rewrite <- Eall. exact HallU.
      + rewrite <- Eall. intros z r Ez.
        assert (Hz : z = seg_blk x).
        { destruct pre as [|p0 pre0]; cbn [app] in Ez, Esplit; injection Ez as <- _; injection Esplit as -> _; reflexivity. }
        subst z. lia.
    - (* the burst lies above the LIB: only the blocks that become final are delivered *)
      exists F. split.
      { unfold X. rewrite filter_irr_app, (Hirr2 Hgt). cbn [app]. rewrite EF. apply records_none. exact (lsorted _ _ HlF HFU'). }
      split; [exists (bid Lj); exact HlF|].
      intros Hdone. exists (final_lib c w). split; [lia|].
      assert (Eall : Lj :: F = l' ++ [libblk a (Fin ++ F)]) by (rewrite <- EL; exact El').
      assert (H : from_num start (l' ++ [libblk a (Fin ++ F)]) = seg_num start (final_lib c w) canon).
      { apply (end_complete w a Fin A F k l' (ex_intro _ 0%nat Ew0) HLXe Hdone).
        - exists (bparent Lj). rewrite <- Eall. cbn [lnk]. auto.
        - rewrite <- Eall. constructor; [exact HLU | exact HFU'].
        - rewrite <- Eall. intros z r Ez. injection Ez as <- _. lia. }
      rewrite <- Eall in H. rewrite <- H. unfold from_num. cbn [filter].
      replace (start <=? bnum Lj) with false by (symmetry; apply N.leb_gt; exact Hgt). reflexivity.
  Qed.

  (* the hub's LIB number at the end *)
  Lemma final_lib_at wk a Fin' A mm : wk = world_after c mm w -> LOKX U c a Fin' A wk -> w_rest wk = [] ->
    final_lib c w = bnum (libblk a Fin').
  Proof.
    intros Ewk (_ & [Vend HXe] & _) Hdone.
    assert (Eend : wk = world_after c (length (w_rest w)) w).
    { rewrite Ewk in *. apply world_after_done. exact Hdone. }
    destruct (vstatex_rev U first kept U_id U_uniq U_up a Fin' A _ Vend HXe) as (_ & _ & _ & _ & _ & Hlib).
    unfold final_lib. rewrite <- Eend, Hlib. reflexivity.
  Qed.

  Lemma last_app_ne' {A} (l1 l2 : list A) d : l2 <> [] -> last (l1 ++ l2) d = last l2 d.
  Proof.
    intros H. induction l1 as [|a l1 IH]; [reflexivity|].
    cbn [app]. rewrite <- IH. destruct (l1 ++ l2) eqn:E; [|reflexivity].
    apply app_eq_nil in E as [_ E]. contradiction.
  Qed.

  (* ---------------------------------------------------------------- files, then the join *)

  Lemma final_join m Dpre bn D' lowest burst k :
    D = Dpre ++ bn :: D' ->
    join_try c (world_after c m w) lowest (fev bn) = Some burst ->
    final_shape (map fev Dpre ++ burst ++ pushed c k (world_after c m w))
                (w_rest (world_after c k (world_after c m w)) = []).
  Proof.
    intros ED Ej. set (wj := world_after c m w) in *. set (X := map fev Dpre ++ burst ++ pushed c k wj).
    pose proof (wok_after U c U_id U_uniq U_up D_decl m w HW) as HWj. fold wj in HWj.
    assert (Hmode2 : (j_mode c =? 2) = false) by (rewrite Hmode; reflexivity).
    destruct (join_mode0 c wj lowest (fev bn) burst Hmode2 Ej) as (Hb & Hrd & _). cbn [eblk file_event] in Hb.
    assert (HDm : forall y, In y D -> In y merged) by (intros y Hy; apply D_in' in Hy; tauto).
    assert (Hbn : In bn merged) by (apply HDm; rewrite ED; apply in_or_app; right; left; reflexivity).
    destruct (lokx_of_world wj HWj Hrd) as (a & Fin & A & V & HLX & HX).
    pose proof (vstatex_vstate U first kept a Fin A _ V HX) as HV.
    destruct (id_joins U c U_id U_uniq U_up merged HmU w Hmode2 m lowest bn burst Hbn Ej) as [_ HJ].
    destruct (HJ V HV) as (hd & sufb & l & Hhd & Hmap & Hnew & HbU & Hlsuf & Hlast).
    destruct (vstatex_rev U first kept U_id U_uniq U_up a Fin A _ V HX) as (prej & pendj & EAFj & Erevj & HLU & Hlib).
    destruct (burst_irr' a Fin A _ V (bnum bn) burst HX Hb) as [Hirr1 Hirr2].
    destruct (lokx_push_n U c U_id U_uniq U_up D_decl k a Fin A wj HLX) as (F & HLXe & EF & HlF & HFU).
    set (Lj := libblk a Fin) in *.
    assert (HFU' : Forall (fun y => In y U) F) by (eapply Forall_impl; [|exact HFU]; cbn beta; tauto).
    assert (EL : last F Lj = libblk a (Fin ++ F)) by (symmetry; apply libblk_last).
    destruct (lnk_of_chain_ok D D_ok') as [x0 HlD].
    assert (HDpU : Forall (fun y => In y U) Dpre).
    { apply Forall_forall. intros y Hy. apply HmU, HDm. rewrite ED. apply in_or_app. left. exact Hy. }
    assert (HlDpre : lnk x0 Dpre) by (rewrite ED in HlD; eapply linked_prefix; exact HlD).
    assert (HlDbn : lnk x0 (Dpre ++ [bn])).
    { rewrite ED in HlD. change (bn :: D') with ([bn] ++ D') in HlD. rewrite app_assoc in HlD. eapply linked_prefix. exact HlD. }
    assert (Ewk : world_after c k wj = world_after c (m + k) w) by (unfold wj; apply wafter_add).
    assert (Eraw : map eblk (filter irr_ev X) = Dpre ++ map eblk (filter irr_ev burst) ++ F).
    { unfold X. rewrite !filter_irr_app, !map_app, irr_fev, map_eblk_fev, EF. reflexivity. }
    unfold final_shape. rewrite Eraw.
    destruct (N.le_gt_cases (bnum bn) (bnum Lj)) as [Hle|Hgt].
    - (* the join is at or below the hub's LIB: the burst continues the files down to the LIB block *)
      destruct (Hirr1 Hle) as (pre & post & Esplit & Ebi). fold Lj in Esplit, Ebi. rewrite Hmap in Esplit. rewrite Ebi.
      destruct (x_cons_last Lj F) as [l' El'].
      assert (Hlall : lnk x0 (Dpre ++ pre ++ Lj :: F)).
      { assert (H1 : lnk x0 (Dpre ++ bn :: sufb)).
        { change (bn :: sufb) with ([bn] ++ sufb). rewrite app_assoc. apply linked_app_iff. split; [exact HlDbn|].
          rewrite tip_snoc. exact Hlsuf. }
        rewrite Esplit in H1.
        assert (H2 : lnk x0 ((Dpre ++ pre ++ [Lj]) ++ post)) by (rewrite <- !app_assoc; exact H1).
        apply linked_prefix in H2.
        replace (Dpre ++ pre ++ Lj :: F) with ((Dpre ++ pre ++ [Lj]) ++ F) by (rewrite <- !app_assoc; reflexivity).
        apply linked_app_iff. split; [exact H2|]. rewrite !app_assoc, tip_snoc. exact HlF. }
      assert (Eall : Dpre ++ pre ++ Lj :: F = (Dpre ++ pre ++ l') ++ [libblk a (Fin ++ F)]).
      { rewrite <- EL, <- !app_assoc. f_equal. f_equal. exact El'. }
      assert (HallU : Forall (fun y => In y U) (Dpre ++ pre ++ Lj :: F)).
      { apply Forall_app. split; [exact HDpU|]. apply Forall_app. split.
        - apply Forall_forall. intros y Hy. rewrite Forall_forall in HbU. apply HbU. rewrite Esplit. apply in_or_app. left. exact Hy.
        - constructor; [exact HLU | exact HFU']. }
      exists (Dpre ++ pre ++ Lj :: F). split.
      { replace (Dpre ++ (pre ++ [Lj]) ++ F) with (Dpre ++ pre ++ Lj :: F) by (rewrite <- !app_assoc; reflexivity).
        apply records_none. exact (lsorted _ _ Hlall HallU). }
      split; [exists x0; exact Hlall|]. intros Hdone. exists (final_lib c w). split; [lia|]. rewrite Eall.
      apply (end_complete wj a Fin A F k (Dpre ++ pre ++ l') (ex_intro _ m eq_refl) HLXe Hdone).
      + exists x0. rewrite <- Eall. exact Hlall.
      + rewrite <- Eall. exact HallU.
      + rewrite <- Eall. intros z r Ez.
        destruct Dpre as [|d Dp].
        * cbn [app] in ED, Ez. assert (Hz : z = bn).
          { destruct pre as [|p0 pre0]; cbn [app] in Ez, Esplit; injection Ez as <- _; injection Esplit as -> _; reflexivity. }
          subst z. apply (D_bot' bn D'). exact ED.
        * cbn [app] in ED, Ez. injection Ez as <- _. apply (D_bot' d (Dp ++ bn :: D')). exact ED.
    - (* the join is above the hub's LIB: the hub will announce again blocks the files have delivered *)
      rewrite (Hirr2 Hgt). cbn [map app].
      pose proof (lsorted _ _ HlF HFU') as HSF.
      destruct Dpre as [|p Dp _] using rev_ind.
      + (* nothing came from the files *)
        cbn [app] in *. exists F. split; [apply records_none; exact HSF|]. split; [exists (bid Lj); exact HlF|].
        intros Hdone. exists (final_lib c w). split; [lia|].
        assert (Hbs : bnum bn = start).
        { pose proof (D_bot' bn D' ED) as H1. assert (H2 : In bn D) by (rewrite ED; left; reflexivity). apply D_in' in H2. lia. }
        destruct (x_cons_last Lj F) as [l' El']. rewrite EL in El'.
        assert (H : from_num start (l' ++ [libblk a (Fin ++ F)]) = seg_num start (final_lib c w) canon).
        { apply (end_complete wj a Fin A F k l' (ex_intro _ m eq_refl) HLXe Hdone).
          - exists (bparent Lj). rewrite <- El'. cbn [lnk]. auto.
          - rewrite <- El'. constructor; [exact HLU | exact HFU'].
          - rewrite <- El'. intros z r Ez. injection Ez as <- _. lia. }
        rewrite <- El' in H. rewrite <- H. unfold from_num. cbn [filter].
        replace (start <=? bnum Lj) with false by (symmetry; apply N.leb_gt; lia). reflexivity.
      + (* the files delivered up to p, the parent of bn *)
        assert (HpU : In p U) by (rewrite Forall_forall in HDpU; apply HDpU; apply in_or_app; right; left; reflexivity).
        assert (Hpbn : bparent bn = bid p).
        { pose proof (linked_mid _ _ _ _ HlDbn) as H. rewrite tip_snoc in H. exact H. }
        assert (HLp : bnum Lj <= bnum p) by (exact (burst_parent_le' a Fin A _ V (bnum bn) burst bn sufb p HX Hb Hmap Hgt HpU Hpbn)).
        pose proof (lsorted _ _ HlDpre HDpU) as HSD.
        destruct (sorted_split_above (bnum p) F HSF) as (F1 & F2 & EF12 & HF1 & HF2 & Hfil).
        assert (Erec : records None ((Dp ++ [p]) ++ F) = (Dp ++ [p]) ++ F2).
        { rewrite (records_app_kept Dp p None F HSD I), (records_filter (bnum p) F HSF), Hfil. reflexivity. }
        assert (Hpcanon : In p canon).
        { assert (H : In p merged) by (apply HDm; rewrite ED; apply in_or_app; left; apply in_or_app; right; left; reflexivity).
          unfold merged in H. apply filter_In in H as [H _]. exact H. }
        assert (HbotD : forall z r, (Dp ++ [p]) ++ F2 = z :: r -> bnum z <= start).
        { intros z r Ez. destruct Dp as [|d Dp0]; cbn [app] in Ez, ED; injection Ez as <- _; [apply (D_bot' p (bn :: D')) | apply (D_bot' d ((Dp0 ++ [p]) ++ bn :: D'))]; exact ED. }
        exists ((Dp ++ [p]) ++ F2). split; [exact Erec|].
        destruct F2 as [|f F2'].
        * (* every block the hub finalises is at or below p: nothing more is delivered *)
          rewrite app_nil_r in *. split; [exists x0; exact HlDpre|].
          intros Hdone. exists (bnum p). split.
          { rewrite (final_lib_at (world_after c k wj) a (Fin ++ F) A (m + k)%nat Ewk HLXe Hdone), <- EL, EF12.
            destruct F1 as [|f1 F1' _] using rev_ind; [exact HLp|].
            rewrite last_last. rewrite Forall_forall in HF1. apply HF1. apply in_or_app. right. left. reflexivity. }
          exact (top_on_canon' Dp p (ex_intro _ x0 HlDpre) HDpU HbotD Hpcanon).
        * (* f: the first block the hub finalises above p *)
          assert (Hfgt : bnum p < bnum f) by exact (Forall_inv HF2).
          assert (Hlf : lnk (bid Lj) (F1 ++ f :: F2')) by (rewrite <- EF12; exact HlF).
          assert (Hfpar : bparent f = tip (bid Lj) F1) by exact (linked_mid _ _ _ _ Hlf).
          assert (Hlf2 : lnk (bid f) F2').
          { apply linked_app_iff in Hlf as [_ H]. cbn [lnk] in H. tauto. }
          (* one run holds p and Lj :: F *)
          destruct (end_world (world_after c k wj) a (Fin ++ F) A (m + k)%nat Ewk HLXe) as (F' & Vend & hdF & cpre & HXe & _ & Hhde & Ecan).
          pose proof (vstatex_vstate U first kept a ((Fin ++ F) ++ F') A _ Vend HXe) as HVe.
          destruct (vstate_facts U first kept U_id U_uniq U_up _ Vend HVe) as (HVne & [HVU [xv Hlv]] & _).
          destruct (vstatex_rev U first kept U_id U_uniq U_up a ((Fin ++ F) ++ F') A _ Vend HXe) as (_ & pende & _ & Ereve & _ & _).
          destruct Vend as [|v0 V0]; [contradiction|]. cbn [hd_error] in Hhde. injection Hhde as ->.
          assert (HWU : Forall (fun y => In y U) (rev (hdF :: V0))).
          { apply Forall_forall. intros y Hy. apply in_rev in Hy. rewrite Forall_forall in HVU. apply HVU. exact Hy. }
          destruct (common_chain' (rev (hdF :: V0)) (rev V0) hdF cpre (ex_intro _ xv Hlv) HWU eq_refl Ecan) as (C & HlC & HCU & HWC & HcC).
          assert (HinW : forall y, In y (Lj :: F) -> In y C).
          { intros y Hy. apply HWC. rewrite Ereve. apply in_or_app. left. rewrite !app_assoc.
            apply in_or_app. left. destruct Hy as [<-|Hy].
            - apply in_or_app. left. fold Lj in EAFj. rewrite EAFj. apply in_or_app. right. left. reflexivity.
            - apply in_or_app. right. exact Hy. }
          assert (HfC : In f C) by (apply HinW; right; rewrite EF12; apply in_or_app; right; left; reflexivity).
          assert (HpC : In p C) by (apply HcC; exact Hpcanon).
          assert (Hfp : bparent f = bid p).
          { destruct F1 as [|q1 F1' _] using rev_ind.
            - (* the parent of f is the LIB block of the join *)
              assert (E : Lj = p).
              { apply (child_on_chain' C p Lj f HlC HCU HpC (HinW Lj (or_introl eq_refl)) HfC Hfpar HLp Hfgt). }
              rewrite Hfpar. cbn. rewrite E. reflexivity.
            - rewrite tip_snoc in Hfpar.
              assert (Hq1 : bnum q1 <= bnum p).
              { rewrite Forall_forall in HF1. apply HF1. apply in_or_app. right. left. reflexivity. }
              assert (Hq1C : In q1 C).
              { apply HinW. right. rewrite EF12. apply in_or_app. left. apply in_or_app. right. left. reflexivity. }
              assert (E : q1 = p) by (apply (child_on_chain' C p q1 f HlC HCU HpC Hq1C HfC Hfpar Hq1 Hfgt)).
              rewrite Hfpar, E. reflexivity. }
          assert (Hlall : lnk x0 ((Dp ++ [p]) ++ f :: F2')).
          { apply linked_app_iff. split; [exact HlDpre|]. rewrite tip_snoc. cbn [lnk]. split; [exact Hfp | exact Hlf2]. }
          assert (HF2U : Forall (fun y => In y U) (f :: F2')).
          { rewrite EF12 in HFU'. apply Forall_app in HFU' as [_ H]. exact H. }
          split; [exists x0; exact Hlall|].
          intros Hdone. exists (final_lib c w). split; [lia|].
          destruct (x_cons_last f F2') as [l' El'].
          assert (ELk : last F2' f = libblk a (Fin ++ F)).
          { rewrite <- EL, EF12, last_app_ne' by discriminate. symmetry. apply last_shift. }
          rewrite ELk in El'.
          assert (Eall : (Dp ++ [p]) ++ f :: F2' = ((Dp ++ [p]) ++ l') ++ [libblk a (Fin ++ F)]).
          { rewrite El'. apply app_assoc. }
          rewrite Eall.
          apply (end_complete wj a Fin A F k ((Dp ++ [p]) ++ l') (ex_intro _ m eq_refl) HLXe Hdone).
          -- exists x0. rewrite <- Eall. exact Hlall.
          -- rewrite <- Eall. apply Forall_app. split; [exact HDpU | exact HF2U].
          -- rewrite <- Eall. exact HbotD.
  Qed.

  (* ---------------------------------------------------------------- the theorem *)

  Lemma num_final :
    final_fold None (fst res) = true /\
    (snd res = JNil ->
       map eblk (fst res) = from_num start merged \/
       exists hi, final_lib c w <= hi /\ from_num start (map eblk (fst res)) = seg_num start hi canon).
  Proof.
    pose proof (c07_run_shapes_proof c w ps merged_end merged forked) as Hsh. cbv zeta in Hsh. unfold merged in Hsh.
    rewrite Hstart, (run_files_num c canon start merged_end forked Hmode) in Hsh. cbn [fst snd] in Hsh.
    fold merged in Hsh. fold stopf in Hsh. fold D in Hsh. fold fend in Hsh. fold res in Hsh.
    (* a run whose raw sequence X ends complete *)
    assert (Hraw : forall X P, raw_out c (undup c None X) res P -> final_shape X P ->
              final_fold None (fst res) = true /\
              (snd res = JNil -> map eblk (fst res) = from_num start merged \/
                 exists hi, final_lib c w <= hi /\ from_num start (map eblk (fst res)) = seg_num start hi canon)).
    { intros X P Hro (Bd & EBd & HlB & Hfin). split.
      - apply (prefix_fold X); [apply (raw_out_is_prefix X P Hro) | rewrite EBd; exact HlB].
      - intros Hn. right. pose proof (undup_passes c X None) as Hp.
        unfold raw_out in Hro. rewrite Hn in Hro. destruct Hro as (HP & Hns & Hf).
        rewrite Hf, (delivered_all_pass _ Hp Hns), (undup_blocks c Hfilter X None), EBd. exact (Hfin HP). }
    destruct Hsh as [[_ Hr]|[Hrej [(burst & k & Hlt & Hro)|[[_ Hr]|[Hlt [(pre & e & rest & m & lowest & burst & k & Ef & Hns & Hj & Hro)|Hfo]]]]]].
    - rewrite Hr. split; [reflexivity | discriminate].
    - unfold live_try in Hlt. rewrite Hmode in Hlt. cbn [N.eqb] in Hlt.
      destruct (h_ready (w_hub w)) eqn:Hrd; cbn [negb] in Hlt; [|discriminate].
      rewrite (seen_final c _ Hfilter), (start_mem_num c Hmode) in Hro.
      apply (Hraw _ _ Hro). exact (final_live burst k Hrd Hlt).
    - rewrite Hr. split; [reflexivity | discriminate].
    - apply map_eq_app in Ef as (Dpre & D2 & ED & Epre & E2). apply map_eq_cons in E2 as (bn & D' & ED2 & Ebn & _).
      subst pre e D2. rewrite (seen_final c _ Hfilter), (start_mem_num c Hmode) in Hro.
      apply (Hraw _ _ Hro). exact (final_join m Dpre bn D' lowest burst k ED Hj).
    - (* files only: every file event is new+irreversible, numbers ascending: the memory drops nothing *)
      rewrite (seen_final c _ Hfilter), (start_mem_num c Hmode) in Hfo.
      destruct (lnk_of_chain_ok D D_ok') as [x0 HlD].
      assert (HDU : Forall (fun y => In y U) D).
      { apply Forall_forall. intros y Hy. apply HmU. apply D_in' in Hy. tauto. }
      assert (Erec : records None (map eblk (filter irr_ev (map fev D))) = D).
      { rewrite irr_fev, map_eblk_fev. apply records_none. exact (lsorted _ _ HlD HDU). }
      split.
      + apply (prefix_fold (map fev D)); [apply (files_out_is_prefix _ fend Hfo) | rewrite Erec; exists x0; exact HlD].
      + intros Hn. left. pose proof (undup_passes c (map fev D) None) as Hp.
        destruct Hfo as [[Hns Hr]|[Hs Hr]]; rewrite Hr in Hn |- *; cbn [fst snd] in *; [|discriminate].
        rewrite (delivered_all_pass _ Hp Hns), (undup_blocks c Hfilter _ None), Erec.
        exact (D_all U c canon start w merged_end U_id U_uniq U_up D_decl Hstart Hmode Hbundle Hbound Hn).
  Qed.
  (* ---------------------------------------------------------------- with a stop block: the run that ends with stop-block-reached *)

  Lemma pushed_add' a b w0 : pushed c (a + b) w0 = pushed c a w0 ++ pushed c b (world_after c a w0).
  Proof. unfold pushed, world_after. rewrite push_n_add. reflexivity. Qed.

  (* continue the arrivals of a world until none is left *)
  Lemma arrivals_done w0 k : w_rest (world_after c (k + length (w_rest (world_after c k w0))) w0) = [].
  Proof.
    rewrite <- world_after_add. apply length_zero_iff_nil. rewrite world_after_rest. lia.
  Qed.

  Lemma num_final_stop bS :
    In bS canon -> bnum bS = j_stop c -> snd res = JStop ->
    exists pre e, fst res = pre ++ [e] /\ eblk e = bS /\
      from_num start (map eblk (fst res)) = seg_num start (j_stop c) canon.
  Proof.
    intros HbS HnS Hstop.
    pose proof (c07_run_shapes_proof c w ps merged_end merged forked) as Hsh. cbv zeta in Hsh. unfold merged in Hsh.
    rewrite Hstart, (run_files_num c canon start merged_end forked Hmode) in Hsh. cbn [fst snd] in Hsh.
    fold merged in Hsh. fold stopf in Hsh. fold D in Hsh. fold fend in Hsh. fold res in Hsh.
    (* a stopped run whose raw sequence X is a beginning of a sequence X' that ends complete *)
    assert (Hraw : forall X X' P, run_rejected c w = false -> (exists Xt, X' = X ++ Xt) -> raw_out c (undup c None X) res P -> final_shape X' True ->
              exists pre e, fst res = pre ++ [e] /\ eblk e = bS /\ from_num start (map eblk (fst res)) = seg_num start (j_stop c) canon).
    { intros X X' P Hrej HX' Hro (Bd & EBd & _ & Hfin).
      unfold raw_out in Hro. rewrite Hstop in Hro. destruct Hro as (Hs & Hf).
      destruct (Hfin I) as (hi & _ & Hfrom).
      apply (final_cut c canon start None X X' Bd hi (fst res) bS Hfilter HX' EBd); try assumption.
      - rewrite <- EBd. apply records_sorted.
      - exact (not_rejected_start c start w Hstart Hrej). }
    assert (Hshape_weaken : forall X (P : Prop), P -> final_shape X P -> final_shape X True).
    { intros X P HP (Bd & E & Hl & Hfin). exists Bd. split; [exact E|]. split; [exact Hl | intros _; exact (Hfin HP)]. }
    destruct Hsh as [[_ Hr]|[Hrej [(burst & k & Hlt & Hro)|[[_ Hr]|[Hlt [(pre & e & rest & m & lowest & burst & k & Ef & Hns & Hj & Hro)|Hfo]]]]]].
    - rewrite Hr in Hstop. discriminate.
    - unfold live_try in Hlt. rewrite Hmode in Hlt. cbn [N.eqb] in Hlt.
      destruct (h_ready (w_hub w)) eqn:Hrd; cbn [negb] in Hlt; [|discriminate].
      rewrite (seen_final c _ Hfilter), (start_mem_num c Hmode) in Hro.
      set (r := length (w_rest (world_after c k w))).
      apply (Hraw (burst ++ pushed c k w) (burst ++ pushed c (k + r) w) (w_rest (world_after c k w) = []) Hrej); [exists (pushed c r (world_after c k w)); rewrite pushed_add', app_assoc; reflexivity | exact Hro|].
      exact (Hshape_weaken _ _ (arrivals_done w k) (final_live burst (k + r) Hrd Hlt)).
    - rewrite Hr in Hstop. discriminate.
    - apply map_eq_app in Ef as (Dpre & D2 & ED & Epre & E2). apply map_eq_cons in E2 as (bn & D' & ED2 & Ebn & _).
      subst pre e D2. rewrite (seen_final c _ Hfilter), (start_mem_num c Hmode) in Hro.
      set (wm := world_after c m w) in *. set (r := length (w_rest (world_after c k wm))).
      apply (Hraw (map fev Dpre ++ burst ++ pushed c k wm) (map fev Dpre ++ burst ++ pushed c (k + r) wm) (w_rest (world_after c k wm) = []) Hrej); [| exact Hro|].
      + exists (pushed c r (world_after c k wm)). rewrite pushed_add', <- !app_assoc. reflexivity.
      + exact (Hshape_weaken _ _ (arrivals_done wm k) (final_join m Dpre bn D' lowest burst (k + r) ED Hj)).
    - (* files only *)
      rewrite (seen_final c _ Hfilter), (start_mem_num c Hmode) in Hfo.
      destruct (lnk_of_chain_ok D D_ok') as [x0 HlD].
      assert (HDU : Forall (fun y => In y U) D).
      { apply Forall_forall. intros y Hy. apply HmU. apply D_in' in Hy. tauto. }
      assert (Erec : records None (map eblk (filter irr_ev (map fev D))) = D).
      { rewrite irr_fev, map_eblk_fev. apply records_none. exact (lsorted _ _ HlD HDU). }
      pose proof (undup_passes c (map fev D) None) as Hp.
      assert (EYb : map eblk (undup c None (map fev D)) = D) by (rewrite (undup_blocks c Hfilter _ None); exact Erec).
      destruct Hfo as [[Hns Hr]|[Hs Hr]].
      + (* the marker: block S would have been delivered *)
        exfalso. rewrite Hr in Hstop. cbn [snd] in Hstop.
        assert (E0 : j_stop c <> 0) by (intros E; unfold fend in Hstop; rewrite E in Hstop; discriminate).
        assert (Hble : (j_stop c / j_bundle c + 1) * j_bundle c <= merged_end).
        { unfold fend in Hstop. apply N.leb_le. case_eq ((j_stop c / j_bundle c + 1) * j_bundle c <=? merged_end); [reflexivity|].
          intros E. rewrite E, andb_false_r in Hstop. discriminate. }
        assert (Estopf : stopf = j_stop c) by (unfold stopf; apply N.eqb_neq in E0; rewrite E0; reflexivity).
        pose proof (N.mul_succ_div_gt (j_stop c) (j_bundle c)) as Hdiv. rewrite <- N.add_1_r in Hdiv.
        pose proof (not_rejected_start c start w Hstart Hrej E0) as Hle.
        assert (HbSD : In bS D).
        { apply D_in'. rewrite Estopf. split; [unfold merged; apply filter_In; split; [exact HbS | apply N.ltb_lt; nia] | nia]. }
        pose proof (upto_stop_nostop c _ Hns) as Hall. rewrite Forall_forall in Hall.
        rewrite <- EYb in HbSD. apply in_map_iff in HbSD as (x & Ex & Hx).
        rewrite Forall_forall in Hp.
        pose proof (stops_false_pass c x (Hall _ Hx) (Hp x Hx) E0) as Hlt'. unfold enum in Hlt'. rewrite Ex in Hlt'. lia.
      + (* stopped within the files: D is canon from start up to the end of the files read *)
        fold res in Hr.
        assert (Hf : fst res = fst (upto_stop c (undup c None (map fev D)))) by (rewrite Hr; reflexivity).
        destruct (upto_stop_split c _ Hs) as (Y1 & e & Y2 & EYs & _ & Hse & _).
        destruct (stops_true c e Hse) as (_ & E0 & Hge & _).
        assert (HeD : In (eblk e) D).
        { rewrite <- EYb, EYs. apply in_map. apply in_or_app. right. left. reflexivity. }
        set (lim := N.min ((stopf / j_bundle c + 1) * j_bundle c) merged_end).
        assert (Hlim : bnum (eblk e) < lim).
        { apply D_in' in HeD as (Hm & _ & H2). unfold merged in Hm. apply filter_In in Hm as [_ Hm]. apply N.ltb_lt in Hm. unfold lim. lia. }
        apply (final_cut c canon start None (map fev D) (map fev D) D (lim - 1) (fst res) bS Hfilter); try assumption.
        * exists []. rewrite app_nil_r. reflexivity.
        * exact (lsorted _ _ HlD HDU).
        * assert (EDfrom : from_num start D = D).
          { unfold from_num. apply C06_Lists.filter_all. apply Forall_forall. intros b Hb. apply D_in' in Hb. apply N.leb_le. lia. }
          rewrite EDfrom. unfold D at 1, file_delivery, merged, seg_num. rewrite filter_filter2. apply filter_ext_in. intros b _.
          fold stopf. unfold lim in *.
          destruct (N.ltb_spec (bnum b) merged_end), (N.leb_spec start (bnum b)), (N.ltb_spec (bnum b) ((stopf / j_bundle c + 1) * j_bundle c)),
            (N.leb_spec (bnum b) (N.min ((stopf / j_bundle c + 1) * j_bundle c) merged_end - 1)); cbn [andb]; try reflexivity; lia.
        * exact (not_rejected_start c start w Hstart Hrej).
  Qed.
End FinalNum.

Lemma c07_seamless_num_final_proof : C07_seamless_num_final.
Proof.
  intros U c w ps merged_end canon forked Hwfb Hlok [[l [Hl Hhub]] Hrest] Hchain Hincl merged Htip
         Hmode Hfilter Hbundle Hbound res start Hstartblk.
  assert (Hscope : disc_scope2_b U = true) by (unfold disc_scope2_b; rewrite Hwfb, Hlok; reflexivity).
  pose proof (bridge_id U Hwfb) as Hid. pose proof (bridge_uniq U Hwfb) as Huniq. pose proof (bridge_up U Hwfb) as Hup.
  pose proof (bridge2_decl_none U Hscope) as Hdecl.
  assert (HW : WOK U c w).
  { split; [|exact Hrest]. rewrite Hhub. apply (hub_ok_run U (j_first c) (j_kept c) Hwfb Hlok l Hl). }
  exact (num_final U c canon start w ps merged_end forked Hid Huniq Hup Hdecl Hchain Hincl Hstartblk eq_refl HW Htip Hmode Hfilter
           Hbundle Hbound).
Qed.

(* the stop clause for final blocks only (Spec/C13_More_Spec.v) *)
Lemma c13_stop_final_num_proof : C13_stop_final_num.
Proof.
  intros U c w ps merged_end canon forked Hwfb Hlok [[l [Hl Hhub]] Hrest] Hchain Hincl merged Htip
         Hmode Hfilter Hbundle Hbound res start Hstartblk bS HbS HnS Hstop.
  assert (Hscope : disc_scope2_b U = true) by (unfold disc_scope2_b; rewrite Hwfb, Hlok; reflexivity).
  pose proof (bridge_id U Hwfb) as Hid. pose proof (bridge_uniq U Hwfb) as Huniq. pose proof (bridge_up U Hwfb) as Hup.
  pose proof (bridge2_decl_none U Hscope) as Hdecl.
  assert (HW : WOK U c w).
  { split; [|exact Hrest]. rewrite Hhub. apply (hub_ok_run U (j_first c) (j_kept c) Hwfb Hlok l Hl). }
  exact (num_final_stop U c canon start w ps merged_end forked Hid Huniq Hup Hdecl Hchain Hincl Hstartblk eq_refl HW Htip Hmode Hfilter
           Hbundle bS HbS HnS Hstop).
Qed.
