(* C18: how one ProcessBlock step changes the store of the ForkDB.  Everything here is by case
   analysis of the model functions; no invariant of the Forkable is used. *)
From BV Require Import Base.Prelude Model.Block Model.ForkDB Model.Forkable Model.ForkableLookups
  Spec.C18_Spec.
Local Open Scope N_scope.

(* ---------------------------------------------------------------- entries up to the sent flag *)

Definition sent_ext (l l' : list entry) : Prop := Forall2 same_block l l'.

Lemma same_block_refl e : same_block e e.
Proof. split; auto. Qed.

Lemma same_block_trans a b c : same_block a b -> same_block b c -> same_block a c.
Proof. intros [H1 H2] [H3 H4]. split; [congruence|auto]. Qed.

Lemma sent_ext_refl l : sent_ext l l.
Proof. induction l; constructor; auto using same_block_refl. Qed.

Lemma sent_ext_trans l1 : forall l2 l3, sent_ext l1 l2 -> sent_ext l2 l3 -> sent_ext l1 l3.
Proof.
  induction l1 as [|a l1 IH]; intros l2 l3 H12 H23; inversion H12; subst; inversion H23; subst; constructor.
  - eapply same_block_trans; eauto.
  - eapply IH; eauto.
Qed.

Lemma set_sent_ext id l : sent_ext l (set_sent id l).
Proof.
  induction l as [|e l IH]; cbn [set_sent]; [constructor|].
  destruct (bid (eb e) =? id).
  - constructor; [split; auto | apply sent_ext_refl].
  - constructor; [apply same_block_refl | exact IH].
Qed.

Lemma sent_ext_in l : forall l' e, sent_ext l l' -> In e l -> exists e', In e' l' /\ same_block e e'.
Proof.
  induction l as [|a l IH]; intros l' e H Hin; [destruct Hin|].
  inversion H as [|? b ? l2 Hab Hrest]; subst. destruct Hin as [->|Hin].
  - exists b. split; [left; reflexivity | exact Hab].
  - destruct (IH _ _ Hrest Hin) as [e' [Hi Hs]]. exists e'. split; [right; exact Hi | exact Hs].
Qed.

Lemma sent_ext_in_rev l : forall l' e', sent_ext l l' -> In e' l' -> exists e, In e l /\ same_block e e'.
Proof.
  induction l as [|a l IH]; intros l' e' H Hin; inversion H as [|? b ? l2 Hab Hrest]; subst; [destruct Hin|].
  destruct Hin as [->|Hin].
  - exists a. split; [left; reflexivity | exact Hab].
  - destruct (IH _ _ Hrest Hin) as [e [Hi Hs]]. exists e. split; [right; exact Hi | exact Hs].
Qed.

(* ---------------------------------------------------------------- put / find *)

Lemma put_in_new n l : In n (put n l).
Proof.
  induction l as [|x l IH]; cbn [put]; [left; reflexivity|].
  destruct (bid (eb x) =? bid (eb n)); [left; reflexivity | right; exact IH].
Qed.

Lemma put_in_inv n l e : In e (put n l) -> e = n \/ In e l.
Proof.
  induction l as [|x l IH]; cbn [put]; intros H.
  - destruct H as [H|[]]; auto.
  - destruct (bid (eb x) =? bid (eb n)).
    + destruct H as [H|H]; [left; auto | right; right; exact H].
    + destruct H as [H|H]; [right; left; exact H|]. destruct (IH H); [left|right; right]; auto.
Qed.

(* AddLink writes only when the id has no link: the entry it may replace has an empty parent id *)
Lemma put_in_old n l e :
  In e l ->
  (bid (eb e) = bid (eb n) -> bparent (eb e) <> 0) ->
  match find (bid (eb n)) l with Some x => bparent (eb x) | None => 0 end = 0 ->
  In e (put n l).
Proof.
  induction l as [|x l IH]; intros Hin Hid Hlink; [destruct Hin|].
  cbn [put find] in *. destruct (bid (eb x) =? bid (eb n)) eqn:Hx.
  - destruct Hin as [->|Hin]; [|right; exact Hin].
    exfalso. apply Hid; [apply N.eqb_eq; exact Hx | exact Hlink].
  - destruct Hin as [->|Hin]; [left; reflexivity | right; apply IH; auto].
Qed.

Lemma exists_link_false d id :
  exists_link d id = false -> match find id (store d) with Some x => bparent (eb x) | None => 0 end = 0.
Proof.
  unfold exists_link, link_of. intros H. apply negb_false_iff in H. apply N.eqb_eq in H. exact H.
Qed.

Lemma find_in id l e : In e l -> bid (eb e) = id -> exists x, find id l = Some x.
Proof.
  induction l as [|y l IH]; intros Hin Hid; [destruct Hin|]. cbn [find].
  destruct (bid (eb y) =? id) eqn:Hy; [eexists; reflexivity|].
  destruct Hin as [->|Hin]; [|auto]. apply N.eqb_neq in Hy. contradiction.
Qed.

(* ---------------------------------------------------------------- the handler loops leave the db alone *)

Lemma call_db cfg s s1 ok : call cfg s = (s1, ok) -> db s1 = db s.
Proof. unfold call. intros H. inversion H; subst. reflexivity. Qed.

Lemma process_blocks_loop_db cfg cur st junc count blocks : forall idx s acc s' evs ok,
  process_blocks_loop cfg cur st junc count idx blocks s acc = (s', evs, ok) -> db s' = db s.
Proof.
  induction blocks as [|e rest IH]; intros idx s acc s' evs ok H; cbn [process_blocks_loop] in H.
  - inversion H; subst. reflexivity.
  - destruct (call cfg s) as [s1 ok1] eqn:Hc. apply call_db in Hc. destruct ok1.
    + apply IH in H. congruence.
    + inversion H; subst. exact Hc.
Qed.

Lemma process_blocks_db cfg cur blocks st junc s s' evs ok :
  process_blocks cfg cur blocks st junc s = (s', evs, ok) -> db s' = db s.
Proof. unfold process_blocks. apply process_blocks_loop_db. Qed.

Lemma process_new_loop_db cfg head chain : forall s acc s' evs ok,
  process_new_loop cfg head chain s acc = (s', evs, ok) ->
  sent_ext (store (db s)) (store (db s')) /\ libref (db s') = libref (db s).
Proof.
  induction chain as [|b rest IH]; intros s acc s' evs ok H; cbn [process_new_loop] in H.
  - inversion H; subst. split; [apply sent_ext_refl | reflexivity].
  - destruct (esent (sent b)); [eauto|].
    destruct (f_new (c_filter cfg)).
    + destruct (call cfg s) as [s1 ok1] eqn:Hc. apply call_db in Hc. destruct ok1.
      * apply IH in H. cbn [db store libref] in H. destruct H as [H1 H2]. rewrite Hc in *. split; [|exact H2].
        eapply sent_ext_trans; [apply set_sent_ext | exact H1].
      * inversion H; subst. rewrite Hc. split; [apply sent_ext_refl | reflexivity].
    + apply IH in H. cbn [db store libref] in H. destruct H as [H1 H2]. split; [|exact H2].
      eapply sent_ext_trans; [apply set_sent_ext | exact H1].
Qed.

Lemma process_new_blocks_db cfg chain s s' evs ok :
  process_new_blocks cfg chain s = (s', evs, ok) ->
  sent_ext (store (db s)) (store (db s')) /\ libref (db s') = libref (db s).
Proof.
  unfold process_new_blocks. destruct chain as [|b0 rest].
  - intros H. inversion H; subst. split; [apply sent_ext_refl | reflexivity].
  - apply process_new_loop_db.
Qed.

Lemma process_irr_loop_db cfg head count l : forall idx s acc s' evs ok,
  process_irr_loop cfg head count idx l s acc = (s', evs, ok) -> db s' = db s.
Proof.
  induction l as [|b rest IH]; intros idx s acc s' evs ok H; cbn [process_irr_loop] in H.
  - inversion H; subst. reflexivity.
  - destruct (call cfg s) as [s1 ok1] eqn:Hc. apply call_db in Hc. destruct ok1.
    + apply IH in H. congruence.
    + inversion H; subst. exact Hc.
Qed.

Lemma process_irr_segment_db cfg irr head s s' evs ok :
  process_irr_segment cfg irr head s = (s', evs, ok) -> db s' = db s.
Proof.
  unfold process_irr_segment. intros H.
  destruct (if f_irr (c_filter cfg) then process_irr_loop cfg head (N.of_nat (length irr)) 0 irr s [] else (s, [], true))
    as [[s1 e1] ok1] eqn:H1.
  assert (Hd : db s1 = db s).
  { destruct (f_irr (c_filter cfg)); [eapply process_irr_loop_db; eauto | inversion H1; reflexivity]. }
  destruct ok1; [destruct irr|]; inversion H; subst; cbn [db]; exact Hd.
Qed.

Lemma process_stalled_loop_db cfg head count l : forall idx s acc s' evs ok,
  process_stalled_loop cfg head count idx l s acc = (s', evs, ok) -> db s' = db s.
Proof.
  induction l as [|b rest IH]; intros idx s acc s' evs ok H; cbn [process_stalled_loop] in H.
  - inversion H; subst. reflexivity.
  - destruct (call cfg s) as [s1 ok1] eqn:Hc. apply call_db in Hc. destruct ok1.
    + apply IH in H. congruence.
    + inversion H; subst. exact Hc.
Qed.

Lemma process_stalled_segment_db cfg l head s s' evs ok :
  process_stalled_segment cfg l head s = (s', evs, ok) -> db s' = db s.
Proof.
  unfold process_stalled_segment. destruct (f_stalled (c_filter cfg)).
  - apply process_stalled_loop_db.
  - intros H. inversion H; reflexivity.
Qed.

Lemma process_initial_inclusive_db cfg b s s' evs ok :
  process_initial_inclusive cfg b s = (s', evs, ok) -> db s' = db s.
Proof.
  unfold process_initial_inclusive. cbv zeta. intros H.
  match type of H with context [match ?X with (_, _) => _ end] =>
    match X with (if _ then _ else _) => destruct X as [[s1 ev1] ok1] eqn:H1 end end.
  assert (Hd : db s1 = db s).
  { destruct (f_new (c_filter cfg)).
    - destruct (call cfg s) as [s0 ok0] eqn:Hc. apply call_db in Hc.
      destruct ok0; inversion H1; subst; cbn [db]; exact Hc.
    - inversion H1; subst. reflexivity. }
  destruct ok1.
  - destruct (process_irr_segment cfg _ (bref b) s1) as [[s2 ev2] ok2] eqn:H2.
    apply process_irr_segment_db in H2. inversion H; subst. congruence.
  - inversion H; subst. exact Hd.
Qed.

(* ---------------------------------------------------------------- shape of the store after a step *)

(* X: the store after AddLink; hl/lib0: LIB of the state the step started from.  The result is X
   with sent flags raised, either kept whole (then an existing LIB did not move) or filtered by the
   cutoff of the NEW LIB *)
Definition shape (kept : N) (X : list entry) (hl : bool) (lib0 : ref) (d' : forkdb) : Prop :=
  exists Y, sent_ext X Y /\
    ((store d' = Y /\ (hl = true -> libref d' = lib0)) \/
     store d' = filter (fun e => cutoff d' kept <=? bnum (eb e)) Y).

Lemma shape_same kept d hl : shape kept (store d) hl (libref d) d.
Proof. exists (store d). split; [apply sent_ext_refl | left; auto]. Qed.

Lemma shape_weaken kept X lib hl lib0 d' :
  shape kept X true lib d' -> (hl = true -> lib = lib0) -> shape kept X hl lib0 d'.
Proof.
  intros [Y [HY [[H1 H2]|H]]] Hl; exists Y; (split; [exact HY|]).
  - left. split; [exact H1|]. intros Hh. rewrite (H2 eq_refl). auto.
  - right. exact H.
Qed.

Lemma shape_ext kept X X' hl lib0 d' : sent_ext X X' -> shape kept X' hl lib0 d' -> shape kept X hl lib0 d'.
Proof. intros HX [Y [HY H]]. exists Y. split; [eapply sent_ext_trans; eauto | exact H]. Qed.

Lemma process_tail_shape cfg s b undos redos junc longest first_irr s' evs r :
  process_tail cfg s b undos redos junc longest first_irr = (s', evs, r) ->
  shape (c_kept cfg) (store (db s)) true (libref (db s)) (db s').
Proof.
  unfold process_tail. intros H.
  destruct (if f_undo (c_filter cfg) then process_blocks cfg b undos SUndo junc s else (s, [], true))
    as [[s1 ev1] ok1] eqn:H1.
  assert (D1 : db s1 = db s).
  { destruct (f_undo (c_filter cfg)); [eapply process_blocks_db; eauto | inversion H1; reflexivity]. }
  destruct ok1; cbn [negb] in H; [|inversion H; subst; rewrite D1; apply shape_same].
  destruct (if f_new (c_filter cfg) then process_blocks cfg b redos SNew None s1 else (s1, [], true))
    as [[s2 ev2] ok2] eqn:H2.
  assert (D2 : db s2 = db s).
  { rewrite <- D1. destruct (f_new (c_filter cfg)); [eapply process_blocks_db; eauto | inversion H2; reflexivity]. }
  destruct ok2; cbn [negb] in H; [|inversion H; subst; rewrite D2; apply shape_same].
  destruct (process_new_blocks cfg longest s2) as [[s3 ev3] ok3] eqn:H3.
  apply process_new_blocks_db in H3. rewrite D2 in H3. destruct H3 as [E3 L3].
  assert (S3 : shape (c_kept cfg) (store (db s)) true (libref (db s)) (db s3)).
  { exists (store (db s3)). split; [exact E3 | left; auto]. }
  cbv zeta in H.
  destruct ok3; cbn [negb] in H; [|inversion H; subst; exact S3].
  destruct (last_sent s3) as [ls|]; [|inversion H; subst; exact S3].
  destruct (has_lib (db s3)); cbn [negb] in H; [|inversion H; subst; exact S3].
  destruct (block_in_chain (db s3) (bref ls) (blib ls)) as [libr|]; [|inversion H; subst; exact S3].
  destruct (ri libr =? 0); [inversion H; subst; exact S3|].
  destruct (has_new_irr_segment (db s3) (c_first cfg) libr) as [[[has_new irr0] stalled]|];
    [|inversion H; subst; exact S3].
  match type of H with context [if ?C then (s3, _, ROk) else _] => destruct C end;
    [inversion H; subst; exact S3|].
  match type of H with context [process_irr_segment cfg ?I ?HD ?S4] =>
    destruct (process_irr_segment cfg I HD S4) as [[s5 ev5] ok5] eqn:H5 end.
  apply process_irr_segment_db in H5. cbn [with_db db] in H5.
  assert (S5 : shape (c_kept cfg) (store (db s)) true (libref (db s)) (db s5)).
  { exists (store (db s3)). split; [exact E3|]. right. rewrite H5. reflexivity. }
  destruct ok5; cbn [negb] in H; [|inversion H; subst; exact S5].
  destruct (process_stalled_segment cfg stalled (bref b) s5) as [[s6 ev6] ok6] eqn:H6.
  apply process_stalled_segment_db in H6. inversion H; subst. rewrite H6. exact S5.
Qed.

(* ---------------------------------------------------------------- ProcessBlock, with the exits named *)

Lemma add_link_cases d b :
  ((bid b =? bparent b) || (bid b =? 0) = true /\ add_link d b = (d, false)) \/
  ((bid b =? bparent b) || (bid b =? 0) = false /\ exists_link d (bid b) = true /\ add_link d b = (d, true)) \/
  ((bid b =? bparent b) || (bid b =? 0) = false /\ exists_link d (bid b) = false /\
   add_link d b = (mkDB (put (mkEntry b false) (store d)) (extra d) (libref d), false)).
Proof.
  unfold add_link. destruct ((bid b =? bparent b) || (bid b =? 0)); [left; auto|].
  destruct (exists_link d (bid b)); [right; left; auto | right; right; auto].
Qed.

Lemma add_link_libref d b : libref (fst (add_link d b)) = libref d.
Proof.
  destruct (add_link_cases d b) as [[_ H]|[[_ [_ H]]|[_ [_ H]]]]; rewrite H; reflexivity.
Qed.

Lemma set_lib_store d first head n d2 : set_lib d first head n = Some d2 -> store d2 = store d.
Proof.
  unfold set_lib. destruct (rn head =? first); [intros H; inversion H; reflexivity|].
  destruct (block_in_chain d head n) as [r|]; [|discriminate].
  destruct (ri r =? 0); intros H; inversion H; reflexivity.
Qed.

(* fk_step with its early exits folded into the names of the specification *)
Lemma fk_step_eq cfg s b :
  fk_step cfg s b =
  if bid b =? bparent b then (s, [], RSelfParent) else
  if below_lib s b then (s, [], ROk) else
  if incl_path cfg s b
  then let '(s', evs, ok) := process_initial_inclusive cfg b (with_db s (fst (add_link (db s) b))) in
       (s', evs, if ok then ROk else RHandlerErr)
  else
  match fk_switch cfg s b with
  | ScssPanic => (s, [], RPanic)
  | ScssFuel => (s, [], RFuel)
  | ScssOk undos redos junc =>
      let '(d1, existed) := add_link (db s) b in
      if existed then (s, [], ROk) else
      let s1 := with_db s d1 in
      let disc : option (fstate * option (option seg) * bool) :=
        if has_lib d1 then Some (s1, Some None, false)
        else match set_lib d1 (c_first cfg) (bref b) (blib b) with
             | None => None
             | Some d2 =>
                 let s2 := with_db s1 d2 in
                 if has_lib d2 then
                   if rn (libref d2) =? bnum b then Some (s2, None, false)
                   else Some (s2, Some (block_for_id d2 (ri (libref d2))), false)
                 else Some (s2, Some None, c_hold cfg)
             end in
      match disc with
      | None => (s1, [], RFuel)
      | Some (s2, None, _) =>
          let '(s', evs, ok) := process_initial_inclusive cfg b s2 in
          (s', evs, if ok then ROk else RHandlerErr)
      | Some (s2, Some first_irr, hold_ret) =>
          if hold_ret then (s2, [], ROk) else
          match reversible_segment (db s2) (c_first cfg) (bref b) with
          | None => (s2, [], RFuel)
          | Some (longest, _) =>
              if negb (triggers cfg s b) || (match longest with [] => true | _ => false end) then (s2, [], ROk)
              else process_tail cfg s2 b undos redos junc longest first_irr
          end
      end
  end.
Proof. reflexivity. Qed.

(* the part of the step after AddLink stored (or skipped) the block, for a state s1 whose store is X *)
Lemma fk_after_shape cfg s b undos redos junc d1 s' evs r :
  libref d1 = libref (db s) ->
  (let s1 := with_db s d1 in
   let disc : option (fstate * option (option seg) * bool) :=
     if has_lib d1 then Some (s1, Some None, false)
     else match set_lib d1 (c_first cfg) (bref b) (blib b) with
          | None => None
          | Some d2 =>
              let s2 := with_db s1 d2 in
              if has_lib d2 then
                if rn (libref d2) =? bnum b then Some (s2, None, false)
                else Some (s2, Some (block_for_id d2 (ri (libref d2))), false)
              else Some (s2, Some None, c_hold cfg)
          end in
   match disc with
   | None => (s1, [], RFuel)
   | Some (s2, None, _) =>
       let '(s', evs, ok) := process_initial_inclusive cfg b s2 in
       (s', evs, if ok then ROk else RHandlerErr)
   | Some (s2, Some first_irr, hold_ret) =>
       if hold_ret then (s2, [], ROk) else
       match reversible_segment (db s2) (c_first cfg) (bref b) with
       | None => (s2, [], RFuel)
       | Some (longest, _) =>
           if negb (triggers cfg s b) || (match longest with [] => true | _ => false end) then (s2, [], ROk)
           else process_tail cfg s2 b undos redos junc longest first_irr
       end
   end) = (s', evs, r) ->
  shape (c_kept cfg) (store d1) (has_lib (db s)) (libref (db s)) (db s').
Proof.
  intros Hlib H. cbv zeta in H.
  assert (Hhl : has_lib d1 = has_lib (db s)) by (unfold has_lib; rewrite Hlib; reflexivity).
  (* the state s2 after LIB discovery has the store of d1; with an existing LIB it is s1 itself *)
  assert (Hfin : forall s2 first_irr hold_ret,
            store (db s2) = store d1 ->
            (has_lib (db s) = true -> libref (db s2) = libref (db s)) ->
            (if hold_ret : bool then (s2, [], ROk) else
             match reversible_segment (db s2) (c_first cfg) (bref b) with
             | None => (s2, [], RFuel)
             | Some (longest, _) =>
                 if negb (triggers cfg s b) || (match longest with [] => true | _ => false end) then (s2, [], ROk)
                 else process_tail cfg s2 b undos redos junc longest first_irr
             end) = (s', evs, r) ->
            shape (c_kept cfg) (store d1) (has_lib (db s)) (libref (db s)) (db s')).
  { intros s2 first_irr hold_ret Hst Hl2 H2.
    assert (Same : shape (c_kept cfg) (store d1) (has_lib (db s)) (libref (db s)) (db s2)).
    { exists (store d1). split; [apply sent_ext_refl | left; auto]. }
    destruct hold_ret; [inversion H2; subst; exact Same|].
    destruct (reversible_segment (db s2) (c_first cfg) (bref b)) as [[longest reach]|];
      [|inversion H2; subst; exact Same].
    match type of H2 with context [if ?C then _ else _] => destruct C end; [inversion H2; subst; exact Same|].
    apply process_tail_shape in H2. rewrite Hst in H2. eapply shape_weaken; [exact H2 | exact Hl2]. }
  destruct (has_lib d1) eqn:Hh1.
  - apply (Hfin (with_db s d1) None false) in H; [exact H | reflexivity | intros _; exact Hlib].
  - assert (Hno : has_lib (db s) = true -> False) by (rewrite <- Hhl; discriminate).
    destruct (set_lib d1 (c_first cfg) (bref b) (blib b)) as [d2|] eqn:Hsl.
    + apply set_lib_store in Hsl.
      destruct (has_lib d2).
      * destruct (rn (libref d2) =? bnum b).
        -- destruct (process_initial_inclusive cfg b (with_db (with_db s d1) d2)) as [[s3 e3] ok3] eqn:Hp.
           apply process_initial_inclusive_db in Hp. cbn [with_db db] in Hp.
           injection H as Hs' _ _. subst s'.
           exists (store d1). split; [apply sent_ext_refl|]. left. rewrite Hp. split; [exact Hsl|].
           intros Hh. destruct (Hno Hh).
        -- apply (Hfin (with_db (with_db s d1) d2) _ false) in H;
             [exact H | exact Hsl | intros Hh; destruct (Hno Hh)].
      * apply (Hfin (with_db (with_db s d1) d2) None (c_hold cfg)) in H;
          [exact H | exact Hsl | intros Hh; destruct (Hno Hh)].
    + inversion H; subst. exists (store d1). split; [apply sent_ext_refl|]. left. split; [reflexivity|].
      intros Hh. destruct (Hno Hh).
Qed.

Lemma stores_incoming_false_l cfg s b : takes_incoming cfg s b = false -> stores_incoming cfg s b = false.
Proof. unfold stores_incoming. intros ->. reflexivity. Qed.

Theorem fk_step_shape cfg s b s' evs r :
  fk_step cfg s b = (s', evs, r) ->
  shape (c_kept cfg) (after_add cfg s b) (has_lib (db s)) (libref (db s)) (db s').
Proof.
  rewrite fk_step_eq. unfold after_add, stores_incoming, takes_incoming.
  destruct (bid b =? bparent b) eqn:Hsp.
  { intros H. inversion H; subst. cbn [negb andb]. apply shape_same. }
  destruct (below_lib s b) eqn:Hbl.
  { intros H. inversion H; subst. cbn [negb andb]. apply shape_same. }
  cbn [negb andb].
  destruct (incl_path cfg s b) eqn:Hin; cbn [orb].
  { intros H.
    destruct (process_initial_inclusive cfg b (with_db s (fst (add_link (db s) b)))) as [[s2 e2] ok2] eqn:Hp.
    apply process_initial_inclusive_db in Hp. cbn [with_db db] in Hp. inversion H; subst. clear H.
    destruct (add_link_cases (db s) b) as [[Hc Ha]|[[Hc [Hex Ha]]|[Hc [Hex Ha]]]];
      rewrite Hsp in Hc; cbn [orb] in Hc; rewrite Ha in Hp; cbn [fst] in Hp.
    - rewrite Hc. cbn [negb andb]. rewrite Hp. apply shape_same.
    - rewrite Hc, Hex. cbn [negb andb]. rewrite Hp. apply shape_same.
    - rewrite Hc, Hex. cbn [negb andb]. rewrite Hp.
      eexists. split; [apply sent_ext_refl|]. left. split; [reflexivity|auto]. }
  destruct (fk_switch cfg s b) as [undos redos junc| |].
  2:{ intros H. inversion H; subst. rewrite andb_false_r. apply shape_same. }
  2:{ intros H. inversion H; subst. rewrite andb_false_r. apply shape_same. }
  rewrite andb_true_r.
  destruct (add_link_cases (db s) b) as [[Hc Ha]|[[Hc [Hex Ha]]|[Hc [Hex Ha]]]];
    rewrite Hsp in Hc; cbn [orb] in Hc; rewrite Ha; rewrite Hc; cbn [negb andb]; try rewrite Hex; cbn [negb].
  - intros H. apply fk_after_shape in H; [exact H | reflexivity].
  - intros H. inversion H; subst. apply shape_same.
  - intros H. apply fk_after_shape in H; [exact H | reflexivity].
Qed.

(* a block that is taken but whose id already has a link leaves the store as it is *)
Lemma fk_step_dup cfg s b s' evs r :
  fk_step cfg s b = (s', evs, r) ->
  takes_incoming cfg s b = true -> exists_link (db s) (bid b) = true ->
  store (db s') = store (db s).
Proof.
  rewrite fk_step_eq. unfold takes_incoming. intros H Ht Hex.
  destruct (bid b =? bparent b) eqn:Hsp; [inversion H; reflexivity|].
  destruct (below_lib s b); [inversion H; reflexivity|].
  cbn [negb andb] in Ht. destruct (bid b =? 0) eqn:H0; [discriminate|]. cbn [negb andb] in Ht.
  assert (Ha : add_link (db s) b = (db s, true)).
  { unfold add_link. rewrite Hsp, H0, Hex. reflexivity. }
  destruct (incl_path cfg s b).
  - destruct (process_initial_inclusive cfg b (with_db s (fst (add_link (db s) b)))) as [[s2 e2] ok2] eqn:Hp.
    apply process_initial_inclusive_db in Hp. inversion H; subst. rewrite Hp, Ha. reflexivity.
  - cbn [orb] in Ht. destruct (fk_switch cfg s b); try discriminate.
    rewrite Ha in H. inversion H; reflexivity.
Qed.
