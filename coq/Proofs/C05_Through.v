(* C05: blocksThroughCursor (cursor block on / off the head's segment) and hub.SourceThroughCursor. *)
From Coq Require Import Sorted Permutation.
From BV Require Import Base.Prelude Model.Block Model.ForkDB Model.Forkable Model.ForkableLookups
  Model.Burst Model.Hub Spec.Consumer Spec.Universe Check.Fk_Check Check.Burst_Check
  Spec.C09_Spec Spec.C05_Spec Spec.C05_Through_Spec
  Proofs.C09_Store Proofs.C09_Segment Proofs.C09_Proofs Proofs.C05_Fast Proofs.C05_Forked.
Local Open Scope N_scope.

(* ---------------------------------------------------------------- list helpers *)

Lemma snum_sorted : forall sg, Forall seg_std sg -> StronglySorted seg_lt sg ->
  StronglySorted (fun x y => snum x < snum y) sg.
Proof.
  intros sg Hstd Hinc. induction Hinc as [|x l HS IH Hall]; [constructor|].
  inversion Hstd as [|? ? Hx Hstd']; subst. constructor; [auto|].
  rewrite Forall_forall in *. intros y Hy. apply snum_lt_of; auto.
Qed.

Lemma bnum_sorted : forall sg, StronglySorted seg_lt sg ->
  StronglySorted (fun x y => bnum (seg_blk x) < bnum (seg_blk y)) sg.
Proof. intros sg H. exact H. Qed.

Lemma from_start_mono : forall start x y, bnum (seg_blk x) < bnum (seg_blk y) ->
  from_start start x = true -> from_start start y = true.
Proof. intros start x y H. unfold from_start. lia. Qed.

Lemma filter_nil_all : forall {A} (p : A -> bool) l, filter p l = [] -> forall y, In y l -> p y = false.
Proof.
  induction l as [|x l IH]; cbn; intros H y Hy; [contradiction|].
  destruct (p x) eqn:E; [discriminate|]. destruct Hy as [<-|Hy]; auto.
Qed.

Lemma from_start_suffix : forall start sg, StronglySorted seg_lt sg ->
  exists lo, sg = lo ++ filter (from_start start) sg /\ forall y, In y lo -> bnum (seg_blk y) < start.
Proof.
  intros start sg Hinc.
  destruct (mono_filter_suffix _ (from_start start) sg Hinc) as [lo [E1 E2]].
  - intros x y. apply from_start_mono.
  - exists lo. split; [exact E1|]. intros y Hy. pose proof (filter_nil_all _ _ E2 y Hy) as H.
    unfold from_start in H. lia.
Qed.

Lemma filter_snoc : forall {A} (p : A -> bool) l x,
  filter p (l ++ [x]) = if p x then filter p l ++ [x] else filter p l.
Proof.
  intros A p l x. rewrite filter_app. cbn. destruct (p x); [reflexivity|apply app_nil_r].
Qed.

Lemma list_snoc_cases : forall {A} (l : list A), l = [] \/ exists pre x, l = pre ++ [x].
Proof.
  intros A l. destruct l as [|a l] using rev_ind; [left; reflexivity|right; eauto].
Qed.

(* ---------------------------------------------------------------- the consumer along a chain *)

(* events that announce the elements of a parent-linked list as New, those numbered up to L as
   New+Irreversible *)
Section ChainFold.
  Variable L : N.
  Variable g : seg -> event.
  Hypothesis g_step : forall x, estep (g x) = if bnum (seg_blk x) <=? L then SNewIrr else SNew.
  Hypothesis g_blk : forall x, eblk (g x) = seg_blk x.

  Definition finL (x : seg) : bool := bnum (seg_blk x) <=? L.

  Lemma chain_fold : forall l Q nf any,
    Forall seg_std l -> Sorted seg_link l -> StronglySorted seg_lt l ->
    (forall x l', l = x :: l' -> (finL x = true -> nf = length Q) /\ top_links Q (seg_blk x)) ->
    cons_fold (mkCons (rev Q) nf any) (map g l)
    = Some (mkCons (rev (Q ++ map seg_blk l)) (nf + length (filter finL l))
                   (any || negb (Nat.eqb (length (filter finL l)) 0))).
  Proof.
    induction l as [|x l IH]; intros Q nf any Hstd Hlk Hinc Hhead.
    - cbn. rewrite app_nil_r, Nat.add_0_r, orb_false_r. reflexivity.
    - inversion Hstd as [|? ? Hx Hstd']; subst.
      inversion Hinc as [|? ? Hinc' Hall]; subst. rewrite Forall_forall in Hall.
      assert (Hlk' : Sorted seg_link l) by (inversion Hlk; assumption).
      destruct (Hhead x l eq_refl) as [Hf Htl].
      assert (Hnext : forall nf', (finL x = true -> nf' = S (length Q)) ->
                forall y l', l = y :: l' ->
                  (finL y = true -> nf' = length (Q ++ [seg_blk x])) /\ top_links (Q ++ [seg_blk x]) (seg_blk y)).
      { intros nf' Hnf' y l' ->. split.
        - intros Hy. rewrite app_length. cbn. rewrite Nat.add_1_r. apply Hnf'.
          specialize (Hall y (or_introl eq_refl)). unfold seg_lt in Hall. unfold finL in *. lia.
        - unfold top_links. rewrite rev_app_distr. cbn.
          inversion Hlk as [|? ? _ Hd]; subst. inversion Hd as [|? ? Hl]; subst.
          unfold seg_link in Hl. rewrite Hl. apply Hx. }
      cbn [map cons_fold filter]. fold (finL x).
      destruct (finL x) eqn:Efx.
      + rewrite (apply_newirr Q (seg_blk x) nf any); auto.
        2:{ rewrite g_step. fold (finL x). rewrite Efx. reflexivity. }
        rewrite (IH (Q ++ [seg_blk x]) (S nf) true Hstd' Hlk' Hinc' (Hnext (S nf) (fun _ => f_equal S (Hf eq_refl)))).
        rewrite <- app_assoc. cbn [app length]. f_equal. f_equal; [lia|]. rewrite orb_true_r. reflexivity.
      + rewrite (apply_new Q (seg_blk x) nf any); auto.
        2:{ rewrite g_step. fold (finL x). rewrite Efx. reflexivity. }
        rewrite (IH (Q ++ [seg_blk x]) nf any Hstd' Hlk' Hinc' (Hnext nf (fun H => False_ind _ (diff_false_true H)))).
        rewrite <- app_assoc. reflexivity.
  Qed.

  Lemma chain_fold0 : forall l, Forall seg_std l -> Sorted seg_link l -> StronglySorted seg_lt l ->
    cons_fold cons0 (map g l)
    = Some (mkCons (rev (map seg_blk l)) (length (filter finL l)) (negb (Nat.eqb (length (filter finL l)) 0))).
  Proof.
    intros l Hstd Hlk Hinc. change cons0 with (mkCons (rev []) 0 false).
    rewrite (chain_fold l [] 0%nat false Hstd Hlk Hinc); [reflexivity|].
    intros x l' _. split; [reflexivity|exact I].
  Qed.
End ChainFold.

Lemma filter_finL_final_now : forall s l, Forall seg_std l ->
  filter (finL (rn (libref (db s)))) l = filter (final_now s) l.
Proof.
  intros s l H. apply filter_ext_in. intros x Hx. rewrite Forall_forall in H. destruct (H x Hx) as [_ Hn].
  unfold finL, final_now. rewrite Hn. reflexivity.
Qed.

(* a suffix of a good segment is good *)
Lemma good_seg_filter_suffix : forall (p : seg -> bool) sg,
  good_seg sg -> (forall x y, seg_lt x y -> p x = true -> p y = true) ->
  Forall seg_std (filter p sg) /\ Sorted seg_link (filter p sg) /\ StronglySorted seg_lt (filter p sg).
Proof.
  intros p sg [Hstd Hlk Hinc Hnd] Hm.
  destruct (mono_filter_suffix _ p sg Hinc Hm) as [lo [E1 _]].
  split; [apply Forall_filter; exact Hstd|].
  split; [rewrite E1 in Hlk; apply Sorted_app_r in Hlk; exact Hlk|].
  rewrite E1 in Hinc. apply StronglySorted_app_r in Hinc. exact Hinc.
Qed.

(* ---------------------------------------------------------------- 1. cursor block on the chain *)

Lemma through_elem : forall s hd start x, seg_std x ->
  (if snum x <? start then []
   else [wrap x (if snum x <=? rn (libref (db s)) then SNewIrr else SNew) (bref hd)
              (if snum x <? rn (libref (db s)) then seg_ref x else libref (db s)) None])
  = if from_start start x then [snap_event s hd x] else [].
Proof.
  intros s hd start x Hx. rewrite wrap_snap by exact Hx. destruct Hx as [_ Hn].
  unfold from_start. rewrite <- Hn.
  destruct (snum x <? start) eqn:E1; destruct (start <=? snum x) eqn:E2; try lia; reflexivity.
Qed.

Lemma head_chain_good : forall s hd sg, wf_state s -> head_chain s hd sg ->
  good_seg sg /\ seg_stored (db s) sg /\
  (forall pre x, sg = pre ++ [x] -> sid x = bid hd /\ snum x = bnum hd).
Proof.
  intros s hd sg W [_ [Hh E]].
  destruct (c09_head_segment_proof s hd sg true W Hh E) as [H1 [H2 [H3 [H4 [H5 H6]]]]].
  split; [constructor; assumption|]. split; [exact H5|exact H6].
Qed.

Lemma through_on_chain_eq : forall s hd sg start c,
  wf_state s -> head_chain s hd sg -> block_in (ri (cu_blk c)) sg = true -> starts_within sg start ->
  blocks_through_cursor s start c = BOk (map (snap_event s hd) (filter (from_start start) sg)).
Proof.
  intros s hd sg start c W HC Hin Hst.
  destruct (head_chain_good s hd sg W HC) as [[Hstd _ _ _] _].
  destruct HC as [Hl [Hh E]].
  unfold blocks_through_cursor. rewrite Hl, Hh, E. cbn [negb].
  destruct sg as [|s0 sg']; [contradiction|]. cbn [starts_within] in Hst.
  assert (Hs0 : snum s0 = bnum (seg_blk s0)) by (inversion Hstd as [|? ? [_ Hn] _]; exact Hn).
  assert (E1 : start <? snum s0 = false) by (apply N.ltb_ge; lia).
  rewrite E1, Hin. f_equal.
  rewrite <- flat_map_keep. apply flat_map_ext_in. intros x Hx.
  apply through_elem. rewrite Forall_forall in Hstd. auto.
Qed.

Lemma snap_cursor_ok_proof : forall s hd x, snap_cursor_ok s hd (snap_event s hd x).
Proof.
  intros s hd x. unfold snap_cursor_ok, snap_event. cbn.
  destruct (bnum (seg_blk x) <? rn (libref (db s))) eqn:E1;
    destruct (bnum (seg_blk x) <=? rn (libref (db s))) eqn:E2; try lia; cbn;
    repeat split; try reflexivity; try discriminate; intros; try lia; auto.
  right. split; [reflexivity|]. lia.
Qed.

Lemma c05_through_on_chain_proof : C05_through_on_chain.
Proof.
  intros s hd sg start c W HC Hin Hst kept evs nfin.
  destruct (head_chain_good s hd sg W HC) as [G [Hstored Htop]].
  pose proof G as [Hstd Hlk Hinc Hnd].
  split; [apply through_on_chain_eq; assumption|].
  split; [apply from_start_suffix; exact Hinc|].
  split.
  { unfold evs. rewrite map_eblk_snap. unfold kept.
    rewrite std_map_bid' by (apply Forall_filter; exact Hstd).
    apply NoDup_map_filter_gen. exact Hnd. }
  split.
  { intros e He. unfold evs in He. rewrite in_map_iff in He. destruct He as [x [<- _]].
    apply snap_cursor_ok_proof. }
  destruct (good_seg_filter_suffix (from_start start) sg G) as [Kstd [Klk Kinc]].
  { intros x y Hxy. apply from_start_mono. exact Hxy. }
  split.
  { unfold evs, nfin. rewrite <- (filter_finL_final_now s kept Kstd).
    exact (chain_fold0 (rn (libref (db s))) (snap_event s hd) (fun x => eq_refl) (fun x => eq_refl) kept Kstd Klk Kinc). }
  intros Hle.
  destruct (list_snoc_cases sg) as [->|[pre [x ->]]]; [contradiction|].
  destruct (Htop pre x eq_refl) as [Hxi Hxn].
  assert (Hx : seg_std x) by (rewrite Forall_forall in Hstd; apply Hstd; apply in_app_iff; right; left; reflexivity).
  destruct Hx as [Hx1 Hx2].
  exists (filter (from_start start) pre), x. unfold kept. rewrite filter_snoc.
  assert (Ex : from_start start x = true) by (unfold from_start; lia).
  rewrite Ex. split; [reflexivity|]. split; [rewrite <- Hx1; exact Hxi|rewrite <- Hx2; exact Hxn].
Qed.

Lemma c05_through_is_snapshot_proof : C05_through_is_snapshot.
Proof.
  intros s hd sg start c evs W HC Hin Hnum.
  pose proof (c09_from_num_proof s start W) as Hspec. unfold from_num_spec in Hspec. rewrite Hnum in Hspec.
  destruct Hspec as [hd' [sg' [pre [x [suf [[_ [Hh' [E' [Esg [Hxn [Hlo Hhi]]]]]] [-> _]]]]]]].
  pose proof HC as [_ [Hh E]]. rewrite Hh in Hh'. injection Hh' as <-. rewrite E in E'. injection E' as E'. rewrite <- E' in Esg. clear E'.
  assert (Hst : starts_within sg start).
  { rewrite Esg. destruct pre as [|p pre']; cbn; [lia|]. specialize (Hlo p (or_introl eq_refl)). lia. }
  rewrite (through_on_chain_eq s hd sg start c W HC Hin Hst). f_equal. f_equal.
  rewrite Esg, filter_app.
  rewrite (filter_none (from_start start) pre) by (intros y Hy; specialize (Hlo y Hy); unfold from_start; lia).
  cbn [app]. apply filter_all. intros y [<-|Hy]; unfold from_start; [lia|]. specialize (Hhi y Hy). lia.
Qed.
