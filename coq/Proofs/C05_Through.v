(* C05: blocksThroughCursor (cursor block on / off the head's segment) and hub.SourceThroughCursor. *)
From Coq Require Import Sorted Permutation.
From BV Require Import Base.Prelude Model.Block Model.ForkDB Model.Forkable Model.ForkableLookups
  Model.Burst Model.Hub Spec.Consumer Spec.Universe Check.Fk_Check Check.Burst_Check
  Spec.C09_Spec Spec.C05_Spec Spec.C05_Through_Spec
  Proofs.C09_Store Proofs.C09_Segment Proofs.C09_Proofs Proofs.C05_Fast Proofs.C05_Forked.
Local Open Scope N_scope.

(* ---------------------------------------------------------------- list helpers *)

Lemma snum_sorted : forall sg, Forall seg_std sg -> StronglySorted seg_lt sg ->
  StronglySorted (fun x y => snum x < snum y) sg.
Proof.
  intros sg Hstd Hinc. induction Hinc as [|x l HS IH Hall]; [constructor|].
  inversion Hstd as [|? ? Hx Hstd']; subst. constructor; [auto|].
  rewrite Forall_forall in *. intros y Hy. apply snum_lt_of; auto.
Qed.

Lemma bnum_sorted : forall sg, StronglySorted seg_lt sg ->
  StronglySorted (fun x y => bnum (seg_blk x) < bnum (seg_blk y)) sg.
Proof. intros sg H. exact H. Qed.

Lemma from_start_mono : forall start x y, bnum (seg_blk x) < bnum (seg_blk y) ->
  from_start start x = true -> from_start start y = true.
Proof. intros start x y H. unfold from_start. lia. Qed.

Lemma filter_nil_all : forall {A} (p : A -> bool) l, filter p l = [] -> forall y, In y l -> p y = false.
Proof.
  induction l as [|x l IH]; cbn; intros H y Hy; [contradiction|].
  destruct (p x) eqn:E; [discriminate|]. destruct Hy as [<-|Hy]; auto.
Qed.

Lemma from_start_suffix : forall start sg, StronglySorted seg_lt sg ->
  exists lo, sg = lo ++ filter (from_start start) sg /\ forall y, In y lo -> bnum (seg_blk y) < start.
Proof.
  intros start sg Hinc.
  destruct (mono_filter_suffix _ (from_start start) sg Hinc) as [lo [E1 E2]].
  - intros x y. apply from_start_mono.
  - exists lo. split; [exact E1|]. intros y Hy. pose proof (filter_nil_all _ _ E2 y Hy) as H.
    unfold from_start in H. lia.
Qed.

Lemma filter_snoc : forall {A} (p : A -> bool) l x,
  filter p (l ++ [x]) = if p x then filter p l ++ [x] else filter p l.
Proof.
  intros A p l x. rewrite filter_app. cbn. destruct (p x); [reflexivity|apply app_nil_r].
Qed.

Lemma list_snoc_cases : forall {A} (l : list A), l = [] \/ exists pre x, l = pre ++ [x].
Proof.
  intros A l. destruct l as [|a l] using rev_ind; [left; reflexivity|right; eauto].
Qed.

(* ---------------------------------------------------------------- the consumer along a chain *)

(* events that announce the elements of a parent-linked list as New, those numbered up to L as
   New+Irreversible *)
Section ChainFold.
  Variable L : N.
  Variable g : seg -> event.
  Hypothesis g_step : forall x, estep (g x) = if bnum (seg_blk x) <=? L then SNewIrr else SNew.
  Hypothesis g_blk : forall x, eblk (g x) = seg_blk x.

  Definition finL (x : seg) : bool := bnum (seg_blk x) <=? L.

  Lemma chain_fold : forall l Q nf any,
    Forall seg_std l -> Sorted seg_link l -> StronglySorted seg_lt l ->
    (forall x l', l = x :: l' -> (finL x = true -> nf = length Q) /\ top_links Q (seg_blk x)) ->
    cons_fold (mkCons (rev Q) nf any) (map g l)
    = Some (mkCons (rev (Q ++ map seg_blk l)) (nf + length (filter finL l))
                   (any || negb (Nat.eqb (length (filter finL l)) 0))).
  Proof.
    induction l as [|x l IH]; intros Q nf any Hstd Hlk Hinc Hhead.
    - cbn. rewrite app_nil_r, Nat.add_0_r, orb_false_r. reflexivity.
    - inversion Hstd as [|? ? Hx Hstd']; subst.
      inversion Hinc as [|? ? Hinc' Hall]; subst. rewrite Forall_forall in Hall.
      assert (Hlk' : Sorted seg_link l) by (inversion Hlk; assumption).
      destruct (Hhead x l eq_refl) as [Hf Htl].
      assert (Hnext : forall nf', (finL x = true -> nf' = S (length Q)) ->
                forall y l', l = y :: l' ->
                  (finL y = true -> nf' = length (Q ++ [seg_blk x])) /\ top_links (Q ++ [seg_blk x]) (seg_blk y)).
      { intros nf' Hnf' y l' ->. split.
        - intros Hy. rewrite app_length. cbn. rewrite Nat.add_1_r. apply Hnf'.
          specialize (Hall y (or_introl eq_refl)). unfold seg_lt in Hall. unfold finL in *. lia.
        - unfold top_links. rewrite rev_app_distr. cbn.
          inversion Hlk as [|? ? _ Hd]; subst. inversion Hd as [|? ? Hl]; subst.
          unfold seg_link in Hl. rewrite Hl. apply Hx. }
      cbn [map cons_fold filter]. fold (finL x).
      destruct (finL x) eqn:Efx.
      + rewrite (apply_newirr Q (seg_blk x) nf any); auto.
        2:{ rewrite g_step. fold (finL x). rewrite Efx. reflexivity. }
        rewrite (IH (Q ++ [seg_blk x]) (S nf) true Hstd' Hlk' Hinc' (Hnext (S nf) (fun _ => f_equal S (Hf eq_refl)))).
        rewrite <- app_assoc. cbn [app length]. f_equal. f_equal; [lia|]. rewrite orb_true_r. reflexivity.
      + rewrite (apply_new Q (seg_blk x) nf any); auto.
        2:{ rewrite g_step. fold (finL x). rewrite Efx. reflexivity. }
        rewrite (IH (Q ++ [seg_blk x]) nf any Hstd' Hlk' Hinc' (Hnext nf (fun H => False_ind _ (diff_false_true H)))).
        rewrite <- app_assoc. reflexivity.
  Qed.

  Lemma chain_fold0 : forall l, Forall seg_std l -> Sorted seg_link l -> StronglySorted seg_lt l ->
    cons_fold cons0 (map g l)
    = Some (mkCons (rev (map seg_blk l)) (length (filter finL l)) (negb (Nat.eqb (length (filter finL l)) 0))).
  Proof.
    intros l Hstd Hlk Hinc. change cons0 with (mkCons (rev []) 0 false).
    rewrite (chain_fold l [] 0%nat false Hstd Hlk Hinc); [reflexivity|].
    intros x l' _. split; [reflexivity|exact I].
  Qed.
End ChainFold.

Lemma filter_finL_final_now : forall s l, Forall seg_std l ->
  filter (finL (rn (libref (db s)))) l = filter (final_now s) l.
Proof.
  intros s l H. apply filter_ext_in. intros x Hx. rewrite Forall_forall in H. destruct (H x Hx) as [_ Hn].
  unfold finL, final_now. rewrite Hn. reflexivity.
Qed.

(* a suffix of a good segment is good *)
Lemma good_seg_filter_suffix : forall (p : seg -> bool) sg,
  good_seg sg -> (forall x y, seg_lt x y -> p x = true -> p y = true) ->
  Forall seg_std (filter p sg) /\ Sorted seg_link (filter p sg) /\ StronglySorted seg_lt (filter p sg).
Proof.
  intros p sg [Hstd Hlk Hinc Hnd] Hm.
  destruct (mono_filter_suffix _ p sg Hinc Hm) as [lo [E1 _]].
  split; [apply Forall_filter; exact Hstd|].
  split; [rewrite E1 in Hlk; apply Sorted_app_r in Hlk; exact Hlk|].
  rewrite E1 in Hinc. apply StronglySorted_app_r in Hinc. exact Hinc.
Qed.

(* ---------------------------------------------------------------- 1. cursor block on the chain *)

Lemma through_elem : forall s hd start x, seg_std x ->
  (if snum x <? start then []
   else [wrap x (if snum x <=? rn (libref (db s)) then SNewIrr else SNew) (bref hd)
              (if snum x <? rn (libref (db s)) then seg_ref x else libref (db s)) None])
  = if from_start start x then [snap_event s hd x] else [].
Proof.
  intros s hd start x Hx. rewrite wrap_snap by exact Hx. destruct Hx as [_ Hn].
  unfold from_start. rewrite <- Hn.
  destruct (snum x <? start) eqn:E1; destruct (start <=? snum x) eqn:E2; try lia; reflexivity.
Qed.

Lemma head_chain_good : forall s hd sg, wf_state s -> head_chain s hd sg ->
  good_seg sg /\ seg_stored (db s) sg /\
  (forall pre x, sg = pre ++ [x] -> sid x = bid hd /\ snum x = bnum hd).
Proof.
  intros s hd sg W [_ [Hh E]].
  destruct (c09_head_segment_proof s hd sg true W Hh E) as [H1 [H2 [H3 [H4 [H5 H6]]]]].
  split; [constructor; assumption|]. split; [exact H5|exact H6].
Qed.

Lemma through_on_chain_eq : forall s hd sg start c,
  wf_state s -> head_chain s hd sg -> block_in (ri (cu_blk c)) sg = true -> starts_within sg start ->
  blocks_through_cursor s start c = BOk (map (snap_event s hd) (filter (from_start start) sg)).
Proof.
  intros s hd sg start c W HC Hin Hst.
  destruct (head_chain_good s hd sg W HC) as [[Hstd _ _ _] _].
  destruct HC as [Hl [Hh E]].
  unfold blocks_through_cursor. rewrite Hl, Hh, E. cbn [negb].
  destruct sg as [|s0 sg']; [contradiction|]. cbn [starts_within] in Hst.
  assert (Hs0 : snum s0 = bnum (seg_blk s0)) by (inversion Hstd as [|? ? [_ Hn] _]; exact Hn).
  assert (E1 : start <? snum s0 = false) by (apply N.ltb_ge; lia).
  rewrite E1, Hin. f_equal.
  rewrite <- flat_map_keep. apply flat_map_ext_in. intros x Hx.
  apply through_elem. rewrite Forall_forall in Hstd. auto.
Qed.

Lemma snap_cursor_ok_proof : forall s hd x, snap_cursor_ok s hd (snap_event s hd x).
Proof.
  intros s hd x. unfold snap_cursor_ok, snap_event. cbn.
  destruct (bnum (seg_blk x) <? rn (libref (db s))) eqn:E1;
    destruct (bnum (seg_blk x) <=? rn (libref (db s))) eqn:E2; try lia; cbn;
    repeat split; try reflexivity; try discriminate; intros; try lia; auto.
  right. split; [reflexivity|]. lia.
Qed.

Lemma c05_through_on_chain_proof : C05_through_on_chain.
Proof.
  intros s hd sg start c W HC Hin Hst kept evs nfin.
  destruct (head_chain_good s hd sg W HC) as [G [Hstored Htop]].
  pose proof G as [Hstd Hlk Hinc Hnd].
  split; [apply through_on_chain_eq; assumption|].
  split; [apply from_start_suffix; exact Hinc|].
  split.
  { unfold evs. rewrite map_eblk_snap. unfold kept.
    rewrite std_map_bid' by (apply Forall_filter; exact Hstd).
    apply NoDup_map_filter_gen. exact Hnd. }
  split.
  { intros e He. unfold evs in He. rewrite in_map_iff in He. destruct He as [x [<- _]].
    apply snap_cursor_ok_proof. }
  destruct (good_seg_filter_suffix (from_start start) sg G) as [Kstd [Klk Kinc]].
  { intros x y Hxy. apply from_start_mono. exact Hxy. }
  split.
  { unfold evs, nfin. rewrite <- (filter_finL_final_now s kept Kstd).
    exact (chain_fold0 (rn (libref (db s))) (snap_event s hd) (fun x => eq_refl) (fun x => eq_refl) kept Kstd Klk Kinc). }
  intros Hle.
  destruct (list_snoc_cases sg) as [->|[pre [x ->]]]; [contradiction|].
  destruct (Htop pre x eq_refl) as [Hxi Hxn].
  assert (Hx : seg_std x) by (rewrite Forall_forall in Hstd; apply Hstd; apply in_app_iff; right; left; reflexivity).
  destruct Hx as [Hx1 Hx2].
  exists (filter (from_start start) pre), x. unfold kept. rewrite filter_snoc.
  assert (Ex : from_start start x = true) by (unfold from_start; lia).
  rewrite Ex. split; [reflexivity|]. split; [rewrite <- Hx1; exact Hxi|rewrite <- Hx2; exact Hxn].
Qed.

Lemma c05_through_is_snapshot_proof : C05_through_is_snapshot.
Proof.
  intros s hd sg start c evs W HC Hin Hnum.
  pose proof (c09_from_num_proof s start W) as Hspec. unfold from_num_spec in Hspec. rewrite Hnum in Hspec.
  destruct Hspec as [hd' [sg' [pre [x [suf [[_ [Hh' [E' [Esg [Hxn [Hlo Hhi]]]]]] [-> _]]]]]]].
  pose proof HC as [_ [Hh E]]. rewrite Hh in Hh'. injection Hh' as <-. rewrite E in E'. injection E' as E'. rewrite <- E' in Esg. clear E'.
  assert (Hst : starts_within sg start).
  { rewrite Esg. destruct pre as [|p pre']; cbn; [lia|]. specialize (Hlo p (or_introl eq_refl)). lia. }
  rewrite (through_on_chain_eq s hd sg start c W HC Hin Hst). f_equal. f_equal.
  rewrite Esg, filter_app.
  rewrite (filter_none (from_start start) pre) by (intros y Hy; specialize (Hlo y Hy); unfold from_start; lia).
  cbn [app]. apply filter_all. intros y [<-|Hy]; unfold from_start; [lia|]. specialize (Hhi y Hy). lia.
Qed.

(* ---------------------------------------------------------------- 2. the cursor block's own segment *)

Lemma StronglySorted_app_l : forall {A} (R : A -> A -> Prop) l1 l2, StronglySorted R (l1 ++ l2) -> StronglySorted R l1.
Proof.
  induction l1 as [|a l1 IH]; cbn; intros l2 H; [constructor|].
  inversion H as [|? ? HS Hall]; subst. constructor; [eapply IH; eauto|].
  rewrite Forall_forall in *. intros y Hy. apply Hall. apply in_app_iff. left. exact Hy.
Qed.

Lemma Forall_app_l : forall {A} (P : A -> Prop) l1 l2, Forall P (l1 ++ l2) -> Forall P l1.
Proof. intros A P l1 l2 H. rewrite Forall_forall in *. intros x Hx. apply H. apply in_app_iff. auto. Qed.
Lemma Forall_app_r : forall {A} (P : A -> Prop) l1 l2, Forall P (l1 ++ l2) -> Forall P l2.
Proof. intros A P l1 l2 H. rewrite Forall_forall in *. intros x Hx. apply H. apply in_app_iff. auto. Qed.

Lemma sorted_nodup_sid : forall d sg, (forall x, In x sg -> find (sid x) (store d) = Some (sent x)) ->
  StronglySorted seg_lt sg -> NoDup (map sid sg).
Proof.
  intros d sg Hst SInc. induction sg as [|x sg IH]; cbn; [constructor|].
  inversion SInc as [|? ? HS' Hall]; subst.
  constructor; [|apply IH; auto; intros y Hy; apply Hst; right; exact Hy].
  intros Hin. rewrite in_map_iff in Hin. destruct Hin as [y [Hy Hyin]].
  rewrite Forall_forall in Hall. specialize (Hall y Hyin). unfold seg_lt, seg_blk in Hall.
  pose proof (Hst x (or_introl eq_refl)) as F1. pose proof (Hst y (or_intror Hyin)) as F2.
  rewrite Hy in F2. rewrite F1 in F2. inversion F2 as [F3]. rewrite F3 in Hall. lia.
Qed.

(* the complete segment of any reference that carries the number of its stored block *)
Lemma numbered_segment_good : forall d r csg reach, wf_store (store d) ->
  complete_segment d r = Some (csg, reach) ->
  (forall e, find (ri r) (store d) = Some e -> bnum (eb e) = rn r) ->
  good_seg csg /\ seg_stored d csg /\ chain_to d (ri r) (rn r) csg /\
  find (seg_bottom (ri r) csg) (store d) = None /\
  (forall lo x, csg = lo ++ [x] -> sid x = ri r /\ snum x = rn r) /\
  (reach = true <-> In (ri (libref d)) (map sid csg ++ [seg_bottom (ri r) csg])).
Proof.
  intros d r csg reach W E Hnum.
  pose proof (complete_segment_segment_of _ _ _ _ E) as S.
  pose proof (segment_of_chain_to _ _ _ _ S) as C.
  pose proof (chain_to_increasing _ _ _ _ W C) as Inc.
  destruct S as [Hst Hl Htop Hmax Hreach].
  assert (Hstd : Forall seg_std csg).
  { rewrite Forall_forall. intros x Hx. split.
    - symmetry. apply (find_key _ _ _ (Hst x Hx)).
    - destruct (list_snoc_cases csg) as [->|[pre [z ->]]]; [contradiction|].
      destruct (Htop pre z eq_refl) as [Hs [Hn Hall]].
      apply in_app_iff in Hx. destruct Hx as [Hx|[<-|[]]]; [auto|].
      rewrite Hn. symmetry. apply Hnum. rewrite <- Hs. apply Hst. apply in_app_iff. right. left. reflexivity. }
  pose proof (Sorted_StronglySorted_lt _ Inc) as SInc.
  split; [constructor; auto; eapply sorted_nodup_sid; eauto|].
  split; [exact Hst|]. split; [exact C|]. split; [exact Hmax|]. split; [|exact Hreach].
  intros lo x ->. destruct (Htop lo x eq_refl) as [Hs [Hn _]]. auto.
Qed.

(* ---------------------------------------------------------------- through_branch *)

Lemma wrap_through : forall hd c x, seg_std x ->
  wrap x (if snum x <=? rn (cu_lib c) then SNewIrr else SNew) (bref hd)
       (if snum x <? rn (cu_lib c) then seg_ref x else cu_lib c) None = through_event hd c x.
Proof.
  intros hd c x [Hi Hn]. unfold wrap, through_event, seg_ref. rewrite Hi, Hn. unfold seg_blk, bref.
  destruct (bnum (eb (sent x)) <=? rn (cu_lib c)); reflexivity.
Qed.

Lemma through_branch_lo : forall start c hd lo tl acc,
  Forall seg_std lo -> (forall y, In y lo -> bnum (seg_blk y) < rn (cu_blk c)) ->
  through_branch (lo ++ tl) start c hd acc =
  through_branch tl start c hd (acc ++ map (through_event hd c) (filter (from_start start) lo)).
Proof.
  induction lo as [|x lo IH]; intros tl acc Hstd Hlt.
  - cbn. rewrite app_nil_r. reflexivity.
  - inversion Hstd as [|? ? Hx Hstd']; subst.
    assert (Hxl : bnum (seg_blk x) < rn (cu_blk c)) by (apply Hlt; left; reflexivity).
    assert (Hlt' : forall y, In y lo -> bnum (seg_blk y) < rn (cu_blk c)) by (intros y Hy; apply Hlt; right; exact Hy).
    cbn [app through_branch filter]. pose proof Hx as [_ Hn]. unfold from_start at 1. rewrite <- Hn.
    destruct (snum x <? start) eqn:E1; destruct (start <=? snum x) eqn:E2; try lia.
    + apply IH; assumption.
    + rewrite wrap_through by exact Hx. fold (seg_blk x).
      assert (E3 : bnum (seg_blk x) <? rn (cu_blk c) = true) by (apply N.ltb_lt; exact Hxl).
      assert (E4 : bnum (seg_blk x) =? rn (cu_blk c) = false) by (apply N.eqb_neq; lia).
      rewrite E3, E4. cbn [orb]. rewrite IH by assumption. cbn [map]. rewrite <- app_assoc. reflexivity.
Qed.

Lemma through_branch_top : forall start c hd top acc, seg_std top -> bnum (seg_blk top) = rn (cu_blk c) ->
  through_branch [top] start c hd acc =
  if from_start start top then Some (acc ++ if is_undo c then [] else [through_event hd c top]) else None.
Proof.
  intros start c hd top acc Hx Hn. cbn [through_branch]. pose proof Hx as [_ Hs].
  unfold from_start. rewrite <- Hs.
  destruct (snum top <? start) eqn:E1; destruct (start <=? snum top) eqn:E2; try lia; [reflexivity|].
  rewrite wrap_through by exact Hx. fold (seg_blk top). rewrite Hn, N.eqb_refl, N.ltb_irrefl. cbn [orb andb].
  unfold is_undo. destruct (matches_undo (cu_step c)); cbn [negb]; [rewrite app_nil_r|]; reflexivity.
Qed.

Lemma through_keep_lo : forall start c lo, (forall y, In y lo -> sid y <> ri (cu_blk c)) ->
  filter (through_keep start c) lo = filter (from_start start) lo.
Proof.
  intros start c lo H. apply filter_ext_in. intros y Hy. unfold through_keep.
  assert (E : sid y =? ri (cu_blk c) = false) by (apply N.eqb_neq; apply H; exact Hy).
  rewrite E, andb_false_r. cbn. apply andb_true_r.
Qed.

(* the branch ends with the cursor block, all others are lower *)
Lemma through_branch_spec : forall start c hd lo top,
  Forall seg_std (lo ++ [top]) -> StronglySorted seg_lt (lo ++ [top]) ->
  sid top = ri (cu_blk c) -> bnum (seg_blk top) = rn (cu_blk c) ->
  NoDup (map sid (lo ++ [top])) ->
  through_branch (lo ++ [top]) start c hd [] =
    if start <=? rn (cu_blk c)
    then Some (map (through_event hd c) (filter (through_keep start c) (lo ++ [top]))) else None.
Proof.
  intros start c hd lo top Hstd Hinc Hid Hnum Hnd.
  destruct (StronglySorted_split _ _ _ _ Hinc) as [Hlo _].
  assert (Hlt : forall y, In y lo -> bnum (seg_blk y) < rn (cu_blk c)).
  { intros y Hy. rewrite <- Hnum. apply Hlo. exact Hy. }
  assert (Hne : forall y, In y lo -> sid y <> ri (cu_blk c)).
  { intros y Hy Heq. rewrite map_app in Hnd. cbn in Hnd. apply NoDup_remove_2 in Hnd. apply Hnd.
    rewrite app_nil_r. rewrite Hid, <- Heq. apply in_map. exact Hy. }
  rewrite through_branch_lo; [|eapply Forall_app_l; eauto|exact Hlt].
  rewrite through_branch_top; [|apply Forall_app_r in Hstd; inversion Hstd; assumption|exact Hnum].
  unfold from_start at 1. rewrite Hnum.
  destruct (start <=? rn (cu_blk c)) eqn:E; [|reflexivity].
  f_equal. cbn [app]. rewrite filter_app, map_app. rewrite through_keep_lo by exact Hne. f_equal.
  cbn [filter]. unfold through_keep, from_start. rewrite Hnum, E, Hid, N.eqb_refl, andb_true_r. cbn [andb].
  destruct (is_undo c); reflexivity.
Qed.

Lemma through_forked_unfold : forall s hd sg start c,
  wf_state s -> head_chain s hd sg -> starts_within sg start -> block_in (ri (cu_blk c)) sg = false ->
  blocks_through_cursor s start c =
    match complete_segment (db s) (cu_blk c) with
    | None => BFuel
    | Some (_, false) => BErr
    | Some ([], true) => BErr
    | Some ((c0 :: _) as csg, true) =>
        if start <? snum c0 then BErr else
        match through_branch csg start c hd [] with
        | None => BErr
        | Some pre => match blocks_from_cursor s c with BOk evs => BOk (pre ++ evs) | other => other end
        end
    end.
Proof.
  intros s hd sg start c W HC Hst Hin.
  destruct (head_chain_good s hd sg W HC) as [[Hstd _ _ _] _].
  destruct HC as [Hl [Hh E]].
  unfold blocks_through_cursor. rewrite Hl, Hh, E. cbn [negb].
  destruct sg as [|s0 sg']; [contradiction|]. cbn [starts_within] in Hst.
  assert (Hs0 : snum s0 = bnum (seg_blk s0)) by (inversion Hstd as [|? ? [_ Hn] _]; exact Hn).
  assert (E1 : start <? snum s0 = false) by (apply N.ltb_ge; lia).
  rewrite E1, Hin. reflexivity.
Qed.

Lemma is_undo_already : forall c, is_undo c = step_eqb (cu_step c) SUndo.
Proof. intros c. unfold is_undo. destruct (cu_step c); reflexivity. Qed.

Lemma c05_through_forked_proof : C05_through_forked.
Proof.
  intros s hd sg start c W HC Hst Hin Hnum.
  pose proof W as [[Wst _] _].
  destruct (complete_segment_total (db s) (cu_blk c) Wst) as [csg [reach E]].
  exists csg, reach. split; [exact E|].
  destruct (numbered_segment_good (db s) (cu_blk c) csg reach Wst E Hnum) as [G [Hstored [_ [Hmax [Htop Hreach]]]]].
  pose proof G as [Hstd Hlk Hinc Hnd].
  assert (Htop' : forall lo x, csg = lo ++ [x] -> sid x = ri (cu_blk c) /\ bnum (seg_blk x) = rn (cu_blk c)).
  { intros lo x ->. destruct (Htop lo x eq_refl) as [H1 H2]. split; [exact H1|].
    rewrite <- H2. symmetry. apply (std_num _ Hstd). apply in_app_iff. right. left. reflexivity. }
  split; [exact G|]. split; [exact Hstored|]. split; [exact Hmax|]. split; [exact Htop'|]. split; [exact Hreach|].
  rewrite (through_forked_unfold s hd sg start c W HC Hst Hin), E.
  split; [intros ->; destruct reach; reflexivity|].
  split; [intros ->; destruct csg; reflexivity|].
  split.
  { intros c0 rest -> Hlt. destruct reach; [|reflexivity].
    assert (Hc0 : snum c0 = bnum (seg_blk c0)) by (inversion Hstd as [|? ? [_ Hn] _]; exact Hn).
    assert (E1 : start <? snum c0 = true) by (apply N.ltb_lt; lia). rewrite E1. reflexivity. }
  (* the branch walk *)
  assert (Hwalk : forall lo top, csg = lo ++ [top] ->
            through_branch csg start c hd [] =
              if start <=? rn (cu_blk c)
              then Some (map (through_event hd c) (filter (through_keep start c) csg)) else None).
  { intros lo top ->. destruct (Htop' lo top eq_refl) as [H1 H2]. apply through_branch_spec; auto. }
  split.
  { intros Hlt. destruct reach; [|destruct csg; reflexivity]. destruct csg as [|c0 rest] eqn:Ecsg; [reflexivity|].
    destruct (start <? snum c0); [reflexivity|]. rewrite <- Ecsg in *.
    destruct (list_snoc_cases csg) as [Hnil|[lo [top Hsn]]]; [rewrite Hnil in Ecsg; discriminate|].
    rewrite (Hwalk lo top Hsn).
    assert (E1 : start <=? rn (cu_blk c) = false) by (apply N.leb_gt; exact Hlt). rewrite E1. reflexivity. }
  intros -> c0 rest Ecsg Hc0 Hle own pre nfin. subst csg. set (csg := c0 :: rest) in *.
  assert (Hc0n : snum c0 = bnum (seg_blk c0)) by (apply (std_num _ Hstd); left; reflexivity).
  assert (E1 : start <? snum c0 = false) by (apply N.ltb_ge; lia).
  assert (E2 : start <=? rn (cu_blk c) = true) by (apply N.leb_le; exact Hle).
  destruct (list_snoc_cases csg) as [Hnil|[lo [top Hsn]]]; [discriminate|].
  destruct (Htop' lo top Hsn) as [Htid Htnum].
  split.
  { unfold csg at 1. rewrite E1. fold csg. rewrite (Hwalk lo top Hsn), E2. reflexivity. }
  (* the shape of `own` *)
  destruct (from_start_suffix start csg Hinc) as [lo' [Esuf Hlo']].
  assert (Ekept : filter (from_start start) csg = filter (from_start start) lo ++ [top]).
  { rewrite Hsn, filter_snoc. unfold from_start at 1. rewrite Htnum, E2. reflexivity. }
  assert (Hne : forall y, In y lo -> sid y <> ri (cu_blk c)).
  { intros y Hy Heq. rewrite Hsn, map_app in Hnd. cbn in Hnd. apply NoDup_remove_2 in Hnd. apply Hnd.
    rewrite app_nil_r. rewrite Htid, <- Heq. apply in_map. exact Hy. }
  assert (Eown : own = if is_undo c then filter (from_start start) lo else filter (from_start start) lo ++ [top]).
  { unfold own. rewrite Hsn, filter_app. rewrite through_keep_lo by exact Hne. cbn [filter].
    unfold through_keep, from_start. rewrite Htnum, E2, Htid, N.eqb_refl, andb_true_r. cbn [andb].
    destruct (is_undo c); cbn [negb]; [apply app_nil_r|reflexivity]. }
  split.
  { exists lo', (filter (from_start start) lo), top.
    split; [rewrite <- Ekept; exact Esuf|]. split; [exact Htid|]. split; [exact Hlo'|]. split; [|exact Eown].
    intros y Hy. rewrite <- Ekept in Hy. apply filter_In in Hy. destruct Hy as [_ Hy]. unfold from_start in Hy. lia. }
  (* the consumer *)
  assert (Gk : Forall seg_std (filter (from_start start) lo ++ [top]) /\
               Sorted seg_link (filter (from_start start) lo ++ [top]) /\
               StronglySorted seg_lt (filter (from_start start) lo ++ [top])).
  { rewrite <- Ekept. apply good_seg_filter_suffix; [exact G|]. intros x y Hxy. apply from_start_mono. exact Hxy. }
  destruct Gk as [Kstd [Klk Kinc]].
  assert (Go : Forall seg_std own /\ Sorted seg_link own /\ StronglySorted seg_lt own).
  { rewrite Eown. destruct (is_undo c); [|auto].
    split; [eapply Forall_app_l; eauto|]. split; [eapply Sorted_app_l; eauto|eapply StronglySorted_app_l; eauto]. }
  destruct Go as [Ostd [Olk Oinc]].
  exact (chain_fold0 (rn (cu_lib c)) (through_event hd c) (fun x => eq_refl) (fun x => eq_refl) own Ostd Olk Oinc).
Qed.

(* ---------------------------------------------------------------- the own branch and the chain *)

Lemma chain_to_prefix : forall d l2 cur n l1 x, chain_to d cur n (l1 ++ x :: l2) ->
  chain_to d (sid x) (snum x) (l1 ++ [x]).
Proof.
  intros d l2. induction l2 as [|z l2 IH] using rev_ind; intros cur n l1 x H.
  - destruct (chain_to_top _ _ _ _ _ H) as [e [Hf [-> Hc]]]. cbn. exact H.
  - replace (l1 ++ x :: l2 ++ [z]) with ((l1 ++ x :: l2) ++ [z]) in H by (rewrite <- app_assoc; reflexivity).
    destruct (chain_to_top _ _ _ _ _ H) as [e [Hf [_ Hc]]]. eapply IH. exact Hc.
Qed.

Lemma branch_chain : forall d sg id path j, branch_to d sg id path j ->
  forall pj, chain_to d j (num_or0 d j) pj -> chain_to d id (num_or0 d id) (pj ++ rev path).
Proof.
  intros d sg id path j B. induction B as [id e Hf Hin|id e l j Hf Hin B IH]; intros pj Hpj.
  - cbn [rev app]. rewrite (num_or0_stored d id e Hf). constructor; assumption.
  - cbn [rev]. rewrite app_assoc. rewrite (num_or0_stored d id e Hf). constructor; [exact Hf|]. apply IH. exact Hpj.
Qed.

Lemma lib_on_chain : forall sg s0 rest c, good_seg sg -> sg = s0 :: rest ->
  (exists x, In x sg /\ sid x = ri (cu_lib c) /\ snum x = rn (cu_lib c)) ->
  snum s0 <= rn (cu_lib c) /\ block_in (ri (cu_lib c)) sg = true.
Proof.
  intros sg s0 rest c [Hstd _ Hinc _] -> [x [Hx [Hxi Hxn]]].
  split; [|apply block_in_spec; eauto].
  rewrite <- Hxn. destruct Hx as [<-|Hx]; [lia|].
  inversion Hinc as [|? ? _ Hall]; subst. rewrite Forall_forall in Hall. specialize (Hall x Hx).
  rewrite Forall_forall in Hstd. apply N.lt_le_incl. apply snum_lt_of; auto; apply Hstd; [left; reflexivity|right; exact Hx].
Qed.

Lemma starts_within_cons : forall sg start, starts_within sg start ->
  exists c0 rest, sg = c0 :: rest /\ bnum (seg_blk c0) <= start.
Proof. intros [|c0 rest] start H; [contradiction|]. exists c0, rest. auto. Qed.

Lemma through_forked_eq : forall s hd sg start c csg,
  wf_state s -> head_chain s hd sg -> starts_within sg start ->
  block_in (ri (cu_blk c)) sg = false -> cursor_numbered (db s) c ->
  complete_segment (db s) (cu_blk c) = Some (csg, true) ->
  starts_within csg start -> start <= rn (cu_blk c) ->
  blocks_through_cursor s start c =
    match blocks_from_cursor s c with
    | BOk evs => BOk (map (through_event hd c) (filter (through_keep start c) csg) ++ evs)
    | other => other
    end.
Proof.
  intros s hd sg start c csg W HC Hst Hin Hnum E Hcst Hle.
  destruct (c05_through_forked_proof s hd sg start c W HC Hst Hin Hnum) as [csg' [reach' [E' [_ [_ [_ [_ [_ [_ [_ [_ [_ Hmain]]]]]]]]]]]].
  rewrite E in E'. injection E' as <- <-.
  destruct (starts_within_cons _ _ Hcst) as [c0 [rest [Ecsg Hc0]]].
  destruct (Hmain eq_refl c0 rest Ecsg Hc0 Hle) as [H _]. exact H.
Qed.

(* the cursor's own segment = the chain up to the junction, then the undone path oldest first *)
Lemma through_forked_structure : forall s hd sg c csg reach path j,
  wf_state s -> head_chain s hd sg -> cursor_numbered (db s) c ->
  complete_segment (db s) (cu_blk c) = Some (csg, reach) ->
  branch_to (db s) sg (ri (cu_blk c)) path j ->
  exists lo xj hi, sg = lo ++ xj :: hi /\ sid xj = j /\ find j (store (db s)) = Some (sent xj) /\
                   csg = lo ++ xj :: rev path.
Proof.
  intros s hd sg c csg reach path j W HC Hnum E B.
  destruct (head_chain_good s hd sg W HC) as [G [Hstored _]].
  pose proof W as [[Wst _] _].
  pose proof (branch_to_junction _ _ _ _ _ B) as Hj.
  apply block_in_spec in Hj. destruct Hj as [xj [Hxj Hxji]].
  apply in_split in Hxj. destruct Hxj as [lo [hi Esg]].
  assert (Hfj : find j (store (db s)) = Some (sent xj)).
  { rewrite <- Hxji. apply Hstored. rewrite Esg. apply in_app_iff. right. left. reflexivity. }
  exists lo, xj, hi. split; [exact Esg|]. split; [exact Hxji|]. split; [exact Hfj|].
  destruct (numbered_segment_good (db s) (cu_blk c) csg reach Wst E Hnum) as [_ [_ [Cc _]]].
  pose proof HC as [_ [_ Eh]].
  pose proof (segment_of_chain_to _ _ _ _ (complete_segment_segment_of _ _ _ _ Eh)) as Ch.
  rewrite Esg in Ch. apply chain_to_prefix in Ch.
  assert (Hxn : snum xj = num_or0 (db s) j).
  { rewrite (num_or0_stored _ _ _ Hfj). destruct G as [Hstd _ _ _]. apply (std_num _ Hstd).
    rewrite Esg. apply in_app_iff. right. left. reflexivity. }
  rewrite Hxji, Hxn in Ch.
  pose proof (branch_chain _ _ _ _ _ B _ Ch) as Cb.
  destruct (branch_to_head _ _ _ _ _ B) as [e [rest [Hfe _]]].
  rewrite (num_or0_stored _ _ _ Hfe), (Hnum e Hfe) in Cb.
  rewrite (chain_to_det _ _ _ _ Cb _ Cc). rewrite <- app_assoc. reflexivity.
Qed.

Lemma c05_through_forked_burst_proof : C05_through_forked_burst.
Proof.
  intros s hd sg start c csg path j W HC Hst Hin Hnum E Hcst Hle Hlib B.
  destruct (head_chain_good s hd sg W HC) as [G [Hstored _]].
  pose proof W as [[Wst _] _].
  destruct (through_forked_structure s hd sg c csg true path j W HC Hnum E B) as [lo [xj [hi [Esg [Hxji [Hfj Ecsg]]]]]].
  exists (sent xj). split; [exact Hfj|]. cbn zeta. split.
  - rewrite (through_forked_eq s hd sg start c csg W HC Hst Hin Hnum E Hcst Hle).
    destruct (starts_within_cons _ _ Hst) as [s0 [rest [Es0 _]]].
    destruct (lib_on_chain sg s0 rest c G Es0 Hlib) as [Hs0 Hlin].
    pose proof HC as [Hl [Hh Eh]]. rewrite Es0 in Eh.
    rewrite (blocks_from_cursor_eq s c hd s0 rest Hl Hh Eh Hs0). rewrite <- Es0.
    change (fuel_of (db s)) with (S (S (length (store (db s))))).
    rewrite (loop_forked s hd sg c (length (store (db s))) Wst Hstored Hlin Hin path j (sent xj) B Hfj).
    reflexivity.
  - exists lo, xj, hi. auto.
Qed.

(* ---------------------------------------------------------------- 3. hub.SourceThroughCursor *)

Lemma num_answer_from_num : forall s n, from_num_spec s n -> num_answer_spec s n (blocks_from_num s n).
Proof. intros s n H. exact H. Qed.

Lemma c05_hub_through_proof : C05_hub_through.
Proof.
  intros s start c. unfold hub_through_cursor. split; [|split].
  - intros H. apply N.ltb_lt in H. rewrite H. reflexivity.
  - intros H W. apply N.ltb_lt in H. rewrite H. apply num_answer_from_num. apply c09_from_num_proof. exact W.
  - intros H. apply N.ltb_ge in H. rewrite H. reflexivity.
Qed.
