From BV Require Import Base.Prelude Base.Decimal Model.CursorCodec Spec.C14_Spec
  Proofs.PreludeFacts Proofs.DecimalFacts Proofs.CursorCodecFacts.
Local Open Scope N_scope.

Lemma c14_roundtrip_proof : forall oenc odec, (forall s, odec (oenc s) = Some s) -> C14_roundtrip oenc odec.
Proof.
  intros oenc odec H c Hok Hal.
  assert (E : from_string (cursor_string c) = Some c).
  { rewrite from_string_cursor_string by exact Hok. rewrite normalize_alias_ok by exact Hal. reflexivity. }
  split; [exact E|]. unfold from_opaque, to_opaque. rewrite H. exact E.
Qed.

Lemma c14_layout_proof : C14_layout.
Proof.
  intros c Hok s. subst s. rewrite (segments_cursor_string c Hok), layout_cursor_string.
  destruct (eqb_list (rid (chead c)) (rid (cblk c))) eqn:E1;
  [apply eqb_list_eq in E1 | assert (rid (chead c) <> rid (cblk c)) by (intros X; apply eqb_list_eq in X; congruence)].
  - repeat split; try tauto; try (intros; discriminate); try (intros [? ?]; congruence).
  - destruct (eqb_list (rid (cblk c)) (rid (clib c))) eqn:E2;
    [apply eqb_list_eq in E2 | assert (rid (cblk c) <> rid (clib c)) by (intros X; apply eqb_list_eq in X; congruence)].
    + repeat split; try tauto; try (intros; discriminate); try (intros [? ?]; congruence); try congruence.
    + repeat split; try tauto; try (intros; discriminate); try (intros [? ?]; congruence); try congruence.
Qed.

Lemma c14_decode_total_proof : C14_decode_total.
Proof.
  intros s c H. pose proof (from_string_ok s c H) as Hok. split; [exact Hok|].
  exists (normalize c). split; [apply from_string_cursor_string; exact Hok | apply normalize_equiv].
Qed.
