(* C04 on hub bursts (Model/Burst.v): the cursor of every burst event, the junction of its undo events, and
   acceptance by the checkers cursors_ok / junc_walk of Check/C04_More.v.  Built on the event-by-event
   descriptions of the C05 / C09 packages (snap_event, fast_event, undo_event, through_event). *)
From Coq Require Import Sorted.
From BV Require Import Base.Prelude Model.Block Model.ForkDB Model.Forkable Model.ForkableLookups
  Model.Burst Model.CursorResolver Model.Hub Spec.Consumer Spec.Universe Check.Fk_Check Check.Burst_Check
  Check.C06_Check Check.C04_More Spec.C09_Spec Spec.C05_Spec Spec.C05_Through_Spec Spec.C04_Burst_Spec
  Proofs.C09_Store Proofs.C09_Segment Proofs.C09_Proofs Proofs.C05_Fast Proofs.C05_Forked Proofs.C05_Through
  Proofs.C05_Total Proofs.C04_File.
Local Open Scope N_scope.

Lemma ref_eqb_true a b : ref_eqb a b = true -> a = b.
Proof.
  destruct a as [i n], b as [i' n']. unfold ref_eqb. cbn [ri rn]. intros H. apply andb_true_iff in H as [H1 H2].
  apply N.eqb_eq in H1, H2. congruence.
Qed.

(* ================================================================== the checker cursors_ok, step by step *)

Definition ck_step (last : option ref) (e : event) : option ref :=
  match estep e with SIrr | SNewIrr => Some (bref (eblk e)) | SNew | SUndo => Some (elib e) | SStalled => last end.
Fixpoint ck_last (last : option ref) (l : list event) : option ref :=
  match l with [] => last | e :: l' => ck_last (ck_step last e) l' end.
Fixpoint ck_lib (p : N) (l : list event) : N :=
  match l with [] => p | e :: l' => ck_lib (rn (elib e)) l' end.

Definition ev_ok (h : option ref) (last : option ref) (p : N) (e : event) : bool :=
  ref_eqb (ecblk e) (bref (eblk e)) && match h with Some h => ref_eqb (ehead e) h | None => true end &&
  (p <=? rn (elib e)) &&
  match estep e with
  | SIrr | SNewIrr => ref_eqb (elib e) (bref (eblk e))
  | SNew => (rn (elib e) <=? bnum (eblk e)) && match last with Some r => ref_eqb (elib e) r | None => true end
  | SUndo => match last with Some r => ref_eqb (elib e) r | None => true end
  | SStalled => true
  end.

Lemma cursors_ok_cons h last p e l :
  cursors_ok h last p (e :: l) = ev_ok h last p e && cursors_ok h (ck_step last e) (rn (elib e)) l.
Proof.
  cbn [cursors_ok]. unfold ev_ok, ck_step. destruct (estep e); rewrite ?andb_true_r, ?andb_assoc; reflexivity.
Qed.

Lemma cursors_ok_app h : forall l1 last p l2,
  cursors_ok h last p (l1 ++ l2) = cursors_ok h last p l1 && cursors_ok h (ck_last last l1) (ck_lib p l1) l2.
Proof.
  induction l1 as [|e l1 IH]; intros last p l2; [reflexivity|].
  rewrite <- app_comm_cons, !cursors_ok_cons, IH, andb_assoc. reflexivity.
Qed.

Lemma ck_last_app : forall l1 last l2, ck_last last (l1 ++ l2) = ck_last (ck_last last l1) l2.
Proof. induction l1 as [|e l1 IH]; intros last l2; [reflexivity|]. cbn [app ck_last]. apply IH. Qed.

Lemma ck_lib_app : forall l1 p l2, ck_lib p (l1 ++ l2) = ck_lib (ck_lib p l1) l2.
Proof. induction l1 as [|e l1 IH]; intros p l2; [reflexivity|]. cbn [app ck_lib]. apply IH. Qed.

(* a lower floor is accepted as well *)
Lemma cursors_ok_floor h last p p' l : p' <= p -> cursors_ok h last p l = true -> cursors_ok h last p' l = true.
Proof.
  destruct l as [|e l]; [reflexivity|]. intros Hp. rewrite !cursors_ok_cons. intros H.
  apply andb_true_iff in H as [H1 H2]. rewrite H2, andb_true_r. unfold ev_ok in *.
  apply andb_true_iff in H1 as [H1 H4]. apply andb_true_iff in H1 as [H1 H3]. rewrite H1, H4. cbn [andb].
  apply N.leb_le in H3. rewrite andb_true_r. apply N.leb_le. lia.
Qed.

(* ---------------------------------------------------------------- soundness: what acceptance means *)

Lemma ev_ok_inv h last p e : ev_ok (Some h) last p e = true ->
  ecblk e = bref (eblk e) /\ ehead e = h /\ p <= rn (elib e) /\
  (matches_irr (estep e) = true -> elib e = bref (eblk e)) /\
  (estep e = SNew -> rn (elib e) <= bnum (eblk e)) /\
  (nu_step e -> forall r, last = Some r -> elib e = r).
Proof.
  unfold ev_ok. intros H. apply andb_true_iff in H as [H H4]. apply andb_true_iff in H as [H H3].
  apply andb_true_iff in H as [H1 H2]. apply ref_eqb_true in H1, H2. apply N.leb_le in H3.
  split; [exact H1|]. split; [exact H2|]. split; [exact H3|]. unfold nu_step.
  destruct (estep e); cbn [matches_irr].
  - apply andb_true_iff in H4 as [H4 H5]. apply N.leb_le in H4.
    split; [discriminate|]. split; [auto|]. intros _ r ->. apply ref_eqb_true. exact H5.
  - split; [discriminate|]. split; [discriminate|]. intros _ r ->. apply ref_eqb_true. exact H4.
  - apply ref_eqb_true in H4. split; [auto|]. split; [discriminate|]. intros [|]; discriminate.
  - split; [discriminate|]. split; [discriminate|]. intros [|]; discriminate.
  - apply ref_eqb_true in H4. split; [auto|]. split; [discriminate|]. intros [|]; discriminate.
Qed.

(* the checker's `last` agrees with the last final block whenever that is known *)
Lemma ck_last_final h : forall l start last p r,
  cursors_ok (Some h) last p l = true ->
  (forall r0, start = Some r0 -> last = Some r0) ->
  last_final start l = Some r -> ck_last last l = Some r.
Proof.
  induction l as [|e l IH]; intros start last p r Hok Hsl Hf.
  - cbn in *. apply Hsl. exact Hf.
  - rewrite cursors_ok_cons in Hok. apply andb_true_iff in Hok as [He Hok].
    cbn [last_final] in Hf. cbn [ck_last]. apply (IH _ _ _ _ Hok) in Hf; [exact Hf|].
    destruct (ev_ok_inv _ _ _ _ He) as (_ & _ & _ & _ & _ & Hnu).
    unfold ck_step, nu_step in *. destruct (estep e); cbn [matches_irr]; intros r0 Hr0.
    + rewrite (Hnu (or_introl eq_refl) r0 (Hsl r0 Hr0)). reflexivity.
    + rewrite (Hnu (or_intror eq_refl) r0 (Hsl r0 Hr0)). reflexivity.
    + exact Hr0.
    + apply Hsl. exact Hr0.
    + exact Hr0.
Qed.

Lemma cursors_ok_forall h : forall l last p, cursors_ok (Some h) last p l = true ->
  (forall e, In e l -> exists last' p', ev_ok (Some h) last' p' e = true /\ p <= p') /\
  StronglySorted (fun a b => rn (elib a) <= rn (elib b)) l.
Proof.
  induction l as [|e l IH]; intros last p Hok; [split; [intros e []|constructor]|].
  rewrite cursors_ok_cons in Hok. apply andb_true_iff in Hok as [He Hok].
  destruct (IH _ _ Hok) as [IH1 IH2]. destruct (ev_ok_inv _ _ _ _ He) as (_ & _ & Hp & _).
  split.
  - intros x [<-|Hx]; [exists last, p; split; [exact He | lia]|].
    destruct (IH1 x Hx) as (last' & p' & H1 & H2). exists last', p'. split; [exact H1 | lia].
  - constructor; [exact IH2|]. apply Forall_forall. intros x Hx.
    destruct (IH1 x Hx) as (last' & p' & H1 & H2). destruct (ev_ok_inv _ _ _ _ H1) as (_ & _ & Hp' & _). lia.
Qed.

Lemma c04_cursors_ok_sound_proof : C04_cursors_ok_sound.
Proof.
  intros head start floor evs Hok. destruct (cursors_ok_forall _ _ _ _ Hok) as [Hall Hmono].
  assert (Hinv : forall e, In e evs -> exists last' p', ev_ok (Some head) last' p' e = true /\ floor <= p') by exact Hall.
  constructor.
  - intros e He. destruct (Hinv e He) as (l' & p' & H & _). apply (ev_ok_inv _ _ _ _ H).
  - intros e He. destruct (Hinv e He) as (l' & p' & H & _). apply (ev_ok_inv _ _ _ _ H).
  - intros e He. destruct (Hinv e He) as (l' & p' & H & _). apply (ev_ok_inv _ _ _ _ H).
  - intros e He Hst. destruct (Hinv e He) as (l' & p' & H & _).
    destruct (ev_ok_inv _ _ _ _ H) as (_ & _ & _ & Hirr & Hnew & _).
    destruct Hst as [Hs|[Hs|Hs]]; [apply Hnew; exact Hs| |]; rewrite (Hirr ltac:(rewrite Hs; reflexivity)); cbn [bref rn]; lia.
  - intros l1 e l2 r -> Hnu Hf. rewrite cursors_ok_app in Hok. apply andb_true_iff in Hok as [Hok1 Hok2].
    rewrite cursors_ok_cons in Hok2. apply andb_true_iff in Hok2 as [He _].
    destruct (ev_ok_inv _ _ _ _ He) as (_ & _ & _ & _ & _ & Hl). apply (Hl Hnu).
    apply (ck_last_final head l1 start start floor r Hok1); auto.
  - intros l1 e1 e2 l2 -> Hnu1 Hnu2. rewrite cursors_ok_app in Hok. apply andb_true_iff in Hok as [_ Hok2].
    rewrite !cursors_ok_cons in Hok2. apply andb_true_iff in Hok2 as [_ Hok2]. apply andb_true_iff in Hok2 as [He2 _].
    destruct (ev_ok_inv _ _ _ _ He2) as (_ & _ & _ & _ & _ & Hl). symmetry. apply (Hl Hnu2).
    unfold ck_step. destruct Hnu1 as [-> | ->]; reflexivity.
  - exact Hmono.
  - intros e He. destruct (Hinv e He) as (l' & p' & H & Hp). destruct (ev_ok_inv _ _ _ _ H) as (_ & _ & Hp' & _). lia.
Qed.

(* ================================================================== runs of events that go by one LIB *)

Definition blt_ev (a b : event) : Prop := bnum (eblk a) < bnum (eblk b).

Lemma capped_ev_ok hd L last p e :
  ehead e = bref hd -> capped_by L e -> p <= bnum (eblk e) ->
  (rn L < bnum (eblk e) -> (last = None \/ last = Some L) /\ p <= rn L) ->
  ev_ok (Some (bref hd)) last p e = true /\
  ck_step last e = Some (if bnum (eblk e) <=? rn L then bref (eblk e) else L) /\
  rn (elib e) = (if bnum (eblk e) <=? rn L then bnum (eblk e) else rn L).
Proof.
  intros Hh (Hb & _ & Hc) Hp Hnew. unfold ev_ok, ck_step. rewrite Hh, Hb, !ref_eqb_refl. cbn [andb].
  destruct Hc as [(Hs & Hl & Hlt)|(Hs & Hl & Hle)].
  - destruct (Hnew Hlt) as [Hlast HpL]. rewrite Hs, Hl.
    replace (bnum (eblk e) <=? rn L) with false by (symmetry; apply N.leb_gt; exact Hlt).
    replace (p <=? rn L) with true by (symmetry; apply N.leb_le; exact HpL).
    replace (rn L <=? bnum (eblk e)) with true by (symmetry; apply N.leb_le; lia).
    split; [|auto]. destruct Hlast as [-> | ->]; [reflexivity | rewrite ref_eqb_refl; reflexivity].
  - rewrite Hl, ref_eqb_refl. cbn [bref rn].
    replace (bnum (eblk e) <=? rn L) with true by (symmetry; apply N.leb_le; exact Hle).
    replace (p <=? bnum (eblk e)) with true by (symmetry; apply N.leb_le; exact Hp).
    destruct Hs as [-> | ->]; auto.
Qed.

Lemma capped_num L e : capped_by L e -> bref (eblk e) = L -> bnum (eblk e) = rn L.
Proof. intros _ <-. reflexivity. Qed.

Lemma capped_run_ok hd L : forall evs last p,
  heads hd evs -> Forall (capped_by L) evs -> StronglySorted blt_ev evs ->
  (forall e, In e evs -> p <= bnum (eblk e)) ->
  (* the block L is delivered when blocks on both sides of it are *)
  (forall e1 e2, In e1 evs -> In e2 evs -> bnum (eblk e1) <= rn L -> rn L < bnum (eblk e2) ->
     exists eL, In eL evs /\ bref (eblk eL) = L) ->
  (* when the first event is New *)
  (forall e l, evs = e :: l -> rn L < bnum (eblk e) -> (last = None \/ last = Some L) /\ p <= rn L) ->
  cursors_ok (Some (bref hd)) last p evs = true.
Proof.
  induction evs as [|e l IH]; intros last p Hh Hc Hs Hp HL Hfirst; [reflexivity|].
  inversion Hh as [|? ? Hhe Hhl]; subst. inversion Hc as [|? ? Hce Hcl]; subst. inversion Hs as [|? ? Hsl Hse]; subst.
  rewrite Forall_forall in Hse.
  destruct (capped_ev_ok hd L last p e Hhe Hce (Hp e (or_introl eq_refl)) (Hfirst e l eq_refl)) as (Hok & Hst & Hlib).
  rewrite cursors_ok_cons, Hok. cbn [andb]. apply IH; [exact Hhl | exact Hcl | exact Hsl | | |].
  - intros x Hx. specialize (Hse x Hx). unfold blt_ev in Hse. rewrite Hlib. destruct (bnum (eblk e) <=? rn L) eqn:E; [lia|].
    apply N.leb_gt in E. lia.
  - intros e1 e2 H1 H2 Hle Hlt. destruct (HL e1 e2 (or_intror H1) (or_intror H2) Hle Hlt) as (eL & [<-|HeL] & EL).
    + exfalso. specialize (Hse e1 H1). unfold blt_ev in Hse. rewrite <- EL in Hle. cbn [bref rn] in Hle. lia.
    + exists eL. auto.
  - intros e' l' -> Hlt. rewrite Hst, Hlib. destruct (bnum (eblk e) <=? rn L) eqn:E.
    + apply N.leb_le in E.
      destruct (HL e e' (or_introl eq_refl) (or_intror (or_introl eq_refl)) E Hlt) as (eL & [<-|HeL] & EL).
      * split; [right; rewrite EL; reflexivity | exact E].
      * exfalso. assert (Hge : bnum (eblk e') <= bnum (eblk eL)).
        { destruct HeL as [<-|HeL]; [lia|]. inversion Hsl as [|? ? _ Hs']; subst. rewrite Forall_forall in Hs'.
          specialize (Hs' eL HeL). unfold blt_ev in Hs'. lia. }
        rewrite <- EL in Hlt. cbn [bref rn] in Hlt. lia.
    + split; [right; reflexivity | lia].
Qed.

Lemma ck_last_snoc l : forall last e, ck_last last (l ++ [e]) = ck_step (ck_last last l) e.
Proof. intros last e. rewrite ck_last_app. reflexivity. Qed.
Lemma ck_lib_snoc l : forall p e, ck_lib p (l ++ [e]) = rn (elib e).
Proof. intros p e. rewrite ck_lib_app. reflexivity. Qed.

(* the state the checker leaves such a run in *)
Lemma capped_run_exit L evs last p :
  Forall (capped_by L) evs -> StronglySorted blt_ev evs ->
  (exists e, In e evs /\ (rn L < bnum (eblk e) \/ bref (eblk e) = L)) ->
  ck_last last evs = Some L /\ ck_lib p evs = rn L.
Proof.
  intros Hc Hs (e & He & Hw). destruct evs as [|z0 l0 _] using rev_ind; [destruct He|].
  rewrite ck_last_snoc, ck_lib_snoc. apply Forall_app in Hc as [_ Hz]. apply Forall_inv in Hz.
  assert (Hmax : e = z0 \/ bnum (eblk e) < bnum (eblk z0)).
  { apply in_app_iff in He as [He|[<-|[]]]; [right|left; reflexivity].
    destruct (ss_app_inv _ _ _ Hs) as (_ & _ & Hx). apply (Hx e z0 He). left. reflexivity. }
  destruct Hz as (_ & _ & [(Hst & Hl & Hlt)|(Hst & Hl & Hle)]).
  - unfold ck_step. rewrite Hst, Hl. auto.
  - assert (Ez : bref (eblk z0) = L).
    { destruct Hw as [Hw|Hw]; [exfalso; destruct Hmax as [->|Hmax]; lia|].
      destruct Hmax as [->|Hmax]; [exact Hw|]. exfalso. rewrite <- Hw in Hle. cbn [bref rn] in Hle. lia. }
    unfold ck_step. rewrite Hl, Ez. destruct Hst as [-> | ->]; auto.
Qed.

(* the undo events of a burst *)
Lemma undos_run hd c jr : forall undos last p,
  heads hd undos -> Forall (undo_of c jr) undos -> (last = None \/ last = Some (cu_lib c)) -> p <= rn (cu_lib c) ->
  cursors_ok (Some (bref hd)) last p undos = true /\
  (undos <> [] -> ck_last last undos = Some (cu_lib c) /\ ck_lib p undos = rn (cu_lib c)).
Proof.
  induction undos as [|e l IH]; intros last p Hh HU Hl Hp; [split; [reflexivity | congruence]|].
  inversion Hh as [|? ? Hhe Hhl]; subst. inversion HU as [|? ? (Hs & Hb & Hlib & _) HUl]; subst.
  assert (Hok : ev_ok (Some (bref hd)) last p e = true).
  { unfold ev_ok. rewrite Hs, Hb, Hhe, Hlib, !ref_eqb_refl. cbn [andb].
    replace (p <=? rn (cu_lib c)) with true by (symmetry; apply N.leb_le; exact Hp).
    destruct Hl as [-> | ->]; [reflexivity | apply ref_eqb_refl]. }
  assert (Hst : ck_step last e = Some (cu_lib c)) by (unfold ck_step; rewrite Hs, Hlib; reflexivity).
  destruct (IH (Some (cu_lib c)) (rn (cu_lib c)) Hhl HUl (or_intror eq_refl) (N.le_refl _)) as [IH1 IH2].
  rewrite cursors_ok_cons, Hok, Hst, Hlib. cbn [andb]. split; [exact IH1|]. intros _. cbn [ck_last ck_lib]. rewrite Hst, Hlib.
  destruct l as [|e' l']; [split; reflexivity|]. apply IH2. discriminate.
Qed.

(* ================================================================== the junction walk *)

Lemma split_undos_app : forall us rest, Forall (fun e => estep e = SUndo) us ->
  match rest with e :: _ => estep e <> SUndo | [] => True end -> split_undos (us ++ rest) = (us, rest).
Proof.
  induction us as [|u us IH]; intros rest HU Hr.
  - cbn [app]. destruct rest as [|e rest]; [reflexivity|]. cbn [split_undos]. destruct (estep e); congruence.
  - inversion HU as [|? ? Hu HU']; subst. cbn [app split_undos]. rewrite Hu, (IH rest HU' Hr). reflexivity.
Qed.

Lemma jw_no_undo : forall fuel st l, Forall (fun e => estep e <> SUndo) l -> junc_walk fuel st l = true.
Proof.
  induction fuel as [|f IH]; intros st l H; [reflexivity|]. destruct l as [|e l]; [reflexivity|].
  inversion H as [|? ? He Hl]; subst. cbn [junc_walk]. destruct (estep e); try congruence; apply IH; exact Hl.
Qed.

Lemma jw_push : forall own fuel st k,
  Forall (fun e => estep e = SNew \/ estep e = SNewIrr) own ->
  (forall fuel', junc_walk fuel' (rev (map eblk own) ++ st) k = true) ->
  junc_walk fuel st (own ++ k) = true.
Proof.
  induction own as [|e own IH]; intros fuel st k Ho Hk; [apply Hk|].
  inversion Ho as [|? ? He Ho']; subst. destruct fuel as [|f]; [reflexivity|]. cbn [app junc_walk].
  assert (Hrec : junc_walk f (eblk e :: st) (own ++ k) = true).
  { apply IH; [exact Ho'|]. intros fuel'. specialize (Hk fuel'). cbn [map rev] in Hk. rewrite <- app_assoc in Hk. exact Hk. }
  destruct He as [-> | ->]; exact Hrec.
Qed.

Lemma pop_n_app (a b : list block) : pop_n (length a) (a ++ b) = b.
Proof. induction a as [|x a IH]; [reflexivity|]. cbn [length app pop_n]. exact IH. Qed.

Lemma pop_n_short : forall n (st : list block), (length st <= n)%nat -> pop_n n st = [].
Proof.
  induction n as [|n IH]; intros st H; [destruct st; [reflexivity | cbn in H; lia]|].
  destruct st as [|x st]; [reflexivity|]. cbn [pop_n]. apply IH. cbn in H. lia.
Qed.

Lemma jw_undos us rest jr st fuel :
  us <> [] -> Forall (fun e => estep e = SUndo /\ ejunc e = Some jr) us -> Forall (fun e => estep e <> SUndo) rest ->
  match pop_n (length us) st with top :: _ => jr = bref top | [] => True end ->
  junc_walk fuel st (us ++ rest) = true.
Proof.
  intros Hne HU Hr Hpop. destruct fuel as [|f]; [reflexivity|]. destruct us as [|u us]; [congruence|].
  pose proof (Forall_inv HU) as [Hu _]. cbn [app junc_walk]. rewrite Hu.
  change (u :: us ++ rest) with ((u :: us) ++ rest).
  rewrite split_undos_app; [|eapply Forall_impl; [|exact HU]; cbn beta; tauto | destruct Hr; [exact I | assumption]].
  apply andb_true_iff. split; [|apply jw_no_undo; exact Hr].
  apply forallb_forall. intros x Hx. rewrite Forall_forall in HU. destruct (HU x Hx) as [_ ->].
  destruct (pop_n (length (u :: us)) st) as [|top ?]; [reflexivity|]. rewrite Hpop. apply ref_eqb_refl.
Qed.

(* ================================================================== segments *)

Lemma good_same_num sg x y : good_seg sg -> In x sg -> In y sg -> snum x = snum y -> x = y.
Proof.
  intros G Hx Hy E. apply in_split in Hx as (A & B & ->).
  destruct (Proofs.C09_Proofs.StronglySorted_split seg_lt A x B (gs_inc _ G)) as [HA HB].
  pose proof (gs_std _ G) as Hstd. rewrite Forall_forall in Hstd.
  assert (Hxs : seg_std x) by (apply Hstd; apply in_or_app; right; left; reflexivity).
  assert (Hys : seg_std y) by (apply Hstd; exact Hy).
  apply in_app_iff in Hy as [Hy|[Hy|Hy]]; [|exact Hy|].
  - pose proof (snum_lt_of y x Hys Hxs (HA y Hy)). lia.
  - pose proof (snum_lt_of x y Hxs Hys (HB y Hy)). lia.
Qed.

Lemma std_bref x : seg_std x -> bref (seg_blk x) = mkR (sid x) (snum x).
Proof. intros [H1 H2]. unfold bref. rewrite H1, H2. reflexivity. Qed.

(* the element recorded under the id and number of reference L anchors L on the segment *)
Lemma anchor sg L xl : good_seg sg -> In xl sg -> sid xl = ri L -> snum xl = rn L ->
  bref (seg_blk xl) = L /\ forall x, In x sg -> bnum (seg_blk x) = rn L -> bref (seg_blk x) = L.
Proof.
  intros G Hxl Hi Hn. pose proof (gs_std _ G) as Hstd. rewrite Forall_forall in Hstd.
  assert (E : bref (seg_blk xl) = L) by (rewrite (std_bref xl (Hstd xl Hxl)), Hi, Hn; destruct L; reflexivity).
  split; [exact E|]. intros x Hx Hb. replace x with xl; [exact E|].
  apply (good_same_num sg); auto. destruct (Hstd x Hx) as [_ Hx2]. lia.
Qed.

Lemma good_seg_sorted_blk sg (f : seg -> event) : good_seg sg -> (forall x, eblk (f x) = seg_blk x) ->
  forall p, StronglySorted blt_ev (map f (filter p sg)).
Proof.
  intros G Hf p. apply (ss_map seg_lt); [|apply ss_filter; exact (gs_inc _ G)].
  intros a b _ _ H. unfold blt_ev. rewrite !Hf. exact H.
Qed.

Lemma ss_suffix {A} (R : A -> A -> Prop) l1 l2 : StronglySorted R (l1 ++ l2) -> StronglySorted R l2.
Proof. intros H. apply (ss_app_inv R l1 l2 H). Qed.

(* ================================================================== the events, one by one *)

Lemma snap_capped s hd x : seg_std x ->
  (bnum (seg_blk x) = rn (libref (db s)) -> bref (seg_blk x) = libref (db s)) ->
  capped_by (libref (db s)) (snap_event s hd x) /\ estep (snap_event s hd x) <> SIrr /\
  ehead (snap_event s hd x) = bref hd /\ estep (snap_event s hd x) <> SUndo.
Proof.
  intros _ Ha. unfold capped_by, snap_event. cbn [ecblk eblk ejunc estep elib ehead].
  split; [split; [reflexivity|]; split; [reflexivity|]|].
  - destruct (bnum (seg_blk x) <=? rn (libref (db s))) eqn:E1.
    + apply N.leb_le in E1. right. split; [auto|]. split; [|exact E1].
      destruct (bnum (seg_blk x) <? rn (libref (db s))) eqn:E2; [reflexivity|]. apply N.ltb_ge in E2. symmetry. apply Ha. lia.
    + apply N.leb_gt in E1. left. split; [reflexivity|].
      replace (bnum (seg_blk x) <? rn (libref (db s))) with false by (symmetry; apply N.ltb_ge; lia). auto.
  - destruct (bnum (seg_blk x) <=? rn (libref (db s))); repeat split; discriminate.
Qed.

Lemma fast_capped s hd c x : seg_std x -> fast_keep s c x = true ->
  capped_by (libref (db s)) (fast_event s hd c x) /\ rn (cu_lib c) < bnum (eblk (fast_event s hd c x)) /\
  ehead (fast_event s hd c x) = bref hd /\ estep (fast_event s hd c x) <> SUndo.
Proof.
  intros [_ Hn] Hk. unfold fast_keep, above_clib in Hk. apply andb_true_iff in Hk as [Hk1 _]. apply N.ltb_lt in Hk1.
  unfold capped_by, fast_event, fast_step, final_now. cbn [ecblk eblk ejunc estep elib ehead]. rewrite Hn in *.
  split; [split; [reflexivity|]; split; [reflexivity|]|].
  - destruct (bnum (seg_blk x) <=? rn (libref (db s))) eqn:E1.
    + apply N.leb_le in E1. right. split; [|auto]. destruct (not_held c x); auto.
    + apply N.leb_gt in E1. left. auto.
  - split; [exact Hk1|]. split; [reflexivity|].
    destruct (bnum (seg_blk x) <=? rn (libref (db s))); [destruct (not_held c x)|]; discriminate.
Qed.

Lemma through_capped hd c x :
  (bnum (seg_blk x) = rn (cu_lib c) -> bref (seg_blk x) = cu_lib c) ->
  capped_by (cu_lib c) (through_event hd c x) /\ ehead (through_event hd c x) = bref hd /\
  (estep (through_event hd c x) = SNew \/ estep (through_event hd c x) = SNewIrr).
Proof.
  intros Ha. unfold capped_by, through_event. cbn [ecblk eblk ejunc estep elib ehead].
  split; [split; [reflexivity|]; split; [reflexivity|]|].
  - destruct (bnum (seg_blk x) <=? rn (cu_lib c)) eqn:E1.
    + apply N.leb_le in E1. right. split; [auto|]. split; [|exact E1].
      destruct (bnum (seg_blk x) <? rn (cu_lib c)) eqn:E2; [reflexivity|]. apply N.ltb_ge in E2. symmetry. apply Ha. lia.
    + apply N.leb_gt in E1. left. split; [reflexivity|].
      replace (bnum (seg_blk x) <? rn (cu_lib c)) with false by (symmetry; apply N.ltb_ge; lia). auto.
  - split; [reflexivity|]. destruct (bnum (seg_blk x) <=? rn (cu_lib c)); auto.
Qed.

Lemma undo_event_of hd c jr u : undo_of c jr (Spec.C05_Spec.undo_event hd c jr u) /\ ehead (Spec.C05_Spec.undo_event hd c jr u) = bref hd.
Proof. unfold undo_of, Spec.C05_Spec.undo_event. cbn. auto. Qed.

(* ================================================================== snapshots: a suffix of the head's chain *)

Section State.
  Variables (s : fstate) (hd : block) (sg : list seg).
  Hypothesis W : wf_state s.
  Hypothesis HC : head_chain s hd sg.
  Hypothesis HA : lib_anchored s sg.

  Let G : good_seg sg := proj1 (head_chain_good s hd sg W HC).
  Let Hstored : seg_stored (db s) sg := proj1 (proj2 (head_chain_good s hd sg W HC)).
  Let libr := libref (db s).

  Lemma std_in x : In x sg -> seg_std x.
  Proof. intros Hx. pose proof (gs_std _ G) as H. rewrite Forall_forall in H. apply H. exact Hx. Qed.

  Lemma lib_anchor : exists xl, In xl sg /\ snum xl = rn libr /\ bref (seg_blk xl) = libr /\
    forall x, In x sg -> bnum (seg_blk x) = rn libr -> bref (seg_blk x) = libr.
  Proof.
    destruct HA as (xl & Hxl & Hi & Hn). destruct (anchor sg libr xl G Hxl Hi Hn) as [E1 E2].
    exists xl. auto.
  Qed.

  Lemma snap_run lo kept : sg = lo ++ kept ->
    let evs := map (snap_event s hd) kept in
    heads hd evs /\ Forall (fun e => capped_by libr e /\ estep e <> SIrr) evs /\
    Forall (fun e => estep e <> SUndo) evs /\
    cursors_ok (Some (bref hd)) None 0 evs = true.
  Proof.
    intros Esg evs. destruct lib_anchor as (xl & Hxl & Hxn & Exl & Hanc).
    assert (Hk : forall x, In x kept -> In x sg) by (intros x Hx; rewrite Esg; apply in_or_app; right; exact Hx).
    assert (Hev : forall e, In e evs -> exists x, In x kept /\ e = snap_event s hd x).
    { intros e He. apply in_map_iff in He as (x & <- & Hx). eauto. }
    assert (Hall : forall e, In e evs -> capped_by libr e /\ estep e <> SIrr /\ ehead e = bref hd /\ estep e <> SUndo).
    { intros e He. destruct (Hev e He) as (x & Hx & ->). apply snap_capped; [apply std_in; auto|]. apply Hanc. auto. }
    assert (H1 : heads hd evs) by (apply Forall_forall; intros e He; apply (Hall e He)).
    assert (H2 : Forall (fun e => capped_by libr e /\ estep e <> SIrr) evs)
      by (apply Forall_forall; intros e He; destruct (Hall e He) as (A & B & _); auto).
    split; [exact H1|]. split; [exact H2|]. split; [apply Forall_forall; intros e He; apply (Hall e He)|].
    apply (capped_run_ok hd libr); [exact H1 | eapply Forall_impl; [|exact H2]; cbn beta; tauto | | intros; lia | |].
    - apply (ss_map seg_lt); [intros a b _ _ H; exact H|]. pose proof (gs_inc _ G) as HS. rewrite Esg in HS.
      apply (ss_suffix _ _ _ HS).
    - intros e1 e2 He1 _ Hle _. destruct (Hev e1 He1) as (x1 & Hx1 & ->). cbn [snap_event eblk] in Hle.
      exists (snap_event s hd xl). split; [|exact Exl]. apply in_map. rewrite Esg in Hxl.
      apply in_app_iff in Hxl as [Hxl|Hxl]; [exfalso|exact Hxl].
      pose proof (gs_inc _ G) as HS. rewrite Esg in HS. destruct (ss_app_inv _ _ _ HS) as (_ & _ & Hx).
      specialize (Hx xl x1 Hxl Hx1). unfold seg_lt in Hx.
      assert (Hs1 : seg_std xl) by (apply std_in; rewrite Esg; apply in_or_app; left; exact Hxl).
      destruct Hs1 as [_ Hs1]. lia.
    - intros e l _ _. split; [left; reflexivity | lia].
  Qed.

  (* the chain above the cursor LIB, for a cursor whose LIB sits on the chain and is not above the hub LIB *)
  Lemma fast_rest c xc : In xc sg -> sid xc = ri (cu_lib c) -> snum xc = rn (cu_lib c) ->
    rn (cu_lib c) <= rn libr ->
    let rest := from_cursor_fast s hd sg c in
    heads hd rest /\ Forall (fun e => capped_by libr e /\ rn (cu_lib c) < bnum (eblk e)) rest /\
    Forall (fun e => estep e <> SUndo) rest /\
    (forall last p, (last = None \/ last = Some (cu_lib c)) -> p <= rn (cu_lib c) ->
                    cursors_ok (Some (bref hd)) last p rest = true).
  Proof.
    intros Hxc Hci Hcn Hle rest. destruct lib_anchor as (xl & Hxl & Hxn & Exl & Hanc).
    assert (Erest : rest = map (fast_event s hd c) (filter (fast_keep s c) sg))
      by (apply (c05_fast_path_shape_proof s hd sg c G)).
    assert (Hev : forall e, In e rest -> exists x, In x sg /\ fast_keep s c x = true /\ e = fast_event s hd c x).
    { intros e He. rewrite Erest in He. apply in_map_iff in He as (x & <- & Hx). apply filter_In in Hx as [Hx Hk]. eauto. }
    assert (Hall : forall e, In e rest -> capped_by libr e /\ rn (cu_lib c) < bnum (eblk e) /\ ehead e = bref hd /\ estep e <> SUndo).
    { intros e He. destruct (Hev e He) as (x & Hx & Hk & ->). apply fast_capped; [apply std_in; exact Hx | exact Hk]. }
    assert (H1 : heads hd rest) by (apply Forall_forall; intros e He; apply (Hall e He)).
    assert (H2 : Forall (fun e => capped_by libr e /\ rn (cu_lib c) < bnum (eblk e)) rest)
      by (apply Forall_forall; intros e He; destruct (Hall e He) as (A & B & _); auto).
    split; [exact H1|]. split; [exact H2|]. split; [apply Forall_forall; intros e He; apply (Hall e He)|].
    intros last p Hlast Hp.
    assert (Hxlkept : rn (cu_lib c) < rn libr -> In (fast_event s hd c xl) rest).
    { intros Hlt. rewrite Erest. apply in_map. apply filter_In. split; [exact Hxl|].
      unfold fast_keep, above_clib, final_now. fold libr. rewrite Hxn.
      replace (rn (cu_lib c) <? rn libr) with true by (symmetry; apply N.ltb_lt; exact Hlt).
      replace (rn libr <=? rn libr) with true by (symmetry; apply N.leb_refl). reflexivity. }
    apply (capped_run_ok hd libr); [exact H1 | eapply Forall_impl; [|exact H2]; cbn beta; tauto | | | |].
    - rewrite Erest. apply good_seg_sorted_blk; [exact G | reflexivity].
    - intros e He. destruct (Hall e He) as (_ & Hb & _). lia.
    - intros e1 e2 He1 _ Hle1 _. destruct (Hall e1 He1) as (_ & Hb & _).
      exists (fast_event s hd c xl). split; [apply Hxlkept; lia | exact Exl].
    - intros e l Erl Hlt. split; [|lia].
      destruct (N.eq_dec (rn (cu_lib c)) (rn libr)) as [Eq|Ne].
      + assert (xc = xl) by (apply (good_same_num sg); auto; lia). subst xc.
        destruct Hlast as [-> | ->]; [left; reflexivity | right]. f_equal.
        rewrite <- Exl, (std_bref xl (std_in xl Hxl)), Hci, Hcn. destruct (cu_lib c); reflexivity.
      + exfalso. assert (Hin : In (fast_event s hd c xl) rest) by (apply Hxlkept; lia).
        assert (HS : StronglySorted blt_ev rest) by (rewrite Erest; apply good_seg_sorted_blk; [exact G | reflexivity]).
        rewrite Erl in Hin, HS. destruct Hin as [->|Hin].
        * cbn [fast_event eblk] in Hlt. destruct (std_in xl Hxl) as [_ Hs]. lia.
        * inversion HS as [|? ? _ Hfa]; subst. rewrite Forall_forall in Hfa. specialize (Hfa _ Hin). unfold blt_ev in Hfa.
          cbn [fast_event eblk] in Hfa. destruct (std_in xl Hxl) as [_ Hs]. lia.
  Qed.
End State.

(* ================================================================== SourceFromBlockNum *)

Lemma c04_burst_from_num_proof : C04_burst_from_num.
Proof.
  intros s hd sg n evs W HC HA E.
  pose proof (c09_from_num_proof s n W) as Hspec. unfold from_num_spec in Hspec. rewrite E in Hspec.
  destruct Hspec as (hd' & sg' & pre & x & suf & Hserv & Eevs & _).
  destruct Hserv as (_ & Hh' & E' & Esg & _).
  pose proof HC as (Hl & Hh & Eseg). rewrite Hh in Hh'. injection Hh' as <-. rewrite Eseg in E'. injection E' as <-.
  destruct (snap_run s hd sg W HC HA pre (x :: suf) Esg) as (H1 & H2 & H3 & H4).
  rewrite Eevs. split; [exact H1|]. split; [exact H2|]. split; [exact H4|].
  intros fuel st. apply jw_no_undo. exact H3.
Qed.

(* ================================================================== SourceFromCursor: the two shapes *)

Lemma from_cursor_cases s hd sg c evs : wf_state s -> head_chain s hd sg -> blocks_from_cursor s c = BOk evs ->
  block_in (ri (cu_lib c)) sg = true /\
  (block_in (ri (cu_blk c)) sg = true -> evs = from_cursor_fast s hd sg c) /\
  (block_in (ri (cu_blk c)) sg = false ->
     (exists path j, branch_to (db s) sg (ri (cu_blk c)) path j) /\
     forall path j, branch_to (db s) sg (ri (cu_blk c)) path j ->
       exists je, find j (store (db s)) = Some je /\
         evs = map (Spec.C05_Spec.undo_event hd c (mkR j (bnum (eb je)))) (undos_of c path) ++
               from_cursor_fast s hd sg (junction_cursor hd c (mkR j (bnum (eb je))))).
Proof.
  intros W HC E. pose proof HC as (Hl & Hh & Eseg). destruct (head_chain_good s hd sg W HC) as (G & Hst & _).
  pose proof W as [[Wst _] _].
  destruct (c05_no_lib_no_source_proof s c) as (_ & _ & _ & N4 & N5).
  destruct (block_in (ri (cu_lib c)) sg) eqn:Hlin; [|exfalso; exact (N5 hd sg Hh Eseg Hlin evs E)].
  destruct sg as [|s0 rest]; [discriminate Hlin|].
  assert (Hs0 : snum s0 <= rn (cu_lib c)).
  { destruct (N.le_gt_cases (snum s0) (rn (cu_lib c))) as [H|H]; [exact H|]. exfalso.
    rewrite (N4 hd s0 rest Hh Eseg H) in E. discriminate. }
  rewrite (blocks_from_cursor_eq s c hd s0 rest Hl Hh Eseg Hs0) in E.
  split; [reflexivity|].
  destruct (c05_forked_path_proof s hd (s0 :: rest) c Wst Hst) as (Hex & _ & _ & _ & Hburst).
  split.
  - intros Hbin. destruct (c05_fast_path_shape_proof s hd (s0 :: rest) c G) as (_ & _ & Hf).
    change (fuel_of (db s)) with (S (S (length (store (db s))))) in E. rewrite (Hf _ Hbin Hlin) in E.
    injection E as <-. reflexivity.
  - intros Hbout. destruct (Hburst Hlin Hbout) as [Hok Herr]. split.
    + destruct Hex as [Hex|Hbr]; [exact Hex|]. rewrite (Herr Hbr) in E. discriminate.
    + intros path j B. destruct (Hok path j B) as (je & Hf & El). exists je. split; [exact Hf|].
      cbv zeta in El. rewrite El in E. injection E as <-. reflexivity.
Qed.

Lemma branch_last d sg id path j : branch_to d sg id path j -> exists pre u, path = pre ++ [u] /\ bparent (seg_blk u) = j.
Proof.
  induction 1 as [id e Hf Hin|id e l j Hf Hin B IH].
  - exists [], (mkSeg id (bnum (eb e)) e). split; reflexivity.
  - destruct IH as (pre & u & -> & Hu). exists (mkSeg id (bnum (eb e)) e :: pre), u. split; [reflexivity | exact Hu].
Qed.

Lemma junction_facts s hd sg id path j je : wf_state s -> head_chain s hd sg ->
  branch_to (db s) sg id path j -> find j (store (db s)) = Some je ->
  exists xj, In xj sg /\ sid xj = j /\ sent xj = je /\ mkR j (bnum (eb je)) = bref (seg_blk xj) /\
    (exists pre u, path = pre ++ [u] /\ bparent (seg_blk u) = bid (seg_blk xj)).
Proof.
  intros W HC B Hf. destruct (head_chain_good s hd sg W HC) as (G & Hst & _).
  pose proof (branch_to_junction _ _ _ _ _ B) as Hj. apply block_in_spec in Hj as (xj & Hxj & Hxi).
  pose proof (Hst xj Hxj) as Hfx. rewrite Hxi, Hf in Hfx. injection Hfx as ->.
  pose proof (gs_std _ G) as Hstd. rewrite Forall_forall in Hstd. pose proof (Hstd xj Hxj) as Hs.
  exists xj. split; [exact Hxj|]. split; [exact Hxi|]. split; [reflexivity|]. split.
  - rewrite (std_bref xj Hs), Hxi. destruct Hs as [_ Hn]. rewrite Hn. reflexivity.
  - destruct (branch_last _ _ _ _ _ B) as (pre & u & E & Hu). exists pre, u. split; [exact E|].
    destruct Hs as [Hi _]. rewrite <- Hi, Hxi. exact Hu.
Qed.

Lemma lib_elem s hd sg c : wf_state s -> head_chain s hd sg -> lib_numbered (db s) c ->
  block_in (ri (cu_lib c)) sg = true -> exists xc, In xc sg /\ sid xc = ri (cu_lib c) /\ snum xc = rn (cu_lib c).
Proof.
  intros W HC HLn Hlin. destruct (head_chain_good s hd sg W HC) as (G & Hst & _).
  apply block_in_spec in Hlin as (xc & Hxc & Hci). exists xc. split; [exact Hxc|]. split; [exact Hci|].
  pose proof (Hst xc Hxc) as Hf. rewrite Hci in Hf. specialize (HLn _ Hf).
  pose proof (gs_std _ G) as Hstd. rewrite Forall_forall in Hstd. destruct (Hstd xc Hxc) as [_ Hn]. rewrite Hn. exact HLn.
Qed.

Lemma undos_then hd c jr undos rest last p :
  heads hd undos -> Forall (undo_of c jr) undos -> (last = None \/ last = Some (cu_lib c)) -> p <= rn (cu_lib c) ->
  (forall last' p', (last' = None \/ last' = Some (cu_lib c)) -> p' <= rn (cu_lib c) ->
                    cursors_ok (Some (bref hd)) last' p' rest = true) ->
  cursors_ok (Some (bref hd)) last p (undos ++ rest) = true.
Proof.
  intros Hh HU Hl Hp Hrest. destruct (undos_run hd c jr undos last p Hh HU Hl Hp) as [H1 H2].
  rewrite cursors_ok_app, H1. cbn [andb]. destruct undos as [|u undos]; [apply Hrest; assumption|].
  destruct H2 as [-> ->]; [discriminate|]. apply Hrest; [right; reflexivity | lia].
Qed.

Lemma undo_events_facts hd c jr l :
  heads hd (map (Spec.C05_Spec.undo_event hd c jr) l) /\ Forall (undo_of c jr) (map (Spec.C05_Spec.undo_event hd c jr) l) /\
  map eblk (map (Spec.C05_Spec.undo_event hd c jr) l) = map seg_blk l.
Proof.
  split; [|split].
  - apply Forall_forall. intros e He. apply in_map_iff in He as (u & <- & _). apply undo_event_of.
  - apply Forall_forall. intros e He. apply in_map_iff in He as (u & <- & _). apply undo_event_of.
  - rewrite map_map. reflexivity.
Qed.

Lemma undo_of_junc c jr l : Forall (undo_of c jr) l -> Forall (fun e => estep e = SUndo /\ ejunc e = Some jr) l.
Proof. intros H. eapply Forall_impl; [|exact H]. cbn beta. intros e (A & _ & _ & B). auto. Qed.

Lemma c04_burst_from_cursor_proof : C04_burst_from_cursor.
Proof.
  intros s hd sg c evs W HC HA HLn Hle E.
  destruct (from_cursor_cases s hd sg c evs W HC E) as (Hlin & Hfast & Hfork).
  destruct (lib_elem s hd sg c W HC HLn Hlin) as (xc & Hxc & Hci & Hcn).
  destruct (block_in (ri (cu_blk c)) sg) eqn:Hbin.
  - (* the cursor block is on the chain: no undo *)
    rewrite (Hfast eq_refl). destruct (fast_rest s hd sg W HC HA c xc Hxc Hci Hcn Hle) as (R1 & R2 & R3 & R4).
    exists [], (from_cursor_fast s hd sg c), ref_empty. cbn [app].
    split; [reflexivity|]. split; [exact R1|]. split; [constructor|]. split; [left; reflexivity|]. split; [exact R2|].
    split; [apply R4; [right; reflexivity | lia]|]. split; [apply R4; [right; reflexivity | lia]|].
    intros fuel below _. apply jw_no_undo. exact R3.
  - destruct (Hfork eq_refl) as ((path & j & B) & Hall). destruct (Hall path j B) as (je & Hf & ->).
    set (jr := mkR j (bnum (eb je))). set (jc := junction_cursor hd c jr).
    destruct (fast_rest s hd sg W HC HA jc xc Hxc Hci Hcn Hle) as (R1 & R2 & R3 & R4).
    destruct (undo_events_facts hd c jr (undos_of c path)) as (U1 & U2 & U3).
    destruct (junction_facts s hd sg _ path j je W HC B Hf) as (xj & Hxj & Hxi & _ & Ejr & Hlast).
    exists (map (Spec.C05_Spec.undo_event hd c jr) (undos_of c path)), (from_cursor_fast s hd sg jc), jr.
    split; [reflexivity|]. split; [apply Forall_app; split; assumption|]. split; [exact U2|].
    split; [right; exists path, j, xj; auto 8|]. split; [exact R2|].
    split; [apply (undos_then hd c jr); auto; lia|]. split; [apply (undos_then hd c jr); auto; lia|].
    intros fuel below Hbelow.
    destruct (undos_of c path) as [|u0 us] eqn:EU; [cbn [map app]; apply jw_no_undo; exact R3|].
    rewrite <- EU in *. apply (jw_undos _ _ jr); [rewrite EU; discriminate | apply (undo_of_junc c); exact U2 | exact R3|].
    rewrite <- (map_length eblk), pop_n_app. destruct below; [exact I | symmetry; exact Hbelow].
Qed.

(* ================================================================== the junction and the consumer of c05_resume_partial *)

Lemma fast_no_undo s hd sg c : good_seg sg -> Forall (fun e => estep e <> SUndo) (from_cursor_fast s hd sg c).
Proof.
  intros G. destruct (c05_fast_path_shape_proof s hd sg c G) as (-> & _). apply Forall_forall. intros e He.
  apply in_map_iff in He as (x & <- & _). unfold fast_event, fast_step. cbn [estep].
  destruct (final_now s x); [destruct (not_held c x)|]; discriminate.
Qed.

Lemma good_split_nums sg A x B : good_seg sg -> sg = A ++ x :: B ->
  (forall y, In y A -> snum y < snum x) /\ (forall y, In y B -> snum x < snum y).
Proof.
  intros G ->. destruct (Proofs.C09_Proofs.StronglySorted_split seg_lt A x B (gs_inc _ G)) as [HA HB].
  pose proof (gs_std _ G) as Hstd. rewrite Forall_forall in Hstd.
  assert (Hx : seg_std x) by (apply Hstd; apply in_or_app; right; left; reflexivity).
  split; intros y Hy.
  - apply snum_lt_of; [apply Hstd; apply in_or_app; left; exact Hy | exact Hx | apply HA; exact Hy].
  - apply snum_lt_of; [exact Hx | apply Hstd; apply in_or_app; right; right; exact Hy | apply HB; exact Hy].
Qed.

(* what the consumer holds of the chain above the cursor LIB ends with the junction *)
Lemma held_last sg lo xj hi jc : good_seg sg -> sg = lo ++ xj :: hi ->
  rn (cu_blk jc) = snum xj -> is_undo jc = false ->
  held_seg jc sg = [] \/ exists A, held_seg jc sg = A ++ [xj].
Proof.
  intros G Esg Hn Hu. destruct (good_split_nums sg lo xj hi G Esg) as [Hlo Hhi]. rewrite Esg. unfold held_seg.
  rewrite filter_app. cbn [filter].
  assert (Ehi : filter (fun x => above_clib jc x && negb (not_held jc x)) hi = []).
  { apply filter_none. intros y Hy. specialize (Hhi y Hy). unfold not_held. rewrite Hn.
    replace (snum xj <? snum y) with true by (symmetry; apply N.ltb_lt; exact Hhi). cbn [orb negb]. apply andb_false_r. }
  rewrite Ehi.
  assert (Exj : negb (not_held jc xj) = true).
  { unfold not_held. rewrite Hn, Hu, N.ltb_irrefl. reflexivity. }
  rewrite Exj, andb_true_r. destruct (above_clib jc xj) eqn:Eab.
  - right. eexists. reflexivity.
  - left. rewrite app_nil_r. apply filter_none. intros y Hy. specialize (Hlo y Hy).
    destruct (above_clib jc y) eqn:Ey; [|reflexivity]. rewrite (above_mono jc y xj Hlo Ey) in Eab. discriminate.
Qed.

Lemma c04_burst_junction_consumer_proof : C04_burst_junction_consumer.
Proof.
  intros s hd sg c path j je P evs W HC Hbout B Hf jc HP E fuel.
  destruct (from_cursor_cases s hd sg c evs W HC E) as (_ & _ & Hfork).
  destruct (Hfork Hbout) as (_ & Hall). destruct (Hall path j B) as (je' & Hf' & ->).
  rewrite Hf in Hf'. injection Hf' as <-. fold jc.
  destruct (head_chain_good s hd sg W HC) as (G & Hst & _).
  set (jr := mkR j (bnum (eb je))) in *.
  destruct (undo_events_facts hd c jr (undos_of c path)) as (U1 & U2 & U3).
  destruct (junction_facts s hd sg _ path j je W HC B Hf) as (xj & Hxj & Hxi & Hsent & Ejr & _).
  fold jr in Ejr.
  pose proof (fast_no_undo s hd sg jc G) as R3.
  destruct (undos_of c path) as [|u0 us] eqn:EU; [cbn [map app]; apply jw_no_undo; exact R3|].
  rewrite <- EU in *.
  assert (Estack : rev (P ++ map seg_blk (held_seg jc sg) ++ map seg_blk (rev (undos_of c path))) =
                   map eblk (map (Spec.C05_Spec.undo_event hd c jr) (undos_of c path)) ++
                   rev (map seg_blk (held_seg jc sg)) ++ rev P).
  { rewrite U3, !rev_app_distr, map_rev, rev_involutive, app_assoc. reflexivity. }
  rewrite Estack. apply (jw_undos _ _ jr); [rewrite EU; discriminate | apply (undo_of_junc c); exact U2 | exact R3|].
  rewrite <- (map_length eblk), pop_n_app.
  apply in_split in Hxj as (lo & hi & Esg).
  assert (Hn : rn (cu_blk jc) = snum xj).
  { unfold jc, junction_cursor. cbn [cu_blk]. rewrite Ejr. cbn [bref rn]. pose proof (gs_std _ G) as Hstd. rewrite Forall_forall in Hstd.
    destruct (Hstd xj) as [_ Hs]; [rewrite Esg; apply in_or_app; right; left; reflexivity|]. rewrite Hs. reflexivity. }
  destruct (held_last sg lo xj hi jc G Esg Hn eq_refl) as [Eh|(A & Eh)].
  - rewrite Eh. cbn [map rev app]. destruct (HP Eh) as [->|(P' & ->)]; [exact I|].
    rewrite rev_app_distr. cbn [rev app]. unfold jr, bref. f_equal. symmetry. exact (find_key _ _ _ Hf).
  - rewrite Eh, map_app, rev_app_distr. cbn [map rev app]. exact Ejr.
Qed.

(* ================================================================== SourceThroughCursor *)

Lemma filter_rev' {A} (f : A -> bool) l : filter f (rev l) = rev (filter f l).
Proof.
  induction l as [|x l IH]; [reflexivity|]. cbn [rev filter]. rewrite filter_app, IH. cbn [filter].
  destruct (f x); [reflexivity | apply app_nil_r].
Qed.

Lemma filter_len {A} (f : A -> bool) l : (length (filter f l) <= length l)%nat.
Proof. induction l as [|x l IH]; [apply le_n|]. cbn [filter]. destruct (f x); cbn [length]; lia. Qed.

(* the cursor's own branch from `start`, as blocks: when start is at or below the junction it ends with the junction and
   the branch that is then undone; otherwise it is part of that branch *)
Lemma own_blocks start c lo xj path :
  (forall y, In y lo -> snum y < snum xj) ->
  (forall y, In y path -> bnum (seg_blk xj) < bnum (seg_blk y)) ->
  seg_std xj -> sid xj <> ri (cu_blk c) ->
  let own := filter (through_keep start c) (lo ++ xj :: rev path) in
  (start <= bnum (seg_blk xj) -> own = filter (through_keep start c) lo ++ xj :: rev (undos_of c path)) /\
  (bnum (seg_blk xj) < start -> (forall y, In y lo -> seg_std y) -> (length own <= length (undos_of c path))%nat).
Proof.
  intros Hlo Hpath Hxs Hne own.
  assert (Ekeep : forall y, through_keep start c y = from_start start y && negb (already c y)).
  { intros y. unfold through_keep, already. rewrite is_undo_already, (andb_comm (step_eqb _ _)). reflexivity. }
  assert (Erp : filter (through_keep start c) (rev path) = filter (from_start start) (rev (undos_of c path))).
  { unfold undos_of. rewrite <- filter_rev', <- filter_and. apply filter_ext. intros y. rewrite Ekeep. apply andb_comm. }
  unfold own. rewrite filter_app. cbn [filter]. rewrite Erp. split.
  - intros Hle.
    assert (Ex : through_keep start c xj = true).
    { unfold through_keep, from_start. replace (start <=? bnum (seg_blk xj)) with true by (symmetry; apply N.leb_le; exact Hle).
      replace (sid xj =? ri (cu_blk c)) with false by (symmetry; apply N.eqb_neq; exact Hne). rewrite andb_false_r. reflexivity. }
    rewrite Ex. f_equal. f_equal. apply filter_all. intros y Hy. apply in_rev in Hy.
    unfold undos_of in Hy. apply filter_In in Hy as [Hy _]. specialize (Hpath y Hy). unfold from_start. apply N.leb_le. lia.
  - intros Hlt Hstd.
    assert (Ex : through_keep start c xj = false).
    { unfold through_keep, from_start. replace (start <=? bnum (seg_blk xj)) with false by (symmetry; apply N.leb_gt; exact Hlt). reflexivity. }
    rewrite Ex. rewrite (filter_none _ lo); [|].
    + cbn [app]. etransitivity; [apply filter_len|]. rewrite rev_length. apply le_n.
    + intros y Hy. unfold through_keep, from_start. destruct Hxs as [_ Hxn]. destruct (Hstd y Hy) as [_ Hyn]. specialize (Hlo y Hy).
      replace (start <=? bnum (seg_blk y)) with false by (symmetry; apply N.leb_gt; lia). reflexivity.
Qed.

Lemma c04_burst_through_proof : C04_burst_through.
Proof.
  intros s hd sg start c evs W HC HA Hhyps E.
  destruct (c05_hub_through_proof s start c) as (T1 & _ & T3).
  destruct (N.lt_ge_cases (rn (cu_blk c)) start) as [Hlt|Hge].
  { (* the cursor block is below start: a plain snapshot *)
    rewrite (T1 Hlt) in E. destruct (c04_burst_from_num_proof s hd sg start evs W HC HA E) as (H1 & H2 & H3 & H4).
    exists [], [], evs, ref_empty. cbn [app]. split; [reflexivity|]. split; [exact H1|]. split; [constructor|].
    split; [constructor|]. split; [left; reflexivity|]. split; [eapply Forall_impl; [|exact H2]; cbn beta; tauto|].
    split; [congruence|]. split; [exact H3|]. intros fuel. apply H4. }
  rewrite (T3 Hge) in E.
  pose proof HC as (Hl & Hh & Eseg). destruct (head_chain_good s hd sg W HC) as (G & Hst & _).
  assert (Hsw : starts_within sg start).
  { destruct (c05_through_no_source_proof s start c) as (_ & _ & N3 & N4 & _). destruct sg as [|s0 r].
    - exfalso. rewrite (N3 hd Hh Eseg) in E. discriminate.
    - cbn [starts_within]. destruct (N.le_gt_cases (bnum (seg_blk s0)) start) as [H|H]; [exact H|]. exfalso.
      pose proof (gs_std _ G) as Hstd. apply Forall_inv in Hstd. destruct Hstd as [_ Hn].
      rewrite (N4 hd s0 r Hh Eseg) in E; [discriminate | lia]. }
  destruct (block_in (ri (cu_blk c)) sg) eqn:Hbin.
  { (* the cursor block is on the chain: the snapshot from start *)
    destruct (c05_through_on_chain_proof s hd sg start c W HC Hbin Hsw) as (Eb & (lo & Esg & _) & _).
    cbv zeta in Eb. rewrite Eb in E. injection E as <-.
    destruct (snap_run s hd sg W HC HA lo _ Esg) as (H1 & H2 & H3 & H4).
    exists [], [], (map (snap_event s hd) (filter (from_start start) sg)), ref_empty. cbn [app].
    split; [reflexivity|]. split; [exact H1|]. split; [constructor|].
    split; [constructor|]. split; [left; reflexivity|]. split; [eapply Forall_impl; [|exact H2]; cbn beta; tauto|].
    split; [congruence|]. split; [exact H4|]. intros fuel. apply jw_no_undo. exact H3. }
  (* the cursor block is off the chain *)
  destruct (Hhyps eq_refl Hge) as (HLn & Hle & Hnum & Hjl).
  destruct (c05_through_forked_proof s hd sg start c W HC Hsw Hbin Hnum)
    as (csg & reach & Ec & Gc & Stc & _ & _ & _ & Z1 & Z2 & Z3 & _ & Hmain).
  assert (Hcsg : exists c0 crest, csg = c0 :: crest).
  { destruct csg as [|c0 crest]; [rewrite (Z1 eq_refl) in E; discriminate | eauto]. }
  destruct Hcsg as (c0 & crest & Ecsg).
  destruct reach; [|rewrite (Z2 eq_refl) in E; discriminate].
  destruct (N.le_gt_cases (bnum (seg_blk c0)) start) as [Hc0|Hc0]; [|rewrite (Z3 c0 crest Ecsg Hc0) in E; discriminate].
  destruct (Hmain eq_refl c0 crest Ecsg Hc0 Hge) as (Eb & _ & _). cbv zeta in Eb. rewrite Eb in E.
  destruct (blocks_from_cursor s c) as [evs'| | |] eqn:Efc; try discriminate. injection E as <-.
  destruct (from_cursor_cases s hd sg c evs' W HC Efc) as (Hlin & _ & Hfork).
  destruct (Hfork Hbin) as ((path & j & B) & Hall). destruct (Hall path j B) as (je & Hf & ->).
  set (jr := mkR j (bnum (eb je))). set (jc := junction_cursor hd c jr).
  destruct (lib_elem s hd sg c W HC HLn Hlin) as (xc & Hxc & Hci & Hcn).
  destruct (fast_rest s hd sg W HC HA jc xc Hxc Hci Hcn Hle) as (R1 & R2 & R3 & R4).
  destruct (undo_events_facts hd c jr (undos_of c path)) as (U1 & U2 & U3).
  destruct (through_forked_structure s hd sg c csg true path j W HC Hnum Ec B) as (lo & xj & hi & Esg & Hxi & Hfj & Ecs).
  rewrite Hf in Hfj. injection Hfj as Eje.
  pose proof (gs_std _ G) as Hstd. rewrite Forall_forall in Hstd.
  assert (Hxj : In xj sg) by (rewrite Esg; apply in_or_app; right; left; reflexivity).
  pose proof (Hstd xj Hxj) as Hxjs.
  assert (Ejr : jr = bref (seg_blk xj)).
  { unfold jr. rewrite (std_bref xj Hxjs), Hxi, Eje. destruct Hxjs as [_ ->]. reflexivity. }
  destruct (good_split_nums sg lo xj hi G Esg) as [Hlo Hhi].
  assert (Hjn : rn (cu_lib c) <= snum xj).
  { specialize (Hjl path j je B Hf). rewrite Eje in Hjl. destruct Hxjs as [_ ->]. exact Hjl. }
  (* the cursor LIB block is on the cursor's own segment *)
  assert (Hxc_lo : In xc (lo ++ [xj])).
  { rewrite Esg in Hxc. apply in_app_iff in Hxc as [Hxc|[Hxc|Hxc]];
      [apply in_or_app; left; exact Hxc | apply in_or_app; right; left; exact Hxc|].
    specialize (Hhi xc Hxc). lia. }
  assert (Hxc_csg : In xc csg).
  { rewrite Ecs. apply in_app_iff in Hxc_lo as [H|[H|[]]]; apply in_or_app; [left; exact H | right; left; exact H]. }
  destruct (anchor csg (cu_lib c) xc Gc Hxc_csg Hci Hcn) as [Exc Hanc].
  assert (Hoff : forall x, In x sg -> sid x <> ri (cu_blk c)).
  { intros x Hx Hs. assert (block_in (ri (cu_blk c)) sg = true) by (apply block_in_spec; eauto). congruence. }
  set (kept := filter (through_keep start c) csg).
  set (own := map (through_event hd c) kept).
  assert (Hown : forall e, In e own -> exists x, In x csg /\ through_keep start c x = true /\ e = through_event hd c x).
  { intros e He. apply in_map_iff in He as (x & <- & Hx). apply filter_In in Hx as [Hx Hk]. eauto. }
  assert (Hoall : forall e, In e own -> capped_by (cu_lib c) e /\ ehead e = bref hd /\ (estep e = SNew \/ estep e = SNewIrr)).
  { intros e He. destruct (Hown e He) as (x & Hx & _ & ->). apply through_capped. apply Hanc. exact Hx. }
  assert (O1 : heads hd own) by (apply Forall_forall; intros e He; apply (Hoall e He)).
  assert (O2 : Forall (capped_by (cu_lib c)) own) by (apply Forall_forall; intros e He; apply (Hoall e He)).
  assert (O3 : Forall (fun e => estep e = SNew \/ estep e = SNewIrr) own) by (apply Forall_forall; intros e He; apply (Hoall e He)).
  assert (OS : StronglySorted blt_ev own) by (apply good_seg_sorted_blk; [exact Gc | reflexivity]).
  (* when a block at or below the cursor LIB is delivered, the cursor LIB block is *)
  assert (Hxc_own : forall e, In e own -> bnum (eblk e) <= rn (cu_lib c) -> In (through_event hd c xc) own).
  { intros e He Hb. destruct (Hown e He) as (x & Hx & Hk & ->). cbn [through_event eblk] in Hb.
    apply in_map. apply filter_In. split; [exact Hxc_csg|]. unfold through_keep in *. apply andb_true_iff in Hk as [Hk _].
    unfold from_start in *. apply N.leb_le in Hk.
    pose proof (gs_std _ Gc) as Hstdc. rewrite Forall_forall in Hstdc. destruct (Hstdc xc Hxc_csg) as [_ Hxcn].
    replace (start <=? bnum (seg_blk xc)) with true by (symmetry; apply N.leb_le; lia).
    replace (sid xc =? ri (cu_blk c)) with false by (symmetry; apply N.eqb_neq; apply Hoff; exact Hxc).
    rewrite andb_false_r. reflexivity. }
  assert (Ook : cursors_ok (Some (bref hd)) None 0 own = true).
  { apply (capped_run_ok hd (cu_lib c)); [exact O1 | exact O2 | exact OS | intros; lia | |].
    - intros e1 e2 He1 _ Hb _. exists (through_event hd c xc). split; [apply (Hxc_own e1 He1 Hb) | exact Exc].
    - intros e l _ _. split; [left; reflexivity | lia]. }
  assert (Oexit : own = [] \/ (ck_last None own = Some (cu_lib c) /\ ck_lib 0 own = rn (cu_lib c))).
  { destruct own as [|e0 own'] eqn:Eown; [left; reflexivity|]. right. rewrite <- Eown in *.
    apply (capped_run_exit (cu_lib c)); [exact O2 | exact OS|].
    assert (He0 : In e0 own) by (rewrite Eown; left; reflexivity).
    destruct (N.le_gt_cases (bnum (eblk e0)) (rn (cu_lib c))) as [Hb|Hb].
    - exists (through_event hd c xc). split; [apply (Hxc_own e0 He0 Hb) | right; exact Exc].
    - exists e0. split; [exact He0 | left; exact Hb]. }
  exists own, (map (Spec.C05_Spec.undo_event hd c jr) (undos_of c path)), (from_cursor_fast s hd sg jc), jr.
  split; [reflexivity|].
  split; [apply Forall_app; split; [exact O1|]; apply Forall_app; split; assumption|].
  split; [exact O2|]. split; [exact U2|].
  split.
  { right. exists path, j, xj. split; [exact B|]. split; [exact Hxj|]. split; [exact Hxi|]. split; [exact Ejr|]. split; [|exact U3].
    destruct (branch_last _ _ _ _ _ B) as (pre & u & Ep & Hu). exists pre, u. split; [exact Ep|].
    destruct Hxjs as [Hi _]. rewrite <- Hi, Hxi. exact Hu. }
  split; [eapply Forall_impl; [|exact R2]; cbn beta; tauto|].
  split; [intros _; eapply Forall_impl; [|exact R2]; cbn beta; tauto|].
  split.
  { rewrite cursors_ok_app, Ook. cbn [andb].
    destruct Oexit as [->|[-> ->]].
    - cbn [ck_last ck_lib]. apply (undos_then hd c jr); auto; lia.
    - apply (undos_then hd c jr); auto; lia. }
  (* the junction walk of a consumer that holds nothing *)
  intros fuel. apply jw_push; [exact O3|]. intros fuel'. rewrite app_nil_r.
  destruct (undos_of c path) as [|u0 us] eqn:EU; [cbn [map app]; apply jw_no_undo; exact R3|].
  rewrite <- EU in *. apply (jw_undos _ _ jr); [rewrite EU; discriminate | apply (undo_of_junc c); exact U2 | exact R3|].
  rewrite map_length.
  assert (Eblk : map eblk own = map seg_blk kept) by (unfold own; rewrite map_map; reflexivity).
  rewrite Eblk.
  assert (Hpathnum : forall y, In y path -> bnum (seg_blk xj) < bnum (seg_blk y)).
  { intros y Hy. pose proof (gs_inc _ Gc) as HSc. rewrite Ecs in HSc.
    destruct (Proofs.C09_Proofs.StronglySorted_split seg_lt lo xj (rev path) HSc) as [_ HB]. apply HB. apply in_rev in Hy. exact Hy. }
  destruct (own_blocks start c lo xj path Hlo Hpathnum Hxjs (Hoff xj Hxj)) as [OA OB].
  destruct (N.le_gt_cases start (bnum (seg_blk xj))) as [Hsj|Hsj].
  - unfold kept. rewrite Ecs, (OA Hsj), map_app. cbn [map]. rewrite rev_app_distr. cbn [rev].
    rewrite map_rev, rev_involutive, <- app_assoc. cbn [app].
    rewrite <- (map_length seg_blk (undos_of c path)), pop_n_app. exact Ejr.
  - rewrite pop_n_short; [exact I|]. rewrite rev_length, map_length. unfold kept. rewrite Ecs. apply (OB Hsj).
    intros y Hy. apply Hstd. rewrite Esg. apply in_or_app. left. exact Hy.
Qed.

Lemma c04_burst_cursors_proof : C04_burst_cursors.
Proof.
  split; [exact c04_cursors_ok_sound_proof|]. split; [exact c04_burst_from_num_proof|].
  split; [exact c04_burst_from_cursor_proof|]. split; [exact c04_burst_junction_consumer_proof | exact c04_burst_through_proof].
Qed.

Lemma c04_burst_discipline_proof : C04_burst_discipline.
Proof.
  intros s hd sg W HC HA. split; [|split].
  - intros n evs E. apply c04_cursors_ok_sound_proof. apply (c04_burst_from_num_proof s hd sg n evs W HC HA E).
  - intros c evs HLn Hle E. apply c04_cursors_ok_sound_proof.
    destruct (c04_burst_from_cursor_proof s hd sg c evs W HC HA HLn Hle E) as (u & r & jr & _ & _ & _ & _ & _ & K & _). exact K.
  - intros start c evs Hh E. apply c04_cursors_ok_sound_proof.
    destruct (c04_burst_through_proof s hd sg start c evs W HC HA Hh E) as (o & u & r & jr & _ & _ & _ & _ & _ & _ & _ & K & _). exact K.
Qed.
