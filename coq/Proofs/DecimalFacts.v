From BV Require Import Base.Prelude Base.Decimal Proofs.PreludeFacts.
Local Open Scope N_scope.

Lemma is_digit_mod n : is_digit (48 + n mod 10) = true.
Proof. unfold is_digit. pose proof (N.mod_upper_bound n 10). lia. Qed.

(* pd produces a non-empty block of digits in front of acc whose value is n *)
Lemma pd_spec f : forall n acc, n < 2 ^ N.of_nat (S f) ->
  exists ds, pd (S f) n acc = ds ++ acc /\ ds <> [] /\ forallb is_digit ds = true /\
             forall a, dval_from a ds = a * 10 ^ N.of_nat (length ds) + n.
Proof.
  induction f as [|f IH]; intros n acc Hn.
  - (* n < 2 *)
    assert (Hq : n / 10 = 0) by (apply N.div_small; change (2 ^ N.of_nat 1) with 2 in Hn; lia).
    cbn [pd]. rewrite Hq. cbn [N.eqb].
    exists [48 + n mod 10]. repeat split.
    + discriminate.
    + cbn [forallb]. rewrite is_digit_mod. reflexivity.
    + intros a. cbn [dval_from length]. change (2 ^ N.of_nat 1) with 2 in Hn.
      rewrite N.mod_small by lia. change (10 ^ N.of_nat 1) with 10. lia.
  - cbn [pd]. destruct (n / 10 =? 0) eqn:Hq.
    + apply N.eqb_eq in Hq.
      exists [48 + n mod 10]. repeat split.
      * discriminate.
      * cbn [forallb]. rewrite is_digit_mod. reflexivity.
      * intros a. cbn [dval_from length]. change (10 ^ N.of_nat 1) with 10.
        assert (n < 10) by (apply N.div_small_iff in Hq; lia).
        rewrite N.mod_small by lia. lia.
    + apply N.eqb_neq in Hq.
      assert (Hlt : n / 10 < 2 ^ N.of_nat (S f)).
      { replace (N.of_nat (S (S f))) with (N.succ (N.of_nat (S f))) in Hn by lia.
        rewrite N.pow_succ_r' in Hn.
        apply N.div_lt_upper_bound; lia. }
      destruct (IH (n / 10) ((48 + n mod 10) :: acc) Hlt) as (ds & Heq & Hne & Hall & Hval).
      exists (ds ++ [48 + n mod 10]). repeat split.
      * change (pd (S f) (n / 10) ((48 + n mod 10) :: acc) = (ds ++ [48 + n mod 10]) ++ acc).
        rewrite Heq, <- app_assoc. reflexivity.
      * destruct ds; discriminate.
      * rewrite forallb_app, Hall. cbn [forallb]. rewrite is_digit_mod. reflexivity.
      * intros a.
        assert (Hd : forall a0 l1 l2, dval_from a0 (l1 ++ l2) = dval_from (dval_from a0 l1) l2).
        { intros a0 l1; revert a0; induction l1 as [|c l1 IHl]; intros a0 l2; cbn [dval_from app]; auto. }
        rewrite Hd, Hval. cbn [dval_from]. rewrite app_length. cbn [length].
        replace (N.of_nat (length ds + 1)) with (N.succ (N.of_nat (length ds))) by lia.
        rewrite N.pow_succ_r'.
        pose proof (N.div_mod n 10 ltac:(lia)). lia.
Qed.

Lemma print_dec_spec n :
  exists ds, print_dec n = ds /\ ds <> [] /\ forallb is_digit ds = true /\ dval_from 0 ds = n.
Proof.
  unfold print_dec.
  assert (Hn : n < 2 ^ N.of_nat (S (N.to_nat (N.size n)))).
  { replace (N.of_nat (S (N.to_nat (N.size n)))) with (N.succ (N.size n)) by lia.
    rewrite N.pow_succ_r'. pose proof (N.size_gt n). lia. }
  destruct (pd_spec _ n [] Hn) as (ds & Heq & Hne & Hall & Hval).
  exists ds. rewrite Heq, app_nil_r. repeat split; auto. rewrite Hval. lia.
Qed.

Theorem parse_digits_print n : parse_digits (print_dec n) = Some n.
Proof.
  destruct (print_dec_spec n) as (ds & -> & Hne & Hall & Hval).
  unfold parse_digits. destruct ds as [|c ds]; [congruence|]. rewrite Hall, Hval. reflexivity.
Qed.

Theorem parse_uint_print lim n : n < lim -> parse_uint lim (print_dec n) = Some n.
Proof.
  intros H. unfold parse_uint. rewrite parse_digits_print.
  destruct (N.ltb_spec n lim); [reflexivity | lia].
Qed.

Lemma print_dec_digits n : forallb is_digit (print_dec n) = true /\ print_dec n <> [].
Proof. destruct (print_dec_spec n) as (ds & -> & Hne & Hall & _). auto. Qed.

Lemma print_dec_first_digit n : exists c s, print_dec n = c :: s /\ is_digit c = true.
Proof.
  destruct (print_dec_digits n) as [Hall Hne]. destruct (print_dec n) as [|c s]; [congruence|].
  cbn [forallb] in Hall. apply andb_true_iff in Hall as [Hc _]. eauto.
Qed.

Theorem parse_int_print_nonneg lim n : n < lim -> parse_int lim (print_dec n) = Some (Z.of_N n).
Proof.
  intros H. destruct (print_dec_first_digit n) as (c & s & Heq & Hc).
  unfold parse_int. rewrite Heq.
  assert (c <> 43 /\ c <> 45) as [H43 H45] by (unfold is_digit in Hc; lia).
  destruct c as [|p]; [unfold is_digit in Hc; lia|].
  rewrite <- Heq.
  assert (Hgo : match parse_digits (print_dec n) with
                | Some v => if v <? lim then Some (Z.of_N v) else None | None => None end = Some (Z.of_N n)).
  { rewrite parse_digits_print. destruct (N.ltb_spec n lim); [reflexivity|lia]. }
  do 6 (destruct p as [p|p|]; try exact Hgo); try lia.
Qed.

(* a colon is never a digit: printed numbers contain no separator *)
Lemma print_dec_no_colon n : memN 58 (print_dec n) = false.
Proof.
  destruct (print_dec_digits n) as [Hall _].
  induction (print_dec n) as [|c s IH]; [reflexivity|].
  cbn [forallb] in Hall. apply andb_true_iff in Hall as [Hc Hs].
  cbn [memN]. rewrite (IH Hs). unfold is_digit in Hc.
  destruct (N.eqb_spec 58 c); [lia|reflexivity].
Qed.
