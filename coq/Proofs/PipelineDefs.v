(* Vocabulary of the invariants of Model/Pipeline.v and elementary facts about it. *)
From BV Require Import Base.Prelude Model.FileSeq Model.Pipeline Spec.C10_Spec Proofs.FileSeqFacts.
From Coq Require Import Sorted.
Local Open Scope nat_scope.

(* ---------- shut / term ---------- *)
Lemma term_shut : forall e s, term (shut e s) = true.
Proof. intros e s. unfold shut, term. destruct (s_err s) eqn:E; simpl; [now rewrite E|reflexivity]. Qed.

Lemma term_shut_mono : forall e s, term s = true -> shut e s = s.
Proof. intros e s. unfold shut, term. destruct (s_err s); [reflexivity|discriminate]. Qed.

Lemma shut_x : forall e s, s_x (shut e s) = s_x s.
Proof. intros; unfold shut; destruct (s_err s); reflexivity. Qed.
Lemma shut_l : forall e s, s_l (shut e s) = s_l s.
Proof. intros; unfold shut; destruct (s_err s); reflexivity. Qed.
Lemma shut_sent : forall e s, s_sent (shut e s) = s_sent s.
Proof. intros; unfold shut; destruct (s_err s); reflexivity. Qed.
Lemma shut_fs : forall e s, s_fs (shut e s) = s_fs s.
Proof. intros; unfold shut; destruct (s_err s); reflexivity. Qed.
Lemma shut_fsclosed : forall e s, s_fsclosed (shut e s) = s_fsclosed s.
Proof. intros; unfold shut; destruct (s_err s); reflexivity. Qed.
Lemma shut_file : forall e s, s_file (shut e s) = s_file s.
Proof. intros; unfold shut; destruct (s_err s); reflexivity. Qed.
Lemma shut_m : forall e s, s_m (shut e s) = s_m s.
Proof. intros; unfold shut; destruct (s_err s); reflexivity. Qed.
Lemma shut_taken : forall e s, s_taken (shut e s) = s_taken s.
Proof. intros; unfold shut; destruct (s_err s); reflexivity. Qed.
Lemma shut_last : forall e s, s_last (shut e s) = s_last s.
Proof. intros; unfold shut; destruct (s_err s); reflexivity. Qed.
Lemma shut_calls : forall e s, s_calls (shut e s) = s_calls s.
Proof. intros; unfold shut; destruct (s_err s); reflexivity. Qed.

Lemma shut_err : forall e s, s_err (shut e s) = match s_err s with None => Some e | Some e' => Some e' end.
Proof. intros; unfold shut; destruct (s_err s) eqn:E; simpl; [exact E|reflexivity]. Qed.

Global Hint Rewrite shut_x shut_l shut_sent shut_fs shut_fsclosed shut_file shut_m shut_taken
  shut_last shut_calls term_shut : pl.

Lemma term_set_x : forall x s, term (set_x x s) = term s. Proof. reflexivity. Qed.
Lemma term_set_l : forall x s, term (set_l x s) = term s. Proof. reflexivity. Qed.
Lemma term_set_sent : forall x s, term (set_sent x s) = term s. Proof. reflexivity. Qed.
Lemma term_set_fs : forall x s, term (set_fs x s) = term s. Proof. reflexivity. Qed.
Lemma term_set_fsclosed : forall x s, term (set_fsclosed x s) = term s. Proof. reflexivity. Qed.
Lemma term_upd_file : forall i x s, term (upd_file i x s) = term s. Proof. reflexivity. Qed.
Lemma term_set_m : forall x s, term (set_m x s) = term s. Proof. reflexivity. Qed.
Lemma term_set_taken : forall x s, term (set_taken x s) = term s. Proof. reflexivity. Qed.
Lemma term_set_last : forall x s, term (set_last x s) = term s. Proof. reflexivity. Qed.
Lemma term_set_calls : forall x s, term (set_calls x s) = term s. Proof. reflexivity. Qed.
Global Hint Rewrite term_set_x term_set_l term_set_sent term_set_fs term_set_fsclosed term_upd_file
  term_set_m term_set_taken term_set_last term_set_calls : pl.

Lemma term_false_err : forall s, term s = false -> s_err s = None.
Proof. intros s; unfold term; destruct (s_err s); [discriminate|reflexivity]. Qed.

Lemma term_true_err : forall s, term s = true -> exists e, s_err s = Some e.
Proof. intros s; unfold term; destruct (s_err s) as [e|]; [now exists e|discriminate]. Qed.

(* ---------- list helpers ---------- *)
Lemma skipn_nth_error : forall A (l : list A) k b, nth_error l k = Some b ->
  skipn k l = b :: skipn (S k) l.
Proof.
  induction l as [|a l IH]; intros [|k] b H; simpl in *; try discriminate.
  - now inversion H.
  - now apply IH.
Qed.

Lemma nth_error_nth_blk : forall (l : list blk) k b, nth_error l k = Some b -> nth k l blk0 = b.
Proof. intros l k b H. now apply nth_error_nth. Qed.

Lemma flat_map_seq_S : forall A (f : nat -> list A) n,
  flat_map f (seq 0 (S n)) = flat_map f (seq 0 n) ++ f n.
Proof.
  intros A f n. rewrite seq_S. rewrite flat_map_app. simpl. now rewrite app_nil_r.
Qed.

Lemma flat_map_ext_seq : forall A (f g : nat -> list A) n,
  (forall j, j < n -> f j = g j) -> flat_map f (seq 0 n) = flat_map g (seq 0 n).
Proof.
  intros A f g n H. induction n as [|n IH]; [reflexivity|].
  rewrite !flat_map_seq_S. rewrite IH by (intros; apply H; lia). now rewrite H by lia.
Qed.

Lemma flat_map_seq_prefix : forall A (f : nat -> list A) a b, a <= b ->
  prefix (flat_map f (seq 0 a)) (flat_map f (seq 0 b)).
Proof.
  intros A f a b H. induction H as [|b H IH]; [apply prefix_refl|].
  rewrite flat_map_seq_S. eapply prefix_trans; [exact IH|apply prefix_app_r].
Qed.

Lemma flat_map_seq_nil : forall A (f : nat -> list A) a b,
  (forall j, a <= j -> f j = []) -> a <= b ->
  flat_map f (seq 0 b) = flat_map f (seq 0 a).
Proof.
  intros A f a b Hn H. induction H as [|b H IH]; [reflexivity|].
  rewrite flat_map_seq_S, IH, Hn by lia. now rewrite app_nil_r.
Qed.

Section Defs.
  Variable pre : blk -> N.
  Variable C : cfg.
  Let L := c_lay C.

  Definition len (i : nat) : nat := length (file_of L i).
  Definition pr (b : blk) : pblk := (b, pre b).

  (* the kept blocks of file i from read position k on, each with its preprocessed object *)
  Definition FPfrom (i k : nat) : list pblk := map pr (filter (keep L i) (skipn k (file_of L i))).
  Definition FP (i : nat) : list pblk := FPfrom i 0.
  Definition EPn (n : nat) : list pblk := flat_map FP (seq 0 n).
  Definition EP : list pblk := EPn (nsend L).

  Lemma FP_kept : forall i, FP i = pairs pre (kept L i).
  Proof. intros i. unfold FP, FPfrom, pairs, kept, pr. reflexivity. Qed.

  Lemma EP_candidates : EP = pairs pre (candidates L).
  Proof.
    unfold EP, EPn, candidates, pairs. induction (seq 0 (nsend L)) as [|i l IH]; simpl; [reflexivity|].
    rewrite map_app, <- IH. now rewrite FP_kept.
  Qed.

  Lemma FPfrom_keep : forall i k b, nth_error (file_of L i) k = Some b -> keep L i b = true ->
    FPfrom i k = pv pre C i k :: FPfrom i (S k).
  Proof.
    intros i k b H Hk. unfold FPfrom. rewrite (skipn_nth_error _ _ _ _ H). simpl. rewrite Hk. simpl.
    unfold pv, block_at, pr. fold L. now rewrite (nth_error_nth_blk _ _ _ H).
  Qed.

  Lemma FPfrom_skip : forall i k b, nth_error (file_of L i) k = Some b -> keep L i b = false ->
    FPfrom i k = FPfrom i (S k).
  Proof.
    intros i k b H Hk. unfold FPfrom. rewrite (skipn_nth_error _ _ _ _ H). simpl. now rewrite Hk.
  Qed.

  Lemma FPfrom_end : forall i k, len i <= k -> FPfrom i k = [].
  Proof. intros i k H. unfold FPfrom. now rewrite skipn_all2. Qed.

  Lemma EPn_S : forall n, EPn (S n) = EPn n ++ FP n.
  Proof. intros; apply flat_map_seq_S. Qed.

  Lemma EPn_prefix : forall a b, a <= b -> prefix (EPn a) (EPn b).
  Proof. intros; now apply flat_map_seq_prefix. Qed.

  Definition hand_d (i : nat) (f : fstate) : list pblk :=
    match f_d f with DCell k => [pv pre C i k] | DSend v => [v] | _ => [] end.
  Definition idx (f : fstate) : list nat :=
    match f_d f with DCell k => k :: f_q f | _ => f_q f end.
  Definition hand_m (s : state) : list pblk :=
    match s_m s with MPoll _ v | MCall _ v => [v] | _ => [] end.
  (* number of files run() has left behind *)
  Definition left (s : state) : nat :=
    match s_m s with MSel => s_taken s | MFile i | MPoll i _ | MCall i _ => i | _ => 0 end.
  Definition cell_live (c : cst) : Prop :=
    match c with CRun | CFull _ | CDead => True | _ => False end.
  Definition outs (s : state) (j : nat) : list pblk := f_out (s_file s j).

  (* ---- per-file invariant; tm = term s, sent = s_sent s, taken = s_taken s ---- *)
  Record FInv (tm : bool) (sent taken i : nat) (f : fstate) : Prop := {
    fi_idle : f_r f = RIdle <-> sent <= i;
    fi_open : f_r f = RIdle \/ f_r f = ROpen -> f_d f = DIdle;
    fi_didle : f_d f = DIdle ->
       f_q f = [] /\ f_qclosed f = false /\ f_rk f = 0 /\ (forall k, f_cell f k = CNone) /\
       f_out f = [] /\ f_bclosed f = false /\
       (f_r f = RIdle \/ f_r f = ROpen \/ (f_r f = RDone /\ tm = true));
    fi_rdone : f_r f = RDone -> tm = true \/ f_d f = DDone;
    fi_rwait : f_r f = RWait -> f_qclosed f = true \/ tm = true;
    fi_nofail : f_r f <> RFail;
    fi_qclosed : f_qclosed f = true -> len i <= f_rk f;
    fi_rsend : f_r f = RSend ->
       exists b, nth_error (file_of L i) (f_rk f) = Some b /\ keep L i b = true;
    fi_rk : f_rk f <= len i;
    fi_bclosed : f_d f = DDone <-> f_bclosed f = true;
    fi_qcap : length (f_q f) <= c_threads C;
    fi_cnone : forall k, f_rk f <= k -> f_cell f k = CNone;
    fi_sorted : StronglySorted lt (idx f);
    fi_idx_lt : Forall (fun k => k < f_rk f) (idx f);
    fi_idx_live : Forall (fun k => cell_live (f_cell f k)) (idx f);
    fi_cfull : forall k v, f_cell f k = CFull v -> v = pv pre C i k;
    fi_cdead : forall k, f_cell f k = CDead -> tm = true;
    fi_out0 : taken <= i -> f_out f = [];
    fi_pf : f_d f <> DDone ->
       f_out f ++ hand_d i f ++ map (pv pre C i) (f_q f) ++ FPfrom i (f_rk f) = FP i;
    fi_pfx : prefix (f_out f) (FP i);
    fi_done : f_d f = DDone -> f_out f = FP i \/ tm = true
  }.

  Lemma FInv_term : forall tm sent taken i f, FInv tm sent taken i f -> FInv true sent taken i f.
  Proof. intros tm sent taken i f []; constructor; intros; auto; intuition. Qed.

  Lemma FInv_term' : forall (tm tm' : bool) sent taken i f, (tm = true -> tm' = true) ->
    FInv tm sent taken i f -> FInv tm' sent taken i f.
  Proof.
    intros tm tm' sent taken i f H I. destruct tm.
    - now rewrite (H eq_refl).
    - destruct tm'; [now apply FInv_term in I|exact I].
  Qed.

  (* what run() may have returned with, when it was the first to shut the source down *)
  Definition good (e : errc) (s : state) : Prop :=
    match e with
    | EStop => s_calls s = EP /\ stopped L = true
    | ENonSeq => exists v r, EP = s_calls s ++ v :: r /\
                   lid 0 (map fst (s_calls s)) <> 0%N /\
                   b_par (fst v) <> lid 0 (map fst (s_calls s))
    | EHandler => exists n, c_fault C = FHandler n /\ length (s_calls s) = S n
    | _ => False
    end.

  (* ---- launch reader / fileStream ---- *)
  Record LInv (s : state) : Prop := {
    li_sent : s_sent s <= nfiles L;
    li_nostop : forall j, S j < s_sent s -> stop_after L j = false;
    li_pc : match s_l s with
            | LSel i => s_sent s = i /\ forall j, j < i -> stop_after L j = false
            | LSend i => s_sent s = i /\ i < nfiles L /\ forall j, j < i -> stop_after L j = false
            | LStop => 0 < s_sent s /\ stop_after L (pred (s_sent s)) = true
            | LDone => s_fsclosed s = true
            end;
    li_taken : s_taken s <= s_sent s;
    li_fs : s_fs s = map IFile (seq (s_taken s) (s_sent s - s_taken s)) \/
            (s_fs s = map IFile (seq (s_taken s) (s_sent s - s_taken s)) ++ [IStop] /\
             s_sent s = nsend L /\ stopped L = true /\ s_l s = LDone);
    li_closed : s_fsclosed s = true ->
                term s = true \/ In IStop (s_fs s) \/ s_m s = MRet EStop;
    li_x : s_x s = true -> c_ext C = true
  }.

  (* ---- run() ---- *)
  Record GInv (s : state) : Prop := {
    gi_m : match s_m s with
           | MFile i | MPoll i _ | MCall i _ => s_taken s = S i
           | _ => True end;
    gi_left : forall j, j < left s -> f_bclosed (s_file s j) = true;
    gi_g1 : match s_m s with
            | MRet _ | MDone _ => True
            | _ => s_calls s ++ hand_m s = flat_map (outs s) (seq 0 (s_taken s))
            end;
    gi_nt : term s = false -> forall j, j < left s -> outs s j = FP j;
    gi_mc : forall i v, s_m s = MCall i v -> forall j, j < i -> outs s j = FP j;
    gi_prefix : prefix (s_calls s) EP;
    gi_link : seq_cut 0 (map fst (s_calls s)) = (map fst (s_calls s), false);
    gi_last : s_last s = lid 0 (map fst (s_calls s));
    gi_ret : forall e, s_m s = MRet e -> term s = false -> good e s;
    gi_done : forall e, s_m s = MDone e -> term s = true;
    gi_err : forall e, s_err s = Some e ->
               (e = fclass (c_fault C) /\ c_fault C <> FNone) \/
               (e = ENil /\ c_ext C = true) \/
               (s_m s = MDone e /\ good e s)
  }.

  Record Inv (s : state) : Prop := {
    inv_l : LInv s;
    inv_f : forall i, FInv (term s) (s_sent s) (s_taken s) i (s_file s i);
    inv_g : GInv s
  }.
End Defs.

Global Arguments FPfrom : simpl never.
Global Arguments FP : simpl never.
Global Arguments EPn : simpl never.
Global Arguments EP : simpl never.
