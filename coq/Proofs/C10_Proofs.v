(* Proofs of the C10 statements (Spec/C10_Spec.v) from the invariant (PipelineInv.v) and the
   liveness lemmas (PipelineLive.v). *)
From BV Require Import Base.Prelude Model.FileSeq Model.Pipeline Spec.C10_Spec
  Proofs.FileSeqFacts Proofs.PipelineDefs Proofs.PipelineInv Proofs.PipelineLive.
Local Open Scope nat_scope.

Section Core.
  Variable pre : blk -> N.
  Variable C : cfg.
  Hypothesis Hfix : fixed C.
  Let L := c_lay C.

  Lemma map_fst_pairs : forall l, map fst (pairs pre l) = l.
  Proof. intros l. unfold pairs. rewrite map_map. simpl. apply map_id. Qed.

  (* the handler calls are blocks of the candidate list, each with its own object *)
  Lemma calls_split : forall s, Inv pre C s ->
    exists l2, candidates L = map fst (s_calls s) ++ l2 /\ s_calls s = pairs pre (map fst (s_calls s)).
  Proof.
    intros s I. destruct (gi_prefix _ _ _ (inv_g _ _ _ I)) as [r Hr].
    rewrite EP_candidates in Hr. unfold pairs in Hr. apply map_eq_app in Hr.
    destruct Hr as (l1 & l2 & Hc & H1 & H2). exists l2.
    assert (E : map fst (s_calls s) = l1).
    { rewrite <- H1. rewrite map_map. simpl. apply map_id. }
    rewrite E. split; [exact Hc|]. now rewrite <- H1.
  Qed.

  Lemma safety_core : forall s, Inv pre C s ->
    prefix (s_calls s) (pairs pre (expected_blocks L)).
  Proof.
    intros s I. destruct (calls_split s I) as (l2 & Hc & Hp).
    pose proof (gi_link _ _ _ (inv_g _ _ _ I)) as Hl.
    unfold expected_blocks. rewrite expected_unfold. simpl. fold L. rewrite Hc, Hp.
    apply prefix_map. rewrite map_fst_pairs. now apply seq_cut_keeps_prefix.
  Qed.

  (* run() returned "stop block reached" as the first to shut the source down *)
  Lemma good_stop : forall s, Inv pre C s -> good pre C EStop s ->
    s_calls s = pairs pre (expected_blocks L) /\ expected_outcome L = OStop.
  Proof.
    intros s I [Hc Hst]. pose proof (gi_link _ _ _ (inv_g _ _ _ I)) as Hl.
    rewrite Hc, EP_candidates, map_fst_pairs in Hl.
    unfold expected_blocks, expected_outcome. rewrite expected_unfold. simpl. fold L.
    fold L in Hl. rewrite Hl. simpl. fold L in Hst. rewrite Hst. split; [|reflexivity].
    now rewrite Hc, EP_candidates.
  Qed.

  Lemma good_nonseq : forall s, Inv pre C s -> good pre C ENonSeq s ->
    s_calls s = pairs pre (expected_blocks L) /\ expected_outcome L = ONonSeq.
  Proof.
    intros s I (v & r & He & H0 & Hp). pose proof (gi_link _ _ _ (inv_g _ _ _ I)) as Hl.
    destruct (calls_split s I) as (l2 & Hc & Hpairs).
    assert (Hcand : candidates L = map fst (s_calls s) ++ fst v :: map fst r).
    { rewrite EP_candidates in He. apply (f_equal (map fst)) in He.
      rewrite map_fst_pairs, map_app in He. exact He. }
    unfold expected_blocks, expected_outcome. rewrite expected_unfold. simpl. fold L.
    rewrite Hcand. rewrite (seq_cut_app _ _ _ Hl). simpl.
    apply N.eqb_neq in H0, Hp. rewrite H0, Hp. simpl. rewrite app_nil_r. split; [exact Hpairs|reflexivity].
  Qed.

  (* the tailing state *)
  Lemma tail_state : forall s i, Inv pre C s ->
    term s = false -> s_m s = MSel -> s_fs s = [] -> s_l s = LSel i -> nfiles L <= i ->
    s_calls s = pairs pre (expected_blocks L) /\ expected_outcome L = OTail.
  Proof.
    intros s i [Il If Ig] Ht Hm Hfs Hl Hi.
    pose proof (li_pc _ _ Il) as Hpc. rewrite Hl in Hpc. destruct Hpc as [Hsent Hno].
    pose proof (li_sent _ _ Il) as Hle. fold L in Hle.
    assert (Hsn : s_sent s = nfiles L) by lia.
    destruct (nsend_at_tail L) as [Hns Hst]; [intros; apply Hno; lia|].
    assert (Htk : s_taken s = s_sent s).
    { pose proof (li_taken _ _ Il). pose proof (li_fs _ _ Il) as H'. rewrite Hfs in H'.
      destruct H' as [H'|[H' _]].
      - destruct (s_sent s - s_taken s) eqn:E; [lia|discriminate].
      - destruct (map IFile (seq (s_taken s) (s_sent s - s_taken s))); discriminate. }
    assert (Hc : s_calls s = EP pre C).
    { pose proof (gi_g1 _ _ _ Ig) as H'. rewrite Hm in H'. unfold hand_m in H'. rewrite Hm, app_nil_r in H'.
      rewrite H'. unfold PipelineDefs.EP, PipelineDefs.EPn. fold L. rewrite Hns, <- Hsn, <- Htk.
      apply flat_map_ext_seq. intros j Hj. apply (gi_nt _ _ _ Ig); auto. unfold left. now rewrite Hm. }
    pose proof (gi_link _ _ _ Ig) as Hlk. rewrite Hc, EP_candidates, map_fst_pairs in Hlk. fold L in Hlk.
    unfold expected_blocks, expected_outcome. rewrite expected_unfold. simpl. rewrite Hlk. simpl. rewrite Hst.
    split; [|reflexivity]. now rewrite Hc, EP_candidates.
  Qed.

  (* what Err() is once Run has returned *)
  Lemma done_state : forall s e, Inv pre C s -> s_m s = MDone e ->
    exists e', s_err s = Some e' /\
      ((e' = fclass (c_fault C) /\ c_fault C <> FNone) \/ (e' = ENil /\ c_ext C = true) \/
       (e' = e /\ good pre C e s)).
  Proof.
    intros s e I Hm. pose proof (gi_done _ _ _ (inv_g _ _ _ I) e Hm) as Ht.
    destruct (term_true_err s Ht) as [e' He]. exists e'. split; [exact He|].
    destruct (gi_err _ _ _ (inv_g _ _ _ I) e' He) as [H|[H|[H1 H2]]]; auto.
    right; right. rewrite Hm in H1. inversion H1; subst. auto.
  Qed.
End Core.

Lemma c10_order_safety_proof : C10_order_safety.
Proof.
  intros pre C sched Hfix. apply safety_core. apply run_pres; [exact Hfix|apply Inv_init].
Qed.

Lemma c10_order_quiesces_proof : C10_order_quiesces.
Proof. intros pre C sched Hfix. now apply quiesces. Qed.

Lemma c10_order_complete_proof : C10_order_complete.
Proof.
  intros pre C sched Hfix Hf Hx s Q.
  assert (I : Inv pre C s) by (apply run_pres; [exact Hfix|apply Inv_init]).
  destruct (quiescent_shape pre C Hfix s I Q) as [[e Hm]|(Ht & Hm & Hfs & i & Hl & Hi)].
  - destruct (done_state pre C s e I Hm) as (e' & He & [[_ H]|[[_ H]|[-> Hg]]]); try congruence.
    destruct e; simpl in Hg; try contradiction.
    + destruct (good_stop pre C s I Hg) as [Hc Ho]. rewrite Ho. unfold returned. rewrite Hm. auto.
    + destruct (good_nonseq pre C s I Hg) as [Hc Ho]. rewrite Ho. unfold returned. rewrite Hm. auto.
    + destruct Hg as (n & Hn & _). congruence.
  - destruct (tail_state pre C s i I Ht Hm Hfs Hl Hi) as [Hc Ho]. rewrite Ho.
    unfold returned. rewrite Hm. split; [exact Hc|]. split; [reflexivity|now apply term_false_err].
Qed.

Lemma c10_order_proof : C10_order.
Proof. split; [exact c10_order_safety_proof|split; [exact c10_order_quiesces_proof|exact c10_order_complete_proof]]. Qed.

Lemma c10_continuity_proof : C10_continuity.
Proof.
  intros pre C sched d b r Hfix Hc Hl Hne H0 Hp s.
  assert (Hcut : seq_cut 0 (candidates (c_lay C)) = (d, true)).
  { rewrite Hc. apply seq_cut_break; auto; rewrite (lid_last d 0%N Hne); auto. }
  assert (Hexp : expected (c_lay C) = (d, ONonSeq)).
  { rewrite expected_unfold, Hcut. reflexivity. }
  split.
  - pose proof (c10_order_safety_proof pre C sched Hfix) as H. unfold expected_blocks in H. now rewrite Hexp in H.
  - intros Hf Hx Q. pose proof (c10_order_complete_proof pre C sched Hfix Hf Hx Q) as H.
    unfold expected_blocks, expected_outcome in H. rewrite Hexp in H. simpl in H. tauto.
Qed.
