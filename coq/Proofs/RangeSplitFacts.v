(* Split: the loop produces a "chain" of chunks (loop invariant + fuel sufficiency), and every
   chain has the shape and the union property of the C19 statement. *)
From BV Require Import Base.Prelude Base.Decimal Model.Range Spec.C19_Spec Proofs.RangeFacts.
Local Open Scope N_scope.

(* chunks from cs up to e: every chunk is at most `chunk` wide, every end but the last is a
   multiple of `chunk` *)
Inductive chain (xs xe : bool) (chunk e : N) : N -> list range -> Prop :=
| chain_last cs : cs < e -> e - cs <= chunk -> chain xs xe chunk e cs [mkRange cs (Some e) xs xe]
| chain_cons cs ce l : cs < ce -> ce - cs <= chunk -> ce mod chunk = 0 -> ce < e ->
    chain xs xe chunk e ce l -> chain xs xe chunk e cs (mkRange cs (Some ce) xs xe :: l).

(* ---- the loop builds a chain, and the fuel suffices ---- *)
Lemma loop_chain xs xe chunk e : 0 < chunk -> e < two64 ->
  forall fuel cs ce, cs < ce -> ce <= e -> ce - cs <= chunk -> (ce < e -> ce mod chunk = 0) ->
    (e - ce) + chunk <= N.of_nat fuel * chunk ->
    exists l, split_loop fuel xs xe e chunk cs ce = Some l /\ chain xs xe chunk e cs l.
Proof.
  intros Hc He. induction fuel as [|f IH]; intros cs ce H1 H2 H3 H4 Hf.
  - simpl in Hf. lia.
  - rewrite Nat2N.inj_succ, N.mul_succ_l in Hf.
    cbn [split_loop]. destruct (e <=? ce) eqn:E1.
    + apply N.leb_le in E1. assert (ce = e) by lia. subst ce.
      eexists. split; [reflexivity|]. apply chain_last; assumption.
    + apply N.leb_gt in E1. rewrite (sub64_le e ce) by lia.
      destruct (e - ce <=? chunk) eqn:E2.
      * apply N.leb_le in E2.
        assert (Hf' : (e - e) + chunk <= N.of_nat f * chunk).
        { destruct f as [|f'].
          - simpl in Hf. lia.
          - rewrite Nat2N.inj_succ, N.mul_succ_l. lia. }
        destruct (IH ce e E1 (N.le_refl e) E2 ltac:(lia) Hf') as (l & Hl & Hch).
        rewrite Hl. eexists. split; [reflexivity|].
        apply chain_cons; auto.
      * apply N.leb_gt in E2.
        rewrite add64_small by lia.
        assert (Hm : (ce + chunk) mod chunk = 0).
        { replace (ce + chunk) with (ce + 1 * chunk) by lia.
          rewrite N.mod_add by lia. apply H4. exact E1. }
        destruct (IH ce (ce + chunk) ltac:(lia) ltac:(lia) ltac:(lia) (fun _ => Hm) ltac:(lia)) as (l & Hl & Hch).
        rewrite Hl. eexists. split; [reflexivity|].
        apply chain_cons; auto.
Qed.

(* the first chunk end: the next multiple of chunk above start *)
Lemma first_end s chunk : 0 < chunk -> s + chunk < two64 ->
  let sc := add64 s chunk in
  let ce := sub64 sc (sc mod chunk) in
  s < ce /\ ce <= s + chunk /\ ce mod chunk = 0.
Proof.
  intros Hc Hs sc ce. subst ce sc. rewrite add64_small by exact Hs.
  pose proof (N.mod_upper_bound (s + chunk) chunk ltac:(lia)) as Hm.
  pose proof (N.div_mod (s + chunk) chunk ltac:(lia)) as Hd.
  rewrite sub64_le by lia.
  split; [lia|]. split; [lia|].
  replace (s + chunk - (s + chunk) mod chunk) with ((s + chunk) / chunk * chunk) by lia.
  apply N.mod_mul. lia.
Qed.

Lemma fuel_enough s e ce chunk : 0 < chunk -> s < ce -> s < e ->
  (e - ce) + chunk <= N.of_nat (N.to_nat ((e - s) / chunk) + 2) * chunk.
Proof.
  intros Hc H1 H2.
  rewrite Nat2N.inj_add, N2Nat.id. change (N.of_nat 2) with 2.
  pose proof (N.mod_upper_bound (e - s) chunk ltac:(lia)) as Hm.
  pose proof (N.div_mod (e - s) chunk ltac:(lia)) as Hd.
  rewrite N.mul_add_distr_r. rewrite (N.mul_comm ((e - s) / chunk) chunk). lia.
Qed.

Lemma split_chain r chunk e : range_ok r -> 0 < chunk < two64 -> rend r = Some e ->
  exists l, split r chunk = SplitOk l /\ chain (rexs r) (rexe r) chunk e (rstart r) l.
Proof.
  intros [Hs He] [Hc1 Hc2] Hr. unfold split. rewrite Hr in *. destruct He as [Hev Hlt]. unfold u64 in *.
  rewrite sub64_le by lia.
  destruct (e - rstart r <=? chunk) eqn:E1.
  - apply N.leb_le in E1. exists [r]. split; [reflexivity|].
    replace [r] with [mkRange (rstart r) (Some e) (rexs r) (rexe r)]
      by (rewrite <- Hr, range_eta; reflexivity).
    apply chain_last; assumption.
  - apply N.leb_gt in E1.
    destruct (chunk =? 0) eqn:E0; [apply N.eqb_eq in E0; lia|].
    destruct (first_end (rstart r) chunk Hc1 ltac:(lia)) as (F1 & F2 & F3).
    set (ce := sub64 (add64 (rstart r) chunk) (add64 (rstart r) chunk mod chunk)) in *.
    destruct (loop_chain (rexs r) (rexe r) chunk e Hc1 Hev (split_fuel (rstart r) e chunk) (rstart r) ce
                F1 ltac:(lia) ltac:(lia) (fun _ => F3)) as (l & Hl & Hch).
    { unfold split_fuel. rewrite sub64_le by lia. apply fuel_enough; lia. }
    rewrite Hl. exists l. split; [reflexivity|exact Hch].
Qed.

(* ---- what every chain satisfies ---- *)
Section Chain.
  Variables (xs xe : bool) (chunk e : N).

  Lemma chain_hd cs l d : chain xs xe chunk e cs l -> l <> [] /\ rstart (hd d l) = cs.
  Proof. intros H; destruct H; simpl; split; auto; discriminate. Qed.

  Lemma chain_last_end cs l d : chain xs xe chunk e cs l -> rend (last l d) = Some e.
  Proof.
    intros H; induction H as [cs H1 H2|cs ce l H1 H2 H3 H4 Hch IH]; [reflexivity|].
    destruct (chain_hd _ _ d Hch) as [Hne _]. destruct l as [|b t]; [congruence|]. exact IH.
  Qed.

  Lemma chain_contiguous cs l : chain xs xe chunk e cs l -> contiguous l.
  Proof.
    intros H; induction H as [cs H1 H2|cs ce l H1 H2 H3 H4 Hch IH]; [exact I|].
    destruct (chain_hd _ _ (mkRange 0 None false false) Hch) as [Hne Hhd].
    destruct l as [|b t]; [congruence|]. simpl in Hhd. simpl. split; [congruence|exact IH].
  Qed.

  Lemma chain_inner cs l : chain xs xe chunk e cs l ->
    forall b, In b (inner_bounds l) -> b mod chunk = 0 /\ cs < b < e.
  Proof.
    intros H; induction H as [cs H1 H2|cs ce l H1 H2 H3 H4 Hch IH]; intros b Hb; [destruct Hb|].
    destruct (chain_hd _ _ (mkRange 0 None false false) Hch) as [Hne _].
    destruct l as [|b0 t]; [congruence|].
    cbn [inner_bounds rend] in Hb. destruct Hb as [Hb|Hb].
    - subst b. split; [assumption|lia].
    - destruct (IH b Hb) as [Hm Hr]. split; [assumption|lia].
  Qed.

  Lemma chain_elems cs l : chain xs xe chunk e cs l ->
    forall c, In c l -> rexs c = xs /\ rexe c = xe /\ cs <= rstart c /\
      exists ce, rend c = Some ce /\ rstart c < ce /\ ce <= e /\ ce - rstart c <= chunk.
  Proof.
    intros H; induction H as [cs H1 H2|cs ce l H1 H2 H3 H4 Hch IH]; intros c Hc.
    - destruct Hc as [<-|[]]. simpl. repeat split; try lia. exists e. repeat split; lia.
    - destruct Hc as [<-|Hc].
      + simpl. repeat split; try lia. exists ce. repeat split; lia.
      + destruct (IH c Hc) as (F1 & F2 & F3 & F4). repeat split; auto. lia.
  Qed.

  Lemma chain_union cs l : chain xs xe chunk e cs l ->
    forall n, (exists c, In c l /\ in_range c n) <->
              (lower_ok xs cs n /\ upper_ok xe (Some e) n) /\
              ~ (xs = true /\ xe = true /\ In n (inner_bounds l)).
  Proof.
    intros H; induction H as [cs H1 H2|cs ce l H1 H2 H3 H4 Hch IH]; intros n.
    - split.
      + intros (c & [<-|[]] & Hin). split; [exact Hin|]. intros (_ & _ & []).
      + intros [Hin _]. eexists. split; [left; reflexivity|exact Hin].
    - pose proof (chain_inner _ _ Hch) as Hinner.
      destruct (chain_hd _ _ (mkRange 0 None false false) Hch) as [Hne _].
      assert (Hib : forall x, In x (inner_bounds (mkRange cs (Some ce) xs xe :: l)) <-> x = ce \/ In x (inner_bounds l)).
      { intros x. destruct l as [|b0 t]; [congruence|]. cbn [inner_bounds rend]. simpl. split; intros [?|?]; auto. }
      split.
      + intros (c & [<-|Hc] & Hin).
        * unfold in_range, lower_ok, upper_ok in *; cbn [rstart rend rexs rexe] in *.
          split; [destruct xs, xe; lia|].
          intros (-> & -> & Hn). apply Hib in Hn. destruct Hn as [->|Hn]; [lia|].
          apply Hinner in Hn. lia.
        * assert (Hex : exists c, In c l /\ in_range c n) by eauto.
          apply IH in Hex. destruct Hex as [[Hlo Hup] Hno].
          unfold lower_ok, upper_ok in *.
          split; [destruct xs, xe; lia|].
          intros (-> & -> & Hn). apply Hib in Hn. destruct Hn as [->|Hn]; [lia|].
          apply Hno. auto.
      + intros [[Hlo Hup] Hno]. unfold lower_ok, upper_ok in *.
        destruct (N.lt_trichotomy n ce) as [Hlt|[Heq|Hgt]].
        * exists (mkRange cs (Some ce) xs xe). split; [left; reflexivity|].
          unfold in_range, lower_ok, upper_ok; cbn [rstart rend rexs rexe]. destruct xs, xe; split; lia.
        * subst n. destruct xs eqn:Exs.
          -- destruct xe eqn:Exe.
             ++ exfalso. apply Hno. repeat split; auto. apply Hib. left; reflexivity.
             ++ exists (mkRange cs (Some ce) true false). split; [left; reflexivity|].
                unfold in_range, lower_ok, upper_ok; cbn [rstart rend rexs rexe]. split; lia.
          -- assert (Hex : exists c, In c l /\ in_range c ce).
             { apply IH. unfold lower_ok, upper_ok. split; [split; [lia|destruct xe; lia]|].
               intros (Hx & _). discriminate. }
             destruct Hex as (c & Hc & Hin). exists c. split; [right; exact Hc|exact Hin].
        * assert (Hex : exists c, In c l /\ in_range c n).
          { apply IH. unfold lower_ok, upper_ok. split; [split; [destruct xs; lia|exact Hup]|].
            intros (Hx & Hy & Hn). apply Hno. repeat split; auto. apply Hib. right; exact Hn. }
          destruct Hex as (c & Hc & Hin). exists c. split; [right; exact Hc|exact Hin].
  Qed.
End Chain.

Lemma chain_shape r chunk e l : range_ok r -> rend r = Some e ->
  chain (rexs r) (rexe r) chunk e (rstart r) l -> chunks_shape r chunk l.
Proof.
  intros [Hs He] Hr Hch. rewrite Hr in He. destruct He as [Hev Hlt]. unfold u64 in *.
  destruct (chain_hd _ _ _ _ _ _ r Hch) as [Hne Hhd].
  unfold chunks_shape. split; [exact Hne|]. split; [exact Hhd|].
  split; [rewrite Hr; eapply chain_last_end; exact Hch|].
  split; [eapply chain_contiguous; exact Hch|].
  split.
  - intros b Hb. eapply chain_inner; eauto.
  - intros c Hc. destruct (chain_elems _ _ _ _ _ _ Hch c Hc) as (F1 & F2 & F3 & ce & F4 & F5 & F6 & F7).
    repeat split; auto.
    + unfold u64. lia.
    + rewrite F4. unfold u64. split; lia.
    + exists ce. split; auto.
Qed.

Lemma c19_split_partial_proof : C19_split_partial.
Proof.
  intros r chunk Hok Hc. destruct (rend r) as [e|] eqn:Hr.
  - destruct (split_chain r chunk e Hok Hc Hr) as (l & Hl & Hch).
    exists l. split; [exact Hl|]. split; [eapply chain_shape; eauto|].
    intros n. destruct Hok as [Hs He]. rewrite Hr in He.
    rewrite (chain_union _ _ _ _ _ _ Hch n). unfold in_range. rewrite Hr. tauto.
  - unfold split. rewrite Hr. reflexivity.
Qed.

Lemma c19_split_exact_proof : C19_split_exact.
Proof.
  intros r chunk Hok Hc Hf. pose proof (c19_split_partial_proof r chunk Hok Hc) as H.
  destruct (rend r) as [e|]; [|exact H].
  destruct H as (l & Hl & Hsh & Hu). exists l. split; [exact Hl|]. split; [exact Hsh|].
  intros n. rewrite (Hu n). split; [tauto|]. intros Hin. split; [exact Hin|].
  intros (Hx & Hy & _). rewrite Hx, Hy in Hf. discriminate.
Qed.

(* the full statement fails for a both-exclusive range with two chunks *)
Lemma c19_split_full_refuted_proof : C19_split_full_refuted.
Proof.
  exists (mkRange 10 (Some 20) true true), 5, [mkRange 10 (Some 15) true true; mkRange 15 (Some 20) true true], 15.
  split; [unfold range_ok, u64, two64; simpl; lia|].
  split; [unfold two64; lia|].
  split; [vm_compute; reflexivity|].
  split; [unfold in_range, lower_ok, upper_ok; simpl; lia|].
  intros (c & [<-|[<-|[]]] & [Hlo Hup]); unfold lower_ok, upper_ok in *; simpl in *; lia.
Qed.

Lemma not_c19_split_full : ~ C19_split_full.
Proof.
  intros H. destruct c19_split_full_refuted_proof as (r & chunk & l & n & Hok & Hc & Hs & Hin & Hno).
  specialize (H r chunk Hok Hc). destruct (rend r) as [e|] eqn:Hr.
  - destruct H as (l' & Hs' & _ & Hu). rewrite Hs in Hs'. inversion Hs'; subst l'.
    apply Hno. apply Hu. exact Hin.
  - rewrite Hs in H. discriminate.
Qed.

(* the unchanged loop: on [0, 2^64-1] by 2^63 the state alternates between (0, 2^63) and
   (2^63, 0) and never reaches the end *)
Lemma c19_split_unfixed_refuted_proof : C19_split_unfixed_refuted.
Proof.
  unfold C19_split_unfixed_refuted.
  assert (H : forall fuel,
            split_loop_unfixed fuel false false (two64 - 1) two63 0 two63 = None /\
            split_loop_unfixed fuel false false (two64 - 1) two63 two63 0 = None).
  { induction fuel as [|f [IH1 IH2]]; [split; reflexivity|].
    split.
    - cbn [split_loop_unfixed].
      change (two64 - 1 <=? two63) with false. cbv iota.
      change (add64 two63 two63) with 0.
      change (two64 - 1 <? 0) with false. cbv iota. rewrite IH2. reflexivity.
    - cbn [split_loop_unfixed].
      change (two64 - 1 <=? 0) with false. cbv iota.
      change (add64 0 two63) with two63.
      change (two64 - 1 <? two63) with false. cbv iota. rewrite IH1. reflexivity. }
  intros fuel. apply H.
Qed.
