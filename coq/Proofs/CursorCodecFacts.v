From BV Require Import Base.Prelude Base.Decimal Model.CursorCodec Proofs.PreludeFacts Proofs.DecimalFacts.
Local Open Scope N_scope.

(* ---------- split / join ---------- *)

Lemma split_on_app_nosep sep x : forall r cur, memN sep x = false ->
  split_on sep (x ++ r) cur = split_on sep r (rev x ++ cur).
Proof.
  induction x as [|c x IH]; intros r cur H; [reflexivity|].
  cbn [memN] in H. apply orb_false_iff in H as [Hc Hx].
  cbn [app split_on]. rewrite N.eqb_sym, Hc. rewrite IH by exact Hx.
  cbn [rev]. rewrite <- app_assoc. reflexivity.
Qed.

Lemma split_on_join sep : forall l x cur,
  forallb (fun s => negb (memN sep s)) (x :: l) = true ->
  split_on sep (join sep (x :: l)) cur = (rev cur ++ x) :: l.
Proof.
  induction l as [|y l IH]; intros x cur H.
  - cbn [join]. cbn [forallb] in H. apply andb_true_iff in H as [Hx _]. apply negb_true_iff in Hx.
    rewrite <- (app_nil_r x) at 1. rewrite split_on_app_nosep by exact Hx.
    cbn [split_on]. rewrite rev_app_distr, rev_involutive. reflexivity.
  - change (join sep (x :: y :: l)) with (x ++ sep :: join sep (y :: l)).
    cbn [forallb] in H. apply andb_true_iff in H as [Hx Hl]. apply negb_true_iff in Hx.
    rewrite split_on_app_nosep by exact Hx. cbn [split_on]. rewrite N.eqb_refl.
    rewrite rev_app_distr, rev_involutive. f_equal.
    rewrite (IH y [] Hl). reflexivity.
Qed.

Theorem split_join sep x l :
  forallb (fun s => negb (memN sep s)) (x :: l) = true -> split sep (join sep (x :: l)) = x :: l.
Proof. intros H. unfold split. rewrite split_on_join by exact H. reflexivity. Qed.

Lemma split_on_nosep sep : forall s cur, memN sep cur = false ->
  forallb (fun p => negb (memN sep p)) (split_on sep s cur) = true.
Proof.
  assert (Hrev : forall l, memN sep l = false -> memN sep (rev l) = false).
  { intros l H. destruct (memN sep (rev l)) eqn:E; [|reflexivity].
    apply memN_In in E. apply in_rev in E. apply memN_In in E. congruence. }
  induction s as [|c s IH]; intros cur H; cbn [split_on forallb].
  - rewrite (Hrev _ H). reflexivity.
  - destruct (N.eqb_spec c sep) as [->|Hne].
    + cbn [forallb]. rewrite (Hrev _ H). cbn. apply IH. reflexivity.
    + apply IH. cbn [memN]. rewrite H. destruct (N.eqb_spec sep c); [congruence|reflexivity].
Qed.

Lemma split_nosep sep s : forallb (fun p => negb (memN sep p)) (split sep s) = true.
Proof. apply split_on_nosep. reflexivity. Qed.

(* ---------- field readers ---------- *)

Lemma read_step_print st : step_ok st = true -> read_step (print_dec st) = Some st.
Proof.
  intros H. unfold read_step.
  assert (st < two63) by (unfold step_ok in H; unfold two63; lia).
  rewrite parse_int_print_nonneg by assumption.
  rewrite N2Z.id. replace (0 <=? Z.of_N st)%Z with true by lia. rewrite H. reflexivity.
Qed.

Lemma read_ref_print i n : n < two64 -> read_ref (print_dec n) i = Some (mkRef i n).
Proof. intros H. unfold read_ref. rewrite parse_uint_print by exact H. reflexivity. Qed.

Lemma read_step_ok p st : read_step p = Some st -> step_ok st = true.
Proof.
  unfold read_step. destruct (parse_int two63 p) as [z|]; [|discriminate].
  destruct ((0 <=? z)%Z && step_ok (Z.to_N z)) eqn:E; [|discriminate].
  intros [= <-]. apply andb_true_iff in E. tauto.
Qed.

Lemma read_ref_ok numS idS r : read_ref numS idS = Some r -> rid r = idS /\ rnum r < two64.
Proof.
  unfold read_ref, parse_uint. destruct (parse_digits numS) as [v|]; [|discriminate].
  destruct (N.ltb_spec v two64); [|discriminate]. intros [= <-]. split; [reflexivity|assumption].
Qed.

(* ---------- String then FromString ---------- *)

Lemma cursor_ok_parts c : cursor_ok c = true ->
  step_ok (cstep c) = true /\
  (memN colon (rid (cblk c)) = false /\ rnum (cblk c) < two64) /\
  (memN colon (rid (chead c)) = false /\ rnum (chead c) < two64) /\
  (memN colon (rid (clib c)) = false /\ rnum (clib c) < two64).
Proof.
  unfold cursor_ok, ref_ok, id_ok. intros H.
  repeat match goal with Hx : _ && _ = true |- _ => apply andb_true_iff in Hx as [? ?] end.
  repeat match goal with Hx : negb _ = true |- _ => apply negb_true_iff in Hx end.
  repeat split; try assumption; lia.
Qed.

Theorem from_string_cursor_string c :
  cursor_ok c = true -> from_string (cursor_string c) = Some (normalize c).
Proof.
  intros Hok. destruct (cursor_ok_parts c Hok) as (Hst & (Hbi & Hbn) & (Hhi & Hhn) & (Hli & Hln)).
  unfold cursor_string, normalize, from_string.
  pose proof (print_dec_no_colon (cstep c)) as P1.
  pose proof (print_dec_no_colon (rnum (cblk c))) as P2.
  pose proof (print_dec_no_colon (rnum (chead c))) as P3.
  pose proof (print_dec_no_colon (rnum (clib c))) as P4.
  fold colon in P1, P2, P3, P4.
  destruct (eqb_list (rid (chead c)) (rid (cblk c))) eqn:E1.
  - rewrite split_join.
    2:{ cbn [forallb]. rewrite P1, P2, P4, Hbi, Hli. reflexivity. }
    cbn [eqb_list N.eqb Pos.eqb andb].
    rewrite read_step_print, !read_ref_print by assumption.
    destruct (cblk c), (clib c); reflexivity.
  - destruct (eqb_list (rid (cblk c)) (rid (clib c))) eqn:E2.
    + rewrite split_join.
      2:{ cbn [forallb]. rewrite P1, P2, P3, Hbi, Hhi. reflexivity. }
      cbn [eqb_list N.eqb Pos.eqb andb].
      rewrite read_step_print, !read_ref_print by assumption.
      destruct (cblk c), (chead c); reflexivity.
    + rewrite split_join.
      2:{ cbn [forallb]. rewrite P1, P2, P3, P4, Hbi, Hhi, Hli. reflexivity. }
      cbn [eqb_list N.eqb Pos.eqb andb].
      rewrite read_step_print, !read_ref_print by assumption.
      destruct c as [s [bi bn] [hi hn] [li ln]]; reflexivity.
Qed.

Lemma ref_eqb_refl r : ref_eqb r r = true.
Proof. unfold ref_eqb. rewrite eqb_list_refl, N.eqb_refl. reflexivity. Qed.

Lemma cursor_eqb_eq a b : cursor_eqb a b = true <-> a = b.
Proof.
  split.
  - unfold cursor_eqb, ref_eqb. intros H.
    repeat match goal with Hx : _ && _ = true |- _ => apply andb_true_iff in Hx as [? ?] end.
    repeat match goal with Hx : eqb_list _ _ = true |- _ => apply eqb_list_eq in Hx end.
    repeat match goal with Hx : (_ =? _) = true |- _ => apply N.eqb_eq in Hx end.
    destruct a as [s1 [bi1 bn1] [hi1 hn1] [li1 ln1]], b as [s2 [bi2 bn2] [hi2 hn2] [li2 ln2]].
    cbn in *. congruence.
  - intros <-. unfold cursor_eqb. rewrite N.eqb_refl, !ref_eqb_refl. reflexivity.
Qed.

Lemma normalize_alias_ok c : alias_ok c = true -> normalize c = c.
Proof.
  unfold alias_ok, normalize. intros H.
  apply andb_true_iff in H as [H H1]. apply andb_true_iff in H as [H H0].
  destruct c as [s [bi bn] [hi hn] [li ln]]. cbn [cstep cblk chead clib rid rnum] in *.
  destruct (eqb_list hi bi) eqn:E1.
  - apply eqb_list_eq in E1. cbn in H. apply N.eqb_eq in H. subst. reflexivity.
  - destruct (eqb_list bi li) eqn:E2; [|reflexivity].
    apply eqb_list_eq in E2. subst. rewrite eqb_list_refl in H0. cbn in H0. apply N.eqb_eq in H0. subst. reflexivity.
Qed.

Lemma normalize_equiv c : cursor_equiv (normalize c) c = true.
Proof.
  unfold normalize, cursor_equiv.
  destruct (eqb_list (rid (chead c)) (rid (cblk c))) eqn:E1.
  - cbn. rewrite N.eqb_refl, ref_eqb_refl, eqb_list_refl. cbn.
    apply eqb_list_eq in E1. rewrite E1, eqb_list_refl. reflexivity.
  - destruct (eqb_list (rid (cblk c)) (rid (clib c))) eqn:E2.
    + cbn. rewrite N.eqb_refl, ref_eqb_refl, eqb_list_refl, E2. reflexivity.
    + rewrite N.eqb_refl, ref_eqb_refl, !eqb_list_refl. reflexivity.
Qed.

(* ---------- any decoded cursor is well-formed, hence re-encodes ---------- *)

Lemma from_string_ok s c : from_string s = Some c -> cursor_ok c = true.
Proof.
  unfold from_string. pose proof (split_nosep colon s) as Hns.
  destruct (split colon s) as [|p0 [|p1 [|p2 [|p3 [|p4 [|p5 [|p6 [|p7 [|p8 l]]]]]]]]]; try discriminate.
  - cbn [forallb] in Hns. repeat (apply andb_true_iff in Hns as [? Hns]).
    destruct (eqb_list p0 [99;49]).
    + destruct (read_step p1) eqn:S1; [|discriminate].
      destruct (read_ref p2 p3) eqn:R1; [|discriminate].
      destruct (read_ref p4 p5) eqn:R2; [|discriminate].
      intros [= <-]. apply read_step_ok in S1. apply read_ref_ok in R1 as [I1 N1]. apply read_ref_ok in R2 as [I2 N2].
      unfold cursor_ok, ref_ok, id_ok. cbn [cstep cblk chead clib]. rewrite S1, I1, I2.
      repeat (apply andb_true_iff; split); try assumption; lia.
    + destruct (eqb_list p0 [99;50]); [|discriminate].
      destruct (read_step p1) eqn:S1; [|discriminate].
      destruct (read_ref p2 p3) eqn:R1; [|discriminate].
      destruct (read_ref p4 p5) eqn:R2; [|discriminate].
      intros [= <-]. apply read_step_ok in S1. apply read_ref_ok in R1 as [I1 N1]. apply read_ref_ok in R2 as [I2 N2].
      unfold cursor_ok, ref_ok, id_ok. cbn [cstep cblk chead clib]. rewrite S1, I1, I2.
      repeat (apply andb_true_iff; split); try assumption; lia.
  - cbn [forallb] in Hns. repeat (apply andb_true_iff in Hns as [? Hns]).
    destruct (eqb_list p0 [99;51]); [|discriminate].
    destruct (read_step p1) eqn:S1; [|discriminate].
    destruct (read_ref p2 p3) eqn:R1; [|discriminate].
    destruct (read_ref p4 p5) eqn:R2; [|discriminate].
    destruct (read_ref p6 p7) eqn:R3; [|discriminate].
    intros [= <-]. apply read_step_ok in S1. apply read_ref_ok in R1 as [I1 N1].
    apply read_ref_ok in R2 as [I2 N2]. apply read_ref_ok in R3 as [I3 N3].
    unfold cursor_ok, ref_ok, id_ok. cbn [cstep cblk chead clib]. rewrite S1, I1, I2, I3.
    repeat (apply andb_true_iff; split); try assumption; lia.
Qed.

(* ---------- layout choice ---------- *)

Lemma layout_cursor_string c :
  layout_of (cursor_string c) =
    if eqb_list (rid (chead c)) (rid (cblk c)) then 1
    else if eqb_list (rid (cblk c)) (rid (clib c)) then 2 else 3.
Proof.
  unfold cursor_string.
  destruct (eqb_list (rid (chead c)) (rid (cblk c))); [reflexivity|].
  destruct (eqb_list (rid (cblk c)) (rid (clib c))); reflexivity.
Qed.

(* number of ':'-separated segments of the text form *)
Lemma segments_cursor_string c : cursor_ok c = true ->
  length (split colon (cursor_string c)) = if N.eqb (layout_of (cursor_string c)) 3 then 8%nat else 6%nat.
Proof.
  intros Hok. destruct (cursor_ok_parts c Hok) as (Hst & (Hbi & Hbn) & (Hhi & Hhn) & (Hli & Hln)).
  rewrite layout_cursor_string. unfold cursor_string.
  pose proof (print_dec_no_colon (cstep c)) as P1.
  pose proof (print_dec_no_colon (rnum (cblk c))) as P2.
  pose proof (print_dec_no_colon (rnum (chead c))) as P3.
  pose proof (print_dec_no_colon (rnum (clib c))) as P4.
  fold colon in P1, P2, P3, P4.
  destruct (eqb_list (rid (chead c)) (rid (cblk c))).
  - rewrite split_join; [reflexivity|]. cbn [forallb]. rewrite P1, P2, P4, Hbi, Hli. reflexivity.
  - destruct (eqb_list (rid (cblk c)) (rid (clib c))).
    + rewrite split_join; [reflexivity|]. cbn [forallb]. rewrite P1, P2, P3, Hbi, Hhi. reflexivity.
    + rewrite split_join; [reflexivity|]. cbn [forallb]. rewrite P1, P2, P3, P4, Hbi, Hhi, Hli. reflexivity.
Qed.
