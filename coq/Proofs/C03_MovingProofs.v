(* C03 (moving LIB): from the boolean scope of the statement to the hypotheses of Proofs/Fk/MovingLibChoice.v
   and Proofs/Fk/MovingLibKept.v *)
From BV Require Import Base.Prelude Model.Block Model.ForkDB Model.Forkable Spec.Consumer Spec.Universe
  Spec.ForkChoice Spec.C01_Spec Spec.C01_Moving_Spec Spec.C01_Roots_Spec Spec.C03_Spec Spec.C03_Moving_Spec
  Check.Fk_Check Check.Fk_Props_Check
  Proofs.Fk.MovingLibInv Proofs.Fk.MovingLibEvents Proofs.Fk.MovingLibChoice Proofs.Fk.MovingLibKept
  Proofs.C02_Proofs Proofs.C01_Roots_Proofs.
Local Open Scope N_scope.

(* the class moving_scope2_b of Spec/C01_Roots_Spec.v: roots (empty parent ids) allowed *)
Lemma c03_moving_lib_roots_proved : c03_moving_lib_roots_statement.
Proof.
  intros cfg r0 m h Hm Hnofail Hnew Hundo Hscope.
  destruct (scope2_parts r0 h Hscope) as (_ & _ & Hr0 & _).
  pose proof (bridge_id h (m2_wf r0 h Hscope)) as B1.
  pose proof (bridge_uniq h (m2_wf r0 h Hscope)) as B2.
  pose proof (bridge_up h (m2_wf r0 h Hscope)) as B3.
  pose proof (fun y Hy => proj2 (mb2_parts r0 h Hscope y Hy)) as B4.
  pose proof (fun x Hx => proj1 (mb2_parts r0 h Hscope x Hx)) as B5.
  pose proof (bridge2_decl r0 h Hscope) as B6.
  destruct (moving_lib_follows h r0 cfg Hnofail Hnew Hundo B1 B2 B3 Hr0 B4 B5 B6 m h (rooted_of r0 m Hm) (fun b Hb => Hb))
    as (H1 & H2 & H3).
  cbv zeta. split; [|split; [exact H1 | split; [exact H3 | split]]].
  - unfold c03_statement. rewrite (proj1 (rooted_root_lib r0 m _ Hm)). exact H2.
  - intros k. exact (moving_lib_kept h r0 cfg k Hnofail Hnew Hundo B1 B2 B3 Hr0 B4 B5 B6 m h (rooted_of r0 m Hm) (fun b Hb => Hb)).
  - intros h1 b h2 Hh. unfold c03_noise_deletion.
    apply (noise_deletion h r0 cfg Hnofail Hnew Hundo B1 B2 B3 Hr0 B4 B5 B6 (fs_init m) [] [] (fc_init m) h1 b h2
             (inv_init h r0 cfg Hr0 B4 B5 m (rooted_of r0 m Hm)) (ext_init r0 Hr0 m (rooted_of r0 m Hm))
             (fcrel_init h r0 m (rooted_of r0 m Hm))).
    rewrite <- Hh. auto.
Qed.

(* the class without roots is a sub-class *)
Lemma c03_moving_lib_proved : c03_moving_lib_statement.
Proof.
  intros cfg r0 m h Hm Hnofail Hnew Hundo Hscope.
  exact (c03_moving_lib_roots_proved cfg r0 m h Hm Hnofail Hnew Hundo (moving_scope_sub r0 h Hscope)).
Qed.

Lemma c03_reference_lib_meaning_proved : c03_reference_lib_meaning.
Proof.
  intros first alltrig fc b. cbv zeta. unfold fc_step. cbn [andb negb].
  destruct ((bnum b <? rn (fc_lib fc)) && match fc_tip fc with Some _ => true | None => false end); [reflexivity|].
  cbn [negb andb]. destruct (lookup (bid b) (fc_recv fc)); [reflexivity|]. cbn [andb].
  destruct (alltrig || match fc_tip fc with None => true | Some t => bnum t <? bnum b end); [|reflexivity]. cbn [andb].
  destruct (negb (bid b =? ri (fc_lib fc)) &&
            links_to_lib (S (length (b :: fc_recv fc))) first (b :: fc_recv fc) (fc_lib fc) b); [|reflexivity].
  destruct (ancestor_at _ _ _ _) as [a|]; [destruct (_ <? _)|]; reflexivity.
Qed.
