(* C04 on hub bursts, over HISTORIES: a cursor minted by the stream of a hub-configured Forkable meets, at every later
   instant at which its LIB is still on the retained chain, the hypotheses of Proofs/C04_Burst.v; its burst is
   accepted by the checkers.  Built on Proofs/Hub/C05_History.locate and Proofs/Hub/CursorLife. *)
From Coq Require Import Sorted.
From BV Require Import Base.Prelude Model.Block Model.ForkDB Model.Forkable Model.ForkableLookups Model.Burst Model.Hub
  Spec.Consumer Spec.Universe Check.Fk_Check Check.Burst_Check Check.C04_More Spec.C09_Spec Spec.C05_Spec
  Spec.C05_Through_Spec Spec.C01_Spec Spec.C01_Moving_Spec Spec.C05_History_Spec Spec.C04_Burst_Spec
  Proofs.C09_Store Proofs.C05_Fast Proofs.C05_Forked Proofs.C05_Through
  Proofs.Fk.StoreFacts Proofs.Fk.WalkFacts Proofs.Fk.LoopFacts Proofs.Fk.FixedLib
  Proofs.Fk.MovingLibInv Proofs.Fk.MovingLibFin Proofs.Fk.MovingLibDisc Proofs.C02_Proofs Spec.C01_Roots_Spec Proofs.C01_Roots_Proofs
  Proofs.Hub.StepFields Proofs.Hub.ConsFacts Proofs.Hub.StepStore Proofs.Hub.Retention Proofs.Hub.HubInv Proofs.Hub.HubRun
  Proofs.Hub.LinkedRuns Proofs.Hub.CursorLife Proofs.Hub.C05_History Proofs.C04_File Proofs.C04_Burst.
Local Open Scope N_scope.

Section AtState.
  Variables (U : list block) (cfg : config).
  Hypothesis U_id : forall b, In b U -> bid b <> 0 /\ bid b <> bparent b.
  Hypothesis U_uniq : forall x y, In x U -> In y U -> bid x = bid y -> x = y.
  Hypothesis U_up : forall x y, In x U -> In y U -> bparent x = bid y -> bnum y < bnum x.

  Variables (a : block) (s : fstate) (Fin : list block) (S : cstack) (c : cons).
  Hypothesis HP : Post U cfg a s Fin S c.

  Lemma burst_at e ck P Q F0 B0 hd sg :
    CurAt U a e ck P Q (libblk a P) -> Fin = P ++ F0 ->
    linked (bid (libblk a P)) F0 -> Forall (fun x => In x U /\ bnum (libblk a P) < bnum x) F0 ->
    nu e -> Held B0 e Q (libblk a P) -> Ret B0 s ->
    last_sent s = Some hd -> complete_segment (db s) (bref hd) = Some (sg, true) ->
    block_in (ri (elib e)) sg = true ->
    let cur := ev_cursor e in
    wf_state s /\ head_chain s hd sg /\ lib_anchored s sg /\
    lib_numbered (db s) cur /\ rn (cu_lib cur) <= rn (libref (db s)) /\
    (block_in (ri (cu_blk cur)) sg = false -> through_cursor_hyps s sg cur) /\
    (exists rest, S = hd :: rest) /\
    exists evs,
      blocks_from_cursor s cur = BOk evs /\
      cursors_ok (Some (bref hd)) (Some (cu_lib cur)) (rn (cu_lib cur)) evs = true /\
      cursors_ok (Some (bref hd)) (Some (cu_lib cur)) 0 evs = true /\
      (forall fuel, junc_walk fuel (cs_stack ck) evs = true).
  Proof.
    intros HC HF Hl0 HF0 Hnu HH HRt Hls E Hlibin cur.
    pose proof (po_a U cfg a s Fin S c HP) as Ha. pose proof (po_inv U cfg a s Fin S c HP) as HI.
    set (L := libblk a P) in *.
    pose proof (ca_elib U a e ck P Q L HC) as Helib. pose proof (ca_L U a e ck P Q L HC) as HLU.
    assert (Hcl : cu_lib cur = bref L) by exact Helib.
    pose proof (inv_wf_state U cfg U_id U_uniq U_up a s Fin S Ha HI) as W.
    destruct (inv_lib U cfg a s Fin S Ha HI) as [HLfU Hlib].
    assert (HCn : head_chain s hd sg).
    { split; [|split; assumption]. unfold has_lib. rewrite Hlib. unfold ref_eqb, bref, ref_empty. cbn [ri rn].
      destruct (U_id _ HLfU) as [Hnz _]. apply N.eqb_neq in Hnz. rewrite Hnz. reflexivity. }
    destruct (head_chain_good s hd sg W HCn) as (G & Hst & _).
    assert (HlibinL : block_in (bid L) sg = true) by (rewrite Helib in Hlibin; exact Hlibin).
    destruct (above_lib_part U cfg U_id U_uniq U_up a s Fin S c HP hd sg true P F0 Hls E HF HLU Hl0 HF0 HlibinL)
      as (lo & xL & hi & p & Hsplit & HbL & HnL & HsL & HS & HH' & HpU & Hlo & Hhi & Hstd & _ & _).
    fold L in HbL, HnL, HsL, Hlo, Hhi.
    assert (HxL : In xL sg) by (rewrite Hsplit; apply in_or_app; right; left; reflexivity).
    (* the hub LIB block on the segment *)
    assert (HA : lib_anchored s sg).
    { unfold lib_anchored. rewrite Hlib. cbn [bref ri rn]. destruct F0 as [|t F0' _] using rev_ind.
      - rewrite app_nil_r in HF. rewrite HF. fold L. exists xL. auto.
      - assert (Et : libblk a Fin = t) by (rewrite HF, app_assoc; unfold libblk; rewrite rev_app_distr; reflexivity).
        rewrite Et. assert (Hin : In t (map seg_blk hi)) by (rewrite HH'; apply in_or_app; left; apply in_or_app; right; left; reflexivity).
        apply in_map_iff in Hin as (x & Ex & Hx). exists x. split; [rewrite Hsplit; apply in_or_app; right; right; exact Hx|].
        apply Forall_inv_tail in Hstd. rewrite Forall_forall in Hstd. destruct (Hstd x Hx) as [H1 H2]. rewrite H1, H2, Ex. auto. }
    assert (HLn : lib_numbered (db s) cur).
    { intros e0 Hf. rewrite Hcl in Hf |- *. cbn [bref ri rn] in Hf |- *. pose proof (Hst xL HxL) as Hf'. rewrite HsL, Hf in Hf'.
      injection Hf' as ->. fold (seg_blk xL). rewrite HbL. reflexivity. }
    assert (Hle : rn (cu_lib cur) <= rn (libref (db s))).
    { rewrite Hcl, Hlib, HF. cbn [bref rn]. apply libblk_mono. eapply Forall_impl; [|exact HF0]. cbn beta. tauto. }
    pose proof (cursor_meets U cfg U_id U_uniq U_up a s Fin S c HP e ck P Q F0 hd sg HC HF Hl0 HF0 Hnu Hls E Hlibin) as HM.
    unfold MeetsHyps, C05_meets in HM. cbv zeta in HM. fold cur in HM.
    destruct HM as (_ & _ & _ & _ & Hnum & Hstack & _ & _ & _ & _ & Hforked).
    destruct (serve_at U cfg U_id U_uniq U_up a s Fin S c HP e ck P Q F0 B0 hd sg HC HF Hl0 HF0 Hnu HH HRt Hls E Hlibin) as (evs & HB).
    fold cur in HB.
    split; [exact W|]. split; [exact HCn|]. split; [exact HA|]. split; [exact HLn|]. split; [exact Hle|].
    split.
    { intros Hbout. split; [exact HLn|]. split; [exact Hle|]. split; [exact Hnum|].
      intros path j je B Hf. apply (Hforked Hbout path j je B Hf). }
    split.
    { (* the top of the never-disconnected consumer is the head *)
      destruct (post_head U cfg U_id U_uniq U_up a s Fin S c HP) as (hd' & p' & Hls' & HhU & _ & HS' & HpU' & _ & Htip & HFinU).
      rewrite Hls in Hls'. injection Hls' as <-.
      assert (HallU : Forall (fun x => In x U) (Fin ++ map eb p')).
      { apply Forall_app. split; [eapply Forall_impl; [|exact HFinU] | eapply Forall_impl; [|exact HpU']]; cbn beta; tauto. }
      rewrite libblk_tip0, <- tip_app in Htip.
      destruct (Fin ++ map eb p') as [|t l' _] using rev_ind.
      - exfalso. apply (po_ne U cfg a s Fin S c HP). rewrite HS'. reflexivity.
      - rewrite tip_snoc in Htip. apply Forall_app in HallU as [_ Ht]. apply Forall_inv in Ht.
        rewrite (U_uniq t hd Ht HhU Htip) in HS'. rewrite HS', rev_app_distr. cbn [rev app]. eauto. }
    exists evs. split; [exact HB|].
    destruct (c04_burst_from_cursor_proof s hd sg cur evs W HCn HA HLn Hle HB) as (u & r & jr & _ & _ & _ & _ & _ & K1 & K2 & _).
    split; [exact K1|]. split; [exact K2|].
    intros fuel. rewrite (ca_stack U a e ck P Q L HC).
    destruct (from_cursor_cases s hd sg cur evs W HCn HB) as (_ & Hfast & Hfork).
    destruct (block_in (ri (cu_blk cur)) sg) eqn:Hbin.
    - rewrite (Hfast eq_refl). apply jw_no_undo. apply fast_no_undo. exact G.
    - destruct (Hfork eq_refl) as ((path & j & B) & Hall). destruct (Hall path j B) as (je & Hf & _).
      destruct (Hforked eq_refl path j je B Hf) as (HQ & _ & Hjl). rewrite HQ.
      apply (c04_burst_junction_consumer_proof s hd sg cur path j je P evs W HCn Hbin B Hf); [|exact HB].
      intros Hheld. destruct P as [|t P' _] using rev_ind; [left; reflexivity|]. right. exists P'. f_equal. f_equal.
      assert (EL : L = t) by (unfold L, libblk; rewrite rev_app_distr; reflexivity).
      destruct (junction_facts s hd sg _ path j je W HCn B Hf) as (xj & Hxj & Hxi & Hsent & _ & _).
      pose proof (gs_std _ G) as Hstdg. rewrite Forall_forall in Hstdg. destruct (Hstdg xj Hxj) as [_ Hxjn].
      assert (Ebj : bnum (eb je) = snum xj) by (rewrite <- Hsent, Hxjn; reflexivity).
      assert (Hnlt : ~ rn (cu_lib cur) < snum xj).
      { intros Hlt. assert (Hin : In xj (held_seg (junction_cursor hd cur (mkR j (bnum (eb je)))) sg)).
        { unfold held_seg. apply filter_In. split; [exact Hxj|]. unfold above_clib, not_held, is_undo, junction_cursor.
          cbn [cu_lib cu_blk cu_step matches_undo rn]. rewrite Ebj, N.ltb_irrefl.
          replace (rn (cu_lib cur) <? snum xj) with true by (symmetry; apply N.ltb_lt; exact Hlt). reflexivity. }
        rewrite Hheld in Hin. destruct Hin. }
      assert (xj = xL).
      { apply (good_same_num sg); auto. rewrite Hcl in Hnlt, Hjl. cbn [bref rn] in Hnlt, Hjl. lia. }
      subst xj. rewrite <- EL, <- HbL. unfold seg_blk. rewrite Hsent. reflexivity.
  Qed.
End AtState.

Lemma c04_burst_history_proof : C04_burst_history.
Proof.
  intros first kept h k m ek ck hd sg Hwf Hok cfg tr upto s Hk Hnu Hlt Hck Hls E Hlibin c.
  subst c upto s tr. cbv beta in *. set (s := state_after cfg (fs_init LNone) h m) in *.
  destruct (locate first kept h Hwf Hok k m ek Hk Hnu Hlt)
    as (a & Fin & S & cm & ck0 & P & Q & F0 & B0 & HP & Hc & Hck0 & HC & HF & Hl0 & HF0 & HH & HRt).
  fold cfg in Hck0. rewrite Hck in Hck0. injection Hck0 as <-.
  destruct (burst_at h cfg (bridge_id h Hwf) (bridge_uniq h Hwf) (bridge_up h Hwf) a s Fin S cm HP ek ck P Q F0 B0 hd sg
              HC HF Hl0 HF0 Hnu HH HRt Hls E Hlibin) as (W & HCn & HA & HLn & Hle & Hthr & Htop & evs & HB & K1 & K2 & K3).
  split; [exact W|]. split; [exact HCn|]. split; [exact HA|]. split; [exact HLn|]. split; [exact Hle|]. split; [exact Hthr|].
  exists cm, evs. split; [exact Hc|]. split; [rewrite (po_cons h cfg _ _ _ _ _ HP); exact Htop|].
  split; [exact HB|]. split; [exact K1|]. split; [exact K2 | exact K3].
Qed.
