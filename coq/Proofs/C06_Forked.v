(* C06: cursor on a forked block — the undo walk succeeds (every file present) or fails (one absent). *)
From BV Require Import Base.Prelude Model.Block Model.Burst Model.CursorResolver Check.Burst_Check
  Spec.C06_Spec Proofs.C06_Lists Proofs.C06_Resolver Proofs.C06_Proofs.
Local Open Scope N_scope.

Section Fork.
  Variable c : cursor.
  Variable forked : list block.
  Variable L : block.
  Variables hc later P : list block.      (* P: forked part of the branch up to the cursor block *)

  Hypothesis Hc : chain_ok (L :: hc ++ later).
  Hypothesis HL : bref L = cu_lib c.
  Hypothesis Hbr : branch_from L (hc ++ P).
  Hypothesis HPne : P <> [].
  Hypothesis Hoff : Forall (off_canon (L :: hc ++ later)) P.
  Hypothesis HX : bref (last P L) = cu_blk c.
  Hypothesis Hreach : reached (L :: hc ++ later) c.

  Let j := last hc L.
  Let vis := filter (fun x => rn (cu_lib c) <=? bnum x) forked.

  Lemma fk_asc : asc (L :: hc ++ later).
  Proof. apply chain_ok_asc. exact Hc. Qed.

  Lemma fk_branch_P : branch_from j P.
  Proof. pose proof Hbr as H. apply branch_from_app in H. apply H. Qed.

  Lemma fk_X_in : In (last P L) P.
  Proof.
    destruct P as [|x P']; [congruence|]. rewrite last_cons. apply last_in.
  Qed.

  Lemma fk_P_gt_j : Forall (fun w => bnum j < bnum w) P.
  Proof. apply branch_lt. exact fk_branch_P. Qed.

  Lemma fk_P_le_blk : Forall (fun w => bnum w <= rn (cu_blk c)) P.
  Proof.
    pose proof (asc_last_max P j (branch_asc _ _ fk_branch_P)) as H.
    pose proof (Forall_inv_tail H) as H'. rewrite (last_nonempty _ P j L HPne) in H'.
    destruct (bref_eq _ _ HX) as [_ E]. rewrite E in H'. exact H'.
  Qed.

  Lemma fk_j_lt_blk : bnum j < rn (cu_blk c).
  Proof.
    pose proof fk_P_gt_j as H. rewrite Forall_forall in H. specialize (H _ fk_X_in).
    destruct (bref_eq _ _ HX) as [_ E]. lia.
  Qed.

  Lemma fk_L_le_j : bnum L <= bnum j.
  Proof.
    destruct (seg_numbers _ _ _ fk_asc) as (H & _ & _). exact (Forall_inv H).
  Qed.

  Lemma fk_j_in : In j (L :: hc).
  Proof. apply last_in. Qed.

  (* the block at which the resolver notices the fork *)
  Lemma fk_split :
    exists mid b post, later = mid ++ b :: post /\
      Forall (fun x => bnum x < rn (cu_blk c)) (L :: hc ++ mid) /\
      rn (cu_blk c) <= bnum b /\ bid b <> ri (cu_blk c).
  Proof.
    pose proof fk_asc as Hasc.
    destruct (seg_numbers _ _ _ Hasc) as (Hle & _ & Hlater).
    change (L :: hc ++ later) with ((L :: hc) ++ later) in Hasc.
    destruct (asc_app_inv _ _ Hasc) as (_ & Hlasc & _).
    destruct (asc_split later (rn (cu_blk c)) Hlasc) as (mid & post' & E & Hmid & Hpost).
    assert (Hpre : Forall (fun x => bnum x < rn (cu_blk c)) (L :: hc)).
    { eapply Forall_impl; [|exact Hle]. cbn beta. intros x Hx. pose proof fk_j_lt_blk. fold j in Hx. lia. }
    destruct post' as [|b post].
    - exfalso. pose proof Hreach as (b & Hb & Hge). rewrite E, app_nil_r in Hb.
      change (L :: hc ++ mid) with ((L :: hc) ++ mid) in Hb. apply in_app_or in Hb.
      rewrite Forall_forall in Hpre, Hmid.
      destruct Hb as [Hb|Hb]; [apply Hpre in Hb|apply Hmid in Hb]; lia.
    - exists mid, b, post. split; [exact E|]. split.
      + change (L :: hc ++ mid) with ((L :: hc) ++ mid). apply Forall_app. split; assumption.
      + pose proof (Forall_inv Hpost) as Hb. split; [exact Hb|].
        intro Eid. pose proof Hoff as Hoff'. rewrite Forall_forall in Hoff'. apply (Hoff' _ fk_X_in).
        destruct (bref_eq _ _ HX) as [EX _]. rewrite EX, <- Eid.
        apply in_ids. right. apply in_or_app. right. rewrite E. apply in_or_app. right. left. reflexivity.
  Qed.

  (* facts about the walk that hold for every prefix `seen` of the chain that contains L :: hc *)
  Section Seen.
    Variables seen post : list block.
    Hypothesis Hseen : L :: hc ++ later = seen ++ post.
    Hypothesis Hjseen : In j seen.

    Lemma fk_seen_off : forall w, In w P -> lookup_blk (bid w) seen = None.
    Proof.
      intros w Hw. apply lookup_none. intro Hin. pose proof Hoff as Hoff'. rewrite Forall_forall in Hoff'.
      apply (Hoff' w Hw). rewrite Hseen, ids_app. apply in_or_app. left. exact Hin.
    Qed.

    Lemma fk_seen_j : lookup_blk (bid j) seen = Some j.
    Proof.
      apply lookup_nodup; [|exact Hjseen]. pose proof Hc as [_ Hn].
      rewrite Hseen, ids_app in Hn. eapply nodup_app_l. exact Hn.
    Qed.
  End Seen.

  Lemma fk_P_ge_lib : forall w, In w P -> rn (cu_lib c) <= bnum w.
  Proof.
    intros w Hw. pose proof fk_P_gt_j as H. rewrite Forall_forall in H. specialize (H w Hw).
    pose proof fk_L_le_j. destruct (bref_eq _ _ HL) as [_ E]. lia.
  Qed.

  Lemma fk_wlinked : wlinked (ri (cu_blk c)) (rev P) (bid j).
  Proof.
    pose proof (branch_wlinked P j fk_branch_P) as H.
    rewrite (last_nonempty _ P j L HPne) in H. destruct (bref_eq _ _ HX) as [E _]. rewrite E in H. exact H.
  Qed.

  Lemma fk_P_nodup : NoDup P.
  Proof.
    pose proof (asc_NoDup _ (branch_asc _ _ fk_branch_P)) as H. inversion H; assumption.
  Qed.

  (* ---------------- every needed file present ---------------- *)
  Section Present.
    Hypothesis Hfiles : forall w, In w P -> file_of forked c (bid w) = Some w.

    Lemma fk_fuel : (length (rev P) < S (length vis))%nat.
    Proof.
      rewrite rev_length. apply Nat.lt_succ_r. apply NoDup_incl_length; [exact fk_P_nodup|].
      intros w Hw. pose proof (Hfiles w Hw) as Hf. unfold file_of in Hf.
      apply lookup_some_in in Hf. apply Hf.
    Qed.

    Lemma forked_core :
      resolver_run c false forked rs_init (L :: hc ++ later) =
        (map (undo_event c j) (filter (fun w => negb (skipped c w)) (rev P)) ++
         map (file_event SIrr) hc ++ map (file_event SNewIrr) later, RsOk).
    Proof.
      destruct fk_split as (mid & b & post & Elater & Hpre & Hbge & Hbid).
      pose proof fk_asc as Hasc.
      destruct (seg_numbers _ _ _ Hasc) as (Hle & HLlt & Hlater).
      assert (Ecanon : L :: hc ++ later = ((L :: hc ++ mid) ++ [b]) ++ post).
      { rewrite Elater. cbn [app]. rewrite <- !app_assoc. reflexivity. }
      assert (Hjseen : In j ((L :: hc ++ mid) ++ [b])).
      { apply in_or_app. left. change (L :: hc ++ mid) with ((L :: hc) ++ mid).
        apply in_or_app. left. exact fk_j_in. }
      replace (L :: hc ++ later) with ((L :: hc ++ mid) ++ b :: post)
        by (rewrite Elater; cbn [app]; rewrite <- !app_assoc; reflexivity).
      unfold rs_init. rewrite run_buffer by exact Hpre. rewrite app_nil_l.
      rewrite run_fork by assumption. fold vis.
      rewrite (walk_ok c ((L :: hc ++ mid) ++ [b]) vis (rev P) (ri (cu_blk c)) [] _ j).
      - cbn [app]. f_equal. f_equal. f_equal.
        + (* Irreversible: exactly hc *)
          replace (L :: (hc ++ mid) ++ [b]) with ([L] ++ hc ++ (mid ++ [b]))
            by (cbn [app]; rewrite <- !app_assoc; reflexivity).
          rewrite (sb_app _ [L]), (sb_app _ hc). rewrite (sb_none _ [L]), (sb_all _ hc), (sb_none _ (mid ++ [b])).
          * rewrite app_nil_r. reflexivity.
          * (* mid ++ [b] lies in later, above the junction *)
            assert (Hsub : Forall (fun x => bnum j < bnum x) (mid ++ b :: post)) by (rewrite <- Elater; exact Hlater).
            apply Forall_app in Hsub. destruct Hsub as [Hm Hb']. pose proof (Forall_inv Hb') as Hbj.
            apply Forall_app. split.
            -- eapply Forall_impl; [|exact Hm]. cbn beta. intros x Hx. right. exact Hx.
            -- constructor; [right; exact Hbj|constructor].
          * apply Forall_app in HLlt. destruct HLlt as [HLhc _].
            pose proof (Forall_inv_tail Hle) as Hlehc.
            rewrite Forall_forall in HLhc, Hlehc. rewrite Forall_forall. intros x Hx. destruct (bref_eq _ _ HL) as [_ E]. rewrite <- E.
            split; [apply HLhc|apply Hlehc]; exact Hx.
          * constructor; [|constructor]. left. destruct (bref_eq _ _ HL) as [_ E]. lia.
        + (* new+irreversible: the rest of the chain after the junction *)
          rewrite Elater.
          replace (L :: (hc ++ mid) ++ [b]) with ((L :: hc) ++ (mid ++ [b]))
            by (cbn [app]; rewrite <- !app_assoc; reflexivity).
          rewrite sb_app. rewrite (sb_none _ (L :: hc)), (sb_all _ (mid ++ [b])).
          * cbn [app]. rewrite <- map_app. rewrite <- app_assoc. reflexivity.
          * assert (Hsub : Forall (fun x => bnum j < bnum x) (mid ++ b :: post)) by (rewrite <- Elater; exact Hlater).
            apply Forall_app in Hsub. destruct Hsub as [Hm Hb']. pose proof (Forall_inv Hb') as Hbj.
            (* mid below b *)
            assert (Hmb : Forall (fun x => bnum x < bnum b) mid).
            { change (L :: hc ++ later) with ((L :: hc) ++ later) in Hasc.
              destruct (asc_app_inv _ _ Hasc) as (_ & Hlasc & _). rewrite Elater in Hlasc.
              destruct (asc_app_inv _ _ Hlasc) as (_ & _ & H12).
              eapply Forall_impl; [|exact H12]. cbn beta. intros x Hx. exact (Forall_inv Hx). }
            apply Forall_app. split.
            -- rewrite Forall_forall in Hm, Hmb. rewrite Forall_forall. intros x Hx. split; [apply Hm; exact Hx|].
               specialize (Hmb x Hx). lia.
            -- constructor; [|constructor]. split; [exact Hbj|lia].
          * eapply Forall_impl; [|exact Hle]. cbn beta. intros x Hx. left. exact Hx.
      - exact fk_wlinked.
      - rewrite Forall_forall. intros w Hw. apply in_rev in Hw.
        apply (fk_seen_off _ post Ecanon w Hw).
      - rewrite Forall_forall. intros w Hw. apply in_rev in Hw. apply Hfiles. exact Hw.
      - rewrite Forall_forall. intros w Hw. apply in_rev in Hw. apply fk_P_ge_lib. exact Hw.
      - apply (fk_seen_j _ post Ecanon Hjseen).
      - exact fk_fuel.
    Qed.
  End Present.

  (* ---------------- a needed file absent ---------------- *)
  Section Absent.
    Hypothesis Hsome_or_none :
      forall w, In w P -> file_of forked c (bid w) = Some w \/ file_of forked c (bid w) = None.
    Hypothesis Hmissing : exists m, In m P /\ file_of forked c (bid m) = None.

    Lemma missing_core :
      resolver_run c false forked rs_init (L :: hc ++ later) = ([], RsResolveErr).
    Proof.
      destruct fk_split as (mid & b & post & Elater & Hpre & Hbge & Hbid).
      assert (Ecanon : L :: hc ++ later = ((L :: hc ++ mid) ++ [b]) ++ post).
      { rewrite Elater. cbn [app]. rewrite <- !app_assoc. reflexivity. }
      destruct (first_none (fun w => file_of forked c (bid w)) (rev P)) as (W1 & m & W2 & EW & HW1 & Hm).
      { intros w Hw. apply in_rev in Hw. apply Hsome_or_none. exact Hw. }
      { pose proof Hmissing as (m & Hm & Hn). exists m. split; [apply in_rev in Hm; exact Hm|exact Hn].
      }
      assert (HinW : forall w, In w (W1 ++ m :: W2) -> In w P).
      { intros w Hw. rewrite <- EW in Hw. apply in_rev in Hw. exact Hw. }
      replace (L :: hc ++ later) with ((L :: hc ++ mid) ++ b :: post)
        by (rewrite Elater; cbn [app]; rewrite <- !app_assoc; reflexivity).
      unfold rs_init. rewrite run_buffer by exact Hpre. rewrite app_nil_l.
      rewrite run_fork by assumption. fold vis.
      rewrite (walk_missing c ((L :: hc ++ mid) ++ [b]) vis W1 (ri (cu_blk c)) [] _ (bid m)).
      - reflexivity.
      - pose proof fk_wlinked as H. rewrite EW in H. eapply wlinked_prefix. exact H.
      - rewrite Forall_forall. intros w Hw.
        apply (fk_seen_off _ post Ecanon w). apply HinW. apply in_or_app. left. exact Hw.
      - rewrite Forall_forall. intros w Hw. apply (HW1 w Hw).
      - rewrite Forall_forall. intros w Hw. apply fk_P_ge_lib. apply HinW. apply in_or_app. left. exact Hw.
      - apply (fk_seen_off _ post Ecanon m). apply HinW. apply in_or_app. right. left. reflexivity.
      - exact Hm.
      - (* fuel: the found blocks are distinct files *)
        apply Nat.lt_succ_r. apply NoDup_incl_length.
        + assert (Hnd : NoDup (rev P)) by (apply NoDup_rev; exact fk_P_nodup).
          rewrite EW in Hnd. eapply nodup_app_l. exact Hnd.
        + intros w Hw. specialize (HW1 w Hw). unfold file_of in HW1.
          apply lookup_some_in in HW1. apply HW1.
    Qed.
  End Absent.
End Fork.

(* ------------------------------------------------------------------ the statements *)

Lemma setting_decompose : forall merged c stop bundle L rest hc more,
  setting merged c stop bundle L rest -> branch_from L (hc ++ more) -> Forall (on_canon (L :: rest)) hc ->
  exists later, rest = hc ++ later /\ chain_ok (L :: hc ++ later) /\ later = above (bnum (last hc L)) (L :: rest)
                /\ hc = between (bnum L) (bnum (last hc L)) (L :: rest).
Proof.
  intros merged c stop bundle L rest hc more Hset Hbr Hon.
  pose proof (setting_chain _ _ _ _ _ _ Hset) as Hc.
  apply branch_from_app in Hbr. destruct Hbr as [Hhc _].
  pose proof Hc as [Hl Hn].
  destruct (held_canon_prefix hc L rest Hl Hn Hhc Hon) as (later & ->).
  destruct (seg_filters _ _ _ (chain_ok_asc _ Hc)) as [E1 E2].
  exists later. split; [reflexivity|]. split; [exact Hc|]. split; symmetry; assumption.
Qed.

Lemma skip_none : forall c W, cu_step c <> SUndo -> filter (fun w => negb (skipped c w)) W = W.
Proof.
  intros c W H. apply filter_all. rewrite Forall_forall. intros w _. unfold skipped.
  replace (step_eqb (cu_step c) SUndo) with false; [rewrite andb_false_r; reflexivity|].
  destruct (cu_step c); try reflexivity. congruence.
Qed.

Lemma c06_resume_forked_proof : C06_resume_forked.
Proof.
  intros merged forked c stop bundle L rest hc hf Hset Hst Hbr Hon Hoff Hne HX Hfiles Hreach j.
  destruct (setting_decompose _ _ _ _ _ _ _ _ Hset Hbr Hon) as (later & Erest & Hc & Elater & Ehc).
  rewrite (setting_run _ forked _ _ _ _ _ Hset).
  destruct Hset as (_ & _ & HL). destruct (bref_eq _ _ HL) as [_ ELn].
  split; [|rewrite <- ELn; exact Ehc].
  fold j in Elater. rewrite <- Elater. subst rest.
  rewrite (forked_core c forked L hc later hf Hc HL Hbr Hne Hoff HX Hreach Hfiles).
  rewrite skip_none by exact Hst. reflexivity.
Qed.

Lemma c06_resume_forked_undo_proof : C06_resume_forked_undo.
Proof.
  intros merged forked c stop bundle L rest hc hf X Hset Hst Hbr Hon Hoff HX Hfiles Hreach j.
  destruct (setting_decompose _ _ _ _ _ _ _ _ Hset Hbr Hon) as (later & Erest & Hc & Elater & Ehc).
  rewrite (setting_run _ forked _ _ _ _ _ Hset).
  destruct Hset as (_ & _ & HL). destruct (bref_eq _ _ HL) as [_ ELn].
  split; [|rewrite <- ELn; exact Ehc].
  fold j in Elater. rewrite <- Elater. subst rest.
  assert (Hne : hf ++ [X] <> []) by (destruct hf; discriminate).
  assert (HX' : bref (last (hf ++ [X]) L) = cu_blk c) by (rewrite last_app_one; exact HX).
  rewrite (forked_core c forked L hc later (hf ++ [X]) Hc HL Hbr Hne Hoff HX' Hreach Hfiles).
  f_equal. f_equal. f_equal.
  rewrite rev_app_distr. cbn [rev app filter].
  destruct (bref_eq _ _ HX) as [_ EXn].
  unfold skipped at 1. rewrite Hst. replace (bnum X =? rn (cu_blk c)) with true by (symmetry; apply N.eqb_eq; exact EXn).
  cbn [andb step_eqb negb].
  apply filter_all. rewrite Forall_forall. intros w Hw. apply in_rev in Hw.
  (* blocks below the undone one carry smaller numbers *)
  apply branch_from_app in Hbr. destruct Hbr as [_ Hbr].
  pose proof (branch_asc _ _ Hbr) as Hasc. destruct Hasc as [_ Hasc].
  destruct (asc_app_inv _ _ Hasc) as (_ & _ & H12). rewrite Forall_forall in H12.
  specialize (H12 w Hw). inversion H12; subst.
  unfold skipped. replace (bnum w =? rn (cu_blk c)) with false by (symmetry; apply N.eqb_neq; lia).
  reflexivity.
Qed.

Lemma c06_missing_proof : C06_missing.
Proof.
  intros merged forked c stop bundle L rest hc path Hset Hbr Hon Hoff Hne HX Hsn Hmiss Hreach.
  destruct (setting_decompose _ _ _ _ _ _ _ _ Hset Hbr Hon) as (later & Erest & Hc & _ & _).
  rewrite (setting_run _ forked _ _ _ _ _ Hset).
  destruct Hset as (_ & _ & HL). subst rest.
  apply (missing_core c forked L hc later path Hc HL Hbr Hne Hoff HX Hreach Hsn Hmiss).
Qed.
