(* C07, final blocks only, cursor mode (C07_seamless_cursor_final of Spec/C07_Final_Spec.v): the stateful filter starts
   with the number of the cursor block L (Model/Joining.start_mem).  The argument of Proofs/C07_Final.v with L in the role
   of "the last block delivered": whatever the handler has received so far (a run P0 hanging under L), the blocks the hub
   finalises afterwards continue it - those at or below its last block are dropped by the filter's memory, the first one
   above is its child (final_tail).  The hub's answer to a final cursor is the fast path of blocksFromCursor: the
   retained chain above L, new+irreversible up to the hub's LIB (final_cursor_burst). *)
From Coq Require Import Sorted.
From BV Require Import Base.Prelude Model.Block Model.ForkDB Model.Forkable Model.ForkableLookups Model.Burst Model.Hub
  Model.CursorResolver Model.Joining
  Spec.Consumer Spec.Universe Check.Fk_Check Check.Burst_Check Check.C07_Check
  Spec.C09_Spec Spec.C05_Spec Spec.C06_Spec Spec.C07_Spec Spec.C13_Spec Spec.C07_Compose_Spec Spec.C07_Shapes_Spec Spec.C07_More_Spec
  Spec.C07_Final_Spec Spec.C13_More_Spec
  Spec.C01_Spec Spec.C01_Moving_Spec Spec.C01_Roots_Spec
  Proofs.C06_Lists Proofs.C06_Proofs Proofs.C13_Proofs
  Proofs.C09_Store Proofs.C09_Segment Proofs.C09_Proofs Proofs.C05_Fast Proofs.C05_Forked
  Proofs.Fk.LoopFacts Proofs.Fk.MovingLibDisc Proofs.C02_Proofs Proofs.C01_Roots_Proofs
  Proofs.Hub.ConsFacts Proofs.Hub.HubInv Proofs.Hub.HubFed Proofs.Hub.LinkedRuns Proofs.Hub.C09_History
  Proofs.C07_File Proofs.C07_Live
  Proofs.C07_ComposeStack Proofs.C07_ComposeHub Proofs.C07_ComposeRun Proofs.C07_Compose Proofs.C07_ComposeCheck
  Proofs.C07_ComposeCursor Proofs.C07_ComposeCursorLive
  Proofs.C07_Raw Proofs.C07_Shapes Proofs.C07_Filters Proofs.C07_ChainFacts Proofs.C07_FinalHub Proofs.C07_Final Proofs.C07_FinalMem.
Local Open Scope N_scope.

(* ------------------------------------------------------------------ lists *)

Lemma records_drop n : forall B1 B2, Forall (fun b => bnum b <= n) B1 -> records (Some n) (B1 ++ B2) = records (Some n) B2.
Proof.
  induction B1 as [|b B1 IH]; intros B2 H; [reflexivity|]. cbn [app records].
  replace (bnum b <=? n) with true by (symmetry; apply N.leb_le; exact (Forall_inv H)). apply IH. exact (Forall_inv_tail H).
Qed.

Lemma final_fold_some_lnk l p : lnk p (map eblk l) -> final_fold (Some p) l = true.
Proof. apply final_fold_lnk. Qed.

Lemma last_in_or {A} (l : list A) d : last l d = d \/ In (last l d) l.
Proof.
  destruct l as [|a l]; [left; reflexivity|]. right.
  destruct (exists_last (l := a :: l)) as (q & z & E); [discriminate|]. rewrite E, last_last. apply in_or_app. right. left. reflexivity.
Qed.

Lemma filter_filter' {A} (p q : A -> bool) : forall l, filter p (filter q l) = filter (fun x => q x && p x) l.
Proof.
  induction l as [|x l IH]; [reflexivity|]. cbn [filter]. destruct (q x); cbn [filter andb]; [destruct (p x)|]; rewrite ?IH; reflexivity.
Qed.

Section FinalGen.
  Variable U : list block.
  Variable c : jcfg.
  Variable canon : list block.
  Variable w : world.
  Variable L : block.

  Hypothesis U_id : forall b, In b U -> bid b <> 0 /\ bid b <> bparent b.
  Hypothesis U_uniq : forall x y, In x U -> In y U -> bid x = bid y -> x = y.
  Hypothesis U_up : forall x y, In x U -> In y U -> bparent x = bid y -> bnum y < bnum x.
  Hypothesis D_decl : forall b, In b U -> decl_none U b.

  Hypothesis HcU : Forall (fun x => In x U) canon.
  Hypothesis Hcl : exists x, lnk x canon.
  Hypothesis HLc : In L canon.
  Hypothesis HW : WOK U c w.
  Hypothesis Htip : eventual_tip c w canon.

  Let l := bnum L.
  Let start := l + 1.
  Let first := j_first c.
  Let kept := j_kept c.

  Let HLU : In L U.
  Proof. rewrite Forall_forall in HcU. apply HcU. exact HLc. Qed.
  Let Hsl : exists b, In b canon /\ bnum b <= start.
  Proof. exists L. split; [exact HLc | unfold start, l; lia]. Qed.

  Let lsorted : forall x y, lnk y x -> Forall (fun z => In z U) x -> StronglySorted blt x :=
    fun x y => lnk_sorted U U_id U_uniq U_up x y.

  (* a run that hangs under L lies above L *)
  Lemma under_L_above P : lnk (bid L) P -> Forall (fun z => In z U) P -> Forall (fun b => l < bnum b) P.
  Proof.
    intros Hl HU. assert (Hl' : lnk (bparent L) (L :: P)) by (cbn [lnk]; auto).
    pose proof (lsorted (L :: P) _ Hl' (Forall_cons L HLU HU)) as HS. inversion HS as [|? ? _ Hall]; subst. exact Hall.
  Qed.

  (* ---------------------------------------------------------------- the end of the run (as in C07_Final.v, for any start mode) *)

  Lemma g_end_world wj a Fin A mm :
    wj = world_after c mm w -> LOKX U c a Fin A wj ->
    exists F' Vend hdF cpre,
      VStateX U first kept a (Fin ++ F') A (h_f (w_hub (world_after c (length (w_rest w)) w))) Vend /\
      hd_error Vend = Some hdF /\ canon = cpre ++ [hdF].
  Proof.
    intros Ewj HLX.
    destruct (lokx_push_n U c U_id U_uniq U_up D_decl (length (w_rest wj)) a Fin A wj HLX) as (F' & (Hrd & [Vend HXe] & _) & _ & _ & _).
    assert (Hdone : w_rest (world_after c (length (w_rest wj)) wj) = []).
    { pose proof (world_after_rest c (length (w_rest wj)) wj) as H. rewrite Nat.sub_diag in H.
      destruct (w_rest (world_after c (length (w_rest wj)) wj)); [reflexivity | discriminate]. }
    assert (Eend : world_after c (length (w_rest wj)) wj = world_after c (length (w_rest w)) w).
    { rewrite Ewj, wafter_add in *. apply world_after_done. exact Hdone. }
    rewrite Eend in HXe.
    pose proof (vstatex_vstate U first kept a (Fin ++ F') A _ Vend HXe) as HVe.
    destruct (vstate_facts U first kept U_id U_uniq U_up _ Vend HVe) as (_ & _ & _ & hdF & Hls & Hhd).
    assert (Ecan : exists cpre, canon = cpre ++ [hdF]).
    { apply (Htip (length (w_rest w)) hdF); [rewrite <- Eend; exact Hdone | exact Hls]. }
    destruct Ecan as [cpre Ecan]. exists F', Vend, hdF, cpre. auto.
  Qed.

  Lemma g_final_lib_at wk a Fin' A mm : wk = world_after c mm w -> LOKX U c a Fin' A wk -> w_rest wk = [] ->
    final_lib c w = bnum (libblk a Fin').
  Proof.
    intros Ewk (_ & [Vend HXe] & _) Hdone.
    assert (Eend : wk = world_after c (length (w_rest w)) w).
    { rewrite Ewk in *. apply world_after_done. exact Hdone. }
    destruct (vstatex_rev U first kept U_id U_uniq U_up a Fin' A _ Vend HXe) as (_ & _ & _ & _ & _ & Hlib).
    unfold final_lib. rewrite <- Eend, Hlib. reflexivity.
  Qed.

  (* the hub after the last arrival; Bq ++ [Lend] a run that starts at or below start and ends with its LIB block *)
  Lemma g_end_complete wk a Fin' A mm Bq :
    wk = world_after c mm w -> LOKX U c a Fin' A wk -> w_rest wk = [] ->
    let Lend := libblk a Fin' in
    (exists x, lnk x (Bq ++ [Lend])) -> Forall (fun y => In y U) (Bq ++ [Lend]) ->
    (forall z r, Bq ++ [Lend] = z :: r -> bnum z <= start) ->
    from_num start (Bq ++ [Lend]) = seg_num start (final_lib c w) canon.
  Proof.
    intros Ewk HLX Hdone Lend HlB HBU Hbot.
    rewrite (g_final_lib_at wk a Fin' A mm Ewk HLX Hdone). fold Lend.
    destruct HLX as (Hrd & [Vend HXe] & _).
    pose proof (vstatex_vstate U first kept a Fin' A _ Vend HXe) as HVe.
    destruct (vstate_facts U first kept U_id U_uniq U_up _ Vend HVe) as (HVne & [HVU [xv Hlv]] & _ & hdF & Hls & Hhd).
    destruct (vstatex_rev U first kept U_id U_uniq U_up a Fin' A _ Vend HXe) as (pre' & pend & EAF & Erev & _ & _).
    assert (Ecan : exists cpre, canon = cpre ++ [hdF]).
    { rewrite Ewk in Hdone, Hls. exact (Htip mm hdF Hdone Hls). }
    destruct Ecan as [cpre Ecan].
    destruct Vend as [|v0 V0]; [contradiction|]. cbn [hd_error] in Hhd. injection Hhd as ->.
    apply (final_complete U c canon start U_id U_uniq U_up D_decl HcU Hcl Hsl Bq Lend (rev (hdF :: V0)) hdF cpre (rev V0) HlB HBU Hbot).
    - exists xv. exact Hlv.
    - apply Forall_forall. intros y Hy. apply in_rev in Hy. rewrite Forall_forall in HVU. apply HVU. exact Hy.
    - rewrite Erev. apply in_or_app. left. fold Lend in EAF. rewrite EAF. apply in_or_app. right. left. reflexivity.
    - reflexivity.
    - exact Ecan.
  Qed.

  Lemma g_lokx_of_world wj : WOK U c wj -> h_ready (w_hub wj) = true ->
    exists a Fin A V, LOKX U c a Fin A wj /\ VStateX U first kept a Fin A (h_f (w_hub wj)) V.
  Proof.
    intros [Hok Hrest] Hrd.
    destruct (vstate_of_hub U first kept U_id U_uniq U_up D_decl (w_hub wj) Hok Hrd) as [V HV].
    destruct (vstate_x U first kept _ _ HV) as (a & Fin & A & HX).
    exists a, Fin, A, V. split; [|exact HX]. split; [exact Hrd|]. split; [exists V; exact HX | exact Hrest].
  Qed.

  (* what follows L on canon, restricted to a run Bd that hangs under L *)
  Lemma under_L_from P : lnk (bid L) P -> Forall (fun z => In z U) P -> from_num start (L :: P) = P.
  Proof.
    intros Hl HU. pose proof (under_L_above P Hl HU) as Hab. unfold from_num. cbn [filter].
    replace (start <=? bnum L) with false by (symmetry; apply N.leb_gt; unfold start, l; lia).
    apply C06_Lists.filter_all. eapply Forall_impl; [|exact Hab]. cbn beta. intros b Hb. apply N.leb_le. unfold start. lia.
  Qed.

  (* ---------------------------------------------------------------- the blocks the hub finalises after a run P0 under L *)

  (* what a shape lemma delivers: the run Bd the handler receives in the end *)
  Definition cur_shape (raw : list block) (complete : Prop) : Prop :=
    exists Bd, records (Some l) raw = Bd /\ lnk (bid L) Bd /\
      (complete -> exists hi, final_lib c w <= hi /\ Bd = seg_num start hi canon).

  Lemma final_tail wj mm a Fin A P0 k :
    wj = world_after c mm w -> LOKX U c a Fin A wj ->
    lnk (bid L) P0 -> Forall (fun z => In z U) P0 ->
    let Lj := libblk a Fin in
    let p := last P0 L in
    (p = Lj \/ (In p canon /\ bnum Lj <= bnum p)) ->
    cur_shape (P0 ++ map eblk (filter irr_ev (pushed c k wj))) (w_rest (world_after c k wj) = []).
  Proof.
    intros Ewj HLX HlP HPU Lj p Hp.
    destruct (lokx_push_n U c U_id U_uniq U_up D_decl k a Fin A wj HLX) as (F & HLXe & EF & HlF & HFU). rewrite EF.
    fold Lj in HlF, HFU.
    assert (HFU' : Forall (fun y => In y U) F) by (eapply Forall_impl; [|exact HFU]; cbn beta; tauto).
    pose proof (lsorted F _ HlF HFU') as HSF.
    pose proof (under_L_above P0 HlP HPU) as HPab.
    assert (HpU : In p U).
    { unfold p. destruct (last_in_or P0 L) as [E|E]; [rewrite E; exact HLU | rewrite Forall_forall in HPU; apply HPU; exact E]. }
    assert (Hpl : l <= bnum p).
    { unfold p. destruct (last_in_or P0 L) as [E|E]; [rewrite E; unfold l; lia|]. rewrite Forall_forall in HPab. specialize (HPab _ E). lia. }
    assert (Htipp : tip (bid L) P0 = bid p).
    { unfold p. rewrite (tip_last (bid L) P0 L). destruct P0; reflexivity. }
    assert (Ewk : world_after c k wj = world_after c (mm + k) w) by (rewrite Ewj; apply wafter_add).
    assert (EL : last F Lj = libblk a (Fin ++ F)) by (symmetry; apply libblk_last).
    destruct (sorted_split_above (bnum p) F HSF) as (F1 & F2 & EF12 & HF1 & HF2 & Hfil).
    (* what the memory lets through *)
    assert (Erec : records (Some l) (P0 ++ F) = P0 ++ F2).
    { destruct P0 as [|b0 P0'] using rev_ind.
      - cbn [app]. unfold p in *. cbn [last] in *. rewrite (records_filter l F HSF). exact Hfil.
      - clear IHP0'. unfold p in *. rewrite last_last in *.
        rewrite (records_app_kept P0' b0 (Some l) F (lsorted _ _ HlP HPU) HPab), (records_filter (bnum b0) F HSF), Hfil. reflexivity. }
    (* the first block the hub finalises above p is its child *)
    assert (Hchild : forall f F2', F2 = f :: F2' -> bparent f = bid p /\ lnk (bid f) F2').
    { intros f F2' E2. rewrite E2 in HF2, EF12. clear Hfil Erec.
      assert (Hfgt : bnum p < bnum f) by exact (Forall_inv HF2).
      assert (Hlf : lnk (bid Lj) (F1 ++ f :: F2')) by (rewrite <- EF12; exact HlF).
      assert (Hfpar : bparent f = tip (bid Lj) F1) by exact (linked_mid _ _ _ _ Hlf).
      split; [|apply linked_app_iff in Hlf as [_ H]; cbn [lnk] in H; tauto].
      destruct Hp as [EpL|[Hpc HLp]].
      - (* p is the hub's LIB block: everything it finalises lies above *)
        destruct F1 as [|q1 F1']; [rewrite Hfpar, EpL; reflexivity|]. exfalso.
        pose proof (Forall_inv HF1) as H1. cbn beta in H1.
        assert (H2 : bnum Lj < bnum q1).
        { rewrite Forall_forall in HFU. apply HFU. rewrite EF12. left. reflexivity. }
        rewrite EpL in H1. lia.
      - (* one run holds p and Lj :: F *)
        destruct (g_end_world (world_after c k wj) a (Fin ++ F) A (mm + k)%nat Ewk HLXe) as (F' & Vend & hdF & cpre & HXe & Hhde & Ecan).
        pose proof (vstatex_vstate U first kept a ((Fin ++ F) ++ F') A _ Vend HXe) as HVe.
        destruct (vstate_facts U first kept U_id U_uniq U_up _ Vend HVe) as (HVne & [HVU [xv Hlv]] & _).
        destruct (vstatex_rev U first kept U_id U_uniq U_up a ((Fin ++ F) ++ F') A _ Vend HXe) as (_ & pende & _ & Ereve & _ & _).
        destruct HLX as (_ & [Vj HXj] & _).
        destruct (vstatex_rev U first kept U_id U_uniq U_up a Fin A _ Vj HXj) as (prej & _ & EAFj & _ & _ & _). fold Lj in EAFj.
        destruct Vend as [|v0 V0]; [contradiction|]. cbn [hd_error] in Hhde. injection Hhde as ->.
        assert (HWU : Forall (fun y => In y U) (rev (hdF :: V0))).
        { apply Forall_forall. intros y Hy. apply in_rev in Hy. rewrite Forall_forall in HVU. apply HVU. exact Hy. }
        destruct (common_chain U canon U_uniq HcU Hcl (rev (hdF :: V0)) (rev V0) hdF cpre (ex_intro _ xv Hlv) HWU eq_refl Ecan)
          as (C & HlC & HCU & HWC & HcC).
        assert (HinW : forall y, In y (Lj :: F) -> In y C).
        { intros y Hy. apply HWC. rewrite Ereve. apply in_or_app. left. rewrite !app_assoc.
          apply in_or_app. left. destruct Hy as [<-|Hy].
          - apply in_or_app. left. rewrite EAFj. apply in_or_app. right. left. reflexivity.
          - apply in_or_app. right. exact Hy. }
        assert (HfC : In f C) by (apply HinW; right; rewrite EF12; apply in_or_app; right; left; reflexivity).
        assert (HpC : In p C) by (apply HcC; exact Hpc).
        destruct F1 as [|q1 F1' _] using rev_ind.
        + assert (E : Lj = p).
          { apply (child_on_chain U c U_id U_uniq U_up D_decl C p Lj f HlC HCU HpC (HinW Lj (or_introl eq_refl)) HfC Hfpar HLp Hfgt). }
          rewrite Hfpar. cbn. rewrite E. reflexivity.
        + rewrite tip_snoc in Hfpar.
          assert (Hq1 : bnum q1 <= bnum p).
          { rewrite Forall_forall in HF1. apply HF1. apply in_or_app. right. left. reflexivity. }
          assert (Hq1C : In q1 C).
          { apply HinW. right. rewrite EF12. apply in_or_app. left. apply in_or_app. right. left. reflexivity. }
          assert (E : q1 = p) by (apply (child_on_chain U c U_id U_uniq U_up D_decl C p q1 f HlC HCU HpC Hq1C HfC Hfpar Hq1 Hfgt)).
          rewrite Hfpar, E. reflexivity. }
    assert (HlBd : lnk (bid L) (P0 ++ F2)).
    { apply linked_app_iff. split; [exact HlP|]. rewrite Htipp. destruct F2 as [|f F2']; [exact I|].
      destruct (Hchild f F2' eq_refl) as [H1 H2]. cbn [lnk]. auto. }
    assert (HF2U : Forall (fun y => In y U) F2) by (rewrite EF12 in HFU'; apply Forall_app in HFU' as [_ H]; exact H).
    assert (HBdU : Forall (fun y => In y U) (P0 ++ F2)) by (apply Forall_app; split; assumption).
    exists (P0 ++ F2). split; [exact Erec|]. split; [exact HlBd|].
    intros Hdone.
    pose proof (g_final_lib_at (world_after c k wj) a (Fin ++ F) A (mm + k)%nat Ewk HLXe Hdone) as Eflib. rewrite <- EL in Eflib.
    (* the run L :: Bd against canon *)
    assert (HlLBd : lnk (bparent L) (L :: P0 ++ F2)) by (cbn [lnk]; auto).
    assert (HbotL : forall z r, L :: P0 ++ F2 = z :: r -> bnum z <= start).
    { intros z r Ez. injection Ez as <- _. unfold start, l. lia. }
    destruct F2 as [|f F2'].
    - (* nothing above p was finalised *)
      rewrite app_nil_r in *.
      assert (Hflp : final_lib c w <= bnum p).
      { rewrite Eflib, EF12. destruct F1 as [|q1 F1' _] using rev_ind.
        - cbn [last]. destruct Hp as [E|[_ H]]; [rewrite E; lia | exact H].
        - rewrite last_last. rewrite Forall_forall in HF1. apply HF1. apply in_or_app. right. left. reflexivity. }
      destruct P0 as [|b0 P0' _] using rev_ind.
      + exists l. split; [unfold p in Hflp; cbn [last] in Hflp; exact Hflp|].
        symmetry. unfold seg_num. apply C06_Lists.filter_none. apply Forall_forall. intros y _.
        apply andb_false_iff. destruct (N.leb_spec start (bnum y)) as [H|H]; [right; apply N.leb_gt; unfold start in H; lia | left; reflexivity].
      + unfold p in *. rewrite last_last in *. exists (bnum b0). split; [exact Hflp|].
        rewrite <- (under_L_from (P0' ++ [b0]) HlP HPU).
        destruct Hp as [E|[Hpc _]].
        * (* b0 is the hub's last LIB block *)
          assert (EF0 : F = []).
          { rewrite EF12. destruct F1 as [|q1 F1']; [reflexivity|]. exfalso.
            pose proof (Forall_inv HF1) as H1. cbn beta in H1.
            assert (H2 : bnum Lj < bnum q1) by (rewrite Forall_forall in HFU; apply HFU; rewrite EF12; left; reflexivity).
            rewrite E in H1. lia. }
          rewrite EF0, app_nil_r in HLXe.
          pose proof (g_end_complete (world_after c k wj) a Fin A (mm + k)%nat (L :: P0') Ewk HLXe Hdone) as H. cbv zeta in H.
          fold Lj in H. rewrite <- E in H. change ((L :: P0') ++ [b0]) with (L :: P0' ++ [b0]) in H.
          rewrite (g_final_lib_at (world_after c k wj) a Fin A (mm + k)%nat Ewk HLXe Hdone) in H. fold Lj in H. rewrite <- E in H.
          apply H; [eexists; exact HlLBd | constructor; [exact HLU | exact HPU] | exact HbotL].
        * change (L :: P0' ++ [b0]) with ((L :: P0') ++ [b0]).
          apply (top_on_canon U canon start U_id U_uniq U_up HcU Hcl Hsl (L :: P0') b0); [eexists; exact HlLBd | constructor; [exact HLU | exact HPU] | exact HbotL | exact Hpc].
    - (* the run ends with the hub's last LIB block *)
      exists (final_lib c w). split; [lia|].
      rewrite <- (under_L_from (P0 ++ f :: F2') HlBd HBdU).
      destruct (x_cons_last f F2') as [l' El'].
      assert (ELk : last F2' f = libblk a (Fin ++ F)).
      { rewrite <- EL, EF12, last_app_ne' by discriminate. symmetry. apply last_shift. }
      rewrite ELk in El'.
      assert (Eall : L :: P0 ++ f :: F2' = (L :: P0 ++ l') ++ [libblk a (Fin ++ F)]).
      { cbn [app]. f_equal. rewrite <- app_assoc. f_equal. exact El'. }
      rewrite Eall.
      apply (g_end_complete (world_after c k wj) a (Fin ++ F) A (mm + k)%nat (L :: P0 ++ l') Ewk HLXe Hdone).
      + eexists. rewrite <- Eall. exact HlLBd.
      + rewrite <- Eall. constructor; [exact HLU | exact HBdU].
      + rewrite <- Eall. exact HbotL.
  Qed.
End FinalGen.

(* ------------------------------------------------------------------ the hub's answer to a final cursor *)

Section FinalBurst.
  Variable U : list block.
  Variables first kept : N.
  Hypothesis U_id : forall b, In b U -> bid b <> 0 /\ bid b <> bparent b.
  Hypothesis U_uniq : forall x y, In x U -> In y U -> bid x = bid y -> x = y.
  Hypothesis U_up : forall x y, In x U -> In y U -> bparent x = bid y -> bnum y < bnum x.

  Lemma irr_fast s hd cu : forall hi, Forall seg_std hi ->
    map eblk (filter irr_ev (map (fast_event s hd cu) hi)) =
    filter (fun b => bnum b <=? rn (libref (db s))) (map seg_blk hi).
  Proof.
    induction hi as [|y hi IH]; intros Hstd; [reflexivity|].
    pose proof (Forall_inv Hstd) as [_ Hn]. cbn [map filter].
    unfold irr_ev at 1. unfold fast_event at 1. cbn [estep]. unfold fast_step, final_now. rewrite Hn.
    destruct (bnum (seg_blk y) <=? rn (libref (db s))).
    - replace (matches_irr (if not_held cu y then SNewIrr else SIrr)) with true by (destruct (not_held cu y); reflexivity).
      cbn [map eblk fast_event]. rewrite (IH (Forall_inv_tail Hstd)). reflexivity.
    - cbn [matches_irr]. apply IH. exact (Forall_inv_tail Hstd).
  Qed.

  (* cursor block = cursor LIB block = L: the answer is the retained chain above L, new+irreversible up to the hub's LIB *)
  Lemma final_cursor_burst a Fin A s V cu L burst :
    VStateX U first kept a Fin A s V -> bref L = cu_lib cu -> bref L = cu_blk cu -> In L U ->
    matches_undo (cu_step cu) = false ->
    blocks_from_cursor s cu = BOk burst ->
    exists B, map eblk burst = B /\ lnk (bid L) B /\ Forall (fun y => In y U) B /\
      map eblk (filter irr_ev burst) = filter (fun b => bnum b <=? bnum (libblk a Fin)) B /\
      (bnum L < bnum (libblk a Fin) -> In (libblk a Fin) B).
  Proof.
    intros HX HL HLb HLU Hnu Hb. pose proof (vstatex_vstate U first kept a Fin A s V HX) as HV.
    destruct (bref_eq _ _ HL) as [ELi ELn]. destruct (bref_eq _ _ HLb) as [EBi EBn].
    assert (HKf : @nil block = (if is_undo cu then [] ++ [L] else [])) by (unfold is_undo; rewrite Hnu; reflexivity).
    destruct (cursor_burst U first kept U_id U_uniq U_up s V cu L L [] [] burst HV HL HLU HLb HLU HKf I (Forall_nil _) eq_refl Hb)
      as (hd & sg & lo & xL & hi & Hls & Eseg & Hgood & Hsplit & HbL & Hlhi & HhiU & _).
    destruct (vstatex_rev U first kept U_id U_uniq U_up a Fin A s V HX) as (_ & _ & _ & _ & _ & Hlib).
    assert (Hm : rn (libref (db s)) = bnum (libblk a Fin)) by (rewrite Hlib; reflexivity).
    pose proof Hgood as [Hstd _ _ _].
    assert (HxLin : In xL sg) by (rewrite Hsplit; apply in_or_app; right; left; reflexivity).
    assert (HxLstd : seg_std xL) by (rewrite Forall_forall in Hstd; apply Hstd; exact HxLin).
    destruct HxLstd as [HxLid HxLn]. rewrite HbL in HxLid, HxLn.
    destruct (good_seg_split sg lo xL hi Hgood Hsplit) as (Hlo & Hhi & _ & _). rewrite HxLn in Hlo, Hhi.
    (* the fast path *)
    assert (Eblk : block_in (ri (cu_blk cu)) sg = true).
    { apply block_in_spec. exists xL. split; [exact HxLin | congruence]. }
    assert (Elib : block_in (ri (cu_lib cu)) sg = true).
    { apply block_in_spec. exists xL. split; [exact HxLin | congruence]. }
    destruct (c05_fast_path_shape_proof s hd sg cu Hgood) as (Hshape & _ & Hloop).
    unfold blocks_from_cursor in Hb.
    destruct (has_lib (db s)); [|discriminate]. cbn [negb] in Hb. rewrite Hls, Eseg in Hb.
    destruct sg as [|s0 sg0] eqn:Esg; [destruct lo; discriminate|]. rewrite <- Esg in *.
    destruct (rn (cu_lib cu) <? snum s0); [discriminate|].
    unfold fuel_of in Hb. rewrite (Hloop _ Eblk Elib) in Hb. injection Hb as <-. rewrite Hshape.
    assert (Ekeep : filter (fast_keep s cu) sg = hi).
    { rewrite Hsplit, filter_app. cbn [filter].
      rewrite (C06_Lists.filter_none _ _ lo), (C06_Lists.filter_all _ _ hi).
      - unfold fast_keep at 1, above_clib. rewrite <- ELn, HxLn, N.ltb_irrefl. reflexivity.
      - apply Forall_forall. intros y Hy. specialize (Hhi y Hy). unfold fast_keep, above_clib, not_held.
        rewrite <- ELn, <- EBn. replace (bnum L <? snum y) with true by (symmetry; apply N.ltb_lt; exact Hhi).
        cbn [andb orb]. apply orb_true_r.
      - apply Forall_forall. intros y Hy. specialize (Hlo y Hy). unfold fast_keep, above_clib.
        rewrite <- ELn. replace (bnum L <? snum y) with false by (symmetry; apply N.ltb_ge; lia). reflexivity. }
    rewrite Ekeep.
    assert (Hhistd : Forall seg_std hi).
    { apply Forall_forall. intros y Hy. rewrite Forall_forall in Hstd. apply Hstd. rewrite Hsplit. apply in_or_app. right. right. exact Hy. }
    exists (map seg_blk hi). split; [rewrite map_map; reflexivity|]. split; [exact Hlhi|]. split; [exact HhiU|].
    split; [rewrite (irr_fast s hd cu hi Hhistd), Hm; reflexivity|].
    intros Hlt.
    destruct (vstatex_segment U first kept U_id U_uniq U_up a Fin A s V hd sg HX Hls Eseg) as (lo2 & xLj & hi2 & Hsplit2 & HbLj & _).
    assert (HxLjin : In xLj sg) by (rewrite Hsplit2; apply in_or_app; right; left; reflexivity).
    assert (HxLjn : snum xLj = bnum (libblk a Fin)).
    { rewrite Forall_forall in Hstd. destruct (Hstd xLj HxLjin) as [_ H]. rewrite H, HbLj. reflexivity. }
    rewrite <- HbLj. apply in_map. rewrite Hsplit in HxLjin. apply in_app_or in HxLjin as [H|[H|H]].
    - specialize (Hlo xLj H). lia.
    - subst xLj. lia.
    - exact H.
  Qed.
End FinalBurst.

(* ------------------------------------------------------------------ cursor mode *)

Section FinalCur.
  Variable U : list block.
  Variable c : jcfg.
  Variable w : world.
  Variable ps : list (N * N).
  Variable merged_end : N.
  Variables canon forked : list block.
  Variable cu : cursor.
  Variable L : block.
  Variable rest : list block.

  Hypothesis U_id : forall b, In b U -> bid b <> 0 /\ bid b <> bparent b.
  Hypothesis U_uniq : forall x y, In x U -> In y U -> bid x = bid y -> x = y.
  Hypothesis U_up : forall x y, In x U -> In y U -> bparent x = bid y -> bnum y < bnum x.
  Hypothesis D_decl : forall b, In b U -> decl_none U b.

  Hypothesis Hchain : chain_ok canon.
  Hypothesis Hincl : incl canon U.
  Hypothesis HW : WOK U c w.
  Hypothesis Htip : eventual_tip c w canon.
  Hypothesis Hmode : j_mode c = 1.
  Hypothesis Hcur : j_cursor c = Some cu.
  Hypothesis Hfilter : j_filter c = 1.
  Hypothesis Hbundle : 0 < j_bundle c.

  Let merged := filter (fun b => bnum b <? merged_end) canon.
  Hypothesis Hbound : Forall (fun b => bnum b < file_bound) merged.
  Hypothesis Hfin : on_final_block cu = true.

  Let lib := rn (cu_lib cu).
  Hypothesis Hfrom : from_num lib canon = L :: rest.
  Hypothesis HL : bref L = cu_lib cu.
  Hypothesis HLb : bref L = cu_blk cu.

  Let res := stream_run c w ps merged_end merged forked.
  Let stopf := if j_stop c =? 0 then file_bound else j_stop c.
  Let bound := (stopf / j_bundle c + 1) * j_bundle c.
  Let mend := N.min merged_end bound.
  Let fend0 := file_end c merged_end.
  Let rest' := filter (fun b => bnum b <? mend) rest.
  Let first := j_first c.
  Let kept := j_kept c.

  Let HcU : Forall (fun x => In x U) canon.
  Proof. apply Forall_forall. exact Hincl. Qed.
  Let Hcl : exists x, lnk x canon := lnk_of_chain_ok canon Hchain.
  Let Hasc : asc canon := chain_ok_asc canon Hchain.
  Let HmU : forall b, In b merged -> In b U.
  Proof. intros b Hb. apply Hincl. unfold merged in Hb. apply filter_In in Hb as [Hb _]. exact Hb. Qed.
  Let ELn : bnum L = lib.
  Proof. destruct (bref_eq _ _ HL) as [_ E]. exact E. Qed.
  Let EBn : rn (cu_blk cu) = bnum L.
  Proof. destruct (bref_eq _ _ HLb) as [_ E]. symmetry. exact E. Qed.
  Let EBi : ri (cu_blk cu) = bid L.
  Proof. destruct (bref_eq _ _ HLb) as [E _]. symmetry. exact E. Qed.

  Lemma fc_Hnu : matches_undo (cu_step cu) = false.
  Proof.
    unfold on_final_block in Hfin. apply andb_true_iff in Hfin as [_ H]. destruct (cu_step cu); try discriminate; reflexivity.
  Qed.

  Lemma fc_HLc : In L canon.
  Proof.
    assert (H : In L (from_num lib canon)) by (rewrite Hfrom; left; reflexivity).
    unfold from_num in H. apply filter_In in H as [H _]. exact H.
  Qed.

  Lemma fc_Hrestc : forall x, In x rest -> In x canon.
  Proof.
    intros x Hx. assert (H : In x (from_num lib canon)) by (rewrite Hfrom; right; exact Hx).
    unfold from_num in H. apply filter_In in H as [H _]. exact H.
  Qed.

  Lemma fc_rest_above : Forall (fun y => bnum L < bnum y) rest.
  Proof.
    pose proof (asc_filter (fun b => lib <=? bnum b) canon Hasc) as Ha. fold (from_num lib canon) in Ha. rewrite Hfrom in Ha.
    destruct Ha as [Hall _]. exact Hall.
  Qed.

  Lemma fc_HD : file_delivery merged lib stopf (j_bundle c) = filter (fun b => bnum b <? mend) (L :: rest).
  Proof.
    unfold file_delivery, merged. fold bound. rewrite <- Hfrom. unfold from_num. rewrite !filter_filter'.
    apply filter_ext. intros b. unfold mend.
    destruct (N.ltb_spec (bnum b) merged_end), (N.leb_spec lib (bnum b)), (N.ltb_spec (bnum b) bound),
             (N.ltb_spec (bnum b) (N.min merged_end bound)); cbn [andb]; try reflexivity; lia.
  Qed.

  (* the first bundle of the file source (that of the cursor LIB) exists as soon as L is in the merged files *)
  Lemma fc_fend0_old : bnum L < merged_end -> fend0 = (if negb (j_stop c =? 0) && ((j_stop c / j_bundle c + 1) * j_bundle c <=? merged_end) then JStop else JNil).
  Proof.
    intros HLm. unfold fend0, file_end, first_bundle_ok. rewrite Hmode, Hcur. cbn [N.eqb Pos.eqb]. fold lib.
    assert (Hb0 : j_bundle c <> 0) by lia.
    pose proof (N.mul_div_le lib (j_bundle c) Hb0) as Hdiv.
    replace (lib / j_bundle c * j_bundle c <? merged_end) with true; [rewrite andb_true_r; reflexivity|].
    symmetry. apply N.ltb_lt. rewrite <- ELn in Hdiv. nia.
  Qed.

  Lemma fc_mend_all : bnum L < merged_end -> fend0 = JNil -> forall b, In b canon -> (bnum b <? mend) = (bnum b <? merged_end).
  Proof.
    intros HLm Hf b Hb. rewrite (fc_fend0_old HLm) in Hf. unfold mend, bound, stopf.
    destruct (N.ltb_spec (bnum b) merged_end) as [Hlt|Hge].
    - apply N.ltb_lt. apply N.min_glb_lt; [exact Hlt|].
      case_eq (j_stop c =? 0); intros E0; rewrite E0 in Hf; cbn [negb andb] in Hf.
      + assert (Hbm : In b merged) by (unfold merged; apply filter_In; split; [exact Hb | apply N.ltb_lt; exact Hlt]).
        rewrite Forall_forall in Hbound. specialize (Hbound b Hbm).
        pose proof (N.mul_succ_div_gt file_bound (j_bundle c)) as H. rewrite <- N.add_1_r in H. nia.
      + destruct (N.leb_spec ((j_stop c / j_bundle c + 1) * j_bundle c) merged_end) as [Hle|Hgt]; [discriminate|]. lia.
    - apply N.ltb_ge. lia.
  Qed.

  Lemma fc_run_files :
    run_files c (run_start c w) merged_end merged forked =
    (fst (from_cursor_run merged forked cu stopf (j_bundle c)),
     match snd (from_cursor_run merged forked cu stopf (j_bundle c)) with
     | RsOk => fend0 | RsResolveErr => JInvalidArg | RsNotImplemented => JOther | RsFuel => JFuel end).
  Proof.
    unfold run_files. fold fend0. rewrite Hmode, Hcur. cbn [N.eqb Pos.eqb].
    change (if j_stop c =? 0 then 1000000000000 else j_stop c) with stopf.
    destruct (from_cursor_run merged forked cu stopf (j_bundle c)) as [fevs r]. reflexivity.
  Qed.

  (* the files: nothing (the cursor block is not in them), or the merged blocks after L as new+irreversible *)
  Lemma fc_files :
    (from_cursor_run merged forked cu stopf (j_bundle c) = ([], RsOk) /\ mend <= bnum L) \/
    (from_cursor_run merged forked cu stopf (j_bundle c) = (map fev rest', RsOk) /\
     lnk (bid L) rest' /\ (forall b, In b rest' -> In b merged) /\ bnum L < merged_end).
  Proof.
    pose proof (merged_chain_ok canon merged_end Hchain) as Hmok. fold merged in Hmok.
    set (D := file_delivery merged lib stopf (j_bundle c)).
    destruct (bnum L <? mend) eqn:ELm.
    { right.
      assert (HD' : D = L :: rest') by (unfold D; rewrite fc_HD; cbn [filter]; rewrite ELm; reflexivity).
      assert (Hset : setting merged cu stopf (j_bundle c) L rest') by (split; [exact Hmok|]; split; [exact HD' | exact HL]).
      split.
      - rewrite (c06_resume_on_chain_proof merged forked cu stopf (j_bundle c) L rest' L Hset fc_Hnu (or_introl eq_refl) HLb).
        fold lib. rewrite EBn, ELn. f_equal.
        assert (Eb : between lib lib (L :: rest') = []).
        { unfold between. apply C06_Lists.filter_none. apply Forall_forall. intros y _.
          destruct (N.ltb_spec lib (bnum y)), (N.leb_spec (bnum y) lib); cbn [andb]; try reflexivity; lia. }
        assert (Ea : above lib (L :: rest') = rest').
        { unfold above. cbn [filter]. rewrite <- ELn, N.ltb_irrefl. apply C06_Lists.filter_all.
          apply Forall_forall. intros y Hy. unfold rest' in Hy. apply filter_In in Hy as [Hy _].
          pose proof fc_rest_above as H. rewrite Forall_forall in H. apply N.ltb_lt. exact (H y Hy). }
        rewrite Eb, Ea. reflexivity.
      - destruct (c06_delivery_segment_proof merged lib stopf (j_bundle c) Hmok) as [_ HDok]. fold D in HDok. rewrite HD' in HDok.
        destruct (lnk_of_chain_ok _ HDok) as [x Hx]. cbn [lnk] in Hx. split; [apply Hx|]. split; [|apply N.ltb_lt in ELm; unfold mend in ELm; lia].
        intros b Hb. assert (H : In b D) by (rewrite HD'; right; exact Hb). unfold D, file_delivery in H. apply filter_In in H as [H _]. exact H. }
    left. split; [|apply N.ltb_ge; exact ELm]. unfold from_cursor_run. fold lib. fold D. unfold D. rewrite fc_HD. cbn [filter]. rewrite ELm.
    rewrite (C06_Lists.filter_none _ _ rest); [reflexivity|].
    apply N.ltb_ge in ELm. eapply Forall_impl; [|exact fc_rest_above]. cbn beta. intros y Hy. apply N.ltb_ge. lia.
  Qed.

  Notation cshape := (cur_shape c canon w L).

  Lemma fc_rest'_U : lnk (bid L) rest' -> (forall b, In b rest' -> In b merged) -> Forall (fun y => In y U) rest'.
  Proof. intros _ H. apply Forall_forall. intros y Hy. apply HmU, H, Hy. Qed.

  (* ---------------------------------------------------------------- the three shapes *)

  Lemma fc_live burst k :
    h_ready (w_hub w) = true -> blocks_from_cursor (h_f (w_hub w)) cu = BOk burst ->
    cshape (map eblk (filter irr_ev (burst ++ pushed c k w))) (w_rest (world_after c k w) = []).
  Proof.
    intros Hrd Hb. pose proof fc_HLc as HLc. assert (HLU : In L U) by (apply Hincl; exact HLc).
    destruct (g_lokx_of_world U c U_id U_uniq U_up D_decl w HW Hrd) as (a & Fin & A & V & HLX & HX).
    destruct (final_cursor_burst U first kept U_id U_uniq U_up a Fin A _ V cu L burst HX HL HLb HLU fc_Hnu Hb)
      as (B & Emap & HlB & HBU & Eirr & HLjin).
    set (Lj := libblk a Fin) in *.
    rewrite filter_irr_app, map_app, Eirr.
    assert (Ew0 : w = world_after c 0 w) by reflexivity.
    pose proof (under_L_above U canon L U_id U_uniq U_up HcU HLc B HlB HBU) as HBab.
    destruct (N.lt_ge_cases (bnum L) (bnum Lj)) as [Hlt|Hge].
    - (* the hub's LIB is above the cursor: the answer is new+irreversible up to the LIB block *)
      apply in_split in HLjin as (pre & post & EB); [|exact Hlt].
      assert (HSB : StronglySorted blt B) by (apply (lnk_sorted U U_id U_uniq U_up B (bid L)); assumption).
      assert (Efil : filter (fun b => bnum b <=? bnum Lj) B = pre ++ [Lj]) by (rewrite EB; apply sorted_filter_le; rewrite <- EB; exact HSB).
      rewrite Efil.
      apply (final_tail U c canon w L U_id U_uniq U_up D_decl HcU Hcl HLc Htip w 0%nat a Fin A (pre ++ [Lj]) k Ew0 HLX).
      + rewrite EB in HlB. change (Lj :: post) with ([Lj] ++ post) in HlB. rewrite app_assoc in HlB. eapply linked_prefix. exact HlB.
      + rewrite EB in HBU. change (Lj :: post) with ([Lj] ++ post) in HBU. rewrite app_assoc in HBU. apply Forall_app in HBU as [H _]. exact H.
      + left. rewrite last_last. reflexivity.
    - (* the hub's LIB is at or below the cursor: nothing of the answer is final *)
      rewrite (C06_Lists.filter_none _ _ B).
      + apply (final_tail U c canon w L U_id U_uniq U_up D_decl HcU Hcl HLc Htip w 0%nat a Fin A [] k Ew0 HLX I (Forall_nil _)).
        right. cbn [last]. split; [exact HLc | exact Hge].
      + eapply Forall_impl; [|exact HBab]. cbn beta. intros y Hy. apply N.leb_gt. fold Lj. lia.
  Qed.

  Lemma fc_join m Dpre bn D' lowest burst k :
    lnk (bid L) rest' -> (forall b, In b rest' -> In b merged) ->
    rest' = Dpre ++ bn :: D' ->
    join_try c (world_after c m w) lowest (fev bn) = Some burst ->
    cshape (map eblk (filter irr_ev (map fev Dpre ++ burst ++ pushed c k (world_after c m w))))
           (w_rest (world_after c k (world_after c m w)) = []).
  Proof.
    intros Hlr Hrm ED Ej. set (wj := world_after c m w) in *.
    pose proof fc_HLc as HLc. assert (HLU : In L U) by (apply Hincl; exact HLc).
    pose proof (fc_rest'_U Hlr Hrm) as HrU.
    pose proof (wok_after U c U_id U_uniq U_up D_decl m w HW) as HWj. fold wj in HWj.
    assert (Hmode2 : (j_mode c =? 2) = false) by (rewrite Hmode; reflexivity).
    destruct (join_mode0 c wj lowest (fev bn) burst Hmode2 Ej) as (Hb & Hrd & _). cbn [eblk file_event] in Hb.
    assert (Hbn : In bn merged) by (apply Hrm; rewrite ED; apply in_or_app; right; left; reflexivity).
    destruct (g_lokx_of_world U c U_id U_uniq U_up D_decl wj HWj Hrd) as (a & Fin & A & V & HLX & HX).
    pose proof (vstatex_vstate U first kept a Fin A _ V HX) as HV.
    destruct (id_joins U c U_id U_uniq U_up merged HmU w Hmode2 m lowest bn burst Hbn Ej) as [_ HJ].
    destruct (HJ V HV) as (hd & sufb & l0 & Hhd & Hmap & Hnew & HbU & Hlsuf & Hlast).
    destruct (burst_irr U c U_id U_uniq U_up D_decl a Fin A _ V (bnum bn) burst HX Hb) as [Hirr1 Hirr2].
    set (Lj := libblk a Fin) in *.
    assert (HDpU : Forall (fun y => In y U) Dpre).
    { rewrite ED in HrU. apply Forall_app in HrU as [H _]. exact H. }
    assert (HlDbn : lnk (bid L) (Dpre ++ [bn])).
    { rewrite ED in Hlr. change (bn :: D') with ([bn] ++ D') in Hlr. rewrite app_assoc in Hlr. eapply linked_prefix. exact Hlr. }
    assert (HlDpre : lnk (bid L) Dpre) by (eapply linked_prefix; exact HlDbn).
    rewrite !filter_irr_app, !map_app.
    assert (Ef : map eblk (filter irr_ev (map fev Dpre)) = Dpre).
    { rewrite (C06_Lists.filter_all _ _ (map fev Dpre)); [apply map_eblk_fev|].
      apply Forall_forall. intros e He. apply in_map_iff in He as (b & <- & _). reflexivity. }
    rewrite Ef.
    destruct (N.le_gt_cases (bnum bn) (bnum Lj)) as [Hle|Hgt].
    - (* the join is at or below the hub's LIB *)
      destruct (Hirr1 Hle) as (pre & post & Esplit & Ebi). fold Lj in Esplit, Ebi. rewrite Hmap in Esplit. rewrite Ebi.
      assert (H1 : lnk (bid L) (Dpre ++ bn :: sufb)).
      { change (bn :: sufb) with ([bn] ++ sufb). rewrite app_assoc. apply linked_app_iff. split; [exact HlDbn|].
        rewrite tip_snoc. exact Hlsuf. }
      rewrite Esplit in H1.
      assert (H2 : lnk (bid L) ((Dpre ++ pre ++ [Lj]) ++ post)) by (rewrite <- !app_assoc; exact H1).
      apply linked_prefix in H2.
      replace (Dpre ++ (pre ++ [Lj]) ++ map eblk (filter irr_ev (pushed c k wj)))
        with ((Dpre ++ pre ++ [Lj]) ++ map eblk (filter irr_ev (pushed c k wj))) by (rewrite <- !app_assoc; reflexivity).
      apply (final_tail U c canon w L U_id U_uniq U_up D_decl HcU Hcl HLc Htip wj m a Fin A (Dpre ++ pre ++ [Lj]) k eq_refl HLX H2).
      + apply Forall_app. split; [exact HDpU|]. apply Forall_forall. intros y Hy. rewrite Forall_forall in HbU. apply HbU.
        rewrite Esplit. apply in_app_or in Hy as [Hy|[<-|[]]]; apply in_or_app; [left; exact Hy | right; left; reflexivity].
      + left. rewrite !app_assoc, last_last. reflexivity.
    - (* the join is above the hub's LIB *)
      rewrite (Hirr2 Hgt). cbn [map app].
      assert (HpU : In (last Dpre L) U).
      { destruct (last_in_or Dpre L) as [E|E]; [rewrite E; exact HLU | rewrite Forall_forall in HDpU; apply HDpU; exact E]. }
      assert (Hpbn : bparent bn = bid (last Dpre L)).
      { pose proof (linked_mid _ _ _ _ HlDbn) as H. rewrite (tip_last (bid L) Dpre L) in H. destruct Dpre; exact H. }
      apply (final_tail U c canon w L U_id U_uniq U_up D_decl HcU Hcl HLc Htip wj m a Fin A Dpre k eq_refl HLX HlDpre HDpU).
      right. split.
      + destruct (last_in_or Dpre L) as [E|E]; [rewrite E; exact HLc|].
        assert (H : In (last Dpre L) merged) by (apply Hrm; rewrite ED; apply in_or_app; left; exact E).
        unfold merged in H. apply filter_In in H as [H _]. exact H.
      + exact (burst_parent_le U c U_id U_uniq U_up D_decl a Fin A _ V (bnum bn) burst bn sufb (last Dpre L) HX Hb Hmap Hgt HpU Hpbn).
  Qed.

  (* ---------------------------------------------------------------- the theorem *)

  Lemma fc_mem : start_mem c = Some (bnum L).
  Proof. rewrite (start_mem_cursor c cu Hmode Hcur), EBn. reflexivity. Qed.

  Lemma cur_final :
    final_fold (Some (ri (cu_blk cu))) (fst res) = true /\
    (snd res = JNil ->
       fst res = [] \/ map eblk (fst res) = above lib merged \/
       exists hi, final_lib c w <= hi /\ map eblk (fst res) = seg_num (lib + 1) hi canon).
  Proof.
    pose proof (c07_run_shapes_proof c w ps merged_end merged forked) as Hsh. cbv zeta in Hsh.
    rewrite fc_run_files in Hsh. cbn [fst snd] in Hsh. fold res in Hsh.
    assert (Hseen : forall X, seen c X = undup c (Some (bnum L)) X) by (intros X; rewrite (seen_final c X Hfilter), fc_mem; reflexivity).
    rewrite EBi.
    (* the output against the run the filter lets through *)
    assert (Hfold : forall X out Bd, (exists rest0, undup c (Some (bnum L)) X = out ++ rest0) ->
              records (Some (bnum L)) (map eblk (filter irr_ev X)) = Bd -> lnk (bid L) Bd -> final_fold (Some (bid L)) out = true).
    { intros X out Bd [rest0 E] EBd Hl. apply final_fold_lnk.
      rewrite <- EBd, <- (undup_blocks c Hfilter X (Some (bnum L))), E, map_app in Hl. eapply linked_prefix. exact Hl. }
    assert (Hraw : forall X P, raw_out c (undup c (Some (bnum L)) X) res P -> cshape (map eblk (filter irr_ev X)) P ->
              final_fold (Some (bid L)) (fst res) = true /\
              (snd res = JNil -> fst res = [] \/ map eblk (fst res) = above lib merged \/
                 exists hi, final_lib c w <= hi /\ map eblk (fst res) = seg_num (lib + 1) hi canon)).
    { intros X P Hro (Bd & EBd & HlBd & Hcompl).
      destruct (undup_sorted c X (Some (bnum L))) as (Hp & _ & _).
      split.
      - apply (Hfold X (fst res) Bd); [exact (raw_out_prefix_of c _ res P Hp Hro) | exact EBd | exact HlBd].
      - intros Hn. right. right. unfold raw_out in Hro. rewrite Hn in Hro. destruct Hro as (HP & Hns & Hf).
        destruct (Hcompl HP) as (hi & Hhi & EBd2). exists hi. split; [exact Hhi|].
        rewrite Hf, (pass_delivered c _ Hp Hns), (undup_blocks c Hfilter X (Some (bnum L))), EBd, EBd2, ELn. reflexivity. }
    destruct Hsh as [[_ Hr]|[Hrej [(burst & k & Hlt & Hro)|[[_ Hr]|[Hlt [(pre & e & rest0 & m & lowest & burst & k & Ef & Hns & Hj & Hro)|Hfo]]]]]].
    - rewrite Hr. split; [reflexivity | discriminate].
    - unfold live_try in Hlt. rewrite Hmode, Hcur in Hlt. cbn [N.eqb Pos.eqb] in Hlt.
      destruct (h_ready (w_hub w)) eqn:Hrd; cbn [negb] in Hlt; [|discriminate].
      rewrite Hseen in Hro. apply (Hraw _ _ Hro). exact (fc_live burst k Hrd Hlt).
    - rewrite Hr. split; [reflexivity | discriminate].
    - destruct fc_files as [[Enone HLge]|(Erun & Hlr & Hrm & HLm)].
      { rewrite Enone in Ef. cbn [fst] in Ef. destruct pre; discriminate. }
      rewrite Erun in Ef. cbn [fst] in Ef.
      apply map_eq_app in Ef as (Dpre & D2 & ED & Epre & E2). apply map_eq_cons in E2 as (bn & D' & ED2 & Ebn & _).
      subst pre e D2. rewrite Hseen in Hro. apply (Hraw _ _ Hro). exact (fc_join m Dpre bn D' lowest burst k Hlr Hrm ED Hj).
    - rewrite Hseen in Hfo. destruct fc_files as [[Enone HLge]|(Erun & Hlr & Hrm & HLm)].
      + rewrite Enone in Hfo. cbn [fst snd undup] in Hfo.
        assert (E : fst res = []).
        { destruct Hfo as [[_ Hr]|[Hs _]]; [rewrite Hr; reflexivity | discriminate]. }
        rewrite E. split; [reflexivity | intros _; left; reflexivity].
      + rewrite Erun in Hfo. cbn [fst snd] in Hfo.
        pose proof (fc_rest'_U Hlr Hrm) as HrU.
        assert (Erec : records (Some (bnum L)) (map eblk (filter irr_ev (map fev rest'))) = rest').
        { rewrite (C06_Lists.filter_all _ _ (map fev rest')), map_eblk_fev.
          - apply records_above; [exact (under_L_above U canon L U_id U_uniq U_up HcU fc_HLc rest' Hlr HrU)|].
            exact (lnk_sorted U U_id U_uniq U_up rest' (bid L) Hlr HrU).
          - apply Forall_forall. intros e He. apply in_map_iff in He as (b & <- & _). reflexivity. }
        destruct (undup_sorted c (map fev rest') (Some (bnum L))) as (Hp & _ & _).
        split.
        * apply (Hfold (map fev rest') (fst res) rest'); [exact (files_out_prefix_of c _ fend0 res Hp Hfo) | exact Erec | exact Hlr].
        * intros Hn. right. left. destruct Hfo as [[Hns Hr]|[Hs Hr]]; rewrite Hr in Hn |- *; cbn [fst snd] in *; [|discriminate].
          rewrite (pass_delivered c _ Hp Hns), (undup_blocks c Hfilter _ (Some (bnum L))), Erec.
          unfold rest'. rewrite <- (above_of_from_num canon lib L rest Hasc Hfrom ELn).
          unfold above, merged. rewrite !filter_filter'. apply filter_ext_in. intros b Hb.
          rewrite (fc_mend_all HLm Hn b Hb). apply andb_comm.
  Qed.
  (* ---------------------------------------------------------------- with a stop block: the run that ends with stop-block-reached *)

  Lemma seg_from_id lo hi (l0 : list block) : from_num lo (seg_num lo hi l0) = seg_num lo hi l0.
  Proof.
    unfold from_num, seg_num. rewrite filter_filter'. apply filter_ext_in. intros b _.
    destruct (lo <=? bnum b), (bnum b <=? hi); reflexivity.
  Qed.

  Lemma cur_final_stop bS :
    In bS canon -> bnum bS = j_stop c -> lib < j_stop c -> snd res = JStop ->
    exists pre e, fst res = pre ++ [e] /\ eblk e = bS /\ map eblk (fst res) = seg_num (lib + 1) (j_stop c) canon.
  Proof.
    intros HbS HnS Hsc Hstop.
    pose proof (c07_run_shapes_proof c w ps merged_end merged forked) as Hsh. cbv zeta in Hsh.
    rewrite fc_run_files in Hsh. cbn [fst snd] in Hsh. fold res in Hsh.
    assert (Hseen : forall X, seen c X = undup c (Some (bnum L)) X) by (intros X; rewrite (seen_final c X Hfilter), fc_mem; reflexivity).
    (* from the cut of the blocks to the statement *)
    assert (Hcut : forall X X' Bd hi, (exists Xt, X' = X ++ Xt) ->
              records (Some (bnum L)) (map eblk (filter irr_ev X')) = Bd -> Bd = seg_num (lib + 1) hi canon ->
              snd (upto_stop c (undup c (Some (bnum L)) X)) = true -> fst res = fst (upto_stop c (undup c (Some (bnum L)) X)) ->
              exists pre e, fst res = pre ++ [e] /\ eblk e = bS /\ map eblk (fst res) = seg_num (lib + 1) (j_stop c) canon).
    { intros X X' Bd hi HX' EBd EBd2 Hs Hf.
      destruct (final_cut_ext c canon (lib + 1) (Some (bnum L)) X X' Bd hi (fst res) bS Hfilter HX' EBd) as (pre & e & E1 & E2 & E3 & Y2 & EY); try assumption.
      - rewrite <- EBd. apply records_sorted.
      - rewrite EBd2. apply seg_from_id.
      - intros _. lia.
      - exists pre, e. split; [exact E1|]. split; [exact E2|]. rewrite <- E3. symmetry.
        unfold from_num. apply C06_Lists.filter_all.
        destruct (undup_sorted c X (Some (bnum L))) as (_ & _ & Hab). rewrite EY in Hab. apply Forall_app in Hab as [Hab _].
        apply Forall_forall. intros b Hb. apply in_map_iff in Hb as (x & <- & Hx). rewrite Forall_forall in Hab. specialize (Hab x Hx).
        apply N.leb_le. rewrite ELn in Hab. lia. }
    assert (Hraw : forall X X' (P : Prop), (exists Xt, X' = X ++ Xt) -> raw_out c (undup c (Some (bnum L)) X) res P ->
              cshape (map eblk (filter irr_ev X')) True ->
              exists pre e, fst res = pre ++ [e] /\ eblk e = bS /\ map eblk (fst res) = seg_num (lib + 1) (j_stop c) canon).
    { intros X X' P HX' Hro (Bd & EBd & _ & Hcompl).
      unfold raw_out in Hro. rewrite Hstop in Hro. destruct Hro as (Hs & Hf).
      destruct (Hcompl I) as (hi & _ & EBd2). rewrite ELn in EBd2.
      exact (Hcut X X' Bd hi HX' EBd EBd2 Hs Hf). }
    assert (Hweak : forall raw (P : Prop), P -> cshape raw P -> cshape raw True).
    { intros raw P HP (Bd & E & Hl & Hfn). exists Bd. split; [exact E|]. split; [exact Hl | intros _; exact (Hfn HP)]. }
    assert (Hdone : forall w0 k, w_rest (world_after c (k + length (w_rest (world_after c k w0))) w0) = []).
    { intros w0 k. rewrite <- world_after_add. apply length_zero_iff_nil. rewrite world_after_rest. lia. }
    assert (Hpadd : forall a b w0, pushed c (a + b) w0 = pushed c a w0 ++ pushed c b (world_after c a w0)).
    { intros a b w0. unfold pushed, world_after. rewrite push_n_add. reflexivity. }
    destruct Hsh as [[_ Hr]|[Hrej [(burst & k & Hlt & Hro)|[[_ Hr]|[Hlt [(pre & e & rest0 & m & lowest & burst & k & Ef & Hns & Hj & Hro)|Hfo]]]]]].
    - rewrite Hr in Hstop. discriminate.
    - unfold live_try in Hlt. rewrite Hmode, Hcur in Hlt. cbn [N.eqb Pos.eqb] in Hlt.
      destruct (h_ready (w_hub w)) eqn:Hrd; cbn [negb] in Hlt; [|discriminate].
      rewrite Hseen in Hro. set (r := length (w_rest (world_after c k w))).
      apply (Hraw (burst ++ pushed c k w) (burst ++ pushed c (k + r) w) (w_rest (world_after c k w) = [])); [| exact Hro|].
      + exists (pushed c r (world_after c k w)). rewrite Hpadd, app_assoc. reflexivity.
      + exact (Hweak _ _ (Hdone w k) (fc_live burst (k + r) Hrd Hlt)).
    - rewrite Hr in Hstop. discriminate.
    - destruct fc_files as [[Enone _]|(Erun & Hlr & Hrm & HLm)].
      { rewrite Enone in Ef. cbn [fst] in Ef. destruct pre; discriminate. }
      rewrite Erun in Ef. cbn [fst] in Ef.
      apply map_eq_app in Ef as (Dpre & D2 & ED & Epre & E2). apply map_eq_cons in E2 as (bn & D' & ED2 & Ebn & _).
      subst pre e D2. rewrite Hseen in Hro.
      set (wm := world_after c m w) in *. set (r := length (w_rest (world_after c k wm))).
      apply (Hraw (map fev Dpre ++ burst ++ pushed c k wm) (map fev Dpre ++ burst ++ pushed c (k + r) wm) (w_rest (world_after c k wm) = [])); [| exact Hro|].
      + exists (pushed c r (world_after c k wm)). rewrite Hpadd, <- !app_assoc. reflexivity.
      + exact (Hweak _ _ (Hdone wm k) (fc_join m Dpre bn D' lowest burst (k + r) Hlr Hrm ED Hj)).
    - (* files only *)
      rewrite Hseen in Hfo.
      assert (HbSrest : In bS rest).
      { rewrite <- (above_of_from_num canon lib L rest Hasc Hfrom ELn). unfold above. apply filter_In. split; [exact HbS | apply N.ltb_lt; lia]. }
      (* when the file source reports the bundle of S, block S is among the files read *)
      assert (Hmark : fend0 = JStop -> bnum L < mend /\ In bS rest').
      { intros Hfe. destruct (file_end_stop c merged_end Hfe) as [E0 Hble].
        assert (Estopf : stopf = j_stop c) by (unfold stopf; apply N.eqb_neq in E0; rewrite E0; reflexivity).
        pose proof (N.mul_succ_div_gt (j_stop c) (j_bundle c)) as Hdiv. rewrite <- N.add_1_r in Hdiv.
        assert (HSm : j_stop c < mend) by (unfold mend, bound; rewrite Estopf; nia).
        split; [rewrite ELn; lia|]. unfold rest'. apply filter_In. split; [exact HbSrest | apply N.ltb_lt; lia]. }
      destruct fc_files as [[Enone HLge]|(Erun & Hlr & Hrm & HLm)].
      + rewrite Enone in Hfo. cbn [fst snd undup] in Hfo. exfalso.
        destruct Hfo as [[_ Hr]|[Hs _]]; [|discriminate]. fold res in Hr. rewrite Hr in Hstop. cbn [snd] in Hstop.
        destruct (Hmark Hstop) as [H _]. lia.
      + rewrite Erun in Hfo. cbn [fst snd] in Hfo.
        pose proof (fc_rest'_U Hlr Hrm) as HrU.
        assert (Erec : records (Some (bnum L)) (map eblk (filter irr_ev (map fev rest'))) = rest').
        { rewrite (C06_Lists.filter_all _ _ (map fev rest')), map_eblk_fev.
          - apply records_above; [exact (under_L_above U canon L U_id U_uniq U_up HcU fc_HLc rest' Hlr HrU)|].
            exact (lnk_sorted U U_id U_uniq U_up rest' (bid L) Hlr HrU).
          - apply Forall_forall. intros e He. apply in_map_iff in He as (b & <- & _). reflexivity. }
        assert (EYb : map eblk (undup c (Some (bnum L)) (map fev rest')) = rest') by (rewrite (undup_blocks c Hfilter _ (Some (bnum L))); exact Erec).
        destruct (undup_sorted c (map fev rest') (Some (bnum L))) as (Hp & _ & _).
        destruct Hfo as [[Hns Hr]|[Hs Hr]]; fold res in Hr.
        * exfalso. rewrite Hr in Hstop. cbn [snd] in Hstop. destruct (Hmark Hstop) as [_ HbSr].
          destruct (file_end_stop c merged_end Hstop) as [E0 _].
          rewrite <- EYb in HbSr. apply in_map_iff in HbSr as (x & Ex & Hx).
          pose proof (upto_stop_nostop c _ Hns) as Hall. rewrite Forall_forall in Hall, Hp.
          pose proof (stops_false_pass c x (Hall _ Hx) (Hp x Hx) E0) as Hlt'. unfold enum in Hlt'. rewrite Ex in Hlt'. lia.
        * assert (Hf : fst res = fst (upto_stop c (undup c (Some (bnum L)) (map fev rest')))) by (rewrite Hr; reflexivity).
          destruct (upto_stop_split c _ Hs) as (Y1 & e & Y2 & EYs & _ & _ & _).
          assert (Her : In (eblk e) rest') by (rewrite <- EYb, EYs; apply in_map; apply in_or_app; right; left; reflexivity).
          assert (Hem : bnum (eblk e) < mend) by (unfold rest' in Her; apply filter_In in Her as [_ H]; apply N.ltb_lt; exact H).
          apply (Hcut (map fev rest') (map fev rest') rest' (mend - 1)); [exists []; rewrite app_nil_r; reflexivity | exact Erec | | exact Hs | exact Hf].
          unfold rest'. rewrite <- (above_of_from_num canon lib L rest Hasc Hfrom ELn). unfold above, seg_num. rewrite filter_filter'.
          apply filter_ext_in. intros b _.
          destruct (N.ltb_spec lib (bnum b)), (N.ltb_spec (bnum b) mend), (N.leb_spec (lib + 1) (bnum b)), (N.leb_spec (bnum b) (mend - 1)); cbn [andb]; try reflexivity; lia.
  Qed.
End FinalCur.

Lemma c07_seamless_cursor_final_proof : C07_seamless_cursor_final_full.
Proof.
  intros U c w ps merged_end canon forked cu L rest Hwfb Hlok [[l [Hl Hhub]] Hrest] Hchain Hincl merged Htip
         Hmode Hcur Hfilter Hbundle Hbound Hfin Hfrom HL HLb res.
  assert (Hscope : disc_scope2_b U = true) by (unfold disc_scope2_b; rewrite Hwfb, Hlok; reflexivity).
  pose proof (bridge_id U Hwfb) as Hid. pose proof (bridge_uniq U Hwfb) as Huniq. pose proof (bridge_up U Hwfb) as Hup.
  pose proof (bridge2_decl_none U Hscope) as Hdecl.
  assert (HW : WOK U c w).
  { split; [|exact Hrest]. rewrite Hhub. apply (hub_ok_run U (j_first c) (j_kept c) Hwfb Hlok l Hl). }
  exact (cur_final U c w ps merged_end canon forked cu L rest Hid Huniq Hup Hdecl Hchain Hincl HW Htip Hmode Hcur Hfilter Hbundle Hbound
           Hfin Hfrom HL HLb).
Qed.

(* the stop clause for final blocks only, cursor mode (Spec/C13_More_Spec.v) *)
Lemma c13_stop_final_cursor_proof : C13_stop_final_cursor.
Proof.
  intros U c w ps merged_end canon forked cu L rest Hwfb Hlok [[l [Hl Hhub]] Hrest] Hchain Hincl merged Htip
         Hmode Hcur Hfilter Hbundle Hbound Hfin Hfrom HL HLb res bS HbS HnS Hsc Hstop.
  assert (Hscope : disc_scope2_b U = true) by (unfold disc_scope2_b; rewrite Hwfb, Hlok; reflexivity).
  pose proof (bridge_id U Hwfb) as Hid. pose proof (bridge_uniq U Hwfb) as Huniq. pose proof (bridge_up U Hwfb) as Hup.
  pose proof (bridge2_decl_none U Hscope) as Hdecl.
  assert (HW : WOK U c w).
  { split; [|exact Hrest]. rewrite Hhub. apply (hub_ok_run U (j_first c) (j_kept c) Hwfb Hlok l Hl). }
  exact (cur_final_stop U c w ps merged_end canon forked cu L rest Hid Huniq Hup Hdecl Hchain Hincl HW Htip Hmode Hcur Hfilter Hbundle
           Hfin Hfrom HL HLb bS HbS HnS Hsc Hstop).
Qed.
