(* C07, final blocks only, cursor mode (C07_seamless_cursor_final of Spec/C07_Final_Spec.v): the stateful filter starts
   with the number of the cursor block L (Model/Joining.start_mem).  The argument of Proofs/C07_Final.v with L in the role
   of "the last block delivered": whatever the handler has received so far (a run P0 hanging under L), the blocks the hub
   finalises afterwards continue it - those at or below its last block are dropped by the filter's memory, the first one
   above is its child (final_tail).  The hub's answer to a final cursor is the fast path of blocksFromCursor: the
   retained chain above L, new+irreversible up to the hub's LIB (final_cursor_burst). *)
From Coq Require Import Sorted.
From BV Require Import Base.Prelude Model.Block Model.ForkDB Model.Forkable Model.ForkableLookups Model.Burst Model.Hub
  Model.CursorResolver Model.Joining
  Spec.Consumer Spec.Universe Check.Fk_Check Check.Burst_Check Check.C07_Check
  Spec.C09_Spec Spec.C05_Spec Spec.C06_Spec Spec.C07_Spec Spec.C13_Spec Spec.C07_Compose_Spec Spec.C07_Shapes_Spec Spec.C07_More_Spec
  Spec.C07_Final_Spec
  Spec.C01_Spec Spec.C01_Moving_Spec Spec.C01_Roots_Spec
  Proofs.C06_Lists Proofs.C06_Proofs Proofs.C13_Proofs
  Proofs.C09_Store Proofs.C09_Segment Proofs.C09_Proofs Proofs.C05_Fast Proofs.C05_Forked
  Proofs.Fk.LoopFacts Proofs.Fk.MovingLibDisc Proofs.C02_Proofs Proofs.C01_Roots_Proofs
  Proofs.Hub.ConsFacts Proofs.Hub.HubInv Proofs.Hub.HubFed Proofs.Hub.LinkedRuns Proofs.Hub.C09_History
  Proofs.C07_File Proofs.C07_Live
  Proofs.C07_ComposeStack Proofs.C07_ComposeHub Proofs.C07_ComposeRun Proofs.C07_Compose Proofs.C07_ComposeCheck
  Proofs.C07_ComposeCursor Proofs.C07_ComposeCursorLive
  Proofs.C07_Raw Proofs.C07_Shapes Proofs.C07_Filters Proofs.C07_ChainFacts Proofs.C07_FinalHub Proofs.C07_Final Proofs.C07_FinalMem.
Local Open Scope N_scope.

(* ------------------------------------------------------------------ lists *)

Lemma records_drop n : forall B1 B2, Forall (fun b => bnum b <= n) B1 -> records (Some n) (B1 ++ B2) = records (Some n) B2.
Proof.
  induction B1 as [|b B1 IH]; intros B2 H; [reflexivity|]. cbn [app records].
  replace (bnum b <=? n) with true by (symmetry; apply N.leb_le; exact (Forall_inv H)). apply IH. exact (Forall_inv_tail H).
Qed.

Lemma final_fold_some_lnk l p : lnk p (map eblk l) -> final_fold (Some p) l = true.
Proof. apply final_fold_lnk. Qed.

Lemma last_in_or {A} (l : list A) d : last l d = d \/ In (last l d) l.
Proof.
  destruct l as [|a l]; [left; reflexivity|]. right.
  destruct (exists_last (l := a :: l)) as (q & z & E); [discriminate|]. rewrite E, last_last. apply in_or_app. right. left. reflexivity.
Qed.

Section FinalGen.
  Variable U : list block.
  Variable c : jcfg.
  Variable canon : list block.
  Variable w : world.
  Variable L : block.

  Hypothesis U_id : forall b, In b U -> bid b <> 0 /\ bid b <> bparent b.
  Hypothesis U_uniq : forall x y, In x U -> In y U -> bid x = bid y -> x = y.
  Hypothesis U_up : forall x y, In x U -> In y U -> bparent x = bid y -> bnum y < bnum x.
  Hypothesis D_decl : forall b, In b U -> decl_none U b.

  Hypothesis HcU : Forall (fun x => In x U) canon.
  Hypothesis Hcl : exists x, lnk x canon.
  Hypothesis HLc : In L canon.
  Hypothesis HW : WOK U c w.
  Hypothesis Htip : eventual_tip c w canon.

  Let l := bnum L.
  Let start := l + 1.
  Let first := j_first c.
  Let kept := j_kept c.

  Let HLU : In L U.
  Proof. rewrite Forall_forall in HcU. apply HcU. exact HLc. Qed.
  Let Hsl : exists b, In b canon /\ bnum b <= start.
  Proof. exists L. split; [exact HLc | unfold start, l; lia]. Qed.

  Let lsorted : forall x y, lnk y x -> Forall (fun z => In z U) x -> StronglySorted blt x :=
    fun x y => lnk_sorted U U_id U_uniq U_up x y.

  (* a run that hangs under L lies above L *)
  Lemma under_L_above P : lnk (bid L) P -> Forall (fun z => In z U) P -> Forall (fun b => l < bnum b) P.
  Proof.
    intros Hl HU. assert (Hl' : lnk (bparent L) (L :: P)) by (cbn [lnk]; auto).
    pose proof (lsorted (L :: P) _ Hl' (Forall_cons L HLU HU)) as HS. inversion HS as [|? ? _ Hall]; subst. exact Hall.
  Qed.

  (* ---------------------------------------------------------------- the end of the run (as in C07_Final.v, for any start mode) *)

  Lemma g_end_world wj a Fin A mm :
    wj = world_after c mm w -> LOKX U c a Fin A wj ->
    exists F' Vend hdF cpre,
      VStateX U first kept a (Fin ++ F') A (h_f (w_hub (world_after c (length (w_rest w)) w))) Vend /\
      hd_error Vend = Some hdF /\ canon = cpre ++ [hdF].
  Proof.
    intros Ewj HLX.
    destruct (lokx_push_n U c U_id U_uniq U_up D_decl (length (w_rest wj)) a Fin A wj HLX) as (F' & (Hrd & [Vend HXe] & _) & _ & _ & _).
    assert (Hdone : w_rest (world_after c (length (w_rest wj)) wj) = []).
    { pose proof (world_after_rest c (length (w_rest wj)) wj) as H. rewrite Nat.sub_diag in H.
      destruct (w_rest (world_after c (length (w_rest wj)) wj)); [reflexivity | discriminate]. }
    assert (Eend : world_after c (length (w_rest wj)) wj = world_after c (length (w_rest w)) w).
    { rewrite Ewj, wafter_add in *. apply world_after_done. exact Hdone. }
    rewrite Eend in HXe.
    pose proof (vstatex_vstate U first kept a (Fin ++ F') A _ Vend HXe) as HVe.
    destruct (vstate_facts U first kept U_id U_uniq U_up _ Vend HVe) as (_ & _ & _ & hdF & Hls & Hhd).
    assert (Ecan : exists cpre, canon = cpre ++ [hdF]).
    { apply (Htip (length (w_rest w)) hdF); [rewrite <- Eend; exact Hdone | exact Hls]. }
    destruct Ecan as [cpre Ecan]. exists F', Vend, hdF, cpre. auto.
  Qed.

  Lemma g_final_lib_at wk a Fin' A mm : wk = world_after c mm w -> LOKX U c a Fin' A wk -> w_rest wk = [] ->
    final_lib c w = bnum (libblk a Fin').
  Proof.
    intros Ewk (_ & [Vend HXe] & _) Hdone.
    assert (Eend : wk = world_after c (length (w_rest w)) w).
    { rewrite Ewk in *. apply world_after_done. exact Hdone. }
    destruct (vstatex_rev U first kept U_id U_uniq U_up a Fin' A _ Vend HXe) as (_ & _ & _ & _ & _ & Hlib).
    unfold final_lib. rewrite <- Eend, Hlib. reflexivity.
  Qed.

  (* the hub after the last arrival; Bq ++ [Lend] a run that starts at or below start and ends with its LIB block *)
  Lemma g_end_complete wk a Fin' A mm Bq :
    wk = world_after c mm w -> LOKX U c a Fin' A wk -> w_rest wk = [] ->
    let Lend := libblk a Fin' in
    (exists x, lnk x (Bq ++ [Lend])) -> Forall (fun y => In y U) (Bq ++ [Lend]) ->
    (forall z r, Bq ++ [Lend] = z :: r -> bnum z <= start) ->
    from_num start (Bq ++ [Lend]) = seg_num start (final_lib c w) canon.
  Proof.
    intros Ewk HLX Hdone Lend HlB HBU Hbot.
    rewrite (g_final_lib_at wk a Fin' A mm Ewk HLX Hdone). fold Lend.
    destruct HLX as (Hrd & [Vend HXe] & _).
    pose proof (vstatex_vstate U first kept a Fin' A _ Vend HXe) as HVe.
    destruct (vstate_facts U first kept U_id U_uniq U_up _ Vend HVe) as (HVne & [HVU [xv Hlv]] & _ & hdF & Hls & Hhd).
    destruct (vstatex_rev U first kept U_id U_uniq U_up a Fin' A _ Vend HXe) as (pre' & pend & EAF & Erev & _ & _).
    assert (Ecan : exists cpre, canon = cpre ++ [hdF]).
    { rewrite Ewk in Hdone, Hls. exact (Htip mm hdF Hdone Hls). }
    destruct Ecan as [cpre Ecan].
    destruct Vend as [|v0 V0]; [contradiction|]. cbn [hd_error] in Hhd. injection Hhd as ->.
    apply (final_complete U c canon start U_id U_uniq U_up D_decl HcU Hcl Hsl Bq Lend (rev (hdF :: V0)) hdF cpre (rev V0) HlB HBU Hbot).
    - exists xv. exact Hlv.
    - apply Forall_forall. intros y Hy. apply in_rev in Hy. rewrite Forall_forall in HVU. apply HVU. exact Hy.
    - rewrite Erev. apply in_or_app. left. fold Lend in EAF. rewrite EAF. apply in_or_app. right. left. reflexivity.
    - reflexivity.
    - exact Ecan.
  Qed.

  Lemma g_lokx_of_world wj : WOK U c wj -> h_ready (w_hub wj) = true ->
    exists a Fin A V, LOKX U c a Fin A wj /\ VStateX U first kept a Fin A (h_f (w_hub wj)) V.
  Proof.
    intros [Hok Hrest] Hrd.
    destruct (vstate_of_hub U first kept U_id U_uniq U_up D_decl (w_hub wj) Hok Hrd) as [V HV].
    destruct (vstate_x U first kept _ _ HV) as (a & Fin & A & HX).
    exists a, Fin, A, V. split; [|exact HX]. split; [exact Hrd|]. split; [exists V; exact HX | exact Hrest].
  Qed.

  (* what follows L on canon, restricted to a run Bd that hangs under L *)
  Lemma under_L_from P : lnk (bid L) P -> Forall (fun z => In z U) P -> from_num start (L :: P) = P.
  Proof.
    intros Hl HU. pose proof (under_L_above P Hl HU) as Hab. unfold from_num. cbn [filter].
    replace (start <=? bnum L) with false by (symmetry; apply N.leb_gt; unfold start, l; lia).
    apply C06_Lists.filter_all. eapply Forall_impl; [|exact Hab]. cbn beta. intros b Hb. apply N.leb_le. unfold start. lia.
  Qed.

  (* ---------------------------------------------------------------- the blocks the hub finalises after a run P0 under L *)

  (* what a shape lemma delivers: the run Bd the handler receives in the end *)
  Definition cur_shape (raw : list block) (complete : Prop) : Prop :=
    exists Bd, records (Some l) raw = Bd /\ lnk (bid L) Bd /\
      (complete -> exists hi, final_lib c w <= hi /\ Bd = seg_num start hi canon).

  Lemma final_tail wj mm a Fin A P0 k :
    wj = world_after c mm w -> LOKX U c a Fin A wj ->
    lnk (bid L) P0 -> Forall (fun z => In z U) P0 ->
    let Lj := libblk a Fin in
    let p := last P0 L in
    (p = Lj \/ (In p canon /\ bnum Lj <= bnum p)) ->
    cur_shape (P0 ++ map eblk (filter irr_ev (pushed c k wj))) (w_rest (world_after c k wj) = []).
  Proof.
    intros Ewj HLX HlP HPU Lj p Hp.
    destruct (lokx_push_n U c U_id U_uniq U_up D_decl k a Fin A wj HLX) as (F & HLXe & EF & HlF & HFU). rewrite EF.
    fold Lj in HlF, HFU.
    assert (HFU' : Forall (fun y => In y U) F) by (eapply Forall_impl; [|exact HFU]; cbn beta; tauto).
    pose proof (lsorted F _ HlF HFU') as HSF.
    pose proof (under_L_above P0 HlP HPU) as HPab.
    assert (HpU : In p U).
    { unfold p. destruct (last_in_or P0 L) as [E|E]; [rewrite E; exact HLU | rewrite Forall_forall in HPU; apply HPU; exact E]. }
    assert (Hpl : l <= bnum p).
    { unfold p. destruct (last_in_or P0 L) as [E|E]; [rewrite E; unfold l; lia|]. rewrite Forall_forall in HPab. specialize (HPab _ E). lia. }
    assert (Htipp : tip (bid L) P0 = bid p).
    { unfold p. rewrite (tip_last (bid L) P0 L). destruct P0; reflexivity. }
    assert (Ewk : world_after c k wj = world_after c (mm + k) w) by (rewrite Ewj; apply wafter_add).
    assert (EL : last F Lj = libblk a (Fin ++ F)) by (symmetry; apply libblk_last).
    destruct (sorted_split_above (bnum p) F HSF) as (F1 & F2 & EF12 & HF1 & HF2 & Hfil).
    (* what the memory lets through *)
    assert (Erec : records (Some l) (P0 ++ F) = P0 ++ F2).
    { destruct P0 as [|b0 P0'] using rev_ind.
      - cbn [app]. unfold p in *. cbn [last] in *. rewrite (records_filter l F HSF). exact Hfil.
      - clear IHP0'. unfold p in *. rewrite last_last in *.
        rewrite (records_app_kept P0' b0 (Some l) F (lsorted _ _ HlP HPU) HPab), (records_filter (bnum b0) F HSF), Hfil. reflexivity. }
    (* the first block the hub finalises above p is its child *)
    assert (Hchild : forall f F2', F2 = f :: F2' -> bparent f = bid p /\ lnk (bid f) F2').
    { intros f F2' E2. rewrite E2 in HF2, EF12. clear Hfil Erec.
      assert (Hfgt : bnum p < bnum f) by exact (Forall_inv HF2).
      assert (Hlf : lnk (bid Lj) (F1 ++ f :: F2')) by (rewrite <- EF12; exact HlF).
      assert (Hfpar : bparent f = tip (bid Lj) F1) by exact (linked_mid _ _ _ _ Hlf).
      split; [|apply linked_app_iff in Hlf as [_ H]; cbn [lnk] in H; tauto].
      destruct Hp as [EpL|[Hpc HLp]].
      - (* p is the hub's LIB block: everything it finalises lies above *)
        destruct F1 as [|q1 F1']; [rewrite Hfpar, EpL; reflexivity|]. exfalso.
        pose proof (Forall_inv HF1) as H1. cbn beta in H1.
        assert (H2 : bnum Lj < bnum q1).
        { rewrite Forall_forall in HFU. apply HFU. rewrite EF12. left. reflexivity. }
        rewrite EpL in H1. lia.
      - (* one run holds p and Lj :: F *)
        destruct (g_end_world (world_after c k wj) a (Fin ++ F) A (mm + k)%nat Ewk HLXe) as (F' & Vend & hdF & cpre & HXe & Hhde & Ecan).
        pose proof (vstatex_vstate U first kept a ((Fin ++ F) ++ F') A _ Vend HXe) as HVe.
        destruct (vstate_facts U first kept U_id U_uniq U_up _ Vend HVe) as (HVne & [HVU [xv Hlv]] & _).
        destruct (vstatex_rev U first kept U_id U_uniq U_up a ((Fin ++ F) ++ F') A _ Vend HXe) as (_ & pende & _ & Ereve & _ & _).
        destruct HLX as (_ & [Vj HXj] & _).
        destruct (vstatex_rev U first kept U_id U_uniq U_up a Fin A _ Vj HXj) as (prej & _ & EAFj & _ & _ & _). fold Lj in EAFj.
        destruct Vend as [|v0 V0]; [contradiction|]. cbn [hd_error] in Hhde. injection Hhde as ->.
        assert (HWU : Forall (fun y => In y U) (rev (hdF :: V0))).
        { apply Forall_forall. intros y Hy. apply in_rev in Hy. rewrite Forall_forall in HVU. apply HVU. exact Hy. }
        destruct (common_chain U canon U_uniq HcU Hcl (rev (hdF :: V0)) (rev V0) hdF cpre (ex_intro _ xv Hlv) HWU eq_refl Ecan)
          as (C & HlC & HCU & HWC & HcC).
        assert (HinW : forall y, In y (Lj :: F) -> In y C).
        { intros y Hy. apply HWC. rewrite Ereve. apply in_or_app. left. rewrite !app_assoc.
          apply in_or_app. left. destruct Hy as [<-|Hy].
          - apply in_or_app. left. rewrite EAFj. apply in_or_app. right. left. reflexivity.
          - apply in_or_app. right. exact Hy. }
        assert (HfC : In f C) by (apply HinW; right; rewrite EF12; apply in_or_app; right; left; reflexivity).
        assert (HpC : In p C) by (apply HcC; exact Hpc).
        destruct F1 as [|q1 F1' _] using rev_ind.
        + assert (E : Lj = p).
          { apply (child_on_chain U c U_id U_uniq U_up D_decl C p Lj f HlC HCU HpC (HinW Lj (or_introl eq_refl)) HfC Hfpar HLp Hfgt). }
          rewrite Hfpar. cbn. rewrite E. reflexivity.
        + rewrite tip_snoc in Hfpar.
          assert (Hq1 : bnum q1 <= bnum p).
          { rewrite Forall_forall in HF1. apply HF1. apply in_or_app. right. left. reflexivity. }
          assert (Hq1C : In q1 C).
          { apply HinW. right. rewrite EF12. apply in_or_app. left. apply in_or_app. right. left. reflexivity. }
          assert (E : q1 = p) by (apply (child_on_chain U c U_id U_uniq U_up D_decl C p q1 f HlC HCU HpC Hq1C HfC Hfpar Hq1 Hfgt)).
          rewrite Hfpar, E. reflexivity. }
    assert (HlBd : lnk (bid L) (P0 ++ F2)).
    { apply linked_app_iff. split; [exact HlP|]. rewrite Htipp. destruct F2 as [|f F2']; [exact I|].
      destruct (Hchild f F2' eq_refl) as [H1 H2]. cbn [lnk]. auto. }
    assert (HF2U : Forall (fun y => In y U) F2) by (rewrite EF12 in HFU'; apply Forall_app in HFU' as [_ H]; exact H).
    assert (HBdU : Forall (fun y => In y U) (P0 ++ F2)) by (apply Forall_app; split; assumption).
    exists (P0 ++ F2). split; [exact Erec|]. split; [exact HlBd|].
    intros Hdone.
    pose proof (g_final_lib_at (world_after c k wj) a (Fin ++ F) A (mm + k)%nat Ewk HLXe Hdone) as Eflib. rewrite <- EL in Eflib.
    (* the run L :: Bd against canon *)
    assert (HlLBd : lnk (bparent L) (L :: P0 ++ F2)) by (cbn [lnk]; auto).
    assert (HbotL : forall z r, L :: P0 ++ F2 = z :: r -> bnum z <= start).
    { intros z r Ez. injection Ez as <- _. unfold start, l. lia. }
    destruct F2 as [|f F2'].
    - (* nothing above p was finalised *)
      rewrite app_nil_r in *.
      assert (Hflp : final_lib c w <= bnum p).
      { rewrite Eflib, EF12. destruct F1 as [|q1 F1' _] using rev_ind.
        - cbn [last]. destruct Hp as [E|[_ H]]; [rewrite E; lia | exact H].
        - rewrite last_last. rewrite Forall_forall in HF1. apply HF1. apply in_or_app. right. left. reflexivity. }
      destruct P0 as [|b0 P0' _] using rev_ind.
      + exists l. split; [unfold p in Hflp; cbn [last] in Hflp; exact Hflp|].
        symmetry. unfold seg_num. apply C06_Lists.filter_none. apply Forall_forall. intros y _.
        apply andb_false_iff. destruct (N.leb_spec start (bnum y)) as [H|H]; [right; apply N.leb_gt; unfold start in H; lia | left; reflexivity].
      + unfold p in *. rewrite last_last in *. exists (bnum b0). split; [exact Hflp|].
        rewrite <- (under_L_from (P0' ++ [b0]) HlP HPU).
        destruct Hp as [E|[Hpc _]].
        * (* b0 is the hub's last LIB block *)
          assert (EF0 : F = []).
          { rewrite EF12. destruct F1 as [|q1 F1']; [reflexivity|]. exfalso.
            pose proof (Forall_inv HF1) as H1. cbn beta in H1.
            assert (H2 : bnum Lj < bnum q1) by (rewrite Forall_forall in HFU; apply HFU; rewrite EF12; left; reflexivity).
            rewrite E in H1. lia. }
          rewrite EF0, app_nil_r in HLXe.
          pose proof (g_end_complete (world_after c k wj) a Fin A (mm + k)%nat (L :: P0') Ewk HLXe Hdone) as H. cbv zeta in H.
          fold Lj in H. rewrite <- E in H. change ((L :: P0') ++ [b0]) with (L :: P0' ++ [b0]) in H.
          rewrite (g_final_lib_at (world_after c k wj) a Fin A (mm + k)%nat Ewk HLXe Hdone) in H. fold Lj in H. rewrite <- E in H.
          apply H; [eexists; exact HlLBd | constructor; [exact HLU | exact HPU] | exact HbotL].
        * change (L :: P0' ++ [b0]) with ((L :: P0') ++ [b0]).
          apply (top_on_canon U canon start U_id U_uniq U_up HcU Hcl Hsl (L :: P0') b0); [eexists; exact HlLBd | constructor; [exact HLU | exact HPU] | exact HbotL | exact Hpc].
    - (* the run ends with the hub's last LIB block *)
      exists (final_lib c w). split; [lia|].
      rewrite <- (under_L_from (P0 ++ f :: F2') HlBd HBdU).
      destruct (x_cons_last f F2') as [l' El'].
      assert (ELk : last F2' f = libblk a (Fin ++ F)).
      { rewrite <- EL, EF12, last_app_ne' by discriminate. symmetry. apply last_shift. }
      rewrite ELk in El'.
      assert (Eall : L :: P0 ++ f :: F2' = (L :: P0 ++ l') ++ [libblk a (Fin ++ F)]).
      { cbn [app]. f_equal. rewrite <- app_assoc. f_equal. exact El'. }
      rewrite Eall.
      apply (g_end_complete (world_after c k wj) a (Fin ++ F) A (mm + k)%nat (L :: P0 ++ l') Ewk HLXe Hdone).
      + eexists. rewrite <- Eall. exact HlLBd.
      + rewrite <- Eall. constructor; [exact HLU | exact HBdU].
      + rewrite <- Eall. exact HbotL.
  Qed.
End FinalGen.

(* ------------------------------------------------------------------ the hub's answer to a final cursor *)

Section FinalBurst.
  Variable U : list block.
  Variables first kept : N.
  Hypothesis U_id : forall b, In b U -> bid b <> 0 /\ bid b <> bparent b.
  Hypothesis U_uniq : forall x y, In x U -> In y U -> bid x = bid y -> x = y.
  Hypothesis U_up : forall x y, In x U -> In y U -> bparent x = bid y -> bnum y < bnum x.

  Lemma irr_fast s hd cu : forall hi, Forall seg_std hi ->
    map eblk (filter irr_ev (map (fast_event s hd cu) hi)) =
    filter (fun b => bnum b <=? rn (libref (db s))) (map seg_blk hi).
  Proof.
    induction hi as [|y hi IH]; intros Hstd; [reflexivity|].
    pose proof (Forall_inv Hstd) as [_ Hn]. cbn [map filter].
    unfold irr_ev at 1. unfold fast_event at 1. cbn [estep]. unfold fast_step, final_now. rewrite Hn.
    destruct (bnum (seg_blk y) <=? rn (libref (db s))).
    - replace (matches_irr (if not_held cu y then SNewIrr else SIrr)) with true by (destruct (not_held cu y); reflexivity).
      cbn [map eblk fast_event]. rewrite (IH (Forall_inv_tail Hstd)). reflexivity.
    - cbn [matches_irr]. apply IH. exact (Forall_inv_tail Hstd).
  Qed.

  (* cursor block = cursor LIB block = L: the answer is the retained chain above L, new+irreversible up to the hub's LIB *)
  Lemma final_cursor_burst a Fin A s V cu L burst :
    VStateX U first kept a Fin A s V -> bref L = cu_lib cu -> bref L = cu_blk cu -> In L U ->
    matches_undo (cu_step cu) = false ->
    blocks_from_cursor s cu = BOk burst ->
    exists B, map eblk burst = B /\ lnk (bid L) B /\ Forall (fun y => In y U) B /\
      map eblk (filter irr_ev burst) = filter (fun b => bnum b <=? bnum (libblk a Fin)) B /\
      (bnum L < bnum (libblk a Fin) -> In (libblk a Fin) B).
  Proof.
    intros HX HL HLb HLU Hnu Hb. pose proof (vstatex_vstate U first kept a Fin A s V HX) as HV.
    destruct (bref_eq _ _ HL) as [ELi ELn]. destruct (bref_eq _ _ HLb) as [EBi EBn].
    assert (HKf : @nil block = (if is_undo cu then [] ++ [L] else [])) by (unfold is_undo; rewrite Hnu; reflexivity).
    destruct (cursor_burst U first kept U_id U_uniq U_up s V cu L L [] [] burst HV HL HLU HLb HLU HKf I (Forall_nil _) eq_refl Hb)
      as (hd & sg & lo & xL & hi & Hls & Eseg & Hgood & Hsplit & HbL & Hlhi & HhiU & _).
    destruct (vstatex_rev U first kept U_id U_uniq U_up a Fin A s V HX) as (_ & _ & _ & _ & _ & Hlib).
    assert (Hm : rn (libref (db s)) = bnum (libblk a Fin)) by (rewrite Hlib; reflexivity).
    pose proof Hgood as [Hstd _ _ _].
    assert (HxLin : In xL sg) by (rewrite Hsplit; apply in_or_app; right; left; reflexivity).
    assert (HxLstd : seg_std xL) by (rewrite Forall_forall in Hstd; apply Hstd; exact HxLin).
    destruct HxLstd as [HxLid HxLn]. rewrite HbL in HxLid, HxLn.
    destruct (good_seg_split sg lo xL hi Hgood Hsplit) as (Hlo & Hhi & _ & _). rewrite HxLn in Hlo, Hhi.
    (* the fast path *)
    assert (Eblk : block_in (ri (cu_blk cu)) sg = true).
    { apply block_in_spec. exists xL. split; [exact HxLin | congruence]. }
    assert (Elib : block_in (ri (cu_lib cu)) sg = true).
    { apply block_in_spec. exists xL. split; [exact HxLin | congruence]. }
    destruct (c05_fast_path_shape_proof s hd sg cu Hgood) as (Hshape & _ & Hloop).
    unfold blocks_from_cursor in Hb.
    destruct (has_lib (db s)); [|discriminate]. cbn [negb] in Hb. rewrite Hls, Eseg in Hb.
    destruct sg as [|s0 sg0] eqn:Esg; [destruct lo; discriminate|]. rewrite <- Esg in *.
    destruct (rn (cu_lib cu) <? snum s0); [discriminate|].
    unfold fuel_of in Hb. rewrite (Hloop _ Eblk Elib) in Hb. injection Hb as <-. rewrite Hshape.
    assert (Ekeep : filter (fast_keep s cu) sg = hi).
    { rewrite Hsplit, filter_app. cbn [filter].
      rewrite (C06_Lists.filter_none _ _ lo), (C06_Lists.filter_all _ _ hi).
      - unfold fast_keep at 1, above_clib. rewrite <- ELn, HxLn, N.ltb_irrefl. reflexivity.
      - apply Forall_forall. intros y Hy. specialize (Hhi y Hy). unfold fast_keep, above_clib, not_held.
        rewrite <- ELn, <- EBn. replace (bnum L <? snum y) with true by (symmetry; apply N.ltb_lt; exact Hhi).
        cbn [andb orb]. apply orb_true_r.
      - apply Forall_forall. intros y Hy. specialize (Hlo y Hy). unfold fast_keep, above_clib.
        rewrite <- ELn. replace (bnum L <? snum y) with false by (symmetry; apply N.ltb_ge; lia). reflexivity. }
    rewrite Ekeep.
    assert (Hhistd : Forall seg_std hi).
    { apply Forall_forall. intros y Hy. rewrite Forall_forall in Hstd. apply Hstd. rewrite Hsplit. apply in_or_app. right. right. exact Hy. }
    exists (map seg_blk hi). split; [rewrite map_map; reflexivity|]. split; [exact Hlhi|]. split; [exact HhiU|].
    split; [rewrite (irr_fast s hd cu hi Hhistd), Hm; reflexivity|].
    intros Hlt.
    destruct (vstatex_segment U first kept U_id U_uniq U_up a Fin A s V hd sg HX Hls Eseg) as (lo2 & xLj & hi2 & Hsplit2 & HbLj & _).
    assert (HxLjin : In xLj sg) by (rewrite Hsplit2; apply in_or_app; right; left; reflexivity).
    assert (HxLjn : snum xLj = bnum (libblk a Fin)).
    { rewrite Forall_forall in Hstd. destruct (Hstd xLj HxLjin) as [_ H]. rewrite H, HbLj. reflexivity. }
    rewrite <- HbLj. apply in_map. rewrite Hsplit in HxLjin. apply in_app_or in HxLjin as [H|[H|H]].
    - specialize (Hlo xLj H). lia.
    - subst xLj. lia.
    - exact H.
  Qed.
End FinalBurst.
