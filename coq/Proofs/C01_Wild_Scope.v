(* Which generated cases meet every hypothesis of c01_wild_mono_partial / c01_wild_discovery_mono_partial
   (Properties/C01_Wild.v; the whole of c01_statement) and of c01_wild_discipline_partial /
   c01_wild_discovery_discipline_partial (discipline and error clauses only): filters for the evidence counter
   "cases_meeting_theorem_hypotheses".  The *_inline version is written with names visible from the check
   imports (for driver/thm_C01.json); lemmas: it equals the readable one; a case that passes the filter
   satisfies c01_statement (on the model); the filter contains the rooted part of the filter of
   c01_moving_lib_roots_partial, and lies inside the property's own scope c01_in_scope. *)
From BV Require Import Base.Prelude Model.Block Model.ForkDB Model.Forkable Spec.Consumer Spec.Universe
  Spec.C01_Spec Spec.C01_Moving_Spec Spec.C01_Roots_Spec Spec.C01_Wild_Spec
  Check.Fk_Check Check.Fk_Props_Check Check.Fk_Moving_Scope
  Proofs.C01_Roots_Proofs Proofs.C01_Roots_Scope Proofs.C01_Wild_Proofs.
Local Open Scope N_scope.

(* discipline + error clause: every in-scope case whose configured LIB has a non-empty id / every discovery case *)
Definition c01_wild_disc_thm_scope (k : fk_case) : bool :=
  filt_nu k && wf_b (k_hist k) &&
  match k_mode k with
  | LExcl r0 | LIncl r0 => negb (ri r0 =? 0)
  | LNone => c_hold (k_cfg k) && negb (c_incl (k_cfg k))
  end.

(* the whole statement: in addition the LIB number never decreases along the run of the never-failing handler *)
Definition c01_wild_thm_scope (k : fk_case) : bool :=
  c01_wild_disc_thm_scope k && lib_mono_b (cfg_nofail (k_cfg k)) (fs_init (k_mode k)) (k_hist k).

Definition c01_wild_thm_scope_inline : fk_case -> bool :=
  (fun k => filt_nu k && BV.Spec.Universe.wf_b (k_hist k) &&
            match k_mode k with
            | LExcl r0 | LIncl r0 => negb (ri r0 =? 0)
            | LNone => c_hold (k_cfg k) && negb (c_incl (k_cfg k))
            end &&
            (fix mono (c : config) (s : fstate) (h : list block) {struct h} : bool :=
               match h with
               | [] => true
               | b :: rest =>
                   let '(s', _, r) := fk_step c s b in
                   (rn (libref (db s)) <=? rn (libref (db s'))) &&
                   match r with ROk => mono c s' rest | _ => true end
               end)
              (mkCfg (c_first (k_cfg k)) (c_incl (k_cfg k)) (c_hold (k_cfg k)) (c_kept (k_cfg k)) (c_alltrig (k_cfg k))
                     (c_filter (k_cfg k)) None)
              (fs_init (k_mode k)) (k_hist k)).

Lemma c01_wild_thm_scope_inline_eq k : c01_wild_thm_scope_inline k = c01_wild_thm_scope k.
Proof. reflexivity. Qed.

(* a case that passes the filter meets every hypothesis of one of the two theorems *)
Lemma c01_wild_thm_scope_sound k : c01_wild_thm_scope k = true ->
  c01_statement (k_cfg k) (k_mode k) (k_hist k).
Proof.
  unfold c01_wild_thm_scope, c01_wild_disc_thm_scope, filt_nu. intros H.
  apply andb_true_iff in H as [H Hmono]. apply andb_true_iff in H as [H Hm]. apply andb_true_iff in H as [Hf Hwf].
  apply andb_true_iff in Hf as [Hnew Hundo].
  destruct (k_mode k) as [r0|r0|] eqn:Em.
  - apply (c01_wild_mono_proved (k_cfg k) r0 (LExcl r0) (k_hist k)); try assumption; [left; reflexivity|].
    apply negb_true_iff, N.eqb_neq in Hm. exact Hm.
  - apply (c01_wild_mono_proved (k_cfg k) r0 (LIncl r0) (k_hist k)); try assumption; [right; reflexivity|].
    apply negb_true_iff, N.eqb_neq in Hm. exact Hm.
  - apply andb_true_iff in Hm as [Hh Hi]. apply negb_true_iff in Hi.
    apply (c01_wild_discovery_mono_proved (k_cfg k) (k_hist k)); assumption.
Qed.

(* ... and lies inside the property's own scope *)
Lemma c01_wild_thm_scope_in k : c01_wild_disc_thm_scope k = true -> c01_in_scope k = true.
Proof.
  unfold c01_wild_disc_thm_scope, c01_in_scope, lib_established. intros H.
  apply andb_true_iff in H as [H Hm]. apply andb_true_iff in H as [Hf Hwf]. rewrite Hf, Hwf.
  destruct (k_mode k); [reflexivity | reflexivity|]. apply andb_true_iff in Hm as [-> _]. reflexivity.
Qed.

(* the filter of c01_moving_lib_roots_partial / c01_discovery_roots_partial is contained in the new filter *)
Lemma c01_wild_thm_scope_sup k : c01_roots_thm_scope k = true -> c01_wild_thm_scope k = true.
Proof.
  unfold c01_roots_thm_scope, c01_wild_thm_scope, c01_wild_disc_thm_scope, filt_nu.
  destruct (k_mode k) as [r0|r0|] eqn:Em; intros H.
  - apply andb_true_iff in H as [Hf Hsc]. pose proof Hf as Hf'. apply andb_true_iff in Hf' as [Hnew Hundo].
    destruct (c01_wild_mono_subsumes_proved (k_cfg k) r0 (LExcl r0) (k_hist k) (or_introl eq_refl) Hnew Hundo Hsc) as (Hwf & Hr0 & Hmono).
    rewrite Hf, Hwf, Hmono. apply N.eqb_neq in Hr0. rewrite Hr0. reflexivity.
  - apply andb_true_iff in H as [Hf Hsc]. pose proof Hf as Hf'. apply andb_true_iff in Hf' as [Hnew Hundo].
    destruct (c01_wild_mono_subsumes_proved (k_cfg k) r0 (LIncl r0) (k_hist k) (or_intror eq_refl) Hnew Hundo Hsc) as (Hwf & Hr0 & Hmono).
    rewrite Hf, Hwf, Hmono. apply N.eqb_neq in Hr0. rewrite Hr0. reflexivity.
  - apply andb_true_iff in H as [H Hsc]. apply andb_true_iff in H as [H Hf]. apply andb_true_iff in H as [Hh Hi].
    pose proof Hf as Hf'. apply andb_true_iff in Hf' as [Hnew Hundo]. pose proof Hi as Hi'. apply negb_true_iff in Hi'.
    destruct (c01_wild_discovery_mono_subsumes_proved (k_cfg k) (k_hist k) Hh Hi' Hnew Hundo Hsc) as (Hwf & Hmono).
    rewrite Hf, Hwf, Hmono, Hh, Hi. reflexivity.
Qed.

(* the input-level filter of c01_wild_first_partial lies inside the filter above *)
Definition c01_wild_first_thm_scope (k : fk_case) : bool :=
  c01_wild_disc_thm_scope k && above_first_b (k_cfg k) (k_hist k).

Lemma c01_wild_first_thm_scope_sub k : c01_wild_first_thm_scope k = true -> c01_wild_thm_scope k = true.
Proof.
  unfold c01_wild_first_thm_scope, c01_wild_thm_scope. intros H. apply andb_true_iff in H as [Hd Hab]. rewrite Hd. cbn [andb].
  unfold c01_wild_disc_thm_scope, filt_nu in Hd.
  apply andb_true_iff in Hd as [H Hm]. apply andb_true_iff in H as [Hf Hwf]. apply andb_true_iff in Hf as [Hnew Hundo].
  destruct c01_wild_first_proved as [P1 P2].
  destruct (k_mode k) as [r0|r0|] eqn:Em.
  - apply negb_true_iff, N.eqb_neq in Hm. exact (proj2 (P1 (k_cfg k) r0 (LExcl r0) (k_hist k) (or_introl eq_refl) Hnew Hundo Hwf Hm Hab)).
  - apply negb_true_iff, N.eqb_neq in Hm. exact (proj2 (P1 (k_cfg k) r0 (LIncl r0) (k_hist k) (or_intror eq_refl) Hnew Hundo Hwf Hm Hab)).
  - apply andb_true_iff in Hm as [Hh Hi]. apply negb_true_iff in Hi.
    exact (proj2 (P2 (k_cfg k) (k_hist k) Hh Hi Hnew Hundo Hwf Hab)).
Qed.

(* the input-level filter of c01_wild_first_le_partial lies inside it too *)
Definition c01_wild_first_le_thm_scope (k : fk_case) : bool :=
  c01_wild_disc_thm_scope k && not_under_first_b (k_cfg k) (k_hist k) &&
  match k_mode k with LExcl r0 | LIncl r0 => lib_weak_coh_b r0 (k_hist k) | LNone => true end.

Lemma c01_wild_first_le_thm_scope_sub k : c01_wild_first_le_thm_scope k = true -> c01_wild_thm_scope k = true.
Proof.
  unfold c01_wild_first_le_thm_scope, c01_wild_thm_scope. intros H. apply andb_true_iff in H as [H Hc]. apply andb_true_iff in H as [Hd Hab].
  rewrite Hd. cbn [andb].
  unfold c01_wild_disc_thm_scope, filt_nu in Hd.
  apply andb_true_iff in Hd as [H Hm]. apply andb_true_iff in H as [Hf Hwf]. apply andb_true_iff in Hf as [Hnew Hundo].
  destruct c01_wild_first_le_proved as [P1 P2].
  destruct (k_mode k) as [r0|r0|] eqn:Em.
  - apply negb_true_iff, N.eqb_neq in Hm. exact (proj2 (P1 (k_cfg k) r0 (LExcl r0) (k_hist k) (or_introl eq_refl) Hnew Hundo Hwf Hm Hab Hc)).
  - apply negb_true_iff, N.eqb_neq in Hm. exact (proj2 (P1 (k_cfg k) r0 (LIncl r0) (k_hist k) (or_intror eq_refl) Hnew Hundo Hwf Hm Hab Hc)).
  - apply andb_true_iff in Hm as [Hh Hi]. apply negb_true_iff in Hi.
    exact (proj2 (P2 (k_cfg k) (k_hist k) Hh Hi Hnew Hundo Hwf Hab)).
Qed.
