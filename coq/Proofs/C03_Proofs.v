(* C03: from the boolean scope of the statement to the hypotheses of Proofs/Fk/FixedLibChoice.v *)
From BV Require Import Base.Prelude Model.Block Model.ForkDB Model.Forkable Spec.Consumer Spec.Universe
  Spec.ForkChoice Spec.C01_Spec Spec.C03_Spec Check.Fk_Check Check.Fk_Props_Check
  Proofs.Fk.FixedLib Proofs.Fk.FixedLibChoice Proofs.C01_Proofs.
Local Open Scope N_scope.

Lemma c03_fixed_lib_proved : c03_fixed_lib_statement.
Proof.
  intros cfg r0 h Hnofail Hincl Hnew Hundo Hscope.
  destruct (scope_parts r0 h Hscope) as (_ & Hr0 & _).
  pose proof (run_follows h r0 cfg Hnofail Hnew Hundo Hincl
                (bridge_id r0 h Hscope) (bridge_uniq r0 h Hscope) (bridge_up r0 h Hscope) Hr0
                (fun y Hy => proj2 (proj2 (bridge_fixed r0 h Hscope y Hy)))
                (fun x Hx => proj1 (proj2 (bridge_fixed r0 h Hscope x Hx)))
                (fun b Hb => proj1 (bridge_fixed r0 h Hscope b Hb))
                h (fs_init (LExcl r0)) [] (fc_init (LExcl r0))
                (inv_init h r0) eq_refl (fcrel_init h r0) (fun b Hb => Hb)) as (H1 & H2 & H3).
  cbv zeta. split; [|split; [|split; [|split]]]; [|exact H1|exact H3| |].
  - unfold c03_statement. cbn [root_lib]. exact H2.
  - intros k. exact (run_kept h r0 cfg Hnofail Hnew Hundo Hincl
                (bridge_id r0 h Hscope) (bridge_uniq r0 h Hscope) (bridge_up r0 h Hscope) Hr0
                (fun y Hy => proj2 (proj2 (bridge_fixed r0 h Hscope y Hy)))
                (fun x Hx => proj1 (proj2 (bridge_fixed r0 h Hscope x Hx)))
                (fun b Hb => proj1 (bridge_fixed r0 h Hscope b Hb))
                k h (fs_init (LExcl r0)) [] (inv_init h r0) eq_refl (fun b Hb => Hb)).
  - intros h1 b h2 Hh. unfold c03_noise_deletion.
    apply (noise_deletion h r0 cfg Hnofail Hnew Hundo Hincl
                (bridge_id r0 h Hscope) (bridge_uniq r0 h Hscope) (bridge_up r0 h Hscope) Hr0
                (fun y Hy => proj2 (proj2 (bridge_fixed r0 h Hscope y Hy)))
                (fun x Hx => proj1 (proj2 (bridge_fixed r0 h Hscope x Hx)))
                (fun b Hb => proj1 (bridge_fixed r0 h Hscope b Hb))
                (fs_init (LExcl r0)) [] (fc_init (LExcl r0)) h1 b h2 (inv_init h r0) eq_refl (fcrel_init h r0)).
    rewrite <- Hh. auto.
Qed.

Lemma c03_reference_meaning_proved : c03_reference_meaning.
Proof.
  intros first alltrig fc b. cbv zeta. unfold fc_step. cbn [andb negb].
  destruct ((bnum b <? rn (fc_lib fc)) && match fc_tip fc with Some _ => true | None => false end); [reflexivity|].
  cbn [negb andb]. destruct (lookup (bid b) (fc_recv fc)); [reflexivity|]. cbn [andb].
  destruct (alltrig || match fc_tip fc with None => true | Some t => bnum t <? bnum b end); [|reflexivity]. cbn [andb].
  destruct (negb (bid b =? ri (fc_lib fc)) &&
            links_to_lib (S (length (b :: fc_recv fc))) first (b :: fc_recv fc) (fc_lib fc) b); [|reflexivity].
  destruct (ancestor_at _ _ _ _) as [a|]; [destruct (_ <? _)|]; reflexivity.
Qed.
