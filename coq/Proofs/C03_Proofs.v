(* C03: from the boolean scope of the statement to the hypotheses of Proofs/Fk/FixedLibChoice.v *)
From BV Require Import Base.Prelude Model.Block Model.ForkDB Model.Forkable Spec.Consumer Spec.Universe
  Spec.ForkChoice Spec.C01_Spec Spec.C03_Spec Check.Fk_Check Check.Fk_Props_Check
  Proofs.Fk.FixedLib Proofs.Fk.FixedLibChoice Proofs.C01_Proofs.
Local Open Scope N_scope.

Lemma c03_fixed_lib_proved : c03_fixed_lib_statement.
Proof.
  intros cfg r0 h Hnofail Hincl Hnew Hundo Hscope.
  destruct (scope_parts r0 h Hscope) as (_ & Hr0 & _).
  pose proof (run_follows h r0 cfg Hnofail Hnew Hundo Hincl
                (bridge_id r0 h Hscope) (bridge_uniq r0 h Hscope) (bridge_up r0 h Hscope) Hr0
                (fun y Hy => proj2 (proj2 (bridge_fixed r0 h Hscope y Hy)))
                (fun x Hx => proj1 (proj2 (bridge_fixed r0 h Hscope x Hx)))
                (fun b Hb => proj1 (bridge_fixed r0 h Hscope b Hb))
                h (fs_init (LExcl r0)) [] (fc_init (LExcl r0))
                (inv_init h r0) eq_refl (fcrel_init h r0) (fun b Hb => Hb)) as (H1 & H2 & H3).
  cbv zeta. split; [|split; [|split]]; [|exact H1|exact H3|].
  - unfold c03_statement. cbn [root_lib]. exact H2.
  - intros k. exact (run_kept h r0 cfg Hnofail Hnew Hundo Hincl
                (bridge_id r0 h Hscope) (bridge_uniq r0 h Hscope) (bridge_up r0 h Hscope) Hr0
                (fun y Hy => proj2 (proj2 (bridge_fixed r0 h Hscope y Hy)))
                (fun x Hx => proj1 (proj2 (bridge_fixed r0 h Hscope x Hx)))
                (fun b Hb => proj1 (bridge_fixed r0 h Hscope b Hb))
                k h (fs_init (LExcl r0)) [] (inv_init h r0) eq_refl (fun b Hb => Hb)).
Qed.
