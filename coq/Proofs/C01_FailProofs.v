(* C01 with a failing handler: the monitors on a run cut by the oracle, and the transfer of C01 from the
   never-failing handler to every oracle (any mode, any history). *)
From BV Require Import Base.Prelude Model.Block Model.ForkDB Model.Forkable Spec.Consumer Spec.Universe
  Spec.C01_Spec Spec.C01_More_Spec Proofs.Fk.LoopFacts Proofs.Fk.LoopFactsFail Proofs.C01_Proofs.
Local Open Scope N_scope.

(* ---------- the run with an oracle is the cut of the run without ---------- *)

Lemma fk_run_oracle_gen cfg s h : ncalls s = 0 -> oracle_run cfg (fk_run (nofail cfg) s h) (fk_run cfg s h).
Proof.
  intros Hz. unfold oracle_run.
  destruct (fk_run_sim cfg h s) as [[E Hno] | (k & t1 & r & rest & pre & post & Hk & E0 & E & Hle & Hl)].
  - destruct (c_fail_at cfg) as [k|] eqn:Hk; [|exact E].
    destruct (N.ltb_spec k (N.of_nat (length (all_events (fk_run (nofail cfg) s h))))) as [Hlt|Hge]; [|exact E].
    exfalso. destruct (Hno k Hk) as [H|H]; unfold len in H; lia.
  - rewrite Hk, E0, E. rewrite Hz in Hle, Hl. unfold len in Hle, Hl.
    assert (Hlen : k < N.of_nat (length (all_events (t1 ++ (pre ++ post, r) :: rest)))).
    { rewrite all_events_app, all_events_cons. cbn [fst]. rewrite !app_length. lia. }
    apply N.ltb_lt in Hlen. rewrite Hlen.
    exists t1, pre, post, r, rest. split; [reflexivity|]. split; [reflexivity|]. split.
    + intros ->. cbn [length] in Hl. lia.
    + rewrite app_length. lia.
Qed.

Lemma ncalls_init m : ncalls (fs_init m) = 0.
Proof. destruct m; reflexivity. Qed.

Lemma fk_run_oracle_proved : fk_run_oracle_statement.
Proof.
  intros cfg m h. split; [apply fk_run_oracle_gen; apply ncalls_init | apply fk_run_noerr].
Qed.

(* ---------- the push/pop consumer accepts every prefix of an accepted event list ---------- *)

Lemma apply_all_prefix lib : forall a S b S', apply_all lib S (a ++ b) = Some S' -> exists S1, apply_all lib S a = Some S1.
Proof.
  induction a as [|e a IH]; intros S b S' H; cbn [apply_all app] in *; [eauto|].
  destruct (apply_ev lib S e) as [S2|]; [eapply IH; exact H | discriminate].
Qed.

(* ---------- the three monitors on a cut trace ---------- *)

Lemma noerr_eqb r : r <> RHandlerErr -> result_eqb r RHandlerErr = false.
Proof. destruct r; intros H; try reflexivity. contradiction. Qed.

(* no hit: the error clause only asks that no step returns a handler error *)
Lemma error_nohit fail : forall t done,
  Forall (fun x : list event * result => snd x <> RHandlerErr) t ->
  (forall k, fail = Some k -> k < done \/ done + N.of_nat (length (all_events t)) <= k) ->
  c01_error_b fail done t = true.
Proof.
  induction t as [|[evs r] t IH]; intros done Hne Hno; [reflexivity|].
  inversion Hne as [|? ? Hr Hne']; subst. cbn [snd] in Hr. cbn [c01_error_b].
  rewrite all_events_cons in Hno. cbn [fst] in Hno. rewrite app_length in Hno.
  assert (Hhit : match fail with
                 | Some k => (done <=? k) && (k <? done + N.of_nat (length evs))
                 | None => false
                 end = false).
  { destruct fail as [k|]; [|reflexivity]. destruct (Hno k eq_refl); lia. }
  rewrite Hhit, (noerr_eqb r Hr). cbn [negb andb].
  apply IH; [exact Hne'|]. intros k Hk. destruct (Hno k Hk); lia.
Qed.

Lemma error_cut k pre : forall t1 done,
  Forall (fun x : list event * result => snd x <> RHandlerErr) t1 ->
  done + N.of_nat (length (all_events t1)) <= k ->
  done + N.of_nat (length (all_events t1)) + N.of_nat (length pre) = k + 1 ->
  c01_error_b (Some k) done (t1 ++ [(pre, RHandlerErr)]) = true.
Proof.
  induction t1 as [|[evs r] t1 IH]; intros done Hne Hle Hl.
  - cbn [app c01_error_b]. cbn in Hle, Hl.
    replace ((done <=? k) && (k <? done + N.of_nat (length pre))) with true by lia.
    replace (k =? done + N.of_nat (length pre) - 1) with true by lia. reflexivity.
  - inversion Hne as [|? ? Hr Hne']; subst. cbn [snd] in Hr. cbn [app c01_error_b].
    rewrite all_events_cons in Hle, Hl. cbn [fst] in Hle, Hl. rewrite app_length in Hle, Hl.
    replace ((done <=? k) && (k <? done + N.of_nat (length evs))) with false by lia.
    rewrite (noerr_eqb r Hr). cbn [negb andb]. apply IH; [exact Hne' | lia | lia].
Qed.

Lemma refeed_cut pre post r rest : forall t1 seen h,
  c01_refeed_b seen h (t1 ++ (pre ++ post, r) :: rest) = true ->
  c01_refeed_b seen h (t1 ++ [(pre, RHandlerErr)]) = true.
Proof.
  induction t1 as [|[evs r1] t1 IH]; intros seen h H; destruct h as [|b h]; try reflexivity; cbn [app c01_refeed_b] in *.
  - apply andb_true_iff in H as [H _]. apply andb_true_iff. split; [|destruct h; reflexivity].
    destruct (existsb (block_eqb b) seen); [|reflexivity]. destruct pre; [reflexivity | discriminate].
  - apply andb_true_iff in H as [H1 H2]. rewrite H1. cbn [andb]. apply IH. exact H2.
Qed.

Lemma root_lib_prefix m (t t0 : trace) l : all_events t <> [] -> all_events t0 = all_events t ++ l ->
  root_lib m t = root_lib m t0.
Proof.
  intros Hne E. destruct m; try reflexivity. unfold root_lib. rewrite E.
  destruct (all_events t); [congruence | reflexivity].
Qed.

Lemma discipline_cut m t1 pre post r rest : pre <> [] ->
  c01_discipline_b m (t1 ++ (pre ++ post, r) :: rest) = true ->
  c01_discipline_b m (t1 ++ [(pre, RHandlerErr)]) = true.
Proof.
  intros Hpre H. unfold c01_discipline_b in *.
  assert (Ea : all_events (t1 ++ [(pre, RHandlerErr)]) = all_events t1 ++ pre).
  { rewrite all_events_app, all_events_cons. cbn [fst]. unfold all_events at 2. cbn. rewrite app_nil_r. reflexivity. }
  assert (E0 : all_events (t1 ++ (pre ++ post, r) :: rest) = all_events (t1 ++ [(pre, RHandlerErr)]) ++ (post ++ all_events rest)).
  { rewrite Ea, all_events_app, all_events_cons. cbn [fst]. rewrite <- !app_assoc. reflexivity. }
  assert (Hne : all_events (t1 ++ [(pre, RHandlerErr)]) <> []).
  { rewrite Ea. intros Hn. apply app_eq_nil in Hn as [_ Hn]. exact (Hpre Hn). }
  rewrite (root_lib_prefix m _ _ _ Hne E0).
  rewrite E0 in H.
  destruct (apply_all (root_lib m (t1 ++ (pre ++ post, r) :: rest)) []
                      (all_events (t1 ++ [(pre, RHandlerErr)]) ++ post ++ all_events rest)) as [S'|] eqn:A; [|discriminate].
  destruct (apply_all_prefix _ _ _ _ _ A) as [S1 ->]. reflexivity.
Qed.

(* ---------- C01 on the cut, from C01 without failures ---------- *)

Lemma c01_on_oracle_run cfg m h t0 t :
  oracle_run cfg t0 t ->
  Forall (fun x : list event * result => snd x <> RHandlerErr) t0 ->
  c01_discipline_b m t0 = true -> c01_refeed_b [] h t0 = true ->
  c01_discipline_b m t = true /\ c01_refeed_b [] h t = true /\ c01_error_b (c_fail_at cfg) 0 t = true.
Proof.
  intros Ho Hne Hd Hr. unfold oracle_run in Ho.
  destruct (c_fail_at cfg) as [k|].
  - destruct (N.ltb_spec k (N.of_nat (length (all_events t0)))) as [Hlt|Hge].
    + destruct Ho as (t1 & pre & post & r & rest & -> & -> & Hpre & Hl).
      split; [eapply discipline_cut; eassumption|]. split; [eapply refeed_cut; exact Hr|].
      rewrite app_length in Hl.
      assert (Hpl : (1 <= length pre)%nat) by (destruct pre; [congruence | cbn; lia]).
      apply error_cut; [|lia|lia].
      apply Forall_app in Hne. tauto.
    + subst t. split; [exact Hd|]. split; [exact Hr|]. apply error_nohit; [exact Hne|].
      intros k' [= <-]. right. lia.
  - subst t. split; [exact Hd|]. split; [exact Hr|]. apply error_nohit; [exact Hne|]. intros k' [=].
Qed.

Lemma c01_failures_transfer_proved : c01_failures_transfer_statement.
Proof.
  intros cfg m h (Hd & Hr & _). unfold c01_statement.
  destruct (fk_run_oracle_proved cfg m h) as [Ho Hne].
  exact (c01_on_oracle_run cfg m h _ _ Ho Hne Hd Hr).
Qed.

(* ---------- results ---------- *)

Lemma results_of_oracle_run cfg t0 t :
  oracle_run cfg t0 t -> Forall (fun x : list event * result => snd x = ROk) t0 -> results_ok_or_last_err t.
Proof.
  intros Ho Hok. unfold oracle_run in Ho. destruct (c_fail_at cfg) as [k|]; [|subst t; left; exact Hok].
  destruct (k <? N.of_nat (length (all_events t0))); [|subst t; left; exact Hok].
  destruct Ho as (t1 & pre & post & r & rest & -> & -> & _). right. exists t1, pre. split; [reflexivity|].
  apply Forall_app in Hok. tauto.
Qed.

(* ---------- goal 1: the fixed-LIB class, exclusive LIB, every oracle ---------- *)

Lemma c01_fixed_lib_failures_proved : c01_fixed_lib_failures_statement.
Proof.
  intros cfg r0 h Hincl Hnew Hundo Hscope.
  destruct (c01_fixed_lib_proved (nofail cfg) r0 h eq_refl Hincl Hnew Hundo Hscope) as (Hst & Hok & _).
  destruct (fk_run_oracle_proved cfg (LExcl r0) h) as [Ho _].
  split; [apply c01_failures_transfer_proved; exact Hst|]. split; [exact Ho|].
  eapply results_of_oracle_run; eassumption.
Qed.
