(* C02 in the fixed-LIB class: no finality event, hence the finality monitor accepts. *)
From BV Require Import Base.Prelude Model.Block Model.ForkDB Model.Forkable Spec.Consumer Spec.Universe
  Spec.C01_Spec Spec.C02_Fixed_Spec Spec.C04_Spec Proofs.C04_Proofs.
Local Open Scope N_scope.

Definition nu (e : event) : Prop := estep e = SNew \/ estep e = SUndo.

Lemma fin_events_nu lib root inc : forall evs st st' n lst any stl,
  Forall nu evs -> apply_all lib st evs = Some st' ->
  fin_events lib root inc (mkFM st n lst any [] stl) evs = Some (mkFM st' n lst any [] stl).
Proof.
  induction evs as [|e evs IH]; intros st st' n lst any stl Hn Ha; cbn [fin_events apply_all] in *.
  - injection Ha as <-. reflexivity.
  - pose proof (Forall_inv Hn) as He. pose proof (Forall_inv_tail Hn) as Hn'.
    destruct (apply_ev lib st e) as [st1|] eqn:A; [|discriminate].
    unfold fin_step. destruct He as [-> | ->]; cbn [fm_stack fm_finals memN fm_nfinal fm_last fm_any fm_stalled]; rewrite A;
      apply IH; assumption.
Qed.

Lemma c04_step_nu r0 lr S b evs S' : c04_step r0 lr S b evs S' -> Forall nu evs /\ apply_all (ri r0) S evs = Some S'.
Proof.
  intros H. split.
  - eapply Forall_impl; [|exact (c04_step_fields _ _ _ _ _ _ H)]. intros e (_ & _ & _ & Hs & _). exact Hs.
  - destruct H as (kept & undone & redone & fresh & _ & _ & _ & _ & Ha). exact Ha.
Qed.

Lemma c04_run_fin r0 : forall h t seen S n lst any stl, c04_run r0 seen S h t ->
  no_finality_events t /\ exists m, fin_trace (ri r0) r0 (mkFM S n lst any [] stl) h t = Some m.
Proof.
  induction h as [|b h IH]; intros t seen S n lst any stl H.
  - destruct t; [|destruct H]. split; [constructor | cbn; eauto].
  - destruct t as [|[evs r] t]; [destruct H|]. cbn [c04_run] in H. destruct H as (_ & S' & Hstep & Hrun).
    destruct (c04_step_nu _ _ _ _ _ _ Hstep) as [Hn Ha].
    destruct (IH t (b :: seen) S' n lst any stl Hrun) as [IH1 IH2].
    split; [constructor; [exact Hn | exact IH1]|].
    cbn [fin_trace]. rewrite (fin_events_nu _ _ _ _ _ _ _ _ _ _ Hn Ha). exact IH2.
Qed.

Lemma c02_fixed_lib_proved : c02_fixed_lib_statement.
Proof.
  intros cfg r0 h Hnofail Hincl Hnew Hundo Hscope.
  destruct (c04_fixed_lib_proved cfg r0 h Hnofail Hincl Hnew Hundo Hscope) as (Hrun & _ & _).
  destruct (c04_run_fin r0 h _ [] [] 0%nat r0 false [] Hrun) as [H1 [m H2]].
  split; [exact H1|]. unfold c02_statement, c02_b. cbn [root_ref]. rewrite H2. reflexivity.
Qed.
