(* C15 — the boolean form of the provider clause used by the checker (Check/C15_Check.v, prov_prop)
   is sound for the Prop statement: an accepted answer is the ascending list of exactly the fed
   blocks carrying a matching key inside the requested range. *)
From Coq Require Import Sorted.
From BV Require Import Base.Prelude Model.BlockIndex Spec.C15_Spec Proofs.PreludeFacts
  Proofs.C15_Sets Proofs.C15_Lookup Check.C15_Check.
Local Open Scope N_scope.

Lemma ascending_asc l : ascending l = true -> asc l.
Proof.
  induction l as [|x l IH]; intros H; [apply asc_nil|].
  destruct l as [|y l]; [apply asc_cons; split; [apply asc_nil | constructor]|].
  simpl in H. apply andb_true_iff in H as [H1 H2]. apply N.ltb_lt in H1.
  pose proof (IH H2) as Hy. apply asc_cons. split; [exact Hy|].
  apply asc_cons in Hy as [_ Hy]. constructor; [exact H1|].
  eapply Forall_impl; [|exact Hy]. intros a Ha. simpl in Ha. lia.
Qed.

Lemma block_matches_fed m chain n :
  block_matches m chain n = true <-> exists k, m k = true /\ fed chain k n.
Proof.
  unfold block_matches, fed. rewrite existsb_exists. split.
  - intros [[keys n'] [Hin Hb]]. simpl in Hb. apply andb_true_iff in Hb as [H1 H2].
    apply N.eqb_eq in H1. subst n'. apply existsb_exists in H2 as [k [Hk Hm]].
    exists k. split; [exact Hm|]. exists keys. split; assumption.
  - intros [k [Hm [keys [Hin Hk]]]]. exists (keys, n). split; [exact Hin|]. simpl.
    rewrite N.eqb_refl. simpl. apply existsb_exists. exists k. split; assumption.
Qed.

Lemma prov_prop_sound fsb chain possible m names base bsize l :
  bsize <> 0 -> base mod bsize = 0 -> ascending (nums chain) = true ->
  prov_prop fsb chain possible m names (base, bsize) (ROk l) = true ->
  asc l /\
  forall n, In n l <-> (base <= n < base + bsize /\ exists k, m k = true /\ fed chain k n).
Proof.
  intros Hb Hal Hasc. unfold prov_prop.
  destruct (bsize =? 0) eqn:E0; [apply N.eqb_eq in E0; contradiction|].
  rewrite Hal. simpl. intros H. apply andb_true_iff in H as [_ H].
  apply (list_eqb_eq N.eqb N.eqb_eq) in H. subst l. split.
  - apply asc_filter. unfold matching_nums. apply asc_filter. apply ascending_asc. exact Hasc.
  - intros n. unfold matching_nums. rewrite !filter_In, block_matches_fed, andb_true_iff, N.leb_le, N.ltb_lt.
    split.
    + intros [[_ Hk] Hr]. split; assumption.
    + intros [Hr Hk]. split; [split; [|exact Hk] | exact Hr].
      destruct Hk as [k [_ [keys [Hin _]]]]. unfold nums. change n with (snd (keys, n)). apply in_map. exact Hin.
Qed.
