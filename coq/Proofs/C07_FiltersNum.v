(* C07, number mode, every filter and stop block: the run shapes (C07_Shapes.v) put together with the discipline of
   the raw sequences (C07_Filters.v); C07_num_raw and C07_seamless_num_nu of Spec/C07_More_Spec.v. *)
From Coq Require Import Sorted.
From BV Require Import Base.Prelude Model.Block Model.ForkDB Model.Forkable Model.ForkableLookups Model.Burst Model.Hub
  Model.CursorResolver Model.Joining
  Spec.Consumer Spec.Universe Check.Fk_Check Check.Burst_Check Check.C07_Check
  Spec.C09_Spec Spec.C05_Spec Spec.C06_Spec Spec.C07_Spec Spec.C13_Spec Spec.C07_Compose_Spec Spec.C07_Shapes_Spec Spec.C07_More_Spec
  Spec.C01_Spec Spec.C01_Moving_Spec Spec.C01_Roots_Spec
  Proofs.C06_Lists Proofs.C06_Proofs Proofs.C13_Proofs
  Proofs.Fk.LoopFacts Proofs.Fk.MovingLibDisc Proofs.C02_Proofs Proofs.C01_Roots_Proofs
  Proofs.Hub.ConsFacts Proofs.Hub.HubFed Proofs.Hub.LinkedRuns Proofs.Hub.C09_History
  Proofs.C07_File Proofs.C07_Live
  Proofs.C07_ComposeStack Proofs.C07_ComposeHub Proofs.C07_ComposeRun Proofs.C07_Compose
  Proofs.C07_Raw Proofs.C07_Shapes Proofs.C07_Filters Proofs.C07_ChainFacts.
Local Open Scope N_scope.

(* the stack of a fold holds blocks that were there or that a New-matching event brought *)
Lemma sfold_origin : forall l J0 J, sfold J0 l = Some J ->
  forall b, In b J -> In b J0 \/ exists e, In e l /\ eblk e = b /\ matches_new (estep e) = true.
Proof.
  induction l as [|e l IH]; intros J0 J H b Hb.
  - injection H as <-. left. exact Hb.
  - cbn [sfold] in H. destruct (sapply J0 e) as [J1|] eqn:E1; [|discriminate].
    destruct (IH J1 J H b Hb) as [Hin|(e' & He' & Heb & Hm)]; [|right; exists e'; split; [right; exact He' | auto]].
    unfold sapply in E1. destruct (estep e) eqn:Es.
    + destruct J0 as [|top J00]; [injection E1 as <- | destruct (bparent (eblk e) =? bid top); [injection E1 as <- | discriminate]].
      * destruct Hin as [<-|[]]. right. exists e. rewrite Es. split; [left; reflexivity | auto].
      * destruct Hin as [<-|Hin]; [right; exists e; rewrite Es; split; [left; reflexivity | auto] | left; exact Hin].
    + destruct J0 as [|top J00]; [injection E1 as <-; left; exact Hin|].
      destruct (bid (eblk e) =? bid top); [injection E1 as <- | discriminate]. left. right. exact Hin.
    + injection E1 as <-. left. exact Hin.
    + injection E1 as <-. left. exact Hin.
    + destruct J0 as [|top J00]; [injection E1 as <- | destruct (bparent (eblk e) =? bid top); [injection E1 as <- | discriminate]].
      * destruct Hin as [<-|[]]. right. exists e. rewrite Es. split; [left; reflexivity | auto].
      * destruct Hin as [<-|Hin]; [right; exists e; rewrite Es; split; [left; reflexivity | auto] | left; exact Hin].
Qed.

(* a New-matching event pushes its block *)
Lemma sapply_new_top J0 e J : sapply J0 e = Some J -> matches_new (estep e) = true -> J = eblk e :: J0.
Proof.
  unfold sapply. intros H Hm. destruct (estep e); try discriminate;
    (destruct J0 as [|top J00]; [injection H as <-; reflexivity |
     destruct (bparent (eblk e) =? bid top); [injection H as <-; reflexivity | discriminate]]).
Qed.

Lemma filter_is_nu_app l1 l2 : filter is_nu (l1 ++ l2) = filter is_nu l1 ++ filter is_nu l2.
Proof. apply filter_app. Qed.

Section StopEv.
  Variable U : list block.
  Variable c : jcfg.
  Variable canon : list block.
  Variable start : N.
  Variable merged_end : N.
  Hypothesis U_id : forall b, In b U -> bid b <> 0 /\ bid b <> bparent b.
  Hypothesis U_uniq : forall x y, In x U -> In y U -> bid x = bid y -> x = y.
  Hypothesis U_up : forall x y, In x U -> In y U -> bparent x = bid y -> bnum y < bnum x.
  Hypothesis Hchain : chain_ok canon.
  Hypothesis Hincl : incl canon U.
  Hypothesis Hstartle : exists b, In b canon /\ bnum b <= start.
  Hypothesis Hnu : has_nu (j_filter c) (j_custom c) = true.
  Let merged := filter (fun b => bnum b <? merged_end) canon.
  Notation disc := (disc U start).

  (* the stop event of a raw sequence whose beginnings fold *)
  Lemma stop_event_from J0 X X1 e X2 :
    (forall b, In b J0 -> bnum b < j_stop c) ->
    disc J0 X -> X = X1 ++ e :: X2 -> snd (upto_stop c X1) = false -> stops c e = true -> start <= j_stop c ->
    let out := delivered c X1 ++ (if fst (Joining.chain c e) then [e] else []) in
    exists J, sfold J0 (filter is_nu out) = Some J /\
      stop_reached c canon merged start out J.
  Proof.
    intros HJ0 Hd EX Hns Hs Hle out.
    destruct (stops_true c e Hs) as (Hp & H0 & Hge & Hfst).
    assert (HcU : Forall (fun x => In x U) canon) by (apply Forall_forall; exact Hincl).
    pose proof (lnk_of_chain_ok canon Hchain) as Hcl. pose proof Hstartle as Hsl.
    (* the stacks before and after e *)
    destruct (Hd X1 (e :: X2) EX) as (Ja & HJa & _).
    destruct (Hd (X1 ++ [e]) X2) as (Jb & HJb & HGb); [rewrite EX, <- app_assoc; reflexivity|].
    assert (Hsap : sapply Ja e = Some Jb).
    { rewrite sfold_app, HJa in HJb. cbn [sfold] in HJb. destruct (sapply Ja e) as [J'|]; [exact HJb | discriminate]. }
    assert (Hda : filter is_nu (delivered c X1) = filter is_nu X1) by (apply nu_delivered; assumption).
    (* every New-matching event of X1 is numbered below S *)
    assert (Hbelow : forall x, In x X1 -> matches_new (estep x) = true -> enum x < j_stop c).
    { intros x Hx Hm. pose proof (upto_stop_nostop c X1 Hns) as Hall. rewrite Forall_forall in Hall.
      apply (stops_false_pass c x (Hall x Hx)); [|exact H0].
      apply has_nu_pass; [exact Hnu | unfold is_nu; rewrite Hm; reflexivity]. }
    set (J := if enum e =? j_stop c then Jb else Ja).
    assert (HJ : sfold J0 (filter is_nu out) = Some J).
    { unfold out, J. rewrite Hfst, filter_is_nu_app, Hda.
      change (filter is_nu X1) with (filter nu_ev X1). rewrite sfold_app, sfold_filter, HJa.
      destruct (enum e =? j_stop c); [|reflexivity].
      change (filter is_nu [e]) with (filter nu_ev [e]). rewrite sfold_filter. cbn [sfold]. rewrite Hsap. reflexivity. }
    exists J. split; [exact HJ|]. right. exists (delivered c X1), e.
    split; [unfold out; rewrite Hfst; reflexivity|]. split; [exact Hp|]. split; [exact Hge|].
    intros Hm Hcan.
    pose proof (sapply_new_top Ja e Jb Hsap Hm) as EJb.
    destruct HGb as [HGb|[V HR]]; [rewrite EJb in HGb; discriminate|].
    apply in_split in Hcan as (cpre & cpost & Ecan).
    pose proof (rel_top_canon U U_id U_uniq U_up start V Jb (eblk e) Ja canon cpre cpost HR EJb Ecan HcU Hcl Hsl) as Htop.
    (* canon up to the block of e, by numbers *)
    assert (Hsorted : StronglySorted blt canon).
    { destruct Hcl as [xc Hlc]. apply (linked_sorted U U_id U_uniq U_up _ xc Hlc HcU). }
    assert (Hcpre : forall y, In y cpre -> bnum y < enum e).
    { intros y Hy. rewrite Ecan in Hsorted.
      destruct (Proofs.C09_Proofs.StronglySorted_split blt cpre (eblk e) cpost Hsorted) as [HA _]. exact (HA y Hy). }
    assert (Hcpost : forall y, In y cpost -> enum e < bnum y).
    { intros y Hy. rewrite Ecan in Hsorted.
      destruct (Proofs.C09_Proofs.StronglySorted_split blt cpre (eblk e) cpost Hsorted) as [_ HB]. exact (HB y Hy). }
    assert (Hseg : from_num start (cpre ++ [eblk e]) = seg_num start (enum e) canon).
    { unfold seg_num, from_num. rewrite Ecan.
      change (eblk e :: cpost) with ([eblk e] ++ cpost). rewrite app_assoc, (filter_app _ (cpre ++ [eblk e]) cpost).
      rewrite (filter_none _ _ cpost), app_nil_r.
      - apply filter_ext_in. intros y Hy. replace (bnum y <=? enum e) with true; [rewrite andb_true_r; reflexivity|].
        symmetry. apply N.leb_le. apply in_app_or in Hy as [Hy|[<-|[]]]; [specialize (Hcpre y Hy); lia | unfold enum; lia].
      - apply Forall_forall. intros y Hy. specialize (Hcpost y Hy). apply andb_false_iff. right. apply N.leb_gt. exact Hcpost. }
    split.
    - (* canon has a block numbered S: e announces it *)
      intros (bS & HbS & HnS). destruct (N.eq_dec (enum e) (j_stop c)) as [E|E]; [exact E|]. exfalso.
      assert (Hlt : j_stop c < enum e) by lia.
      (* bS is held under the block of e *)
      assert (HbSin : In bS (rev Jb)).
      { assert (H : In bS (from_num start (rev Jb))).
        { rewrite Htop, Hseg. unfold seg_num. apply filter_In. split; [exact HbS|].
          apply andb_true_iff. split; apply N.leb_le; [|lia].
          rewrite HnS. exact Hle. }
        unfold from_num in H. apply filter_In in H as [H _]. exact H. }
      apply in_rev in HbSin. rewrite EJb in HbSin. destruct HbSin as [EbS|HbSin].
      + unfold enum in Hlt. rewrite EbS in Hlt. lia.
      + destruct (sfold_origin X1 J0 Ja HJa bS HbSin) as [Hin0|(x & Hx & Hxb & Hxm)]; [specialize (HJ0 bS Hin0); lia|].
        specialize (Hbelow x Hx Hxm). unfold enum in Hbelow. rewrite Hxb in Hbelow. lia.
    - intros E. unfold J. rewrite E, N.eqb_refl. split; [rewrite EJb; reflexivity|].
      rewrite Htop, Hseg, E. reflexivity.
  Qed.

End StopEv.

Section NumRun.
  Variable U : list block.
  Variable c : jcfg.
  Variable canon : list block.
  Variable start : N.
  Variable w : world.
  Variable ps : list (N * N).
  Variable merged_end : N.
  Variable forked : list block.

  Hypothesis U_id : forall b, In b U -> bid b <> 0 /\ bid b <> bparent b.
  Hypothesis U_uniq : forall x y, In x U -> In y U -> bid x = bid y -> x = y.
  Hypothesis U_up : forall x y, In x U -> In y U -> bparent x = bid y -> bnum y < bnum x.
  Hypothesis D_decl : forall b, In b U -> decl_none U b.

  Hypothesis Hchain : chain_ok canon.
  Hypothesis Hincl : incl canon U.
  Hypothesis Hstartblk : exists b, In b canon /\ bnum b = start.
  Hypothesis Hstart : run_start c w = start.
  Hypothesis HW : WOK U c w.
  Hypothesis Htip : eventual_tip c w canon.
  Hypothesis Hmode : j_mode c = 0.
  Hypothesis Hbundle : 0 < j_bundle c.

  Let merged := filter (fun b => bnum b <? merged_end) canon.
  Hypothesis Hbound : Forall (fun b => bnum b < file_bound) merged.

  Let res := stream_run c w ps merged_end merged forked.
  Let stopf := if j_stop c =? 0 then file_bound else j_stop c.
  Let bound := (stopf / j_bundle c + 1) * j_bundle c.
  Let D := file_delivery merged start stopf (j_bundle c).
  Let fend := if negb (j_stop c =? 0) && ((j_stop c / j_bundle c + 1) * j_bundle c <=? merged_end) then JStop else JNil.

  Notation disc := (disc U start).

  Lemma HcU : Forall (fun x => In x U) canon.
  Proof. apply Forall_forall. exact Hincl. Qed.

  Lemma HmU : forall b, In b merged -> In b U.
  Proof. intros b Hb. apply Hincl. unfold merged in Hb. apply filter_In in Hb as [Hb _]. exact Hb. Qed.

  Lemma Hstartle : exists b, In b canon /\ bnum b <= start.
  Proof. clear - Hstartblk. destruct Hstartblk as (b0 & H1 & H2). exists b0. split; [exact H1 | lia]. Qed.

  Lemma run_files_num : run_files c start merged_end merged forked = (map fev D, fend).
  Proof. unfold run_files. rewrite (file_end_not1 c merged_end) by (rewrite Hmode; reflexivity). rewrite Hmode. reflexivity. Qed.

  Lemma D_ok : chain_ok D.
  Proof.
    destruct (c06_delivery_segment_proof merged start stopf (j_bundle c) (merged_chain_ok canon merged_end Hchain)) as [_ H]. exact H.
  Qed.

  Lemma D_in b : In b D <-> In b merged /\ start <= bnum b /\ bnum b < bound.
  Proof.
    unfold D, file_delivery. rewrite filter_In, andb_true_iff, N.leb_le, N.ltb_lt. reflexivity.
  Qed.

  Lemma D_bot : forall z r, D = z :: r -> bnum z <= start.
  Proof.
    intros z r Ez. destruct Hstartblk as (b0 & Hb0 & Hnb0).
    assert (Hz : In z D) by (rewrite Ez; left; reflexivity). apply D_in in Hz as (Hzm & Hz1 & Hz2).
    destruct (N.ltb_spec (bnum b0) merged_end) as [Hlt|Hge].
    - assert (Hb0D : In b0 D).
      { apply D_in. split; [unfold merged; apply filter_In; split; [exact Hb0 | apply N.ltb_lt; exact Hlt] | lia]. }
      pose proof (chain_ok_asc D D_ok) as Hasc. rewrite Ez in Hasc, Hb0D. cbn [asc] in Hasc. destruct Hasc as [Hall _].
      destruct Hb0D as [<-|Hb0r]; [lia|]. rewrite Forall_forall in Hall. specialize (Hall b0 Hb0r). lia.
    - unfold merged in Hzm. apply filter_In in Hzm as [_ Hz]. apply N.ltb_lt in Hz. lia.
  Qed.

  (* when the file source ends waiting for the next file it has read every merged block from start *)
  Lemma D_all : fend = JNil -> D = from_num start merged.
  Proof.
    unfold fend, D, stopf. destruct (j_stop c =? 0) eqn:E0; cbn [negb andb].
    - intros _. apply delivery_all; assumption.
    - destruct (N.leb_spec ((j_stop c / j_bundle c + 1) * j_bundle c) merged_end) as [Hle|Hgt]; [discriminate|]. intros _.
      unfold file_delivery, from_num. apply filter_ext_in. intros b Hb.
      unfold merged in Hb. apply filter_In in Hb as [_ Hb]. apply N.ltb_lt in Hb.
      replace (bnum b <? (j_stop c / j_bundle c + 1) * j_bundle c) with true; [apply andb_true_r|].
      symmetry. apply N.ltb_lt. lia.
  Qed.

  (* ---------------------------------------------------------------- the core: the raw sequence of the run *)

  Lemma num_core :
    exists X,
      disc [] X /\
      ((run_rejected c w = false /\ exists P, raw_out c (seen c X) res P /\
          (P -> exists J, sfold [] X = Some J /\ from_num start (rev J) = from_num start canon)) \/
       (run_rejected c w = false /\ X = map fev D /\ files_out c (seen c X) fend res) \/
       (X = [] /\ (res = ([], JInvalidArg) \/ res = ([], JFuel)))).
  Proof.
    pose proof HcU as HcU. pose proof (lnk_of_chain_ok canon Hchain) as Hcl. pose proof Hstartle as Hsl.
    pose proof (c07_run_shapes_proof c w ps merged_end merged forked) as Hsh. cbv zeta in Hsh.
    rewrite Hstart, run_files_num in Hsh. cbn [fst snd] in Hsh. fold res in Hsh.
    assert (Hnil : disc [] []) by (apply disc_nil; left; reflexivity).
    destruct Hsh as [[_ Hr]|[Hrej [(burst & k & Hlt & Hro)|[[_ Hr]|[Hlt [(pre & e & rest & m & lowest & burst & k & Ef & Hns & Hj & Hro)|Hfo]]]]]].
    - exists []. split; [exact Hnil|]. right. right. split; [reflexivity | left; exact Hr].
    - (* live from the start *)
      unfold live_try in Hlt. rewrite Hmode in Hlt. cbn [N.eqb] in Hlt.
      destruct (h_ready (w_hub w)) eqn:Hrd; cbn [negb] in Hlt; [|discriminate].
      destruct (start_raw U c canon start U_id U_uniq U_up D_decl HcU Hcl Hsl merged HmU w burst k HW Htip Hrd Hlt) as (Hd & J & HJ & _ & Hfin).
      exists (burst ++ pushed c k w). split; [exact Hd|]. left. split; [exact Hrej|].
      exists (w_rest (world_after c k w) = []). split; [exact Hro|]. intros HP. exists J. split; [exact HJ | exact (Hfin HP)].
    - exists []. split; [exact Hnil|]. right. right. split; [reflexivity | right; exact Hr].
    - (* files, then the join *)
      apply map_eq_app in Ef as (Dpre & D2 & ED & Epre & E2). apply map_eq_cons in E2 as (bn & D' & ED2 & Ebn & _).
      subst pre e D2.
      destruct (lnk_of_chain_ok D D_ok) as [x0 HlD].
      assert (EDD : D = (Dpre ++ [bn]) ++ D') by (rewrite ED, <- app_assoc; reflexivity).
      assert (Hl1 : exists x, lnk x (Dpre ++ [bn])) by (exists x0; rewrite EDD in HlD; eapply linked_prefix; exact HlD).
      assert (Hin1 : forall b, In b (Dpre ++ [bn]) -> In b merged).
      { intros b Hb. assert (H : In b D) by (rewrite EDD; apply in_or_app; left; exact Hb). apply D_in in H. tauto. }
      assert (Hbot1 : forall z r, Dpre ++ [bn] = z :: r -> bnum z <= start).
      { intros z r Ez. apply (D_bot z (r ++ D')). rewrite EDD, Ez. reflexivity. }
      assert (Hmode2 : (j_mode c =? 2) = false) by (rewrite Hmode; reflexivity).
      pose proof (id_joins U c U_id U_uniq U_up merged HmU w Hmode2 m) as Hjg.
      destruct (join_raw U c canon start U_id U_uniq U_up D_decl HcU Hcl Hsl merged HmU (world_after c m w) Dpre bn lowest burst k
                  (wok_after U c U_id U_uniq U_up D_decl m w HW) (tip_after c canon w m Htip) Hjg Hl1 Hin1 Hbot1 Hj)
        as (Hd & J & HJ & _ & Hfin).
      exists (map fev Dpre ++ burst ++ pushed c k (world_after c m w)). split; [exact Hd|]. left. split; [exact Hrej|].
      exists (w_rest (world_after c k (world_after c m w)) = []). split; [exact Hro|].
      intros HP. exists J. split; [exact HJ | exact (Hfin HP)].
    - (* files only *)
      destruct (lnk_of_chain_ok D D_ok) as [x0 HlD].
      destruct (files_raw U start merged HmU D (ex_intro _ x0 HlD)) as (_ & Hd & _).
      + intros b Hb. apply D_in in Hb. tauto.
      + exact D_bot.
      + exists (map fev D). split; [exact Hd|]. right. left. split; [exact Hrej|]. split; [reflexivity | exact Hfo].
  Qed.

  Lemma not_rejected_start : run_rejected c w = false -> j_stop c <> 0 -> start <= j_stop c.
  Proof.
    unfold run_rejected. rewrite Hstart. intros H H0. apply orb_false_iff in H as [H _].
    apply N.eqb_neq in H0. rewrite H0 in H. cbn [negb andb] in H. apply N.ltb_ge in H. exact H.
  Qed.

  Lemma files_fold : sfold [] (map fev D) = Some (rev D).
  Proof.
    destruct (lnk_of_chain_ok D D_ok) as [x0 HlD].
    destruct (files_raw U start merged HmU D (ex_intro _ x0 HlD)) as (H & _ & _); [|exact D_bot | exact H].
    intros b Hb. apply D_in in Hb. tauto.
  Qed.

  (* ---------------------------------------------------------------- C07_num_raw *)

  Lemma num_raw :
    exists X,
      chain_over c (seen c X) res /\
      (forall X1 X2, X = X1 ++ X2 -> exists c', raw_fold [] X1 = Some c') /\
      (snd res = JNil ->
         exists c', raw_fold [] X = Some c' /\
           (rev (cs_stack c') = from_num start merged \/
            from_num start (rev (cs_stack c')) = from_num start canon)).
  Proof.
    destruct num_core as (X & Hd & Hcase).
    assert (Hpre : forall X1 X2, X = X1 ++ X2 -> exists c', raw_fold [] X1 = Some c').
    { intros X1 X2 E. destruct (Hd X1 X2 E) as (J & HJ & _). exists (mkCons J 0 false). apply raw_fold_sfold. exact HJ. }
    exists X. destruct Hcase as [(_ & P & Hro & HP)|[(_ & EX & Hfo)|[EX Hr]]].
    - split; [left; exists P; exact Hro|]. split; [exact Hpre|]. intros Hn.
      unfold raw_out in Hro. rewrite Hn in Hro. destruct Hro as (Hc & _ & _). destruct (HP Hc) as (J & HJ & Hfin).
      exists (mkCons J 0 false). split; [apply raw_fold_sfold; exact HJ | right; exact Hfin].
    - split; [right; exists fend; exact Hfo|]. split; [exact Hpre|]. intros Hn.
      exists (mkCons (rev D) 0 false). split; [rewrite EX; apply raw_fold_sfold; exact files_fold|]. left.
      cbn [cs_stack]. rewrite rev_involutive. apply D_all.
      destruct Hfo as [[_ Hr]|[_ Hr]]; rewrite Hr in Hn; cbn [snd] in Hn; [exact Hn | discriminate].
    - split.
      { right. exists (snd res). left. rewrite EX. assert (Es : seen c [] = []) by (unfold seen; destruct (j_filter c =? 1); reflexivity).
        rewrite Es. split; [reflexivity|]. destruct Hr as [Hr|Hr]; rewrite Hr; reflexivity. }
      split; [exact Hpre|]. intros Hn. destruct Hr as [Hr|Hr]; rewrite Hr in Hn; discriminate.
  Qed.

  (* ---------------------------------------------------------------- filters with New and Undo, any stop block *)

  Hypothesis Hnu : has_nu (j_filter c) (j_custom c) = true.

  Lemma fev_passes b : passes c (fev b) = true.
  Proof. apply has_nu_pass; [exact Hnu | reflexivity]. Qed.

  Lemma stop_event X X1 e X2 :
    disc [] X -> X = X1 ++ e :: X2 -> snd (upto_stop c X1) = false -> stops c e = true -> start <= j_stop c ->
    let out := delivered c X1 ++ (if fst (Joining.chain c e) then [e] else []) in
    exists J, sfold [] (filter is_nu out) = Some J /\
      stop_reached c canon merged start out J.
  Proof.
    apply (stop_event_from U c canon start merged_end U_id U_uniq U_up Hchain Hincl Hstartle Hnu []). intros b [].
  Qed.

  (* the file source reports the end of the bundle of S and the chain did not stop: S is on a skipped number *)
  Lemma marker_case : run_rejected c w = false -> fend = JStop -> snd (upto_stop c (map fev D)) = false ->
    (forall b, In b canon -> bnum b <> j_stop c) /\
    D = filter (fun b => (start <=? bnum b) && (bnum b <? j_stop c)) merged.
  Proof.
    clear Hmode. intros Hrej Hfe Hns.
    assert (E0 : j_stop c <> 0).
    { intros E. unfold fend in Hfe. rewrite E in Hfe. discriminate. }
    assert (Hle : (j_stop c / j_bundle c + 1) * j_bundle c <= merged_end).
    { unfold fend in Hfe. apply N.leb_le. case_eq ((j_stop c / j_bundle c + 1) * j_bundle c <=? merged_end); [reflexivity|].
      intros E. rewrite E, andb_false_r in Hfe. discriminate. }
    assert (Ebound : bound = (j_stop c / j_bundle c + 1) * j_bundle c).
    { unfold bound, stopf. apply N.eqb_neq in E0. rewrite E0. reflexivity. }
    assert (HSb : j_stop c < bound).
    { rewrite Ebound. pose proof (N.mul_succ_div_gt (j_stop c) (j_bundle c)) as H. rewrite <- N.add_1_r in H. nia. }
    pose proof (not_rejected_start Hrej E0) as Hsle.
    assert (HDlt : forall b, In b D -> bnum b < j_stop c).
    { intros b Hb. pose proof (upto_stop_nostop c _ Hns) as Hall. rewrite Forall_forall in Hall.
      apply (stops_false_pass c (fev b)); [apply Hall; apply in_map; exact Hb | apply fev_passes | exact E0]. }
    split.
    - intros b Hb Hn. assert (HbD : In b D).
      { apply D_in. split; [unfold merged; apply filter_In; split; [exact Hb | apply N.ltb_lt; lia] | lia]. }
      specialize (HDlt b HbD). lia.
    - unfold D at 1, file_delivery. apply filter_ext_in. intros b Hb. fold bound.
      destruct (N.leb_spec start (bnum b)) as [H1|H1]; cbn [andb]; [|reflexivity].
      destruct (N.ltb_spec (bnum b) bound) as [H2|H2].
      + symmetry. apply N.ltb_lt. apply HDlt. apply D_in. auto.
      + symmetry. apply N.ltb_ge. lia.
  Qed.

  Lemma num_nu :
    exists c', cons_fold_aside cons0 (map as_new (filter is_nu (fst res))) = Some c' /\
      (snd res = JNil ->
         rev (cs_stack c') = from_num start merged \/
         from_num start (rev (cs_stack c')) = from_num start canon) /\
      (snd res = JStop -> stop_reached c canon merged start (fst res) (cs_stack c')).
  Proof.
    destruct num_core as (X & Hd & Hcase).
    assert (Hne : j_filter c <> 1).
    { intros E. unfold has_nu in Hnu. rewrite E in Hnu. cbn in Hnu. discriminate. }
    rewrite (seen_stateless c X Hne) in Hcase.
    (* the run stopped by the chain on an event of X *)
    assert (Hstopped : run_rejected c w = false -> snd (upto_stop c X) = true -> fst res = fst (upto_stop c X) -> snd res = JStop ->
              exists c', cons_fold_aside cons0 (map as_new (filter is_nu (fst res))) = Some c' /\
                (snd res = JNil -> rev (cs_stack c') = from_num start merged \/ from_num start (rev (cs_stack c')) = from_num start canon) /\
                (snd res = JStop -> stop_reached c canon merged start (fst res) (cs_stack c'))).
    { intros Hrej Hs Hf Hr. destruct (upto_stop_split c X Hs) as (X1 & e & X2 & EX & Hns & Hse & Hfu).
      destruct (stops_true c e Hse) as (_ & H0 & _).
      destruct (stop_event X X1 e X2 Hd EX Hns Hse (not_rejected_start Hrej H0)) as (J & HJ & Hsr).
      rewrite Hf, Hfu. exists (mkCons J 0 false). split; [apply cons_of_sfold_nu; exact HJ|].
      split; [intros Hn; rewrite Hr in Hn; discriminate | intros _; exact Hsr]. }
    destruct Hcase as [(Hrej & P & Hro & HP)|[(Hrej & EX & Hfo)|[EX Hr]]].
    - unfold raw_out in Hro. destruct (snd res) eqn:Er; try contradiction.
      + destruct Hro as (Hc & Hns & Hf). destruct (HP Hc) as (J & HJ & Hfin).
        exists (mkCons J 0 false). split.
        * apply cons_of_sfold_nu. rewrite Hf, (nu_delivered c X Hnu Hns), sfold_nu_filter. exact HJ.
        * split; [intros _; right; exact Hfin | discriminate].
      + destruct Hro as (Hs & Hf). apply Hstopped; [exact Hrej | exact Hs | exact Hf | reflexivity].
      + destruct Hro as (X1 & X2 & EX & Hns & Hf). destruct (Hd X1 X2 EX) as (J & HJ & _).
        exists (mkCons J 0 false). split; [|split; discriminate].
        apply cons_of_sfold_nu. rewrite Hf, (nu_delivered c X1 Hnu Hns), sfold_nu_filter. exact HJ.
    - destruct Hfo as [[Hns Hr]|[Hs Hr]].
      + exists (mkCons (rev D) 0 false). rewrite Hr. cbn [fst snd cs_stack]. split.
        * apply cons_of_sfold_nu. rewrite (nu_delivered c X Hnu Hns), sfold_nu_filter, EX. exact files_fold.
        * split.
          -- intros Hn. left. rewrite rev_involutive. apply D_all. exact Hn.
          -- intros Hn. left. rewrite EX in Hns. destruct (marker_case Hrej Hn Hns) as [H1 H2].
             split; [exact H1 | rewrite rev_involutive; exact H2].
      + apply Hstopped; [exact Hrej | exact Hs | rewrite Hr; reflexivity | rewrite Hr; reflexivity].
    - exists cons0. assert (E : fst res = [] /\ (snd res = JInvalidArg \/ snd res = JFuel)).
      { destruct Hr as [Hr|Hr]; rewrite Hr; cbn [fst snd]; auto. }
      destruct E as [E1 E2]. rewrite E1. split; [reflexivity|]. split; intros Hn; destruct E2 as [E2|E2]; rewrite E2 in Hn; discriminate.
  Qed.
End NumRun.


(* ------------------------------------------------------------------ the theorems *)

Lemma c07_num_raw_proof : C07_num_raw.
Proof.
  intros U c w ps merged_end canon forked Hwfb Hlok [[l [Hl Hhub]] Hrest] Hchain Hincl merged Htip
         Hmode Hbundle Hbound res start Hstartblk.
  assert (Hscope : disc_scope2_b U = true) by (unfold disc_scope2_b; rewrite Hwfb, Hlok; reflexivity).
  pose proof (bridge_id U Hwfb) as Hid. pose proof (bridge_uniq U Hwfb) as Huniq. pose proof (bridge_up U Hwfb) as Hup.
  pose proof (bridge2_decl_none U Hscope) as Hdecl.
  assert (HW : WOK U c w).
  { split; [|exact Hrest]. rewrite Hhub. apply (hub_ok_run U (j_first c) (j_kept c) Hwfb Hlok l Hl). }
  exact (num_raw U c canon start w ps merged_end forked Hid Huniq Hup Hdecl Hchain Hincl Hstartblk eq_refl HW Htip Hmode Hbundle Hbound).
Qed.

Lemma c07_seamless_num_nu_proof : C07_seamless_num_nu.
Proof.
  intros U c w ps merged_end canon forked Hwfb Hlok [[l [Hl Hhub]] Hrest] Hchain Hincl merged Htip
         Hmode Hnu Hbundle Hbound res start Hstartblk.
  assert (Hscope : disc_scope2_b U = true) by (unfold disc_scope2_b; rewrite Hwfb, Hlok; reflexivity).
  pose proof (bridge_id U Hwfb) as Hid. pose proof (bridge_uniq U Hwfb) as Huniq. pose proof (bridge_up U Hwfb) as Hup.
  pose proof (bridge2_decl_none U Hscope) as Hdecl.
  assert (HW : WOK U c w).
  { split; [|exact Hrest]. rewrite Hhub. apply (hub_ok_run U (j_first c) (j_kept c) Hwfb Hlok l Hl). }
  exact (num_nu U c canon start w ps merged_end forked Hid Huniq Hup Hdecl Hchain Hincl Hstartblk eq_refl HW Htip Hmode Hbundle Hbound Hnu).
Qed.
