(* C15 — the provider clause: BlocksInRange over a store of exact index files. *)
From Coq Require Import Sorted.
From BV Require Import Base.Prelude Model.BlockIndex Spec.C15_Spec Proofs.PreludeFacts Proofs.C15_Sets.
Local Open Scope N_scope.

Section Provider.
  Variable B : Type.
  Variable dec : B -> option kvmap.

  Lemma store_find_some (st : store B) low size blob :
    store_find st low size = Some blob ->
    exists f, In f st /\ if_low f = low /\ if_size f = size /\ if_blob f = blob.
  Proof.
    unfold store_find.
    destruct (find (fun f => (if_low f =? low) && (if_size f =? size)) st) as [f|] eqn:E; [|discriminate].
    intros H. inversion H; subst. apply find_some in E as [Hin Hb].
    apply andb_true_iff in Hb as [H1 H2]. apply N.eqb_eq in H1. apply N.eqb_eq in H2.
    exists f. auto.
  Qed.

  Lemma find_index_some (st : store B) possible b bundle blob low size :
    find_index st possible b bundle = Some (blob, low, size) ->
    exists f, In f st /\ if_low f = low /\ if_size f = size /\ if_blob f = blob /\
              low <= b /\ b + bundle <= low + size.
  Proof.
    induction possible as [|s rest IH]; simpl; [discriminate|].
    destruct (s <? bundle) eqn:E1; [exact IH|].
    destruct (low_boundary b s + s <? b + bundle) eqn:E2; [exact IH|].
    destruct (store_find st (low_boundary b s) s) as [bl|] eqn:E3; [|exact IH].
    intros H. inversion H; subst. apply store_find_some in E3 as [f [H1 [H2 [H3 H4]]]].
    exists f. apply N.ltb_ge in E2. repeat split; try assumption.
    unfold low_boundary. lia.
  Qed.

  Lemma find_index_none (st : store B) possible b bundle :
    find_index st possible b bundle = None ->
    forall size, In size possible -> bundle <= size ->
                 b + bundle <= low_boundary b size + size ->
                 store_find st (low_boundary b size) size = None.
  Proof.
    induction possible as [|s rest IH]; simpl; intros H size Hin Hle Hcov; [contradiction|].
    destruct Hin as [Hin|Hin].
    - subst s. destruct (size <? bundle) eqn:E1; [apply N.ltb_lt in E1; lia|].
      destruct (low_boundary b size + size <? b + bundle) eqn:E2; [apply N.ltb_lt in E2; lia|].
      destruct (store_find st (low_boundary b size) size); [discriminate | reflexivity].
    - destruct (s <? bundle); [apply IH; assumption|].
      destruct (low_boundary b s + s <? b + bundle); [apply IH; assumption|].
      destruct (store_find st (low_boundary b s) s); [discriminate | apply IH; assumption].
  Qed.

  (* the scan of the filtered content of an exact file that covers the requested range *)
  Lemma scan_exact fd (f : idxfile B) kv m fsb base bundle :
    file_exact B dec fd f -> dec (if_blob f) = Some kv ->
    if_low f <= base -> base + bundle <= if_low f + if_size f ->
    let r := scan (N.max base fsb) (base + bundle) (filter_blocks m kv) in
    asc r /\
    forall n, In n r <-> (N.max base fsb <= n < base + bundle /\ exists k, m k = true /\ fed fd k n).
  Proof.
    intros [kv0 [Hd [Hnd [Hasc Hex]]]] Hdec Hlo Hhi r.
    rewrite Hdec in Hd. inversion Hd; subst kv0.
    destruct (scan_spec (N.max base fsb) (base + bundle) (filter_blocks m kv) (filter_blocks_asc m kv)) as [Ha Hi].
    split; [exact Ha|]. intros n. unfold r. rewrite Hi, (filter_blocks_mem m kv n Hnd). split.
    - intros [[k [Hm Hk]] Hr]. split; [exact Hr|]. exists k. split; [exact Hm|].
      apply Hex in Hk as [Hk _]. exact Hk.
    - intros [Hr [k [Hm Hk]]]. split; [|exact Hr]. exists k. split; [exact Hm|].
      apply Hex. split; [exact Hk | lia].
  Qed.

  Lemma c15_provider_proof : C15_provider B dec.
  Proof.
    intros fsb st possible m fd p base bundle Hst Hinv.
    unfold blocks_in_range.
    destruct (bundle =? 0) eqn:Eb; [apply N.eqb_eq in Eb; exact Eb|].
    apply N.eqb_neq in Eb.
    destruct (base mod bundle =? 0) eqn:Em; simpl.
    2:{ apply N.eqb_neq in Em. split; [reflexivity|]. split; [exact Eb|]. left. exact Em. }
    apply N.eqb_eq in Em.
    unfold load_range.
    destruct ((p_low p <=? base) && (base + bundle <=? p_high p)) eqn:Ec.
    - (* answered from the loaded file *)
      apply andb_true_iff in Ec as [Ec1 Ec2]. apply N.leb_le in Ec1. apply N.leb_le in Ec2.
      destruct Hinv as [[H0 H1]|[f [kv [Hin [Hl [Hh [Hd Hb]]]]]]]; [lia|].
      split; [right; exists f, kv; auto|]. split; [exact Eb|]. split; [exact Em|].
      rewrite Hb. apply (scan_exact fd f kv m fsb base bundle); [apply Hst; exact Hin | exact Hd | lia | lia].
    - destruct (find_index st possible base bundle) as [[[blob low] size]|] eqn:Ef.
      + apply find_index_some in Ef as [f [Hin [Hl [Hs [Hbl [Hlo Hhi]]]]]].
        pose proof (Hst f Hin) as Hex. destruct Hex as [kv [Hd Hrest]].
        rewrite <- Hbl, Hd.
        split; [right; exists f, kv; simpl; subst; auto|]. split; [exact Eb|]. split; [exact Em|].
        simpl. apply (scan_exact fd f kv m fsb base bundle); [apply Hst; exact Hin | exact Hd | lia | lia].
      + split; [reflexivity|]. split; [exact Eb|]. right. apply find_index_none. exact Ef.
  Qed.
End Provider.
