(* C17 — list facts: the declarative trigger (first_at / first_index) and suffixes. *)
From BV Require Import Base.Prelude Model.Gates Spec.C17_Spec.
Local Open Scope N_scope.

(* recursive form of "the input from the trigger on" used as the bridge between the state
   machines and the declarative statement *)
Fixpoint suffix_from (T I : ev -> bool) (l : list ev) : list ev :=
  match l with
  | [] => []
  | e :: l' => if T e then (if I e then e :: l' else l') else suffix_from T I l'
  end.

Lemma first_at_head P e l : P e = true -> forall i, first_at P (e :: l) i -> i = 0%nat.
Proof.
  intros HP i [_ Hbefore]. destruct i as [|i]; [reflexivity|].
  specialize (Hbefore 0%nat e (Nat.lt_0_succ i) eq_refl). congruence.
Qed.

Lemma first_at_tail P e l : P e = false -> forall i, first_at P (e :: l) i ->
  exists i', i = S i' /\ first_at P l i'.
Proof.
  intros HP i [[x [Hx HPx]] Hbefore]. destruct i as [|i].
  - simpl in Hx. inversion Hx; subst. congruence.
  - exists i. split; [reflexivity|]. split.
    + exists x. simpl in Hx. auto.
    + intros j y Hj Hy. apply (Hbefore (S j) y); [lia | exact Hy].
Qed.

Lemma never_cons P e l : never P (e :: l) <-> P e = false /\ never P l.
Proof.
  unfold never. split.
  - intros H. split; [apply H; left; reflexivity | intros x Hx; apply H; right; exact Hx].
  - intros [H1 H2] x [Hx|Hx]; [subst; exact H1 | apply H2; exact Hx].
Qed.

Lemma suffix_from_spec T I l : suffix_of_input T I l (suffix_from T I l).
Proof.
  split.
  - induction l as [|x l IH]; intros Hn; simpl; [reflexivity|].
    apply never_cons in Hn as [Hx Hl]. rewrite Hx. apply IH. exact Hl.
  - induction l as [|x l IH]; intros i e Hfa He.
    + destruct Hfa as [[y [Hy _]] _]. destruct i; discriminate.
    + simpl. destruct (T x) eqn:HTx.
      * pose proof (first_at_head T x l HTx i Hfa) as Hi. subst i.
        simpl in He. inversion He; subst. destruct (I e); reflexivity.
      * destruct (first_at_tail T x l HTx i Hfa) as [i' [Hi Hfa']]. subst i.
        simpl in He. rewrite (IH i' e Hfa' He). destruct (I e); reflexivity.
Qed.

Lemma suffix_from_ext T T' I I' l :
  (forall e, T e = T' e) -> (forall e, T e = true -> I e = I' e) ->
  suffix_from T I l = suffix_from T' I' l.
Proof.
  intros HT HI. induction l as [|x l IH]; simpl; [reflexivity|].
  rewrite <- HT. destruct (T x) eqn:HTx; [rewrite (HI x HTx); reflexivity | exact IH].
Qed.

Lemma suffix_of_input_unique T I l a b :
  suffix_of_input T I l a -> a = b -> suffix_of_input T I l b.
Proof. intros H E; subst; exact H. Qed.

(* first_index computes first_at *)
Lemma first_index_some P l i : first_index P l = Some i -> first_at P l i.
Proof.
  revert i. induction l as [|x l IH]; intros i H; simpl in H; [discriminate|].
  destruct (P x) eqn:HPx.
  - inversion H; subst. split; [exists x; auto | intros j e Hj; lia].
  - destruct (first_index P l) as [i'|] eqn:Hfi; simpl in H; [|discriminate].
    inversion H; subst. destruct (IH i' eq_refl) as [[y [Hy HPy]] Hb]. split.
    + exists y. auto.
    + intros j e Hj He. destruct j as [|j]; simpl in He.
      * inversion He; subst; exact HPx.
      * apply (Hb j e); [lia | exact He].
Qed.

Lemma first_index_none P l : first_index P l = None -> never P l.
Proof.
  induction l as [|x l IH]; intros H; simpl in H.
  - intros e [].
  - destruct (P x) eqn:HPx; [discriminate|].
    destruct (first_index P l) eqn:Hfi; simpl in H; [discriminate|].
    apply never_cons. split; [exact HPx | apply IH; reflexivity].
Qed.

Lemma first_at_index P l i : first_at P l i -> first_index P l = Some i.
Proof.
  revert i. induction l as [|x l IH]; intros i Hfa.
  - destruct Hfa as [[y [Hy _]] _]. destruct i; discriminate.
  - simpl. destruct (P x) eqn:HPx.
    + rewrite (first_at_head P x l HPx i Hfa). reflexivity.
    + destruct (first_at_tail P x l HPx i Hfa) as [i' [Hi Hfa']]. subst.
      rewrite (IH i' Hfa'). reflexivity.
Qed.

Lemma never_first_index P l : never P l -> first_index P l = None.
Proof.
  induction l as [|x l IH]; intros H; simpl; [reflexivity|].
  apply never_cons in H as [Hx Hl]. rewrite Hx, (IH Hl). reflexivity.
Qed.

Lemma never_app P l1 l2 : never P (l1 ++ l2) <-> never P l1 /\ never P l2.
Proof.
  unfold never. split.
  - intros H. split; intros e He; apply H; apply in_or_app; auto.
  - intros [H1 H2] e He. apply in_app_or in He as [He|He]; auto.
Qed.

(* ---- generic facts about run / forwarded ---- *)

Lemma run_length {S O} (step : S -> ev -> S * O) s l : length (run step s l) = length l.
Proof.
  revert s. induction l as [|e l IH]; intros s; simpl; [reflexivity|].
  destruct (step s e) as [s' o]. simpl. rewrite IH. reflexivity.
Qed.

(* state after a sequence *)
Fixpoint final {S O} (step : S -> ev -> S * O) (s : S) (l : list ev) : S :=
  match l with [] => s | e :: l' => final step (fst (step s e)) l' end.

Lemma run_app {S O} (step : S -> ev -> S * O) s l1 l2 :
  run step s (l1 ++ l2) = run step s l1 ++ run step (final step s l1) l2.
Proof.
  revert s. induction l1 as [|e l1 IH]; intros s; simpl; [reflexivity|].
  destruct (step s e) as [s' o] eqn:Hs. simpl. rewrite IH. reflexivity.
Qed.

Lemma forwarded_all l : forwarded (map (fun _ => Forward) l) l = l.
Proof. induction l as [|e l IH]; simpl; [reflexivity | rewrite IH; reflexivity]. Qed.

Lemma nth_error_map_const {A B} (l : list A) (b : B) j x :
  nth_error l j = Some x -> nth_error (map (fun _ => b) l) j = Some b.
Proof.
  revert j. induction l as [|y l IH]; intros [|j] H; simpl in *; try discriminate; auto.
Qed.
