(* C07 composition, part 7: cursor mode when the hub serves the cursor (cursor_burst + live_run_below), and the
   two cases of cursor mode together. *)
From Coq Require Import Sorted.
From BV Require Import Base.Prelude Model.Block Model.ForkDB Model.Forkable Model.ForkableLookups Model.Burst Model.Hub
  Model.CursorResolver Model.Joining
  Spec.Consumer Spec.Universe Check.Fk_Check Check.Burst_Check Check.C07_Check
  Spec.C09_Spec Spec.C05_Spec Spec.C06_Spec Spec.C07_Spec Spec.C13_Spec Spec.C07_Compose_Spec
  Spec.C01_Spec Spec.C01_Moving_Spec Spec.C01_Roots_Spec
  Proofs.C06_Lists Proofs.C06_Proofs Proofs.C13_Proofs
  Proofs.Fk.LoopFacts Proofs.Fk.MovingLibDisc Proofs.C02_Proofs Proofs.C01_Roots_Proofs
  Proofs.Hub.ConsFacts Proofs.Hub.HubFed Proofs.Hub.LinkedRuns Proofs.Hub.C09_History
  Proofs.C07_ComposeStack Proofs.C07_ComposeHub Proofs.C07_ComposeRun Proofs.C07_Compose
  Proofs.C07_ComposeCursor Proofs.C07_ComposeCursorLive.
Local Open Scope N_scope.

Section LiveRel.
  Variable U : list block.
  Variables first kept : N.
  Hypothesis U_id : forall b, In b U -> bid b <> 0 /\ bid b <> bparent b.
  Hypothesis U_uniq : forall x y, In x U -> In y U -> bid x = bid y -> x = y.
  Hypothesis U_up : forall x y, In x U -> In y U -> bparent x = bid y -> bnum y < bnum x.

  (* the consumer that holds the hub's retained chain above L, against the reference stack *)
  Lemma cursor_live_rel s V hd sg lo xL hi L start :
    VState U first kept s V -> last_sent s = Some hd ->
    complete_segment (db s) (bref hd) = Some (sg, true) -> good_seg sg ->
    sg = lo ++ xL :: hi -> seg_blk xL = L -> In L U ->
    lnk (bid L) (map seg_blk hi) -> Forall (fun y => In y U) (map seg_blk hi) ->
    bnum L < start ->
    exists E, Rel U start (V ++ E) (rev (map seg_blk hi)).
  Proof.
    intros HV Hls Eseg Hgood Hsplit HbL HLU Hlhi HhiU Hstart.
    destruct (vstate_facts U first kept U_id U_uniq U_up s V HV) as (HVne & HcV & _ & hd' & Hls' & Hhd).
    rewrite Hls in Hls'. injection Hls' as <-.
    destruct (vstate_segment U first kept U_id U_uniq U_up s V hd sg true HV Hls Eseg) as (_ & HsU & pre & z & Hsg & Hz).
    set (Hb := map seg_blk hi) in *.
    (* L :: Hb ends with the head *)
    assert (Hfull : exists F0, L :: Hb = F0 ++ [hd]).
    { assert (Hzin : In z sg) by (rewrite Hsg; apply in_or_app; right; left; reflexivity).
      assert (Ez : seg_blk z = hd).
      { apply U_uniq; [rewrite Forall_forall in HsU; apply HsU; exact Hzin | |].
        - destruct HcV as [HU _]. destruct V; [contradiction|]. cbn [hd_error] in Hhd. injection Hhd as <-. exact (Forall_inv HU).
        - destruct Hgood as [Hstd _ _ _]. rewrite Forall_forall in Hstd. destruct (Hstd z Hzin) as [H1 _]. congruence. }
      clear Hlhi HhiU. unfold Hb. clear Hb. destruct hi as [|h0 hi' _] using rev_ind.
      - exists []. cbn [app map]. f_equal.
        assert (E : lo ++ [xL] = pre ++ [z]) by (rewrite <- Hsg; exact (eq_sym Hsplit)).
        apply app_inj_tail in E as [_ E]. rewrite <- E in Ez. congruence.
      - exists (L :: map seg_blk hi'). rewrite map_app. cbn [map app]. f_equal. f_equal. f_equal.
        assert (E : (lo ++ xL :: hi') ++ [h0] = pre ++ [z]) by (rewrite <- Hsg, Hsplit, <- app_assoc; reflexivity).
        apply app_inj_tail in E as [_ E]. rewrite E. exact Ez. }
    destruct Hfull as [F0 HF0].
    assert (HlF : lnk (bparent L) (F0 ++ [hd])) by (rewrite <- HF0; cbn [lnk]; auto).
    assert (HFU : Forall (fun y => In y U) (F0 ++ [hd])) by (rewrite <- HF0; constructor; assumption).
    destruct V as [|v0 V0]; [contradiction|]. cbn [hd_error] in Hhd. injection Hhd as ->.
    pose proof HcV as [HVU [xv HlV]]. cbn [rev] in HlV.
    assert (HVU' : Forall (fun y => In y U) (rev V0 ++ [hd])).
    { apply Forall_forall. intros y Hy. rewrite Forall_forall in HVU. apply HVU.
      apply in_app_or in Hy as [Hy|[<-|[]]]; [right; apply in_rev; exact Hy | left; reflexivity]. }
    destruct (linked_same_end U U_uniq (rev V0) F0 xv (bparent L) hd HlV HlF HVU' HFU) as [[d Hd]|[d Hd]].
    - (* L is on the reference stack *)
      exists []. rewrite app_nil_r. split; [discriminate|]. split; [exact HcV|]. right.
      assert (ErV : rev (hd :: V0) = d ++ L :: Hb) by (cbn [rev]; rewrite Hd, <- app_assoc, <- HF0; reflexivity).
      exists (L :: rev d). split.
      + apply (f_equal (@rev block)) in ErV. rewrite rev_involutive in ErV. rewrite ErV.
        change (L :: Hb) with ([L] ++ Hb). rewrite !rev_app_distr. cbn [rev app]. exact (eq_sym (app_assoc (rev Hb) [L] (rev d))).
      + split; [discriminate|]. constructor; [exact Hstart|].
        pose proof (chainU_sorted U U_id U_uniq U_up _ HcV) as HS. rewrite ErV in HS.
        destruct (Proofs.C09_Proofs.StronglySorted_split blt d L Hb HS) as [Hlt _].
        apply Forall_forall. intros y Hy. apply in_rev in Hy. specialize (Hlt y Hy). unfold blt in Hlt. lia.
    - (* the hub retains L under its reference stack *)
      destruct d as [|d0 d'].
      + (* same run *)
        exists []. rewrite app_nil_r. split; [discriminate|]. split; [exact HcV|]. right.
        cbn [app] in Hd. assert (ErV : rev (hd :: V0) = L :: Hb) by (cbn [rev]; rewrite <- Hd, HF0; reflexivity).
        exists [L]. split.
        * apply (f_equal (@rev block)) in ErV. rewrite rev_involutive in ErV. rewrite ErV. cbn [rev]. reflexivity.
        * split; [discriminate | constructor; [exact Hstart | constructor]].
      + assert (Ed0 : d0 = L /\ Hb = d' ++ rev (hd :: V0)).
        { cbn [rev]. rewrite Hd in HF0. cbn [app] in HF0. rewrite <- app_assoc in HF0. cbn [app] in HF0.
          injection HF0 as E1 E2. split; [symmetry; exact E1 | rewrite E2; reflexivity]. }
        destruct Ed0 as [-> EHb].
        exists (rev (L :: d')).
        assert (EVE : (hd :: V0) ++ rev (L :: d') = rev Hb ++ [L]).
        { rewrite EHb, rev_app_distr, rev_involutive. cbn [rev]. rewrite <- app_assoc. reflexivity. }
        split; [discriminate|]. split.
        * split.
          -- apply Forall_app. split; [exact HVU|]. apply Forall_forall. intros y Hy. apply in_rev in Hy.
             destruct Hy as [<-|Hy]; [exact HLU|]. rewrite Forall_forall in HhiU. apply HhiU. fold Hb. rewrite EHb.
             apply in_or_app. left. exact Hy.
          -- exists (bparent L). rewrite EVE, rev_app_distr, rev_involutive. cbn [rev app lnk]. auto.
        * right. exists [L]. split; [exact EVE|]. split; [discriminate | constructor; [exact Hstart | constructor]].
  Qed.
End LiveRel.

Lemma above_from_num n l : above n l = from_num (n + 1) l.
Proof.
  unfold above, from_num. apply filter_ext. intros b.
  destruct (N.ltb_spec n (bnum b)), (N.leb_spec (n + 1) (bnum b)); try reflexivity; lia.
Qed.

Lemma c07_seamless_cursor_live_proof : C07_seamless_cursor_live.
Proof.
  intros U c w ps merged_end canon forked cu L K burst Hwfb Hlok [[l [Hl Hhub]] Hrest] Hchain Hincl Htip
         Hmode Hcur Hfilter Hstop HLc (HL & HKU & Hcons) Hrd Hb res.
  assert (Hscope : disc_scope2_b U = true) by (unfold disc_scope2_b; rewrite Hwfb, Hlok; reflexivity).
  pose proof (bridge_id U Hwfb) as Hid. pose proof (bridge_uniq U Hwfb) as Huniq. pose proof (bridge_up U Hwfb) as Hup.
  pose proof (bridge2_decl_none U Hscope) as Hdecl.
  assert (Hok : hub_ok U (j_first c) (j_kept c) (w_hub w)).
  { rewrite Hhub. apply (hub_ok_run U (j_first c) (j_kept c) Hwfb Hlok l Hl). }
  assert (HcU : Forall (fun x => In x U) canon) by (apply Forall_forall; exact Hincl).
  pose proof (lnk_of_chain_ok canon Hchain) as Hcl.
  assert (HLU : In L U) by (apply Hincl; exact HLc).
  destruct (bref_eq _ _ HL) as [_ ELn].
  set (start := bnum L + 1).
  assert (Hstartle : exists b, In b canon /\ bnum b <= start) by (exists L; split; [exact HLc | unfold start; lia]).
  destruct (vstate_of_hub U (j_first c) (j_kept c) Hid Huniq Hup Hdecl (w_hub w) Hok Hrd) as [V HV].
  (* the run from L to the cursor block *)
  assert (Hrun : exists T Kf, bref T = cu_blk cu /\ In T U /\ Kf = (if is_undo cu then K ++ [T] else K) /\
                   lnk (bid L) Kf /\ Forall (fun x => In x U) Kf /\ tip (bid L) Kf = bid T).
  { destruct Hcons as [(Hst & Hbr & Hlast)|(Hst & X & HXU & HX & Hbr)].
    - exists (last K L), K. split; [exact Hlast|]. split.
      { destruct (last_in _ K L) as [E|E]; [rewrite <- E; exact HLU | rewrite Forall_forall in HKU; apply HKU; exact E]. }
      split; [unfold is_undo; rewrite (not_undo_matches _ Hst); reflexivity|].
      split; [apply branch_lnk; exact Hbr|]. split; [exact HKU|].
      rewrite (tip_last (bid L) K L). destruct K; reflexivity.
    - exists X, (K ++ [X]). split; [exact HX|]. split; [exact HXU|].
      split; [unfold is_undo; rewrite Hst; reflexivity|].
      split; [apply branch_lnk; exact Hbr|]. split; [apply Forall_app; split; [exact HKU | constructor; [exact HXU | constructor]]|].
      apply tip_snoc. }
  destruct Hrun as (T & Kf & HT & HTU & HKf & HlKf & HKfU & HtipKf).
  destruct (cursor_burst U (j_first c) (j_kept c) Hid Huniq Hup (h_f (w_hub w)) V cu L T K Kf burst HV HL HLU HT HTU HKf HlKf HKfU HtipKf Hb)
    as (hd & sg & lo & xL & hi & Hls & Eseg & Hgood & Hsplit & HbL & Hlhi & HhiU & Hfold).
  assert (Hlt : bnum L < start) by (unfold start; lia).
  destruct (cursor_live_rel U (j_first c) (j_kept c) Hid Huniq Hup (h_f (w_hub w)) V hd sg lo xL hi L start HV Hls Eseg Hgood Hsplit HbL HLU Hlhi HhiU Hlt)
    as [E HR].
  (* Stream.Run *)
  assert (Hres : res = live_phase (40 * (length (w_rest w) + length (filter (fun b => bnum b <? merged_end) canon) + 20)) c w burst 0 ps []).
  { unfold res, stream_run. cbv zeta. rewrite Hstop, Hfilter, Hmode, Hcur. cbn [N.eqb negb andb].
    unfold live_try. rewrite Hmode, Hcur, Hrd. cbn [N.eqb negb]. rewrite Hb. reflexivity. }
  destruct (live_run_below U c canon start Hid Huniq Hup Hdecl Hfilter Hstop HcU Hcl Hstartle
              (40 * (length (w_rest w) + length (filter (fun b => bnum b <? merged_end) canon) + 20)) w V E burst 0 ps
              (rev K) [] (rev K) (rev (map seg_blk hi)) (conj Hrd (conj HV Hrest)) Htip eq_refl Hfold HR) as (st & Hst & Hfin).
  rewrite <- Hres in Hst, Hfin.
  assert (Hnu : Forall (fun e => nu_ev e = true) (fst res)).
  { destruct (c13_stream_output_proof c w ps merged_end (filter (fun b => bnum b <? merged_end) canon) forked (fst res) (snd res)) as [Hp _].
    - apply surjective_pairing.
    - eapply Forall_impl; [|exact Hp]. cbn beta. intros e He. rewrite <- (passes_nu c e Hfilter). exact He. }
  exists (mkCons st 0 false). split.
  - rewrite (sfold_cons_aside false (fst res) (rev K) Hnu), Hst. reflexivity.
  - cbn [cs_stack]. intros Hn. rewrite !above_from_num, <- ELn. exact (Hfin Hn).
Qed.

(* ------------------------------------------------------------------ both cases *)

Lemma c07_seamless_cursor_proof : C07_seamless_cursor.
Proof.
  intros U c w ps merged_end canon forked cu L rest hc hf Hwfb Hlok Hhub Hchain Hincl merged Htip
         Hmode Hcur Hfilter Hstop Hbundle Hbound Hfrom HL Hstate HhfU HXU res.
  assert (Hfiles : (h_ready (w_hub w) = true -> forall evs, blocks_from_cursor (h_f (w_hub w)) cu <> BOk evs) ->
            exists c', cons_fold_aside (mkCons (rev (hc ++ hf)) 0 false) (map as_new (fst res)) = Some c' /\
              (snd res = JNil ->
                 fst res = [] \/ rev (cs_stack c') = above (rn (cu_lib cu)) merged \/
                 (exists r1 rest1, rest = r1 :: rest1 /\ from_num (bnum r1) (rev (cs_stack c')) = rest) \/
                 above (rn (cu_lib cu)) (rev (cs_stack c')) = rest)).
  { intros Hno.
    destruct (c07_seamless_cursor_files_proof U c w ps merged_end canon forked cu L rest hc hf Hwfb Hlok Hhub Hchain Hincl Htip
                Hmode Hcur Hfilter Hstop Hbundle Hbound Hno Hfrom HL Hstate) as (c' & Hfold & Hfin).
    exists c'. split; [exact Hfold|]. intros Hn. destruct (Hfin Hn) as [H|[H|H]]; auto. }
  destruct (h_ready (w_hub w)) eqn:Hrd; [|apply Hfiles; intros H; discriminate].
  destruct (blocks_from_cursor (h_f (w_hub w)) cu) as [burst| | |] eqn:Eb;
    [|apply Hfiles; intros _ evs; discriminate..].
  (* the hub serves the cursor *)
  pose proof (chain_ok_asc canon Hchain) as Hasc.
  destruct (bref_eq _ _ HL) as [_ ELn].
  assert (HLc : In L canon).
  { assert (H : In L (from_num (rn (cu_lib cu)) canon)) by (rewrite Hfrom; left; reflexivity).
    unfold from_num in H. apply filter_In in H as [H _]. exact H. }
  destruct Hstate as (Hbr & Hon & Hoff & Hnu & Hu & _).
  assert (Hcons : consumer_at U cu L (hc ++ hf)).
  { split; [exact HL|]. split.
    - apply Forall_app. split; [|exact HhfU]. eapply Forall_impl; [|exact Hon]. cbn beta. intros x Hx. apply Hincl. exact Hx.
    - destruct (step_eqb (cu_step cu) SUndo) eqn:Es.
      + assert (Est : cu_step cu = SUndo) by (destruct (cu_step cu); try discriminate; reflexivity).
        right. split; [exact Est|]. destruct (HXU Est) as (X & H1 & H2 & H3). exists X. rewrite <- app_assoc. auto.
      + assert (Est : cu_step cu <> SUndo) by (intros E; rewrite E in Es; discriminate).
        left. split; [exact Est|]. split; [exact Hbr | exact (Hnu Est)]. }
  destruct (c07_seamless_cursor_live_proof U c w ps merged_end canon forked cu L (hc ++ hf) burst Hwfb Hlok Hhub Hchain Hincl Htip
              Hmode Hcur Hfilter Hstop HLc Hcons Hrd Eb) as (c' & Hfold & Hfin).
  exists c'. split; [exact Hfold|]. intros Hn. right. right. right.
  rewrite (Hfin Hn). exact (above_of_from_num canon (rn (cu_lib cu)) L rest Hasc Hfrom ELn).
Qed.
