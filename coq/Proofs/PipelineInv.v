(* The invariant Inv of Model/Pipeline.v holds in every reachable state of the fixed model
   (any layout, thread count, fault site, outside Shutdown, schedule). *)
From BV Require Import Base.Prelude Model.FileSeq Model.Pipeline Spec.C10_Spec
  Proofs.FileSeqFacts Proofs.PipelineDefs.
From Coq Require Import Sorted.
Local Open Scope nat_scope.

Section Pres.
  Variable pre : blk -> N.
  Variable C : cfg.
  Hypothesis Hfix : fixed C.
  Let L := c_lay C.

  Notation FInv := (FInv pre C).
  Notation LInv := (LInv C).
  Notation GInv := (GInv pre C).
  Notation Inv := (Inv pre C).
  Notation good := (good pre C).
  Notation FP := (FP pre C).
  Notation FPfrom := (FPfrom pre C).
  Notation EP := (EP pre C).
  Notation EPn := (EPn pre C).
  Notation pv := (pv pre C).

  (* ---------- frames ---------- *)
  Lemma LInv_frame : forall s s', LInv s ->
    s_sent s' = s_sent s -> s_l s' = s_l s -> s_taken s' = s_taken s -> s_fs s' = s_fs s ->
    s_fsclosed s' = s_fsclosed s -> s_m s' = s_m s -> s_x s' = s_x s ->
    (term s = true -> term s' = true) -> LInv s'.
  Proof.
    intros s s' [] E1 E2 E3 E4 E5 E6 E7 Ht. constructor; rewrite ?E1, ?E2, ?E3, ?E4, ?E5, ?E6, ?E7; auto.
    intros H. destruct (li_closed H) as [H1|H1]; auto.
  Qed.

  Lemma good_frame : forall e s s', s_calls s' = s_calls s -> good e s -> good e s'.
  Proof. intros e s s' E. unfold PipelineDefs.good. now rewrite E. Qed.

  Lemma GInv_frame : forall s s', GInv s ->
    s_m s' = s_m s -> s_taken s' = s_taken s -> s_calls s' = s_calls s -> s_last s' = s_last s ->
    (forall j, f_out (s_file s' j) = f_out (s_file s j)) ->
    (forall j, f_bclosed (s_file s j) = true -> f_bclosed (s_file s' j) = true) ->
    (term s = true -> term s' = true) ->
    (forall e, s_err s' = Some e ->
       s_err s = Some e \/ (e = fclass (c_fault C) /\ c_fault C <> FNone) \/ (e = ENil /\ c_ext C = true)) ->
    GInv s'.
  Proof.
    intros s s' [] Em Et Ec El Eo Eb Htm Her.
    assert (Hl : left s' = left s) by (unfold left; now rewrite Em, Et).
    assert (Ho : forall j, outs s' j = outs s j) by (intros; apply Eo).
    assert (Hnt : term s' = false -> term s = false).
    { intros H. destruct (term s) eqn:E; [rewrite Htm in H by reflexivity; discriminate|reflexivity]. }
    constructor.
    - now rewrite Em, Et.
    - rewrite Hl. auto.
    - unfold hand_m. rewrite Ec, Em, Et. rewrite (flat_map_ext_seq _ (outs s') (outs s)) by auto. exact gi_g1.
    - rewrite Hl. intros H j Hj. rewrite Ho. auto.
    - rewrite Em. intros i v H j Hj. rewrite Ho. eauto.
    - now rewrite Ec.
    - now rewrite Ec.
    - now rewrite El, Ec.
    - rewrite Em. intros e H1 H2. eapply good_frame; [exact Ec|]. auto.
    - rewrite Em. intros e H1. eauto.
    - intros e He. destruct (Her e He) as [H|[H|H]]; auto.
      destruct (gi_err e H) as [H1|[H1|[H1 H2]]]; auto.
      right; right. rewrite Em. split; [exact H1|]. eapply good_frame; eauto.
  Qed.

  (* ---------- initial state ---------- *)
  Lemma FInv_file0 : forall tm sent taken i, sent <= i -> taken <= i -> FInv tm sent taken i file0.
  Proof.
    intros tm sent taken i H1 H2. constructor; simpl; intros; auto; try congruence; try tauto; try lia.
    - split; intros; discriminate.
    - constructor.
    - constructor.
    - constructor.
    - apply prefix_nil.
  Qed.

  Lemma Inv_init : Inv (init C).
  Proof.
    constructor.
    - constructor; simpl; auto; try lia; try discriminate.
      split; [reflexivity|intros; lia].
    - intros i. simpl. apply FInv_file0; lia.
    - constructor; simpl; auto; try discriminate.
      + unfold left; simpl; intros; lia.
      + unfold left; simpl; intros; lia.
      + apply prefix_nil.
  Qed.

  (* ---------- a step that touches one file (and possibly shuts the source down) ---------- *)
  Lemma Inv_local : forall s i0 f' (sh : option errc),
    Inv s ->
    let s0 := match sh with Some e => shut e s | None => s end in
    match sh with Some e => e = fclass (c_fault C) /\ c_fault C <> FNone | None => True end ->
    f_out f' = f_out (s_file s i0) ->
    (f_bclosed (s_file s i0) = true -> f_bclosed f' = true) ->
    FInv (term s0) (s_sent s) (s_taken s) i0 f' ->
    Inv (upd_file i0 f' s0).
  Proof.
    intros s i0 f' sh [Il If Ig] s0 Hsh Ho Hb Hf.
    assert (Htm : term s = true -> term s0 = true).
    { subst s0. destruct sh; [intros; apply term_shut|auto]. }
    assert (E : s_sent s0 = s_sent s /\ s_l s0 = s_l s /\ s_taken s0 = s_taken s /\ s_fs s0 = s_fs s /\
                s_fsclosed s0 = s_fsclosed s /\ s_m s0 = s_m s /\ s_x s0 = s_x s /\
                s_file s0 = s_file s /\ s_calls s0 = s_calls s /\ s_last s0 = s_last s).
    { subst s0. destruct sh; autorewrite with pl; repeat split. }
    destruct E as (E1 & E2 & E3 & E4 & E5 & E6 & E7 & E8 & E9 & E10).
    constructor.
    - eapply LInv_frame; [exact Il|simpl; auto ..].
    - intros j. simpl. rewrite E1, E3, E8. destruct (Nat.eqb_spec j i0) as [->|Hne]; [exact Hf|].
      eapply FInv_term'; [exact Htm|apply If].
    - eapply GInv_frame; [exact Ig|simpl; auto ..].
      + intros j. rewrite E8. destruct (Nat.eqb_spec j i0) as [->|Hne]; auto.
      + intros j. rewrite E8. destruct (Nat.eqb_spec j i0) as [->|Hne]; auto.
      + intros e He. subst s0. destruct sh as [e0|]; [|auto].
        rewrite shut_err in He. destruct (s_err s) eqn:Ee; [left; congruence|].
        inversion He; subst. right; left. exact Hsh.
  Qed.

  (* reduce only projections of setters *)
  Ltac psimpl :=
    cbn [s_err s_x s_l s_sent s_fs s_fsclosed s_file s_m s_taken s_last s_calls
         set_err set_x set_l set_sent set_fs set_fsclosed upd_file set_m set_taken set_last set_calls
         f_r f_rk f_d f_q f_qclosed f_cell f_bclosed f_out
         set_r set_rk set_d set_q set_qclosed set_cell set_bclosed set_out d_exit l_exit] in *.

  Ltac rw_all H :=
    repeat match goal with X : _ |- _ => lazymatch X with H => fail | _ => rewrite H in X end end;
    try rewrite H.
  Ltac finv I :=
    destruct I; constructor; unfold idx, hand_d in *; simpl in *;
    repeat match goal with
           | H : f_d _ = _ |- _ => progress (rw_all H)
           | H : f_q _ = _ |- _ => progress (rw_all H)
           end;
    simpl in *; intros; auto; try congruence; try tauto; try lia;
    try solve [intuition congruence]; try solve [constructor]; try solve [eauto].

  Lemma idx_set_r : forall x f, idx (set_r x f) = idx f. Proof. reflexivity. Qed.
  Lemma idx_set_rk : forall x f, idx (set_rk x f) = idx f. Proof. reflexivity. Qed.
  Lemma idx_set_cell : forall k x f, idx (set_cell k x f) = idx f. Proof. reflexivity. Qed.
  Lemma idx_set_qclosed : forall x f, idx (set_qclosed x f) = idx f. Proof. reflexivity. Qed.
  Lemma idx_set_bclosed : forall x f, idx (set_bclosed x f) = idx f. Proof. reflexivity. Qed.
  Lemma idx_set_out : forall x f, idx (set_out x f) = idx f. Proof. reflexivity. Qed.
  Lemma idx_set_q_snoc : forall x f, idx (set_q (f_q f ++ [x]) f) = idx f ++ [x].
  Proof. intros x f. unfold idx. simpl. destruct (f_d f); reflexivity. Qed.
  Lemma hand_set_r : forall i x f, hand_d pre C i (set_r x f) = hand_d pre C i f. Proof. reflexivity. Qed.
  Lemma hand_set_rk : forall i x f, hand_d pre C i (set_rk x f) = hand_d pre C i f. Proof. reflexivity. Qed.
  Lemma hand_set_cell : forall i k x f, hand_d pre C i (set_cell k x f) = hand_d pre C i f. Proof. reflexivity. Qed.
  Lemma hand_set_qclosed : forall i x f, hand_d pre C i (set_qclosed x f) = hand_d pre C i f. Proof. reflexivity. Qed.
  Lemma hand_set_bclosed : forall i x f, hand_d pre C i (set_bclosed x f) = hand_d pre C i f. Proof. reflexivity. Qed.
  Lemma hand_set_out : forall i x f, hand_d pre C i (set_out x f) = hand_d pre C i f. Proof. reflexivity. Qed.
  Lemma hand_set_q : forall i x f, hand_d pre C i (set_q x f) = hand_d pre C i f. Proof. reflexivity. Qed.
  Hint Rewrite idx_set_r idx_set_rk idx_set_cell idx_set_qclosed idx_set_bclosed idx_set_out idx_set_q_snoc
    hand_set_r hand_set_rk hand_set_cell hand_set_qclosed hand_set_bclosed hand_set_out hand_set_q : fidx.

  (* like finv, but idx / hand_d stay folded *)
  Ltac finv' I :=
    destruct I; constructor; autorewrite with fidx; simpl in *; intros; auto; try congruence; try tauto; try lia;
    try solve [intuition congruence]; try solve [constructor]; try solve [eauto].

  Lemma sorted_snoc : forall l k, StronglySorted lt l -> Forall (fun x => x < k) l ->
    StronglySorted lt (l ++ [k]).
  Proof.
    induction l as [|a l IH]; intros k Hs Hf; simpl.
    - constructor; constructor.
    - inversion Hs; subst. inversion Hf; subst. constructor; [now apply IH|].
      apply Forall_app. split; [assumption|]. constructor; [assumption|constructor].
  Qed.

  (* ---------- file reader ---------- *)
  Lemma R_pres : forall s i c, Inv s -> Inv (step_R C i c s).
  Proof.
    intros s i c I. pose proof (inv_f _ _ _ I i) as F.
    unfold step_R. cbv zeta. set (f := s_file s i) in *.
    destruct (f_r f) eqn:Hr; try exact I.
    - (* ROpen *)
      assert (Hd : f_d f = DIdle) by (apply (fi_open _ _ _ _ _ _ _ F); auto).
      destruct (fi_didle _ _ _ _ _ _ _ F Hd) as (Hq & Hqc & Hrk & Hc & Ho & Hb & _).
      destruct (is_FOpen C i) eqn:E1; [|destruct (is_FHeader C i) eqn:E2].
      + apply (Inv_local s i _ (Some EOpen) I); simpl; auto.
        { unfold is_FOpen in E1. destruct (c_fault C); try discriminate. split; [reflexivity|discriminate]. }
        autorewrite with pl. apply FInv_term in F. finv F.
      + apply (Inv_local s i _ (Some EHeader) I); simpl; auto.
        { unfold is_FHeader in E2. destruct (c_fault C); try discriminate. split; [reflexivity|discriminate]. }
        autorewrite with pl. apply FInv_term in F. finv F.
      + apply (Inv_local s i _ None I); simpl; auto. finv F.

    - (* RLoop *)
      assert (Hdn : f_d f <> DIdle).
      { intros Hd. destruct (fi_didle _ _ _ _ _ _ _ F Hd) as (_ & _ & _ & _ & _ & _ & H).
        destruct H as [H|[H|[H _]]]; congruence. }
      destruct (term s) eqn:Ht.
      + apply (Inv_local s i _ None I); simpl; auto. rewrite Ht. finv F.
      + destruct (is_FRead C i (f_rk f)) eqn:E1.
        * destruct Hfix as [_ ->].
          apply (Inv_local s i _ (Some ERead) I); simpl; auto.
          { unfold is_FRead in E1. destruct (c_fault C); try discriminate. split; [reflexivity|discriminate]. }
          autorewrite with pl. apply FInv_term in F. finv F.
        * destruct (nth_error (file_of (c_lay C) i) (f_rk f)) as [b|] eqn:En.
          -- assert (Hlt : f_rk f < len C i) by (unfold len; apply nth_error_Some; congruence).
             destruct (keep (c_lay C) i b) eqn:Ek.
             ++ apply (Inv_local s i _ None I); simpl; auto. rewrite Ht. finv F.
             ++ apply (Inv_local s i _ None I); simpl; auto. rewrite Ht.
                pose proof (FPfrom_skip pre C i _ _ En Ek) as Hs.
                finv F.
                ** apply fi_cnone; lia.
                ** eapply Forall_impl; [|exact fi_idx_lt]. simpl; intros; lia.
          -- apply nth_error_None in En.
             apply (Inv_local s i _ None I); simpl; auto. rewrite Ht. finv F.
    - (* RSend *)
      assert (Hdn : f_d f <> DIdle).
      { intros Hd. destruct (fi_didle _ _ _ _ _ _ _ F Hd) as (_ & _ & _ & _ & _ & _ & H).
        destruct H as [H|[H|[H _]]]; congruence. }
      destruct (fi_rsend _ _ _ _ _ _ _ F Hr) as (b & En & Ek).
      assert (Hlt : f_rk f < len C i) by (unfold len; apply nth_error_Some; congruence).
      pose proof (FPfrom_keep pre C i _ _ En Ek) as Hs.
      set (room := length (f_q f) <? c_threads C).
      set (hand := (c_threads C =? 0) && is_DSel (f_d f)).
      destruct (term s && (c || negb (room || hand))) eqn:E0.
      + assert (Ht : term s = true) by (apply andb_prop in E0; tauto).
        apply (Inv_local s i _ None I); simpl; auto. rewrite Ht. apply FInv_term in F. finv F.
      + destruct room eqn:Er.
        * apply Nat.ltb_lt in Er.
          apply (Inv_local s i _ None I); simpl; auto. finv' F.
          -- rewrite app_length; simpl; lia.
          -- destruct (Nat.eqb_spec k (f_rk f)); [lia|]. apply fi_cnone; lia.
          -- apply sorted_snoc; auto.
          -- apply Forall_app. split; [|constructor; [lia|constructor]].
             eapply Forall_impl; [|exact fi_idx_lt]. simpl; intros; lia.
          -- apply Forall_app. split.
             ++ rewrite Forall_forall in *. intros k Hk. specialize (fi_idx_lt k Hk). simpl in fi_idx_lt.
                destruct (Nat.eqb_spec k (f_rk f)); [lia|]. auto.
             ++ constructor; [|constructor]. rewrite Nat.eqb_refl. exact Logic.I.
          -- destruct (Nat.eqb_spec k (f_rk f)); [discriminate|]. eauto.
          -- destruct (Nat.eqb_spec k (f_rk f)); [discriminate|]. eauto.
          -- rewrite map_app. simpl. rewrite <- !app_assoc. simpl. rewrite <- Hs. auto.
        * destruct hand eqn:Eh; [|exact I].
          apply andb_prop in Eh. destruct Eh as [ET Ed].
          apply Nat.eqb_eq in ET. apply Nat.ltb_ge in Er.
          assert (Hd : f_d f = DSel) by (destruct (f_d f); simpl in Ed; congruence).
          assert (Hq : f_q f = []).
          { pose proof (fi_qcap _ _ _ _ _ _ _ F). destruct (f_q f); [reflexivity|simpl in *; lia]. }
          apply (Inv_local s i _ None I); simpl; auto. finv F.
          -- destruct (Nat.eqb_spec k (f_rk f)); [lia|]. apply fi_cnone; lia.
          -- repeat constructor.
          -- constructor; [|constructor]. rewrite Nat.eqb_refl. exact Logic.I.
          -- destruct (Nat.eqb_spec k (f_rk f)); [discriminate|]. eauto.
          -- destruct (Nat.eqb_spec k (f_rk f)); [discriminate|]. eauto.
    - (* RFail *) exfalso. exact (fi_nofail _ _ _ _ _ _ _ F Hr).
    - (* RWait *)
      destruct (is_DDone (f_d f)) eqn:Ed; [|exact I].
      assert (Hd : f_d f = DDone) by (destruct (f_d f); simpl in Ed; congruence).
      apply (Inv_local s i _ None I); simpl; auto. finv F.
  Qed.

  (* ---------- preprocess goroutine ---------- *)
  Lemma P_pres : forall s i k c, Inv s -> Inv (step_P pre C i k c s).
  Proof.
    intros s i k c I. pose proof (inv_f _ _ _ I i) as F.
    unfold step_P. cbv zeta. set (f := s_file s i) in *.
    destruct (f_cell f k) eqn:Hc; try exact I.
    assert (Hupd : forall x tm, (x = CDead -> tm = true) -> (term s = true -> tm = true) ->
              cell_live x -> (forall v, x = CFull v -> v = pv i k) ->
              FInv tm (s_sent s) (s_taken s) i (set_cell k x f)).
    { intros x tm Hx Htm Hl Hv. apply (FInv_term' _ _ _ tm) in F; [|exact Htm].
      finv' F.
      - destruct (Nat.eqb_spec k0 k); [subst; rewrite fi_cnone in Hc by assumption; discriminate|]. auto.
      - rewrite Forall_forall in *. intros k0 Hk0. specialize (fi_idx_live k0 Hk0).
        destruct (Nat.eqb_spec k0 k); [subst|]; auto.
      - destruct (Nat.eqb_spec k0 k); [subst|]; eauto.
      - destruct (Nat.eqb_spec k0 k); [subst|]; eauto. }
    destruct (is_FPre C i k) eqn:E1; [|destruct (term s && c) eqn:E2].
    - apply (Inv_local s i _ (Some EPre) I); simpl; auto.
      { unfold is_FPre in E1. destruct (c_fault C); try discriminate. split; [reflexivity|discriminate]. }
      apply Hupd; simpl; auto; autorewrite with pl; auto. discriminate.
    - apply (Inv_local s i _ None I); simpl; auto.
      apply Hupd; simpl; auto. + intros _. apply andb_prop in E2; tauto. + discriminate.
    - apply (Inv_local s i _ None I); simpl; auto.
      apply Hupd; simpl; auto. + discriminate. + intros v Hv. now inversion Hv.
  Qed.

  (* ---------- drain goroutine ---------- *)
  Lemma D_exit_pres : forall s i, Inv s -> term s = true ->
    f_d (s_file s i) <> DIdle -> Inv (upd_file i (d_exit (s_file s i)) s).
  Proof.
    intros s i I Ht Hd. pose proof (inv_f _ _ _ I i) as F. set (f := s_file s i) in *.
    apply (Inv_local s i _ None I); simpl; auto. rewrite Ht in *.
    destruct (f_d f) eqn:Hd'; try congruence; finv F.
    - inversion fi_sorted; assumption.
    - inversion fi_idx_lt; assumption.
    - inversion fi_idx_live; assumption.
  Qed.

  Lemma D_pres : forall s i c, Inv s -> Inv (step_D i c s).
  Proof.
    intros s i c I. pose proof (inv_f _ _ _ I i) as F.
    unfold step_D. cbv zeta. set (f := s_file s i) in *.
    destruct (f_d f) eqn:Hd; try exact I.
    - (* DSel *)
      destruct (f_q f) as [|k q'] eqn:Hq.
      + destruct (term s) eqn:Ht; simpl.
        * apply D_exit_pres; auto. fold f. congruence.
        * destruct (f_qclosed f) eqn:Hqc; [|exact I].
          pose proof (fi_qclosed _ _ _ _ _ _ _ F Hqc) as Hlen.
          pose proof (FPfrom_end pre C i _ Hlen) as He.
          apply (Inv_local s i _ None I); simpl; auto. rewrite Ht. finv F.
          left. rewrite <- fi_pf by discriminate. rewrite He. now rewrite app_nil_r.
      + destruct (term s && c) eqn:E0.
        * apply D_exit_pres; [auto|apply andb_prop in E0; tauto|fold f; congruence].
        * apply (Inv_local s i _ None I); simpl; auto. finv F.
    - (* DCell *)
      destruct (f_cell f k) eqn:Hc.
      1,2,4,5: destruct (term s) eqn:Ht; [apply D_exit_pres; auto; fold f; congruence|exact I].
      destruct (term s && c) eqn:E0.
      + apply D_exit_pres; [auto|apply andb_prop in E0; tauto|fold f; congruence].
      + pose proof (fi_cfull _ _ _ _ _ _ _ F _ _ Hc) as Hv.
        apply (Inv_local s i _ None I); simpl; auto. finv F.
        * inversion fi_idx_lt; subst. destruct (Nat.eqb_spec k0 k); [lia|]. apply fi_cnone; lia.
        * inversion fi_sorted; assumption.
        * inversion fi_idx_lt; assumption.
        * inversion fi_sorted as [|? ? _ Hlt]; subst. inversion fi_idx_live as [|? ? _ Hlv]; subst.
          rewrite Forall_forall in *. intros k0 Hk0. specialize (Hlt k0 Hk0). specialize (Hlv k0 Hk0).
          destruct (Nat.eqb_spec k0 k); [lia|]. exact Hlv.
        * destruct (Nat.eqb_spec k0 k); [discriminate|]. eauto.
        * destruct (Nat.eqb_spec k0 k); [discriminate|]. eauto.
    - (* DSend *)
      destruct (term s && (c || negb (m_waits_on i s))) eqn:E0.
      + apply D_exit_pres; [auto|apply andb_prop in E0; tauto|fold f; congruence].
      + destruct (m_waits_on i s) eqn:Ew; [|exact I].
        unfold m_waits_on in Ew. destruct (s_m s) eqn:Hm; try discriminate.
        apply Nat.eqb_eq in Ew. subst i0.
        destruct I as [Il If Ig].
        assert (Htk : s_taken s = S i) by (pose proof (gi_m _ _ _ Ig) as H; now rewrite Hm in H).
        constructor.
        * destruct Il. constructor; simpl; auto.
          intros H. destruct (li_closed H) as [H1|[H1|H1]]; auto. congruence.
        * intros j. simpl. destruct (Nat.eqb_spec j i) as [->|Hne]; [|apply If].
          finv F.
          -- rewrite <- app_assoc. simpl. apply fi_pf. discriminate.
          -- exists (map (pv i) (f_q f) ++ FPfrom i (f_rk f)). rewrite <- fi_pf by discriminate.
             now rewrite <- app_assoc.
        * destruct Ig. unfold left, hand_m, outs in *. rewrite Hm in *.
          assert (Ho : forall j, j <> i -> f_out ((if j =? i then set_d DSel (set_out (f_out f ++ [v]) f) else s_file s j)) = f_out (s_file s j)).
          { intros j Hj. destruct (Nat.eqb_spec j i); [contradiction|reflexivity]. }
          constructor; unfold left, hand_m, outs; simpl; auto; try discriminate.
          -- intros j Hj. destruct (Nat.eqb_spec j i); [lia|]. auto.
          -- rewrite Htk in *. rewrite flat_map_seq_S in *. rewrite Nat.eqb_refl. simpl.
             rewrite app_nil_r in gi_g1. rewrite gi_g1. rewrite <- app_assoc. f_equal.
             apply flat_map_ext_seq. intros j Hj. destruct (Nat.eqb_spec j i); [lia|reflexivity].
          -- intros Ht j Hj. destruct (Nat.eqb_spec j i); [lia|]. auto.
          -- intros e He. destruct (gi_err e He) as [H|[H|[H _]]]; auto. congruence.
  Qed.

  (* ---------- outside Shutdown ---------- *)
  Lemma X_pres : forall s, Inv s -> Inv (step_X s).
  Proof.
    intros s [Il If Ig]. unfold step_X. destruct (s_x s) eqn:Hx; [|constructor; assumption].
    assert (Hext : c_ext C = true) by (apply (li_x _ _ Il); exact Hx).
    constructor.
    - destruct Il. constructor; simpl; autorewrite with pl; auto; try discriminate.
    - intros j. simpl. autorewrite with pl. eapply FInv_term'; [|apply If]. auto.
    - eapply GInv_frame; [exact Ig|simpl; autorewrite with pl; auto ..].
      simpl. intros e He. rewrite shut_err in He. destruct (s_err s); [left; congruence|].
      inversion He; subst. auto.
  Qed.

  (* ---------- launch reader ---------- *)
  Lemma L_exit_pres : forall s (sh : option errc), Inv s ->
    (s_l s <> LDone) ->
    let s0 := match sh with Some e => shut e s | None => s end in
    match sh with Some e => e = fclass (c_fault C) /\ c_fault C <> FNone | None => True end ->
    term s0 = true -> Inv (l_exit s0).
  Proof.
    intros s sh [Il If Ig] Hl s0 Hsh Ht.
    assert (Htm : term s = true -> term s0 = true) by auto.
    assert (E : s_sent s0 = s_sent s /\ s_l s0 = s_l s /\ s_taken s0 = s_taken s /\ s_fs s0 = s_fs s /\
                s_fsclosed s0 = s_fsclosed s /\ s_m s0 = s_m s /\ s_x s0 = s_x s /\
                s_file s0 = s_file s /\ s_calls s0 = s_calls s /\ s_last s0 = s_last s).
    { subst s0. destruct sh; autorewrite with pl; repeat split. }
    destruct E as (E1 & E2 & E3 & E4 & E5 & E6 & E7 & E8 & E9 & E10).
    unfold l_exit. constructor.
    - destruct Il. constructor; simpl; rewrite ?E1, ?E3, ?E4, ?E6, ?E7; autorewrite with pl; auto.
      destruct li_fs as [H|(_ & _ & _ & H)]; [auto|contradiction].
    - intros j. simpl. autorewrite with pl. rewrite E1, E3, E8. eapply FInv_term'; [exact Htm|apply If].
    - eapply GInv_frame; [exact Ig|simpl; autorewrite with pl; auto ..].
      + intros j. now rewrite E8.
      + intros j. now rewrite E8.
      + simpl. intros e He. subst s0. destruct sh as [e0|]; [|auto].
        rewrite shut_err in He. destruct (s_err s) eqn:Ee; [left; congruence|].
        inversion He; subst. right; left. exact Hsh.
  Qed.

  Lemma FInv_sent : forall tm sent sent' taken j f,
    (sent <= j <-> sent' <= j) -> FInv tm sent taken j f -> FInv tm sent' taken j f.
  Proof. intros tm sent sent' taken j f H I. destruct I; constructor; auto. tauto. Qed.

  Lemma seq_snoc_file : forall t i, t <= i ->
    map IFile (seq t (i - t)) ++ [IFile i] = map IFile (seq t (S i - t)).
  Proof.
    intros t i H. replace (S i - t) with (S (i - t)) by lia.
    rewrite seq_S, map_app. simpl. repeat f_equal. lia.
  Qed.

  Lemma L_pres : forall s c, Inv s -> Inv (step_L C c s).
  Proof.
    intros s c I. unfold step_L. destruct (s_l s) as [i|i| |] eqn:Hl; try exact I.
    - (* LSel *)
      destruct (term s && c) eqn:E0.
      { apply (L_exit_pres s None I); simpl; auto; [congruence|apply andb_prop in E0; tauto]. }
      destruct (is_FExists C i) eqn:E1.
      { apply (L_exit_pres s (Some EExists) I); simpl; auto; [congruence| |apply term_shut].
        unfold is_FExists in E1. destruct (c_fault C); try discriminate. split; [reflexivity|discriminate]. }
      destruct (i <? nfiles (c_lay C)) eqn:E2.
      { apply Nat.ltb_lt in E2. destruct I as [Il If Ig]. constructor.
        - destruct Il. rewrite Hl in *. constructor; simpl; auto.
          + tauto.
          + destruct li_fs as [H|(_ & _ & _ & H)]; [auto|discriminate].
        - intros j; simpl; apply If.
        - eapply GInv_frame; [exact Ig|simpl; auto ..]. }
      destruct (term s) eqn:Ht; [|exact I].
      apply (L_exit_pres s None I); simpl; auto; congruence.
    - (* LSend *)
      destruct (term s && (c || fs_full s)) eqn:E0.
      { apply (L_exit_pres s None I); simpl; auto; [congruence|apply andb_prop in E0; tauto]. }
      destruct (fs_full s) eqn:Efull; [exact I|].
      destruct I as [Il If Ig].
      pose proof (If i) as F.
      assert (Hsent : s_sent s = i) by (pose proof (li_pc _ _ Il) as H; rewrite Hl in H; tauto).
      assert (Hri : f_r (s_file s i) = RIdle) by (apply (fi_idle _ _ _ _ _ _ _ F); lia).
      set (l' := if stop_after (c_lay C) i then LStop else LSel (S i)).
      constructor.
      + destruct Il. rewrite Hl in *. destruct li_pc as (_ & Hlt & Hno).
        assert (Hfs : s_fs s = map IFile (seq (s_taken s) (s_sent s - s_taken s))).
        { destruct li_fs as [H|(_ & _ & _ & H)]; [auto|discriminate]. }
        constructor; simpl; auto; try lia.
        * intros j Hj. apply Hno. lia.
        * unfold l'. destruct (stop_after (c_lay C) i) eqn:Es; simpl.
          -- split; [lia|reflexivity].
          -- split; [reflexivity|]. intros j Hj. destruct (Nat.eq_dec j i) as [->|]; [exact Es|apply Hno; lia].
        * left. rewrite Hfs, Hsent. apply seq_snoc_file. lia.
        * intros H. destruct (li_closed H) as [H1|[H1|H1]]; auto. right; left. apply in_or_app; auto.
      + intros j. simpl. destruct (Nat.eqb_spec j i) as [->|Hne].
        * rewrite Hsent in F. finv F. split; [discriminate|lia].
        * apply (FInv_sent _ (s_sent s)); [lia|apply If].
      + eapply GInv_frame; [exact Ig|simpl; auto ..].
        * intros j. simpl. destruct (Nat.eqb_spec j i) as [->|Hne]; reflexivity.
        * intros j. simpl. destruct (Nat.eqb_spec j i) as [->|Hne]; auto.
    - (* LStop *)
      destruct (fs_full s) eqn:Efull; [exact I|].
      destruct I as [Il If Ig]. unfold l_exit. constructor.
      + destruct Il. rewrite Hl in *. destruct li_pc as [Hpos Hsa].
        assert (Hfs : s_fs s = map IFile (seq (s_taken s) (s_sent s - s_taken s))).
        { destruct li_fs as [H|(_ & _ & _ & H)]; [auto|discriminate]. }
        destruct (nsend_at_stop (c_lay C) (s_sent s)) as [Hn Hst]; [lia|exact li_nostop|exact Hsa|].
        constructor; simpl; auto.
        * right. rewrite Hfs. auto.
        * intros _. right; left. apply in_or_app; simpl; auto.
      + intros j; simpl; apply If.
      + eapply GInv_frame; [exact Ig|simpl; auto ..].
  Qed.

  (* ---------- run() ---------- *)
  Lemma sent_le_nsend : forall s, LInv s -> s_sent s <= nsend (c_lay C).
  Proof. intros s []. apply nsend_ge; auto. Qed.

  Lemma FInv_taken : forall tm sent taken taken' j f,
    taken <= taken' -> FInv tm sent taken j f -> FInv tm sent taken' j f.
  Proof. intros tm sent taken taken' j f H I. destruct I; constructor; auto. intros; apply fi_out0; lia. Qed.

  Lemma call_prefix : forall s i v, Inv s -> s_m s = MCall i v -> prefix (s_calls s ++ [v]) EP.
  Proof.
    intros s i v [Il If Ig] Hm. pose proof (sent_le_nsend s Il) as Hs.
    destruct Ig. rewrite Hm in *. unfold hand_m in gi_g1. rewrite Hm in gi_g1.
    rewrite gi_g1, gi_m, flat_map_seq_S.
    rewrite (flat_map_ext_seq _ (outs s) FP i) by (intros; eapply gi_mc; eauto).
    destruct (fi_pfx _ _ _ _ _ _ _ (If i)) as [r Hr].
    eapply prefix_trans; [|apply (EPn_prefix pre C (S i))].
    - rewrite EPn_S. unfold outs. rewrite Hr. exists r. unfold PipelineDefs.EPn. now rewrite app_assoc.
    - destruct Il. lia.
  Qed.

  Lemma M_ret_nil : forall s, Inv s -> term s = true ->
    (match s_m s with MSel | MFile _ | MPoll _ _ => True | _ => False end) ->
    Inv (set_m (MRet ENil) s).
  Proof.
    intros s [Il If Ig] Ht Hm. constructor.
    - destruct Il. constructor; simpl; auto.
    - intros j; simpl; apply If.
    - destruct Ig. constructor; unfold left, hand_m, outs; simpl; auto; try discriminate; try lia.
      + intros e He. autorewrite with pl. congruence.
      + intros e He. destruct (gi_err e He) as [H|[H|[H _]]]; auto. rewrite H in Hm. contradiction.
  Qed.

  Lemma M_pres : forall s c, Inv s -> Inv (step_M C c s).
  Proof.
    intros s c I. unfold step_M. destruct (s_m s) as [|i|i v|i v|e|e] eqn:Hm; try exact I.
    - (* MSel *)
      destruct (s_fs s) as [|[i|] r] eqn:Hfs.
      + (* empty *)
        destruct (term s || s_fsclosed s) eqn:E0; [|exact I].
        apply M_ret_nil; auto; [|now rewrite Hm].
        destruct (term s) eqn:Ht; [reflexivity|]. simpl in E0.
        destruct I as [Il _ _]. destruct (li_closed _ _ Il E0) as [H|[H|H]]; try congruence.
        rewrite Hfs in H. contradiction.
      + (* a file *)
        destruct (term s && c) eqn:E0.
        { apply M_ret_nil; auto; [apply andb_prop in E0; tauto|now rewrite Hm]. }
        destruct I as [Il If Ig].
        assert (Hfs' : i = s_taken s /\ s_taken s < s_sent s /\
                  (r = map IFile (seq (S i) (s_sent s - S i)) \/
                   (r = map IFile (seq (S i) (s_sent s - S i)) ++ [IStop] /\
                    s_sent s = nsend (c_lay C) /\ stopped (c_lay C) = true /\ s_l s = LDone))).
        { destruct Il. rewrite Hfs in li_fs.
          destruct (s_sent s - s_taken s) as [|n] eqn:En.
          - simpl in li_fs. destruct li_fs as [H|[H _]]; discriminate.
          - simpl in li_fs. assert (Hn : s_sent s - S (s_taken s) = n) by lia.
            destruct li_fs as [H|[H H']]; inversion H as [[Hi Hr]]; rewrite Hn; split; auto; split; auto; lia. }
        destruct Hfs' as (-> & Hlt & Hr).
        constructor.
        * destruct Il. constructor; simpl; auto; try lia.
          intros H. autorewrite with pl. destruct (li_closed H) as [H1|[H1|H1]]; auto; [|congruence].
          rewrite Hfs in H1. destruct H1 as [H1|H1]; [discriminate|auto].
        * intros j. simpl. eapply FInv_taken; [|apply If]. lia.
        * destruct Ig. unfold left, hand_m, outs in *. rewrite Hm in *.
          constructor; unfold left, hand_m, outs; psimpl; auto; try discriminate.
          -- rewrite flat_map_seq_S, <- gi_g1.
             rewrite (fi_out0 _ _ _ _ _ _ _ (If (s_taken s))) by lia. now rewrite !app_nil_r.
          -- intros e He. destruct (gi_err e He) as [H|[H|[H _]]]; auto. congruence.
      + (* the stop marker *)
        destruct (term s && c) eqn:E0.
        { apply M_ret_nil; auto; [apply andb_prop in E0; tauto|now rewrite Hm]. }
        destruct I as [Il If Ig].
        assert (Hfs' : s_taken s = s_sent s /\ r = [] /\ s_sent s = nsend (c_lay C) /\ stopped (c_lay C) = true).
        { destruct Il. rewrite Hfs in li_fs.
          destruct (s_sent s - s_taken s) as [|n] eqn:En; simpl in li_fs.
          - destruct li_fs as [H|(H & H1 & H2 & _)]; [discriminate|]. inversion H. repeat split; auto. lia.
          - destruct li_fs as [H|(H & _)]; discriminate. }
        destruct Hfs' as (Htk & -> & Hns & Hst).
        constructor.
        * destruct Il. constructor; simpl; auto.
          left. rewrite Htk. now rewrite Nat.sub_diag.
        * intros j; simpl; apply If.
        * destruct Ig. unfold left, hand_m, outs in *. rewrite Hm in *.
          constructor; unfold left, hand_m, outs; simpl; auto; try discriminate; try (intros; lia).
          -- intros e He Ht. inversion He; subst. autorewrite with pl in Ht. simpl. split; [|exact Hst].
             rewrite app_nil_r in gi_g1. rewrite gi_g1.
             unfold PipelineDefs.EP, PipelineDefs.EPn. rewrite <- Hns, <- Htk.
             apply flat_map_ext_seq. intros j Hj. apply gi_nt; auto.
          -- intros e He. destruct (gi_err e He) as [H|[H|[H _]]]; auto. congruence.
    - (* MFile *)
      destruct (c_fix1 C && term s && (c || negb (f_bclosed (s_file s i)))) eqn:E0.
      { apply M_ret_nil; auto; [apply andb_prop in E0; destruct E0 as [E0 _]; apply andb_prop in E0; tauto|now rewrite Hm]. }
      destruct (f_bclosed (s_file s i)) eqn:Hb; [|exact I].
      destruct I as [Il If Ig]. constructor.
      + destruct Il. constructor; simpl; auto.
        intros H. destruct (li_closed H) as [H1|[H1|H1]]; auto. congruence.
      + intros j; simpl; apply If.
      + destruct Ig. unfold left, hand_m, outs in *. rewrite Hm in *.
        constructor; unfold left, hand_m, outs; psimpl; auto; try discriminate.
        * rewrite gi_m. intros j Hj. destruct (Nat.eq_dec j i) as [->|]; [exact Hb|apply gi_left; lia].
        * rewrite gi_m. intros Ht j Hj. destruct (Nat.eq_dec j i) as [->|]; [|apply gi_nt; auto; lia].
          pose proof (If i) as F. autorewrite with pl in Ht. rewrite Ht in F.
          destruct (fi_done _ _ _ _ _ _ _ F) as [H|H]; [apply (fi_bclosed _ _ _ _ _ _ _ F); exact Hb|exact H|discriminate].
        * intros e He. destruct (gi_err e He) as [H|[H|[H _]]]; auto. congruence.
    - (* MPoll *)
      destruct (term s) eqn:Ht.
      { apply M_ret_nil; auto. now rewrite Hm. }
      destruct I as [Il If Ig]. constructor.
      + destruct Il. constructor; simpl; auto.
        intros H. destruct (li_closed H) as [H1|[H1|H1]]; auto. congruence.
      + intros j; simpl; apply If.
      + destruct Ig. unfold left, hand_m, outs in *. rewrite Hm in *.
        constructor; unfold left, hand_m, outs; psimpl; auto; try discriminate.
        * intros i0 v0 H j Hj. inversion H; subst. apply gi_nt; auto.
        * intros e He. destruct (gi_err e He) as [H|[H|[H _]]]; auto. congruence.
    - (* MCall *)
      pose proof (call_prefix s i v I Hm) as Hpre.
      destruct I as [Il If Ig].
      assert (Hlast : s_last s = lid 0 (map fst (s_calls s))) by apply (gi_last _ _ _ Ig).
      assert (Hlink : seq_cut 0 (map fst (s_calls s)) = (map fst (s_calls s), false)) by apply (gi_link _ _ _ Ig).
      destruct (negb (s_last s =? 0)%N && negb (b_par (fst v) =? s_last s)%N) eqn:Eb.
      + (* non-sequential *)
        constructor.
        * destruct Il. constructor; simpl; auto.
          intros H. destruct (li_closed H) as [H1|[H1|H1]]; auto. congruence.
        * intros j; simpl; apply If.
        * destruct Ig. unfold left, hand_m, outs in *. rewrite Hm in *.
          constructor; unfold left, hand_m, outs; psimpl; auto; try discriminate; try (intros; lia).
          -- intros e He Ht. inversion He; subst. simpl.
             destruct Hpre as [r Hr]. exists v, r. rewrite <- app_assoc in Hr. simpl in Hr.
             apply andb_prop in Eb. destruct Eb as [E1 E2].
             apply negb_true_iff in E1, E2. apply N.eqb_neq in E1, E2. rewrite <- Hlast. auto.
          -- intros e He. destruct (gi_err e He) as [H|[H|[H _]]]; auto. congruence.
      + assert (Hlink' : seq_cut 0 (map fst (s_calls s ++ [v])) = (map fst (s_calls s ++ [v]), false)).
        { rewrite map_app. rewrite (seq_cut_app _ _ _ Hlink). simpl. rewrite <- Hlast, Eb. reflexivity. }
        assert (Hlast' : b_id (fst v) = lid 0 (map fst (s_calls s ++ [v]))).
        { rewrite map_app. simpl. now rewrite lid_app1. }
        destruct (is_FHandler C (length (s_calls s))) eqn:Eh.
        * (* the handler fails *)
          constructor.
          -- destruct Il. constructor; simpl; auto.
             intros H. destruct (li_closed H) as [H1|[H1|H1]]; auto. congruence.
          -- intros j; simpl; apply If.
          -- destruct Ig. unfold left, hand_m, outs in *. rewrite Hm in *.
             constructor; unfold left, hand_m, outs; psimpl; auto; try discriminate; try (intros; lia).
             ++ intros e He Ht. inversion He; subst. simpl.
                unfold is_FHandler in Eh. destruct (c_fault C) eqn:Ef; try discriminate.
                apply Nat.eqb_eq in Eh. subst n. exists (length (s_calls s)). split; [reflexivity|].
                rewrite app_length. simpl. lia.
             ++ intros e He. destruct (gi_err e He) as [H|[H|[H _]]]; auto. congruence.
        * constructor.
          -- destruct Il. constructor; simpl; auto.
             intros H. destruct (li_closed H) as [H1|[H1|H1]]; auto. congruence.
          -- intros j; simpl; apply If.
          -- destruct Ig. unfold left, hand_m, outs in *. rewrite Hm in *.
             constructor; unfold left, hand_m, outs; psimpl; auto; try discriminate.
             ++ now rewrite app_nil_r.
             ++ intros e He. destruct (gi_err e He) as [H|[H|[H _]]]; auto. congruence.
    - (* MRet *)
      destruct I as [Il If Ig]. constructor.
      + destruct Il. constructor; simpl; autorewrite with pl; auto.
      + intros j. simpl. autorewrite with pl. eapply FInv_term'; [|apply If]. auto.
      + destruct Ig. unfold left, hand_m, outs in *. rewrite Hm in *.
        constructor; unfold left, hand_m, outs; psimpl; autorewrite with pl; auto; try discriminate; try (intros; lia).
        intros e' He. rewrite shut_err in He. destruct (s_err s) as [e0|] eqn:Ee.
        * inversion He; subst. destruct (gi_err e' eq_refl) as [H|[H|[H _]]]; auto. congruence.
        * inversion He; subst. right; right. split; [reflexivity|].
          eapply good_frame; [|apply gi_ret; [reflexivity|]].
          -- simpl. now autorewrite with pl.
          -- unfold term. now rewrite Ee.
  Qed.

  (* ---------- every reachable state ---------- *)
  Lemma step_pres : forall s tc, Inv s -> Inv (step pre C s tc).
  Proof.
    intros s [t c] I. destruct t; simpl.
    - now apply L_pres.
    - now apply R_pres.
    - now apply D_pres.
    - now apply P_pres.
    - now apply M_pres.
    - now apply X_pres.
  Qed.

  Lemma run_pres : forall sched s, Inv s -> Inv (run pre C sched s).
  Proof.
    induction sched as [|tc sched IH]; intros s I; simpl; [exact I|].
    apply IH. now apply step_pres.
  Qed.

  Lemma reachable_inv : forall s, reachable pre C s -> Inv s.
  Proof. intros s [sched ->]. apply run_pres. apply Inv_init. Qed.
End Pres.
