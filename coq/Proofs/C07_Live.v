(* C07: the live phase of Model/Joining.v delivers hub events first in, first out. *)
From BV Require Import Base.Prelude Model.Block Model.ForkDB Model.Forkable Model.ForkableLookups
  Model.Burst Model.Hub Model.CursorResolver Model.Joining Spec.C07_Spec Proofs.C07_File.
Local Open Scope N_scope.

(* ------------------------------------------------------------------ pushes compose *)

Lemma push_n_add : forall c a b w,
  push_n c (a + b) w =
  (fst (push_n c b (fst (push_n c a w))), snd (push_n c a w) ++ snd (push_n c b (fst (push_n c a w)))).
Proof.
  intros c a. induction a as [|a IH]; intros b w.
  - cbn [Nat.add push_n fst snd app]. destruct (push_n c b w). reflexivity.
  - cbn [Nat.add push_n]. destruct (push_one c w) as [w1 e1]. rewrite (IH b w1).
    destruct (push_n c a w1) as [w2 e2]. cbn [fst snd]. rewrite app_assoc. reflexivity.
Qed.

Lemma push_n_one : forall c w, push_n c 1 w = (fst (push_one c w), snd (push_one c w)).
Proof.
  intros c w. cbn [push_n]. destruct (push_one c w) as [w1 e1]. cbn [fst snd]. rewrite app_nil_r. reflexivity.
Qed.

Lemma push_one_empty : forall c w, w_rest w = [] -> push_one c w = (w, []).
Proof. intros c w H. unfold push_one. rewrite H. reflexivity. Qed.

Lemma push_n_empty : forall c k w, w_rest w = [] -> push_n c k w = (w, []).
Proof.
  intros c k. induction k as [|k IH]; intros w H; [reflexivity|].
  cbn [push_n]. rewrite (push_one_empty c w H). rewrite (IH w H). reflexivity.
Qed.

Lemma push_one_rest : forall c w b r, w_rest w = b :: r -> w_rest (fst (push_one c w)) = r.
Proof.
  intros c w b r H. unfold push_one. rewrite H.
  destruct (hub_live (j_first c) (j_kept c) (w_hub w) (PBlocks []) b) as [[h' evs] res]. reflexivity.
Qed.

(* once nothing is left to push, the pushed events are all the events *)
Lemma pushed_all : forall c k w, w_rest (fst (push_n c k w)) = [] -> pushed c k w = push_all c w.
Proof.
  intros c k. induction k as [|k IH]; intros w H.
  - cbn [push_n fst] in H. unfold push_all, pushed. rewrite H. reflexivity.
  - unfold push_all, pushed. destruct (w_rest w) as [|b r] eqn:Er.
    + rewrite (push_n_empty c (S k) w Er). reflexivity.
    + cbn [length push_n] in *. pose proof (push_one_rest c w b r Er) as Er1.
      destruct (push_one c w) as [w1 e1]. cbn [fst] in Er1.
      specialize (IH w1). unfold push_all, pushed in IH. rewrite Er1 in IH.
      destruct (push_n c k w1) as [w2 e2]. cbn [fst snd] in *.
      destruct (push_n c (length r) w1) as [w3 e3]. cbn [fst snd] in *.
      rewrite (IH H). reflexivity.
Qed.

Lemma apply_pauses_push : forall c count ps w,
  exists m, fst (push_n c m w) = snd (fst (apply_pauses c count ps w)) /\
            snd (push_n c m w) = snd (apply_pauses c count ps w).
Proof.
  intros c count ps. induction ps as [|[after n] ps IH]; intros w.
  - exists 0%nat. split; reflexivity.
  - cbn [apply_pauses]. destruct (after <=? count).
    + destruct (IH (fst (push_n c (N.to_nat n) w))) as (m & E1 & E2).
      exists (N.to_nat n + m)%nat. rewrite push_n_add.
      destruct (push_n c (N.to_nat n) w) as [w1 e1]. cbn [fst snd] in *.
      destruct (apply_pauses c count ps w1) as [[ps2 w2] e2]. cbn [fst snd] in *.
      rewrite E1, E2. split; reflexivity.
    + exists 0%nat. split; reflexivity.
Qed.

(* ------------------------------------------------------------------ upto_stop *)

Lemma upto_stop_false : forall c l, snd (upto_stop c l) = false -> fst (upto_stop c l) = delivered c l.
Proof.
  intros c l. induction l as [|e l IH]; intros H; [reflexivity|].
  cbn [upto_stop] in *. destruct (stops c e); [discriminate|]. cbn [fst snd] in *.
  unfold delivered in *. cbn [filter]. rewrite (IH H). destruct (fst (chain c e)); reflexivity.
Qed.

(* ------------------------------------------------------------------ the invariant *)

Definition live_ok (c : jcfg) (S : list event) (out : list event) (res : list event * jerr) (allp : Prop) : Prop :=
  match snd res with
  | JNil => allp /\ snd (upto_stop c S) = false /\ fst res = out ++ delivered c S
  | JStop => snd (upto_stop c S) = true /\ fst res = out ++ fst (upto_stop c S)
  | JFuel => exists S1 S2, S = S1 ++ S2 /\ snd (upto_stop c S1) = false /\ fst res = out ++ delivered c S1
  | _ => False
  end.

(* a delivered event in front *)
Lemma live_ok_deliver : forall c e S out res allp,
  chain c e = (true, false) -> live_ok c S (out ++ [e]) res allp -> live_ok c (e :: S) out res allp.
Proof.
  intros c e S out res allp Hc H. unfold live_ok in *.
  assert (Hs : stops c e = false) by (unfold stops; rewrite Hc; reflexivity).
  assert (Hd : fst (chain c e) = true) by (rewrite Hc; reflexivity).
  destruct (snd res).
  - destruct H as (Ha & Hns & Ho). split; [exact Ha|]. split.
    + cbn [upto_stop]. rewrite Hs. exact Hns.
    + rewrite Ho. unfold delivered. cbn [filter]. rewrite Hd. rewrite <- app_assoc. reflexivity.
  - destruct H as (Hst & Ho). cbn [upto_stop]. rewrite Hs, Hd. cbn [fst snd]. split; [exact Hst|].
    rewrite Ho, <- app_assoc. reflexivity.
  - exact H.
  - exact H.
  - destruct H as (S1 & S2 & -> & Hns & Ho). exists (e :: S1), S2. split; [reflexivity|]. split.
    + cbn [upto_stop]. rewrite Hs. exact Hns.
    + rewrite Ho. unfold delivered. cbn [filter]. rewrite Hd. rewrite <- app_assoc. reflexivity.
Qed.

(* a filtered-out event in front *)
Lemma live_ok_skip : forall c e S out res allp,
  chain c e = (false, false) -> live_ok c S out res allp -> live_ok c (e :: S) out res allp.
Proof.
  intros c e S out res allp Hc H. unfold live_ok in *.
  assert (Hs : stops c e = false) by (unfold stops; rewrite Hc; reflexivity).
  assert (Hd : fst (chain c e) = false) by (rewrite Hc; reflexivity).
  destruct (snd res).
  - destruct H as (Ha & Hns & Ho). split; [exact Ha|]. split.
    + cbn [upto_stop]. rewrite Hs. exact Hns.
    + rewrite Ho. unfold delivered. cbn [filter]. rewrite Hd. reflexivity.
  - destruct H as (Hst & Ho). cbn [upto_stop]. rewrite Hs, Hd. cbn [fst snd app]. split; assumption.
  - exact H.
  - exact H.
  - destruct H as (S1 & S2 & -> & Hns & Ho). exists (e :: S1), S2. split; [reflexivity|]. split.
    + cbn [upto_stop]. rewrite Hs. exact Hns.
    + rewrite Ho. unfold delivered. cbn [filter]. rewrite Hd. reflexivity.
Qed.

Lemma live_fifo : forall fuel c w queue count ps out,
  exists k, live_ok c (queue ++ pushed c k w) out (live_phase fuel c w queue count ps out)
                    (w_rest (fst (push_n c k w)) = []).
Proof.
  induction fuel as [|f IH]; intros c w queue count ps out.
  - exists 0%nat. cbn [live_phase]. unfold live_ok. cbn [snd fst].
    exists [], (queue ++ pushed c 0 w). split; [reflexivity|]. split; [reflexivity|].
    unfold delivered. cbn [filter]. rewrite app_nil_r. reflexivity.
  - cbn [live_phase]. destruct queue as [|e q].
    + destruct (w_rest w) as [|b r] eqn:Er.
      * exists 0%nat. unfold live_ok, pushed. cbn [push_n snd fst app upto_stop].
        split; [exact Er|]. split; [reflexivity|]. unfold delivered. cbn [filter]. rewrite app_nil_r. reflexivity.
      * destruct (IH c (fst (push_one c w)) (snd (push_one c w)) count ps out) as (k & Hk).
        exists (1 + k)%nat. unfold pushed in *. rewrite push_n_add, push_n_one. cbn [fst snd app].
        destruct (push_one c w) as [w' evs]. cbn [fst snd] in *. exact Hk.
    + destruct (chain c e) as [deliver stop] eqn:Ec. destruct deliver.
      * destruct (apply_pauses_push c (count + 1) ps w) as (m & Em1 & Em2).
        destruct (apply_pauses c (count + 1) ps w) as [[ps' w'] evs]. cbn [fst snd] in Em1, Em2.
        destruct stop.
        -- exists 0%nat. unfold live_ok. cbn [snd fst app upto_stop]. unfold stops. rewrite Ec. cbn [fst snd].
           split; reflexivity.
        -- destruct (IH c w' (q ++ evs) (count + 1) ps' (out ++ [e])) as (k & Hk).
           exists (m + k)%nat. unfold pushed in *. rewrite push_n_add. cbn [fst snd]. rewrite Em1, Em2.
           cbn [app]. apply live_ok_deliver; [exact Ec|].
           rewrite <- app_assoc in Hk. exact Hk.
      * destruct stop.
        -- exists 0%nat. unfold live_ok. cbn [snd fst app upto_stop]. unfold stops. rewrite Ec. cbn [fst snd].
           split; [reflexivity|]. rewrite app_nil_r. reflexivity.
        -- destruct (IH c w q count ps out) as (k & Hk). exists k.
           cbn [app]. apply live_ok_skip; assumption.
Qed.

Lemma c07_live_phase_fifo_proof : C07_live_phase_fifo.
Proof.
  intros fuel c w queue count ps out.
  destruct (live_fifo fuel c w queue count ps out) as (k & Hk). exists k. cbv zeta.
  unfold live_ok in Hk. destruct (snd (live_phase fuel c w queue count ps out)); try exact Hk.
  destruct Hk as (Ha & Hns & Ho). split; [apply pushed_all; exact Ha|]. split; assumption.
Qed.
