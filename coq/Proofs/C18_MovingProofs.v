(* C18 at stream level: from the boolean scope `moving_scope2_b` (roots allowed) and an arbitrary handler oracle to the
   hypotheses of Proofs/Fk/MovingLibLookups.v. *)
From BV Require Import Base.Prelude Model.Block Model.ForkDB Model.Forkable Model.ForkableLookups Model.Burst
  Spec.Consumer Spec.Universe Spec.C01_Spec Spec.C01_Moving_Spec Spec.C01_Roots_Spec Spec.C18_Spec Spec.C18_Moving_Spec
  Proofs.Fk.FixedLib Proofs.Fk.MovingLibInv Proofs.Fk.MovingLibLookups Proofs.Fk.FailPrefix Proofs.C02_Proofs Proofs.C01_Roots_Proofs.
Local Open Scope N_scope.

(* ---------------------------------------------------------------- the handler oracle *)

(* the failing call has not happened yet *)
Definition before_fail (cfg : config) (s : fstate) : Prop :=
  match c_fail_at cfg with Some k => ncalls s <= k | None => True end.

Lemma nofail_same cfg : c_fail_at cfg = None -> nofail cfg = cfg.
Proof. destruct cfg. cbn. intros ->. reflexivity. Qed.

(* a call that returned ROk is the call of the never-failing handler *)
Lemma step_nofail cfg s b s' evs : before_fail cfg s -> fk_step cfg s b = (s', evs, ROk) ->
  fk_step (nofail cfg) s b = (s', evs, ROk) /\ before_fail cfg s'.
Proof.
  unfold before_fail. destruct (c_fail_at cfg) as [k|] eqn:Hf; intros Hk Hstep.
  - pose proof (step_fail cfg k Hf s b) as R.
    destruct (fk_step (nofail cfg) s b) as [[sN evsN] rN]. cbn [step_rel'] in R.
    destruct R as (_ & evs0 & Hev & Hn & Hrel). cbn [app] in Hev. subst evs0.
    destruct (Hrel Hk) as [HA HB].
    destruct (N.le_gt_cases (ncalls s + N.of_nat (length evsN)) k) as [Hle|Hgt].
    + rewrite (HA Hle) in Hstep. injection Hstep as -> -> ->. split; [reflexivity | lia].
    + destruct (HB Hgt) as (se & e1 & e2 & _ & _ & Hres). rewrite Hres in Hstep. discriminate.
  - rewrite (nofail_same cfg Hf). auto.
Qed.

Lemma reaches_nofail cfg : forall pre s evs s', reaches cfg s pre evs s' -> before_fail cfg s ->
  reaches (nofail cfg) s pre evs s' /\ before_fail cfg s'.
Proof.
  intros pre s evs s' Hr. induction Hr as [s|s b s1 evs pre evs' s' Hstep Hr IH]; intros Hk.
  - split; [constructor | exact Hk].
  - destruct (step_nofail cfg s b s1 evs Hk Hstep) as [HstepN Hk1].
    destruct (IH Hk1) as [HrN Hk']. split; [econstructor; eassumption | exact Hk'].
Qed.

Lemma before_fail_init cfg m : before_fail cfg (fs_init m).
Proof. unfold before_fail. destruct (c_fail_at cfg); [|exact I]. destruct m; cbn; lia. Qed.

(* ---------------------------------------------------------------- the scope *)

Section Scope.
  Variable cfg : config.
  Variable r0 : ref.
  Variable m : libmode.
  Variable h : list block.
  Hypothesis Hscope : c18_scope cfg r0 m h.

  Let cfgN := nofail cfg.
  Let Hm : rooted_mode r0 m := proj1 Hscope.
  Let Hnew : f_new (c_filter cfgN) = true := proj1 (proj2 Hscope).
  Let Hundo : f_undo (c_filter cfgN) = true := proj1 (proj2 (proj2 Hscope)).
  Let Hsc : moving_scope2_b r0 h = true := proj2 (proj2 (proj2 Hscope)).
  Let U_id := bridge_id h (m2_wf r0 h Hsc).
  Let U_uniq := bridge_uniq h (m2_wf r0 h Hsc).
  Let U_up := bridge_up h (m2_wf r0 h Hsc).
  Let L_id : ri r0 <> 0 := proj1 (proj2 (proj2 (scope2_parts r0 h Hsc))).
  Let L_num := fun y Hy => proj2 (mb2_parts r0 h Hsc y Hy).
  Let L_up := fun x Hx => proj1 (mb2_parts r0 h Hsc x Hx).
  Let L_decl := bridge2_decl r0 h Hsc.

  (* every observation point satisfies the invariant and its supplement *)
  Lemma point_inv pre rest evs s : h = pre ++ rest -> reaches cfg (fs_init m) pre evs s ->
    exists Fin S, Inv h r0 cfgN s Fin S /\ Ext r0 cfgN s Fin S /\ apply_all (ri r0) [] evs = Some S.
  Proof.
    intros Hh Hr. destruct (reaches_nofail cfg _ _ _ _ Hr (before_fail_init cfg m)) as [HrN _].
    destruct (reach_inv h r0 cfgN eq_refl Hnew Hundo U_id U_uniq U_up L_id L_num L_up L_decl pre _ _ _ HrN [] []
                (inv_init h r0 cfgN L_id L_num L_up m (rooted_of r0 m Hm)) (ext_init r0 cfgN m (rooted_of r0 m Hm)))
      as (Fin & S & HI & HE & Happ & _).
    - intros b Hb. rewrite Hh. apply in_or_app. left. exact Hb.
    - exists Fin, S. auto.
  Qed.

  Lemma at_points (P : fstate -> cstack -> Prop) :
    (forall s Fin S, Inv h r0 cfgN s Fin S -> Ext r0 cfgN s Fin S -> P s S) -> at_every_point cfg r0 m h P.
  Proof.
    intros HP pre rest evs s Hh Hr. destruct (point_inv pre rest evs s Hh Hr) as (Fin & S & HI & HE & Happ).
    exists S. split; [exact Happ | apply (HP s Fin S HI HE)].
  Qed.

  Lemma scope_head : at_every_point cfg r0 m h head_clause.
  Proof. apply at_points. intros s Fin S. apply (head_clause_of h r0 cfgN U_id U_uniq U_up). Qed.

  Lemma scope_canonical : at_every_point cfg r0 m h (canonical_clause (c_kept cfg)).
  Proof.
    apply at_points. intros s Fin S.
    apply (canonical_clause_of h r0 cfgN U_id U_uniq U_up L_id L_num L_up L_decl).
  Qed.

  Lemma scope_lowest : at_every_point cfg r0 m h lowest_clause.
  Proof.
    apply at_points. intros s Fin S.
    apply (lowest_clause_of h r0 cfgN U_id U_uniq U_up L_id L_num L_up L_decl).
  Qed.

  Lemma scope_window : at_every_point cfg r0 m h (window_clause (c_kept cfg) r0).
  Proof. apply at_points. intros s Fin S. apply (window_clause_of h r0 cfgN U_id U_uniq U_up). Qed.

  Lemma scope_found pre1 b pre2 rest evs1 s1 evs s2 evs2 s3 :
    h = pre1 ++ b :: pre2 ++ rest ->
    reaches cfg (fs_init m) pre1 evs1 s1 ->
    fk_step cfg s1 b = (s2, evs, ROk) ->
    below_lib s1 b = false ->
    reaches cfg s2 pre2 evs2 s3 ->
    cutoff (db s3) (c_kept cfg) <= bnum b ->
    get_block_by_hash s3 (bid b) = true /\ exists l, all_blocks_at s3 (bnum b) = Some l /\ In (bid b) l.
  Proof.
    intros Hh Hr1 Hstep Hd Hr2 Hn.
    destruct (reaches_nofail cfg _ _ _ _ Hr1 (before_fail_init cfg m)) as [Hr1N Hk1].
    destruct (step_nofail cfg s1 b s2 evs Hk1 Hstep) as [HstepN Hk2].
    destruct (reaches_nofail cfg _ _ _ _ Hr2 Hk2) as [Hr2N _].
    apply (reach_found h r0 cfgN eq_refl Hnew Hundo U_id U_uniq U_up L_id L_num L_up L_decl
             pre1 (fs_init m) evs1 s1 b s2 evs pre2 evs2 s3 [] []
             (inv_init h r0 cfgN L_id L_num L_up m (rooted_of r0 m Hm)) (ext_init r0 cfgN m (rooted_of r0 m Hm))).
    - intros x Hx. rewrite Hh. apply in_app_or in Hx as [Hx|[<-|Hx]].
      + apply in_or_app. left. exact Hx.
      + apply in_or_app. right. left. reflexivity.
      + apply in_or_app. right. right. apply in_or_app. left. exact Hx.
    - exact Hr1N.
    - exact HstepN.
    - exact Hd.
    - exact Hr2N.
    - exact Hn.
  Qed.
End Scope.

Theorem c18_moving_head_proof : C18_moving_head.
Proof. intros cfg r0 m h Hs. apply (scope_head cfg r0 m h Hs). Qed.

Theorem c18_moving_canonical_proof : C18_moving_canonical.
Proof. intros cfg r0 m h Hs. apply (scope_canonical cfg r0 m h Hs). Qed.

Theorem c18_moving_lowest_proof : C18_moving_lowest.
Proof. intros cfg r0 m h Hs. apply (scope_lowest cfg r0 m h Hs). Qed.

Theorem c18_moving_window_proof : C18_moving_window.
Proof. intros cfg r0 m h Hs. apply (scope_window cfg r0 m h Hs). Qed.

Theorem c18_moving_found_proof : C18_moving_found.
Proof. intros cfg r0 m h Hs pre1 b pre2 rest evs1 s1 evs s2 evs2 s3. apply (scope_found cfg r0 m h Hs). Qed.

Theorem c18_moving_full_proof : C18_moving_full.
Proof.
  split; [exact c18_moving_head_proof|]. split; [exact c18_moving_canonical_proof|].
  split; [exact c18_moving_lowest_proof|]. split; [exact c18_moving_window_proof | exact c18_moving_found_proof].
Qed.

(* ---------------------------------------------------------------- the states of fk_states are observation points *)

Theorem c18_states_reached_proof : C18_states_reached.
Proof.
  intros cfg s0 h. revert s0. induction h as [|b rest IH]; intros s0 k sk Hk Hok.
  - unfold states_of in Hk. cbn [fk_states] in Hk. destruct k as [|k]; [|destruct k; discriminate].
    injection Hk as <-. cbn. constructor.
  - destruct k as [|k].
    + injection Hk as <-. cbn. constructor.
    + unfold states_of in Hk. cbn [fk_states nth_error] in Hk. cbn [fk_run firstn] in Hok |- *.
      destruct (fk_step cfg s0 b) as [[s1 evs] r] eqn:Hstep.
      cbn [firstn] in Hok. inversion Hok as [|? ? Hr Hok']; subst. cbn [snd] in Hr. subst r.
      unfold all_events. cbn [map concat fst]. fold (all_events (firstn k (fk_run cfg s1 rest))).
      econstructor; [exact Hstep|]. apply IH; [exact Hk | exact Hok'].
Qed.

(* ---------------------------------------------------------------- an executable form of `reaches` (for the examples) *)

Fixpoint run_to (cfg : config) (s : fstate) (pre : list block) : option (list event * fstate) :=
  match pre with
  | [] => Some ([], s)
  | b :: rest =>
      let '(s1, evs, r) := fk_step cfg s b in
      match r with
      | ROk => match run_to cfg s1 rest with Some (evs', s') => Some (evs ++ evs', s') | None => None end
      | _ => None
      end
  end.

Lemma run_to_reaches cfg : forall pre s evs s', run_to cfg s pre = Some (evs, s') -> reaches cfg s pre evs s'.
Proof.
  induction pre as [|b rest IH]; intros s evs s' H; cbn [run_to] in H.
  - injection H as <- <-. constructor.
  - destruct (fk_step cfg s b) as [[s1 ev1] r] eqn:Hstep. destruct r; try discriminate.
    destruct (run_to cfg s1 rest) as [[ev' s2]|] eqn:Hrest; [|discriminate]. injection H as <- <-.
    econstructor; [exact Hstep | apply IH; exact Hrest].
Qed.
