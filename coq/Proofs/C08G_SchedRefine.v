(* GENERIC COPY of Proofs/C08_SchedRefine.v: the same proofs with the event production function [hub_push first kept]
   (Model/Hub.v hub_live) replaced by an arbitrary hp : hprod (Model/HubAll.v); see Spec/C08_Sched_Gen_Spec.v. *)
(* C08, schedule part, 4: the refinement invariant.  The committed part of the serialisation (g_log), run_g
   on the serial machine, gives the hub, the pending events and — subscription by subscription — the
   state of the goroutines; the event in flight and the receives logged after it account for the rest. *)
From BV Require Import Base.Prelude Model.Block Model.ForkDB Model.Forkable Model.ForkableLookups
  Model.Burst Model.Hub Model.HubSubs Model.HubAll Model.HubSched Model.HubSchedG Spec.C08_Spec Spec.C08_Gen_Spec Spec.C08_Sched_Spec Spec.C08_Sched_Gen_Spec
  Proofs.C08_Abstract Proofs.C08G_SchedSerial Proofs.C08G_SchedInv Proofs.C08G_SchedReg.
Local Open Scope N_scope.

(* ---------------------------------------------------------------- positions *)

Lemma index_of_nth i : forall l, In i l -> nth_error l (index_of i l) = Some i.
Proof.
  induction l as [|j l IH]; intros H; [destruct H|]. cbn [index_of].
  destruct (Nat.eqb i j) eqn:E; [apply Nat.eqb_eq in E; subst; reflexivity|].
  destruct H as [H|H]; [subst; rewrite Nat.eqb_refl in E; discriminate|]. apply IH, H.
Qed.

Lemma index_of_app i : forall l l', In i l -> index_of i (l ++ l') = index_of i l.
Proof.
  induction l as [|j l IH]; intros l' H; [destruct H|]. cbn [index_of app].
  destruct (Nat.eqb i j) eqn:E; [reflexivity|].
  destruct H as [H|H]; [subst; rewrite Nat.eqb_refl in E; discriminate|]. rewrite IH by exact H. reflexivity.
Qed.

Lemma index_of_notin i : forall l, ~ In i l -> index_of i l = length l.
Proof.
  induction l as [|j l IH]; intros H; [reflexivity|]. cbn [index_of length].
  destruct (Nat.eqb i j) eqn:E; [apply Nat.eqb_eq in E; subst; exfalso; apply H; left; reflexivity|].
  rewrite IH; [reflexivity|]. intros Hin. apply H. right. exact Hin.
Qed.

Lemma nodup_index i : forall l p, NoDup l -> nth_error l p = Some i -> index_of i l = p.
Proof.
  induction l as [|j l IH]; intros p Hnd H; [destruct p; discriminate|].
  inversion Hnd as [|j' l' Hj Hl]; subst. cbn [index_of]. destruct p as [|p]; cbn [nth_error] in H.
  - inversion H; subst. rewrite Nat.eqb_refl. reflexivity.
  - destruct (Nat.eqb i j) eqn:E.
    + apply Nat.eqb_eq in E. subst. exfalso. apply Hj. apply nth_error_In in H. exact H.
    + rewrite (IH p Hl H). reflexivity.
Qed.

Lemma nodup_nth_inj {A} (l : list A) p q x :
  NoDup l -> nth_error l p = Some x -> nth_error l q = Some x -> p = q.
Proof.
  intros Hnd Hp Hq. rewrite NoDup_nth_error in Hnd. apply Hnd; [apply nth_error_Some; congruence | congruence].
Qed.

(* ---------------------------------------------------------------- receives only *)

Definition recvs_only (l : list xop) : Prop := forall o, In o l -> exists k, o = XRecv k.

Lemma recvs_only_run hp l : forall st, recvs_only l ->
  xvalid_g hp st l /\
  sh_hub (x_sh (xrun_g hp st l)) = sh_hub (x_sh st) /\
  x_pend (xrun_g hp st l) = x_pend st /\
  length (sh_subs (x_sh (xrun_g hp st l))) = length (sh_subs (x_sh st)) /\
  blocks l = [] /\ fans l = [].
Proof.
  induction l as [|o l IH]; intros st H; [cbn; auto 6|].
  destruct (H o (or_introl eq_refl)) as [k ->].
  assert (Hl : recvs_only l) by (intros o Ho; apply H; right; exact Ho).
  destruct (IH (xstep_g hp st (XRecv k)) Hl) as [H1 [H2 [H3 [H4 [H5 H6]]]]].
  rewrite xrun_cons. cbn [xvalid_g xok]. rewrite H2, H3, H4, xstep_hub, xstep_pend, xstep_nsubs.
  cbn [blocks fans flat_map app]. fold (blocks l). fold (fans l). auto 8.
Qed.

Lemma xview_exists st p : xwf st -> (p < length (sh_subs (x_sh st)))%nat -> exists v, xview st p = Some v.
Proof.
  unfold xwf, xview, view_at. intros Hw Hp.
  destruct (nth_error (sh_subs (x_sh st)) p) as [s|] eqn:Hs; [|apply nth_error_None in Hs; lia].
  destruct (nth_error (x_got st) p) as [g|] eqn:Hg; [|apply nth_error_None in Hg; lia].
  eexists. reflexivity.
Qed.

Lemma xview_lt st p v : xview st p = Some v -> (p < length (sh_subs (x_sh st)))%nat.
Proof.
  unfold xview, view_at. intros H. apply nth_error_Some. destruct (nth_error (sh_subs (x_sh st)) p); congruence.
Qed.

(* ---------------------------------------------------------------- the invariant *)

Section Refine.
  Variables (hp : hprod) (h0 : hub) (script : list block).

  Definition x0 : xstate := xstart (mkSH h0 []).
  Definition Cof (st : cstate) : xstate := xrun_g hp x0 (map snd (g_log st)).

  (* what happened to the subscription of requester i (position p) after the committed part *)
  Definition after (st : cstate) (i p : nat) : list lop :=
    match inflight st with
    | Some (e, todo) => if memb i todo then [] else LPush e :: lown p (map snd (g_tail st))
    | None => []
    end.

  Definition unprocessed (st : cstate) : list block :=
    match g_ppc st with PWait b | PLocked b => b :: g_script st | _ => g_script st end.

  Record SerInv (st : cstate) : Prop := mkSerInv {
    si_tail : inflight st = None -> g_tail st = [];
    si_valid : xvalid_g hp x0 (map snd (g_log st));
    si_hub : sh_hub (x_sh (Cof st)) = g_hub st;
    si_pend : x_pend (Cof st) = match inflight st with Some (e, _) => e :: pend_of st | None => pend_of st end;
    si_len : length (sh_subs (x_sh (Cof st))) = length (g_order st);
    si_view : forall p i, nth_error (g_order st) p = Some i ->
                exists v, xview (Cof st) p = Some v /\ lrun v (after st i p) = (sub_at st i, got_at st i);
    si_tshape : forall en, In en (g_tail st) ->
                exists j, en = (TCons j, XRecv (index_of j (g_order st))) /\ In j (g_order st) /\
                          forall e todo, inflight st = Some (e, todo) -> memb j todo = false;
    si_reg : forall p i, nth_error (g_order st) p = Some i ->
                exists c pre post burst,
                  nth_error (g_reqs st) i = Some c /\
                  map snd (g_log st) = pre ++ XSub (r_req c) :: post /\
                  length (sh_subs (x_sh (xrun_g hp x0 pre))) = p /\
                  request_burst (sh_hub (x_sh (xrun_g hp x0 pre))) (r_req c) = Some burst;
    si_script : script = blocks (map snd (g_log st)) ++ unprocessed st
  }.

  Lemma Cof_wf st : xwf (Cof st).
  Proof. apply xwf_run, xwf_start. Qed.

  Lemma ser_init reqs : SerInv (cinit h0 script reqs).
  Proof.
    constructor; cbn; try reflexivity; try exact I.
    - intros p i H. destruct p; discriminate.
    - intros en [].
    - intros p i H. destruct p; discriminate.
  Qed.

  (* a step_g that appends one entry to the committed part *)
  Lemma Cof_snoc st st' en : g_log st' = g_log st ++ [en] -> Cof st' = xstep_g hp (Cof st) (snd en).
  Proof. intros H. unfold Cof. rewrite H, map_app. cbn [map]. apply xrun_snoc. Qed.

  Lemma valid_snoc st st' en :
    g_log st' = g_log st ++ [en] -> xvalid_g hp x0 (map snd (g_log st)) -> xok (Cof st) (snd en) ->
    xvalid_g hp x0 (map snd (g_log st')).
  Proof.
    intros H Hv Hok. rewrite H, map_app. apply xvalid_app. split; [exact Hv|]. cbn [map xvalid_g]. auto.
  Qed.

  (* registration records survive any extension of the committed part *)
  Lemma reg_extend st st' ext :
    g_log st' = g_log st ++ ext ->
    (forall i c, nth_error (g_reqs st) i = Some c -> exists c', nth_error (g_reqs st') i = Some c' /\ r_req c' = r_req c) ->
    forall p i,
      (exists c pre post burst, nth_error (g_reqs st) i = Some c /\
         map snd (g_log st) = pre ++ XSub (r_req c) :: post /\
         length (sh_subs (x_sh (xrun_g hp x0 pre))) = p /\
         request_burst (sh_hub (x_sh (xrun_g hp x0 pre))) (r_req c) = Some burst) ->
      (exists c pre post burst, nth_error (g_reqs st') i = Some c /\
         map snd (g_log st') = pre ++ XSub (r_req c) :: post /\
         length (sh_subs (x_sh (xrun_g hp x0 pre))) = p /\
         request_burst (sh_hub (x_sh (xrun_g hp x0 pre))) (r_req c) = Some burst).
  Proof.
    intros Hl Hr p i [c [pre [post [burst [Hc [Hlog [Hlen Hb]]]]]]].
    destruct (Hr i c Hc) as [c' [Hc' Hreq]]. exists c', pre, (post ++ map snd ext), burst.
    rewrite Hreq. split; [exact Hc'|]. split; [|auto].
    rewrite Hl, map_app, Hlog, <- app_assoc. reflexivity.
  Qed.

  Lemma reqs_same_req st i c c' :
    nth_error (g_reqs st) i = Some c -> r_req c' = r_req c ->
    forall j cj, nth_error (g_reqs st) j = Some cj ->
      exists cj', nth_error (set_nth i c' (g_reqs st)) j = Some cj' /\ r_req cj' = r_req cj.
  Proof.
    intros Hc Hr j cj Hj. rewrite (rq_put _ _ _ _ _ Hc). destruct (Nat.eqb j i) eqn:Hji.
    - apply Nat.eqb_eq in Hji. subst j. rewrite Hc in Hj. inversion Hj; subst cj. exists c'. auto.
    - exists cj. auto.
  Qed.

  (* a step_g that leaves the serialisation and every registered subscription alone *)
  Lemma ser_same st st' :
    SerInv st ->
    g_log st' = g_log st -> g_tail st' = g_tail st -> g_order st' = g_order st -> g_hub st' = g_hub st ->
    inflight st' = inflight st -> pend_of st' = pend_of st -> unprocessed st' = unprocessed st ->
    (forall i, In i (g_order st) -> sub_at st' i = sub_at st i /\ got_at st' i = got_at st i) ->
    (forall i c, nth_error (g_reqs st) i = Some c -> exists c', nth_error (g_reqs st') i = Some c' /\ r_req c' = r_req c) ->
    SerInv st'.
  Proof.
    intros [S1 S2 S3 S4 S5 S6 S7 S8 S9] Hlog Htail Hord Hhub Hinf Hpend Hun Hsame Hreq.
    assert (HC : Cof st' = Cof st) by (unfold Cof; rewrite Hlog; reflexivity).
    assert (S8' : forall p i, nth_error (g_order st) p = Some i ->
                exists c pre post burst,
                  nth_error (g_reqs st') i = Some c /\
                  map snd (g_log st') = pre ++ XSub (r_req c) :: post /\
                  length (sh_subs (x_sh (xrun_g hp x0 pre))) = p /\
                  request_burst (sh_hub (x_sh (xrun_g hp x0 pre))) (r_req c) = Some burst).
    { intros p i Hp. apply (reg_extend st st' []); [rewrite Hlog, app_nil_r; reflexivity | exact Hreq|].
      apply (S8 p i Hp). }
    constructor; rewrite ?HC, ?Hlog, ?Htail, ?Hord, ?Hhub, ?Hinf, ?Hpend, ?Hun; try assumption.
    - intros p i Hp. destruct (S6 p i Hp) as [v [Hv Hr]]. exists v. split; [exact Hv|].
      unfold after. rewrite Hinf, Htail. fold (after st i p).
      destruct (Hsame i (nth_error_In _ _ Hp)) as [-> ->]. exact Hr.
    - rewrite <- Hlog. exact S8'.
  Qed.

  Lemma got_at_ext st st' j : g_reqs st' = g_reqs st -> got_at st' j = got_at st j.
  Proof. intros H. unfold got_at. rewrite H. reflexivity. Qed.

  Lemma reqs_eq_req st st' :
    g_reqs st' = g_reqs st ->
    forall i c, nth_error (g_reqs st) i = Some c -> exists c', nth_error (g_reqs st') i = Some c' /\ r_req c' = r_req c.
  Proof. intros H i c Hc. exists c. rewrite H. auto. Qed.

  (* ---- the Forkable's step_g: XBlock *)
  Lemma ser_block st st' b :
    SerInv st -> g_ppc st = PLocked b ->
    g_log st' = g_log st ++ [(TProd, XBlock b)] -> g_tail st' = g_tail st -> g_order st' = g_order st ->
    g_reqs st' = g_reqs st -> g_hub st' = fst (hp (g_hub st) b) ->
    g_ppc st' = PEvents (snd (hp (g_hub st) b)) -> g_script st' = g_script st ->
    SerInv st'.
  Proof.
    intros [S1 S2 S3 S4 S5 S6 S7 S8 S9] Hpc Hlog Htail Hord Hreqs Hhub Hpc' Hscr.
    pose proof (Cof_snoc st st' _ Hlog) as HC. cbn [snd] in HC. rewrite xstep_block, S3 in HC.
    assert (Hinf : inflight st = None) by (unfold inflight; rewrite Hpc; reflexivity).
    assert (Hinf' : inflight st' = None) by (unfold inflight; rewrite Hpc'; reflexivity).
    rewrite Hinf in S4. unfold pend_of in S4. rewrite Hpc in S4.
    constructor.
    - intros _. rewrite Htail. apply S1, Hinf.
    - apply (valid_snoc st st' _ Hlog S2). cbn [snd xok]. exact S4.
    - rewrite HC, Hhub. reflexivity.
    - rewrite HC, Hinf'. unfold pend_of. rewrite Hpc'. cbn [x_pend]. rewrite S4. reflexivity.
    - rewrite HC, Hord. cbn [x_sh sh_subs]. exact S5.
    - intros p i Hp. rewrite Hord in Hp. destruct (S6 p i Hp) as [v [Hv Hr]]. exists v.
      unfold after in *. rewrite Hinf in Hr. rewrite Hinf'. split.
      + rewrite (Cof_snoc st st' _ Hlog). rewrite (xview_step hp _ _ _ _ Hv). reflexivity.
      + rewrite (sub_at_ext st st' i Hreqs), (got_at_ext st st' i Hreqs). exact Hr.
    - rewrite Htail, (S1 Hinf). intros en [].
    - intros p i Hp. rewrite Hord in Hp. apply (reg_extend st st' _ Hlog (reqs_eq_req st st' Hreqs)). apply (S8 p i Hp).
    - rewrite Hlog, map_app, blocks_app. cbn [map snd blocks flat_map app]. rewrite <- app_assoc. cbn [app].
      unfold unprocessed in *. rewrite Hpc', Hscr. rewrite Hpc in S9. exact S9.
  Qed.

  Lemma inflight_none_pcs st :
    in_write_cs st = false -> inflight st = None /\ pend_of st = [].
  Proof. unfold in_write_cs, inflight, pend_of. destruct (g_ppc st); try discriminate; auto. Qed.

  (* ---- processBlock takes its snapshot of the subscriber list *)
  Lemma ser_snapshot st st' e evs :
    RegInv st -> SerInv st -> g_ppc st = PEvents (e :: evs) -> g_ppc st' = PFan e (g_subs st) evs ->
    g_log st' = g_log st -> g_tail st' = g_tail st -> g_order st' = g_order st ->
    g_reqs st' = g_reqs st -> g_hub st' = g_hub st -> g_script st' = g_script st ->
    SerInv st'.
  Proof.
    intros R [S1 S2 S3 S4 S5 S6 S7 S8 S9] Hpc Hpc' Hlog Htail Hord Hreqs Hhub Hscr.
    assert (HC : Cof st' = Cof st) by (unfold Cof; rewrite Hlog; reflexivity).
    assert (Hinf : inflight st = None) by (unfold inflight; rewrite Hpc; reflexivity).
    assert (Hinf' : inflight st' = Some (e, g_subs st)) by (unfold inflight; rewrite Hpc'; reflexivity).
    assert (Ht : g_tail st = []) by (apply S1, Hinf).
    rewrite Hinf in S4. unfold pend_of in S4. rewrite Hpc in S4.
    constructor.
    - rewrite Hinf'. discriminate.
    - rewrite Hlog. exact S2.
    - rewrite HC, Hhub. exact S3.
    - rewrite HC, Hinf'. unfold pend_of. rewrite Hpc'. exact S4.
    - rewrite HC, Hord. exact S5.
    - intros p i Hp. rewrite Hord in Hp. destruct (S6 p i Hp) as [v [Hv Hr]]. exists v. rewrite HC.
      split; [exact Hv|]. unfold after in *. rewrite Hinf in Hr. rewrite Hinf', Htail, Ht.
      rewrite (sub_at_ext st st' i Hreqs), (got_at_ext st st' i Hreqs). cbn [lrun fold_left] in Hr. subst v.
      destruct (memb i (g_subs st)) eqn:Hm; [reflexivity|]. cbn [map lown flat_map lrun fold_left lstep fst snd].
      f_equal. apply memb_false in Hm. rewrite (ri_subs _ R) in Hm.
      assert (Hk : keeps st i = false).
      { destruct (keeps st i) eqn:Hk; [|reflexivity]. exfalso. apply Hm. apply filter_In. split; [|exact Hk].
        apply (nth_error_In _ _ Hp). }
      unfold keeps in Hk. apply orb_false_iff in Hk. destruct Hk as [Hk _]. apply negb_false_iff in Hk.
      unfold sub_push. rewrite Hk. reflexivity.
    - rewrite Htail, Ht. intros en [].
    - intros p i Hp. rewrite Hord in Hp. apply (reg_extend st st' []); [rewrite Hlog, app_nil_r; reflexivity | apply reqs_eq_req, Hreqs|].
      apply (S8 p i Hp).
    - rewrite Hlog. unfold unprocessed in *. rewrite Hpc', Hscr. rewrite Hpc in S9. exact S9.
  Qed.

  Lemma tail_recvs st : SerInv st -> recvs_only (map snd (g_tail st)).
  Proof.
    intros S o Ho. apply in_map_iff in Ho. destruct Ho as [en [<- Hen]].
    destruct (si_tshape _ S en Hen) as [j [-> _]]. eexists. reflexivity.
  Qed.

  (* the receives logged after the event in flight do not concern a subscription still to be offered it *)
  Lemma tail_lown_nil st e todo p i :
    RegInv st -> SerInv st -> inflight st = Some (e, todo) -> nth_error (g_order st) p = Some i ->
    memb i todo = true -> lown p (map snd (g_tail st)) = [].
  Proof.
    intros R S Hinf Hp Hm.
    assert (H : forall l, (forall en, In en l -> In en (g_tail st)) -> lown p (map snd l) = []).
    { induction l as [|en l IH]; intros Hsub; [reflexivity|]. cbn [map]. rewrite lown_cons.
      rewrite IH by (intros en' H'; apply Hsub; right; exact H'). rewrite app_nil_r.
      destruct (si_tshape _ S en (Hsub en (or_introl eq_refl))) as [j [-> [Hj Hno]]]. cbn [snd lown1].
      destruct (Nat.eqb (index_of j (g_order st)) p) eqn:E; [|reflexivity]. exfalso.
      apply Nat.eqb_eq in E. pose proof (index_of_nth j _ Hj) as Hn. rewrite E, Hp in Hn. inversion Hn; subst j.
      rewrite (Hno e todo Hinf) in Hm. discriminate. }
    apply H. auto.
  Qed.

  (* ---- processBlock returns: XFan e is committed, with the receives logged after it *)
  Lemma ser_fan_end st st' e evs :
    RegInv st -> SerInv st -> g_ppc st = PFan e [] evs -> g_ppc st' = PEvents evs ->
    g_log st' = g_log st ++ (TProd, XFan e) :: g_tail st -> g_tail st' = [] -> g_order st' = g_order st ->
    g_reqs st' = g_reqs st -> g_hub st' = g_hub st -> g_script st' = g_script st ->
    SerInv st'.
  Proof.
    intros R S Hpc Hpc' Hlog Htail Hord Hreqs Hhub Hscr.
    pose proof (tail_recvs st S) as Hro.
    destruct S as [S1 S2 S3 S4 S5 S6 S7 S8 S9].
    assert (Hinf : inflight st = Some (e, [])) by (unfold inflight; rewrite Hpc; reflexivity).
    assert (Hinf' : inflight st' = None) by (unfold inflight; rewrite Hpc'; reflexivity).
    rewrite Hinf in S4. unfold pend_of in S4. rewrite Hpc in S4.
    assert (HC : Cof st' = xrun_g hp (xstep_g hp (Cof st) (XFan e)) (map snd (g_tail st))).
    { unfold Cof. rewrite Hlog, map_app, xrun_app. reflexivity. }
    destruct (recvs_only_run hp _ (xstep_g hp (Cof st) (XFan e)) Hro) as [Hv [Hh [Hp [Hn [Hb Hf]]]]].
    rewrite <- HC in Hh, Hp, Hn. rewrite xstep_hub in Hh. rewrite xstep_pend in Hp. rewrite xstep_nsubs in Hn.
    constructor.
    - intros _. exact Htail.
    - rewrite Hlog, map_app. apply xvalid_app. split; [exact S2|]. cbn [map snd xvalid_g xok].
      split; [exists evs; exact S4 | exact Hv].
    - rewrite Hh, Hhub. exact S3.
    - rewrite Hp, Hinf', S4. unfold pend_of. rewrite Hpc'. reflexivity.
    - rewrite Hn, Hord. exact S5.
    - intros p i Hpi. rewrite Hord in Hpi. destruct (S6 p i Hpi) as [v [Hv' Hr]].
      unfold after in *. rewrite Hinf in Hr. cbn [memb existsb] in Hr. rewrite Hinf'.
      exists (lrun v (LPush e :: lown p (map snd (g_tail st)))). split.
      + unfold Cof. rewrite Hlog, map_app, xrun_app. rewrite (xview_run hp _ _ _ _ Hv'). reflexivity.
      + rewrite (sub_at_ext st st' i Hreqs), (got_at_ext st st' i Hreqs). exact Hr.
    - rewrite Htail. intros en [].
    - intros p i Hpi. rewrite Hord in Hpi. apply (reg_extend st st' _ Hlog (reqs_eq_req st st' Hreqs)). apply (S8 p i Hpi).
    - rewrite Hlog, map_app, blocks_app. cbn [map snd]. change (XFan e :: map snd (g_tail st)) with ([XFan e] ++ map snd (g_tail st)).
      rewrite blocks_app, Hb. cbn [blocks flat_map app]. rewrite app_nil_r.
      unfold unprocessed in *. rewrite Hpc', Hscr. rewrite Hpc in S9. exact S9.
  Qed.

  (* ---- sub.push(e) on the next subscription of the snapshot *)
  Lemma ser_push st st' e k todo evs c s :
    RegInv st -> SerInv st -> g_ppc st = PFan e (k :: todo) evs ->
    nth_error (g_reqs st) k = Some c -> r_sub c = Some s ->
    g_reqs st' = set_nth k (set_rsub c (sub_push s e)) (g_reqs st) ->
    inflight st' = Some (e, todo) -> pend_of st' = evs -> unprocessed st' = unprocessed st ->
    g_log st' = g_log st -> g_tail st' = g_tail st -> g_order st' = g_order st -> g_hub st' = g_hub st ->
    SerInv st'.
  Proof.
    intros R S Hpc Hc Hs Hreqs Hinf' Hpend' Hun Hlog Htail Hord Hhub.
    assert (Hinf : inflight st = Some (e, k :: todo)) by (unfold inflight; rewrite Hpc; reflexivity).
    pose proof (ri_fan _ R) as Hfan. unfold fan_ok in Hfan. rewrite Hpc in Hfan. destruct Hfan as [Hnd Hsub].
    inversion Hnd as [|k' todo' Hnotin Hnd']; subst k' todo'.
    pose proof (tail_lown_nil st e (k :: todo)) as Hnil.
    destruct S as [S1 S2 S3 S4 S5 S6 S7 S8 S9].
    assert (S : SerInv st) by (constructor; assumption).
    assert (HC : Cof st' = Cof st) by (unfold Cof; rewrite Hlog; reflexivity).
    assert (Hsa : forall j, sub_at st' j = if Nat.eqb j k then sub_push s e else sub_at st j).
    { intros j. unfold sub_at at 1. rewrite Hreqs, (rq_put _ _ _ _ _ Hc). destruct (Nat.eqb j k); reflexivity. }
    assert (Hga : forall j, got_at st' j = got_at st j).
    { intros j. unfold got_at at 1. rewrite Hreqs, (rq_put _ _ _ _ _ Hc). destruct (Nat.eqb j k) eqn:E; [|reflexivity].
      apply Nat.eqb_eq in E. subst j. unfold got_at. rewrite Hc. reflexivity. }
    rewrite Hinf in S4. unfold pend_of in S4. rewrite Hpc in S4.
    constructor.
    - rewrite Hinf'. discriminate.
    - rewrite Hlog. exact S2.
    - rewrite HC, Hhub. exact S3.
    - rewrite HC, Hinf', Hpend'. exact S4.
    - rewrite HC, Hord. exact S5.
    - intros p i Hp. rewrite Hord in Hp. destruct (S6 p i Hp) as [v [Hv Hr]]. exists v. rewrite HC.
      split; [exact Hv|]. unfold after in *. rewrite Hinf in Hr. rewrite Hinf', Htail, Hsa, Hga.
      cbn [memb existsb] in Hr. destruct (Nat.eqb i k) eqn:Hik.
      + apply Nat.eqb_eq in Hik. subst i. cbn [orb] in Hr.
        assert (Hm : memb k todo = false) by (apply memb_false; exact Hnotin). rewrite Hm.
        rewrite (Hnil p k R S Hinf Hp) by (cbn [memb existsb]; rewrite Nat.eqb_refl; reflexivity).
        cbn [lrun fold_left] in *. subst v. cbn [lstep fst snd].
        unfold sub_at. rewrite Hc, Hs. reflexivity.
      + cbn [orb] in Hr. exact Hr.
    - rewrite Htail, Hord. intros en Hen. destruct (S7 en Hen) as [j [He [Hj Hno]]]. exists j.
      split; [exact He|]. split; [exact Hj|]. intros e' todo' Hi. rewrite Hinf' in Hi. inversion Hi; subst e' todo'.
      specialize (Hno e (k :: todo) Hinf). cbn [memb existsb] in Hno. apply orb_false_iff in Hno. apply Hno.
    - intros p i Hp. rewrite Hord in Hp. apply (reg_extend st st' []); [rewrite Hlog, app_nil_r; reflexivity | |apply (S8 p i Hp)].
      rewrite Hreqs. apply (reqs_same_req st k c); [exact Hc | reflexivity].
    - rewrite Hlog, Hun. exact S9.
  Qed.

  (* ---- a step_g that changes the record of one requester, not its subscription nor what it received *)
  Lemma ser_rec st st' i c c' :
    SerInv st -> nth_error (g_reqs st) i = Some c -> g_reqs st' = set_nth i c' (g_reqs st) ->
    r_req c' = r_req c -> (In i (g_order st) -> r_sub c' = r_sub c /\ r_got c' = r_got c) ->
    g_log st' = g_log st -> g_tail st' = g_tail st -> g_order st' = g_order st -> g_hub st' = g_hub st ->
    g_ppc st' = g_ppc st -> g_script st' = g_script st ->
    SerInv st'.
  Proof.
    intros S Hc Hreqs Hreq Hsame Hlog Htail Hord Hhub Hppc Hscr.
    apply (ser_same st st' S Hlog Htail Hord Hhub).
    - unfold inflight. rewrite Hppc. reflexivity.
    - unfold pend_of. rewrite Hppc. reflexivity.
    - unfold unprocessed. rewrite Hppc, Hscr. reflexivity.
    - intros j Hj. unfold sub_at, got_at. rewrite Hreqs, (rq_put _ _ _ _ _ Hc). destruct (Nat.eqb j i) eqn:E; [|auto].
      apply Nat.eqb_eq in E. subst j. destruct (Hsame Hj) as [-> ->]. rewrite Hc. auto.
    - rewrite Hreqs. apply (reqs_same_req st i c); assumption.
  Qed.

  (* ---- a request answered "no source": XSub, which changes nothing *)
  Lemma ser_refused st st' i c :
    SerInv st -> nth_error (g_reqs st) i = Some c -> in_write_cs st = false ->
    request_burst (g_hub st) (r_req c) = None ->
    g_reqs st' = set_nth i (set_rpc c RUnlocking) (g_reqs st) ->
    g_log st' = g_log st ++ [(TReq i, XSub (r_req c))] -> g_tail st' = g_tail st -> g_order st' = g_order st ->
    g_hub st' = g_hub st -> g_ppc st' = g_ppc st -> g_script st' = g_script st ->
    SerInv st'.
  Proof.
    intros [S1 S2 S3 S4 S5 S6 S7 S8 S9] Hc Hnw Hb Hreqs Hlog Htail Hord Hhub Hppc Hscr.
    destruct (inflight_none_pcs st Hnw) as [Hinf Hpend]. rewrite Hinf, Hpend in S4.
    assert (Hinf' : inflight st' = None) by (unfold inflight; rewrite Hppc; exact Hinf).
    assert (HC : Cof st' = Cof st).
    { rewrite (Cof_snoc st st' _ Hlog). cbn [snd]. apply xstep_sub_none. rewrite S3. exact Hb. }
    assert (Hsa : forall j, sub_at st' j = sub_at st j /\ got_at st' j = got_at st j).
    { intros j. unfold sub_at, got_at. rewrite Hreqs, (rq_put _ _ _ _ _ Hc). destruct (Nat.eqb j i) eqn:E; [|auto].
      apply Nat.eqb_eq in E. subst j. rewrite Hc. auto. }
    constructor.
    - intros _. rewrite Htail. apply S1, Hinf.
    - apply (valid_snoc st st' _ Hlog S2). cbn [snd xok]. exact S4.
    - rewrite HC, Hhub. exact S3.
    - rewrite HC, Hinf'. unfold pend_of. rewrite Hppc. fold (pend_of st). rewrite Hpend. exact S4.
    - rewrite HC, Hord. exact S5.
    - intros p j Hp. rewrite Hord in Hp. destruct (S6 p j Hp) as [v [Hv Hr]]. exists v. rewrite HC.
      split; [exact Hv|]. unfold after in *. rewrite Hinf in Hr. rewrite Hinf'.
      destruct (Hsa j) as [-> ->]. exact Hr.
    - rewrite Htail, (S1 Hinf). intros en [].
    - intros p j Hp. rewrite Hord in Hp. apply (reg_extend st st' _ Hlog); [|apply (S8 p j Hp)].
      rewrite Hreqs. apply (reqs_same_req st i c); [exact Hc | reflexivity].
    - rewrite Hlog, map_app, blocks_app. cbn [map snd blocks flat_map]. rewrite app_nil_r.
      unfold unprocessed in *. rewrite Hppc, Hscr. exact S9.
  Qed.

  (* ---- the append to h.subscribers: XSub *)
  Lemma ser_append st st' i c c' burst :
    SerInv st -> nth_error (g_reqs st) i = Some c -> in_write_cs st = false ->
    request_burst (g_hub st) (r_req c) = Some burst -> r_sub c = Some (new_sub burst) -> r_got c = [] ->
    r_req c' = r_req c -> r_sub c' = r_sub c -> r_got c' = r_got c ->
    g_reqs st' = set_nth i c' (g_reqs st) ->
    g_log st' = g_log st ++ [(TReq i, XSub (r_req c))] -> g_tail st' = g_tail st -> g_order st' = g_order st ++ [i] ->
    g_hub st' = g_hub st -> g_ppc st' = g_ppc st -> g_script st' = g_script st ->
    SerInv st'.
  Proof.
    intros [S1 S2 S3 S4 S5 S6 S7 S8 S9] Hc Hnw Hb Hs Hg Hreq' Hsub' Hgot' Hreqs Hlog Htail Hord Hhub Hppc Hscr.
    destruct (inflight_none_pcs st Hnw) as [Hinf Hpend]. rewrite Hinf, Hpend in S4.
    assert (Hinf' : inflight st' = None) by (unfold inflight; rewrite Hppc; exact Hinf).
    assert (Hb' : request_burst (sh_hub (x_sh (Cof st))) (r_req c) = Some burst) by (rewrite S3; exact Hb).
    assert (HC : Cof st' = xstep_g hp (Cof st) (XSub (r_req c))) by (apply (Cof_snoc st st' _ Hlog)).
    assert (Hsa : forall j, sub_at st' j = sub_at st j /\ got_at st' j = got_at st j).
    { intros j. unfold sub_at, got_at. rewrite Hreqs, (rq_put _ _ _ _ _ Hc). destruct (Nat.eqb j i) eqn:E; [|auto].
      apply Nat.eqb_eq in E. subst j. rewrite Hc, Hsub', Hgot'. auto. }
    constructor.
    - intros _. rewrite Htail. apply S1, Hinf.
    - apply (valid_snoc st st' _ Hlog S2). cbn [snd xok]. exact S4.
    - rewrite HC, xstep_hub, Hhub. exact S3.
    - rewrite HC, xstep_pend, Hinf'. unfold pend_of. rewrite Hppc. fold (pend_of st). rewrite Hpend. exact S4.
    - rewrite HC, xstep_nsubs, Hb', Hord, app_length, S5. cbn [length]. lia.
    - intros p j Hp. rewrite Hord in Hp. rewrite nth_error_snoc in Hp.
      unfold after. rewrite Hinf'. destruct (Hsa j) as [-> ->].
      destruct (Nat.ltb p (length (g_order st))) eqn:Hlt.
      + destruct (S6 p j Hp) as [v [Hv Hr]]. exists v. split.
        * rewrite HC, (xview_step hp _ _ _ _ Hv). reflexivity.
        * unfold after in Hr. rewrite Hinf in Hr. exact Hr.
      + destruct (Nat.eqb p (length (g_order st))) eqn:Heq; [|discriminate]. inversion Hp; subst j.
        apply Nat.eqb_eq in Heq. subst p. exists (new_sub burst, []). split.
        * rewrite HC, <- S5. apply xview_new; [apply Cof_wf | exact Hb'].
        * cbn [lrun fold_left]. unfold sub_at, got_at. rewrite Hc, Hs, Hg. reflexivity.
    - rewrite Htail, (S1 Hinf). intros en [].
    - intros p j Hp. rewrite Hord in Hp. rewrite nth_error_snoc in Hp.
      destruct (Nat.ltb p (length (g_order st))) eqn:Hlt.
      + apply (reg_extend st st' _ Hlog); [|apply (S8 p j Hp)].
        rewrite Hreqs. apply (reqs_same_req st i c); assumption.
      + destruct (Nat.eqb p (length (g_order st))) eqn:Heq; [|discriminate]. inversion Hp; subst j.
        apply Nat.eqb_eq in Heq. subst p. exists c', (map snd (g_log st)), [], burst.
        rewrite Hreqs, (rq_put _ _ _ _ _ Hc), Nat.eqb_refl, Hreq'. split; [reflexivity|].
        split; [rewrite Hlog, map_app; reflexivity|]. fold (Cof st). auto.
    - rewrite Hlog, map_app, blocks_app. cbn [map snd blocks flat_map]. rewrite app_nil_r.
      unfold unprocessed in *. rewrite Hppc, Hscr. exact S9.
  Qed.

  (* ---- a receive *)
  Lemma recv_views st st' i c s x q :
    nth_error (g_reqs st) i = Some c -> r_sub c = Some s -> ms_queue s = x :: q ->
    g_reqs st' = set_nth i (recv_req c s x q) (g_reqs st) ->
    (sub_at st' i, got_at st' i) = lstep (sub_at st i, got_at st i) LRecv /\
    forall j, j <> i -> sub_at st' j = sub_at st j /\ got_at st' j = got_at st j.
  Proof.
    intros Hc Hs Hq Hreqs. split.
    - unfold sub_at, got_at. rewrite Hreqs, (rq_put _ _ _ _ _ Hc), Nat.eqb_refl, Hc, Hs.
      cbn [recv_req r_sub r_got lstep]. unfold sub_recv. cbn [fst snd]. rewrite Hq. reflexivity.
    - intros j Hj. apply Nat.eqb_neq in Hj. unfold sub_at, got_at. rewrite Hreqs, (rq_put _ _ _ _ _ Hc), Hj. auto.
  Qed.

  (* ... committed at once: no event in flight, or the subscription has not been offered it yet *)
  Lemma ser_recv_log st st' i c s x q :
    RegInv st -> SerInv st ->
    nth_error (g_reqs st) i = Some c -> r_pc c = RDone -> r_sub c = Some s -> ms_queue s = x :: q ->
    (forall e todo, inflight st = Some (e, todo) -> memb i todo = true) ->
    g_reqs st' = set_nth i (recv_req c s x q) (g_reqs st) ->
    g_log st' = g_log st ++ [(TCons i, XRecv (index_of i (g_order st)))] -> g_tail st' = g_tail st ->
    g_order st' = g_order st -> g_hub st' = g_hub st -> g_ppc st' = g_ppc st -> g_script st' = g_script st ->
    SerInv st'.
  Proof.
    intros R [S1 S2 S3 S4 S5 S6 S7 S8 S9] Hc Hpc Hs Hq Hin Hreqs Hlog Htail Hord Hhub Hppc Hscr.
    assert (Hio : In i (g_order st)).
    { apply (ri_order _ R). exists c. split; [exact Hc|]. unfold registered, linearized. rewrite Hpc, Hs. reflexivity. }
    set (p := index_of i (g_order st)) in *.
    assert (Hp : nth_error (g_order st) p = Some i) by (apply index_of_nth, Hio).
    assert (Hinf' : inflight st' = inflight st) by (unfold inflight; rewrite Hppc; reflexivity).
    assert (HC : Cof st' = xstep_g hp (Cof st) (XRecv p)) by (apply (Cof_snoc st st' _ Hlog)).
    destruct (recv_views st st' i c s x q Hc Hs Hq Hreqs) as [Hme Hoth].
    constructor.
    - rewrite Hinf', Htail. exact S1.
    - apply (valid_snoc st st' _ Hlog S2). exact I.
    - rewrite HC, xstep_hub, Hhub. exact S3.
    - rewrite HC, xstep_pend, Hinf'. unfold pend_of. rewrite Hppc. exact S4.
    - rewrite HC, xstep_nsubs, Hord. exact S5.
    - intros p' j Hp'. rewrite Hord in Hp'. destruct (S6 p' j Hp') as [v [Hv Hr]].
      exists (lrun v (lown1 p' (XRecv p))). split; [rewrite HC; apply xview_step; exact Hv|].
      unfold after in *. rewrite Hinf', Htail. cbn [lown1].
      destruct (Nat.eq_dec j i) as [->|Hji].
      + assert (p' = p) by (apply (nodup_nth_inj _ _ _ _ (ri_nodup _ R) Hp' Hp)). subst p'.
        rewrite Nat.eqb_refl. rewrite Hme.
        destruct (inflight st) as [[e todo]|] eqn:Hinf.
        * rewrite (Hin e todo eq_refl) in *. cbn [lrun fold_left] in *. rewrite Hr. reflexivity.
        * cbn [lrun fold_left] in *. rewrite Hr. reflexivity.
      + assert (Hpp : Nat.eqb p p' = false).
        { apply Nat.eqb_neq. intros ->. rewrite Hp in Hp'. congruence. }
        rewrite Hpp. cbn [lrun fold_left]. destruct (Hoth j Hji) as [-> ->]. exact Hr.
    - rewrite Htail, Hord, Hinf'. exact S7.
    - intros p' j Hp'. rewrite Hord in Hp'. apply (reg_extend st st' _ Hlog); [|apply (S8 p' j Hp')].
      rewrite Hreqs. apply (reqs_same_req st i c); [exact Hc | reflexivity].
    - rewrite Hlog, map_app, blocks_app. cbn [map snd blocks flat_map]. rewrite app_nil_r.
      unfold unprocessed in *. rewrite Hppc, Hscr. exact S9.
  Qed.

  (* ... logged after the event in flight: the subscription has been offered it already *)
  Lemma ser_recv_tail st st' i c s x q e todo :
    RegInv st -> SerInv st ->
    nth_error (g_reqs st) i = Some c -> r_pc c = RDone -> r_sub c = Some s -> ms_queue s = x :: q ->
    inflight st = Some (e, todo) -> memb i todo = false ->
    g_reqs st' = set_nth i (recv_req c s x q) (g_reqs st) ->
    g_log st' = g_log st -> g_tail st' = g_tail st ++ [(TCons i, XRecv (index_of i (g_order st)))] ->
    g_order st' = g_order st -> g_hub st' = g_hub st -> g_ppc st' = g_ppc st -> g_script st' = g_script st ->
    SerInv st'.
  Proof.
    intros R [S1 S2 S3 S4 S5 S6 S7 S8 S9] Hc Hpc Hs Hq Hinf Hm Hreqs Hlog Htail Hord Hhub Hppc Hscr.
    assert (Hio : In i (g_order st)).
    { apply (ri_order _ R). exists c. split; [exact Hc|]. unfold registered, linearized. rewrite Hpc, Hs. reflexivity. }
    set (p := index_of i (g_order st)) in *.
    assert (Hp : nth_error (g_order st) p = Some i) by (apply index_of_nth, Hio).
    assert (Hinf' : inflight st' = inflight st) by (unfold inflight; rewrite Hppc; reflexivity).
    assert (HC : Cof st' = Cof st) by (unfold Cof; rewrite Hlog; reflexivity).
    destruct (recv_views st st' i c s x q Hc Hs Hq Hreqs) as [Hme Hoth].
    constructor.
    - rewrite Hinf', Hinf. discriminate.
    - rewrite Hlog. exact S2.
    - rewrite HC, Hhub. exact S3.
    - rewrite HC, Hinf'. unfold pend_of. rewrite Hppc. exact S4.
    - rewrite HC, Hord. exact S5.
    - intros p' j Hp'. rewrite Hord in Hp'. destruct (S6 p' j Hp') as [v [Hv Hr]].
      exists v. split; [rewrite HC; exact Hv|].
      unfold after in *. rewrite Hinf', Htail. rewrite Hinf in *. rewrite map_app, lown_app. cbn [map snd lown flat_map].
      rewrite app_nil_r.
      destruct (Nat.eq_dec j i) as [->|Hji].
      + assert (p' = p) by (apply (nodup_nth_inj _ _ _ _ (ri_nodup _ R) Hp' Hp)). subst p'.
        rewrite Nat.eqb_refl. rewrite Hm in *. rewrite Hme.
        change (LPush e :: lown p (map snd (g_tail st)) ++ [LRecv]) with ((LPush e :: lown p (map snd (g_tail st))) ++ [LRecv]).
        rewrite lrun_app, Hr. reflexivity.
      + assert (Hpp : Nat.eqb p p' = false).
        { apply Nat.eqb_neq. intros ->. rewrite Hp in Hp'. congruence. }
        rewrite Hpp, app_nil_r. destruct (Hoth j Hji) as [-> ->]. exact Hr.
    - rewrite Htail, Hord, Hinf', Hinf. intros en Hen. apply in_app_iff in Hen. destruct Hen as [Hen|[<-|[]]].
      + destruct (S7 en Hen) as [j [He [Hj Hno]]]. exists j. split; [exact He|]. split; [exact Hj|].
        intros e' todo' Hi. apply (Hno e' todo'). rewrite Hinf. exact Hi.
      + exists i. split; [reflexivity|]. split; [exact Hio|]. intros e' todo' Hi. inversion Hi; subst. exact Hm.
    - intros p' j Hp'. rewrite Hord in Hp'. apply (reg_extend st st' []); [rewrite Hlog, app_nil_r; reflexivity | |apply (S8 p' j Hp')].
      rewrite Hreqs. apply (reqs_same_req st i c); [exact Hc | reflexivity].
    - rewrite Hlog. unfold unprocessed in *. rewrite Hppc, Hscr. exact S9.
  Qed.

  (* ---------------------------------------------------------------- every step_g *)

  Lemma not_registered_not_in st i c :
    RegInv st -> nth_error (g_reqs st) i = Some c -> linearized c = false -> ~ In i (g_order st).
  Proof.
    intros R Hc Hl Hin. apply (ri_order _ R) in Hin. destruct Hin as [c0 [Hc0 Hreg]].
    rewrite Hc in Hc0. inversion Hc0; subst c0. unfold registered in Hreg. rewrite Hl in Hreg. discriminate.
  Qed.

  Lemma ser_step_prod st : LockInv st -> RegInv st -> SerInv st -> SerInv (prod_step_g true hp st).
  Proof.
    intros L R S. unfold prod_step_g.
    destruct (g_ppc st) as [|b|b|evs|e todo evs|e k todo evs] eqn:Hpc.
    - destruct (g_script st) as [|b rest] eqn:Hscr; [exact S|].
      apply (ser_same st); try reflexivity; try exact S.
      + unfold inflight. simp_st. rewrite Hpc. reflexivity.
      + unfold pend_of. simp_st. rewrite Hpc. reflexivity.
      + unfold unprocessed. simp_st. rewrite Hpc, Hscr. reflexivity.
      + intros i _. auto.
      + intros i c Hc. exists c. auto.
    - destruct (Nat.eqb (g_readers st) 0); [|exact S].
      apply (ser_same st); try reflexivity; try exact S.
      + unfold inflight. simp_st. rewrite Hpc. reflexivity.
      + unfold pend_of. simp_st. rewrite Hpc. reflexivity.
      + unfold unprocessed. simp_st. rewrite Hpc. reflexivity.
      + intros i _. auto.
      + intros i c Hc. exists c. auto.
    - rewrite (hub_push_live hp (g_hub st) b). apply (ser_block st _ b S Hpc); reflexivity.
    - destruct evs as [|e evs].
      + apply (ser_same st); try reflexivity; try exact S.
        * unfold inflight. simp_st. rewrite Hpc. reflexivity.
        * unfold pend_of. simp_st. rewrite Hpc. reflexivity.
        * unfold unprocessed. simp_st. rewrite Hpc. reflexivity.
        * intros i _. auto.
        * intros i c Hc. exists c. auto.
      + destruct (mutex_free true st); [|exact S]. apply (ser_snapshot st _ e evs R S Hpc); reflexivity.
    - destruct todo as [|k todo].
      + apply (ser_fan_end st _ e evs R S Hpc); reflexivity.
      + (* the subscription pushed to exists, is registered and not dropped *)
        assert (Hw : g_writer st = true) by (apply writer_of_pc; [exact L | unfold in_write_cs; rewrite Hpc; reflexivity]).
        pose proof (ri_fan _ R) as Hfan. unfold fan_ok in Hfan. rewrite Hpc in Hfan. destruct Hfan as [_ Hsub].
        assert (Hk : In k (g_subs st)) by (apply Hsub; left; reflexivity).
        rewrite (ri_subs _ R) in Hk. apply filter_In in Hk. destruct Hk as [Hko Hkk].
        apply (ri_order _ R) in Hko. destruct Hko as [c [Hc Hreg]].
        unfold keeps in Hkk. rewrite Hpc, orb_false_r in Hkk. apply negb_true_iff in Hkk.
        unfold registered in Hreg. apply andb_true_iff in Hreg. destruct Hreg as [_ Hsome].
        rewrite Hc. destruct (r_sub c) as [s|] eqn:Hs; [|discriminate].
        assert (Hd : ms_dropped s = false) by (unfold sub_at in Hkk; rewrite Hc, Hs in Hkk; exact Hkk).
        destruct (N.of_nat (length (ms_queue s)) =? ms_cap s) eqn:Hfull.
        * apply (ser_push st _ e k todo evs c s R S Hpc Hc Hs); try reflexivity;
            [simp_st; unfold sub_push; rewrite Hd, Hfull; reflexivity
            | unfold unprocessed; simp_st; rewrite Hpc; reflexivity].
        * apply (ser_push st _ e k todo evs c s R S Hpc Hc Hs); try reflexivity;
            [simp_st; unfold sub_push; rewrite Hd, Hfull; reflexivity
            | unfold unprocessed; simp_st; rewrite Hpc; reflexivity].
    - destruct (mutex_free true st); [|exact S].
      apply (ser_same st); try reflexivity; try exact S.
      + unfold inflight. simp_st. rewrite Hpc. reflexivity.
      + unfold pend_of. simp_st. rewrite Hpc. reflexivity.
      + unfold unprocessed. simp_st. rewrite Hpc. reflexivity.
      + intros i _. auto.
      + intros i c Hc. exists c. auto.
  Qed.

  Lemma ser_step_req st i : LockInv st -> RegInv st -> SerInv st -> SerInv (req_step true st i).
  Proof.
    intros L R S. unfold req_step. destruct (nth_error (g_reqs st) i) as [c|] eqn:Hc; [|exact S].
    pose proof (ri_rec _ R i c Hc) as Hrec. unfold rec_ok in Hrec.
    destruct (r_pc c) as [| | | |snap| | |] eqn:Hpc.
    - destruct (negb (g_writer st) && negb (g_wpend st)); [|exact S].
      apply (ser_rec st _ i c (set_rpc c RLocked) S Hc); try reflexivity. auto.
    - assert (Hnw : in_write_cs st = false)
        by (apply (read_cs_not_writer st i c L Hc); unfold in_read_cs; rewrite Hpc; reflexivity).
      destruct (request_burst (g_hub st) (r_req c)) as [burst|] eqn:Hb.
      + eapply (ser_rec st _ i c _ S Hc); try reflexivity.
        intros Hin. exfalso. apply (not_registered_not_in st i c R Hc); [unfold linearized; rewrite Hpc; reflexivity | exact Hin].
      + apply (ser_refused st _ i c S Hc Hnw Hb); reflexivity.
    - destruct (g_mutex st); [exact S|].
      apply (ser_rec st _ i c (set_rpc c RMutex) S Hc); try reflexivity. auto.
    - apply (ser_rec st _ i c (set_rpc c (RRead (g_subs st))) S Hc); try reflexivity. auto.
    - assert (Hnw : in_write_cs st = false)
        by (apply (read_cs_not_writer st i c L Hc); unfold in_read_cs; rewrite Hpc; reflexivity).
      destruct Hrec as [burst [Hb [Hs Hg]]].
      apply (ser_append st _ i c (set_rpc c RWritten) burst S Hc Hnw Hb Hs Hg); reflexivity.
    - apply (ser_rec st _ i c (set_rpc c RUnlocking) S Hc); try reflexivity. auto.
    - apply (ser_rec st _ i c (set_rpc c RDone) S Hc); try reflexivity. auto.
    - exact S.
  Qed.

  Lemma ser_step_cons st i : RegInv st -> SerInv st -> SerInv (cons_step st i).
  Proof.
    intros R S. destruct (cons_step_cases st i) as [E|[c [s [x [q [Hc [Hpc [Hs [Hq E]]]]]]]]]; rewrite E; [exact S|]. clear E.
    destruct (inflight st) as [[e todo]|] eqn:Hinf.
    - destruct (memb i todo) eqn:Hm.
      + apply (ser_recv_log st _ i c s x q R S Hc Hpc Hs Hq); try reflexivity.
        intros e' todo' Hi. rewrite Hinf in Hi. inversion Hi; subst. exact Hm.
      + apply (ser_recv_tail st _ i c s x q e todo R S Hc Hpc Hs Hq Hinf Hm); reflexivity.
    - apply (ser_recv_log st _ i c s x q R S Hc Hpc Hs Hq); try reflexivity. intros e' todo' Hi. rewrite Hinf in Hi. discriminate.
  Qed.

  Definition AllInv (st : cstate) : Prop := LockInv st /\ RegInv st /\ SerInv st.

  Lemma all_step st t : AllInv st -> AllInv (cstep_g true hp st t).
  Proof.
    intros [L [R S]]. split; [apply lock_step, L|]. split; [apply reg_step; assumption|].
    destruct t as [|i|i]; cbn [cstep_g].
    - apply ser_step_prod; assumption.
    - apply ser_step_req; assumption.
    - apply ser_step_cons; assumption.
  Qed.

  Lemma all_run sched : forall st, AllInv st -> AllInv (crun_g true hp st sched).
  Proof. induction sched as [|t sched IH]; intros st H; [exact H|]. apply IH, all_step, H. Qed.

  Lemma all_init reqs : AllInv (cinit h0 script reqs).
  Proof. split; [apply lock_init|]. split; [apply reg_init | apply ser_init]. Qed.

  Lemma all_reachable reqs sched : AllInv (crun_g true hp (cinit h0 script reqs) sched).
  Proof. apply all_run, all_init. Qed.

End Refine.
