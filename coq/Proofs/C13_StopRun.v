(* C13, the stop clause over whole runs, number mode: Proofs/C13_Stop.v instantiated on stream_run over a
   world whose hub is a state of a hub run (Proofs/C07_ComposeRun.v). *)
From Coq Require Import Sorted.
From BV Require Import Base.Prelude Model.Block Model.ForkDB Model.Forkable Model.ForkableLookups Model.Burst Model.Hub
  Model.CursorResolver Model.Joining
  Spec.Consumer Spec.Universe Check.Fk_Check Check.Burst_Check Check.C07_Check
  Spec.C09_Spec Spec.C05_Spec Spec.C06_Spec Spec.C07_Spec Spec.C13_Spec Spec.C07_Compose_Spec Spec.C13_Stop_Spec
  Spec.C01_Spec Spec.C01_Moving_Spec Spec.C01_Roots_Spec
  Proofs.C06_Lists Proofs.C13_Proofs
  Proofs.Fk.LoopFacts Proofs.Fk.MovingLibDisc Proofs.C02_Proofs Proofs.C01_Roots_Proofs
  Proofs.Hub.HubFed Proofs.Hub.C09_History
  Proofs.C07_File Proofs.C07_ComposeStack Proofs.C07_ComposeHub Proofs.C07_ComposeRun Proofs.C07_Compose Proofs.C13_Stop.
Local Open Scope N_scope.

(* a sorted list filtered by a number range, cut at a threshold inside the range *)
Lemma filter_split_sorted lo t1 t2 : t1 <= t2 -> forall l,
  StronglySorted (fun a b => bnum a < bnum b) l ->
  filter (fun x => (lo <=? bnum x) && (bnum x <? t2)) l =
  filter (fun x => (lo <=? bnum x) && (bnum x <? t1)) l ++
  filter (fun x => (lo <=? bnum x) && (t1 <=? bnum x) && (bnum x <? t2)) l.
Proof.
  intros Ht. induction l as [|x l IH]; intros HS; [reflexivity|].
  inversion HS as [|? ? HS' Hall]; subst. destruct (N.ltb_spec (bnum x) t1) as [Hlt|Hge].
  - cbn [filter].
    replace (bnum x <? t1) with true by (symmetry; apply N.ltb_lt; exact Hlt).
    replace (bnum x <? t2) with true by (symmetry; apply N.ltb_lt; lia).
    replace (t1 <=? bnum x) with false by (symmetry; apply N.leb_gt; exact Hlt).
    rewrite andb_false_r, andb_true_r. cbn [andb]. rewrite (IH HS').
    destruct (lo <=? bnum x); reflexivity.
  - assert (Hl : Forall (fun y => t1 <= bnum y) (x :: l)).
    { constructor; [exact Hge|]. eapply Forall_impl; [|exact Hall]. cbn beta. intros y Hy. lia. }
    rewrite (filter_none _ (fun x0 => (lo <=? bnum x0) && (bnum x0 <? t1)) (x :: l)).
    + cbn [app]. apply filter_ext_in. intros y Hy. rewrite Forall_forall in Hl. specialize (Hl y Hy).
      replace (t1 <=? bnum y) with true by (symmetry; apply N.leb_le; exact Hl). rewrite andb_true_r. reflexivity.
    + eapply Forall_impl; [|exact Hl]. cbn beta. intros y Hy.
      replace (bnum y <? t1) with false by (symmetry; apply N.ltb_ge; exact Hy). apply andb_false_r.
Qed.

Lemma bundle_end_mono a b bundle : a <= b -> (a / bundle + 1) * bundle <= (b / bundle + 1) * bundle.
Proof.
  intros H. apply N.mul_le_mono_r. apply N.add_le_mono_r.
  destruct (N.eq_dec bundle 0) as [->|Hb]; [destruct a, b; cbn; lia|]. apply N.div_le_mono; assumption.
Qed.

Lemma new_passes c e : filter_pass c SNew = true -> filter_pass c SNewIrr = true ->
  matches_new (estep e) = true -> passes c e = true.
Proof. intros H1 H2 Hm. unfold passes. destruct (estep e); try discriminate; assumption. Qed.

(* a filter that lets New through is not final-blocks-only: the stateless phases run *)
Lemma pass_new_not_final c : filter_pass c SNew = true -> (j_filter c =? 1) = false.
Proof.
  unfold filter_pass. intros H. destruct (N.eqb_spec (j_filter c) 1) as [E|E]; [|reflexivity].
  rewrite E in H. cbn in H. discriminate.
Qed.

Lemma c13_stop_num_proof : C13_stop_num.
Proof.
  intros U c w ps merged_end merged forked Hwfb Hlok [[l [Hl Hhub]] Hrest] HS Hbound Hsorted Hmend Hmode HpN HpNI Hninv out0.
  assert (Hscope : disc_scope2_b U = true) by (unfold disc_scope2_b; rewrite Hwfb, Hlok; reflexivity).
  pose proof (bridge_id U Hwfb) as Hid. pose proof (bridge_uniq U Hwfb) as Huniq. pose proof (bridge_up U Hwfb) as Hup.
  pose proof (bridge2_decl_none U Hscope) as Hdecl.
  assert (HW : WOK U c w).
  { split; [|exact Hrest]. rewrite Hhub. apply (hub_ok_run U (j_first c) (j_kept c) Hwfb Hlok l Hl). }
  set (start := run_start c w).
  (* the start block is not above the stop block *)
  assert (Hstart : (j_stop c <? start) = false).
  { destruct (j_stop c <? start) eqn:E; [|reflexivity]. exfalso. apply Hninv.
    unfold stream_run. cbv zeta. fold (run_start c w). fold start. rewrite E.
    replace (j_stop c =? 0) with false by (symmetry; apply N.eqb_neq; exact HS). reflexivity. }
  set (b := j_bundle c).
  set (t1 := (j_stop c / b + 1) * b). set (t2 := (file_bound / b + 1) * b).
  set (DS := file_delivery merged start (j_stop c) b).
  set (D2 := filter (fun x => (start <=? bnum x) && (t1 <=? bnum x) && (bnum x <? t2)) merged).
  assert (HD : file_delivery merged start file_bound b = DS ++ D2).
  { unfold DS, D2, file_delivery. fold t1 t2. apply filter_split_sorted; [apply bundle_end_mono; exact Hbound | exact Hsorted]. }
  assert (HD2 : forall x, In x D2 -> In x merged /\ t1 <= bnum x /\ j_stop c < bnum x).
  { intros x Hx. unfold D2 in Hx. apply filter_In in Hx as [Hin Hx]. apply andb_true_iff in Hx as [Hx Hx2].
    apply andb_true_iff in Hx as [_ Hx1]. apply N.leb_le in Hx1. apply N.ltb_lt in Hx2.
    split; [exact Hin|]. split; [exact Hx1|].
    assert (Hb : b <> 0).
    { intros E. unfold t2 in Hx2. rewrite E, N.mul_0_r in Hx2. lia. }
    pose proof (N.mul_succ_div_gt (j_stop c) b Hb) as H. rewrite <- N.add_1_r in H. unfold t1 in Hx1. nia. }
  (* the simulation of the two file phases *)
  assert (Hfile : forall fuel lowest fend,
            (D2 <> [] -> fend = JStop) ->
            sim c [] (file_phase fuel (with_stop c 0) w lowest (map fev (DS ++ D2)) JNil 0 ps [])
                     (file_phase fuel c w lowest (map fev DS) fend 0 ps [])).
  { intros fuel lowest fend Hfend. rewrite map_app.
    apply (file_sim c HS (WOK U c) (fun w0 H0 => wok_push_one U c Hid Huniq Hup Hdecl w0 H0) (map fev D2)).
    - apply Forall_forall. intros e He. apply in_map_iff in He as (x & <- & Hx). destruct (HD2 x Hx) as (_ & _ & Hgt).
      split; [exact HpNI | exact Hgt].
    - intros w0 lowest0 e burst [Hok0 Hrest0] He Hj. apply in_map_iff in He as (x & <- & Hx).
      destruct (HD2 x Hx) as (_ & _ & Hgt).
      assert (Hmode2 : (j_mode c =? 2) = false) by (rewrite Hmode; reflexivity).
      destruct (join_mode0 c w0 lowest0 (fev x) burst Hmode2 Hj) as (Hb & Hrd & _). cbn [eblk file_event] in Hb.
      destruct (vstate_of_hub U (j_first c) (j_kept c) Hid Huniq Hup Hdecl (w_hub w0) Hok0 Hrd) as [V HV].
      destruct (burst_shape U c Hid Huniq Hup (h_f (w_hub w0)) V (bnum x) burst HV Hb)
        as (hd & sg & y & suf & l0 & _ & _ & _ & _ & Hny & Hmap & Hnew & _).
      destruct burst as [|e1 rest]; [discriminate|]. cbn [map] in Hmap. injection Hmap as He1 _.
      exists e1, rest. split; [reflexivity|]. split.
      + apply new_passes; [exact HpN | exact HpNI | exact (Forall_inv Hnew)].
      + unfold enum. rewrite He1, Hny. exact Hgt.
    - intros Hne. apply Hfend. intros E. rewrite E in Hne. apply Hne. reflexivity.
    - exact HW. }
  assert (Hfend : D2 <> [] ->
            (if t1 <=? merged_end then JStop else JNil) = JStop).
  { intros Hne. destruct D2 as [|x r] eqn:E2; [contradiction|].
    destruct (HD2 x) as (Hin & Ht1 & _); [left; reflexivity|].
    rewrite Forall_forall in Hmend. specialize (Hmend x Hin).
    replace (t1 <=? merged_end) with true by (symmetry; apply N.leb_le; lia). reflexivity. }
  (* both runs *)
  assert (Hsim : sim c [] (stream_run (with_stop c 0) w ps merged_end merged forked)
                          (stream_run c w ps merged_end merged forked)).
  { unfold stream_run. cbv zeta.
    rewrite (file_end_not1 c merged_end), (file_end_not1 (with_stop c 0) merged_end) by (cbn [j_mode with_stop]; rewrite Hmode; reflexivity).
    cbn [j_first j_start j_stop j_mode j_filter j_cursor j_bundle with_stop].
    fold (run_start c w). fold start. rewrite Hstart, Hmode.
    replace (j_stop c =? 0) with false by (symmetry; apply N.eqb_neq; exact HS).
    cbn [N.eqb negb andb].
    replace ((j_filter c =? 1) && false) with false by (symmetry; apply andb_false_r).
    rewrite !(pass_new_not_final c HpN).
    change (live_try (with_stop c 0) (w_hub w) start) with (live_try c (w_hub w) start).
    destruct (live_try c (w_hub w) start) as [burst| | |].
    - apply live_sim.
    - fold b. change 1000000000000 with file_bound. rewrite HD. fold DS. fold t1.
      apply Hfile. exact Hfend.
    - exists []. cbn. split; [reflexivity|]. split; [reflexivity | discriminate].
    - exists []. cbn. split; [reflexivity|]. split; [reflexivity | discriminate]. }
  destruct Hsim as (t & H0 & H1 & H2). cbn [app] in H0, H1. unfold out0. rewrite H0. split; [exact H1 | exact H2].
Qed.

(* ------------------------------------------------------------------ the cut *)

Lemma first_at_or_above S : forall l, (exists e, In e l /\ S <= enum e) ->
  exists p1 e1 p2, l = p1 ++ e1 :: p2 /\ (forall x, In x p1 -> enum x < S) /\ S <= enum e1.
Proof.
  induction l as [|x l IH]; intros (e & He & Hge); [destruct He|].
  destruct (N.le_gt_cases S (enum x)) as [Hx|Hx].
  - exists [], x, l. split; [reflexivity|]. split; [intros y []|exact Hx].
  - destruct He as [->|He]; [lia|].
    destruct (IH (ex_intro _ e (conj He Hge))) as (p1 & e1 & p2 & -> & Hp1 & He1).
    exists (x :: p1), e1, p2. split; [reflexivity|]. split; [|exact He1].
    intros y [<-|Hy]; [exact Hx | apply Hp1; exact Hy].
Qed.

Lemma c13_stop_cut_proof : C13_stop_cut.
Proof.
  intros U c w ps merged_end merged forked Hwfb Hlok Hhub HS Hbound Hsorted Hmend Hmode HpN HpNI Hninv out0 Hex.
  destruct (c13_stop_num_proof U c w ps merged_end merged forked Hwfb Hlok Hhub HS Hbound Hsorted Hmend Hmode HpN HpNI Hninv)
    as [Hfst Hsnd]. fold out0 in Hfst, Hsnd.
  assert (Hpass : Forall (fun e => passes c e = true) out0).
  { destruct (c13_stream_output_proof (with_stop c 0) w ps merged_end merged forked out0
                (snd (stream_run (with_stop c 0) w ps merged_end merged forked))) as [Hp _]; [|exact Hp].
    unfold out0. destruct (stream_run (with_stop c 0) w ps merged_end merged forked); reflexivity. }
  destruct (first_at_or_above (j_stop c) out0 Hex) as (p1 & e1 & p2 & Hout & Hp1 & He1).
  assert (Hf : filter (passes c) out0 = p1 ++ e1 :: p2) by (rewrite (filter_all _ _ out0 Hpass); exact Hout).
  pose proof (chain_run_stop c out0 p1 e1 p2 HS Hf Hp1 He1) as Hcr.
  exists p1, e1, p2. split; [exact Hout|]. split; [exact Hp1|]. split; [exact He1|].
  rewrite Hcr in Hfst, Hsnd. cbn [fst snd] in Hfst, Hsnd. split; [exact Hfst | apply Hsnd; reflexivity].
Qed.

(* ------------------------------------------------------------------ composed with C07 *)

Lemma world_after_ws c s k w : world_after (with_stop c s) k w = world_after c k w.
Proof. unfold world_after. rewrite push_n_ws. reflexivity. Qed.

Lemma sfold_in : forall l st st' b, sfold st l = Some st' -> In b st' ->
  In b st \/ exists e, In e l /\ eblk e = b.
Proof.
  induction l as [|e l IH]; intros st st' b Hf Hb.
  - injection Hf as <-. left. exact Hb.
  - cbn [sfold] in Hf. destruct (sapply st e) as [st1|] eqn:E1; [|discriminate].
    destruct (IH st1 st' b Hf Hb) as [H1|(e' & He' & Hb')]; [|right; exists e'; split; [right; exact He' | exact Hb']].
    unfold sapply in E1.
    assert (Hpush : forall r, match st with
                              | top :: _ => if bparent (eblk e) =? bid top then Some (eblk e :: st) else None
                              | [] => Some [eblk e]
                              end = Some r -> In b r -> In b st \/ eblk e = b).
    { intros r Hr Hin. destruct st as [|top st0].
      - injection Hr as <-. destruct Hin as [<-|[]]. right. reflexivity.
      - destruct (bparent (eblk e) =? bid top); [|discriminate]. injection Hr as <-.
        destruct Hin as [<-|Hin]; [right; reflexivity | left; exact Hin]. }
    destruct (estep e).
    + destruct (Hpush st1 E1 H1) as [H|H]; [left; exact H | right; exists e; split; [left; reflexivity | exact H]].
    + destruct st as [|top st0]; [injection E1 as <-; destruct H1|].
      destruct (bid (eblk e) =? bid top); [|discriminate]. injection E1 as <-. left. right. exact H1.
    + injection E1 as <-. left. exact H1.
    + injection E1 as <-. left. exact H1.
    + destruct (Hpush st1 E1 H1) as [H|H]; [left; exact H | right; exists e; split; [left; reflexivity | exact H]].
Qed.

Lemma c13_stop_reached_proof : C13_stop_reached.
Proof.
  intros U c w ps merged_end canon forked Hwfb Hlok Hhub Hchain Hincl merged Htip Hmode Hfilter Hbundle Hmb
         HS Hbound start Hstart Hstartblk bS HbS HnS res0 res Hnil.
  set (c0 := with_stop c 0).
  assert (Htip0 : eventual_tip c0 w canon).
  { intros k hd. unfold c0. rewrite world_after_ws. apply Htip. }
  destruct (c07_seamless_num_proof U c0 w ps merged_end canon forked Hwfb Hlok Hhub Hchain Hincl Htip0
              Hmode Hfilter eq_refl Hbundle Hmb Hstartblk) as (c' & Hfold & Hfin).
  fold merged in Hfold, Hfin. fold res0 in Hfold, Hfin. change (run_start c0 w) with start in Hfin.
  exists c'. split; [exact Hfold|]. split; [exact (Hfin Hnil)|]. intros Hcase.
  (* bS is on the consumer's stack *)
  assert (HbSin : In bS (cs_stack c')).
  { apply in_rev.
    assert (HbSc : In bS (from_num start canon)).
    { unfold from_num. apply filter_In. split; [exact HbS | apply N.leb_le; lia]. }
    destruct (Hfin Hnil) as [H1|H2].
    - destruct Hcase as [Hlt|H2]; [|rewrite <- H2 in HbSc; unfold from_num in HbSc; apply filter_In in HbSc as [H _]; exact H].
      rewrite H1. unfold from_num. apply filter_In. split; [|apply N.leb_le; lia].
      unfold merged. apply filter_In. split; [exact HbS | apply N.ltb_lt; lia].
    - rewrite <- H2 in HbSc. unfold from_num in HbSc. apply filter_In in HbSc as [H _]. exact H. }
  split; [exact HbSin|].
  (* it was delivered *)
  assert (Hnu : Forall (fun e => nu_ev e = true) (fst res0)).
  { destruct (c13_stream_output_proof c0 w ps merged_end merged forked (fst res0) (snd res0)) as [Hp _].
    - apply surjective_pairing.
    - eapply Forall_impl; [|exact Hp]. cbn beta. intros e He. rewrite <- (passes_nu c0 e Hfilter). exact He. }
  change (cons_fold_aside (mkCons [] 0 false) (map as_new (fst res0)) = Some c') in Hfold.
  rewrite (sfold_cons_aside false (fst res0) [] Hnu) in Hfold.
  destruct (sfold [] (fst res0)) as [st|] eqn:Est; [|discriminate]. injection Hfold as <-. cbn [cs_stack] in HbSin.
  destruct (sfold_in (fst res0) [] st bS Est HbSin) as [[]|(e & He & Heb)].
  (* the merged files, sorted *)
  pose proof (merged_chain_ok canon merged_end Hchain) as Hmok. fold merged in Hmok.
  assert (Hsorted : StronglySorted (fun a b => bnum a < bnum b) merged).
  { pose proof (chain_ok_asc merged Hmok) as Hasc. clear -Hasc. induction merged as [|x l IH]; [constructor|].
    destruct Hasc as [H1 H2]. constructor; [apply IH; exact H2 | exact H1]. }
  assert (Hmend : Forall (fun b => bnum b < merged_end) merged).
  { apply Forall_forall. intros b Hb. unfold merged in Hb. apply filter_In in Hb as [_ Hb]. apply N.ltb_lt. exact Hb. }
  assert (HpN : filter_pass c SNew = true) by (unfold filter_pass; rewrite Hfilter; reflexivity).
  assert (HpNI : filter_pass c SNewIrr = true) by (unfold filter_pass; rewrite Hfilter; reflexivity).
  assert (Hninv : snd (stream_run c w ps merged_end merged forked) <> JInvalidArg).
  { unfold stream_run. cbv zeta. fold (run_start c w). fold start.
    replace (j_stop c <? start) with false by (symmetry; apply N.ltb_ge; exact Hstart).
    rewrite andb_false_r, Hmode, Hfilter. cbn [N.eqb andb].
    destruct (live_try c (w_hub w) start); [apply live_phase_not_invalid| |discriminate|discriminate].
    intros H. apply file_phase_invalid in H.
    destruct (file_end_cases c merged_end) as [E|E]; rewrite E in H; discriminate. }
  apply (c13_stop_cut_proof U c w ps merged_end merged forked Hwfb Hlok Hhub HS Hbound Hsorted Hmend Hmode HpN HpNI Hninv).
  exists e. split; [exact He|]. unfold enum. rewrite Heb, HnS. lia.
Qed.
