(* C12 — MultiplexedSource: once Terminated, every inner source that was ever started is shut
   down, and no inner source is started after the terminating channel is closed. *)
From BV Require Import Base.Prelude Model.Lifecycle Proofs.C12_Sched Proofs.C12_MuxBase.
Import Mx.

Definition startedp (p : ipc) : bool := match p with INew => false | _ => true end.
Definition cb_ran (x : option sdstage) : bool :=
  match x with Some STerm | Some SDone => true | _ => false end.

Record Sinv (s : state) : Prop := {
  (* a started source is terminating or is the one registered in its slot *)
  s1 : forall k i, nth_error (inners s) k = Some i -> startedp (i_pc i) = true ->
         i_term i = true \/ nth_error (sources s) (i_slot i) = Some (Some k);
  (* after the OnTerminating callback every started source is terminating *)
  s2 : cb_ran (sdst s) = true -> forall k i, nth_error (inners s) k = Some i ->
         startedp (i_pc i) = true -> i_term i = true;
  (* between the factory call and LockedInit: the new source exists and is not started *)
  s3 : forall idx k, pcr s = PInit idx k ->
         exists i, nth_error (inners s) k = Some i /\ i_slot i = idx /\ i_pc i = INew /\ idx < length (sources s);
  (* ... and the source it replaces is terminating *)
  s4 : forall idx k o, pcr s = PInit idx k -> nth_error (sources s) idx = Some (Some o) -> inner_term s o = true;
  (* a registered source exists *)
  s5 : forall idx o, nth_error (sources s) idx = Some (Some o) -> o < length (inners s) }.

(* steps that neither move the Run thread nor touch s.sources nor start a source *)
Record quiet (s s' : state) : Prop := {
  q_pcr : pcr s' = pcr s;
  q_src : sources s' = sources s;
  q_len : length (inners s') = length (inners s);
  q_inner : forall k i, nth_error (inners s) k = Some i ->
      exists i', nth_error (inners s') k = Some i' /\ i_slot i' = i_slot i /\
                 startedp (i_pc i') = startedp (i_pc i) /\ (i_term i = true -> i_term i' = true) /\
                 (i_pc i = INew -> i_pc i' = INew);
  q_sd : cb_ran (sdst s') = true ->
      cb_ran (sdst s) = true \/ (forall k, In (Some k) (sources s) -> inner_term s' k = true) }.

Lemma quiet_refl : forall s, quiet s s.
Proof. intros. constructor; auto. intros k i H. exists i. auto. Qed.

Lemma quiet_ext : forall s s1 s2, quiet s s1 ->
  pcr s2 = pcr s1 -> sources s2 = sources s1 -> inners s2 = inners s1 -> sdst s2 = sdst s1 -> quiet s s2.
Proof.
  intros s s1 s2 [] E1 E2 E3 E4. constructor; try congruence.
  - intros k i H. rewrite E3. auto.
  - rewrite E4. intros H. destruct (q_sd0 H) as [A|A]; [left; exact A | right].
    intros k Hk. unfold inner_term. rewrite E3. apply A. exact Hk.
Qed.

Lemma inner_term_mono : forall s s', quiet s s' -> forall k, inner_term s k = true -> inner_term s' k = true.
Proof.
  intros s s' Q k H. unfold inner_term in *.
  destruct (nth_error (inners s) k) as [i|] eqn:E.
  - destruct (q_inner _ _ Q k i E) as (i' & E' & _ & _ & Ht & _). rewrite E'. auto.
  - apply nth_error_None in E. rewrite <- (q_len _ _ Q) in E. apply nth_error_None in E. rewrite E. reflexivity.
Qed.

Lemma quiet_trans : forall a b c, quiet a b -> quiet b c -> quiet a c.
Proof.
  intros a b c Q1 Q2. constructor.
  - rewrite (q_pcr _ _ Q2). apply (q_pcr _ _ Q1).
  - rewrite (q_src _ _ Q2). apply (q_src _ _ Q1).
  - rewrite (q_len _ _ Q2). apply (q_len _ _ Q1).
  - intros k i H. destruct (q_inner _ _ Q1 k i H) as (i1 & E1 & A1 & B1 & C1 & D1).
    destruct (q_inner _ _ Q2 k i1 E1) as (i2 & E2 & A2 & B2 & C2 & D2).
    exists i2. repeat split; auto; congruence.
  - intros H. destruct (q_sd _ _ Q2 H) as [A|A].
    + destruct (q_sd _ _ Q1 A) as [B|B]; [left; exact B | right].
      intros k Hk. apply (inner_term_mono b c Q2). apply B. exact Hk.
    + right. intros k Hk. apply A. rewrite (q_src _ _ Q1). exact Hk.
Qed.

Lemma quiet_set_inner : forall s j f,
  (forall i, nth_error (inners s) j = Some i ->
     i_slot (f i) = i_slot i /\ startedp (i_pc (f i)) = startedp (i_pc i) /\
     (i_term i = true -> i_term (f i) = true) /\ (i_pc i = INew -> i_pc (f i) = INew)) ->
  quiet s (set_inner s j f).
Proof.
  intros s j f Hf. constructor; simpl; auto.
  - apply upd_length.
  - intros k i H. rewrite nth_upd. destruct (Nat.eqb k j) eqn:E.
    + apply Nat.eqb_eq in E. subst k. rewrite H. simpl. exists (f i). split; auto.
    + exists i. auto.
Qed.

Lemma sbt_quiet : forall s s', same_but_terms s s' -> quiet s s'.
Proof.
  intros s s' B. constructor.
  - apply (sb_pcr _ _ B).
  - apply (sb_src _ _ B).
  - pose proof (f_equal (@length _) (sb_pcs _ _ B)) as E. unfold pcs in E. rewrite !map_length in E. exact E.
  - intros k i H.
    pose proof (f_equal (fun l => nth_error l k) (sb_pcs _ _ B)) as E1. simpl in E1. rewrite !nth_pcs, H in E1.
    pose proof (f_equal (fun l => nth_error l k) (sb_slots _ _ B)) as E2. simpl in E2. rewrite !nth_slots, H in E2.
    destruct (nth_error (inners s') k) as [i'|] eqn:E'; simpl in *; [|discriminate].
    exists i'. inversion E1. inversion E2. repeat split; auto; try congruence.
    intros Ht. pose proof (sb_mono _ _ B k) as Hm. unfold inner_term in Hm. rewrite H, E' in Hm. auto.
  - rewrite (sb_sdst _ _ B). auto.
Qed.

Lemma quiet_sd_advance : forall s, quiet s (sd_advance s).
Proof.
  intros s. unfold sd_advance. destruct (sdst s) as [[]|] eqn:Eg; try apply quiet_refl.
  - constructor; simpl; auto. intros k i H. exists i; auto. intros; discriminate.
  - destruct (holds_slock s); [apply quiet_refl|].
    pose proof (sbt_quiet _ _ (shut_all_sbt (sources s) s)) as Q.
    constructor; simpl; try apply Q.
    intros _. right. intros k Hk.
    change (inner_term (shut_all (sources s) s) k = true). apply shut_all_term. exact Hk.
  - constructor; simpl; auto. intros k i H. exists i; auto. rewrite Eg. auto.
Qed.

Lemma S_quiet : forall s s', Sinv s -> quiet s s' -> Sinv s'.
Proof.
  intros s s' S Q. constructor.
  - intros k i' H' Hst.
    assert (Hk : k < length (inners s)) by (rewrite <- (q_len _ _ Q); apply nth_error_Some; congruence).
    destruct (nth_error (inners s) k) as [i|] eqn:E; [|apply nth_error_None in E; lia].
    destruct (q_inner _ _ Q k i E) as (i2 & E2 & A & B & C & D). rewrite H' in E2. inversion E2; subst i2.
    rewrite (q_src _ _ Q), A. destruct (s1 _ S k i E) as [T|T]; [congruence | left; auto | right; exact T].
  - intros Hc k i' H' Hst.
    assert (Hk : k < length (inners s)) by (rewrite <- (q_len _ _ Q); apply nth_error_Some; congruence).
    destruct (nth_error (inners s) k) as [i|] eqn:E; [|apply nth_error_None in E; lia].
    destruct (q_inner _ _ Q k i E) as (i2 & E2 & A & B & C & D). rewrite H' in E2. inversion E2; subst i2.
    destruct (q_sd _ _ Q Hc) as [Hc0|Hall].
    + apply C. apply (s2 _ S Hc0 k i E). congruence.
    + destruct (s1 _ S k i E) as [T|T]; [congruence | auto |].
      assert (Hin : In (Some k) (sources s)) by (eapply nth_error_In; exact T).
      specialize (Hall k Hin). unfold inner_term in Hall. rewrite H' in Hall. exact Hall.
  - intros idx k Hp. rewrite (q_pcr _ _ Q) in Hp. destruct (s3 _ S idx k Hp) as (i & E & A & B & C).
    destruct (q_inner _ _ Q k i E) as (i2 & E2 & A2 & B2 & C2 & D2).
    exists i2. rewrite (q_src _ _ Q). repeat split; auto; congruence.
  - intros idx k o Hp Ho. rewrite (q_pcr _ _ Q) in Hp. rewrite (q_src _ _ Q) in Ho.
    apply (inner_term_mono s s' Q). apply (s4 _ S idx k o Hp Ho).
  - intros idx o Ho. rewrite (q_src _ _ Q) in Ho. rewrite (q_len _ _ Q). apply (s5 _ S idx o Ho).
Qed.

(* Run steps that only move the program counter to a place other than PInit *)
Lemma S_pcr : forall s s', Sinv s -> (forall idx k, pcr s' <> PInit idx k) ->
  inners s' = inners s -> sources s' = sources s -> sdst s' = sdst s -> Sinv s'.
Proof.
  intros s s' S Hp E1 E2 E3. constructor.
  - rewrite E1, E2. apply (s1 _ S).
  - rewrite E1, E3. apply (s2 _ S).
  - intros idx k H. destruct (Hp idx k H).
  - intros idx k o H. destruct (Hp idx k H).
  - rewrite E1, E2. apply (s5 _ S).
Qed.

Lemma cb_ran_terminating : forall s, cb_ran (sdst s) = true -> terminating s = true.
Proof. intros s. unfold terminating. destruct (sdst s) as [[]|]; simpl; auto. Qed.

Section Fx.
Variable fx : bool.
Local Notation step := (Mx.step fx).

Lemma quiet_inner : forall j s, quiet s (step_inner fx j s).
Proof.
  intros j s. unfold step_inner.
  destruct (nth_error (inners s) j) as [i|] eqn:En; [|apply quiet_refl].
  destruct (i_pc i) eqn:Epc.
  - apply quiet_refl.
  - destruct (i_term i).
    + apply quiet_set_inner. intros i0 H0. rewrite En in H0. inversion H0; subst i0. rewrite Epc. simpl. auto using eq_refl. repeat split; auto; discriminate.
    + destruct (i_script i) as [|[b ok|] r]; [apply quiet_refl | |].
      * apply quiet_set_inner. intros i0 H0. rewrite En in H0. inversion H0; subst i0. rewrite Epc. simpl. repeat split; auto; discriminate.
      * eapply quiet_trans; [|apply sbt_quiet, shut_inner_sbt].
        apply quiet_set_inner. intros i0 H0. simpl. repeat split; auto.
  - destruct (hholder s); [apply quiet_refl|].
    eapply quiet_ext; [apply (quiet_set_inner s j (set_i_pc (ILocked b ok))) | reflexivity..].
    intros i0 H0. rewrite En in H0. inversion H0; subst i0. rewrite Epc. simpl. repeat split; auto; discriminate.
  - destruct (fx && terminating s).
    + eapply quiet_ext; [apply (quiet_set_inner s j (set_i_pc IFailRet)) | reflexivity..].
      intros i0 H0. rewrite En in H0. inversion H0; subst i0. rewrite Epc. simpl. repeat split; auto; discriminate.
    + eapply quiet_ext; [apply (quiet_set_inner s j (set_i_pc (IInH b ok))) | reflexivity..].
      intros i0 H0. rewrite En in H0. inversion H0; subst i0. rewrite Epc. simpl. repeat split; auto; discriminate.
  - eapply quiet_ext; [apply (quiet_set_inner s j (set_i_pc (IUnl b ok))) | reflexivity..].
    intros i0 H0. rewrite En in H0. inversion H0; subst i0. rewrite Epc. simpl. repeat split; auto; discriminate.
  - destruct ok.
    + apply quiet_set_inner. intros i0 H0. rewrite En in H0. inversion H0; subst i0. rewrite Epc. simpl. repeat split; auto; discriminate.
    + destruct (sdst s) eqn:Eg.
      * apply quiet_set_inner. intros i0 H0. rewrite En in H0. inversion H0; subst i0. rewrite Epc. simpl. repeat split; auto; discriminate.
      * pose proof (quiet_set_inner s j (set_i_pc ISdBusy)) as Q.
        assert (Q' : quiet s (set_inner s j (set_i_pc ISdBusy))).
        { apply Q. intros i0 H0. rewrite En in H0. inversion H0; subst i0. rewrite Epc. simpl. repeat split; auto; discriminate. }
        constructor; simpl; try apply Q'. intros; discriminate.
  - pose proof (quiet_sd_advance s) as Q. destruct (terminated (sd_advance s)); [|exact Q].
    eapply quiet_trans; [exact Q|].
    apply quiet_set_inner. intros i0 H0.
    destruct (q_inner _ _ Q j i En) as (i2 & E2 & A & B & C & D). rewrite H0 in E2. inversion E2; subst i2.
    simpl. rewrite Epc in B. simpl in B. repeat split; auto. intros X. rewrite X in B. discriminate.
  - eapply quiet_trans; [|apply sbt_quiet, shut_inner_sbt].
    apply quiet_set_inner. intros i0 H0. rewrite En in H0. inversion H0; subst i0. rewrite Epc. simpl. repeat split; auto; discriminate.
  - apply quiet_refl.
Qed.

Lemma quiet_x : forall s, quiet s (step_x s).
Proof.
  intros s. unfold step_x. destruct (pcx s).
  - destruct (sdst s) eqn:Eg.
    + constructor; simpl; auto. intros k i H; exists i; auto.
    + constructor; simpl; auto. intros k i H; exists i; auto. intros; discriminate.
  - pose proof (quiet_sd_advance s) as Q. destruct (terminated (sd_advance s)); [|exact Q].
    eapply quiet_ext; [exact Q | reflexivity..].
  - apply quiet_refl.
Qed.

Lemma S_init : forall n sup, Sinv (init n sup).
Proof.
  intros. constructor; simpl; intros; try discriminate.
  - destruct k; discriminate.
  - exfalso. revert idx H. induction n as [|n IH]; intros [|idx] H; simpl in H; try discriminate. eauto.
Qed.

Lemma S_step : forall s t, Sinv s -> Sinv (step s t).
Proof.
  intros s t S. destruct t as [| |j]; simpl.
  - unfold step_run. destruct (pcr s) eqn:Ep.
    + destruct (terminating s); (eapply S_pcr; [exact S | simpl; intros; discriminate | reflexivity..]).
    + destruct (terminating s); (eapply S_pcr; [exact S | simpl; intros; discriminate | reflexivity..]).
    + destruct (nth_error (sources s) idx) as [cur|] eqn:Ec;
        [|eapply S_pcr; [exact S | simpl; intros; discriminate | reflexivity..]].
      destruct (match cur with Some k => inner_term s k | None => true end) eqn:Et;
        [|eapply S_pcr; [exact S | simpl; intros; discriminate | reflexivity..]].
      (* the factory creates a new, not yet started source *)
      constructor; simpl.
      * intros k i H Hst. rewrite nth_app_last in H. destruct (Nat.ltb k (length (inners s))).
        -- apply (s1 _ S k i H Hst).
        -- destruct (Nat.eqb k (length (inners s))); [|discriminate]. inversion H; subst i. discriminate.
      * intros Hc k i H Hst. rewrite nth_app_last in H. destruct (Nat.ltb k (length (inners s))).
        -- apply (s2 _ S Hc k i H Hst).
        -- destruct (Nat.eqb k (length (inners s))); [|discriminate]. inversion H; subst i. discriminate.
      * intros idx' k' H. inversion H; subst idx' k'.
        eexists. rewrite nth_app_last, Nat.ltb_irrefl, Nat.eqb_refl. repeat split.
        apply nth_error_Some. congruence.
      * intros idx' k' o H Ho. inversion H; subst idx' k'. rewrite Ec in Ho. inversion Ho; subst cur.
        pose proof (s5 _ S idx o Ec) as L.
        unfold inner_term in *. simpl. rewrite nth_app_last.
        apply Nat.ltb_lt in L. rewrite L. exact Et.
      * intros idx' o Ho. rewrite app_length. simpl. pose proof (s5 _ S idx' o Ho). lia.
    + destruct (terminating s) eqn:Etg;
        [eapply S_pcr; [exact S | simpl; intros; discriminate | reflexivity..]|].
      (* LockedInit succeeds: the new source is registered and started *)
      destruct (s3 _ S idx k Ep) as (i & Ei & Esl & Epc & Hidx).
      assert (Hnc : cb_ran (sdst s) = false)
        by (destruct (cb_ran (sdst s)) eqn:X; auto; apply cb_ran_terminating in X; congruence).
      constructor; simpl.
      * intros j ij Hj Hst. rewrite nth_upd in Hj. destruct (Nat.eqb j k) eqn:Ejk.
        -- apply Nat.eqb_eq in Ejk. subst j. rewrite Ei in Hj. simpl in Hj. inversion Hj; subst ij.
           right. unfold start_inner. rewrite Epc. simpl. rewrite Esl. rewrite nth_upd_eq.
           destruct (nth_error (sources s) idx) eqn:X; [reflexivity|]. apply nth_error_None in X. lia.
        -- destruct (s1 _ S j ij Hj Hst) as [T|T]; [left; exact T|].
           destruct (Nat.eqb (i_slot ij) idx) eqn:Esj.
           ++ apply Nat.eqb_eq in Esj. left. rewrite Esj in T.
              pose proof (s4 _ S idx k j Ep T) as X. unfold inner_term in X. rewrite Hj in X. exact X.
           ++ apply Nat.eqb_neq in Esj. right. rewrite nth_upd_ne by exact Esj. exact T.
      * rewrite Hnc. intros; discriminate.
      * intros; discriminate.
      * intros; discriminate.
      * intros idx' o Ho. rewrite upd_length. rewrite nth_upd in Ho. destruct (Nat.eqb idx' idx).
        -- destruct (nth_error (sources s) idx); simpl in Ho; [|discriminate]. inversion Ho; subst o.
           apply nth_error_Some. congruence.
        -- apply (s5 _ S idx' o Ho).
    + eapply S_pcr; [exact S | simpl; intros; discriminate | reflexivity..].
    + exact S.
  - apply (S_quiet s); [exact S | apply quiet_x].
  - apply (S_quiet s); [exact S | apply quiet_inner].
Qed.

Lemma S_run : forall n sup sched, Sinv (run step sched (init n sup)).
Proof. intros. apply (run_inv step Sinv S_step). apply S_init. Qed.

(* once Terminated, every inner source that was ever started has been shut down *)
Theorem mx_all_shut : forall n sup sched,
  let s := run step sched (init n sup) in
  terminated s = true ->
  forall k i, nth_error (inners s) k = Some i -> started i = true -> i_term i = true.
Proof.
  intros n sup sched s Ht k i Hk Hst. pose proof (S_run n sup sched) as S. fold s in S.
  apply (s2 _ S) with (k := k); auto.
  unfold terminated in Ht. destruct (sdst s) as [[]|]; try discriminate. reflexivity.
Qed.

(* no inner source is started once the terminating channel is closed (LockedInit refuses):
   the sources that exist keep their started / not-started status, new ones are not started *)
Theorem mx_no_start_after : forall s t k i,
  terminating s = true -> nth_error (inners (step s t)) k = Some i -> started i = true ->
  exists i0, nth_error (inners s) k = Some i0 /\ started i0 = true.
Proof.
  intros s t k i Ht Hk Hst. destruct t as [| |j]; simpl in Hk.
  - unfold step_run in Hk. destruct (pcr s) eqn:Ep; try rewrite Ht in Hk; simpl in Hk; eauto.
    destruct (nth_error (sources s) idx) as [cur|]; simpl in Hk; eauto.
    destruct (match cur with Some k => inner_term s k | None => true end); simpl in Hk; eauto.
    rewrite nth_app_last in Hk. destruct (Nat.ltb k (length (inners s))); eauto.
    destruct (Nat.eqb k (length (inners s))); [|discriminate]. inversion Hk; subst i. discriminate.
  - pose proof (quiet_x s) as Q.
    assert (Hl : k < length (inners s)) by (rewrite <- (q_len _ _ Q); apply nth_error_Some; congruence).
    destruct (nth_error (inners s) k) as [i0|] eqn:E; [|apply nth_error_None in E; lia].
    destruct (q_inner _ _ Q k i0 E) as (i2 & E2 & A & B & C & D). rewrite Hk in E2. inversion E2; subst i2.
    exists i0. split; auto. unfold started in *. fold (startedp (i_pc i0)). fold (startedp (i_pc i)) in Hst. congruence.
  - pose proof (quiet_inner j s) as Q.
    assert (Hl : k < length (inners s)) by (rewrite <- (q_len _ _ Q); apply nth_error_Some; congruence).
    destruct (nth_error (inners s) k) as [i0|] eqn:E; [|apply nth_error_None in E; lia].
    destruct (q_inner _ _ Q k i0 E) as (i2 & E2 & A & B & C & D). rewrite Hk in E2. inversion E2; subst i2.
    exists i0. split; auto. unfold started in *. fold (startedp (i_pc i0)). fold (startedp (i_pc i)) in Hst. congruence.
Qed.
End Fx.
