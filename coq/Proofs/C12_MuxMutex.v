(* C12 — MultiplexedSource: two handler calls never overlap (all schedules, any number of inner
   sources, any failure pattern). *)
From BV Require Import Base.Prelude Model.Lifecycle Proofs.C12_Sched Proofs.C12_MuxBase.
Import Mx.

Definition locked (p : ipc) : bool := match p with ILocked _ _ | IInH _ _ => true | _ => false end.
Definition inh (p : ipc) : bool := match p with IInH _ _ => true | _ => false end.

Definition hcount (P : list ipc) (hh : option nat) : nat :=
  match hh with
  | Some k => match nth_error P k with Some p => if inh p then 1 else 0 | None => 0 end
  | None => 0
  end.

(* the goroutines that are between handlerLock.Lock() and Unlock() are exactly the lock holder;
   the number of handler calls in progress is 1 if the holder is inside the handler, else 0 *)
Definition Mc (P : list ipc) (hh : option nat) (ha : nat) (ov : bool) : Prop :=
  (forall k p, nth_error P k = Some p -> locked p = true -> hh = Some k) /\
  ha = hcount P hh /\ ov = false.

Definition M (s : state) : Prop := Mc (pcs s) (hholder s) (hactive s) (overlap s).

Lemma Mc_keep : forall P hh ha ov k f,
  (forall p, locked (f p) = locked p /\ inh (f p) = inh p) ->
  Mc P hh ha ov -> Mc (upd P k f) hh ha ov.
Proof.
  intros P hh ha ov k f Hf (H1 & H2 & H3). repeat split; auto.
  - intros j p Hj Hl. rewrite nth_upd in Hj. destruct (Nat.eqb j k) eqn:E.
    + apply Nat.eqb_eq in E. subst j. destruct (nth_error P k) as [q|] eqn:Eq; simpl in Hj; [|discriminate].
      inversion Hj; subst p. apply (H1 k q Eq). destruct (Hf q) as [A _]. congruence.
    + apply (H1 j p Hj Hl).
  - rewrite H2. unfold hcount. destruct hh as [h|]; auto. rewrite nth_upd.
    destruct (Nat.eqb h k) eqn:E; auto. apply Nat.eqb_eq in E. subst h.
    destruct (nth_error P k) as [q|]; simpl; auto. destruct (Hf q) as [_ B]. rewrite B. reflexivity.
Qed.

Lemma Mc_T1 : forall P hh ha ov k p p',
  nth_error P k = Some p -> locked p = false -> locked p' = false ->
  Mc P hh ha ov -> Mc (upd P k (fun _ => p')) hh ha ov.
Proof.
  intros P hh ha ov k p p' Hk Hp Hp' (H1 & H2 & H3). repeat split; auto.
  - intros j q Hj Hl. rewrite nth_upd in Hj. destruct (Nat.eqb j k) eqn:E.
    + rewrite Hk in Hj. simpl in Hj. inversion Hj; subst q. congruence.
    + apply (H1 j q Hj Hl).
  - rewrite H2. unfold hcount. destruct hh as [h|]; auto. rewrite nth_upd.
    destruct (Nat.eqb h k) eqn:E; auto. apply Nat.eqb_eq in E. subst h. rewrite Hk. simpl.
    assert (A : inh p = false) by (destruct p; simpl in *; congruence).
    assert (B : inh p' = false) by (destruct p'; simpl in *; congruence). rewrite A, B. reflexivity.
Qed.

Lemma Mc_T2 : forall P ha ov k p b ok,
  nth_error P k = Some p ->
  Mc P None ha ov -> Mc (upd P k (fun _ => ILocked b ok)) (Some k) ha ov.
Proof.
  intros P ha ov k p b ok Hk (H1 & H2 & H3). repeat split; auto.
  - intros j q Hj Hl. rewrite nth_upd in Hj. destruct (Nat.eqb j k) eqn:E.
    + apply Nat.eqb_eq in E. congruence.
    + specialize (H1 j q Hj Hl). discriminate.
  - rewrite H2. unfold hcount. rewrite nth_upd_eq, Hk. reflexivity.
Qed.

Lemma Mc_T3 : forall P hh ha ov k b ok,
  nth_error P k = Some (ILocked b ok) ->
  Mc P hh ha ov -> Mc (upd P k (fun _ => IInH b ok)) hh (S ha) (ov || Nat.ltb 0 ha).
Proof.
  intros P hh ha ov k b ok Hk (H1 & H2 & H3).
  assert (Hh : hh = Some k) by (apply (H1 k _ Hk); reflexivity).
  assert (Ha : ha = 0) by (rewrite H2, Hh; unfold hcount; rewrite Hk; reflexivity).
  clear H2. rewrite Ha, H3. rewrite Hh in *. clear Ha H3 Hh. repeat split; try reflexivity.
  - intros j q Hj Hl. rewrite nth_upd in Hj. destruct (Nat.eqb j k) eqn:E.
    + apply Nat.eqb_eq in E. congruence.
    + apply (H1 j q Hj Hl).
  - unfold hcount. rewrite nth_upd_eq, Hk. reflexivity.
Qed.

Lemma Mc_T4 : forall P hh ha ov k b ok p',
  nth_error P k = Some (IInH b ok) -> locked p' = false ->
  Mc P hh ha ov -> Mc (upd P k (fun _ => p')) None (ha - 1) ov.
Proof.
  intros P hh ha ov k b ok p' Hk Hp' (H1 & H2 & H3).
  assert (Hh : hh = Some k) by (apply (H1 k _ Hk); reflexivity).
  assert (Ha : ha = 1) by (rewrite H2, Hh; unfold hcount; rewrite Hk; reflexivity).
  clear H2. rewrite Ha. rewrite Hh in *. clear Ha Hh. repeat split; auto.
  intros j q Hj Hl. rewrite nth_upd in Hj. destruct (Nat.eqb j k) eqn:E.
  - rewrite Hk in Hj. simpl in Hj. inversion Hj; subst q. congruence.
  - specialize (H1 j q Hj Hl). inversion H1; subst j. rewrite Nat.eqb_refl in E. discriminate.
Qed.

(* fixed wrapper: the lock holder finds the source terminating, unlocks and returns without calling the handler *)
Lemma Mc_T6 : forall P hh ha ov k b ok p',
  nth_error P k = Some (ILocked b ok) -> locked p' = false ->
  Mc P hh ha ov -> Mc (upd P k (fun _ => p')) None ha ov.
Proof.
  intros P hh ha ov k b ok p' Hk Hp' (H1 & H2 & H3).
  assert (Hh : hh = Some k) by (apply (H1 k _ Hk); reflexivity).
  assert (Ha : ha = 0) by (rewrite H2, Hh; unfold hcount; rewrite Hk; reflexivity).
  clear H2. rewrite Ha. rewrite Hh in *. clear Ha Hh. repeat split; auto.
  intros j q Hj Hl. rewrite nth_upd in Hj. destruct (Nat.eqb j k) eqn:E.
  - rewrite Hk in Hj. simpl in Hj. inversion Hj; subst q. congruence.
  - specialize (H1 j q Hj Hl). inversion H1; subst j. rewrite Nat.eqb_refl in E. discriminate.
Qed.

Lemma Mc_T5 : forall P hh ha ov, Mc P hh ha ov -> Mc (P ++ [INew]) hh ha ov.
Proof.
  intros P hh ha ov (H1 & H2 & H3). repeat split; auto.
  - intros j q Hj Hl. rewrite nth_app_last in Hj. destruct (Nat.ltb j (length P)); [apply (H1 j q Hj Hl)|].
    destruct (Nat.eqb j (length P)); [|discriminate]. inversion Hj; subst q. discriminate.
  - rewrite H2. unfold hcount. destruct hh as [h|]; auto. rewrite nth_app_last.
    destruct (Nat.ltb h (length P)) eqn:E; auto.
    apply Nat.ltb_ge in E. assert (N : nth_error P h = None) by (apply nth_error_None; exact E).
    rewrite N. destruct (Nat.eqb h (length P)); reflexivity.
Qed.

Lemma M_sbt : forall s s', same_but_terms s s' -> M s -> M s'.
Proof. intros s s' [] H. unfold M in *. congruence. Qed.

Lemma M_sd_advance : forall s, M s -> M (sd_advance s).
Proof.
  intros s H. unfold sd_advance. destruct (sdst s) as [[]|]; try exact H.
  destruct (holds_slock s); try exact H.
  change (M (shut_all (sources s) s)). apply (M_sbt s); [apply shut_all_sbt | exact H].
Qed.

Lemma pcs_set_inner_pc : forall s k p,
  pcs (set_inner s k (set_i_pc p)) = upd (pcs s) k (fun _ => p).
Proof. intros. unfold pcs, set_inner. simpl. apply map_upd. intros []; reflexivity. Qed.

Lemma M_init : forall n sup, M (init n sup).
Proof.
  intros. unfold M, Mc, init, pcs; simpl. repeat split; auto.
  intros k p H. destruct k; discriminate.
Qed.

Section Fx.
Variable fx : bool.   (* with (true) or without (false) the test of the terminating channel in the handler wrapper *)
Local Notation step := (Mx.step fx).

Lemma M_step : forall s t, M s -> M (step s t).
Proof.
  intros s t H. destruct t as [| |k]; simpl.
  - (* Run thread *)
    unfold step_run. destruct (pcr s) eqn:Ep.
    + destruct (terminating s); exact H.
    + destruct (terminating s); exact H.
    + destruct (nth_error (sources s) idx) as [cur|]; [|exact H].
      destruct (match cur with Some k => inner_term s k | None => true end); [|exact H].
      unfold M, pcs in *; simpl. rewrite map_app. simpl. apply Mc_T5. exact H.
    + destruct (terminating s); [exact H|].
      unfold M, pcs in *; simpl.
      rewrite (map_upd _ _ i_pc (inners s) k start_inner (fun p => match p with INew => IIdle | _ => p end)).
      * apply Mc_keep; [|exact H]. intros []; auto.
      * intros [sl tm [] sc]; reflexivity.
    + exact H.
    + exact H.
  - (* external Shutdown thread *)
    unfold step_x. destruct (pcx s); [destruct (sdst s); exact H | | exact H].
    pose proof (M_sd_advance s H) as H'. destruct (terminated (sd_advance s)); exact H'.
  - (* inner source k *)
    unfold step_inner. destruct (nth_error (inners s) k) as [i|] eqn:En; [|exact H].
    assert (Hk : nth_error (pcs s) k = Some (i_pc i)) by (rewrite nth_pcs, En; reflexivity).
    destruct (i_pc i) eqn:Epc.
    + exact H.
    + destruct (i_term i).
      * unfold M in *. rewrite pcs_set_inner_pc. simpl. eapply Mc_T1; eauto.
      * destruct (i_script i) as [|[b ok|] r]; [exact H | |].
        -- unfold M, pcs in *; simpl.
           rewrite (map_upd _ _ i_pc (inners s) k _ (fun _ => IWant b ok)) by (intros []; reflexivity).
           eapply Mc_T1; eauto.
        -- apply (M_sbt (set_inner s k (set_i_script r))); [apply shut_inner_sbt|].
           unfold M, pcs in *; simpl. rewrite map_upd_id by (intros []; reflexivity). exact H.
    + destruct (hholder s) eqn:Eh; [exact H|].
      unfold M, pcs in *; simpl. rewrite Eh in H.
      rewrite (map_upd _ _ i_pc (inners s) k _ (fun _ => ILocked b ok)) by (intros []; reflexivity).
      eapply Mc_T2; eauto.
    + destruct (fx && terminating s); unfold M, pcs in *; simpl.
      * rewrite (map_upd _ _ i_pc (inners s) k _ (fun _ => IFailRet)) by (intros []; reflexivity).
        eapply Mc_T6; eauto.
      * rewrite (map_upd _ _ i_pc (inners s) k _ (fun _ => IInH b ok)) by (intros []; reflexivity).
        eapply Mc_T3; eauto.
    + unfold M, pcs in *; simpl.
      rewrite (map_upd _ _ i_pc (inners s) k _ (fun _ => IUnl b ok)) by (intros []; reflexivity).
      eapply Mc_T4; eauto.
    + destruct ok.
      * unfold M in *. rewrite pcs_set_inner_pc. simpl. eapply Mc_T1; eauto.
      * destruct (sdst s); unfold M, pcs in *; simpl.
        -- rewrite (map_upd _ _ i_pc (inners s) k _ (fun _ => IFailRet)) by (intros []; reflexivity).
           eapply Mc_T1; eauto.
        -- rewrite (map_upd _ _ i_pc (inners s) k _ (fun _ => ISdBusy)) by (intros []; reflexivity).
           eapply Mc_T1; eauto.
    + pose proof (M_sd_advance s H) as H'. destruct (terminated (sd_advance s)); [|exact H'].
      assert (Hk' : nth_error (pcs (sd_advance s)) k = Some ISdBusy).
      { unfold sd_advance. destruct (sdst s) as [[]|]; auto. destruct (holds_slock s); auto.
        change (nth_error (pcs (shut_all (sources s) s)) k = Some ISdBusy).
        rewrite (sb_pcs _ _ (shut_all_sbt (sources s) s)). exact Hk. }
      unfold M in *. rewrite pcs_set_inner_pc. simpl. eapply Mc_T1; eauto.
    + apply (M_sbt (set_inner s k (set_i_pc IIdle))); [apply shut_inner_sbt|].
      unfold M in *. rewrite pcs_set_inner_pc. simpl. eapply Mc_T1; eauto.
    + exact H.
Qed.

Theorem mx_mutex : forall n sup sched,
  let s := run step sched (init n sup) in overlap s = false /\ hactive s <= 1.
Proof.
  intros n sup sched s.
  assert (H : M s) by (apply (run_inv step M M_step); apply M_init).
  destruct H as (H1 & H2 & H3). split; [exact H3|].
  rewrite H2. unfold hcount. destruct (hholder s); [|lia].
  destruct (nth_error (pcs s) n0) as [p|]; [destruct (inh p)|]; lia.
Qed.
End Fx.
