(* C18: the step-level theorems, the lookups, and the lifting to every state of every run. *)
From BV Require Import Base.Prelude Model.Block Model.ForkDB Model.Forkable Model.ForkableLookups
  Spec.C18_Spec Proofs.C18_Store.
Local Open Scope N_scope.

(* ---------------------------------------------------------------- PurgeBeforeLIB *)

Theorem c18_purge_bound_proof : C18_purge_bound.
Proof.
  intros d kept d'. subst d'. unfold purge_before_lib, bounded, cutoff. cbn [libref store].
  split; [reflexivity|]. split; [|split; [|reflexivity]].
  - apply Forall_forall. intros e He. apply filter_In in He. destruct He as [_ He].
    apply N.leb_le in He. exact He.
  - intros e He Hc. apply filter_In. split; [exact He | apply N.leb_le; exact Hc].
Qed.

(* ---------------------------------------------------------------- one step *)

Theorem c18_step_bounded_proof : C18_step_bounded.
Proof.
  intros cfg s b s' evs r H Hl Hmove.
  apply fk_step_shape in H. destruct H as [Y [_ [[_ Hsame]|Hf]]].
  - exfalso. apply Hmove. apply Hsame. exact Hl.
  - unfold bounded. rewrite Hf. apply Forall_forall. intros e He. apply filter_In in He.
    destruct He as [_ He]. apply N.leb_le in He. exact He.
Qed.

Lemma shape_holds kept X hl lib0 d' e :
  shape kept X hl lib0 d' -> In e X -> cutoff d' kept <= bnum (eb e) ->
  exists e', In e' (store d') /\ same_block e e'.
Proof.
  intros [Y [HY Hs]] Hin Hc. destruct (sent_ext_in _ _ _ HY Hin) as [e' [Hi Hsb]].
  exists e'. split; [|exact Hsb]. destruct Hs as [[Hs _]|Hs]; rewrite Hs; [exact Hi|].
  apply filter_In. split; [exact Hi|]. apply N.leb_le. destruct Hsb as [Hb _]. rewrite Hb. exact Hc.
Qed.

Lemma stores_incoming_link cfg s b :
  stores_incoming cfg s b = true -> exists_link (db s) (bid b) = false.
Proof.
  unfold stores_incoming. intros H. apply andb_true_iff in H. destruct H as [_ H].
  apply negb_true_iff in H. exact H.
Qed.

Theorem c18_step_purge_or_keep_proof : C18_step_purge_or_keep.
Proof.
  intros cfg s b s' evs r H. apply fk_step_shape in H. destruct H as [Y [HY [[Hs _]|Hs]]].
  - left. intros e He. destruct (sent_ext_in _ _ _ HY He) as [e' [Hi Hsb]]. exists e'. rewrite Hs. auto.
  - right. unfold bounded. rewrite Hs. apply Forall_forall. intros e He. apply filter_In in He.
    destruct He as [_ He]. apply N.leb_le in He. exact He.
Qed.

Theorem c18_step_retained_proof : C18_step_retained.
Proof.
  intros cfg s b s' evs r e H Hin Hid Hc. unfold holds.
  apply fk_step_shape in H. eapply shape_holds; [exact H| |exact Hc].
  unfold after_add. destruct (stores_incoming cfg s b) eqn:Hst; [|exact Hin].
  apply put_in_old; [exact Hin | exact Hid|].
  apply exists_link_false. cbn [eb]. apply stores_incoming_link in Hst. exact Hst.
Qed.

Theorem c18_step_incoming_proof : C18_step_incoming.
Proof.
  intros cfg s b s' evs r H. split; [|split].
  - intros Hst Hc. unfold holds. apply fk_step_shape in H.
    eapply shape_holds; [exact H| |exact Hc]. unfold after_add. rewrite Hst. apply put_in_new.
  - intros Ht Hex. eapply fk_step_dup; eauto.
  - intros e' He'. apply fk_step_shape in H. destruct H as [Y [HY Hs]].
    assert (HinY : In e' Y).
    { destruct Hs as [[Hs _]|Hs]; rewrite Hs in He'; [exact He'|]. apply filter_In in He'. tauto. }
    destruct (sent_ext_in_rev _ _ _ HY HinY) as [x [Hx Hsb]].
    unfold after_add in Hx. destruct (stores_incoming cfg s b) eqn:Hst.
    + apply put_in_inv in Hx. destruct Hx as [->|Hx].
      * right. split; [reflexivity|]. destruct Hsb as [Hb _]. exact Hb.
      * left. exists x. auto.
    + left. exists x. auto.
Qed.

(* ---------------------------------------------------------------- lookups *)

Lemma insertN_in x y l : In x (insertN y l) <-> x = y \/ In x l.
Proof.
  induction l as [|z l IH]; cbn [insertN].
  - cbn. intuition.
  - destruct (y <=? z); cbn [In]; [intuition|]. rewrite IH. intuition.
Qed.

Lemma sortN_in x l : In x (sortN l) <-> In x l.
Proof.
  induction l as [|y l IH]; cbn [sortN fold_right]; [tauto|].
  fold (sortN l). rewrite insertN_in, IH. cbn [In]. intuition.
Qed.

Theorem c18_held_found_proof : C18_held_found.
Proof.
  intros s e [e' [Hin [Hb _]]]. split.
  - unfold get_block_by_hash. destruct (find_in (bid (eb e)) _ _ Hin) as [x Hx]; [rewrite Hb; reflexivity|].
    rewrite Hx. reflexivity.
  - eexists. split; [reflexivity|]. apply sortN_in. apply in_map_iff. exists e'. split; [rewrite Hb; reflexivity|].
    apply filter_In. split; [exact Hin|]. rewrite Hb. apply N.eqb_refl.
Qed.

Theorem c18_step_found_proof : C18_step_found.
Proof.
  intros cfg s b s' evs r H Ht Hc.
  destruct (exists_link (db s) (bid b)) eqn:Hex.
  - split; [|discriminate].
    unfold get_block_by_hash. rewrite (proj1 (proj2 (c18_step_incoming_proof _ _ _ _ _ _ H)) Ht Hex).
    unfold exists_link, link_of in Hex. destruct (find (bid b) (store (db s))); [reflexivity|].
    cbn in Hex. discriminate.
  - assert (Hst : stores_incoming cfg s b = true) by (unfold stores_incoming; rewrite Ht, Hex; reflexivity).
    pose proof (proj1 (c18_step_incoming_proof _ _ _ _ _ _ H) Hst Hc) as Hh.
    apply c18_held_found_proof in Hh. cbn [eb] in Hh. destruct Hh as [Hh1 Hh2]. split; [exact Hh1 | intros _; exact Hh2].
Qed.

Theorem c18_lookups_total_proof : C18_lookups_total.
Proof.
  intros s. split; [intros h; unfold all_blocks_at; discriminate|].
  unfold lowest_block_num. destruct (last_sent s) as [b|]; [|discriminate].
  destruct (complete_segment (db s) (bref b)) as [[sg [|]]|]; try discriminate.
  destruct sg; discriminate.
Qed.

(* ---------------------------------------------------------------- every state of every run *)

(* consecutive states of a run are related by fk_step on the block at that position *)
Lemma fk_states_step : forall h cfg s0 k sk sk1,
  nth_error (states_of cfg s0 h) k = Some sk ->
  nth_error (states_of cfg s0 h) (S k) = Some sk1 ->
  exists b evs r, nth_error h k = Some b /\ fk_step cfg sk b = (sk1, evs, r).
Proof.
  unfold states_of. induction h as [|b rest IH]; intros cfg s0 k sk sk1 Hk Hk1.
  - cbn [fk_states] in Hk1. cbn [nth_error] in Hk1. destruct k; discriminate.
  - cbn [fk_states] in Hk, Hk1. destruct (fk_step cfg s0 b) as [[s1 evs] r] eqn:Hstep.
    destruct k as [|k].
    + cbn [nth_error] in Hk, Hk1. inversion Hk; inversion Hk1; subst. exists b, evs, r. auto.
    + cbn [nth_error] in Hk. change (nth_error (s0 :: ?l) (S (S k))) with (nth_error l (S k)) in Hk1.
      destruct r; try (cbn [nth_error] in Hk1; destruct k; discriminate).
      destruct (IH cfg s1 k sk sk1 Hk Hk1) as [b' [evs' [r' [Hb Hs]]]]. exists b', evs', r'. auto.
Qed.

(* the run from position k on is the run of the remaining history from the state at k *)
Lemma fk_states_suffix : forall k cfg s0 h sk j x,
  nth_error (states_of cfg s0 h) k = Some sk ->
  nth_error (states_of cfg s0 h) (k + j) = Some x ->
  nth_error (states_of cfg sk (skipn k h)) j = Some x.
Proof.
  unfold states_of. induction k as [|k IH]; intros cfg s0 h sk j x Hk Hx.
  - cbn [nth_error] in Hk. inversion Hk; subst. exact Hx.
  - destruct h as [|b rest]; [cbn [fk_states nth_error] in Hk; destruct k; discriminate|].
    cbn [fk_states] in Hk, Hx. destruct (fk_step cfg s0 b) as [[s1 evs] r] eqn:Hstep.
    cbn [nth_error Nat.add skipn] in Hk, Hx |- *.
    destruct r; try (destruct k; [|cbn [nth_error] in Hk; destruct k; discriminate];
                     cbn [nth_error] in Hk; inversion Hk; subst;
                     destruct j; [cbn [Nat.add nth_error] in Hx |- *; exact Hx |
                                  cbn [Nat.add nth_error] in Hx; destruct j; discriminate]).
    eapply IH; eauto.
Qed.

Theorem c18_run_bounded_proof : C18_run_bounded.
Proof.
  intros cfg s0 h k sk sk1 Hk Hk1 Hl Hm.
  destruct (fk_states_step _ _ _ _ _ _ Hk Hk1) as [b [evs [r [_ Hs]]]].
  eapply c18_step_bounded_proof; eauto.
Qed.

Lemma same_block_holds s e e' : same_block e e' -> holds s e' -> holds s e.
Proof. intros Hs [x [Hin Hx]]. exists x. split; [exact Hin | eapply same_block_trans; eauto]. Qed.

(* retention from the initial state over the first m steps *)
Lemma run_retained_from_start : forall m cfg s0 h sm e,
  nth_error (states_of cfg s0 h) m = Some sm ->
  In e (store (db s0)) ->
  (forall j b, (j < m)%nat -> nth_error h j = Some b -> bid (eb e) = bid b -> bparent (eb e) <> 0) ->
  (forall j sj, (0 < j <= m)%nat -> nth_error (states_of cfg s0 h) j = Some sj ->
                cutoff (db sj) (c_kept cfg) <= bnum (eb e)) ->
  holds sm e.
Proof.
  induction m as [|m IH]; intros cfg s0 h sm e Hm Hin Hid Hc.
  - unfold states_of in Hm. cbn [nth_error] in Hm. inversion Hm; subst. exists e. split; [exact Hin | apply same_block_refl].
  - assert (H0 : nth_error (states_of cfg s0 h) 0 = Some s0) by reflexivity.
    destruct (nth_error (states_of cfg s0 h) 1) as [s1|] eqn:H1.
    2:{ exfalso. apply nth_error_None in H1. assert (nth_error (states_of cfg s0 h) (S m) <> None) by congruence.
        apply nth_error_Some in H. lia. }
    destruct (fk_states_step _ _ _ _ _ _ H0 H1) as [b [evs [r [Hb Hs]]]].
    assert (Hh1 : holds s1 e).
    { eapply c18_step_retained_proof; [exact Hs | exact Hin | |].
      - intros Heq. eapply (Hid 0%nat b); [lia | exact Hb | exact Heq].
      - apply (Hc 1%nat s1); [lia | exact H1]. }
    destruct Hh1 as [e1 [Hin1 Hsb1]].
    assert (Hsuf : forall j x, nth_error (states_of cfg s0 h) (1 + j) = Some x ->
                               nth_error (states_of cfg s1 (skipn 1 h)) j = Some x).
    { intros j x Hx. eapply fk_states_suffix; eauto. }
    apply (same_block_holds _ _ _ Hsb1).
    destruct Hsb1 as [Heb _].
    apply (IH cfg s1 (skipn 1 h) sm e1).
    + apply Hsuf. exact Hm.
    + exact Hin1.
    + intros j b' Hj Hb' Heq. rewrite Heb in *. apply (Hid (S j) b'); [lia| |exact Heq].
      destruct h as [|b0 rest]; [discriminate|]. cbn [skipn] in Hb'. exact Hb'.
    + intros j sj Hj Hsj. rewrite Heb.
      destruct (nth_error (states_of cfg s0 h) (1 + j)) as [y|] eqn:Hy.
      * pose proof (Hsuf _ _ Hy) as Hy'. rewrite Hsj in Hy'. inversion Hy'; subst.
        apply (Hc (S j) y); [lia | exact Hy].
      * (* the original run stopped earlier than S m: impossible for j <= m *)
        exfalso. apply nth_error_None in Hy.
        assert (nth_error (states_of cfg s0 h) (S m) <> None) by congruence.
        apply nth_error_Some in H. lia.
Qed.

Lemma nth_error_skipn_add {A} : forall k (l : list A) j, nth_error (skipn k l) j = nth_error l (k + j).
Proof.
  induction k as [|k IH]; intros l j; [reflexivity|].
  destruct l as [|x l]; cbn [skipn Nat.add nth_error]; [destruct j; reflexivity | apply IH].
Qed.

Theorem c18_run_retained_proof : C18_run_retained.
Proof.
  intros cfg s0 h k m sk sm e Hkm Hk Hm Hin Hid Hc.
  replace m with (k + (m - k))%nat in Hm by lia.
  pose proof (fk_states_suffix _ _ _ _ _ _ _ Hk Hm) as Hm'.
  eapply run_retained_from_start; [exact Hm' | exact Hin | |].
  - intros j b Hj Hb Heq. apply (Hid (k + j)%nat b); [lia| |exact Heq].
    rewrite nth_error_skipn_add in Hb. exact Hb.
  - intros j sj Hj Hsj.
    destruct (nth_error (states_of cfg s0 h) (k + j)) as [y|] eqn:Hy.
    + pose proof (fk_states_suffix _ _ _ _ _ _ _ Hk Hy) as Hy'. rewrite Hsj in Hy'. inversion Hy'; subst.
      apply (Hc (k + j)%nat y); [lia | exact Hy].
    + exfalso. apply nth_error_None in Hy.
      assert (nth_error (states_of cfg s0 h) (k + (m - k)) <> None) by congruence.
      apply nth_error_Some in H. lia.
Qed.

Theorem c18_run_received_found_proof : C18_run_received_found.
Proof.
  intros cfg s0 h k m b sk sm Hkm Hb Hk Hm Hst Hid Hc.
  destruct (nth_error (states_of cfg s0 h) (S k)) as [sk1|] eqn:Hk1.
  2:{ exfalso. apply nth_error_None in Hk1. assert (nth_error (states_of cfg s0 h) m <> None) by congruence.
      apply nth_error_Some in H. lia. }
  destruct (fk_states_step _ _ _ _ _ _ Hk Hk1) as [b' [evs [r [Hb' Hs]]]].
  rewrite Hb in Hb'. inversion Hb'; subst b'.
  assert (Hh : holds sk1 (mkEntry b false)).
  { apply (proj1 (c18_step_incoming_proof _ _ _ _ _ _ Hs) Hst). apply (Hc (S k) sk1); [lia | exact Hk1]. }
  destruct Hh as [e1 [Hin1 Hsb1]]. pose proof Hsb1 as [Heb _]. cbn [eb] in Heb.
  assert (Hfin : holds sm (mkEntry b false)).
  { apply (same_block_holds _ _ _ Hsb1).
    eapply (c18_run_retained_proof cfg s0 h (S k) m sk1 sm e1); [lia | exact Hk1 | exact Hm | exact Hin1 | |].
    - intros j b2 Hj Hb2 Heq. rewrite Heb in *. apply (Hid j b2); [lia | exact Hb2 | exact Heq].
    - intros j sj Hj Hsj. rewrite Heb. apply (Hc j sj); [lia | exact Hsj]. }
  split; [exact Hfin|]. apply c18_held_found_proof in Hfin. cbn [eb] in Hfin. exact Hfin.
Qed.

Theorem c18_run_received_at_lib_proof : C18_run_received_at_lib.
Proof.
  intros cfg s0 h k m b sk sm Hkm Hb Hk Hm Hst Hid Hmono Hlib.
  eapply c18_run_received_found_proof; eauto.
  intros j sj Hj Hsj. pose proof (Hmono j sj Hj Hsj). unfold cutoff. lia.
Qed.

Theorem c18_run_lookups_total_proof : C18_run_lookups_total.
Proof. intros cfg s0 h s _. apply c18_lookups_total_proof. Qed.
