(* C07 composition, part 8: target-cursor mode (j_mode = 2).  File side: the resolver in pass-through mode hands
   over a beginning of the delivery as new+irreversible (C06_Through.v phases).  Hub side: hub_through_cursor for
   a number n answers with every retained canonical block numbered >= n (from_num when the cursor block lies
   below n; the snapshot branch of blocks_through_cursor when the cursor block is on the hub's chain); the
   branch "cursor block stored off the chain" is excluded by hypothesis (target_on_chain). *)
From Coq Require Import Sorted.
From BV Require Import Base.Prelude Model.Block Model.ForkDB Model.Forkable Model.ForkableLookups Model.Burst Model.Hub
  Model.CursorResolver Model.Joining
  Spec.Consumer Spec.Universe Check.Fk_Check Check.Burst_Check Check.C07_Check
  Spec.C09_Spec Spec.C05_Spec Spec.C06_Spec Spec.C07_Spec Spec.C13_Spec Spec.C07_Compose_Spec
  Spec.C01_Spec Spec.C01_Moving_Spec Spec.C01_Roots_Spec
  Proofs.C06_Lists Proofs.C06_Resolver Proofs.C06_Proofs Proofs.C06_Through Proofs.C13_Proofs
  Proofs.C09_Store Proofs.C09_Segment Proofs.C09_Proofs Proofs.C05_Fast Proofs.C05_Forked
  Proofs.Fk.LoopFacts Proofs.Fk.MovingLibDisc Proofs.C02_Proofs Proofs.C01_Roots_Proofs
  Proofs.Hub.ConsFacts Proofs.Hub.HubFed Proofs.Hub.LinkedRuns Proofs.Hub.C09_History
  Proofs.C07_File Proofs.C07_ComposeStack Proofs.C07_ComposeHub Proofs.C07_ComposeRun Proofs.C07_Compose
  Proofs.C07_ComposeCursor Proofs.C07_ComposeCursorLive Proofs.C07_ComposeCursorAll.
Local Open Scope N_scope.

(* ------------------------------------------------------------------ the resolver in pass-through mode *)

Lemma first_with_id id : forall l : list block,
  Forall (fun x => bid x <> id) l \/
  exists l1 h l2, l = l1 ++ h :: l2 /\ bid h = id /\ Forall (fun x => bid x <> id) l1.
Proof.
  induction l as [|a l IH]; [left; constructor|].
  destruct (N.eq_dec (bid a) id) as [E|E].
  - right. exists [], a, l. split; [reflexivity|]. split; [exact E | constructor].
  - destruct IH as [H|(l1 & h & l2 & -> & Hh & Hl1)].
    + left. constructor; assumption.
    + right. exists (a :: l1), h, l2. split; [reflexivity|]. split; [exact Hh | constructor; assumption].
Qed.

(* an ascending delivery in which the cursor id, if present, carries the cursor number: what is handed over is
   a beginning of the delivery, as new+irreversible; the run ends normally or with "not implemented" *)
Lemma through_prefix c forked D : asc D ->
  (forall b, In b D -> bid b = ri (cu_blk c) -> bnum b = rn (cu_blk c)) ->
  exists D1 D2, D = D1 ++ D2 /\
    fst (resolver_run c true forked rs_init D) = map fev D1 /\
    (snd (resolver_run c true forked rs_init D) = RsOk \/ snd (resolver_run c true forked rs_init D) = RsNotImplemented) /\
    (* when the delivery contains the cursor block and the run ends normally everything was handed over *)
    ((exists b, In b D /\ bid b = ri (cu_blk c)) -> snd (resolver_run c true forked rs_init D) = RsOk -> D2 = []).
Proof.
  intros Hasc Hcons. destruct (through_split c D Hasc) as (low & mid & top & -> & Hlow & Hmid & Htop & _).
  destruct (first_with_id (ri (cu_blk c)) low) as [Hnone|(l1 & h & l2 & -> & Hh & Hl1)].
  - (* the cursor block is not passed at or below the LIB *)
    assert (Hl2 : Forall (fun x => bnum x <= rn (cu_lib c) /\ bid x <> ri (cu_blk c)) low).
    { rewrite Forall_forall in *. intros x Hx. split; [apply Hlow | apply Hnone]; exact Hx. }
    unfold rs_init. rewrite (pass_low c forked low [] (mid ++ top) Hl2), (pass_buffer c forked mid [] top Hmid). cbn [app fst snd].
    destruct top as [|b post].
    + exists low, mid. cbn [resolver_run fst snd]. rewrite !app_nil_r. split; [reflexivity|]. split; [reflexivity|]. split; [left; reflexivity|].
      intros (b & Hb & Eb) _. exfalso. apply in_app_or in Hb as [Hb|Hb].
      * rewrite Forall_forall in Hnone. exact (Hnone b Hb Eb).
      * assert (Hbn : bnum b = rn (cu_blk c)) by (apply Hcons; [apply in_or_app; right; rewrite app_nil_r; exact Hb | exact Eb]).
        rewrite Forall_forall in Hmid. specialize (Hmid b Hb). lia.
    + pose proof (Forall_inv Htop) as [Hb1 Hb2]. destruct (N.eq_dec (bid b) (ri (cu_blk c))) as [Eb|Eb].
      * rewrite (pass_hit c forked mid b post Hb1 Hb2 Eb). cbn [fst snd]. rewrite sb_between.
        assert (Hbn : bnum b = rn (cu_blk c)).
        { apply Hcons; [|exact Eb]. apply in_or_app. right. apply in_or_app. right. left. reflexivity. }
        assert (Ebt : between (rn (cu_lib c)) (rn (cu_blk c)) (mid ++ [b]) = mid ++ [b]).
        { unfold between. apply (Proofs.C06_Lists.filter_all _ _ (mid ++ [b])). apply Forall_app. split.
          - eapply Forall_impl; [|exact Hmid]. cbn beta. intros x [H1 H2]. apply andb_true_iff. split; [apply N.ltb_lt | apply N.leb_le]; lia.
          - constructor; [|constructor]. apply andb_true_iff. split; [apply N.ltb_lt | apply N.leb_le]; lia. }
        rewrite Ebt. exists (low ++ mid ++ b :: post), []. rewrite app_nil_r. split; [reflexivity|]. split; [|split; [left; reflexivity | intros _ _; reflexivity]].
        rewrite !map_app. cbn [map]. rewrite <- !app_assoc. reflexivity.
      * rewrite (pass_miss c forked mid b post Hb1 Hb2 Eb). cbn [fst snd]. rewrite app_nil_r.
        exists low, (mid ++ b :: post). split; [reflexivity|]. split; [reflexivity|]. split; [right; reflexivity | intros _ E; discriminate].
  - (* a final target cursor: recognised while passing *)
    apply Forall_app in Hlow as [Hlow1 Hlow2]. pose proof (Forall_inv Hlow2) as Hhn. cbn beta in Hhn.
    assert (Hl2 : Forall (fun x => bnum x <= rn (cu_lib c) /\ bid x <> ri (cu_blk c)) l1).
    { rewrite Forall_forall in *. intros x Hx. split; [apply Hlow1 | apply Hl1]; exact Hx. }
    unfold rs_init. rewrite <- !app_assoc. cbn [app].
    rewrite (pass_low c forked l1 [] (h :: l2 ++ mid ++ top) Hl2), (pass_low_hit c forked [] h (l2 ++ mid ++ top) Hhn Hh). cbn [fst snd].
    exists (l1 ++ h :: l2 ++ mid ++ top), []. rewrite app_nil_r. split; [reflexivity|]. split; [|split; [left; reflexivity | intros _ _; reflexivity]].
    rewrite map_app. reflexivity.
Qed.

(* the same for the file source of the target-cursor mode, which ignores a cursor below the start block *)
Lemma through_run_prefix canon forked start c stop bundle :
  asc (file_delivery canon start stop bundle) ->
  (forall b, In b (file_delivery canon start stop bundle) -> bid b = ri (cu_blk c) -> bnum b = rn (cu_blk c)) ->
  exists D1 D2, file_delivery canon start stop bundle = D1 ++ D2 /\
    fst (through_cursor_run canon forked start c stop bundle) = map fev D1 /\
    (snd (through_cursor_run canon forked start c stop bundle) = RsOk \/
     snd (through_cursor_run canon forked start c stop bundle) = RsNotImplemented) /\
    ((rn (cu_blk c) < start \/ exists b, In b (file_delivery canon start stop bundle) /\ bid b = ri (cu_blk c)) ->
     snd (through_cursor_run canon forked start c stop bundle) = RsOk -> D2 = []).
Proof.
  intros Hasc Hcons. unfold through_cursor_run, through_resolver_run. destruct (N.ltb_spec (rn (cu_blk c)) start) as [Hlt|Hge].
  - exists (file_delivery canon start stop bundle), []. rewrite app_nil_r. cbn [fst snd]. auto.
  - destruct (through_prefix c forked _ Hasc Hcons) as (D1 & D2 & E & H1 & H2 & H3).
    exists D1, D2. split; [exact E|]. split; [exact H1|]. split; [exact H2|].
    intros [Hl|Hex]; [lia | exact (H3 Hex)].
Qed.

(* ------------------------------------------------------------------ hub_through_cursor for a number *)

Section Through.
  Variable U : list block.
  Variables first kept : N.
  Hypothesis U_id : forall b, In b U -> bid b <> 0 /\ bid b <> bparent b.
  Hypothesis U_uniq : forall x y, In x U -> In y U -> bid x = bid y -> x = y.
  Hypothesis U_up : forall x y, In x U -> In y U -> bparent x = bid y -> bnum y < bnum x.

  (* the answer: the part of the head's segment numbered >= n, as snapshot events *)
  Lemma hub_through_shape s V n cu burst :
    VState U first kept s V ->
    (forall hd sg, last_sent s = Some hd -> complete_segment (db s) (bref hd) = Some (sg, true) ->
       find (ri (cu_blk cu)) (store (db s)) <> None -> block_in (ri (cu_blk cu)) sg = true) ->
    hub_through_cursor s n cu = BOk burst ->
    exists hd sg pre post,
      last_sent s = Some hd /\ complete_segment (db s) (bref hd) = Some (sg, true) /\ good_seg sg /\
      sg = pre ++ post /\ (forall y, In y pre -> snum y < n) /\ (forall y, In y post -> n <= snum y) /\
      burst = map (snap_event s hd) post /\
      (pre = [] -> post <> [] -> exists x0 r, post = x0 :: r /\ snum x0 = n) /\
      (post <> [] \/ (block_in (ri (cu_blk cu)) sg = true /\ n <= rn (cu_blk cu))).
  Proof.
    intros HV Hon Hb.
    destruct (vstate_facts U first kept U_id U_uniq U_up s V HV) as (_ & _ & W & hd & Hls & _).
    unfold hub_through_cursor in Hb. destruct (rn (cu_blk cu) <? n) eqn:En.
    - (* below the requested number: as from a block number *)
      pose proof (c09_from_num_proof s n W) as Hspec. unfold from_num_spec in Hspec. rewrite Hb in Hspec.
      destruct Hspec as (hd' & sg & pre & x & suf & (_ & Hls' & Eseg & Hsg & Hnx & Hpre & Hsuf) & Hevs & _).
      rewrite Hls in Hls'. injection Hls' as <-.
      destruct (vstate_segment U first kept U_id U_uniq U_up s V hd sg true HV Hls Eseg) as (Hgood & _ & _).
      pose proof Hgood as [Hstd _ _ _].
      assert (Hn : forall y, In y sg -> snum y = bnum (seg_blk y)).
      { intros y Hy. rewrite Forall_forall in Hstd. exact (proj2 (Hstd y Hy)). }
      exists hd, sg, pre, (x :: suf). split; [exact Hls|]. split; [exact Eseg|]. split; [exact Hgood|]. split; [exact Hsg|].
      split; [|split; [|split; [exact Hevs|]]].
      + intros y Hy. rewrite (Hn y); [apply Hpre; exact Hy | rewrite Hsg; apply in_or_app; left; exact Hy].
      + intros y [<-|Hy].
        * rewrite (Hn x); [lia | rewrite Hsg; apply in_or_app; right; left; reflexivity].
        * rewrite (Hn y); [specialize (Hsuf y Hy); lia | rewrite Hsg; apply in_or_app; right; right; exact Hy].
      + split; [|left; discriminate]. intros _ _. exists x, suf. split; [reflexivity|]. rewrite (Hn x); [exact Hnx | rewrite Hsg; apply in_or_app; right; left; reflexivity].
    - (* through the cursor *)
      unfold blocks_through_cursor in Hb.
      destruct (has_lib (db s)); [|discriminate]. cbn [negb] in Hb. rewrite Hls in Hb.
      destruct (complete_segment (db s) (bref hd)) as [[sg [|]]|] eqn:Eseg; try discriminate.
      2:{ destruct sg; discriminate. }
      destruct sg as [|s0 sg0]; [discriminate|]. set (sg := s0 :: sg0) in *.
      destruct (n <? snum s0) eqn:En0; [discriminate|]. apply N.ltb_ge in En0.
      destruct (vstate_segment U first kept U_id U_uniq U_up s V hd sg true HV Hls Eseg) as (Hgood & _ & _).
      destruct (block_in (ri (cu_blk cu)) sg) eqn:Eblk.
      + (* the snapshot *)
        injection Hb as <-. pose proof Hgood as [Hstd _ Hinc _].
        assert (HS : StronglySorted (fun x y => snum x < snum y) sg).
        { clear - Hstd Hinc. induction Hinc as [|x l HS IH Hall]; [constructor|].
          inversion Hstd as [|? ? Hx Hstd']; subst. constructor; [auto|].
          rewrite Forall_forall in *. intros y Hy. apply snum_lt_of; auto. }
        destruct (mono_filter_suffix _ (fun x => negb (snum x <? n)) sg HS) as (pre & Esg & Hpre).
        { intros x y Hxy Hx. apply negb_true_iff, N.ltb_ge in Hx. apply negb_true_iff, N.ltb_ge. lia. }
        set (post := filter (fun x => negb (snum x <? n)) sg) in *.
        exists hd, sg, pre, post. split; [exact Hls|]. split; [exact Eseg|]. split; [exact Hgood|]. split; [exact Esg|].
        split; [|split; [|split]].
        * intros y Hy. destruct (snum y <? n) eqn:E; [apply N.ltb_lt; exact E|]. exfalso.
          assert (Hin : In y (filter (fun x => negb (snum x <? n)) pre)) by (apply filter_In; split; [exact Hy | rewrite E; reflexivity]).
          rewrite Hpre in Hin. destruct Hin.
        * intros y Hy. unfold post in Hy. apply filter_In in Hy as [_ Hy]. apply negb_true_iff, N.ltb_ge in Hy. exact Hy.
        * assert (E : forall x, In x sg ->
                    (if snum x <? n then [] else [wrap x (if snum x <=? rn (libref (db s)) then SNewIrr else SNew) (bref hd)
                                                    (if snum x <? rn (libref (db s)) then seg_ref x else libref (db s)) None])
                    = (if negb (snum x <? n) then [snap_event s hd x] else [])).
          { intros x Hx. destruct (snum x <? n); [reflexivity|]. cbn [negb]. f_equal. apply wrap_snap.
            rewrite Forall_forall in Hstd. apply Hstd. exact Hx. }
          assert (Hfm : flat_map (fun x => if snum x <? n then [] else [wrap x (if snum x <=? rn (libref (db s)) then SNewIrr else SNew) (bref hd)
                                                    (if snum x <? rn (libref (db s)) then seg_ref x else libref (db s)) None]) sg
                        = map (snap_event s hd) post).
          { rewrite (flat_map_ext_in _ _ sg E). apply flat_map_keep. }
          exact Hfm.
        * split; [|right; split; [exact Eblk | apply N.ltb_ge; exact En]].
          intros Hp0 Hne. subst pre. cbn [app] in Esg. destruct post as [|x0 r] eqn:Ep; [contradiction|].
          exists x0, r. split; [reflexivity|].
          assert (Ex0 : x0 = s0) by (unfold sg in Esg; injection Esg as E _; symmetry; exact E).
          assert (Hx0 : n <= snum x0).
          { assert (Hin : In x0 post) by (rewrite Ep; left; reflexivity). unfold post in Hin. apply filter_In in Hin as [_ H].
            apply negb_true_iff, N.ltb_ge in H. exact H. }
          rewrite Ex0 in *. lia.
      + (* the cursor block is not on the chain: it is not stored either, so no answer *)
        exfalso.
        destruct (complete_segment (db s) (cu_blk cu)) as [[csg [|]]|] eqn:Ecs; try discriminate.
        2:{ destruct csg; discriminate. }
        destruct csg as [|c0 csg0]; [discriminate|].
        pose proof (complete_segment_segment_of _ _ _ _ Ecs) as [Hcst _ Hctop _ _].
        destruct (exists_last (l := c0 :: csg0)) as (q & z & Ez); [discriminate|].
        destruct (Hctop q z Ez) as (Hzid & _ & _).
        assert (Hzst : find (sid z) (store (db s)) = Some (sent z)) by (apply Hcst; rewrite Ez; apply in_or_app; right; left; reflexivity).
        rewrite Hzid in Hzst. rewrite (Hon hd sg Hls Eseg) in Eblk; [discriminate|]. rewrite Hzst. discriminate.
  Qed.

  (* the same without the hypothesis on the cursor block: either the cursor block is off the head's segment (and at or
     above n: the answer is the cursor's own branch followed by blocks_from_cursor), or the snapshot as above *)
  Lemma hub_through_shape_gen s V n cu burst :
    VState U first kept s V ->
    hub_through_cursor s n cu = BOk burst ->
    exists hd sg,
      last_sent s = Some hd /\ complete_segment (db s) (bref hd) = Some (sg, true) /\ good_seg sg /\
      ((n <= rn (cu_blk cu) /\ block_in (ri (cu_blk cu)) sg = false /\ blocks_through_cursor s n cu = BOk burst) \/
       ((rn (cu_blk cu) < n \/ block_in (ri (cu_blk cu)) sg = true) /\ exists pre post,
      sg = pre ++ post /\ (forall y, In y pre -> snum y < n) /\ (forall y, In y post -> n <= snum y) /\
      burst = map (snap_event s hd) post /\
      (pre = [] -> post <> [] -> exists x0 r, post = x0 :: r /\ snum x0 = n) /\
      (post <> [] \/ (block_in (ri (cu_blk cu)) sg = true /\ n <= rn (cu_blk cu))))).
  Proof.
    intros HV Hb.
    destruct (vstate_facts U first kept U_id U_uniq U_up s V HV) as (_ & _ & W & hd & Hls & _).
    unfold hub_through_cursor in Hb. destruct (rn (cu_blk cu) <? n) eqn:En.
    - (* below the requested number: as from a block number *)
      pose proof (c09_from_num_proof s n W) as Hspec. unfold from_num_spec in Hspec. rewrite Hb in Hspec.
      destruct Hspec as (hd' & sg & pre & x & suf & (_ & Hls' & Eseg & Hsg & Hnx & Hpre & Hsuf) & Hevs & _).
      rewrite Hls in Hls'. injection Hls' as <-.
      destruct (vstate_segment U first kept U_id U_uniq U_up s V hd sg true HV Hls Eseg) as (Hgood & _ & _).
      pose proof Hgood as [Hstd _ _ _].
      assert (Hn : forall y, In y sg -> snum y = bnum (seg_blk y)).
      { intros y Hy. rewrite Forall_forall in Hstd. exact (proj2 (Hstd y Hy)). }
      exists hd, sg. split; [exact Hls|]. split; [exact Eseg|]. split; [exact Hgood|]. right. split; [left; apply N.ltb_lt; exact En|]. exists pre, (x :: suf). split; [exact Hsg|].
      split; [|split; [|split; [exact Hevs|]]].
      + intros y Hy. rewrite (Hn y); [apply Hpre; exact Hy | rewrite Hsg; apply in_or_app; left; exact Hy].
      + intros y [<-|Hy].
        * rewrite (Hn x); [lia | rewrite Hsg; apply in_or_app; right; left; reflexivity].
        * rewrite (Hn y); [specialize (Hsuf y Hy); lia | rewrite Hsg; apply in_or_app; right; right; exact Hy].
      + split; [|left; discriminate]. intros _ _. exists x, suf. split; [reflexivity|]. rewrite (Hn x); [exact Hnx | rewrite Hsg; apply in_or_app; right; left; reflexivity].
    - (* through the cursor *)
      pose proof Hb as Hb0. unfold blocks_through_cursor in Hb.
      destruct (has_lib (db s)); [|discriminate]. cbn [negb] in Hb. rewrite Hls in Hb.
      destruct (complete_segment (db s) (bref hd)) as [[sg [|]]|] eqn:Eseg; try discriminate.
      2:{ destruct sg; discriminate. }
      destruct sg as [|s0 sg0]; [discriminate|]. set (sg := s0 :: sg0) in *.
      destruct (n <? snum s0) eqn:En0; [discriminate|]. apply N.ltb_ge in En0.
      destruct (vstate_segment U first kept U_id U_uniq U_up s V hd sg true HV Hls Eseg) as (Hgood & _ & _).
      destruct (block_in (ri (cu_blk cu)) sg) eqn:Eblk.
      + (* the snapshot *)
        injection Hb as <-. pose proof Hgood as [Hstd _ Hinc _].
        assert (HS : StronglySorted (fun x y => snum x < snum y) sg).
        { clear - Hstd Hinc. induction Hinc as [|x l HS IH Hall]; [constructor|].
          inversion Hstd as [|? ? Hx Hstd']; subst. constructor; [auto|].
          rewrite Forall_forall in *. intros y Hy. apply snum_lt_of; auto. }
        destruct (mono_filter_suffix _ (fun x => negb (snum x <? n)) sg HS) as (pre & Esg & Hpre).
        { intros x y Hxy Hx. apply negb_true_iff, N.ltb_ge in Hx. apply negb_true_iff, N.ltb_ge. lia. }
        set (post := filter (fun x => negb (snum x <? n)) sg) in *.
        exists hd, sg. split; [exact Hls|]. split; [exact Eseg|]. split; [exact Hgood|]. right. split; [right; exact Eblk|]. exists pre, post. split; [exact Esg|].
        split; [|split; [|split]].
        * intros y Hy. destruct (snum y <? n) eqn:E; [apply N.ltb_lt; exact E|]. exfalso.
          assert (Hin : In y (filter (fun x => negb (snum x <? n)) pre)) by (apply filter_In; split; [exact Hy | rewrite E; reflexivity]).
          rewrite Hpre in Hin. destruct Hin.
        * intros y Hy. unfold post in Hy. apply filter_In in Hy as [_ Hy]. apply negb_true_iff, N.ltb_ge in Hy. exact Hy.
        * assert (E : forall x, In x sg ->
                    (if snum x <? n then [] else [wrap x (if snum x <=? rn (libref (db s)) then SNewIrr else SNew) (bref hd)
                                                    (if snum x <? rn (libref (db s)) then seg_ref x else libref (db s)) None])
                    = (if negb (snum x <? n) then [snap_event s hd x] else [])).
          { intros x Hx. destruct (snum x <? n); [reflexivity|]. cbn [negb]. f_equal. apply wrap_snap.
            rewrite Forall_forall in Hstd. apply Hstd. exact Hx. }
          assert (Hfm : flat_map (fun x => if snum x <? n then [] else [wrap x (if snum x <=? rn (libref (db s)) then SNewIrr else SNew) (bref hd)
                                                    (if snum x <? rn (libref (db s)) then seg_ref x else libref (db s)) None]) sg
                        = map (snap_event s hd) post).
          { rewrite (flat_map_ext_in _ _ sg E). apply flat_map_keep. }
          exact Hfm.
        * split; [|right; split; [exact Eblk | apply N.ltb_ge; exact En]].
          intros Hp0 Hne. subst pre. cbn [app] in Esg. destruct post as [|x0 r] eqn:Ep; [contradiction|].
          exists x0, r. split; [reflexivity|].
          assert (Ex0 : x0 = s0) by (unfold sg in Esg; injection Esg as E _; symmetry; exact E).
          assert (Hx0 : n <= snum x0).
          { assert (Hin : In x0 post) by (rewrite Ep; left; reflexivity). unfold post in Hin. apply filter_In in Hin as [_ H].
            apply negb_true_iff, N.ltb_ge in H. exact H. }
          rewrite Ex0 in *. lia.
      + (* the cursor block is not on the chain *)
        exists hd, sg. split; [exact Hls|]. split; [exact Eseg|]. split; [exact Hgood|]. left.
        split; [apply N.ltb_ge; exact En|]. split; [exact Eblk | exact Hb0].
  Qed.

  (* a suffix x :: suf of the head's segment: blocks of the universe, parent-linked, ending with the head *)
  Lemma seg_post_facts s V hd sg pre x suf :
    VState U first kept s V -> last_sent s = Some hd -> complete_segment (db s) (bref hd) = Some (sg, true) ->
    sg = pre ++ x :: suf ->
    hd_error V = Some hd /\
    Forall (fun y => In y U) (seg_blk x :: map seg_blk suf) /\
    lnk (bid (seg_blk x)) (map seg_blk suf) /\
    (exists l, seg_blk x :: map seg_blk suf = l ++ [hd]) /\
    (forall y, In y sg -> snum y <= bnum hd).
  Proof.
    intros HV Hls Eseg Hsg.
    destruct (vstate_facts U first kept U_id U_uniq U_up s V HV) as (_ & HcV & _ & hd' & Hls' & Hhd).
    rewrite Hls in Hls'. injection Hls' as <-.
    destruct (vstate_segment U first kept U_id U_uniq U_up s V hd sg true HV Hls Eseg) as (Hgood & HsU & pre' & z & Hsg' & Hz).
    destruct (good_seg_split sg pre x suf Hgood Hsg) as (_ & _ & Hstd & Hlk).
    assert (HsufU : Forall (fun y => In y U) (map seg_blk (x :: suf))).
    { apply Forall_forall. intros y Hy. apply in_map_iff in Hy as (q & <- & Hq). rewrite Forall_forall in HsU. apply HsU.
      rewrite Hsg. apply in_or_app. right. exact Hq. }
    assert (HhdU : In hd U).
    { destruct HcV as [HU _]. destruct V; [discriminate|]. cbn [hd_error] in Hhd. injection Hhd as <-. exact (Forall_inv HU). }
    assert (Hzin : In z sg) by (rewrite Hsg'; apply in_or_app; right; left; reflexivity).
    pose proof Hgood as [Hstdall _ Hinc _].
    assert (Ehd : seg_blk z = hd).
    { apply U_uniq; [rewrite Forall_forall in HsU; apply HsU; exact Hzin | exact HhdU|].
      rewrite Forall_forall in Hstdall. destruct (Hstdall z Hzin) as [Hz1 _]. congruence. }
    split; [exact Hhd|]. split; [exact HsufU|]. split.
    { pose proof (Forall_inv Hstd) as [Hx1 _]. rewrite <- Hx1. apply seg_linked; assumption. }
    split.
    { destruct (exists_last (l := x :: suf)) as (l' & z' & El); [discriminate|].
      assert (Ez : z' = z).
      { rewrite Hsg, El, app_assoc in Hsg'. apply app_inj_tail in Hsg' as [_ E]. exact E. }
      subst z'. exists (map seg_blk l'). change (seg_blk x :: map seg_blk suf) with (map seg_blk (x :: suf)).
      rewrite El, map_app. cbn [map]. rewrite Ehd. reflexivity. }
    intros y Hy. rewrite Hsg' in Hinc, Hy.
    assert (Hzn : snum z = bnum hd).
    { rewrite Forall_forall in Hstdall. destruct (Hstdall z Hzin) as [_ H]. rewrite H, Ehd. reflexivity. }
    apply in_app_or in Hy as [Hy|[<-|[]]]; [|lia].
    destruct (Proofs.C09_Proofs.StronglySorted_split seg_lt pre' z [] Hinc) as [Hlt _].
    rewrite Forall_forall in Hstdall.
    assert (H : snum y < snum z).
    { apply snum_lt_of; [apply Hstdall; rewrite Hsg'; apply in_or_app; left; exact Hy | apply Hstdall; exact Hzin | apply Hlt; exact Hy]. }
    lia.
  Qed.

  (* two parent-linked runs through the same block B: a block of the second at or below B and not below the first's
     bottom is on the first *)
  Lemma anc_on_run (G Cn : list block) (g0 : block) (G' : list block) (B bn : block) :
    G = g0 :: G' -> (exists x, lnk x G) -> (exists x, lnk x Cn) ->
    Forall (fun y => In y U) G -> Forall (fun y => In y U) Cn ->
    In B G -> In B Cn -> In bn Cn -> bnum bn <= bnum B -> bnum g0 <= bnum bn -> In bn G.
  Proof.
    intros EG [xg HlG] [xc HlC] HGU HCU HBG HBC Hbn Hle Hg0.
    destruct (in_split _ _ HBG) as (G1 & G2 & EG1). destruct (in_split _ _ HBC) as (C1 & C2 & EC1).
    assert (HlG1 : lnk xg (G1 ++ [B])).
    { apply (linked_prefix xg (G1 ++ [B]) G2). rewrite <- app_assoc. cbn [app]. rewrite <- EG1. exact HlG. }
    assert (HlC1 : lnk xc (C1 ++ [B])).
    { apply (linked_prefix xc (C1 ++ [B]) C2). rewrite <- app_assoc. cbn [app]. rewrite <- EC1. exact HlC. }
    assert (HGU1 : Forall (fun y => In y U) (G1 ++ [B])).
    { rewrite EG1 in HGU. apply Forall_app in HGU as [H1 H2]. apply Forall_app. split; [exact H1|].
      constructor; [exact (Forall_inv H2) | constructor]. }
    assert (HCU1 : Forall (fun y => In y U) (C1 ++ [B])).
    { rewrite EC1 in HCU. apply Forall_app in HCU as [H1 H2]. apply Forall_app. split; [exact H1|].
      constructor; [exact (Forall_inv H2) | constructor]. }
    pose proof (linked_sorted U U_id U_uniq U_up Cn xc HlC HCU) as HSC.
    assert (Hbn1 : In bn (C1 ++ [B])).
    { rewrite EC1 in Hbn. apply in_app_or in Hbn as [H|[H|H]].
      - apply in_or_app. left. exact H.
      - apply in_or_app. right. left. exact H.
      - exfalso. rewrite EC1 in HSC. apply StronglySorted_app_r in HSC. inversion HSC as [|? ? _ Hall]; subst.
        rewrite Forall_forall in Hall. specialize (Hall bn H). unfold blt in Hall. lia. }
    assert (Hsub : forall z, In z (G1 ++ [B]) -> In z G).
    { intros z Hz. rewrite EG1. apply in_app_or in Hz as [Hz|[<-|[]]]; apply in_or_app; [left; exact Hz | right; left; reflexivity]. }
    destruct (linked_same_end U U_uniq G1 C1 xg xc B HlG1 HlC1 HGU1 HCU1) as [[d Ed]|[d Ed]].
    - apply Hsub. rewrite Ed, <- app_assoc. apply in_or_app. right. exact Hbn1.
    - rewrite Ed, <- app_assoc in Hbn1. apply in_app_or in Hbn1 as [Hd|Hin]; [|apply Hsub; exact Hin].
      exfalso.
      assert (Hg0in : In g0 (G1 ++ [B])).
      { rewrite EG in EG1. destruct G1 as [|g1 G1'].
        - cbn [app] in EG1. injection EG1 as -> _. left. reflexivity.
        - cbn [app] in EG1. injection EG1 as -> _. left. reflexivity. }
      pose proof (linked_sorted U U_id U_uniq U_up (C1 ++ [B]) xc HlC1 HCU1) as HS1.
      rewrite Ed, <- app_assoc in HS1.
      assert (Hlt : forall a l2, StronglySorted blt (d ++ l2) -> In a d -> forall z, In z l2 -> bnum a < bnum z).
      { clear. induction d as [|u d IH]; intros a l2 HS Ha z Hz; [destruct Ha|].
        cbn [app] in HS. inversion HS as [|? ? HS' Hall]; subst. destruct Ha as [<-|Ha].
        - rewrite Forall_forall in Hall. apply (Hall z). apply in_or_app. right. exact Hz.
        - exact (IH a l2 HS' Ha z Hz). }
      specialize (Hlt bn (G1 ++ [B]) HS1 Hd g0 Hg0in). lia.
  Qed.

  (* hub.SourceThroughCursor asked for a block number at or below the cursor block answers only when the cursor
     block is on the head's segment (the branch for a cursor block stored off the chain being excluded) *)
  Lemma through_proper_on_chain s V n cu burst hd sg :
    VState U first kept s V ->
    (forall hd sg, last_sent s = Some hd -> complete_segment (db s) (bref hd) = Some (sg, true) ->
       find (ri (cu_blk cu)) (store (db s)) <> None -> block_in (ri (cu_blk cu)) sg = true) ->
    n <= rn (cu_blk cu) ->
    hub_through_cursor s n cu = BOk burst ->
    last_sent s = Some hd -> complete_segment (db s) (bref hd) = Some (sg, true) ->
    block_in (ri (cu_blk cu)) sg = true.
  Proof.
    intros HV Hon Hn Hb Hls Eseg.
    unfold hub_through_cursor in Hb. replace (rn (cu_blk cu) <? n) with false in Hb by (symmetry; apply N.ltb_ge; exact Hn).
    unfold blocks_through_cursor in Hb.
    destruct (has_lib (db s)); [|discriminate]. cbn [negb] in Hb. rewrite Hls, Eseg in Hb.
    destruct sg as [|s0 sg0]; [discriminate|].
    destruct (n <? snum s0); [discriminate|].
    destruct (block_in (ri (cu_blk cu)) (s0 :: sg0)) eqn:Eblk; [reflexivity|]. exfalso.
    destruct (complete_segment (db s) (cu_blk cu)) as [[csg [|]]|] eqn:Ecs; try discriminate.
    2:{ destruct csg; discriminate. }
    destruct csg as [|c0 csg0]; [discriminate|].
    pose proof (complete_segment_segment_of _ _ _ _ Ecs) as [Hcst _ Hctop _ _].
    destruct (exists_last (l := c0 :: csg0)) as (q & z & Ez); [discriminate|].
    destruct (Hctop q z Ez) as (Hzid & _ & _).
    assert (Hzst : find (sid z) (store (db s)) = Some (sent z)) by (apply Hcst; rewrite Ez; apply in_or_app; right; left; reflexivity).
    rewrite Hzid in Hzst. rewrite (Hon hd (s0 :: sg0) Hls Eseg) in Eblk; [discriminate|]. rewrite Hzst. discriminate.
  Qed.
End Through.

(* ------------------------------------------------------------------ the join in target-cursor mode *)

(* join_try in target-cursor mode: the hub's answer "through the cursor" for the file block's number, and when the
   cursor block is below the file block (the cursor has passed: fix "target join on identity") the answer starts with
   the file block itself *)
Lemma join_try_target c w lowest e cu evs :
  j_mode c = 2 -> j_cursor c = Some cu -> join_try c w lowest e = Some evs ->
  hub_through_cursor (h_f (w_hub w)) (bnum (eblk e)) cu = BOk evs /\ h_ready (w_hub w) = true /\
  (rn (cu_blk cu) < bnum (eblk e) -> exists b0 tl, evs = b0 :: tl /\ bid (eblk b0) = bid (eblk e)).
Proof.
  intros Hmode Hcur. unfold join_try. rewrite Hmode, Hcur. cbn [N.eqb Pos.eqb].
  destruct ((lowest <=? bnum (eblk e)) && matches_new (estep e)); [|discriminate].
  destruct (hub_through_cursor (h_f (w_hub w)) (bnum (eblk e)) cu) as [evs'| | |]; try discriminate.
  destruct (h_ready (w_hub w)); [|discriminate]. cbn [andb].
  destruct (rn (cu_blk cu) <? bnum (eblk e)) eqn:Ep; cbn [negb orb].
  - destruct evs' as [|b0 tl]; [discriminate|]. destruct (N.eqb_spec (bid (eblk b0)) (bid (eblk e))) as [E|E]; [|discriminate].
    intros H. injection H as <-. split; [reflexivity|]. split; [reflexivity|]. intros _. exists b0, tl. auto.
  - intros H. injection H as <-. split; [reflexivity|]. split; [reflexivity|]. apply N.ltb_ge in Ep. intros Hlt. lia.
Qed.

Section TargetJoin.
  Variable U : list block.
  Variable c : jcfg.
  Variable canon : list block.
  Hypothesis U_id : forall b, In b U -> bid b <> 0 /\ bid b <> bparent b.
  Hypothesis U_uniq : forall x y, In x U -> In y U -> bid x = bid y -> x = y.
  Hypothesis U_up : forall x y, In x U -> In y U -> bparent x = bid y -> bnum y < bnum x.
  Hypothesis Hcanon_U : Forall (fun x => In x U) canon.
  Hypothesis Hcanon_l : exists x, lnk x canon.
  Variable merged : list block.
  Hypothesis Hmerged_c : forall b, In b merged -> In b canon.
  Variable cu : cursor.
  Variable B : block.
  Hypothesis HB : bref B = cu_blk cu.
  Hypothesis HBc : In B canon.
  Hypothesis Hmode : j_mode c = 2.
  Hypothesis Hcur : j_cursor c = Some cu.

  Let first := j_first c.
  Let kept := j_kept c.
  Let HBU : In B U.
  Proof. rewrite Forall_forall in Hcanon_U. exact (Hcanon_U B HBc). Qed.

  (* a join in target-cursor mode hands over the retained chain from the joining block on.  The first answered block
     is the file block: by the identity check when the cursor has passed, and otherwise because it is the ancestor of
     the cursor block at that height on the hub's chain as on canon *)
  Lemma target_join_at w lowest bn burst V :
    In bn merged -> join_try c w lowest (fev bn) = Some burst -> VState U first kept (h_f (w_hub w)) V ->
    (exists hd sg, last_sent (h_f (w_hub w)) = Some hd /\ complete_segment (db (h_f (w_hub w))) (bref hd) = Some (sg, true) /\
       bnum bn <= rn (cu_blk cu) /\ block_in (ri (cu_blk cu)) sg = false /\
       blocks_through_cursor (h_f (w_hub w)) (bnum bn) cu = BOk burst) \/
    (exists hd sufb l, hd_error V = Some hd /\ map eblk burst = bn :: sufb /\
       Forall (fun e => matches_new (estep e) = true) burst /\
       Forall (fun y => In y U) (bn :: sufb) /\ lnk (bid bn) sufb /\ bn :: sufb = l ++ [hd]).
  Proof.
    intros Hbn Ej HV.
    destruct (join_try_target c w lowest (fev bn) cu burst Hmode Hcur Ej) as (Eb & Hrd & Hpassed).
    cbn [eblk file_event] in Eb, Hpassed.
    set (s := h_f (w_hub w)) in *.
    destruct (hub_through_shape_gen U first kept U_id U_uniq U_up s V (bnum bn) cu burst HV Eb)
      as (hd & sg & Hls & Eseg & Hgood & [(Hle & Hoff & Hbt)|(Hcase & pre & post & Hsg & Hpre & Hpost & Hevs & Hfirst & Hnonempty)]).
    { left. exists hd, sg. auto. }
    right.
    pose proof Hgood as [Hstd _ Hinc _].
    assert (Hn : forall y, In y sg -> snum y = bnum (seg_blk y)).
    { intros y Hy. rewrite Forall_forall in Hstd. exact (proj2 (Hstd y Hy)). }
    destruct (vstate_segment U first kept U_id U_uniq U_up s V hd sg true HV Hls Eseg) as (_ & HsU & _).
    assert (HxB : block_in (ri (cu_blk cu)) sg = true -> exists xB, In xB sg /\ seg_blk xB = B).
    { intros Hin. apply block_in_spec in Hin as (xB & HxB & HsB). exists xB. split; [exact HxB|].
      apply U_uniq; [rewrite Forall_forall in HsU; apply HsU; exact HxB | exact HBU|].
      rewrite Forall_forall in Hstd. destruct (Hstd xB HxB) as [H1 _]. rewrite <- H1, HsB, <- HB. reflexivity. }
    (* the answer is not empty: the cursor block is in it *)
    assert (Hpne : post <> []).
    { destruct Hnonempty as [H|[Hin Hle]]; [exact H|]. destruct (HxB Hin) as (xB & HxBin & EB).
      assert (HnB : snum xB = rn (cu_blk cu)) by (rewrite (Hn xB HxBin), EB, <- HB; reflexivity).
      intros E. rewrite E, app_nil_r in Hsg. rewrite Hsg in HxBin. specialize (Hpre xB HxBin). lia. }
    destruct post as [|x0 r] eqn:Ep; [contradiction|].
    destruct (seg_post_facts U first kept U_id U_uniq U_up s V hd sg pre x0 r HV Hls Eseg Hsg) as (Hhd & HpU & Hlr & Hlast & Hle).
    assert (Hx0in : In x0 sg) by (rewrite Hsg; apply in_or_app; right; left; reflexivity).
    assert (Hx0n : bnum bn <= snum x0) by (apply Hpost; left; reflexivity).
    assert (HbnU : In bn U) by (rewrite Forall_forall in Hcanon_U; apply Hcanon_U, Hmerged_c; exact Hbn).
    (* the first answered block is the file block *)
    assert (Exb : seg_blk x0 = bn).
    { destruct (N.lt_ge_cases (rn (cu_blk cu)) (bnum bn)) as [Hab|Hab].
      - (* the cursor has passed: the identity check *)
        destruct (Hpassed Hab) as (b0 & tl & Eburst & Eid). rewrite Hevs in Eburst. cbn [map] in Eburst.
        injection Eburst as Eb0 _. rewrite <- Eb0 in Eid. unfold snap_event in Eid. cbn [eblk] in Eid.
        apply U_uniq; [exact (Forall_inv HpU) | exact HbnU | exact Eid].
      - (* through the cursor proper: both are the ancestor of the cursor block at that height *)
        assert (Hblk : block_in (ri (cu_blk cu)) sg = true) by (destruct Hcase as [Hc|Hc]; [lia | exact Hc]).
        destruct (HxB Hblk) as (xB & HxBin & EB).
        destruct sg as [|s0 sg0] eqn:Esg0; [destruct pre; discriminate|].
        assert (Hs0 : snum s0 <= bnum bn).
        { destruct pre as [|p0 pre0].
          - destruct (Hfirst eq_refl ltac:(discriminate)) as (x0' & r' & E & Hx0'). injection E as <- <-.
            cbn [app] in Hsg. injection Hsg as -> _. lia.
          - cbn [app] in Hsg. injection Hsg as -> _. specialize (Hpre p0 (or_introl eq_refl)). lia. }
        destruct (seg_post_facts U first kept U_id U_uniq U_up s V hd (s0 :: sg0) [] s0 sg0 HV Hls Eseg eq_refl) as (_ & HgU & Hlg & _ & _).
        assert (HnBn : bnum B = rn (cu_blk cu)) by (rewrite <- HB; reflexivity).
        assert (Hbin : In bn (map seg_blk (s0 :: sg0))).
        { apply (anc_on_run U U_id U_uniq U_up (map seg_blk (s0 :: sg0)) canon (seg_blk s0) (map seg_blk sg0) B bn eq_refl).
          - exists (bparent (seg_blk s0)). cbn [map lnk]. split; [reflexivity | exact Hlg].
          - exact Hcanon_l.
          - exact HgU.
          - exact Hcanon_U.
          - rewrite <- EB. apply in_map. exact HxBin.
          - exact HBc.
          - apply Hmerged_c. exact Hbn.
          - lia.
          - rewrite <- (Hn s0 (or_introl eq_refl)). exact Hs0. }
        apply in_map_iff in Hbin as (xb & Exb & Hxb).
        assert (Hxbn : snum xb = bnum bn) by (rewrite (Hn xb Hxb), Exb; reflexivity).
        assert (Exb0 : xb = x0).
        { rewrite Hsg in Hxb. apply in_app_or in Hxb as [Hxb|[Hxb|Hxb]].
          - specialize (Hpre xb Hxb). lia.
          - symmetry. exact Hxb.
          - exfalso. rewrite Hsg in Hinc. apply StronglySorted_app_r in Hinc. inversion Hinc as [|? ? _ Hall]; subst.
            rewrite Forall_forall in Hall. specialize (Hall xb Hxb). rewrite Forall_forall in Hstd.
            assert (H : snum x0 < snum xb) by (apply snum_lt_of; [apply Hstd; exact Hx0in | apply Hstd; rewrite Hsg; apply in_or_app; right; right; exact Hxb | exact Hall]).
            lia. }
        subst xb. exact Exb. }
    rewrite Exb in *.
    destruct Hlast as [l Hl]. exists hd, (map seg_blk r), l. split; [exact Hhd|]. split; [rewrite Hevs, map_eblk_snap; cbn [map]; rewrite Exb; reflexivity|].
    split.
    { rewrite Hevs. apply Forall_forall. intros e He. apply in_map_iff in He as (q & <- & _).
      unfold snap_event. cbn [estep]. destruct (bnum (seg_blk q) <=? rn (libref (db s))); reflexivity. }
    split; [exact HpU|]. split; [exact Hlr | exact Hl].
  Qed.

  Lemma target_joins_gen w : target_on_chain c w cu -> joins_good U c merged w.
  Proof.
    intros Hto m lowest bn burst Hbn Ej.
    destruct (join_try_target c (world_after c m w) lowest (fev bn) cu burst Hmode Hcur Ej) as (Eb & Hrd & _).
    cbn [eblk file_event] in Eb.
    split; [exact Hrd|]. intros V HV. fold first kept in HV.
    destruct (target_join_at (world_after c m w) lowest bn burst V Hbn Ej HV) as [(hd & sg & Hls & Eseg & Hle & Hoff & _)|H]; [|exact H].
    exfalso.
    rewrite (through_proper_on_chain U first kept _ V (bnum bn) cu burst hd sg HV (fun hd sg H1 H2 H3 => Hto m hd sg Hrd H1 H2 H3) Hle Eb Hls Eseg) in Hoff.
    discriminate.
  Qed.
End TargetJoin.

(* ------------------------------------------------------------------ the run *)

Section TargetRun.
  Variable U : list block.
  Variable c : jcfg.
  Variable canon : list block.
  Variable start : N.
  Hypothesis U_id : forall b, In b U -> bid b <> 0 /\ bid b <> bparent b.
  Hypothesis U_uniq : forall x y, In x U -> In y U -> bid x = bid y -> x = y.
  Hypothesis U_up : forall x y, In x U -> In y U -> bparent x = bid y -> bnum y < bnum x.
  Hypothesis D_decl : forall b, In b U -> decl_none U b.
  Hypothesis Hfilter : j_filter c = 0.
  Hypothesis Hstop : j_stop c = 0.
  Hypothesis Hcanon_U : Forall (fun x => In x U) canon.
  Hypothesis Hcanon_l : exists x, lnk x canon.
  Hypothesis Hcanon_start : exists b, In b canon /\ bnum b <= start.
  Variable merged : list block.
  Hypothesis Hmerged_U : forall b, In b merged -> In b U.
  Hypothesis Hmerged_c : forall b, In b merged -> In b canon.
  Variable cu : cursor.
  Variable B : block.
  Hypothesis HB : bref B = cu_blk cu.
  Hypothesis HBU : In B U.
  Hypothesis HBc : In B canon.
  Hypothesis Hmode : j_mode c = 2.
  Hypothesis Hcur : j_cursor c = Some cu.

  Let first := j_first c.
  Let kept := j_kept c.

  (* a join in target-cursor mode hands over the retained chain from the joining block on *)
  Lemma target_joins w : target_on_chain c w cu -> joins_good U c merged w.
  Proof.
    exact (target_joins_gen U c canon U_id U_uniq U_up Hcanon_U Hcanon_l merged Hmerged_c cu B HB HBc Hmode Hcur w).
  Qed.

  Lemma stream_target w ps merged_end forked :
    run_start c w = start ->
    WOK U c w -> eventual_tip c w canon -> target_on_chain c w cu ->
    let D := file_delivery merged start file_bound (j_bundle c) in
    asc D -> (exists x, lnk x D) -> (forall z r, D = z :: r -> bnum z <= start) ->
    (forall b, In b D -> bid b = ri (cu_blk cu) -> bnum b = rn (cu_blk cu)) ->
    let res := stream_run c w ps merged_end merged forked in
    exists st, sfold [] (fst res) = Some st /\
      (snd res = JNil -> (exists D1 D2, D = D1 ++ D2 /\ rev st = D1) \/ from_num start (rev st) = from_num start canon).
  Proof.
    intros Hstart HW Htip Hto D Hasc [x0 HlD] HbotD Hcons res.
    pose proof (target_joins w Hto) as Hjg.
    assert (HinD : forall b, In b D -> In b merged).
    { intros b Hb. unfold D, file_delivery in Hb. apply filter_In in Hb as [Hb _]. exact Hb. }
    (* the file branch *)
    assert (Hfile : forall fuel lowest,
              let X := (let '(fevs, r) := through_cursor_run merged forked start cu file_bound (j_bundle c) in
                        file_phase fuel c w lowest fevs
                          (match r with RsOk => JNil | RsResolveErr => JInvalidArg | RsNotImplemented => JOther | RsFuel => JFuel end)
                          0 ps []) in
              exists st, sfold [] (fst X) = Some st /\
                (snd X = JNil -> (exists D1 D2, D = D1 ++ D2 /\ rev st = D1) \/ from_num start (rev st) = from_num start canon)).
    { intros fuel lowest.
      destruct (through_run_prefix merged forked start cu file_bound (j_bundle c) Hasc Hcons) as (D1 & D2 & ED & Hfst & _).
      fold D in ED.
      destruct (through_cursor_run merged forked start cu file_bound (j_bundle c)) as [fevs r]. cbn [fst] in Hfst. subst fevs.
      assert (Hl1 : exists x, lnk x ([] ++ D1)) by (exists x0; rewrite ED in HlD; eapply linked_prefix; exact HlD).
      assert (Hin1 : forall b, In b ([] ++ D1) -> In b merged) by (intros b Hb; apply HinD; rewrite ED; apply in_or_app; left; exact Hb).
      assert (Hbot1 : forall z r0, [] ++ D1 = z :: r0 -> bnum z <= start).
      { intros z r0 Ez. cbn [app] in Ez. apply (HbotD z (r0 ++ D2)). rewrite ED, Ez. reflexivity. }
      destruct (file_run U c canon start U_id U_uniq U_up D_decl Hfilter Hstop Hcanon_U Hcanon_l Hcanon_start merged Hmerged_U
                  fuel [] (match r with RsOk => JNil | RsResolveErr => JInvalidArg | RsNotImplemented => JOther | RsFuel => JFuel end)
                  D1 [] [] w lowest 0 ps HW Htip Hjg eq_refl Hl1 Hin1 Hbot1) as (st & Hst & Hfin).
      exists st. split; [exact Hst|]. intros Hn. destruct (Hfin Hn) as [H|[_ H]]; [left; exists D1, D2; auto | right; exact H]. }
    unfold res, stream_run. cbv zeta.
    change (abs_start (j_first c) (j_start c) match hub_head (w_hub w) with Some (r, _) => rn r | None => 0 end)
      with (run_start c w).
    rewrite (file_end_nostop c merged_end Hstop), Hstart, Hstop, Hfilter, Hmode, Hcur. cbn [N.eqb negb andb].
    unfold live_try. rewrite Hmode, Hcur. cbn [N.eqb].
    destruct (h_ready (w_hub w)) eqn:Hrd; cbn [negb]; [|apply Hfile].
    destruct (hub_through_cursor (h_f (w_hub w)) start cu) as [burst| | |] eqn:Hb;
      [|apply Hfile|exists []; split; [reflexivity | discriminate]..].
    (* live from the start *)
    destruct HW as [Hok Hrest].
    destruct (vstate_of_hub U first kept U_id U_uniq U_up D_decl (w_hub w) Hok Hrd) as [V HV].
    destruct (hub_through_shape U first kept U_id U_uniq U_up (h_f (w_hub w)) V start cu burst HV
                (fun hd sg H1 H2 H3 => Hto 0%nat hd sg Hrd H1 H2 H3) Hb)
      as (hd & sg & pre & post & Hls & Eseg & Hgood & Hsg & Hpre & Hpost & Hevs & Hfirst & _).
    assert (Hmap : map eblk burst = map seg_blk post) by (rewrite Hevs; apply map_eblk_snap).
    assert (Hnew : Forall (fun e => matches_new (estep e) = true) burst).
    { rewrite Hevs. apply Forall_forall. intros e He. apply in_map_iff in He as (q & <- & _).
      unfold snap_event. cbn [estep]. destruct (bnum (seg_blk q) <=? rn (libref (db (h_f (w_hub w))))); reflexivity. }
    assert (Hfold : sfold [] burst = Some (rev (map seg_blk post))).
    { rewrite <- (app_nil_r (rev (map seg_blk post))), <- Hmap. apply sfold_pushes; [exact Hnew|]. rewrite Hmap.
      destruct post as [|p0 r0]; [exists 0; exact I|].
      destruct (seg_post_facts U first kept U_id U_uniq U_up _ V hd sg pre p0 r0 HV Hls Eseg Hsg) as (_ & _ & Hl & _).
      exists (bparent (seg_blk p0)). cbn [map lnk]. auto. }
    assert (HRel : exists E, Rel U start (V ++ E) (rev (map seg_blk post))).
    { destruct pre as [|xl pre0 _] using rev_ind.
      - (* the whole retained chain: it starts at the start block *)
        cbn [app] in Hsg. destruct post as [|p0 r0].
        { exfalso. destruct (vstate_segment U first kept U_id U_uniq U_up _ V hd sg true HV Hls Eseg) as (_ & _ & pp & z & E & _).
          rewrite Hsg in E. destruct pp; discriminate. }
        destruct (Hfirst eq_refl ltac:(discriminate)) as (p0' & r0' & E & Hn0). injection E as <- <-.
        destruct (seg_post_facts U first kept U_id U_uniq U_up _ V hd sg [] p0 r0 HV Hls Eseg Hsg) as (Hhd & HpU & Hl & [l Hlast] & _).
        destruct (vstate_facts U first kept U_id U_uniq U_up _ V HV) as (HVne & HcV & _).
        pose proof Hgood as [Hstd _ _ _]. rewrite Forall_forall in Hstd.
        assert (Hp0n : bnum (seg_blk p0) = start) by (destruct (Hstd p0) as [_ H]; [rewrite Hsg; left; reflexivity | rewrite <- H; exact Hn0]).
        destruct (join_rel_core U start V burst [] (seg_blk p0) (map seg_blk r0) l hd HVne HcV Hhd Hmap Hnew HpU Hl Hlast
                    (ex_intro _ (bparent (seg_blk p0)) (conj eq_refl I)) (Forall_nil _)) as (J1 & HJ1 & HR).
        { intros z r Ez. cbn [app] in Ez. injection Ez as <- _. lia. }
        exists []. rewrite app_nil_r. cbn [rev] in HJ1. rewrite Hfold in HJ1. injection HJ1 as <-. exact HR.
      - (* the retained chain goes below the start block *)
        rewrite <- app_assoc in Hsg. cbn [app] in Hsg.
        destruct (seg_post_facts U first kept U_id U_uniq U_up _ V hd sg pre0 xl post HV Hls Eseg Hsg) as (_ & HpU & Hl & _ & _).
        pose proof Hgood as [Hstd _ _ _]. rewrite Forall_forall in Hstd.
        assert (Hxln : bnum (seg_blk xl) < start).
        { destruct (Hstd xl) as [_ H]; [rewrite Hsg; apply in_or_app; right; left; reflexivity|]. rewrite <- H.
          apply Hpre. apply in_or_app. right. left. reflexivity. }
        exact (cursor_live_rel U first kept U_id U_uniq U_up _ V hd sg pre0 xl post (seg_blk xl) start HV Hls Eseg Hgood Hsg eq_refl
                 (Forall_inv HpU) Hl (Forall_inv_tail HpU) Hxln). }
    destruct HRel as [E HR].
    pose proof (fun f => live_run_below U c canon start U_id U_uniq U_up D_decl Hfilter Hstop Hcanon_U Hcanon_l Hcanon_start
                          f w V E burst 0 ps [] [] [] (rev (map seg_blk post)) (conj Hrd (conj HV Hrest)) Htip eq_refl Hfold HR) as HL.
    match goal with |- context [live_phase ?f _ _ _ _ _ _] => destruct (HL f) as (st & Hst & Hfin) end.
    exists st. split; [exact Hst|]. intros Hn. right. exact (Hfin Hn).
  Qed.
End TargetRun.

Lemma c07_seamless_target_proof : C07_seamless_target.
Proof.
  intros U c w ps merged_end canon forked cu B Hwfb Hlok [[l [Hl Hhub]] Hrest] Hchain Hincl merged Htip Hto
         Hmode Hcur Hfilter Hstop Hbundle Hbound HBc HB res start Hstartblk.
  assert (Hscope : disc_scope2_b U = true) by (unfold disc_scope2_b; rewrite Hwfb, Hlok; reflexivity).
  pose proof (bridge_id U Hwfb) as Hid. pose proof (bridge_uniq U Hwfb) as Huniq. pose proof (bridge_up U Hwfb) as Hup.
  pose proof (bridge2_decl_none U Hscope) as Hdecl.
  assert (HW : WOK U c w).
  { split; [|exact Hrest]. rewrite Hhub. apply (hub_ok_run U (j_first c) (j_kept c) Hwfb Hlok l Hl). }
  assert (HcU : Forall (fun x => In x U) canon) by (apply Forall_forall; exact Hincl).
  pose proof (lnk_of_chain_ok canon Hchain) as Hcl.
  pose proof (merged_chain_ok canon merged_end Hchain) as Hmok. fold merged in Hmok.
  assert (Hmc : forall b, In b merged -> In b canon).
  { intros b Hb. unfold merged in Hb. apply filter_In in Hb as [Hb _]. exact Hb. }
  assert (HmU : forall b, In b merged -> In b U) by (intros b Hb; apply Hincl, Hmc; exact Hb).
  set (D := file_delivery merged start file_bound (j_bundle c)).
  assert (HD : D = from_num start merged) by (apply delivery_all; assumption).
  destruct (c06_delivery_segment_proof merged start file_bound (j_bundle c) Hmok) as [_ HDok]. fold D in HDok.
  assert (HbotD : forall z r, D = z :: r -> bnum z <= start).
  { intros z r Ez. destruct Hstartblk as (b0 & Hb0 & Hnb0).
    assert (Hzin : In z merged).
    { assert (H : In z D) by (rewrite Ez; left; reflexivity). unfold D, file_delivery in H. apply filter_In in H as [H _]. exact H. }
    destruct (N.ltb_spec (bnum b0) merged_end) as [Hlt|Hge].
    - assert (Hb0D : In b0 D).
      { rewrite HD. unfold from_num. apply filter_In. split.
        - unfold merged. apply filter_In. split; [exact Hb0 | apply N.ltb_lt; exact Hlt].
        - apply N.leb_le. lia. }
      pose proof (chain_ok_asc D HDok) as Hasc. rewrite Ez in Hasc, Hb0D. cbn [asc] in Hasc. destruct Hasc as [Hall _].
      destruct Hb0D as [<-|Hb0r]; [lia|]. rewrite Forall_forall in Hall. specialize (Hall b0 Hb0r). lia.
    - unfold merged in Hzin. apply filter_In in Hzin as [_ Hz]. apply N.ltb_lt in Hz. lia. }
  assert (Hcons : forall b, In b D -> bid b = ri (cu_blk cu) -> bnum b = rn (cu_blk cu)).
  { intros b Hb Eb. destruct (bref_eq _ _ HB) as [EBi EBn].
    assert (Hbc : In b canon).
    { unfold D, file_delivery in Hb. apply filter_In in Hb as [Hb _]. unfold merged in Hb. apply filter_In in Hb as [Hb _]. exact Hb. }
    destruct Hchain as [_ Hnd]. rewrite (nodup_ids_eq canon b B Hnd Hbc HBc); [exact EBn | congruence]. }
  assert (Hstartle : exists b, In b canon /\ bnum b <= start) by (destruct Hstartblk as (b0 & H1 & H2); exists b0; split; [exact H1 | lia]).
  destruct (stream_target U c canon start Hid Huniq Hup Hdecl Hfilter Hstop HcU Hcl Hstartle merged HmU Hmc cu B HB (Hincl B HBc) HBc Hmode Hcur
              w ps merged_end forked eq_refl HW Htip Hto (chain_ok_asc D HDok) (lnk_of_chain_ok D HDok) HbotD Hcons) as (st & Hst & Hfin).
  fold res in Hst, Hfin.
  assert (Hnu : Forall (fun e => nu_ev e = true) (fst res)).
  { destruct (c13_stream_output_proof c w ps merged_end merged forked (fst res) (snd res)) as [Hp _].
    - apply surjective_pairing.
    - eapply Forall_impl; [|exact Hp]. cbn beta. intros e He. rewrite <- (passes_nu c e Hfilter). exact He. }
  exists (mkCons st 0 false). split.
  - unfold cons0. rewrite (sfold_cons_aside false (fst res) [] Hnu), Hst. reflexivity.
  - cbn [cs_stack]. intros Hn. destruct (Hfin Hn) as [(D1 & D2 & E & H)|H]; [left; exists D1, D2; rewrite <- HD; auto | right; exact H].
Qed.
