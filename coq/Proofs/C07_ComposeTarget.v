(* C07 composition, part 8: target-cursor mode (j_mode = 2).  File side: the resolver in pass-through mode hands
   over a beginning of the delivery as new+irreversible (C06_Through.v phases).  Hub side: hub_through_cursor for
   a number n answers with every retained canonical block numbered >= n (from_num when the cursor block lies
   below n; the snapshot branch of blocks_through_cursor when the cursor block is on the hub's chain); the
   branch "cursor block stored off the chain" is excluded by hypothesis (target_on_chain). *)
From Coq Require Import Sorted.
From BV Require Import Base.Prelude Model.Block Model.ForkDB Model.Forkable Model.ForkableLookups Model.Burst Model.Hub
  Model.CursorResolver Model.Joining
  Spec.Consumer Spec.Universe Check.Fk_Check Check.Burst_Check Check.C07_Check
  Spec.C09_Spec Spec.C05_Spec Spec.C06_Spec Spec.C07_Spec Spec.C13_Spec Spec.C07_Compose_Spec
  Spec.C01_Spec Spec.C01_Moving_Spec Spec.C01_Roots_Spec
  Proofs.C06_Lists Proofs.C06_Resolver Proofs.C06_Proofs Proofs.C06_Through Proofs.C13_Proofs
  Proofs.C09_Store Proofs.C09_Segment Proofs.C09_Proofs Proofs.C05_Fast Proofs.C05_Forked
  Proofs.Fk.LoopFacts Proofs.Fk.MovingLibDisc Proofs.C02_Proofs Proofs.C01_Roots_Proofs
  Proofs.Hub.ConsFacts Proofs.Hub.HubFed Proofs.Hub.LinkedRuns Proofs.Hub.C09_History
  Proofs.C07_File Proofs.C07_ComposeStack Proofs.C07_ComposeHub Proofs.C07_ComposeRun Proofs.C07_Compose
  Proofs.C07_ComposeCursor Proofs.C07_ComposeCursorLive Proofs.C07_ComposeCursorAll.
Local Open Scope N_scope.

(* ------------------------------------------------------------------ the resolver in pass-through mode *)

Lemma first_with_id id : forall l : list block,
  Forall (fun x => bid x <> id) l \/
  exists l1 h l2, l = l1 ++ h :: l2 /\ bid h = id /\ Forall (fun x => bid x <> id) l1.
Proof.
  induction l as [|a l IH]; [left; constructor|].
  destruct (N.eq_dec (bid a) id) as [E|E].
  - right. exists [], a, l. split; [reflexivity|]. split; [exact E | constructor].
  - destruct IH as [H|(l1 & h & l2 & -> & Hh & Hl1)].
    + left. constructor; assumption.
    + right. exists (a :: l1), h, l2. split; [reflexivity|]. split; [exact Hh | constructor; assumption].
Qed.

(* an ascending delivery in which the cursor id, if present, carries the cursor number: what is handed over is
   a beginning of the delivery, as new+irreversible; the run ends normally or with "not implemented" *)
Lemma through_prefix c forked D : asc D ->
  (forall b, In b D -> bid b = ri (cu_blk c) -> bnum b = rn (cu_blk c)) ->
  exists D1 D2, D = D1 ++ D2 /\
    fst (resolver_run c true forked rs_init D) = map fev D1 /\
    (snd (resolver_run c true forked rs_init D) = RsOk \/ snd (resolver_run c true forked rs_init D) = RsNotImplemented).
Proof.
  intros Hasc Hcons. destruct (through_split c D Hasc) as (low & mid & top & -> & Hlow & Hmid & Htop & _).
  destruct (first_with_id (ri (cu_blk c)) low) as [Hnone|(l1 & h & l2 & -> & Hh & Hl1)].
  - (* the cursor block is not passed at or below the LIB *)
    assert (Hl2 : Forall (fun x => bnum x <= rn (cu_lib c) /\ bid x <> ri (cu_blk c)) low).
    { rewrite Forall_forall in *. intros x Hx. split; [apply Hlow | apply Hnone]; exact Hx. }
    unfold rs_init. rewrite (pass_low c forked low [] (mid ++ top) Hl2), (pass_buffer c forked mid [] top Hmid). cbn [app fst snd].
    destruct top as [|b post].
    + exists low, mid. cbn [resolver_run fst snd]. rewrite !app_nil_r. split; [reflexivity|]. split; [reflexivity | left; reflexivity].
    + pose proof (Forall_inv Htop) as [Hb1 Hb2]. destruct (N.eq_dec (bid b) (ri (cu_blk c))) as [Eb|Eb].
      * rewrite (pass_hit c forked mid b post Hb1 Hb2 Eb). cbn [fst snd]. rewrite sb_between.
        assert (Hbn : bnum b = rn (cu_blk c)).
        { apply Hcons; [|exact Eb]. apply in_or_app. right. apply in_or_app. right. left. reflexivity. }
        assert (Ebt : between (rn (cu_lib c)) (rn (cu_blk c)) (mid ++ [b]) = mid ++ [b]).
        { unfold between. apply (Proofs.C06_Lists.filter_all _ _ (mid ++ [b])). apply Forall_app. split.
          - eapply Forall_impl; [|exact Hmid]. cbn beta. intros x [H1 H2]. apply andb_true_iff. split; [apply N.ltb_lt | apply N.leb_le]; lia.
          - constructor; [|constructor]. apply andb_true_iff. split; [apply N.ltb_lt | apply N.leb_le]; lia. }
        rewrite Ebt. exists (low ++ mid ++ b :: post), []. rewrite app_nil_r. split; [reflexivity|]. split; [|left; reflexivity].
        rewrite !map_app. cbn [map]. rewrite <- !app_assoc. reflexivity.
      * rewrite (pass_miss c forked mid b post Hb1 Hb2 Eb). cbn [fst snd]. rewrite app_nil_r.
        exists low, (mid ++ b :: post). split; [reflexivity|]. split; [reflexivity | right; reflexivity].
  - (* a final target cursor: recognised while passing *)
    apply Forall_app in Hlow as [Hlow1 Hlow2]. pose proof (Forall_inv Hlow2) as Hhn. cbn beta in Hhn.
    assert (Hl2 : Forall (fun x => bnum x <= rn (cu_lib c) /\ bid x <> ri (cu_blk c)) l1).
    { rewrite Forall_forall in *. intros x Hx. split; [apply Hlow1 | apply Hl1]; exact Hx. }
    unfold rs_init. rewrite <- !app_assoc. cbn [app].
    rewrite (pass_low c forked l1 [] (h :: l2 ++ mid ++ top) Hl2), (pass_low_hit c forked [] h (l2 ++ mid ++ top) Hhn Hh). cbn [fst snd].
    exists (l1 ++ h :: l2 ++ mid ++ top), []. rewrite app_nil_r. split; [reflexivity|]. split; [|left; reflexivity].
    rewrite map_app. reflexivity.
Qed.

(* ------------------------------------------------------------------ hub_through_cursor for a number *)

Section Through.
  Variable U : list block.
  Variables first kept : N.
  Hypothesis U_id : forall b, In b U -> bid b <> 0 /\ bid b <> bparent b.
  Hypothesis U_uniq : forall x y, In x U -> In y U -> bid x = bid y -> x = y.
  Hypothesis U_up : forall x y, In x U -> In y U -> bparent x = bid y -> bnum y < bnum x.

  (* the answer: the part of the head's segment numbered >= n, as snapshot events *)
  Lemma hub_through_shape s V n cu burst :
    VState U first kept s V ->
    (forall hd sg, last_sent s = Some hd -> complete_segment (db s) (bref hd) = Some (sg, true) ->
       find (ri (cu_blk cu)) (store (db s)) <> None -> block_in (ri (cu_blk cu)) sg = true) ->
    hub_through_cursor s n cu = BOk burst ->
    exists hd sg pre post,
      last_sent s = Some hd /\ complete_segment (db s) (bref hd) = Some (sg, true) /\ good_seg sg /\
      sg = pre ++ post /\ (forall y, In y pre -> snum y < n) /\ (forall y, In y post -> n <= snum y) /\
      burst = map (snap_event s hd) post /\
      (pre = [] -> post <> [] -> exists x0 r, post = x0 :: r /\ snum x0 = n).
  Proof.
    intros HV Hon Hb.
    destruct (vstate_facts U first kept U_id U_uniq U_up s V HV) as (_ & _ & W & hd & Hls & _).
    unfold hub_through_cursor in Hb. destruct (rn (cu_blk cu) <? n) eqn:En.
    - (* below the requested number: as from a block number *)
      pose proof (c09_from_num_proof s n W) as Hspec. unfold from_num_spec in Hspec. rewrite Hb in Hspec.
      destruct Hspec as (hd' & sg & pre & x & suf & (_ & Hls' & Eseg & Hsg & Hnx & Hpre & Hsuf) & Hevs & _).
      rewrite Hls in Hls'. injection Hls' as <-.
      destruct (vstate_segment U first kept U_id U_uniq U_up s V hd sg true HV Hls Eseg) as (Hgood & _ & _).
      pose proof Hgood as [Hstd _ _ _].
      assert (Hn : forall y, In y sg -> snum y = bnum (seg_blk y)).
      { intros y Hy. rewrite Forall_forall in Hstd. exact (proj2 (Hstd y Hy)). }
      exists hd, sg, pre, (x :: suf). split; [exact Hls|]. split; [exact Eseg|]. split; [exact Hgood|]. split; [exact Hsg|].
      split; [|split; [|split; [exact Hevs|]]].
      + intros y Hy. rewrite (Hn y); [apply Hpre; exact Hy | rewrite Hsg; apply in_or_app; left; exact Hy].
      + intros y [<-|Hy].
        * rewrite (Hn x); [lia | rewrite Hsg; apply in_or_app; right; left; reflexivity].
        * rewrite (Hn y); [specialize (Hsuf y Hy); lia | rewrite Hsg; apply in_or_app; right; right; exact Hy].
      + intros _ _. exists x, suf. split; [reflexivity|]. rewrite (Hn x); [exact Hnx | rewrite Hsg; apply in_or_app; right; left; reflexivity].
    - (* through the cursor *)
      unfold blocks_through_cursor in Hb.
      destruct (has_lib (db s)); [|discriminate]. cbn [negb] in Hb. rewrite Hls in Hb.
      destruct (complete_segment (db s) (bref hd)) as [[sg [|]]|] eqn:Eseg; try discriminate.
      2:{ destruct sg; discriminate. }
      destruct sg as [|s0 sg0]; [discriminate|]. set (sg := s0 :: sg0) in *.
      destruct (n <? snum s0) eqn:En0; [discriminate|]. apply N.ltb_ge in En0.
      destruct (vstate_segment U first kept U_id U_uniq U_up s V hd sg true HV Hls Eseg) as (Hgood & _ & _).
      destruct (block_in (ri (cu_blk cu)) sg) eqn:Eblk.
      + (* the snapshot *)
        injection Hb as <-. pose proof Hgood as [Hstd _ Hinc _].
        assert (HS : StronglySorted (fun x y => snum x < snum y) sg).
        { clear - Hstd Hinc. induction Hinc as [|x l HS IH Hall]; [constructor|].
          inversion Hstd as [|? ? Hx Hstd']; subst. constructor; [auto|].
          rewrite Forall_forall in *. intros y Hy. apply snum_lt_of; auto. }
        destruct (mono_filter_suffix _ (fun x => negb (snum x <? n)) sg HS) as (pre & Esg & Hpre).
        { intros x y Hxy Hx. apply negb_true_iff, N.ltb_ge in Hx. apply negb_true_iff, N.ltb_ge. lia. }
        set (post := filter (fun x => negb (snum x <? n)) sg) in *.
        exists hd, sg, pre, post. split; [exact Hls|]. split; [exact Eseg|]. split; [exact Hgood|]. split; [exact Esg|].
        split; [|split; [|split]].
        * intros y Hy. destruct (snum y <? n) eqn:E; [apply N.ltb_lt; exact E|]. exfalso.
          assert (Hin : In y (filter (fun x => negb (snum x <? n)) pre)) by (apply filter_In; split; [exact Hy | rewrite E; reflexivity]).
          rewrite Hpre in Hin. destruct Hin.
        * intros y Hy. unfold post in Hy. apply filter_In in Hy as [_ Hy]. apply negb_true_iff, N.ltb_ge in Hy. exact Hy.
        * assert (E : forall x, In x sg ->
                    (if snum x <? n then [] else [wrap x (if snum x <=? rn (libref (db s)) then SNewIrr else SNew) (bref hd)
                                                    (if snum x <? rn (libref (db s)) then seg_ref x else libref (db s)) None])
                    = (if negb (snum x <? n) then [snap_event s hd x] else [])).
          { intros x Hx. destruct (snum x <? n); [reflexivity|]. cbn [negb]. f_equal. apply wrap_snap.
            rewrite Forall_forall in Hstd. apply Hstd. exact Hx. }
          assert (Hfm : flat_map (fun x => if snum x <? n then [] else [wrap x (if snum x <=? rn (libref (db s)) then SNewIrr else SNew) (bref hd)
                                                    (if snum x <? rn (libref (db s)) then seg_ref x else libref (db s)) None]) sg
                        = map (snap_event s hd) post).
          { rewrite (flat_map_ext_in _ _ sg E). apply flat_map_keep. }
          exact Hfm.
        * intros Hp0 Hne. subst pre. cbn [app] in Esg. destruct post as [|x0 r] eqn:Ep; [contradiction|].
          exists x0, r. split; [reflexivity|].
          assert (Ex0 : x0 = s0) by (unfold sg in Esg; injection Esg as E _; symmetry; exact E).
          assert (Hx0 : n <= snum x0).
          { assert (Hin : In x0 post) by (rewrite Ep; left; reflexivity). unfold post in Hin. apply filter_In in Hin as [_ H].
            apply negb_true_iff, N.ltb_ge in H. exact H. }
          rewrite Ex0 in *. lia.
      + (* the cursor block is not on the chain: it is not stored either, so no answer *)
        exfalso.
        destruct (complete_segment (db s) (cu_blk cu)) as [[csg [|]]|] eqn:Ecs; try discriminate.
        2:{ destruct csg; discriminate. }
        destruct csg as [|c0 csg0]; [discriminate|].
        pose proof (complete_segment_segment_of _ _ _ _ Ecs) as [Hcst _ Hctop _ _].
        destruct (exists_last (l := c0 :: csg0)) as (q & z & Ez); [discriminate|].
        destruct (Hctop q z Ez) as (Hzid & _ & _).
        assert (Hzst : find (sid z) (store (db s)) = Some (sent z)) by (apply Hcst; rewrite Ez; apply in_or_app; right; left; reflexivity).
        rewrite Hzid in Hzst. rewrite (Hon hd sg Hls Eseg) in Eblk; [discriminate|]. rewrite Hzst. discriminate.
  Qed.
End Through.
