(* C12 — facts about the scheduling framework: invariants over all schedules, and termination
   under weak fairness from a ranking function (finite formulation, no axioms). *)
From BV Require Import Base.Prelude Model.Lifecycle.

Section SchedFacts.
  Context {state tid : Type}.
  Variable step : state -> tid -> state.
  Notation run := (run step).

  Lemma run_app : forall a b s, run (a ++ b) s = run b (run a s).
  Proof. intros a b s. unfold Lifecycle.run. apply fold_left_app. Qed.

  Lemma run_cons : forall t a s, run (t :: a) s = run a (step s t).
  Proof. reflexivity. Qed.

  (* an invariant of every step holds after every schedule *)
  Lemma run_inv : forall (P : state -> Prop), (forall s t, P s -> P (step s t)) ->
    forall sched s, P s -> P (run sched s).
  Proof.
    intros P HP sched. induction sched as [|t sched IH]; intros s Hs; [exact Hs|].
    rewrite run_cons. apply IH, HP, Hs.
  Qed.

  Notation fair_rounds := (fair_rounds step).

  Variable P : state -> Prop.           (* phase / invariant in which the ranking argument holds *)
  Variable rank : state -> nat.
  Variable fin : state -> bool.         (* the goal: Run returned and Terminated reached *)
  Hypothesis P_step : forall s t, P s -> P (step s t).
  Hypothesis rank_step : forall s t, P s -> step s t = s \/ rank (step s t) < rank s.
  Hypothesis progress : forall s, P s -> fin s = false -> exists t, step s t <> s.
  Hypothesis fin_step : forall s t, P s -> fin s = true -> fin (step s t) = true.

  Lemma P_run : forall sched s, P s -> P (run sched s).
  Proof. apply run_inv. exact P_step. Qed.

  Lemma fin_run : forall sched s, P s -> fin s = true -> fin (run sched s) = true.
  Proof.
    induction sched as [|t sched IH]; intros s Hp Hf; [exact Hf|].
    rewrite run_cons. apply IH; [apply P_step; exact Hp | apply fin_step; assumption].
  Qed.

  Lemma rank_run_le : forall sched s, P s -> rank (run sched s) <= rank s.
  Proof.
    induction sched as [|t sched IH]; intros s Hp; [apply le_n|].
    rewrite run_cons. specialize (IH (step s t) (P_step s t Hp)).
    destruct (rank_step s t Hp) as [E|L]; [rewrite E in *; exact IH | lia].
  Qed.

  (* a segment containing a thread enabled at its start makes the rank drop *)
  Lemma seg_decreases : forall seg s t, P s -> step s t <> s -> In t seg -> rank (run seg s) < rank s.
  Proof.
    induction seg as [|u seg IH]; intros s t Hp Hen Hin; [destruct Hin|].
    rewrite run_cons. destruct (rank_step s u Hp) as [E|L].
    - destruct Hin as [->|Hin]; [contradiction|].
      rewrite E. apply (IH s t Hp Hen Hin).
    - pose proof (rank_run_le seg (step s u) (P_step s u Hp)). lia.
  Qed.

  (* after (rank s + 1)... in fact after `rank s` fair segments the goal is reached, whatever else
     the schedule contains *)
  Theorem fair_termination : forall n s sched,
    P s -> rank s <= n -> fair_rounds n s sched -> fin (run sched s) = true.
  Proof.
    induction n as [|n IH]; intros s sched Hp Hr Hf.
    - destruct (fin s) eqn:Ef; [apply fin_run; assumption|].
      destruct (progress s Hp Ef) as [t Ht].
      destruct (rank_step s t Hp) as [E|L]; [contradiction | lia].
    - inversion Hf as [|n' s' seg rest Hseg Hrest]; subst.
      rewrite run_app.
      destruct (fin s) eqn:Ef.
      + apply fin_run; [apply P_run; exact Hp|]. apply fin_run; assumption.
      + destruct (progress s Hp Ef) as [t Ht].
        pose proof (seg_decreases seg s t Hp Ht (Hseg t Ht)) as Hd.
        apply IH; [apply P_run; exact Hp | lia | exact Hrest].
  Qed.
End SchedFacts.

(* ---- tactic kit for step-case analyses on an ABSTRACT state (the state record is never
   destructed: only its projections are, so terms stay small) *)
Ltac rw_eqs := repeat match goal with
  | H : ?x = ?v |- context [?x] => rewrite H
  end.
(* per-model projection rewriting (frame lemmas), set with `Ltac proj_hook ::= ...` *)
Ltac proj_hook := idtac.
Ltac red_proj := repeat (progress (simpl; rw_eqs; proj_hook)).
Ltac no_match x := lazymatch x with
  | context [match _ with _ => _ end] => fail
  | _ => idtac
  end.
(* case analysis on the scrutinees (innermost first) of every if/match of the goal *)
Ltac case_step := red_proj; repeat (match goal with
   | |- context [match ?x with _ => _ end] => no_match x; destruct x eqn:?
   end; red_proj).
Ltac rw_hyps := repeat match goal with
  | H : ?x = ?v, H' : context [?x] |- _ => lazymatch H' with H => fail | _ => rewrite H in H' end
  end.
Ltac fin := repeat split; intros; simpl in *; subst; try discriminate; try congruence; auto.
