(* GENERIC COPY of Proofs/C08_SchedProgress.v: the same proofs with the event production function [hub_push first kept]
   (Model/Hub.v hub_live) replaced by an arbitrary hp : hprod (Model/HubAll.v); see Spec/C08_Sched_Gen_Spec.v. *)
(* C08, schedule part, 6: progress.  The producer is never blocked by a subscriber; no reachable_g state is
   a deadlock. *)
From BV Require Import Base.Prelude Model.Block Model.ForkDB Model.Forkable Model.ForkableLookups
  Model.Burst Model.Hub Model.HubSubs Model.HubAll Model.HubSched Model.HubSchedG Spec.C08_Spec Spec.C08_Gen_Spec Spec.C08_Sched_Spec Spec.C08_Sched_Gen_Spec
  Proofs.C08G_SchedSerial Proofs.C08G_SchedInv Proofs.C08G_SchedReg Proofs.C08G_SchedRefine Proofs.C08G_SchedOrder.
Local Open Scope N_scope.

Lemma neq_by_ppc st st' : g_ppc st' <> g_ppc st -> st' <> st.
Proof. intros H E. apply H. rewrite E. reflexivity. Qed.

Lemma neq_by_req st st' i c c' :
  nth_error (g_reqs st) i = Some c -> nth_error (g_reqs st') i = Some c' -> c' <> c -> st' <> st.
Proof. intros Hc Hc' Hne E. rewrite E, Hc in Hc'. inversion Hc'. congruence. Qed.

Lemma put_req_at st i c c' : nth_error (g_reqs st) i = Some c -> nth_error (set_nth i c' (g_reqs st)) i = Some c'.
Proof. intros Hc. rewrite (rq_put _ _ _ _ _ Hc), Nat.eqb_refl. reflexivity. Qed.

Lemma list_neq_cons {A} (x : A) l : l <> x :: l.
Proof. intros E. apply (f_equal (@length A)) in E. cbn in E. lia. Qed.

(* inside its critical section the producer's next step_g is always enabled *)
Lemma prod_enabled_cs hp st : LockInv st -> in_write_cs st = true -> prod_step_g true hp st <> st.
Proof.
  intros L Hw. destruct (lock_writer_excludes st L (writer_of_pc st L Hw)) as [Hm _].
  assert (Hmf : mutex_free true st = true) by (unfold mutex_free; rewrite Hm; reflexivity).
  apply neq_by_ppc. unfold prod_step_g, in_write_cs in *.
  destruct (g_ppc st) as [|b|b|evs|e todo evs|e k todo evs] eqn:Hpc; try discriminate.
  - rewrite (hub_push_live hp (g_hub st) b). simp_st. discriminate.
  - destruct evs as [|e evs]; [simp_st; discriminate|]. rewrite Hmf. simp_st. discriminate.
  - destruct todo as [|k todo]; [simp_st; discriminate|].
    destruct (nth_error (g_reqs st) k) as [c|]; [|simp_st; intros E; inversion E as [E']; apply (list_neq_cons _ _ E')].
    destruct (r_sub c) as [s|]; [|simp_st; intros E; inversion E as [E']; apply (list_neq_cons _ _ E')].
    destruct (N.of_nat (length (ms_queue s)) =? ms_cap s); simp_st; [discriminate|].
    intros E; inversion E as [E']; apply (list_neq_cons _ _ E').
  - rewrite Hmf. simp_st. discriminate.
Qed.

(* a requester inside the read lock whose step_g is enabled *)
Lemma req_enabled_cs st :
  LockInv st -> (exists i c, nth_error (g_reqs st) i = Some c /\ in_read_cs c = true) ->
  exists i c, nth_error (g_reqs st) i = Some c /\ in_read_cs c = true /\ req_step true st i <> st.
Proof.
  intros L [i0 [c0 [Hc0 Hin0]]].
  assert (Hstep : forall i c, nth_error (g_reqs st) i = Some c -> in_read_cs c = true ->
                    (r_pc c = RHook -> g_mutex st = None) -> req_step true st i <> st).
  { intros i c Hc Hin Hhook. unfold req_step. rewrite Hc. unfold in_read_cs in Hin.
    destruct (r_pc c) as [| | | |snap| | |] eqn:Hpc; try discriminate.
    - destruct (request_burst (g_hub st) (r_req c)).
      + eapply (neq_by_req _ _ i c _ Hc); [simp_st; apply (put_req_at st i c _ Hc)|]. intros E. rewrite <- E in Hpc. discriminate.
      + eapply (neq_by_req _ _ i c _ Hc); [simp_st; apply (put_req_at st i c _ Hc)|]. intros E. rewrite <- E in Hpc. discriminate.
    - rewrite (Hhook eq_refl).
      eapply (neq_by_req _ _ i c _ Hc); [simp_st; apply (put_req_at st i c _ Hc)|]. intros E. rewrite <- E in Hpc. discriminate.
    - eapply (neq_by_req _ _ i c _ Hc); [simp_st; apply (put_req_at st i c _ Hc)|]. intros E. rewrite <- E in Hpc. discriminate.
    - eapply (neq_by_req _ _ i c _ Hc); [simp_st; apply (put_req_at st i c _ Hc)|]. intros E. rewrite <- E in Hpc. discriminate.
    - eapply (neq_by_req _ _ i c _ Hc); [simp_st; apply (put_req_at st i c _ Hc)|]. intros E. rewrite <- E in Hpc. discriminate.
    - eapply (neq_by_req _ _ i c _ Hc); [simp_st; apply (put_req_at st i c _ Hc)|]. intros E. rewrite <- E in Hpc. discriminate. }
  destruct (g_mutex st) as [j|] eqn:Hm.
  - destruct (li_mutex_holder _ L j Hm) as [cj [Hj Hmj]]. exists j, cj. split; [exact Hj|].
    split; [apply mutex_cs_read_cs, Hmj|]. apply (Hstep j cj Hj (mutex_cs_read_cs _ Hmj)).
    intros Hp. unfold in_mutex_cs in Hmj. rewrite Hp in Hmj. discriminate.
  - exists i0, c0. split; [exact Hc0|]. split; [exact Hin0|]. apply (Hstep i0 c0 Hc0 Hin0). intros _. reflexivity.
Qed.

Definition not_done (c : req) : bool := match r_pc c with RDone => false | _ => true end.
Definition has_item (c : req) : bool :=
  match r_pc c, r_sub c with
  | RDone, Some s => match ms_queue s with [] => false | _ :: _ => true end
  | _, _ => false
  end.

Theorem c08_sched_no_deadlock_proof hp : C08_sched_no_deadlock_g hp.
Proof.
  intros h0 script reqs st [sched ->].
  destruct (full_reachable hp h0 script reqs sched) as [[L _] _].
  set (st := crun_g true hp (cinit h0 script reqs) sched) in *. clearbody st.
  assert (Hcs : in_write_cs st = true -> cstep_g true hp st TProd <> st)
    by (intros Hw; apply (prod_enabled_cs hp st L Hw)).
  assert (Hidle : g_ppc st = PIdle -> g_script st <> [] -> cstep_g true hp st TProd <> st).
  { intros Hpc Hs. apply neq_by_ppc. cbn [cstep_g]. unfold prod_step_g. rewrite Hpc.
    destruct (g_script st) as [|b rest]; [contradiction|]. simp_st. discriminate. }
  assert (Hwait : forall b, g_ppc st = PWait b ->
            (g_readers st = O -> cstep_g true hp st TProd <> st) /\
            (g_readers st <> O -> exists i c, nth_error (g_reqs st) i = Some c /\ in_read_cs c = true /\
                                              cstep_g true hp st (TReq i) <> st)).
  { intros b Hpc. split.
    - intros Hr. apply neq_by_ppc. cbn [cstep_g]. unfold prod_step_g. rewrite Hpc, Hr. cbn [Nat.eqb]. simp_st. discriminate.
    - intros Hr. rewrite (li_readers _ L) in Hr. destruct (cntf_pos _ _ Hr) as [i [c [Hc Hin]]].
      cbn [cstep_g]. apply (req_enabled_cs st L). exists i, c. auto. }
  split; [|split; [exact Hcs|split; [exact Hidle | exact Hwait]]].
  destruct (in_write_cs st) eqn:Hw; [right; exists TProd; apply Hcs; reflexivity|].
  destruct (g_ppc st) as [|b|b|evs|e todo evs|e k todo evs] eqn:Hpc; unfold in_write_cs in Hw; rewrite Hpc in Hw;
    try discriminate.
  2:{ destruct (Hwait b eq_refl) as [H1 H2]. destruct (Nat.eq_dec (g_readers st) 0) as [Hr|Hr].
      - right. exists TProd. apply H1, Hr.
      - destruct (H2 Hr) as [i [c [_ [_ Hen]]]]. right. exists (TReq i). exact Hen. }
  destruct (g_script st) as [|b rest] eqn:Hscr; [|right; exists TProd; apply Hidle; [reflexivity | discriminate]].
  (* the producer has finished *)
  destruct (Nat.eq_dec (cntf in_read_cs (g_reqs st)) 0) as [Hrd|Hrd].
  2:{ destruct (cntf_pos _ _ Hrd) as [i [c [Hc Hin]]].
      destruct (req_enabled_cs st L (ex_intro _ i (ex_intro _ c (conj Hc Hin)))) as [j [cj [_ [_ Hen]]]].
      right. exists (TReq j). exact Hen. }
  destruct (Nat.eq_dec (cntf not_done (g_reqs st)) 0) as [Hnd|Hnd].
  2:{ destruct (cntf_pos _ _ Hnd) as [i [c [Hc Hn]]]. right. exists (TReq i). cbn [cstep_g]. unfold req_step. rewrite Hc.
      pose proof (cntf_zero _ _ Hrd i c Hc) as Hnr. unfold in_read_cs in Hnr. unfold not_done in Hn.
      destruct (r_pc c) eqn:Hp; try discriminate.
      rewrite (li_writer _ L), (li_wpend _ L). unfold in_write_cs. rewrite Hpc. cbn [negb andb].
      eapply (neq_by_req _ _ i c _ Hc); [simp_st; apply (put_req_at st i c _ Hc)|]. intros E. rewrite <- E in Hp. discriminate. }
  destruct (Nat.eq_dec (cntf has_item (g_reqs st)) 0) as [Hit|Hit].
  2:{ destruct (cntf_pos _ _ Hit) as [i [c [Hc Hn]]]. right. exists (TCons i).
      destruct (cons_step_cases st i) as [E|[c' [s [x [q [Hc' [Hp [Hs [Hq E]]]]]]]]].
      - exfalso. unfold cons_step in E. unfold has_item in Hn. rewrite Hc in E.
        destruct (r_pc c); try discriminate. destruct (r_sub c) as [s|]; try discriminate.
        destruct (ms_queue s) as [|x q] eqn:Hq; [discriminate|].
        assert (Hg : nth_error (g_reqs st) i = Some (recv_req c s x q)).
        { rewrite <- E at 1. destruct (inflight st) as [[e todo]|]; [destruct (memb i todo)|]; simp_st; apply (put_req_at st i c _ Hc). }
        rewrite Hc in Hg. inversion Hg as [Hg']. apply (f_equal (fun r => length (r_got r))) in Hg'.
        cbn [recv_req r_got] in Hg'. rewrite app_length in Hg'. cbn in Hg'. lia.
      - cbn [cstep_g]. rewrite E. rewrite Hc in Hc'. inversion Hc'; subst c'.
        assert (Hne : recv_req c s x q <> c).
        { intros E'. apply (f_equal (fun r => length (r_got r))) in E'. cbn [recv_req r_got] in E'.
          rewrite app_length in E'. cbn in E'. lia. }
        destruct (inflight st) as [[e todo]|]; [destruct (memb i todo)|];
          (eapply (neq_by_req _ _ i c _ Hc); [simp_st; apply (put_req_at st i c _ Hc) | exact Hne]). }
  left. split; [exact Hpc|]. split; [exact Hscr|]. intros i c Hc.
  pose proof (cntf_zero _ _ Hnd i c Hc) as H1. pose proof (cntf_zero _ _ Hit i c Hc) as H2.
  unfold not_done in H1. unfold has_item in H2. destruct (r_pc c); try discriminate. split; [reflexivity|].
  intros s Hs. rewrite Hs in H2. destruct (ms_queue s); [reflexivity | discriminate].
Qed.
