(* Soundness of the boolean property checkers of Check/C16_Check.v w.r.t. Spec/C16_Spec.v. *)
From BV Require Import Base.Prelude Base.Decimal Model.CursorCodec Model.Dbin Model.OneBlockName
  Spec.C16_Spec Check.C16_Check Proofs.PreludeFacts.
Local Open Scope N_scope.

(* the checker's guard is the spec's guard *)
Lemma name_ok_b_iff num id parent lib suffix :
  name_ok_b num id parent lib suffix = true <-> name_ok num id parent lib suffix.
Proof.
  unfold name_ok_b, name_ok. rewrite !andb_true_iff, !negb_true_iff, !N.ltb_lt. tauto.
Qed.

(* "is a prefix of the clean read": the delivered items are exactly clean items i, i+1, ... *)
Lemma is_prefix_refs_sound : forall its i,
  is_prefix_refs its i = true -> its = map IRef (seqN i (length its)).
Proof.
  induction its as [|x its IH]; intros i H; [reflexivity|].
  cbn [is_prefix_refs] in H. destruct x as [j|j|l h]; try discriminate.
  apply andb_true_iff in H as [Hj Hr]. apply N.eqb_eq in Hj. subst j.
  cbn [length seqN map]. f_equal. apply IH. exact Hr.
Qed.

(* the clean round-trip checker: the blocks read are "the same" blocks, all of them, then EOF
   (when no legacy block of an unsupported protocol is in the sequence) *)
Lemma round_ok_length : forall orig got,
  existsb unsupported_legacy orig = false -> round_ok orig got EEof = true ->
  length got = length orig /\ Forall2 (fun b g => blk_same b g = true) orig got.
Proof.
  induction orig as [|b r IH]; intros got Hn H.
  - destruct got; [split; [reflexivity|constructor] | discriminate].
  - cbn [existsb] in Hn. apply orb_false_iff in Hn as [Hb Hr].
    cbn [round_ok] in H. rewrite Hb in H. destruct got as [|g gr]; [discriminate|].
    apply andb_true_iff in H as [Hs Hrest]. destruct (IH gr Hr Hrest) as [Hl Hf].
    split; [simpl; lia | constructor; assumption].
Qed.

(* blk_same pins every field the property names *)
Lemma blk_same_fields b g : blk_same b g = true ->
  b_num g = b_num b /\ b_id g = b_id b /\ b_parent g = b_parent b /\ b_lib g = b_lib b /\
  ts_eqb (b_ts b) (b_ts g) = true /\
  match b_payload b with
  | Some a => exists a', b_payload g = Some a' /\ any_eqb a a' = true
  | None => exists a', b_payload g = Some a' /\ a_val a' = b_pbuf b
  end.
Proof.
  unfold blk_same. intros H.
  repeat match goal with Hx : _ && _ = true |- _ => apply andb_true_iff in Hx as [? ?] end.
  repeat match goal with Hx : eqb_list _ _ = true |- _ => apply eqb_list_eq in Hx end.
  repeat match goal with Hx : (_ =? _) = true |- _ => apply N.eqb_eq in Hx end.
  repeat split; try congruence.
  destruct (b_payload b) as [a|], (b_payload g) as [a'|]; try discriminate.
  - exists a'. split; [reflexivity|assumption].
  - exists a'. split; [reflexivity|]. match goal with Hx : eqb_list _ _ = true |- _ => apply eqb_list_eq in Hx end. congruence.
Qed.
