(* Proofs of the C11 statements (Spec/C11_Spec.v). *)
From BV Require Import Base.Prelude Model.FileSeq Model.Pipeline Spec.C10_Spec Spec.C11_Spec
  Proofs.FileSeqFacts Proofs.PipelineDefs Proofs.PipelineInv Proofs.PipelineLive Proofs.C10_Proofs Proofs.PipelineBound.
Local Open Scope nat_scope.

Lemma c11_returns_proof : C11_returns.
Proof.
  intros pre C sched Hfix s Q.
  assert (I : Inv pre C s) by (apply run_pres; [exact Hfix|apply Inv_init]).
  destruct (quiescent_shape pre C Hfix s I Q) as [[e Hm]|(Ht & Hm & Hfs & i & Hl & Hi)].
  - left. unfold returned. now rewrite Hm.
  - right. destruct (tail_state pre C s i I Ht Hm Hfs Hl Hi) as [Hc Ho].
    split; [now apply term_false_err|]. split; [exact Ho|exact Hc].
Qed.

Lemma c11_quiesces_proof : C11_quiesces.
Proof. exact c10_order_quiesces_proof. Qed.

Lemma c11_fires_proof : C11_fires.
Proof.
  intros pre C sched Hfix Hsite s Q.
  apply (fires_core pre C Hfix s); auto.
  - apply run_pres; [exact Hfix|apply Inv_init].
  - apply reachable_binv; exact Hfix.
Qed.

Lemma c11_bound_proof : C11_bound.
Proof. intros pre C sched Hfix. now apply bound_core. Qed.

Lemma c11_error_proof : C11_error.
Proof.
  intros pre C sched Hfix s Hr.
  assert (I : Inv pre C s) by (apply run_pres; [exact Hfix|apply Inv_init]).
  unfold returned in Hr. destruct (s_m s) as [| | | | |e] eqn:Hm; try discriminate.
  destruct (done_state pre C s e I Hm) as (e' & He & Hd). exists e'. split; [exact He|].
  destruct Hd as [H|[H|[-> Hg]]]; auto.
  destruct e; simpl in Hg; try contradiction.
  - destruct (good_stop pre C s I Hg) as [Hc Ho]. right; right. auto.
  - destruct (good_nonseq pre C s I Hg) as [Hc Ho]. right; right. auto.
  - destruct Hg as (n & Hn & _). left. rewrite Hn. split; [reflexivity|discriminate].
Qed.

Lemma c11_prefix_proof : C11_prefix.
Proof. exact c10_order_safety_proof. Qed.

(* ---- silence: after Run has returned only run() could call the handler, and it is done ---- *)
Section Silence.
  Variable pre : blk -> N.
  Variable C : cfg.

  Ltac brk := repeat match goal with |- context[match ?x with _ => _ end] => destruct x end.

  Lemma step_after_return : forall s tc e, s_m s = MDone e ->
    s_m (step pre C s tc) = MDone e /\ s_calls (step pre C s tc) = s_calls s.
  Proof.
    intros s [t c] e Hm. destruct t; simpl.
    - unfold step_L, l_exit. brk; simpl; autorewrite with pl; auto.
    - unfold step_R. cbv zeta. brk; simpl; autorewrite with pl; auto.
    - unfold step_D. cbv zeta. unfold m_waits_on. rewrite Hm. simpl.
      brk; simpl; autorewrite with pl; auto.
    - unfold step_P. cbv zeta. brk; simpl; autorewrite with pl; auto.
    - unfold step_M. rewrite Hm. auto.
    - unfold step_X. brk; simpl; autorewrite with pl; auto.
  Qed.

  Lemma run_after_return : forall l s e, s_m s = MDone e ->
    s_m (run pre C l s) = MDone e /\ s_calls (run pre C l s) = s_calls s.
  Proof.
    induction l as [|tc l IH]; intros s e Hm; simpl; [auto|].
    destruct (step_after_return s tc e Hm) as [H1 H2].
    destruct (IH _ e H1) as [H3 H4]. split; [exact H3|congruence].
  Qed.
End Silence.

Lemma c11_silence_proof : C11_silence.
Proof.
  intros pre C sched sched' s Hr. unfold returned in Hr.
  destruct (s_m s) as [| | | | |e] eqn:Hm; try discriminate.
  destruct (run_after_return pre C sched' s e Hm) as [H1 H2]. split; [exact H2|].
  unfold returned. now rewrite H1.
Qed.

(* ---- the unfixed code ---- *)
Definition cx_pre (b : blk) : N := (3 * b_id b + b_num b)%N.

(* one bundle, OpenObject fails, run() ranges over the per-file channel without watching
   Terminating(): the source is shut down with the right error and Run never returns *)
Definition cx1_cfg : cfg :=
  mkCfg (mkLayout [[mkBlk 1 1 0]] 1 5 3) 2 (FOpen 0) false false true.
Definition cx1_sched : list (tid * bool) :=
  [(TL, false); (TL, false); (TM, false); (TL, false); (TR 0, false)].

Lemma c11_returns_unfixed_proof : C11_returns_unfixed_counterexample.
Proof.
  exists cx_pre, cx1_cfg, cx1_sched.
  split; [reflexivity|]. split; [reflexivity|]. split; [reflexivity|]. split; [reflexivity|].
  set (s := run cx_pre cx1_cfg cx1_sched (init cx1_cfg)). vm_compute in s.
  split; [|split; reflexivity].
  intros [t c]. destruct t as [|i|i|i k| |]; destruct c; try (vm_compute; reflexivity).
  - destruct i as [|i]; vm_compute; reflexivity.
  - destruct i as [|i]; vm_compute; reflexivity.
  - destruct i as [|i]; vm_compute; reflexivity.
  - destruct i as [|i]; vm_compute; reflexivity.
  - destruct i as [|i]; [destruct k as [|k]|]; vm_compute; reflexivity.
  - destruct i as [|i]; [destruct k as [|k]|]; vm_compute; reflexivity.
Qed.

(* two bundles of a properly linked chain, the third Read of the first bundle fails, the
   reader closes `preprocessed` and is then slow to report (reader.Close()): run() drains
   the first file, moves on to the second one and reports non-sequential blocks *)
Definition cx2_lay : layout :=
  mkLayout [[mkBlk 1 1 0; mkBlk 2 2 1; mkBlk 3 3 2; mkBlk 4 4 3]; [mkBlk 5 5 4; mkBlk 6 6 5]] 1 5 6.
Definition cx2_cfg : cfg := mkCfg cx2_lay 2 (FRead 0 2) false true false.
Fixpoint rep {A} (n : nat) (l : list A) : list A := match n with O => [] | S n' => l ++ rep n' l end.
Definition cx2_sched : list (tid * bool) :=
  filter (fun tc : tid * bool => negb (snd tc))
    (rounds cx2_cfg 7 ++
     rep 12 (filter (fun tc : tid * bool => match fst tc with TR 0 => false | _ => true end) (all_moves cx2_cfg))).

Lemma c11_error_unfixed_proof : C11_error_unfixed_counterexample.
Proof.
  exists cx_pre, cx2_cfg, cx2_sched.
  split; [reflexivity|]. split; [reflexivity|]. split; [reflexivity|]. split; [reflexivity|].
  split; [vm_compute; reflexivity|]. split; vm_compute; reflexivity.
Qed.
