(* GENERIC COPY of Proofs/C08_SchedEmbed.v: the same proofs with the event production function [hub_push first kept]
   (Model/Hub.v hub_live) replaced by an arbitrary hp : hprod (Model/HubAll.v); see Spec/C08_Sched_Gen_Spec.v. *)
(* C08, schedule part, 1b: the operation sequences of Spec/C08_Spec.v (process a block / serve a request /
   drain a subscription) are sequences of the finer operations: XBlock followed by the XFan of its events,
   XSub, and as many XRecv as items are pending. *)
From BV Require Import Base.Prelude Model.Block Model.ForkDB Model.Forkable Model.ForkableLookups
  Model.Burst Model.Hub Model.HubSubs Model.HubAll Model.HubSched Model.HubSchedG Spec.C08_Spec Spec.C08_Gen_Spec Proofs.C08_Abstract Proofs.C08G_Hub
  Spec.C08_Sched_Spec Spec.C08_Sched_Gen_Spec Proofs.C08G_SchedSerial.
Local Open Scope N_scope.

Definition xof (st : hstate) : xstate := mkX (hs_sh st) (hs_got st) [].

(* ---------------------------------------------------------------- a block *)

Lemma xrun_fans hp h got : forall evs subs,
  xvalid_g hp (mkX (mkSH h subs) got evs) (map XFan evs) /\
  xrun_g hp (mkX (mkSH h subs) got evs) (map XFan evs) = mkX (mkSH h (fold_left fan_out evs subs)) got [].
Proof.
  induction evs as [|e evs IH]; intros subs; [cbn; auto|].
  cbn [map xvalid_g xok]. rewrite xrun_cons. cbn [xstep_g x_sh x_got x_pend sh_hub sh_subs tl fold_left].
  destruct (IH (fan_out subs e)) as [Hv Hr]. split; [split; [eexists; reflexivity | exact Hv] | exact Hr].
Qed.

(* ---------------------------------------------------------------- a drain *)

Lemma add_got_nil : forall got k, add_got k [] got = got.
Proof.
  induction got as [|g got IH]; intros k; [reflexivity|]. destruct k as [|k]; cbn [add_got].
  - rewrite app_nil_r. reflexivity.
  - rewrite IH. reflexivity.
Qed.

(* one receive on the pair (subscriptions, received) *)
Definition recv1 (k : nat) (p : list msub * list (list qitem)) : list msub * list (list qitem) :=
  let '(subs', q) := recv_nth k (fst p) in (subs', add_got k q (snd p)).

Fixpoint recvn (n k : nat) (p : list msub * list (list qitem)) : list msub * list (list qitem) :=
  match n with O => p | S n' => recvn n' k (recv1 k p) end.

Lemma xrun_recvs hp h : forall n k subs got,
  xvalid_g hp (mkX (mkSH h subs) got []) (repeat (XRecv k) n) /\
  xrun_g hp (mkX (mkSH h subs) got []) (repeat (XRecv k) n)
  = mkX (mkSH h (fst (recvn n k (subs, got)))) (snd (recvn n k (subs, got))) [].
Proof.
  induction n as [|n IH]; intros k subs got; [cbn; auto|].
  cbn [repeat xvalid_g xok recvn]. rewrite xrun_cons. cbn [xstep_g x_sh x_got x_pend sh_hub sh_subs].
  unfold recv1. cbn [fst snd]. destruct (recv_nth k subs) as [subs' q].
  destruct (IH k subs' (add_got k q got)) as [Hv Hr]. split; [split; [exact I | exact Hv] | exact Hr].
Qed.

(* the head subscription: as many receives as items pending empty it *)
Lemma recvn_head : forall q s rest g grest,
  ms_queue s = q ->
  recvn (length q) O (s :: rest, g :: grest) = (mkSub [] (ms_cap s) (ms_dropped s) :: rest, (g ++ q) :: grest).
Proof.
  induction q as [|x q IH]; intros s rest g grest Hq; cbn [length recvn].
  - rewrite app_nil_r. destruct s as [qq c d]. cbn in Hq. subst qq. reflexivity.
  - unfold recv1. cbn [fst snd recv_nth]. rewrite Hq. cbn [add_got].
    rewrite (IH (mkSub q (ms_cap s) (ms_dropped s)) rest (g ++ [x]) grest eq_refl).
    cbn [ms_cap ms_dropped]. rewrite <- app_assoc. reflexivity.
Qed.

Lemma recvn_head_nogot : forall q s rest,
  ms_queue s = q ->
  recvn (length q) O (s :: rest, []) = (mkSub [] (ms_cap s) (ms_dropped s) :: rest, []).
Proof.
  induction q as [|x q IH]; intros s rest Hq; cbn [length recvn].
  - destruct s as [qq c d]. cbn in Hq. subst qq. reflexivity.
  - unfold recv1. cbn [fst snd recv_nth]. rewrite Hq. cbn [add_got].
    rewrite (IH (mkSub q (ms_cap s) (ms_dropped s)) rest eq_refl). reflexivity.
Qed.

Lemma recvn_tail : forall n k s rest got,
  recvn n (S k) (s :: rest, got) =
  (s :: fst (recvn n k (rest, tl got)),
   match got with [] => [] | g :: _ => g :: snd (recvn n k (rest, tl got)) end).
Proof.
  induction n as [|n IH]; intros k s rest got; cbn [recvn].
  - destruct got; reflexivity.
  - unfold recv1. cbn [fst snd recv_nth]. destruct got as [|g grest]; cbn [tl];
      destruct (recv_nth k rest) as [rest' q]; cbn [add_got]; rewrite IH; cbn [tl]; reflexivity.
Qed.

Lemma recvn_nil n k got : recvn n k ([], got) = ([], got).
Proof.
  revert got. induction n as [|n IH]; intros got; [reflexivity|]. cbn [recvn]. unfold recv1.
  assert (E : recv_nth k [] = ([], [])) by (destruct k; reflexivity). cbn [fst snd]. rewrite E.
  rewrite add_got_nil. apply IH.
Qed.

Lemma recvn_drain : forall subs k got,
  let n := match nth_error subs k with Some s => length (ms_queue s) | None => O end in
  recvn n k (subs, got) = (fst (drain_nth k subs), add_got k (snd (drain_nth k subs)) got).
Proof.
  induction subs as [|s rest IH]; intros k got n; subst n.
  - assert (E : drain_nth k [] = ([], [])) by (destruct k; reflexivity). rewrite E. cbn [fst snd].
    rewrite add_got_nil. apply recvn_nil.
  - destruct k as [|k]; cbn [nth_error drain_nth fst snd].
    + destruct got as [|g grest]; cbn [add_got].
      * apply recvn_head_nogot. reflexivity.
      * apply recvn_head. reflexivity.
    + rewrite recvn_tail. specialize (IH k (tl got)). cbv zeta in IH. rewrite IH.
      destruct (drain_nth k rest) as [rest' q]. cbn [fst snd]. destruct got as [|g grest]; reflexivity.
Qed.

(* ---------------------------------------------------------------- one operation, then all *)

Definition embed1 (hp : hprod) (st : hstate) (o : op) : list xop :=
  match o with
  | OPush b => XBlock b :: map XFan (snd (hp (sh_hub (hs_sh st)) b))
  | OSub r => [XSub r]
  | ODrain k => repeat (XRecv k)
                  (match nth_error (sh_subs (hs_sh st)) k with Some s => length (ms_queue s) | None => O end)
  end.

Lemma embed1_ok hp st o :
  xvalid_g hp (xof st) (embed1 hp st o) /\
  xrun_g hp (xof st) (embed1 hp st o) = xof (step_g hp st o).
Proof.
  destruct st as [[h subs] got]. destruct o as [b|r|k]; cbn [embed1 hs_sh hs_got sh_hub sh_subs].
  - cbn [xvalid_g xok]. rewrite xrun_cons, xstep_block. unfold xof. cbn [x_sh x_got x_pend sh_hub sh_subs hs_sh hs_got app].
    destruct (xrun_fans hp (fst (hp h b)) got (snd (hp h b)) subs) as [Hv Hr].
    split; [split; [reflexivity | exact Hv]|]. rewrite Hr. cbn [step_g hs_sh hs_got]. rewrite push_block_eq. reflexivity.
  - cbn [xvalid_g xok]. split; [auto|]. rewrite xrun_cons. cbn [xrun_g fold_left xstep_g step_g xof x_sh x_got x_pend hs_sh hs_got].
    destruct (subscribe (mkSH h subs) r) as [sh' ok]. reflexivity.
  - unfold xof. cbn [hs_sh hs_got].
    destruct (xrun_recvs hp h
                (match nth_error subs k with Some s => length (ms_queue s) | None => O end) k subs got) as [Hv Hr].
    split; [exact Hv|]. rewrite Hr. pose proof (recvn_drain subs k got) as Hd. cbv zeta in Hd. rewrite Hd.
    cbn [step_g hs_sh hs_got sh_hub sh_subs fst snd]. destruct (drain_nth k subs) as [subs' q]. reflexivity.
Qed.

Lemma embed_cons hp st o ops :
  embed_g hp st (o :: ops) = embed1 hp st o ++ embed_g hp (step_g hp st o) ops.
Proof. reflexivity. Qed.

Lemma embed_ok hp : forall ops st,
  xvalid_g hp (xof st) (embed_g hp st ops) /\
  xrun_g hp (xof st) (embed_g hp st ops) = xof (run_g hp st ops).
Proof.
  induction ops as [|o ops IH]; intros st; [cbn; auto|].
  rewrite embed_cons. destruct (embed1_ok hp st o) as [Hv1 Hr1]. destruct (IH (step_g hp st o)) as [Hv2 Hr2].
  split.
  - apply xvalid_app. rewrite Hr1. auto.
  - rewrite xrun_app, Hr1, Hr2. reflexivity.
Qed.

Theorem c08_seq_embeds_proof hp : C08_seq_embeds_g hp.
Proof.
  intros sh0 ops xops st. subst xops st. apply (embed_ok hp ops (start sh0)).
Qed.
