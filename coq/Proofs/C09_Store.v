(* C09/C05: facts about stores - find, well-formedness, its preservation, and the rank measure that
   bounds every parent walk by the fuel `fuel_of`. *)
From Coq Require Import Sorted Permutation.
From BV Require Import Base.Prelude Model.Block Model.ForkDB Model.Forkable Model.Burst Spec.C09_Spec.
Local Open Scope N_scope.

(* ---------------------------------------------------------------- find *)

Lemma find_key : forall id l e, find id l = Some e -> key e = id.
Proof.
  induction l as [|x l IH]; cbn; intros e H; [discriminate|].
  destruct (bid (eb x) =? id) eqn:E.
  - inversion H; subst. apply N.eqb_eq in E. exact E.
  - auto.
Qed.

Lemma find_In : forall id l e, find id l = Some e -> In e l.
Proof.
  induction l as [|x l IH]; cbn; intros e H; [discriminate|].
  destruct (bid (eb x) =? id); [inversion H; auto|auto].
Qed.

Lemma find_None_In : forall id l, find id l = None -> forall e, In e l -> key e <> id.
Proof.
  induction l as [|x l IH]; cbn; intros H e He; [contradiction|].
  destruct (bid (eb x) =? id) eqn:E; [discriminate|].
  destruct He as [<-|He]; [apply N.eqb_neq in E; exact E|auto].
Qed.

Lemma In_find_not_None : forall l e, In e l -> find (key e) l <> None.
Proof. intros l e He H. exact (find_None_In _ _ H e He eq_refl). Qed.

Lemma In_find : forall l e, NoDup (map key l) -> In e l -> find (key e) l = Some e.
Proof.
  induction l as [|x l IH]; cbn; intros e ND He; [contradiction|].
  inversion ND as [|? ? Hx ND']; subst.
  destruct He as [<-|He].
  - unfold key. rewrite N.eqb_refl. reflexivity.
  - destruct (bid (eb x) =? key e) eqn:E.
    + apply N.eqb_eq in E. exfalso. apply Hx. rewrite in_map_iff. exists e. split; [symmetry; exact E|exact He].
    + auto.
Qed.

Lemma memN_In : forall x l, memN x l = true <-> In x l.
Proof.
  induction l as [|y l IH]; cbn; [split; [discriminate|contradiction]|].
  rewrite orb_true_iff, IH, N.eqb_eq. split; intros [H|H]; auto.
Qed.

Lemma nodup_b_sound : forall l, nodup_b l = true -> NoDup l.
Proof.
  induction l as [|x l IH]; cbn; intros H; [constructor|].
  apply andb_true_iff in H. destruct H as [H1 H2]. constructor; [|auto].
  intros Hin. apply memN_In in Hin. rewrite Hin in H1. discriminate.
Qed.

Lemma wf_store_b_sound : forall l, wf_store_b l = true -> wf_store l.
Proof.
  intros l H. unfold wf_store_b in H.
  apply andb_true_iff in H. destruct H as [H H3]. apply andb_true_iff in H. destruct H as [H1 H2].
  constructor.
  - apply nodup_b_sound. exact H1.
  - intros e He. rewrite forallb_forall in H2. specialize (H2 e He).
    apply negb_true_iff in H2. apply N.eqb_neq in H2. exact H2.
  - intros e p He Hp Hk. rewrite forallb_forall in H3. specialize (H3 e He).
    rewrite forallb_forall in H3. specialize (H3 p Hp).
    apply orb_true_iff in H3. destruct H3 as [H3|H3].
    + apply negb_true_iff in H3. apply N.eqb_neq in H3. contradiction.
    + apply N.ltb_lt in H3. exact H3.
Qed.

Lemma wf_state_b_sound : forall s, wf_state_b s = true -> wf_state s.
Proof.
  intros s H. unfold wf_state_b in H.
  apply andb_true_iff in H. destruct H as [H H3]. apply andb_true_iff in H. destruct H as [H1 H2].
  constructor.
  - split; [apply wf_store_b_sound; exact H1|].
    intros r Hr. rewrite Hr in H2. apply negb_true_iff in H2. apply N.eqb_neq in H2. exact H2.
  - intros hd e Hh Hf. rewrite Hh, Hf in H3. apply N.eqb_eq in H3. exact H3.
Qed.

(* ---------------------------------------------------------------- preservation *)

Lemma put_In_weak : forall e l x, In x (put e l) -> x = e \/ In x l.
Proof.
  induction l as [|y l IH]; cbn; intros x H.
  - destruct H as [<-|[]]. auto.
  - destruct (bid (eb y) =? bid (eb e)).
    + destruct H as [<-|H]; auto.
    + destruct H as [<-|H]; [auto|]. destruct (IH x H); auto.
Qed.

Lemma put_keys_In : forall e l k, In k (map key (put e l)) -> k = key e \/ In k (map key l).
Proof.
  intros e l k H. rewrite in_map_iff in H. destruct H as [x [<- Hx]].
  destruct (put_In_weak _ _ _ Hx) as [->|Hx']; [auto|right; apply in_map; exact Hx'].
Qed.

Lemma put_NoDup : forall e l, NoDup (map key l) -> NoDup (map key (put e l)).
Proof.
  induction l as [|y l IH]; cbn; intros ND; [constructor; [intros []|constructor]|].
  inversion ND as [|? ? Hy ND']; subst.
  destruct (bid (eb y) =? bid (eb e)) eqn:E; cbn.
  - apply N.eqb_eq in E. constructor; [|exact ND']. unfold key in *. rewrite <- E. exact Hy.
  - apply N.eqb_neq in E. constructor; [|auto].
    intros Hin. destruct (put_keys_In _ _ _ Hin) as [Hk|Hk]; [apply E; exact Hk|contradiction].
Qed.

Lemma wf_store_put : forall e l,
  wf_store l -> key e <> 0 -> key e <> bparent (eb e) -> fits (eb e) l -> wf_store (put e l).
Proof.
  intros e l W Hz Hself Hfit. destruct W as [ND NZ PA]. constructor.
  - apply put_NoDup. exact ND.
  - intros x Hx. destruct (put_In_weak _ _ _ Hx) as [->|Hx']; auto.
  - intros x p Hx Hp Hk.
    destruct (put_In_weak _ _ _ Hx) as [->|Hx']; destruct (put_In_weak _ _ _ Hp) as [->|Hp'].
    + contradiction.
    + destruct (Hfit p Hp') as [F1 _]. auto.
    + destruct (Hfit x Hx') as [_ F2]. apply F2. symmetry. exact Hk.
    + eauto.
Qed.

Lemma wf_store_add_link : forall d b,
  wf_store (store d) -> fits b (store d) -> wf_store (store (fst (add_link d b))).
Proof.
  intros d b W Hfit. unfold add_link.
  destruct ((bid b =? bparent b) || (bid b =? 0)) eqn:E1; [exact W|].
  apply orb_false_iff in E1. destruct E1 as [E1 E2].
  apply N.eqb_neq in E1. apply N.eqb_neq in E2.
  destruct (exists_link d (bid b)) eqn:E3; [exact W|]. cbn [fst store].
  apply wf_store_put; cbn; auto.
Qed.

Lemma set_sent_keys : forall id l, map key (set_sent id l) = map key l.
Proof.
  induction l as [|x l IH]; cbn; [reflexivity|].
  destruct (bid (eb x) =? id); cbn; [reflexivity|]. rewrite IH. reflexivity.
Qed.

Lemma set_sent_In : forall id l x, In x (set_sent id l) -> exists y, In y l /\ eb y = eb x.
Proof.
  induction l as [|y l IH]; cbn; intros x H; [contradiction|].
  destruct (bid (eb y) =? id).
  - destruct H as [<-|H]; [exists y; cbn; auto|exists x; auto].
  - destruct H as [<-|H]; [exists y; auto|]. destruct (IH x H) as [z [Hz Hz']]. exists z; auto.
Qed.

Lemma wf_store_set_sent : forall l id, wf_store l -> wf_store (set_sent id l).
Proof.
  intros l id [ND NZ PA]. constructor.
  - rewrite set_sent_keys. exact ND.
  - intros e He. destruct (set_sent_In _ _ _ He) as [y [Hy Hy']]. unfold key. rewrite <- Hy'. apply NZ. exact Hy.
  - intros e p He Hp Hk.
    destruct (set_sent_In _ _ _ He) as [y [Hy Hy']]. destruct (set_sent_In _ _ _ Hp) as [z [Hz Hz']].
    unfold key in *. rewrite <- Hy', <- Hz' in *. eauto.
Qed.

Lemma NoDup_map_filter : forall (f : entry -> bool) l, NoDup (map key l) -> NoDup (map key (filter f l)).
Proof.
  induction l as [|x l IH]; cbn; intros ND; [constructor|].
  inversion ND as [|? ? Hx ND']; subst.
  destruct (f x); cbn; [constructor|]; auto.
  intros Hin. apply Hx. rewrite in_map_iff in *. destruct Hin as [e [Hk He]].
  apply filter_In in He. exists e. tauto.
Qed.

Lemma wf_store_filter : forall (f : entry -> bool) l, wf_store l -> wf_store (filter f l).
Proof.
  intros f l [ND NZ PA]. constructor.
  - apply NoDup_map_filter. exact ND.
  - intros e He. apply filter_In in He. apply NZ. tauto.
  - intros e p He Hp. apply filter_In in He. apply filter_In in Hp. apply PA; tauto.
Qed.

Lemma wf_store_nil : wf_store [].
Proof. constructor; [constructor| |]; intros; contradiction. Qed.

(* ---------------------------------------------------------------- rank: the measure of the walks *)

Definition rank (l : list entry) (n : N) : nat := length (filter (fun e => bnum (eb e) <? n) l).

Lemma filter_length_le : forall (f g : entry -> bool) l,
  (forall x, f x = true -> g x = true) -> (length (filter f l) <= length (filter g l))%nat.
Proof.
  intros f g l H. induction l as [|x l IH]; cbn; [lia|].
  destruct (f x) eqn:Ef.
  - rewrite (H x Ef). cbn. lia.
  - destruct (g x); cbn; lia.
Qed.

Lemma filter_length_lt : forall (f g : entry -> bool) l p,
  (forall x, f x = true -> g x = true) -> In p l -> f p = false -> g p = true ->
  (length (filter f l) < length (filter g l))%nat.
Proof.
  intros f g l p H. induction l as [|x l IH]; cbn; intros Hin Hf Hg; [contradiction|].
  destruct Hin as [->|Hin].
  - rewrite Hf, Hg. cbn. pose proof (filter_length_le f g l H). lia.
  - specialize (IH Hin Hf Hg). destruct (f x) eqn:Ef.
    + rewrite (H x Ef). cbn. lia.
    + destruct (g x); cbn; lia.
Qed.

Lemma rank_lt : forall l p n, In p l -> bnum (eb p) < n -> (rank l (bnum (eb p)) < rank l n)%nat.
Proof.
  intros l p n Hin Hlt. unfold rank. apply filter_length_lt with (p := p); auto.
  - intros x Hx. apply N.ltb_lt in Hx. apply N.ltb_lt. lia.
  - apply N.ltb_ge. lia.
  - apply N.ltb_lt. exact Hlt.
Qed.

Lemma rank_bound : forall l p, In p l -> (rank l (bnum (eb p)) < length l)%nat.
Proof.
  intros l p Hin. unfold rank.
  replace (length l) with (length (filter (fun _ : entry => true) l)).
  - apply filter_length_lt with (p := p); auto. apply N.ltb_ge. lia.
  - induction l as [|x l IH]; cbn; [reflexivity|]. f_equal.
    clear. induction l as [|y l IH]; cbn; [reflexivity|]. f_equal. exact IH.
Qed.

(* the fuel a walk standing on id `cur` needs *)
Definition need (d : forkdb) (cur : N) : nat :=
  match find cur (store d) with Some e => rank (store d) (bnum (eb e)) + 2 | None => 1 end.

Lemma need_fuel : forall d cur, (need d cur <= fuel_of d)%nat.
Proof.
  intros d cur. unfold need, fuel_of. destruct (find cur (store d)) as [e|] eqn:E; [|lia].
  pose proof (rank_bound _ _ (find_In _ _ _ E)). lia.
Qed.

Lemma need_parent : forall d cur e f, wf_store (store d) -> find cur (store d) = Some e ->
  (need d cur <= S f)%nat -> (need d (bparent (eb e)) <= f)%nat.
Proof.
  intros d cur e f W E H. unfold need in *. rewrite E in H.
  destruct (find (bparent (eb e)) (store d)) as [p|] eqn:Ep; [|lia].
  assert (Hlt : bnum (eb p) < bnum (eb e)).
  { apply (wfs_parent _ W e p); [eapply find_In; eauto|eapply find_In; eauto|eapply find_key; eauto]. }
  pose proof (rank_lt _ _ _ (find_In _ _ _ Ep) Hlt). lia.
Qed.

Lemma need_pos : forall d cur, (1 <= need d cur)%nat.
Proof. intros d cur. unfold need. destruct (find cur (store d)); lia. Qed.

(* ---------------------------------------------------------------- Sorted helpers *)

Lemma Sorted_snoc : forall {A} (R : A -> A -> Prop) l x,
  Sorted R l -> (forall l0 y, l = l0 ++ [y] -> R y x) -> Sorted R (l ++ [x]).
Proof.
  intros A R l x HS. induction HS as [|a l HS IH Hd]; intros Hl; cbn.
  - constructor; constructor.
  - constructor.
    + apply IH. intros l0 y ->. apply (Hl (a :: l0) y). reflexivity.
    + destruct l as [|b l]; cbn.
      * constructor. apply (Hl [] a). reflexivity.
      * constructor. inversion Hd; assumption.
Qed.

Lemma Sorted_app_l : forall {A} (R : A -> A -> Prop) l1 l2, Sorted R (l1 ++ l2) -> Sorted R l1.
Proof.
  intros A R l1. induction l1 as [|a l1 IH]; cbn; intros l2 H; [constructor|].
  inversion H as [|? ? HS Hd]; subst. constructor; [eapply IH; eauto|].
  destruct l1; cbn in *; constructor. inversion Hd; assumption.
Qed.

Lemma Sorted_app_r : forall {A} (R : A -> A -> Prop) l1 l2, Sorted R (l1 ++ l2) -> Sorted R l2.
Proof.
  intros A R l1. induction l1 as [|a l1 IH]; cbn; intros l2 H; [exact H|].
  inversion H; subst. auto.
Qed.

Lemma Sorted_snoc_inv : forall {A} (R : A -> A -> Prop) l y x, Sorted R (l ++ [y; x]) -> R y x.
Proof.
  intros A R l y x H. apply Sorted_app_r in H. inversion H as [|? ? _ Hd]; subst. inversion Hd; assumption.
Qed.
