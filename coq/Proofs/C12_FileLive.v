(* C12 — FileSource: Run returns and Terminated is reached after Shutdown (all schedules, weak
   fairness), closing the gap of C12_returns_file_partial. *)
From BV Require Import Base.Prelude Model.Lifecycle Proofs.C12_Sched Proofs.C12_MuxBase Proofs.C12_FileSource.
Import Fs.

Definition launched (f : fstate) : bool := match f_pc f with FLaunched => true | _ => false end.
Definition cur_file (p : pc) : option nat :=
  match p with RRange k | RChk k _ _ | RInH k _ _ => Some k | _ => None end.

Record FInv (s : state) : Prop := {
  (* the file run() is reading, and a file waiting in fileStream, were sent by launchReader *)
  f2 : forall k, cur_file (pcr s) = Some k -> k < length (files s);
  f4 : forall k, fsbuf s = Some (FFile k) -> k < length (files s);
  (* a file whose goroutine is not spawned yet is the last one, and launchReader is about to spawn it *)
  f3 : forall k f, nth_error (files s) k = Some f -> launched f = true -> pcl s = LGo /\ S k = length (files s) }.

Definition files_ok (l l' : list fstate) : Prop :=
  length l' = length l /\
  forall k f', nth_error l' k = Some f' -> launched f' = true -> exists f, nth_error l k = Some f /\ launched f = true.

Lemma files_ok_refl : forall l, files_ok l l.
Proof. intros l. split; eauto. Qed.

Lemma files_ok_upd : forall l k g, (forall f, launched (g f) = true -> launched f = true) -> files_ok l (upd l k g).
Proof.
  intros l k g Hg. split; [apply upd_length|].
  intros j f' Hj Hl. rewrite nth_upd in Hj. destruct (Nat.eqb j k) eqn:E; [|eauto].
  apply Nat.eqb_eq in E. subst j. destruct (nth_error l k) as [f|] eqn:Ef; simpl in Hj; [|discriminate].
  inversion Hj; subst f'. eauto.
Qed.

Lemma FInv_from : forall s s', FInv s -> pcl s' = pcl s -> files_ok (files s) (files s') ->
  (forall k, cur_file (pcr s') = Some k -> cur_file (pcr s) = Some k \/ fsbuf s = Some (FFile k)) ->
  (forall k, fsbuf s' = Some (FFile k) -> fsbuf s = Some (FFile k)) -> FInv s'.
Proof.
  intros s s' H Hl [Hlen Hla] Hp Hb. constructor.
  - intros k Hk. rewrite Hlen. destruct (Hp k Hk) as [A|A]; [apply (f2 _ H k A) | apply (f4 _ H k A)].
  - intros k Hk. rewrite Hlen. apply (f4 _ H k (Hb k Hk)).
  - intros k f' Hk Hf. destruct (Hla k f' Hk Hf) as (f & A & B). rewrite Hl, Hlen. apply (f3 _ H k f A B).
Qed.

Lemma FInv_init : forall st sa, FInv (init st sa).
Proof. intros. constructor; simpl; intros; try discriminate. destruct k; discriminate. Qed.

Ltac keep_launched := let f0 := fresh in let Hf0 := fresh in intros f0 Hf0; (exact Hf0 || (destruct f0 as [[] ? ?]; simpl in *; congruence)).

Lemma FInv_run : forall c s, FInv s -> FInv (step_run c s).
Proof.
  intros c s H. unfold step_run, recv_fs, sd_advance, terminating, terminated, emit, set_file.
  destruct (pcr s) eqn:Ep; red_proj; case_step.
  all: try exact H.
  all: apply (FInv_from s); [exact H | reflexivity | simpl; try apply files_ok_refl | simpl | simpl].
  all: try (intros; discriminate).
  all: try (intros k0 Hk0; rewrite ?Ep; simpl; auto; fail).
  all: try (intros k0 Hk0; inversion Hk0; subst; rewrite ?Ep; simpl; auto; fail).
  all: try (apply files_ok_upd; keep_launched).
  all: try (intros k0 Hk0; congruence).
  all: apply files_ok_upd; intros f0 Hf0; exact Hf0.
Qed.

Lemma FInv_file : forall k c s, FInv s -> FInv (step_file k c s).
Proof.
  intros k c s H. unfold step_file, set_file, terminating.
  destruct (nth_error (files s) k) as [f|] eqn:Ef; [|exact H].
  destruct (f_pc f) eqn:Epc; try exact H.
  - apply (FInv_from s); simpl; auto. apply files_ok_upd. intros f0 Hf0. discriminate.
  - case_step; try exact H.
    all: apply (FInv_from s); simpl; auto; apply files_ok_upd; intros f0 Hf0; discriminate.
Qed.

Lemma FInv_x : forall s, FInv s -> FInv (step_x s).
Proof.
  intros s H. unfold step_x, sd_advance, terminated.
  destruct (pcx s) eqn:Ex; red_proj; case_step; try exact H.
  all: apply (FInv_from s); simpl; auto; apply files_ok_refl.
Qed.

Lemma FInv_launch : forall c s, FInv s -> FInv (step_launch c s).
Proof.
  intros c s H. unfold step_launch, launcher_returns, set_file, terminating.
  destruct (pcl s) eqn:El.
  - (* LSel *)
    case_step; constructor; simpl; try apply (f2 _ H); try apply (f4 _ H);
      intros k f Hk Hf; destruct (f3 _ H k f Hk Hf) as [A _]; congruence.
  - (* LExists *)
    destruct (store s); constructor; simpl; try apply (f2 _ H); try apply (f4 _ H);
      intros k f Hk Hf; destruct (f3 _ H k f Hk Hf) as [A _]; congruence.
  - (* LSend *)
    assert (Hno : forall k f, nth_error (files s) k = Some f -> launched f = true -> False)
      by (intros k f Hk Hf; destruct (f3 _ H k f Hk Hf) as [A _]; congruence).
    assert (Hret : FInv (set_pcl (set_fsclosed s true) LDone))
      by (constructor; simpl; try apply (f2 _ H); try apply (f4 _ H); intros k f Hk Hf; destruct (Hno k f Hk Hf)).
    assert (Hsend : FInv match store s with
                         | [] => s
                         | blocks :: r =>
                             set_pcl (set_store (set_files (set_fsbuf s (Some (FFile (length (files s)))))
                                                           (files s ++ [mkf FLaunched None blocks])) r) LGo
                         end).
    { destruct (store s) as [|blocks r]; [exact H|]. constructor; simpl.
      - intros k Hk. rewrite app_length. simpl. pose proof (f2 _ H k Hk). lia.
      - intros k Hk. inversion Hk; subst. rewrite app_length. simpl. lia.
      - intros k f Hk Hf. split; [reflexivity|]. rewrite app_length. simpl.
        rewrite nth_app_last in Hk. destruct (Nat.ltb k (length (files s))) eqn:E.
        + destruct (Hno k f Hk Hf).
        + destruct (Nat.eqb k (length (files s))) eqn:E2; [|discriminate]. apply Nat.eqb_eq in E2. lia. }
    destruct (fsbuf s); destruct (match sdst s with Some SCb | Some STerm | Some SDone => true | _ => false end);
      try destruct c; auto.
  - (* LGo *)
    assert (Hfiles : forall k f, nth_error (upd (files s) (length (files s) - 1) spawn_file) k = Some f ->
                                 launched f = true -> False).
    { intros k f Hk Hf. rewrite nth_upd in Hk. destruct (Nat.eqb k (length (files s) - 1)) eqn:E.
      - destruct (nth_error (files s) (length (files s) - 1)) as [f0|]; simpl in Hk; [|discriminate].
        inversion Hk; subst f. unfold spawn_file, launched in Hf. destruct (f_pc f0) eqn:X; simpl in Hf; try rewrite X in Hf; discriminate.
      - destruct (f3 _ H k f Hk Hf) as [_ B]. apply Nat.eqb_neq in E. lia. }
    simpl. destruct (store s); [destruct (stop_after s)|]; constructor; simpl; rewrite ?upd_length;
      try apply (f2 _ H); try apply (f4 _ H); intros k f Hk Hf; destruct (Hfiles k f Hk Hf).
  - (* LStop *)
    destruct (fsbuf s) eqn:Eb; [exact H|]. constructor; simpl; try apply (f2 _ H); try (intros; discriminate).
    intros k f Hk Hf. destruct (f3 _ H k f Hk Hf) as [A _]. congruence.
  - exact H.
Qed.

Lemma FInv_step : forall s t, FInv s -> FInv (step s t).
Proof.
  intros s [c|c|k c|] H; simpl; [apply FInv_run | apply FInv_launch | apply FInv_file | apply FInv_x]; exact H.
Qed.

Lemma FInv_reach : forall st sa sched, FInv (run step sched (init st sa)).
Proof. intros. apply (run_inv step FInv FInv_step). apply FInv_init. Qed.

(* ------------------------------------------------------------ ranking *)
Definition frank (f : fstate) : nat :=
  match f_pc f with
  | FLaunched => 2 * length (f_left f) + 4
  | FOpening => 2 * length (f_left f) + 3
  | FStreaming => 2 * length (f_left f) + 2
  | FClosed => 0
  end.
Definition fsum (l : list fstate) : nat := list_sum (map frank l).
Definition ssum (st : list (list (nat * bool))) : nat := list_sum (map (fun b => 2 * length b + 30) st).
Definition r_run (p : pc) : nat :=
  match p with RInH _ _ _ => 7 | RRange _ => 6 | RChk _ _ _ => 5 | RSel => 2 | RShut => 1 | _ => 0 end.
Definition r_buf (b : option fsitem) : nat := match b with Some _ => 10 | None => 0 end.
Definition r_l (p : lpc) (d : bool) : nat :=
  match p with LSel => if d then 1 else 5 | LExists => 4 | LSend => 3 | LGo => 12 | LStop => 11 | LDone => 0 end.
Definition r_x (p : xstate) : nat := match p with XIdle => 1 | _ => 0 end.
Definition r_sd (g : option sdstage) : nat := match g with None => 4 | Some g => sd_rank g end.
Definition rank (s : state) : nat :=
  r_run (pcr s) + r_buf (fsbuf s) + r_l (pcl s) (delayed s) + ssum (store s) + fsum (files s) + r_x (pcx s) + r_sd (sdst s).

Lemma C12_MuxLive_list_sum_upd : forall (l : list nat) k f x,
  nth_error l k = Some x -> list_sum (upd l k f) + x = list_sum l + f x.
Proof.
  induction l as [|y r IH]; intros [|k] f x H; simpl in *; try discriminate.
  - inversion H; subst. lia.
  - specialize (IH k f x H). lia.
Qed.

Lemma fsum_upd : forall l k g f, nth_error l k = Some f -> fsum (upd l k g) + frank f = fsum l + frank (g f).
Proof.
  intros l k g f H. unfold fsum.
  assert (E : map frank (upd l k g) = upd (map frank l) k (fun _ => frank (g f))).
  { clear -H. revert k H. induction l as [|y r IH]; intros [|k] H; simpl in *; try discriminate.
    - inversion H; subst. reflexivity.
    - f_equal. apply IH. exact H. }
  rewrite E. apply (C12_MuxLive_list_sum_upd (map frank l) k (fun _ => frank (g f)) (frank f)).
  rewrite nth_error_map, H. reflexivity.
Qed.

Lemma fsum_upd_same : forall l k g, (forall f, frank (g f) = frank f) -> fsum (upd l k g) = fsum l.
Proof. intros l k g H. unfold fsum. f_equal. apply map_upd_id. exact H. Qed.

Lemma fsum_upd_le : forall l k g, (forall f, frank (g f) <= frank f) -> fsum (upd l k g) <= fsum l.
Proof.
  intros l k g H. destruct (nth_error l k) as [f|] eqn:E.
  - pose proof (fsum_upd l k g f E). specialize (H f). lia.
  - assert (X : upd l k g = l); [|rewrite X; lia].
    clear -E. revert k E. induction l as [|y r IH]; intros [|k] E; simpl in *; try discriminate; auto.
    f_equal. apply IH. exact E.
Qed.

Lemma fsum_app : forall l x, fsum (l ++ [x]) = fsum l + frank x.
Proof. intros. unfold fsum. rewrite map_app, list_sum_app. simpl. lia. Qed.

Definition Ph (s : state) : Prop := Inv s /\ FInv s /\ terminating s = true.

Lemma term_step : forall s t, terminating s = true -> terminating (step s t) = true.
Proof.
  intros s t H. unfold terminating in H. unfS.
  destruct t; [destruct (pcr s) eqn:Ep | destruct (pcl s) eqn:Ep | | destruct (pcx s) eqn:Ep]; red_proj.
  all: case_step.
  all: try discriminate; try reflexivity.
Qed.

Lemma ph_step : forall s t, Ph s -> Ph (step s t).
Proof.
  intros s t (A & B & C). split; [apply inv_step; exact A | split; [apply FInv_step; exact B | apply term_step; exact C]].
Qed.

Ltac inv_contra Hi :=
  exfalso; unfold Inv, xbusy, rbusy in Hi; destruct Hi as (A1 & A2 & A3 & B); rw_hyps; simpl in *; intuition discriminate.

Lemma rank_step : forall s t, Ph s -> step s t = s \/ rank (step s t) < rank s.
Proof.
  intros s t (Hi & Hf & Ht). unfold terminating in Ht. destruct t as [c|c|k c|]; simpl.
  - (* run() *)
    unfold step_run, recv_fs, sd_advance, terminating, terminated, emit, set_file.
    destruct (pcr s) eqn:Ep; red_proj; case_step.
    all: try (left; reflexivity).
    all: try discriminate.
    all: try (right; unfold rank; simpl; rewrite ?Ep; rw_eqs; simpl;
              rewrite ?fsum_upd_same by (intros []; reflexivity); simpl; lia).
    all: inv_contra Hi.
  - (* launchReader *)
    unfold step_launch, launcher_returns, set_file, terminating.
    destruct (pcl s) eqn:El; red_proj.
    + case_step; rw_hyps; try discriminate; right; unfold rank; simpl; rewrite ?El; rw_eqs; simpl;
        destruct (delayed s); simpl in *; try discriminate; lia.
    + destruct (store s) eqn:Es; right; unfold rank; simpl; rewrite ?El, ?Es; simpl; lia.
    + destruct (store s) as [|blocks r] eqn:Es; case_step; rw_hyps; try discriminate; try (left; reflexivity);
        right; unfold rank; simpl; rewrite ?El, ?Es; rw_eqs; simpl; rewrite ?fsum_app; unfold frank, ssum; simpl; lia.
    + pose proof (fsum_upd_le (files s) (length (files s) - 1) spawn_file) as Hle.
      assert (Hsp : forall f, frank (spawn_file f) <= frank f)
        by (intros [[] sl lf]; unfold spawn_file, frank; simpl; lia).
      specialize (Hle Hsp).
      destruct (store s) eqn:Es; [destruct (stop_after s)|]; right; unfold rank; simpl; rewrite ?El, ?Es; simpl;
        destruct (delayed s); simpl; lia.
    + destruct (fsbuf s) eqn:Eb; [left; reflexivity|]. right. unfold rank; simpl. rewrite ?El, ?Eb. simpl. lia.
    + left. reflexivity.
  - (* file goroutine k *)
    unfold step_file, set_file, terminating.
    destruct (nth_error (files s) k) as [f|] eqn:Ef; [|left; reflexivity].
    destruct (f_pc f) eqn:Epc; try (left; reflexivity).
    + right. pose proof (fsum_upd (files s) k (fun f => mkf FStreaming (f_slot f) (f_left f)) f Ef) as E.
      unfold rank; simpl. unfold frank in E. simpl in E. rewrite Epc in E. lia.
    + case_step; rw_hyps; try discriminate; try (left; reflexivity); right;
        match goal with |- context [upd (files s) k ?g] => pose proof (fsum_upd (files s) k g f Ef) as E end;
        unfold rank; simpl; unfold frank in E; simpl in E; rewrite ?Epc in E; rw_hyps; simpl in E; lia.
  - (* external Shutdown *)
    unfold step_x, sd_advance, terminated.
    destruct (pcx s) eqn:Ex; red_proj; case_step.
    all: try (left; reflexivity).
    all: try discriminate.
    all: try (right; unfold rank; simpl; rewrite ?Ex; rw_eqs; simpl; lia).
    all: inv_contra Hi.
Qed.

Lemma neq_by_pcl : forall s s', pcl s' <> pcl s -> s' <> s.
Proof. intros s s' H E. apply H. rewrite E. reflexivity. Qed.
Lemma neq_by_sdst : forall s s', sdst s' <> sdst s -> s' <> s.
Proof. intros s s' H E. apply H. rewrite E. reflexivity. Qed.

(* fs_run_escape for any state satisfying the invariant *)
Lemma run_escape : forall s c, Inv s -> terminated s = true -> returned s = false ->
  step s (TRun c) <> s \/ (exists k, pcr s = RRange k /\ nth_error (files s) k = None) \/ exists k, waits_for_file s k.
Proof.
  intros s c Hi Ht Hr.
  unfold terminated, returned in *. destruct (sdst s) as [[]|] eqn:Eg; try discriminate.
  unfI. destruct Hi as (A1 & A2 & A3 & B). rewrite Eg in *. simpl in *.
  destruct (pcr s) eqn:Ep; try discriminate.
  - left. apply neq_by_pcr. unfS. rewrite ?Ep, ?Eg. red_proj. case_step; rewrite ?Ep; discriminate.
  - destruct (nth_error (files s) k) as [f|] eqn:Ef; [|right; left; eauto].
    destruct (f_slot f) as [[b ok]|] eqn:Esl.
    + left. apply neq_by_pcr. unfS. rewrite ?Ep, ?Ef, ?Esl. red_proj. rewrite ?Ep. discriminate.
    + destruct (f_pc f) eqn:Efp.
      * right. right. exists k. split; auto. exists f. repeat split; auto. congruence.
      * right. right. exists k. split; auto. exists f. repeat split; auto. congruence.
      * right. right. exists k. split; auto. exists f. repeat split; auto. congruence.
      * left. apply neq_by_pcr. unfS. rewrite ?Ep, ?Ef, ?Esl, ?Efp. red_proj. rewrite ?Ep. discriminate.
  - left. apply neq_by_pcr. unfS. rewrite ?Ep, ?Eg. red_proj. rewrite ?Ep. discriminate.
  - left. apply neq_by_pcr. unfS. rewrite ?Ep. red_proj. rewrite ?Ep. destruct ok; discriminate.
  - left. apply neq_by_pcr. unfS. rewrite ?Ep, ?Eg. red_proj. rewrite ?Ep. discriminate.
  - exfalso. specialize (A2 eq_refl). discriminate.
Qed.

Lemma progress : forall s, Ph s -> done s = false -> exists t, step s t <> s.
Proof.
  intros s (Hi & Hf & Ht) Hd. unfold done in Hd.
  destruct (active (sdst s)) eqn:Ea.
  - pose proof Hi as Hi'. unfI. destruct Hi' as (A1 & A2 & A3 & B). unfold terminating in Ht.
    destruct (A3 Ea) as [Hx|Hx].
    + exists TX. apply neq_by_sdst. unfS. destruct (pcx s); try discriminate. red_proj.
      destruct (sdst s) as [[]|]; try discriminate; case_step; discriminate.
    + exists (TRun true). apply neq_by_sdst. unfS. destruct (pcr s); try discriminate. red_proj.
      destruct (sdst s) as [[]|]; try discriminate; case_step; discriminate.
  - assert (Htd : terminated s = true)
      by (unfold terminating, terminated, active in *; destruct (sdst s) as [[]|]; try discriminate; reflexivity).
    rewrite Htd, andb_true_r in Hd.
    destruct (run_escape s true Hi Htd Hd) as [E|[(k & Ek & En)|(k & Ek & f & Ef & Esl & Epc)]].
    + exists (TRun true). exact E.
    + exfalso. assert (L : k < length (files s)) by (apply (f2 _ Hf); rewrite Ek; reflexivity).
      apply nth_error_None in En. lia.
    + destruct (f_pc f) eqn:Ep; try congruence.
      * (* not spawned yet: launchReader is about to *)
        destruct (f3 _ Hf k f Ef) as [Hl _]; [unfold launched; rewrite Ep; reflexivity|].
        exists (TLaunch true). apply neq_by_pcl. simpl. unfold step_launch. rewrite Hl. simpl.
        destruct (store s); [destruct (stop_after s)|]; simpl; rewrite ?Hl; discriminate.
      * exists (TFile k true). apply neq_by_files. apply (fs_file_escape s k f); auto.
      * exists (TFile k true). apply neq_by_files. apply (fs_file_escape s k f); auto.
Qed.

Lemma terminated_step : forall s t, terminated s = true -> terminated (step s t) = true.
Proof.
  intros s t H. unfold terminated in H. destruct (sdst s) as [[]|] eqn:Eg; try discriminate.
  unfS. destruct t; [destruct (pcr s) eqn:Ep | destruct (pcl s) eqn:Ep | | destruct (pcx s) eqn:Ep]; red_proj.
  all: case_step; try reflexivity; try discriminate.
Qed.

Lemma done_step : forall s t, done s = true -> done (step s t) = true.
Proof.
  intros s t Hd. unfold done in *. apply andb_prop in Hd. destruct Hd as [Hr Ht].
  destruct (returned_step s t Hr) as [A _]. rewrite A, (terminated_step s t Ht). reflexivity.
Qed.

Theorem fs_fair_termination : forall st sa sched0 sched,
  let s := run step sched0 (init st sa) in
  terminating s = true ->
  fair_rounds step (rank s) s sched ->
  done (run step sched s) = true.
Proof.
  intros st sa sched0 sched s Ht Hf.
  apply (fair_termination step Ph rank done ph_step rank_step progress
           (fun s t _ => done_step s t) (rank s) s sched);
    [split; [apply inv_run | split; [apply FInv_reach | exact Ht]] | apply le_n | exact Hf].
Qed.

Theorem fs_progress : forall st sa sched,
  let s := run step sched (init st sa) in
  terminating s = true -> done s = false -> exists t, step s t <> s.
Proof.
  intros st sa sched s Ht Hd. apply progress; [|exact Hd].
  split; [apply inv_run | split; [apply FInv_reach | exact Ht]].
Qed.
