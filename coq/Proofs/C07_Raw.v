(* The undo/new discipline as a property of a RAW event sequence (what the sources hand to the handler chain, before
   the step filter and the stop block): every beginning of the sequence folds through the stack machine `sfold`
   of C07_ComposeStack.v and leaves a stack that is empty or related (`Rel`) to a reference stack.  Generic list
   reasoning on top of C07_ComposeStack.v; used by C07_Filters.v (number mode), C07_FiltersCursor.v. *)
From Coq Require Import Sorted.
From BV Require Import Base.Prelude Model.Block Model.ForkDB Model.Forkable Model.Burst
  Spec.Consumer Check.Burst_Check Check.C07_Check Spec.C06_Spec Spec.C07_Spec
  Proofs.Fk.LoopFacts Proofs.Hub.ConsFacts Proofs.Hub.LinkedRuns Proofs.Hub.C09_History
  Proofs.C07_ComposeStack.
Local Open Scope N_scope.

Lemma vfold_prefix l1 l2 V V' : vfold V (l1 ++ l2) = Some V' -> exists V1, vfold V l1 = Some V1 /\ vfold V1 l2 = Some V'.
Proof. rewrite vfold_app. destruct (vfold V l1) as [V1|]; [eauto | discriminate]. Qed.

Lemma sfold_quiet : forall l st, Forall (fun e => nu_ev e = false) l -> sfold st l = Some st.
Proof.
  induction l as [|e l IH]; intros st H; [reflexivity|].
  cbn [sfold]. rewrite (sapply_quiet st e (Forall_inv H)). apply IH. exact (Forall_inv_tail H).
Qed.

Section Raw.
  Variable U : list block.
  Hypothesis U_id : forall b, In b U -> bid b <> 0 /\ bid b <> bparent b.
  Hypothesis U_uniq : forall x y, In x U -> In y U -> bid x = bid y -> x = y.
  Hypothesis U_up : forall x y, In x U -> In y U -> bparent x = bid y -> bnum y < bnum x.
  Variable start : N.

  (* a consumer that stands on a block at or below `start` *)
  Definition Stand (J : list block) : Prop :=
    J <> [] /\ chainU U J /\ exists J1 z, J = J1 ++ [z] /\ bnum z <= start.

  Definition Good (J : list block) : Prop := J = [] \/ exists V, Rel U start V J.

  Lemma stand_rel J : Stand J -> Rel U start J J.
  Proof.
    intros (Hne & Hc & J1 & z & HJ & Hz). split; [exact Hne|]. split; [exact Hc|]. left.
    split; [exact Hne|]. split; [reflexivity|]. split; [exact Hc|]. exists J1, z. auto.
  Qed.

  Lemma stand_good J : J = [] \/ Stand J -> Good J.
  Proof. intros [H|H]; [left; exact H | right; exists J; apply stand_rel; exact H]. Qed.

  (* every beginning of X folds from J0 and leaves a good stack *)
  Definition disc (J0 : list block) (X : list event) : Prop :=
    forall X1 X2, X = X1 ++ X2 -> exists J, sfold J0 X1 = Some J /\ Good J.

  Lemma disc_nil J0 : Good J0 -> disc J0 [].
  Proof.
    intros H X1 X2 E. symmetry in E. apply app_eq_nil in E as [-> _]. exists J0. split; [reflexivity | exact H].
  Qed.

  Lemma disc_whole J0 X : disc J0 X -> exists J, sfold J0 X = Some J /\ Good J.
  Proof. intros H. apply (H X []). rewrite app_nil_r. reflexivity. Qed.

  Lemma disc_prefix J0 A B : disc J0 (A ++ B) -> disc J0 A.
  Proof. intros H X1 X2 E. apply (H X1 (X2 ++ B)). rewrite E, app_assoc. reflexivity. Qed.

  Lemma disc_app J0 J1 A B : disc J0 A -> sfold J0 A = Some J1 -> disc J1 B -> disc J0 (A ++ B).
  Proof.
    intros HA Hf HB X1 X2 E. symmetry in E. apply app_eq_app in E as [l [[E1 E2]|[E1 E2]]].
    - (* X1 = A ++ l, B = l ++ X2 *)
      destruct (HB l X2 E2) as (J & HJ & HG). exists J. split; [|exact HG].
      rewrite E1, sfold_app, Hf. exact HJ.
    - apply (HA X1 l). exact E1.
  Qed.

  Lemma disc_quiet J0 Q : Good J0 -> Forall (fun e => nu_ev e = false) Q -> disc J0 Q.
  Proof.
    intros HG HQ X1 X2 E. exists J0. split; [|exact HG]. apply sfold_quiet.
    rewrite E in HQ. apply Forall_app in HQ as [H _]. exact H.
  Qed.

  (* ---------------------------------------------------------------- pushes *)

  Lemma push_step J0 e : J0 = [] \/ Stand J0 -> matches_new (estep e) = true -> In (eblk e) U ->
    match J0 with top :: _ => bparent (eblk e) = bid top | [] => bnum (eblk e) <= start end ->
    sapply J0 e = Some (eblk e :: J0) /\ Stand (eblk e :: J0).
  Proof.
    intros HJ Hm HeU Hl. unfold sapply. destruct J0 as [|top J00].
    - split; [destruct (estep e); try discriminate; reflexivity|].
      split; [discriminate|]. split; [apply chainU_one; exact HeU|]. exists [], (eblk e). split; [reflexivity | exact Hl].
    - destruct HJ as [HJ|(Hne & Hc & J1 & z & HJ1 & Hz)]; [discriminate|].
      rewrite Hl, N.eqb_refl. split; [destruct (estep e); try discriminate; reflexivity|].
      split; [discriminate|]. split; [apply chainU_push; assumption|].
      exists (eblk e :: J1), z. split; [rewrite HJ1; reflexivity | exact Hz].
  Qed.

  Lemma pushes_disc : forall evs J0, J0 = [] \/ Stand J0 ->
    Forall (fun e => matches_new (estep e) = true) evs -> Forall (fun y => In y U) (map eblk evs) ->
    match J0 with
    | top :: _ => lnk (bid top) (map eblk evs)
    | [] => (exists x, lnk x (map eblk evs)) /\ (forall z r, map eblk evs = z :: r -> bnum z <= start)
    end ->
    sfold J0 evs = Some (rev (map eblk evs) ++ J0) /\ disc J0 evs /\
    (rev (map eblk evs) ++ J0 = [] \/ Stand (rev (map eblk evs) ++ J0)).
  Proof.
    induction evs as [|e evs IH]; intros J0 HJ Hn HU Hl.
    - cbn [map rev app sfold]. split; [reflexivity|]. split; [apply disc_nil; apply stand_good; exact HJ | exact HJ].
    - cbn [map] in HU, Hl.
      assert (Hl1 : match J0 with top :: _ => bparent (eblk e) = bid top | [] => bnum (eblk e) <= start end).
      { destruct J0 as [|top J00]; [destruct Hl as [_ Hl]; apply (Hl _ _ eq_refl) | cbn [lnk] in Hl; tauto]. }
      assert (Hl2 : lnk (bid (eblk e)) (map eblk evs)).
      { destruct J0 as [|top J00]; [destruct Hl as [[x Hl] _] | ]; cbn [lnk] in Hl; tauto. }
      destruct (push_step J0 e HJ (Forall_inv Hn) (Forall_inv HU) Hl1) as [Hs HSt].
      destruct (IH (eblk e :: J0) (or_intror HSt) (Forall_inv_tail Hn) (Forall_inv_tail HU) Hl2) as (Hf & Hd & Hend).
      assert (Eend : rev (map eblk (e :: evs)) ++ J0 = rev (map eblk evs) ++ eblk e :: J0).
      { cbn [map rev]. rewrite <- app_assoc. reflexivity. }
      rewrite Eend. split; [cbn [sfold]; rewrite Hs; exact Hf|]. split; [|exact Hend].
      intros X1 X2 E. destruct X1 as [|x X1].
      + exists J0. split; [reflexivity | apply stand_good; exact HJ].
      + cbn [app] in E. injection E as <- E. destruct (Hd X1 X2 E) as (J & HJf & HG).
        exists J. split; [cbn [sfold]; rewrite Hs; exact HJf | exact HG].
  Qed.

  (* ---------------------------------------------------------------- the live events *)

  Lemma live_disc : forall l V J V', Rel U start V J -> vfold V l = Some V' ->
    Forall (fun e => matches_new (estep e) = true -> In (eblk e) U) l ->
    disc J l /\ exists J', sfold J l = Some J' /\ Rel U start V' J'.
  Proof.
    induction l as [|e l IH]; intros V J V' HR Hv HU.
    - injection Hv as <-. split; [apply disc_nil; right; exists V; exact HR|]. exists J. split; [reflexivity | exact HR].
    - cbn [vfold] in Hv. destruct (vapply V e) as [V1|] eqn:E1; [|discriminate].
      destruct (rel_step U U_id U_uniq U_up start V J e V1 HR E1 (Forall_inv HU)) as (J1 & HJ1 & HR1).
      destruct (IH V1 J1 V' HR1 Hv (Forall_inv_tail HU)) as (Hd & J' & HJ' & HR').
      split.
      + intros X1 X2 E. destruct X1 as [|x X1].
        * exists J. split; [reflexivity | right; exists V; exact HR].
        * cbn [app] in E. injection E as <- E. destruct (Hd X1 X2 E) as (J2 & HJ2 & HG).
          exists J2. split; [cbn [sfold]; rewrite HJ1; exact HJ2 | exact HG].
      + exists J'. split; [cbn [sfold]; rewrite HJ1; exact HJ' | exact HR'].
  Qed.

  (* ---------------------------------------------------------------- a consumer whose top block is canonical *)

  Lemma rel_hd V J t J0 : Rel U start V J -> J = t :: J0 -> hd_error V = Some t.
  Proof.
    intros (_ & _ & [(_ & Hhd & _)|(B & HV & _)]) ->; [symmetry; exact Hhd | rewrite HV; reflexivity].
  Qed.

  (* canon = cpre ++ t :: cpost, the consumer's top block is t: from `start` on it holds canon up to t *)
  Lemma rel_top_canon V J t J0 canon cpre cpost :
    Rel U start V J -> J = t :: J0 ->
    canon = cpre ++ t :: cpost -> Forall (fun x => In x U) canon -> (exists x, lnk x canon) ->
    (exists b, In b canon /\ bnum b <= start) ->
    from_num start (rev J) = from_num start (cpre ++ [t]).
  Proof.
    intros HR HJ Hcan HcU [xc Hlc] (b0 & Hb0 & Hnb0).
    pose proof (rel_hd V J t J0 HR HJ) as Hhd.
    assert (Hc' : canon = (cpre ++ [t]) ++ cpost) by (rewrite Hcan, <- app_assoc; reflexivity).
    assert (HcU' : Forall (fun x => In x U) (cpre ++ [t])) by (rewrite Hc' in HcU; apply Forall_app in HcU as [H _]; exact H).
    assert (Hl' : lnk xc (cpre ++ [t])) by (rewrite Hc' in Hlc; eapply linked_prefix; exact Hlc).
    rewrite Hcan in Hb0. apply in_app_or in Hb0 as [Hb0|[Hb0|Hb0]].
    - apply (rel_final U U_id U_uniq U_up start V J (cpre ++ [t]) cpre t HR Hhd eq_refl HcU' (ex_intro _ xc Hl')).
      exists b0. split; [apply in_or_app; left; exact Hb0 | exact Hnb0].
    - apply (rel_final U U_id U_uniq U_up start V J (cpre ++ [t]) cpre t HR Hhd eq_refl HcU' (ex_intro _ xc Hl')).
      exists b0. split; [apply in_or_app; right; left; exact Hb0 | exact Hnb0].
    - (* the block at or below start lies after t: everything held is below start *)
      assert (HS : StronglySorted blt canon) by (apply (linked_sorted U U_id U_uniq U_up _ xc Hlc HcU)).
      rewrite Hc' in HS.
      assert (Hlow : forall y, In y (cpre ++ [t]) -> bnum y < start).
      { intros y Hy. apply in_split in Hb0 as (c1 & c2 & Ec). rewrite Ec in HS.
        rewrite app_assoc in HS.
        destruct (Proofs.C09_Proofs.StronglySorted_split blt ((cpre ++ [t]) ++ c1) b0 c2 HS) as [HA _].
        specialize (HA y (in_or_app _ _ _ (or_introl Hy))). unfold blt in HA. lia. }
      rewrite (from_num_none start (cpre ++ [t])); [|apply Forall_forall; exact Hlow].
      apply from_num_none. apply Forall_forall. intros y Hy. apply in_rev in Hy.
      assert (Ht : bnum t < start) by (apply Hlow; apply in_or_app; right; left; reflexivity).
      destruct HR as (_ & HcV & [(_ & _ & HcJ & _)|(B & HV & _)]).
      + rewrite HJ in HcJ, Hy. destruct Hy as [<-|Hy]; [exact Ht|].
        pose proof (chainU_below U U_id U_uniq U_up t J0 HcJ) as Hb. rewrite Forall_forall in Hb. specialize (Hb y Hy). lia.
      + rewrite HJ in HV, Hy. destruct Hy as [<-|Hy]; [exact Ht|]. cbn [app] in HV. rewrite HV in HcV.
        pose proof (chainU_below U U_id U_uniq U_up t (J0 ++ B) HcV) as Hb. rewrite Forall_forall in Hb.
        specialize (Hb y (in_or_app _ _ _ (or_introl Hy))). lia.
  Qed.
End Raw.
