(* Facts about the dbin framing model (Model/Dbin.v), generic in the decoder closure. *)
From BV Require Import Base.Prelude Base.Decimal Model.CursorCodec Model.Dbin Spec.C16_Spec Proofs.PreludeFacts.
Local Open Scope N_scope.

(* ------------------------------------------------------------------ lengths, big endian *)

Lemma lenN_app {A} (a b : list A) : lenN (a ++ b) = lenN a + lenN b.
Proof. unfold lenN. rewrite app_length. lia. Qed.

Lemma lenN_nil_iff {A} (a : list A) : lenN a = 0 <-> a = [].
Proof. unfold lenN. destruct a; simpl; split; intros H; try reflexivity; try discriminate; lia. Qed.

Lemma be32_val n : n < two32 -> be_val (be32_bytes n) = n.
Proof. unfold two32, be_val, be32_bytes. cbn [fold_left]. intros H. lia. Qed.

Lemma be16_val n : n <= 65535 -> be_val (be16_bytes n) = n.
Proof. unfold be_val, be16_bytes. cbn [fold_left]. intros H. lia. Qed.

Lemma be32_length n : length (be32_bytes n) = 4%nat.
Proof. reflexivity. Qed.

Lemma frame_length m : length (frame m) = (4 + length m)%nat.
Proof. unfold frame. rewrite app_length. reflexivity. Qed.

(* ------------------------------------------------------------------ readBytes *)

Lemma take_spec : forall s n,
  take n s = if n <=? lenN s then Some (firstn (N.to_nat n) s, skipn (N.to_nat n) s) else None.
Proof.
  induction s as [|c r IH]; intros n.
  - cbn [take]. destruct (N.eqb_spec n 0) as [->|Hn]; [reflexivity|].
    destruct (N.leb_spec n (lenN (@nil N))) as [H|H]; [unfold lenN in H; simpl in H; lia|reflexivity].
  - cbn [take]. destruct (N.eqb_spec n 0) as [->|Hn]; [reflexivity|].
    rewrite IH.
    assert (Hl : lenN (c :: r) = lenN r + 1) by (unfold lenN; simpl length; lia).
    destruct (N.leb_spec (n - 1) (lenN r)) as [H|H];
      destruct (N.leb_spec n (lenN (c :: r))) as [H'|H']; try lia; [|reflexivity].
    replace (N.to_nat n) with (S (N.to_nat (n - 1))) by lia. reflexivity.
Qed.

(* the characterisation used everywhere below *)
Lemma read_bytes_spec n s :
  read_bytes n s =
    if n <=? lenN s then (mkPbuf (firstn (N.to_nat n) s) 0, skipn (N.to_nat n) s, ENone)
    else match s with
         | [] => (mkPbuf [] n, [], EEOF)
         | _ :: _ => (mkPbuf s (n - lenN s), [], EUnexp)
         end.
Proof. unfold read_bytes. rewrite take_spec. destruct (n <=? lenN s); reflexivity. Qed.

Lemma read_bytes_exact a r : read_bytes (lenN a) (a ++ r) = (mkPbuf a 0, r, ENone).
Proof.
  rewrite read_bytes_spec. rewrite lenN_app.
  destruct (N.leb_spec (lenN a) (lenN a + lenN r)) as [_|H]; [|lia].
  unfold lenN. rewrite Nat2N.id.
  rewrite firstn_app, Nat.sub_diag, firstn_all, firstn_O, app_nil_r.
  rewrite skipn_app, Nat.sub_diag, skipn_all. reflexivity.
Qed.

Lemma read_bytes_exact' n a r : n = lenN a -> read_bytes n (a ++ r) = (mkPbuf a 0, r, ENone).
Proof. intros ->. apply read_bytes_exact. Qed.

Lemma read_bytes_short n s : lenN s < n ->
  read_bytes n s = match s with
                   | [] => (mkPbuf [] n, [], EEOF)
                   | _ :: _ => (mkPbuf s (n - lenN s), [], EUnexp)
                   end.
Proof.
  intros H. rewrite read_bytes_spec. destruct (N.leb_spec n (lenN s)); [lia|reflexivity].
Qed.

(* a successful read returns exactly the requested bytes and the rest of the stream *)
Lemma read_bytes_ok n s b s' : read_bytes n s = (b, s', ENone) ->
  s = pb_data b ++ s' /\ pb_pad b = 0 /\ lenN (pb_data b) = n.
Proof.
  rewrite read_bytes_spec. destruct (N.leb_spec n (lenN s)) as [H|H].
  - intros [= <- <-]. cbn [pb_data pb_pad]. rewrite firstn_skipn. repeat split.
    unfold lenN in *. rewrite firstn_length. lia.
  - destruct s; discriminate.
Qed.

(* ------------------------------------------------------------------ ReadMessage on a whole frame *)

Notation msg_ok := msg_wf.

Lemma dbin_read_frame m r : msg_ok m ->
  dbin_read_message (frame m ++ r) = (mkPbuf m 0, r, ENone).
Proof.
  intros [Hne Hlt]. unfold dbin_read_message, frame. rewrite <- app_assoc.
  rewrite (read_bytes_exact' 4 (be32_bytes (lenN m)) (m ++ r)) by reflexivity.
  unfold pb_bytes. cbn [pb_data pb_pad N.to_nat repeat]. rewrite app_nil_r.
  rewrite be32_val by exact Hlt.
  destruct (N.eqb_spec (lenN m) 0) as [E|E].
  - apply lenN_nil_iff in E. contradiction.
  - apply read_bytes_exact.
Qed.

Lemma bs_read_frame {T} (dec : str -> option T) m r : msg_ok m ->
  bs_read_message dec (frame m ++ r) =
    (match dec m with Some x => RItem x | None => RErr end, r).
Proof.
  intros H. unfold bs_read_message. rewrite dbin_read_frame by exact H.
  unfold pb_len. cbn [pb_data pb_pad]. destruct H as [Hne _].
  destruct (N.ltb_spec 0 (lenN m + 0)) as [_|H0]; [reflexivity|].
  exfalso. apply Hne. apply lenN_nil_iff. lia.
Qed.

(* ------------------------------------------------------------------ ReadMessage on a cut frame *)

(* fewer than 4 bytes left, but at least one: always an error (whatever the zero-padded
   length prefix decodes to) *)
Lemma bs_read_short_prefix {T} (dec : str -> option T) s :
  s <> [] -> lenN s < 4 -> fst (bs_read_message dec s) = RErr.
Proof.
  intros Hne Hlt. unfold bs_read_message, dbin_read_message.
  rewrite (read_bytes_short 4 s Hlt). destruct s as [|c s]; [congruence|].
  set (L := be_val (pb_bytes {| pb_data := c :: s; pb_pad := 4 - lenN (c :: s) |})).
  destruct (N.eqb_spec L 0) as [E|E].
  - reflexivity.
  - assert (HL : lenN (@nil N) < L) by (unfold lenN; simpl; lia).
    rewrite (read_bytes_short L [] HL).
    unfold pb_len. cbn [pb_data pb_pad lenN length N.of_nat].
    destruct (N.eqb_spec (0 + L) 0); [lia|reflexivity].
Qed.

(* the length prefix is complete, the body is cut *)
Lemma bs_read_cut_body {T} (dec : str -> option T) m k : msg_ok m -> (k < length m)%nat ->
  fst (bs_read_message dec (be32_bytes (lenN m) ++ firstn k m)) = RErr.
Proof.
  intros [Hne Hlt] Hk. unfold bs_read_message, dbin_read_message.
  rewrite (read_bytes_exact' 4 (be32_bytes (lenN m)) (firstn k m)) by reflexivity.
  unfold pb_bytes. cbn [pb_data pb_pad N.to_nat repeat]. rewrite app_nil_r.
  rewrite be32_val by exact Hlt.
  destruct (N.eqb_spec (lenN m) 0) as [E|E]; [apply lenN_nil_iff in E; contradiction|].
  assert (Hs : lenN (firstn k m) < lenN m).
  { unfold lenN. rewrite firstn_length. lia. }
  rewrite (read_bytes_short _ _ Hs).
  destruct (firstn k m) eqn:Ef.
  - unfold pb_len. cbn [pb_data pb_pad lenN length N.of_nat].
    destruct (N.eqb_spec (0 + lenN m) 0); [lia|reflexivity].
  - reflexivity.
Qed.

Lemma firstn_app_le {A} n (a b : list A) : (n <= length a)%nat -> firstn n (a ++ b) = firstn n a.
Proof.
  intros H. rewrite firstn_app. replace (n - length a)%nat with 0%nat by lia.
  rewrite firstn_O, app_nil_r. reflexivity.
Qed.

Lemma firstn_app_ge {A} n (a b : list A) : (length a <= n)%nat ->
  firstn n (a ++ b) = a ++ firstn (n - length a) b.
Proof. intros H. rewrite firstn_app, firstn_all2 by exact H. reflexivity. Qed.

(* any strict prefix of a frame: clean EOF when nothing is left, error otherwise *)
Lemma bs_read_cut_frame {T} (dec : str -> option T) m n : msg_ok m -> (n < length (frame m))%nat ->
  fst (bs_read_message dec (firstn n (frame m))) = match n with O => REOF | S _ => RErr end.
Proof.
  intros Hm Hn. rewrite frame_length in Hn. unfold frame.
  destruct (Nat.le_gt_cases 4 n) as [H4|H4].
  - rewrite firstn_app_ge by (rewrite be32_length; exact H4). rewrite be32_length.
    rewrite bs_read_cut_body by (try exact Hm; lia). destruct n; [lia|reflexivity].
  - rewrite firstn_app_le by (rewrite be32_length; lia).
    destruct n as [|n]; [reflexivity|].
    apply bs_read_short_prefix.
    + cbn. discriminate.
    + unfold lenN. rewrite firstn_length, be32_length. lia.
Qed.

(* ------------------------------------------------------------------ the read loop *)

Lemma read_bytes_shrinks n s b s' e : read_bytes n s = (b, s', e) -> (length s' <= length s)%nat.
Proof.
  rewrite read_bytes_spec. destruct (n <=? lenN s).
  - intros [= _ <- _]. rewrite skipn_length. lia.
  - destruct s; intros [= _ <- _]; simpl; lia.
Qed.

Lemma bs_read_item_shrinks {T} (dec : str -> option T) s x s' :
  bs_read_message dec s = (RItem x, s') -> (length s' < length s)%nat.
Proof.
  unfold bs_read_message, dbin_read_message.
  destruct (read_bytes 4 s) as [[lb s1] e1] eqn:E1.
  assert (Hitem : forall (m : pbuf) (s0 : str) (e : rerr),
             (length s0 < length s)%nat \/ e <> ENone ->
             (match e with
              | ENone => if 0 <? pb_len m
                         then (match dec (pb_data m) with Some x => RItem x | None => RErr end, s0)
                         else (RErr, s0)
              | EEOF => if pb_len m =? 0 then (REOF, s0) else (RErr, s0)
              | EUnexp => (RErr, s0)
              end) = (RItem x, s') -> (length s' < length s)%nat).
  { intros m s0 e Hor. destruct e.
    - destruct (0 <? pb_len m); [|discriminate].
      destruct (dec (pb_data m)); [|discriminate]. intros [= _ <-]. destruct Hor; [assumption|congruence].
    - destruct (pb_len m =? 0); discriminate.
    - discriminate. }
  destruct e1.
  - (* the 4 length bytes were read: the stream got strictly shorter *)
    apply read_bytes_ok in E1 as (Hs & _ & Hl).
    assert (Hlt : (length s1 < length s)%nat).
    { rewrite Hs, app_length. unfold lenN in Hl. lia. }
    destruct (be_val (pb_bytes lb) =? 0).
    + intros H. apply (Hitem (mkPbuf [] 0) s1 ENone); [left; exact Hlt | exact H].
    + destruct (read_bytes (be_val (pb_bytes lb)) s1) as [[m s2] e2] eqn:E2.
      intros H. apply (Hitem m s2 e2); [left; apply read_bytes_shrinks in E2; lia | exact H].
  - intros H. apply (Hitem (mkPbuf [] 0) s1 EEOF); [right; discriminate | exact H].
  - destruct (be_val (pb_bytes lb) =? 0).
    + intros H. apply (Hitem (mkPbuf [] 0) s1 EUnexp); [right; discriminate | exact H].
    + (* short read of the prefix: the stream is exhausted, the body read cannot succeed *)
      assert (Hs1 : s1 = [] /\ s <> []).
      { rewrite read_bytes_spec in E1. destruct (4 <=? lenN s); [discriminate|].
        destruct s; [discriminate|]. split; congruence. }
      destruct Hs1 as [-> Hsne].
      destruct (read_bytes (be_val (pb_bytes lb)) []) as [[m s2] e2] eqn:E2.
      intros H. apply (Hitem m s2 e2); [|exact H].
      destruct e2; try (right; discriminate).
      left. apply read_bytes_shrinks in E2. destruct s; [congruence|]. simpl in *. lia.
Qed.

Definition read_all {T} (dec : str -> option T) (s : str) : list T * outcome :=
  read_loop dec (S (length s)) s.

Lemma read_loop_fuel {T} (dec : str -> option T) : forall f1 f2 s,
  (length s < f1)%nat -> (length s < f2)%nat -> read_loop dec f1 s = read_loop dec f2 s.
Proof.
  unfold read_loop.
  induction f1 as [|f1 IH]; intros f2 s H1 H2; [lia|].
  destruct f2 as [|f2]; [lia|]. cbn [read_loop_with].
  destruct (bs_read_message dec s) as [[x| |] s'] eqn:E; try reflexivity.
  apply bs_read_item_shrinks in E. rewrite (IH f2 s') by lia. reflexivity.
Qed.

Lemma read_all_unfold {T} (dec : str -> option T) s :
  read_all dec s =
    match bs_read_message dec s with
    | (RItem x, s') => let '(l, o) := read_all dec s' in (x :: l, o)
    | (REOF, _) => ([], OEOF)
    | (RErr, _) => ([], OErr)
    end.
Proof.
  unfold read_all at 1. unfold read_loop. cbn [read_loop_with].
  destruct (bs_read_message dec s) as [[x| |] s'] eqn:E; try reflexivity.
  apply bs_read_item_shrinks in E.
  fold (read_loop dec (length s) s'). rewrite (read_loop_fuel dec (length s) (S (length s')) s') by lia.
  reflexivity.
Qed.

(* the fuel is never exhausted *)
Lemma read_all_no_fuel {T} (dec : str -> option T) : forall n s, (length s < n)%nat ->
  snd (read_all dec s) <> OFuel.
Proof.
  induction n as [|n IH]; intros s Hn; [lia|].
  rewrite read_all_unfold.
  destruct (bs_read_message dec s) as [[x| |] s'] eqn:E; try (cbn; discriminate).
  apply bs_read_item_shrinks in E.
  specialize (IH s' ltac:(lia)). destruct (read_all dec s') as [l o]. exact IH.
Qed.

(* deliver the decodable messages of ms, then continue with k *)
Fixpoint seq_run {T} (dec : str -> option T) (ms : list str) (k : list T * outcome) : list T * outcome :=
  match ms with
  | [] => k
  | m :: r =>
      match dec m with
      | Some x => let '(l, o) := seq_run dec r k in (x :: l, o)
      | None => ([], OErr)
      end
  end.

Lemma seq_run_decode_run {T} (dec : str -> option T) ms : seq_run dec ms ([], OEOF) = decode_run dec ms.
Proof.
  induction ms as [|m r IH]; [reflexivity|]. cbn [seq_run decode_run].
  destruct (dec m); [|reflexivity]. rewrite IH. reflexivity.
Qed.

Lemma frames_cons m r : frames (m :: r) = frame m ++ frames r.
Proof. reflexivity. Qed.

Lemma frames_app a b : frames (a ++ b) = frames a ++ frames b.
Proof. unfold frames. rewrite map_app, concat_app. reflexivity. Qed.

(* reading a stream that starts with whole frames *)
Lemma read_all_frames {T} (dec : str -> option T) : forall ms tail, Forall msg_ok ms ->
  read_all dec (frames ms ++ tail) = seq_run dec ms (read_all dec tail).
Proof.
  induction ms as [|m r IH]; intros tail Hok; [reflexivity|].
  inversion Hok as [|? ? Hm Hr]; subst.
  rewrite frames_cons, <- app_assoc, read_all_unfold, bs_read_frame by exact Hm.
  cbn [seq_run]. destruct (dec m); [|reflexivity].
  rewrite IH by exact Hr. reflexivity.
Qed.

Lemma read_all_nil {T} (dec : str -> option T) : read_all dec [] = ([], OEOF).
Proof. reflexivity. Qed.

(* reading any prefix of a sequence of frames: some k whole frames are delivered, then a clean
   EOF exactly when the cut is on a frame boundary, an error otherwise *)
Lemma read_all_cut_frames {T} (dec : str -> option T) : forall ms n, Forall msg_ok ms ->
  exists k o, (k <= length ms)%nat /\
    read_all dec (firstn n (frames ms)) = seq_run dec (firstn k ms) ([], o) /\
    ((o = OEOF /\ firstn n (frames ms) = frames (firstn k ms)) \/
     (o = OErr /\ (n < length (frames ms))%nat /\ firstn n (frames ms) <> frames (firstn k ms))).
Proof.
  induction ms as [|m r IH]; intros n Hok.
  - exists 0%nat, OEOF. rewrite firstn_nil. cbn. repeat split; auto.
  - inversion Hok as [|? ? Hm Hr]; subst. rewrite frames_cons.
    destruct (Nat.le_gt_cases (length (frame m)) n) as [Hge|Hlt].
    + rewrite firstn_app_ge by exact Hge.
      destruct (IH (n - length (frame m))%nat Hr) as (k & o & Hk & Hrd & Hcase).
      exists (S k), o. split; [simpl; lia|]. split.
      * rewrite read_all_unfold, bs_read_frame by exact Hm.
        cbn [firstn seq_run]. destruct (dec m); [|reflexivity]. rewrite Hrd. reflexivity.
      * cbn [firstn]. rewrite frames_cons. destruct Hcase as [[Ho He]|(Ho & Hn & Hne)].
        -- left. split; [exact Ho|]. rewrite He. reflexivity.
        -- right. split; [exact Ho|]. split; [rewrite app_length; lia|].
           intros X. apply app_inv_head in X. contradiction.
    + rewrite firstn_app_le by lia.
      pose proof (bs_read_cut_frame dec m n Hm Hlt) as Hc.
      destruct n as [|n].
      * exists 0%nat, OEOF. cbn. repeat split; auto; lia.
      * exists 0%nat, OErr. split; [lia|]. split.
        -- rewrite read_all_unfold. destruct (bs_read_message dec (firstn (S n) (frame m))) as [rr s'].
           cbn in Hc. subst rr. reflexivity.
        -- right. split; [reflexivity|]. split; [rewrite app_length; lia|].
           cbn [firstn frames map concat]. unfold frame. cbn. discriminate.
Qed.

(* ------------------------------------------------------------------ prefixes of delivered lists *)

Lemma prefix_of_refl {A} (a : list A) : prefix_of a a.
Proof. exists []. rewrite app_nil_r. reflexivity. Qed.

Lemma prefix_of_nil {A} (a : list A) : prefix_of [] a.
Proof. exists a. reflexivity. Qed.

Lemma prefix_of_cons {A} (x : A) a b : prefix_of a b -> prefix_of (x :: a) (x :: b).
Proof. intros [r ->]. exists r. reflexivity. Qed.

(* whatever happens after the first k messages, what was delivered is a prefix of a clean read *)
Lemma seq_run_firstn_prefix {T} (dec : str -> option T) : forall ms k o,
  prefix_of (fst (seq_run dec (firstn k ms) ([], o))) (fst (decode_run dec ms)).
Proof.
  induction ms as [|m r IH]; intros k o.
  - rewrite firstn_nil. apply prefix_of_nil.
  - destruct k as [|k]; [apply prefix_of_nil|].
    cbn [firstn seq_run decode_run]. destruct (dec m); [|apply prefix_of_nil].
    specialize (IH k o).
    destruct (seq_run dec (firstn k r) ([], o)) as [l1 o1], (decode_run dec r) as [l2 o2].
    cbn in *. apply prefix_of_cons. exact IH.
Qed.

(* the first k delivered items do not depend on what follows the first k frames *)
Lemma seq_run_firstn_indep {T} (dec : str -> option T) : forall ms X Y,
  firstn (length ms) (fst (seq_run dec ms X)) = firstn (length ms) (fst (seq_run dec ms Y)).
Proof.
  induction ms as [|m r IH]; intros X Y; [reflexivity|].
  cbn [seq_run length]. destruct (dec m); [|reflexivity].
  specialize (IH X Y).
  destruct (seq_run dec r X) as [l1 o1], (seq_run dec r Y) as [l2 o2].
  cbn in *. f_equal. exact IH.
Qed.

(* when every one of the messages decodes, they are all delivered, in order *)
Lemma seq_run_all {T} (dec : str -> option T) : forall ms xs k,
  Forall2 (fun m x => dec m = Some x) ms xs ->
  seq_run dec ms k = (xs ++ fst k, snd k).
Proof.
  induction ms as [|m r IH]; intros xs k H; inversion H; subst.
  - destruct k; reflexivity.
  - cbn [seq_run]. rewrite H2. rewrite (IH _ k H4). reflexivity.
Qed.

(* ------------------------------------------------------------------ headers *)

Definition ct_ok (ct : str) : Prop := lenN ct <= 65535.

Lemma read_header_v1 ct rest : ct_ok ct ->
  read_header (magic ++ 1 :: be16_bytes (lenN ct) ++ ct ++ rest) = Some (mkHdr 1 ct, rest).
Proof.
  intros Hct. unfold read_header.
  change (magic ++ 1 :: be16_bytes (lenN ct) ++ ct ++ rest)
    with ((magic ++ [1]) ++ (be16_bytes (lenN ct) ++ ct ++ rest)).
  rewrite (read_bytes_exact' 5 (magic ++ [1])) by reflexivity.
  cbn [pb_data magic app eqb_list N.eqb Pos.eqb andb].
  rewrite (read_bytes_exact' 2 (be16_bytes (lenN ct)) (ct ++ rest)) by reflexivity.
  cbn [pb_data]. rewrite be16_val by exact Hct.
  rewrite read_bytes_exact. reflexivity.
Qed.

Lemma read_file_written {T} (dec : str -> option T) ct ms : ct_ok ct -> Forall msg_ok ms ->
  read_file dec (file_bytes ct ms) = (Some (mkHdr 1 ct), fst (decode_run dec ms), snd (decode_run dec ms)).
Proof.
  intros Hct Hms. unfold read_file, read_file_with, file_bytes.
  rewrite read_header_v1 by exact Hct.
  fold (read_loop dec (S (length (frames ms))) (frames ms)). fold (read_all dec (frames ms)).
  rewrite <- (app_nil_r (frames ms)), read_all_frames by exact Hms.
  rewrite read_all_nil, seq_run_decode_run. destruct (decode_run dec ms); reflexivity.
Qed.

(* a file whose header is intact, followed by anything *)
Lemma read_file_header_then {T} (dec : str -> option T) ct rest : ct_ok ct ->
  read_file dec (magic ++ 1 :: be16_bytes (lenN ct) ++ ct ++ rest) =
    (Some (mkHdr 1 ct), fst (read_all dec rest), snd (read_all dec rest)).
Proof.
  intros Hct. unfold read_file, read_file_with. rewrite read_header_v1 by exact Hct.
  fold (read_loop dec (S (length rest)) rest). fold (read_all dec rest).
  destruct (read_all dec rest); reflexivity.
Qed.

Definition header_bytes (ct : str) : str := magic ++ 1 :: be16_bytes (lenN ct) ++ ct.

Lemma file_bytes_split ct ms : file_bytes ct ms = header_bytes ct ++ frames ms.
Proof. unfold file_bytes, header_bytes. cbn. try rewrite <- app_assoc. reflexivity. Qed.

Lemma header_bytes_length ct : length (header_bytes ct) = header_len ct.
Proof. unfold header_bytes, header_len. cbn. try rewrite app_length. reflexivity. Qed.

Lemma header_bytes_then ct rest : header_bytes ct ++ rest = magic ++ 1 :: be16_bytes (lenN ct) ++ ct ++ rest.
Proof. unfold header_bytes. cbn. try rewrite <- app_assoc. reflexivity. Qed.

(* a file cut inside its header cannot be opened *)
Lemma read_header_cut ct n : ct_ok ct -> (n < header_len ct)%nat ->
  read_header (firstn n (header_bytes ct)) = None.
Proof.
  intros Hct Hn. unfold header_len in Hn. unfold header_bytes, magic, be16_bytes.
  do 5 (destruct n as [|n]; [reflexivity|]).
  do 2 (destruct n as [|n]; [reflexivity|]).
  cbn [app firstn].
  unfold read_header.
  change (100 :: 98 :: 105 :: 110 :: 1 :: lenN ct / 256 mod 256 :: lenN ct mod 256 :: firstn n ct)
    with ((magic ++ [1]) ++ (be16_bytes (lenN ct) ++ firstn n ct)).
  rewrite (read_bytes_exact' 5 (magic ++ [1])) by reflexivity.
  cbn [pb_data magic app eqb_list N.eqb Pos.eqb andb].
  rewrite (read_bytes_exact' 2 (be16_bytes (lenN ct)) (firstn n ct)) by reflexivity.
  cbn [pb_data]. rewrite be16_val by exact Hct.
  rewrite read_bytes_short.
  - destruct (firstn n ct); reflexivity.
  - unfold lenN. rewrite firstn_length. lia.
Qed.

(* ------------------------------------------------------------------ boolean equalities are sound *)

Lemma ts_eqb_eq a b : ts_eqb a b = true -> a = b.
Proof.
  unfold ts_eqb, opt_eqb. destruct a as [[s1 n1]|], b as [[s2 n2]|]; try discriminate; [|reflexivity].
  cbn [fst snd]. intros H. apply andb_true_iff in H as [H1 H2].
  apply Z.eqb_eq in H1. apply Z.eqb_eq in H2. congruence.
Qed.

Lemma any_eqb_eq a b : any_eqb a b = true -> a = b.
Proof.
  unfold any_eqb. intros H. apply andb_true_iff in H as [H1 H2].
  apply eqb_list_eq in H1. apply eqb_list_eq in H2. destruct a, b. cbn in *. congruence.
Qed.

Lemma blk_eqb_eq x y : blk_eqb x y = true -> x = y.
Proof.
  unfold blk_eqb. intros H.
  repeat match goal with Hx : _ && _ = true |- _ => apply andb_true_iff in Hx as [? ?] end.
  repeat match goal with Hx : eqb_list _ _ = true |- _ => apply eqb_list_eq in Hx end.
  repeat match goal with Hx : (_ =? _) = true |- _ => apply N.eqb_eq in Hx end.
  repeat match goal with Hx : (_ =? _)%Z = true |- _ => apply Z.eqb_eq in Hx end.
  match goal with Hx : ts_eqb _ _ = true |- _ => apply ts_eqb_eq in Hx end.
  assert (Hp : b_payload x = b_payload y).
  { match goal with Hx : opt_eqb any_eqb _ _ = true |- _ => revert Hx end.
    unfold opt_eqb. destruct (b_payload x), (b_payload y); try discriminate; [|reflexivity].
    intros Hx. apply any_eqb_eq in Hx. congruence. }
  destruct x, y. cbn in *. congruence.
Qed.
