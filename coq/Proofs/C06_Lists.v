(* C06: facts about ascending parent-linked chains, filters by number range, lookups by id. *)
From BV Require Import Base.Prelude Model.Block Model.Burst Model.CursorResolver Check.Burst_Check Spec.C06_Spec.
Local Open Scope N_scope.

(* ------------------------------------------------------------------ filters *)

Lemma filter_all : forall (A : Type) (p : A -> bool) l, Forall (fun x => p x = true) l -> filter p l = l.
Proof.
  intros A p l H. induction H as [|x l Hx _ IH]; cbn [filter]; [reflexivity|].
  rewrite Hx, IH. reflexivity.
Qed.

Lemma filter_none : forall (A : Type) (p : A -> bool) l, Forall (fun x => p x = false) l -> filter p l = [].
Proof.
  intros A p l H. induction H as [|x l Hx _ IH]; cbn [filter]; [reflexivity|].
  rewrite Hx, IH. reflexivity.
Qed.

Lemma last_cons : forall (A : Type) (l : list A) a p, last (a :: l) p = last l a.
Proof.
  intros A l. induction l as [|b l IH]; intros a p; [reflexivity|].
  change (last (a :: b :: l) p) with (last (b :: l) p). rewrite (IH b p), (IH b a). reflexivity.
Qed.

Lemma last_nonempty : forall (A : Type) (l : list A) a b, l <> [] -> last l a = last l b.
Proof.
  intros A l a b H. destruct l as [|x l]; [congruence|]. rewrite !last_cons. reflexivity.
Qed.

Lemma last_app_one : forall (A : Type) (l : list A) x p, last (l ++ [x]) p = x.
Proof. intros. apply last_last. Qed.

Lemma last_in : forall (A : Type) (l : list A) p, In (last l p) (p :: l).
Proof.
  intros A l. induction l as [|a l IH]; intros p; [left; reflexivity|].
  rewrite last_cons. right. apply IH.
Qed.

(* ------------------------------------------------------------------ ascending lists *)

Fixpoint asc (l : list block) : Prop :=
  match l with
  | [] => True
  | b :: l' => Forall (fun x => bnum b < bnum x) l' /\ asc l'
  end.

Lemma branch_lt : forall l p, branch_from p l -> Forall (fun b => bnum p < bnum b) l.
Proof.
  induction l as [|b l IH]; intros p H; [constructor|].
  destruct H as (_ & Hlt & Hb). constructor; [exact Hlt|].
  eapply Forall_impl; [|apply IH; exact Hb]. cbn beta. intros x Hx. lia.
Qed.

Lemma branch_asc : forall l p, branch_from p l -> asc (p :: l).
Proof.
  induction l as [|b l IH]; intros p H.
  - split; constructor.
  - split; [apply branch_lt; exact H|]. apply IH. apply H.
Qed.

Lemma linked_asc : forall l, linked l -> asc l.
Proof. intros [|a l] H; [exact I|]. apply branch_asc. exact H. Qed.

Lemma branch_from_app : forall l1 l2 p,
  branch_from p (l1 ++ l2) <-> branch_from p l1 /\ branch_from (last l1 p) l2.
Proof.
  induction l1 as [|a l1 IH]; intros l2 p.
  - cbn. tauto.
  - rewrite last_cons. cbn [app branch_from]. rewrite IH. tauto.
Qed.

Lemma linked_app : forall l1 l2, linked (l1 ++ l2) -> linked l1 /\ linked l2.
Proof.
  intros [|a l1] l2 H; [split; [exact I|exact H]|].
  cbn [app linked] in H. apply branch_from_app in H. destruct H as [H1 H2].
  split; [exact H1|]. destruct l2 as [|b l2]; [exact I|]. apply H2.
Qed.

Lemma asc_app_inv : forall l1 l2,
  asc (l1 ++ l2) -> asc l1 /\ asc l2 /\ Forall (fun a => Forall (fun b => bnum a < bnum b) l2) l1.
Proof.
  induction l1 as [|a l1 IH]; intros l2 H.
  - cbn in *. repeat split; auto.
  - cbn [app asc] in H. destruct H as [Ha H]. apply IH in H. destruct H as (H1 & H2 & H12).
    apply Forall_app in Ha. destruct Ha as [Ha1 Ha2].
    split; [split; assumption|]. split; [assumption|]. constructor; assumption.
Qed.

Lemma asc_app : forall l1 l2,
  asc l1 -> asc l2 -> Forall (fun a => Forall (fun b => bnum a < bnum b) l2) l1 -> asc (l1 ++ l2).
Proof.
  induction l1 as [|a l1 IH]; intros l2 H1 H2 H12; [exact H2|].
  cbn [app asc]. destruct H1 as [Ha H1]. inversion H12 as [|? ? Ha2 H12']; subst.
  split; [apply Forall_app; split; assumption|]. apply IH; assumption.
Qed.

Lemma asc_split : forall l k, asc l ->
  exists pre post, l = pre ++ post /\ Forall (fun b => bnum b < k) pre /\ Forall (fun b => k <= bnum b) post.
Proof.
  induction l as [|b l IH]; intros k H.
  - exists [], []. repeat split; constructor.
  - destruct H as [Hb H]. destruct (N.ltb_spec (bnum b) k) as [Hlt|Hge].
    + destruct (IH k H) as (pre & post & -> & Hpre & Hpost).
      exists (b :: pre), post. repeat split; [constructor; assumption|assumption].
    + exists [], (b :: l). repeat split; [constructor|]. constructor; [exact Hge|].
      eapply Forall_impl; [|exact Hb]. cbn beta. intros x Hx. lia.
Qed.

Lemma asc_in_eq : forall l a b, asc l -> In a l -> In b l -> bnum a = bnum b -> a = b.
Proof.
  induction l as [|x l IH]; intros a b H Ha Hb E; [contradiction|].
  destruct H as [Hx H]. rewrite Forall_forall in Hx.
  destruct Ha as [->|Ha], Hb as [->|Hb].
  - reflexivity.
  - apply Hx in Hb. lia.
  - apply Hx in Ha. lia.
  - apply IH; assumption.
Qed.

Lemma asc_NoDup : forall l, asc l -> NoDup l.
Proof.
  induction l as [|x l IH]; intros H; [constructor|].
  destruct H as [Hx H]. constructor; [|apply IH; exact H].
  intro Hin. rewrite Forall_forall in Hx. apply Hx in Hin. lia.
Qed.

(* the last block of an ascending list carries the largest number *)
Lemma asc_last_max : forall l p, asc (p :: l) -> Forall (fun b => bnum b <= bnum (last l p)) (p :: l).
Proof.
  induction l as [|a l IH]; intros p H.
  - constructor; [cbn; lia|constructor].
  - rewrite last_cons. destruct H as [Hp H]. specialize (IH a H).
    constructor; [|exact IH]. inversion IH as [|? ? Ha _]; subst. inversion Hp; subst. lia.
Qed.

(* canon = L :: hc ++ later: where the numbers of the three pieces lie *)
Lemma seg_numbers : forall L hc later,
  asc (L :: hc ++ later) ->
  Forall (fun b => bnum b <= bnum (last hc L)) (L :: hc) /\
  Forall (fun b => bnum L < bnum b) (hc ++ later) /\
  Forall (fun b => bnum (last hc L) < bnum b) later.
Proof.
  intros L hc later H.
  change (L :: hc ++ later) with ((L :: hc) ++ later) in H.
  pose proof (asc_app_inv _ _ H) as (H1 & _ & H12).
  split; [apply asc_last_max; exact H1|].
  split; [cbn [app asc] in H; apply H|].
  rewrite Forall_forall in H12. apply (H12 (last hc L)). apply last_in.
Qed.

Lemma seg_filters : forall L hc later,
  asc (L :: hc ++ later) ->
  between (bnum L) (bnum (last hc L)) (L :: hc ++ later) = hc /\
  above (bnum (last hc L)) (L :: hc ++ later) = later.
Proof.
  intros L hc later H. destruct (seg_numbers _ _ _ H) as (Hle & HL & Hlater).
  apply Forall_app in HL. destruct HL as [HLhc _].
  inversion Hle as [|? ? HleL Hlehc]; subst.
  unfold between, above. cbn [filter].
  replace (bnum L <? bnum L) with false by (symmetry; apply N.ltb_irrefl).
  replace (bnum (last hc L) <? bnum L) with false by (symmetry; apply N.ltb_ge; exact HleL).
  cbn [andb]. rewrite !filter_app. split.
  - rewrite filter_all, filter_none, app_nil_r; [reflexivity| |].
    + eapply Forall_impl; [|exact Hlater]. cbn beta. intros x Hx.
      apply andb_false_iff. right. apply N.leb_gt. exact Hx.
    + rewrite Forall_forall in *. intros x Hx. apply andb_true_iff. split.
      * apply N.ltb_lt. apply HLhc. exact Hx.
      * apply N.leb_le. apply Hlehc. exact Hx.
  - rewrite filter_none, filter_all; [reflexivity| |].
    + eapply Forall_impl; [|exact Hlater]. cbn beta. intros x Hx. apply N.ltb_lt. exact Hx.
    + eapply Forall_impl; [|exact Hlehc]. cbn beta. intros x Hx. apply N.ltb_ge. exact Hx.
Qed.

(* ------------------------------------------------------------------ chains *)

Lemma chain_ok_asc : forall l, chain_ok l -> asc l.
Proof. intros l [H _]. apply linked_asc. exact H. Qed.

Lemma ids_app : forall l1 l2, ids (l1 ++ l2) = ids l1 ++ ids l2.
Proof. intros. unfold ids. apply map_app. Qed.

Lemma in_ids : forall b l, In b l -> In (bid b) (ids l).
Proof. intros b l H. unfold ids. apply in_map. exact H. Qed.

Lemma nodup_app_r : forall (A : Type) (l1 l2 : list A), NoDup (l1 ++ l2) -> NoDup l2.
Proof.
  induction l1 as [|a l1 IH]; intros l2 H; [exact H|].
  cbn in H. inversion H; subst. apply IH. assumption.
Qed.

Lemma nodup_app_l : forall (A : Type) (l1 l2 : list A), NoDup (l1 ++ l2) -> NoDup l1.
Proof.
  induction l1 as [|a l1 IH]; intros l2 H; [constructor|].
  cbn in H. inversion H as [|? ? Ha H']; subst. constructor; [|eapply IH; exact H'].
  intro Hin. apply Ha. apply in_or_app. left. exact Hin.
Qed.

Lemma chain_ok_segment : forall pre D post, chain_ok (pre ++ D ++ post) -> chain_ok D.
Proof.
  intros pre D post [Hl Hn]. split.
  - apply linked_app in Hl. destruct Hl as [_ Hl]. apply linked_app in Hl. apply Hl.
  - rewrite !ids_app in Hn. apply nodup_app_r in Hn. apply nodup_app_l in Hn. exact Hn.
Qed.

(* same id on a chain = same block *)
Lemma nodup_ids_eq : forall l a b, NoDup (ids l) -> In a l -> In b l -> bid a = bid b -> a = b.
Proof.
  induction l as [|x l IH]; intros a b Hn Ha Hb E; [contradiction|].
  cbn in Hn. inversion Hn as [|? ? Hx Hn']; subst.
  destruct Ha as [->|Ha], Hb as [->|Hb].
  - reflexivity.
  - exfalso. apply Hx. rewrite E. apply in_ids. exact Hb.
  - exfalso. apply Hx. rewrite <- E. apply in_ids. exact Ha.
  - apply IH; assumption.
Qed.

(* every block of a branch has its parent on the branch (or is the root's child) *)
Lemma branch_pred : forall t a h, branch_from a t -> In h t -> exists q, In q (a :: t) /\ bparent h = bid q.
Proof.
  induction t as [|t1 t IH]; intros a h H Hin; [contradiction|].
  destruct H as (Hp & _ & Ht). destruct Hin as [->|Hin].
  - exists a. split; [left; reflexivity|exact Hp].
  - destruct (IH t1 h Ht Hin) as (q & Hq & E). exists q. split; [right; exact Hq|exact E].
Qed.

(* a branch under L made of chain blocks is the piece of the chain right after L *)
Lemma held_canon_prefix : forall hc L t,
  branch_from L t -> NoDup (ids (L :: t)) ->
  branch_from L hc -> Forall (fun b => In b (L :: t)) hc ->
  exists later, t = hc ++ later.
Proof.
  induction hc as [|h hc IH]; intros L t Ht Hn Hhc Hon; [exists t; reflexivity|].
  destruct Hhc as (Hp & Hlt & Hhc). inversion Hon as [|? ? Hh Hon']; subst.
  assert (Hht : In h t) by (destruct Hh as [<-|Hh]; [lia|exact Hh]).
  destruct t as [|t1 t]; [contradiction|].
  assert (E : h = t1).
  { destruct Hht as [->|Hht]; [reflexivity|]. exfalso.
    destruct Ht as (_ & _ & Ht).
    destruct (branch_pred _ _ _ Ht Hht) as (q & Hq & Eq).
    cbn in Hn. inversion Hn as [|? ? HL _]; subst. apply HL.
    rewrite <- Hp, Eq. apply (in_ids q (t1 :: t)). exact Hq. }
  subst t1. destruct Ht as (_ & _ & Ht).
  cbn in Hn. inversion Hn as [|? ? _ Hn']; subst.
  destruct (IH h t Ht Hn' Hhc) as (later & ->).
  - pose proof (branch_lt _ _ Hhc) as Hgt. rewrite Forall_forall in *.
    intros x Hx. specialize (Hon' x Hx). specialize (Hgt x Hx).
    destruct Hon' as [<-|Hx']; [lia|exact Hx'].
  - exists later. reflexivity.
Qed.

(* a block of the chain below the tip L' of a branch part: off-chain parents have off-chain children *)
Lemma child_of_off_is_off : forall L rest p b,
  chain_ok (L :: rest) -> off_canon (L :: rest) p -> bparent b = bid p -> bnum L < bnum b ->
  on_canon (L :: rest) b -> False.
Proof.
  intros L rest p b [Hl Hn] Hoff Hp Hlt Hon.
  assert (Hb : In b rest) by (destruct Hon as [<-|Hb]; [lia|exact Hb]).
  destruct (branch_pred _ _ _ Hl Hb) as (q & Hq & E).
  apply Hoff. rewrite <- Hp, E. apply in_ids. exact Hq.
Qed.

(* ------------------------------------------------------------------ lookups by id *)

Lemma lookup_none : forall id l, ~ In id (ids l) -> lookup_blk id l = None.
Proof.
  induction l as [|b l IH]; intros H; [reflexivity|].
  cbn [lookup_blk]. destruct (N.eqb_spec (bid b) id) as [E|E].
  - exfalso. apply H. left. exact E.
  - apply IH. intro Hin. apply H. right. exact Hin.
Qed.

Lemma lookup_none_inv : forall id l, lookup_blk id l = None -> ~ In id (ids l).
Proof.
  induction l as [|b l IH]; intros H Hin; [contradiction|].
  cbn [lookup_blk] in H. destruct (N.eqb_spec (bid b) id) as [E|E]; [discriminate|].
  destruct Hin as [Hin|Hin]; [congruence|]. exact (IH H Hin).
Qed.

Lemma lookup_some_in : forall id l b, lookup_blk id l = Some b -> In b l /\ bid b = id.
Proof.
  induction l as [|x l IH]; intros b H; [discriminate|].
  cbn [lookup_blk] in H. destruct (N.eqb_spec (bid x) id) as [E|E].
  - injection H as <-. split; [left; reflexivity|exact E].
  - destruct (IH b H) as [Hin Hid]. split; [right; exact Hin|exact Hid].
Qed.

Lemma lookup_nodup : forall l b, NoDup (ids l) -> In b l -> lookup_blk (bid b) l = Some b.
Proof.
  induction l as [|x l IH]; intros b Hn Hin; [contradiction|].
  cbn in Hn. inversion Hn as [|? ? Hx Hn']; subst. cbn [lookup_blk].
  destruct Hin as [->|Hin]; [rewrite N.eqb_refl; reflexivity|].
  destruct (N.eqb_spec (bid x) (bid b)) as [E|E].
  - exfalso. apply Hx. rewrite E. apply in_ids. exact Hin.
  - apply IH; assumption.
Qed.

(* what file_of means when the store has one file per id *)
Lemma file_of_present : forall forked c b,
  NoDup (ids forked) -> In b forked -> rn (cu_lib c) <= bnum b -> file_of forked c (bid b) = Some b.
Proof.
  intros forked c b Hn Hin Hle. unfold file_of.
  induction forked as [|x l IH]; [contradiction|].
  cbn in Hn. inversion Hn as [|? ? Hx Hn']; subst. cbn [filter].
  destruct Hin as [->|Hin].
  - replace (rn (cu_lib c) <=? bnum b) with true by (symmetry; apply N.leb_le; exact Hle).
    cbn [lookup_blk]. rewrite N.eqb_refl. reflexivity.
  - destruct (rn (cu_lib c) <=? bnum x); [|apply IH; assumption].
    cbn [lookup_blk]. destruct (N.eqb_spec (bid x) (bid b)) as [E|E]; [|apply IH; assumption].
    exfalso. apply Hx. rewrite E. apply in_ids. exact Hin.
Qed.

Lemma file_of_absent : forall forked c id,
  (forall x, In x forked -> bid x = id -> bnum x < rn (cu_lib c)) -> file_of forked c id = None.
Proof.
  intros forked c id H. unfold file_of. apply lookup_none. intro Hin.
  unfold ids in Hin. apply in_map_iff in Hin. destruct Hin as (x & E & Hx).
  apply filter_In in Hx. destruct Hx as [Hx Hle]. apply N.leb_le in Hle.
  specialize (H x Hx E). lia.
Qed.
