(* Soundness of the boolean property checkers of Check/C19_Check.v w.r.t. Spec/C19_Spec.v. *)
From BV Require Import Base.Prelude Base.Decimal Model.Range Spec.C19_Spec Check.C19_Check
  Proofs.PreludeFacts Proofs.RangeFacts Proofs.RangeSplitFacts.
Local Open Scope N_scope.

Lemma range_okb_spec r : range_okb r = true <-> range_ok r.
Proof.
  unfold range_okb, range_ok, u64. destruct r as [s e xs xe]; cbn [rstart rend].
  destruct e as [ev|]; rewrite ?andb_true_iff, ?N.ltb_lt; tauto.
Qed.

Lemma in_rangeb_spec r n : in_rangeb r n = true <-> in_range r n.
Proof.
  unfold in_rangeb, in_range, lower_ok, upper_ok. destruct r as [s e xs xe]; cbn [rstart rend rexs rexe].
  rewrite andb_true_iff. destruct xs, e as [ev|]; try destruct xe;
    rewrite ?N.ltb_lt, ?N.leb_le; tauto.
Qed.

Lemma reachedb_spec r n :
  reachedb r n = true <-> exists e, rend r = Some e /\ e <= n + b2n (rexe r).
Proof.
  unfold reachedb. destruct (rend r) as [e|].
  - rewrite N.leb_le. split; [intros H; exists e; auto | intros (e' & H & H2); inversion H; subst; exact H2].
  - split; [discriminate | intros (e' & H & _); discriminate].
Qed.

(* the checker's Next/Previous/Size expectations are the ones of the statement *)
Lemma nextb_spec r sz x : nextb r sz = Some x ->
  match rend r with
  | Some e => e + sz < two64 /\ x = mkRange e (Some (e + sz)) (rexs r) (rexe r)
  | None => rstart r + sz < two64 /\ x = mkRange (rstart r + sz) None (rexs r) (rexe r)
  end.
Proof.
  unfold nextb. destruct (rend r) as [e|].
  - destruct (N.ltb_spec (e + sz) two64); [|discriminate]. intros Hx; inversion Hx; auto.
  - destruct (N.ltb_spec (rstart r + sz) two64); [|discriminate]. intros Hx; inversion Hx; auto.
Qed.

Lemma prevb_spec r sz x : prevb r sz = Some x ->
  sz <= rstart r /\
  x = mkRange (rstart r - sz) (match rend r with Some _ => Some (rstart r) | None => None end) (rexs r) (rexe r).
Proof.
  unfold prevb. destruct (N.leb_spec sz (rstart r)); [|discriminate]. intros Hx; inversion Hx; auto.
Qed.

Lemma inner_boundsb_eq l : inner_boundsb l = inner_bounds l.
Proof.
  induction l as [|a t IH]; [reflexivity|]. destruct t as [|b t']; [reflexivity|].
  change (inner_boundsb (a :: b :: t')) with
    (match rend a with Some e => e :: inner_boundsb (b :: t') | None => inner_boundsb (b :: t') end).
  change (inner_bounds (a :: b :: t')) with
    (match rend a with Some e => e :: inner_bounds (b :: t') | None => inner_bounds (b :: t') end).
  rewrite IH. reflexivity.
Qed.

Lemma chainb_sound xs xe chunk e : forall l cs,
  chainb xs xe chunk e cs l = true -> chain xs xe chunk e cs l.
Proof.
  induction l as [|c t IH]; intros cs H; [discriminate|].
  cbn [chainb] in H. destruct t as [|b t'].
  - rewrite !andb_true_iff in H. destruct H as [[H1 H2] H3].
    apply range_eqb_eq in H1. subst c. apply N.ltb_lt in H2. apply N.leb_le in H3.
    apply chain_last; assumption.
  - destruct (rend c) as [ce|] eqn:Ec; [|discriminate].
    rewrite !andb_true_iff in H. destruct H as [[[[[H1 H2] H3] H4] H5] H6].
    apply range_eqb_eq in H1. subst c. apply N.ltb_lt in H2. apply N.leb_le in H3.
    apply N.eqb_eq in H4. apply N.ltb_lt in H5.
    apply chain_cons; auto.
Qed.

(* a chunk list accepted by the checker satisfies the proved Split statement *)
Lemma split_check_sound r chunk e l : range_ok r -> rend r = Some e ->
  chainb (rexs r) (rexe r) chunk e (rstart r) l = true ->
  chunks_shape r chunk l /\
  forall n, (exists c, In c l /\ in_range c n) <->
            in_range r n /\ ~ (rexs r = true /\ rexe r = true /\ In n (inner_bounds l)).
Proof.
  intros Hok Hr H. apply chainb_sound in H. split; [eapply chain_shape; eauto|].
  intros n. rewrite (chain_union _ _ _ _ _ _ H n). unfold in_range. rewrite Hr. tauto.
Qed.
