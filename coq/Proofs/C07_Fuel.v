(* The fuel of Model/Joining.stream_run: the live phase spends one unit per event taken from its queue and one per
   arrival it waits for; it never ends with JFuel when its fuel exceeds  |queue| + |events of all arrivals| + |arrivals|.
   Hence a run ends with JFuel only if the hub answered with a burst too long for the stream's fuel (a hub whose
   retained chain is long compared with the blocks to arrive and the merged files), or through the fuel of the cursor
   resolver / of the hub's lookups. *)
From BV Require Import Base.Prelude Model.Block Model.ForkDB Model.Forkable Model.ForkableLookups
  Model.Burst Model.Hub Model.CursorResolver Model.Joining
  Spec.C07_Spec Spec.C07_Compose_Spec Spec.C07_Shapes_Spec Spec.C07_Fuel_Spec
  Proofs.C07_File Proofs.C07_Live Proofs.C07_ComposeCheck Proofs.C07_Shapes.
Local Open Scope N_scope.

(* ------------------------------------------------------------------ arrivals *)

Lemma pushed_add c a b w : pushed c (a + b) w = pushed c a w ++ pushed c b (world_after c a w).
Proof. unfold pushed, world_after. rewrite push_n_add. reflexivity. Qed.

Lemma pushed_beyond c : forall k w, w_rest w = [] -> pushed c k w = [].
Proof. intros k w H. unfold pushed. rewrite (push_n_empty c k w H). reflexivity. Qed.

(* the events of all arrivals = those of the first m, then all those of the world after m arrivals *)
Lemma push_all_split c m w : push_all c w = pushed c m w ++ push_all c (world_after c m w).
Proof.
  unfold push_all. destruct (Nat.le_gt_cases m (length (w_rest w))) as [Hle|Hgt].
  - replace (length (w_rest w)) with (m + (length (w_rest w) - m))%nat at 1 by lia.
    rewrite pushed_add, world_after_rest. reflexivity.
  - assert (Hr : w_rest (world_after c m w) = []).
    { pose proof (world_after_rest c m w) as H. destruct (w_rest (world_after c m w)); [reflexivity | cbn in H; lia]. }
    rewrite Hr. cbn [length]. replace (pushed c 0 (world_after c m w)) with (@nil event) by reflexivity. rewrite app_nil_r.
    replace m with (length (w_rest w) + (m - length (w_rest w)))%nat at 1 by lia.
    rewrite pushed_add. rewrite (pushed_beyond c (m - length (w_rest w))); [rewrite app_nil_r; reflexivity|].
    pose proof (world_after_rest c (length (w_rest w)) w) as H. rewrite Nat.sub_diag in H.
    destruct (w_rest (world_after c (length (w_rest w)) w)); [reflexivity | discriminate].
Qed.

Lemma work_after c m w q evs : evs = pushed c m w ->
  (live_work c (world_after c m w) (q ++ evs) <= live_work c w q)%nat.
Proof.
  intros ->. unfold live_work. rewrite (push_all_split c m w), !app_length, world_after_rest. lia.
Qed.

Lemma pauses_pushed c count ps w : exists m,
  snd (fst (apply_pauses c count ps w)) = world_after c m w /\ snd (apply_pauses c count ps w) = pushed c m w.
Proof. destruct (apply_pauses_push c count ps w) as (m & E1 & E2). exists m. split; symmetry; assumption. Qed.

Lemma push_one_work c w b r : w_rest w = b :: r ->
  (live_work c (fst (push_one c w)) (snd (push_one c w)) < live_work c w [])%nat.
Proof.
  intros Er. unfold live_work. cbn [length].
  assert (E1 : fst (push_one c w) = world_after c 1 w) by (unfold world_after; rewrite push_n_one; reflexivity).
  assert (E2 : snd (push_one c w) = pushed c 1 w) by (unfold pushed; rewrite push_n_one; reflexivity).
  rewrite E1, E2, (push_all_split c 1 w), app_length, world_after_rest, Er. cbn [length]. lia.
Qed.

(* ------------------------------------------------------------------ the live phases *)

Lemma live_fuel_enough : forall fuel c w queue count ps out,
  (live_work c w queue < fuel)%nat -> snd (live_phase fuel c w queue count ps out) <> JFuel.
Proof.
  induction fuel as [|f IH]; intros c w queue count ps out Hw; [lia|].
  cbn [live_phase]. destruct queue as [|e q].
  - destruct (w_rest w) as [|b r] eqn:Er; [discriminate|].
    pose proof (push_one_work c w b r Er) as Hlt. destruct (push_one c w) as [w' evs]. cbn [fst snd] in Hlt.
    apply IH. lia.
  - destruct (Joining.chain c e) as [deliver stop]. destruct deliver.
    + destruct (pauses_pushed c (count + 1) ps w) as (m & Ew & Ee).
      destruct (apply_pauses c (count + 1) ps w) as [[ps' w'] evs]. cbn [fst snd] in Ew, Ee. subst w'.
      destruct stop; [discriminate|]. apply IH.
      pose proof (work_after c m w q evs Ee) as H. unfold live_work in *. cbn [length] in Hw. lia.
    + destruct stop; [discriminate|]. apply IH. unfold live_work in *. cbn [length] in Hw. lia.
Qed.

Lemma live_fin_fuel_enough : forall fuel c w lf queue count ps out,
  (live_work c w queue < fuel)%nat -> snd (live_phase_fin fuel c w lf queue count ps out) <> JFuel.
Proof.
  induction fuel as [|f IH]; intros c w lf queue count ps out Hw; [lia|].
  cbn [live_phase_fin]. destruct queue as [|e q].
  - destruct (w_rest w) as [|b r] eqn:Er; [discriminate|].
    pose proof (push_one_work c w b r Er) as Hlt. destruct (push_one c w) as [w' evs]. cbn [fst snd] in Hlt.
    apply IH. lia.
  - destruct (chain_fin c lf e) as [[deliver stop] lf']. destruct deliver.
    + destruct (pauses_pushed c (count + 1) ps w) as (m & Ew & Ee).
      destruct (apply_pauses c (count + 1) ps w) as [[ps' w'] evs]. cbn [fst snd] in Ew, Ee. subst w'.
      destruct stop; [discriminate|]. apply IH.
      pose proof (work_after c m w q evs Ee) as H. unfold live_work in *. cbn [length] in Hw. lia.
    + destruct stop; [discriminate|]. apply IH. unfold live_work in *. cbn [length] in Hw. lia.
Qed.

(* ------------------------------------------------------------------ the file phases: no fuel of their own *)

Lemma joins_within_after fuel c w m : joins_within fuel c w -> joins_within fuel c (world_after c m w).
Proof. intros H k lowest e burst. rewrite wafter_add. apply H. Qed.

Lemma file_fuel_enough fuel c fend : forall fevs w lowest count ps out,
  joins_within fuel c w -> fend <> JFuel -> snd (file_phase fuel c w lowest fevs fend count ps out) <> JFuel.
Proof.
  induction fevs as [|e fevs IH]; intros w lowest count ps out Hj Hfe; [exact Hfe|].
  rewrite file_phase_cons. destruct (join_try c w lowest e) as [burst|] eqn:Ej.
  - apply live_fuel_enough. exact (Hj 0%nat lowest e burst Ej).
  - cbv zeta. destruct (Joining.chain c e) as [deliver stop]. destruct deliver.
    + destruct (pauses_world c (count + 1) ps w) as [m Em].
      destruct (apply_pauses c (count + 1) ps w) as [[ps' w'] evs]. cbn [fst snd] in Em. subst w'.
      destruct stop; [discriminate|]. apply IH; [apply joins_within_after; exact Hj | exact Hfe].
    + destruct stop; [discriminate|]. apply IH; assumption.
Qed.

Lemma file_fin_fuel_enough fuel c fend : forall fevs w lf lowest count ps out,
  joins_within fuel c w -> fend <> JFuel -> snd (file_phase_fin fuel c w lf lowest fevs fend count ps out) <> JFuel.
Proof.
  induction fevs as [|e fevs IH]; intros w lf lowest count ps out Hj Hfe; [exact Hfe|].
  rewrite file_phase_fin_cons. destruct (join_try c w lowest e) as [burst|] eqn:Ej.
  - apply live_fin_fuel_enough. exact (Hj 0%nat lowest e burst Ej).
  - cbv zeta. destruct (chain_fin c lf e) as [[deliver stop] lf']. destruct deliver.
    + destruct (pauses_world c (count + 1) ps w) as [m Em].
      destruct (apply_pauses c (count + 1) ps w) as [[ps' w'] evs]. cbn [fst snd] in Em. subst w'.
      destruct stop; [discriminate|]. apply IH; [apply joins_within_after; exact Hj | exact Hfe].
    + destruct stop; [discriminate|]. apply IH; assumption.
Qed.

Lemma jerr_eq_fuel (e : jerr) : e = JFuel \/ e <> JFuel.
Proof. destruct e; [right; discriminate..|left; reflexivity]. Qed.

(* ------------------------------------------------------------------ Stream.Run *)

Lemma c07_fuel_enough_proof : C07_fuel_enough.
Proof.
  intros c w ps merged_end merged forked fuel start Hlive Hjoin Hr.
  rewrite stream_run_unfold in Hr. fold start in Hr. cbv zeta in Hr. fold (run_fuel w merged) in Hr. fold fuel in Hr.
  destruct (run_rejected c w); [discriminate|].
  destruct (live_try c (w_hub w) start) as [burst| | |] eqn:El.
  - exfalso. destruct (j_filter c =? 1).
    + exact (live_fin_fuel_enough fuel c w (start_mem c) burst 0 ps [] (Hlive burst eq_refl) Hr).
    + exact (live_fuel_enough fuel c w burst 0 ps [] (Hlive burst eq_refl) Hr).
  - right. right. destruct (jerr_eq_fuel (snd (run_files c start merged_end merged forked))) as [E|E]; [exact E|]. exfalso.
    destruct (j_filter c =? 1).
    + exact (file_fin_fuel_enough fuel c _ _ w (start_mem c) _ 0 ps [] Hjoin E Hr).
    + exact (file_fuel_enough fuel c _ _ w _ 0 ps [] Hjoin E Hr).
  - right. left. reflexivity.
  - left. reflexivity.
Qed.

Lemma c07_live_fuel_enough_proof : C07_live_fuel_enough.
Proof.
  intros fuel c w queue count ps out H. split; [apply live_fuel_enough; exact H|].
  intros lf. apply live_fin_fuel_enough. exact H.
Qed.
