(* files_on_hub is needed in target-cursor mode: the join is made on the block NUMBER (Spec/C07_More_Spec.v,
   C07_target_join_by_number_refuted).  The witness is the world of c07_join_by_number_refuted with a target cursor. *)
From BV Require Import Base.Prelude Model.Block Model.ForkDB Model.Forkable Model.ForkableLookups
  Model.Burst Model.Hub Model.CursorResolver Model.Joining
  Spec.Consumer Spec.Universe Check.Burst_Check Check.C07_Check Spec.C06_Spec Spec.C07_Spec Spec.C09_Spec
  Spec.C13_Spec Spec.C07_Compose_Spec Spec.C07_Shapes_Spec Spec.C07_More_Spec
  Proofs.C07_ComposeCheck Proofs.C07_FullRefuted Proofs.C07_FiltersTarget.
Local Open Scope N_scope.

Definition tn_cu : cursor := mkCursor SNew (mkR 8 8) (mkR 8 8) (mkR 6 6).
Definition tn_c : jcfg := mkJ 2 5 10 2 5 (Some tn_cu) 0 0 0.

Lemma c07_target_join_by_number_refuted_proof : C07_target_join_by_number_refuted.
Proof.
  exists na_U, tn_c, na_w, [(10, 4)], 16, na_canon, [], tn_cu, (na_b 8).
  assert (Hwf : wf_b na_U = true) by (vm_compute; reflexivity).
  assert (Hlok : lib_ok_b LNone na_U = true) by (vm_compute; reflexivity).
  assert (Hhub : hub_of_universe na_U tn_c na_w).
  { split.
    - exists []. split; [intros b p []|reflexivity].
    - intros b Hb. vm_compute in Hb. vm_compute. tauto. }
  assert (Hchain : chain_ok na_canon).
  { split.
    - vm_compute. repeat split.
    - apply (NoDup_map_inv (fun x => x)). rewrite map_id. vm_compute.
      repeat (constructor; [cbn; intros K; repeat (destruct K as [K|K]; [discriminate|]); exact K|]). constructor. }
  assert (Hincl : incl na_canon na_U) by (intros b Hb; unfold na_U; apply in_or_app; left; exact Hb).
  assert (Htip : eventual_tip tn_c na_w na_canon) by (apply eventual_tip_b_sound; vm_compute; reflexivity).
  assert (Hto : target_on_chain tn_c na_w tn_cu) by (apply target_on_chain_b_sound; vm_compute; reflexivity).
  assert (Hbound : Forall (fun b => bnum b < file_bound) (filter (fun b => bnum b <? 16) na_canon)).
  { apply Forall_forall. intros b Hb.
    assert (H : forallb (fun b => bnum b <? file_bound) (filter (fun b => bnum b <? 16) na_canon) = true) by (vm_compute; reflexivity).
    rewrite forallb_forall in H. apply N.ltb_lt. apply H. exact Hb. }
  assert (HB : In (na_b 8) na_canon) by (vm_compute; tauto).
  assert (Hstart : exists b, In b na_canon /\ bnum b = run_start tn_c na_w)
    by (exists (na_b 5); split; [vm_compute; tauto | vm_compute; reflexivity]).
  assert (Hbad : cons_fold_aside cons0 (map as_new (filter is_nu
             (fst (stream_run tn_c na_w [(10, 4)] 16 (filter (fun b => bnum b <? 16) na_canon) [])))) = None)
    by (vm_compute; reflexivity).
  cbv zeta.
  split; [exact Hwf|]. split; [exact Hlok|]. split; [exact Hhub|]. split; [exact Hchain|]. split; [exact Hincl|].
  split; [exact Htip|]. split; [exact Hto|].
  split; [reflexivity|]. split; [reflexivity|]. split; [reflexivity|]. split; [reflexivity|]. split; [reflexivity|].
  split; [exact Hbound|]. split; [exact HB|]. split; [reflexivity|]. split; [exact Hstart|].
  split; [|exact Hbad].
  intros Hfo.
  destruct (c07_seamless_target_nu_proof na_U tn_c na_w [(10, 4)] 16 na_canon [] tn_cu (na_b 8) Hwf Hlok Hhub Hchain Hincl
              Htip Hfo Hto eq_refl eq_refl eq_refl eq_refl Hbound HB eq_refl Hstart) as (c' & Hc' & _).
  rewrite Hbad in Hc'. discriminate.
Qed.
