(* The target-cursor join by block NUMBER (before the fix "target join on identity"): Spec/C07_TargetUnfixed_Spec.v,
   C07_target_join_by_number_refuted.  The witness is the world of c07_join_by_number_refuted with a target cursor. *)
From BV Require Import Base.Prelude Model.Block Model.ForkDB Model.Forkable Model.ForkableLookups
  Model.Burst Model.Hub Model.CursorResolver Model.Joining
  Spec.Consumer Spec.Universe Check.Burst_Check Check.C07_Check Spec.C06_Spec Spec.C07_Spec Spec.C09_Spec
  Spec.C13_Spec Spec.C07_Compose_Spec Spec.C07_Shapes_Spec Spec.C07_More_Spec Spec.C13_More_Spec Spec.C07_TargetUnfixed_Spec
  Proofs.C07_ComposeCheck Proofs.C07_FullRefuted.
Local Open Scope N_scope.

Definition tn_cu : cursor := mkCursor SNew (mkR 8 8) (mkR 8 8) (mkR 6 6).
Definition tn_c : jcfg := mkJ 2 5 10 2 5 (Some tn_cu) 0 0 0.

Lemma c07_target_join_by_number_refuted_proof : C07_target_join_by_number_refuted.
Proof.
  exists na_U, tn_c, na_w, [(10, 4)], 16, na_canon, [], tn_cu, (na_b 8).
  cbv zeta.
  split; [vm_compute; reflexivity|]. split; [vm_compute; reflexivity|].
  split.
  { split.
    - exists []. split; [intros b p []|reflexivity].
    - intros b Hb. vm_compute in Hb. vm_compute. tauto. }
  split.
  { split.
    - vm_compute. repeat split.
    - apply (NoDup_map_inv (fun x => x)). rewrite map_id. vm_compute.
      repeat (constructor; [cbn; intros K; repeat (destruct K as [K|K]; [discriminate|]); exact K|]). constructor. }
  split; [intros b Hb; unfold na_U; apply in_or_app; left; exact Hb|].
  split; [apply eventual_tip_b_sound; vm_compute; reflexivity|].
  split; [apply target_on_chain_b_sound; vm_compute; reflexivity|].
  split; [reflexivity|]. split; [reflexivity|]. split; [reflexivity|]. split; [reflexivity|]. split; [reflexivity|].
  split.
  { apply Forall_forall. intros b Hb.
    assert (H : forallb (fun b => bnum b <? file_bound) (filter (fun b => bnum b <? 16) na_canon) = true) by (vm_compute; reflexivity).
    rewrite forallb_forall in H. apply N.ltb_lt. apply H. exact Hb. }
  split; [vm_compute; tauto|]. split; [reflexivity|].
  split; [exists (na_b 5); split; [vm_compute; tauto | vm_compute; reflexivity]|].
  split; [vm_compute; reflexivity|].
  intros E. apply (f_equal (fun x => length (fst x))) in E. vm_compute in E. discriminate.
Qed.

(* on the same input the model of the code as it is now does not join on the fork: it delivers 15 from the files, which
   end there (merged_end 16), and holds the merged blocks from 5 on *)
Example tn_fixed_ok :
  let res := stream_run tn_c na_w [(10, 4)] 16 (filter (fun b => bnum b <? 16) na_canon) [] in
  match cons_fold_aside cons0 (map as_new (fst res)) with
  | Some c' => rev (cs_stack c') = filter (fun b => (5 <=? bnum b) && (bnum b <? 16)) na_canon
  | None => False
  end /\ snd res = JNil.
Proof. vm_compute. split; reflexivity. Qed.

(* ------------------------------------------------------------------ the cursor LIB hypothesis of c07_seamless_target *)

(* chain 2..20; the hub gets 6..14, then the fork 13 <- 114 <- 115 (the canonical 14 stored off its chain), then 15..20 *)
Definition off_w : world :=
  mkW (hub_run 2 5 hub_init []) (map na_b [6;7;8;9;10;11;12;13;14] ++ [na_f14; na_f15] ++ map na_b [15;16;17;18;19;20]).
Definition bl_cu : cursor := mkCursor SNew (mkR 14 14) (mkR 14 14) (mkR 12 14).
Definition bl_c : jcfg := mkJ 2 5 10 2 5 (Some bl_cu) 0 0 0.

Lemma c07_target_cursor_lib_needed_proof : C07_target_cursor_lib_needed.
Proof.
  exists na_U, bl_c, off_w, [(2, 11)], 10, na_canon, [], bl_cu, (na_b 14).
  cbv zeta.
  split; [vm_compute; reflexivity|]. split; [vm_compute; reflexivity|].
  split.
  { split.
    - exists []. split; [intros b p []|reflexivity].
    - intros b Hb. vm_compute in Hb. vm_compute. tauto. }
  split.
  { split.
    - vm_compute. repeat split.
    - apply (NoDup_map_inv (fun x => x)). rewrite map_id. vm_compute.
      repeat (constructor; [cbn; intros K; repeat (destruct K as [K|K]; [discriminate|]); exact K|]). constructor. }
  split; [intros b Hb; unfold na_U; apply in_or_app; left; exact Hb|].
  split; [apply eventual_tip_b_sound; vm_compute; reflexivity|].
  split; [reflexivity|]. split; [reflexivity|]. split; [reflexivity|]. split; [reflexivity|]. split; [reflexivity|].
  split.
  { apply Forall_forall. intros b Hb.
    assert (H : forallb (fun b => bnum b <? file_bound) (filter (fun b => bnum b <? 10) na_canon) = true) by (vm_compute; reflexivity).
    rewrite forallb_forall in H. apply N.ltb_lt. apply H. exact Hb. }
  split; [vm_compute; tauto|]. split; [reflexivity|].
  split; [exists (na_b 12); split; [vm_compute; tauto|]; split; [reflexivity | vm_compute; discriminate]|].
  split; [exists (na_b 5); split; [vm_compute; tauto | vm_compute; reflexivity]|].
  vm_compute. reflexivity.
Qed.

(* ------------------------------------------------------------------ the scope hypothesis of c13_stop_target *)

Definition sn_cu : cursor := mkCursor SNew (mkR 14 14) (mkR 15 15) (mkR 6 6).
Definition sn_c : jcfg := mkJ 2 5 10 2 5 (Some sn_cu) 9 0 0.

Lemma c13_stop_target_scope_needed_proof : C13_stop_target_scope_needed.
Proof.
  exists na_U, sn_c, na_w, [], 16, na_canon, [], sn_cu, (na_b 14). cbv zeta.
  split; [vm_compute; reflexivity|]. split; [vm_compute; reflexivity|].
  split.
  { split.
    - exists []. split; [intros b p []|reflexivity].
    - intros b Hb. vm_compute in Hb. vm_compute. tauto. }
  split.
  { split.
    - vm_compute. repeat split.
    - apply (NoDup_map_inv (fun x => x)). rewrite map_id. vm_compute.
      repeat (constructor; [cbn; intros K; repeat (destruct K as [K|K]; [discriminate|]); exact K|]). constructor. }
  split; [intros b Hb; unfold na_U; apply in_or_app; left; exact Hb|].
  split; [apply eventual_tip_b_sound; vm_compute; reflexivity|].
  split; [reflexivity|]. split; [reflexivity|]. split; [reflexivity|]. split; [reflexivity|].
  split.
  { apply Forall_forall. intros b Hb.
    assert (H : forallb (fun b => bnum b <? file_bound) (filter (fun b => bnum b <? 16) na_canon) = true) by (vm_compute; reflexivity).
    rewrite forallb_forall in H. apply N.ltb_lt. apply H. exact Hb. }
  split; [vm_compute; tauto|]. split; [reflexivity|].
  split; [exists (na_b 6); split; [vm_compute; tauto|]; split; [reflexivity|]; split; [vm_compute; discriminate | intros H; discriminate]|].
  split; [exists (na_b 5); split; [vm_compute; tauto | vm_compute; reflexivity]|].
  split; [exists (na_b 9); split; [vm_compute; tauto | reflexivity]|].
  split; [vm_compute; reflexivity|]. split; vm_compute; reflexivity.
Qed.
