(* C07 composition, part 5: cursor mode out of the files.  C06's output (Proofs/C06_*.v) in one shape - Undo
   events for the pending forked blocks, Irreversible events, then the canonical blocks as new+irreversible -
   fed through the file phase (the Undo / Irreversible events never join: c07_join_only_on_first_delivery),
   then file_run of C07_ComposeRun.v from the consumer that holds hc. *)
From Coq Require Import Sorted.
From BV Require Import Base.Prelude Model.Block Model.ForkDB Model.Forkable Model.ForkableLookups Model.Burst Model.Hub
  Model.CursorResolver Model.Joining
  Spec.Consumer Spec.Universe Check.Fk_Check Check.Burst_Check Check.C07_Check
  Spec.C09_Spec Spec.C05_Spec Spec.C06_Spec Spec.C07_Spec Spec.C13_Spec Spec.C07_Compose_Spec
  Spec.C01_Spec Spec.C01_Moving_Spec Spec.C01_Roots_Spec
  Proofs.C06_Lists Proofs.C06_Proofs Proofs.C06_Forked Proofs.C06_Consumer Proofs.C13_Proofs
  Proofs.Fk.LoopFacts Proofs.Fk.MovingLibDisc Proofs.C02_Proofs Proofs.C01_Roots_Proofs
  Proofs.Hub.ConsFacts Proofs.Hub.HubFed Proofs.Hub.C09_History
  Proofs.C07_File Proofs.C07_Live
  Proofs.C07_ComposeStack Proofs.C07_ComposeHub Proofs.C07_ComposeRun Proofs.C07_Compose.
Local Open Scope N_scope.

(* ------------------------------------------------------------------ C06's output in one shape *)

Lemma last_app_ne {A} (l1 l2 : list A) d : l2 <> [] -> last (l1 ++ l2) d = last l2 d.
Proof.
  intros H. induction l1 as [|a l1 IH]; [reflexivity|].
  cbn [app]. rewrite <- IH. destruct (l1 ++ l2) eqn:E; [|reflexivity].
  apply app_eq_nil in E as [_ E]. contradiction.
Qed.

Lemma not_undo_matches s : s <> SUndo -> matches_undo s = false.
Proof. destruct s; intros H; try reflexivity. contradiction. Qed.

Lemma cursor_events merged forked cu stop bundle L rest' hc hf :
  setting merged cu stop bundle L rest' ->
  branch_from L (hc ++ hf) -> Forall (on_canon (L :: rest')) hc -> Forall (off_canon (L :: rest')) hf ->
  (cu_step cu <> SUndo -> bref (last (hc ++ hf) L) = cu_blk cu) ->
  (cu_step cu = SUndo -> exists X, bref X = cu_blk cu /\ branch_from L (hc ++ hf ++ [X]) /\
     ((on_canon (L :: rest') X /\ hf = []) \/ (off_canon (L :: rest') X /\ file_of forked cu (bid X) = Some X))) ->
  (forall x, In x hf -> file_of forked cu (bid x) = Some x) ->
  reached (L :: rest') cu ->
  exists I later,
    from_cursor_run merged forked cu stop bundle =
      (map (C06_Spec.undo_event cu (last hc L)) (rev hf) ++ map (file_event SIrr) I ++ map fev later, RsOk) /\
    rest' = hc ++ later /\ chain_ok (L :: hc ++ later).
Proof.
  intros Hset Hbr Hon Hoff Hnu Hu Hfiles Hreach.
  destruct (step_eqb (cu_step cu) SUndo) eqn:Es.
  - (* an Undo cursor *)
    assert (Est : cu_step cu = SUndo) by (destruct (cu_step cu); try discriminate; reflexivity).
    destruct (Hu Est) as (X & HX & HbrX & [[HXon ->]|[HXoff HXfile]]).
    + (* the undone block is on the chain *)
      rewrite app_nil_r in *. cbn [app] in HbrX.
      assert (Hbr' : branch_from L ((hc ++ [X]) ++ [])) by (rewrite app_nil_r; exact HbrX).
      assert (Hon' : Forall (on_canon (L :: rest')) (hc ++ [X])).
      { apply Forall_app. split; [exact Hon | constructor; [exact HXon | constructor]]. }
      destruct (setting_decompose _ _ _ _ _ _ _ _ Hset Hbr' Hon') as (later & Erest & Hc & _ & _).
      rewrite (c06_resume_undo_on_chain_proof merged forked cu stop bundle L rest' X Hset Est HXon HX).
      pose proof Hset as (_ & _ & HL). destruct (bref_eq _ _ HL) as [_ ELn]. destruct (bref_eq _ _ HX) as [_ EXn].
      rewrite <- ELn, <- EXn, Erest, <- (app_assoc hc [X] later). cbn [app].
      assert (Hc' : chain_ok (L :: hc ++ X :: later)) by (rewrite <- (app_assoc hc [X] later) in Hc; exact Hc).
      destruct (seg_filters_undo L hc X later (chain_ok_asc _ Hc')) as [E1 E2]. rewrite E1, E2.
      exists hc, (X :: later). cbn [rev map app]. split; [reflexivity|]. split; [reflexivity | exact Hc'].
    + (* the undone block is off the chain *)
      assert (Hoff' : Forall (off_canon (L :: rest')) (hf ++ [X])).
      { apply Forall_app. split; [exact Hoff | constructor; [exact HXoff | constructor]]. }
      assert (Hfiles' : forall x, In x (hf ++ [X]) -> file_of forked cu (bid x) = Some x).
      { intros x Hx. apply in_app_or in Hx as [Hx|[<-|[]]]; [apply Hfiles; exact Hx | exact HXfile]. }
      destruct (setting_decompose _ _ _ _ _ _ _ _ Hset HbrX Hon) as (later & Erest & Hc & Elater & _).
      destruct (c06_resume_forked_undo_proof merged forked cu stop bundle L rest' hc hf X Hset Est HbrX Hon Hoff' HX Hfiles' Hreach) as [E _].
      rewrite E, <- Elater. exists hc, later. split; [reflexivity|]. split; [exact Erest | exact Hc].
  - (* New / Irreversible / new+irreversible cursor *)
    assert (Est : cu_step cu <> SUndo) by (intros E; rewrite E in Es; discriminate).
    specialize (Hnu Est). destruct hf as [|f0 hf0].
    + (* on the chain *)
      rewrite app_nil_r in *.
      destruct (setting_decompose _ _ _ _ _ _ _ _ Hset (eq_ind_r (fun l => branch_from L l) Hbr (app_nil_r hc)) Hon)
        as (later & Erest & Hc & Elater & Ehc).
      assert (Hin : In (last hc L) (L :: rest')).
      { rewrite Erest. pose proof (last_in _ hc L) as H. destruct H as [H|H]; [left; exact H|].
        right. apply in_or_app. left. exact H. }
      rewrite (c06_resume_on_chain_proof merged forked cu stop bundle L rest' (last hc L) Hset (not_undo_matches _ Est) Hin Hnu).
      pose proof Hset as (_ & _ & HL). destruct (bref_eq _ _ HL) as [_ ELn]. destruct (bref_eq _ _ Hnu) as [_ EXn].
      rewrite <- ELn, <- EXn, <- Ehc, <- Elater.
      exists hc, later. cbn [rev map app]. split; [reflexivity|]. split; [exact Erest | exact Hc].
    + (* on a forked block *)
      assert (Hne : f0 :: hf0 <> []) by discriminate.
      rewrite (last_app_ne hc (f0 :: hf0) L Hne) in Hnu.
      destruct (setting_decompose _ _ _ _ _ _ _ _ Hset Hbr Hon) as (later & Erest & Hc & Elater & _).
      destruct (c06_resume_forked_proof merged forked cu stop bundle L rest' hc (f0 :: hf0) Hset Est Hbr Hon Hoff Hne Hnu Hfiles Hreach) as [E _].
      rewrite E, <- Elater. exists hc, later. split; [reflexivity|]. split; [exact Erest | exact Hc].
Qed.

(* ------------------------------------------------------------------ Undo / Irreversible events in the file phase *)

Lemma fafter_world c : forall l p, exists m, fp_w (fafter c p l) = world_after c m (fp_w p).
Proof.
  induction l as [|e l IH]; intros p; [exists 0%nat; reflexivity|].
  unfold fafter. cbn [fold_left]. fold (fafter c (fnext c p e) l).
  destruct (IH (fnext c p e)) as [m Hm]. rewrite Hm.
  unfold fnext. destruct (fst (Joining.chain c e)).
  - destruct (pauses_after c (fp_count p + 1) (fp_ps p) (fp_w p)) as [m1 E1].
    destruct (apply_pauses c (fp_count p + 1) (fp_ps p) (fp_w p)) as [[ps' w'] evs]. cbn [fst snd] in E1. subst w'.
    cbn [fp_w]. exists (m1 + m)%nat. apply world_after_add.
  - cbn [fp_w]. exists m. reflexivity.
Qed.

Lemma sfold_pops cu j : forall l st, sfold (l ++ st) (map (C06_Spec.undo_event cu j) l) = Some st.
Proof.
  induction l as [|u l IH]; intros st; [reflexivity|].
  cbn [map app sfold]. unfold sapply. cbn [C06_Spec.undo_event estep eblk]. rewrite N.eqb_refl. apply IH.
Qed.

Section CursorRun.
  Variable U : list block.
  Variable c : jcfg.
  Variable canon : list block.
  Variable start : N.

  Hypothesis U_id : forall b, In b U -> bid b <> 0 /\ bid b <> bparent b.
  Hypothesis U_uniq : forall x y, In x U -> In y U -> bid x = bid y -> x = y.
  Hypothesis U_up : forall x y, In x U -> In y U -> bparent x = bid y -> bnum y < bnum x.
  Hypothesis D_decl : forall b, In b U -> decl_none U b.
  Hypothesis Hfilter : j_filter c = 0.
  Hypothesis Hstop : j_stop c = 0.
  Hypothesis Hcanon_U : Forall (fun x => In x U) canon.
  Hypothesis Hcanon_l : exists x, lnk x canon.
  Hypothesis Hcanon_start : exists b, In b canon /\ bnum b = start.
  Variable merged : list block.
  Hypothesis Hmode2 : (j_mode c =? 2) = false.
  Hypothesis Hmerged_U : forall b, In b merged -> In b U.

  (* the file phase over C06's output, consumer holding hc ++ hf *)
  Lemma cursor_file_phase fuel cu j hc hf I later w lowest ps :
    WOK U c w -> eventual_tip c w canon -> files_agree c w merged ->
    (exists x, lnk x (hc ++ later)) -> (forall b, In b (hc ++ later) -> In b merged) ->
    (forall z r, hc ++ later = z :: r -> bnum z <= start) ->
    let fevs := map (C06_Spec.undo_event cu j) (rev hf) ++ map (file_event SIrr) I ++ map fev later in
    let res := file_phase fuel c w lowest fevs JNil 0 ps [] in
    exists st, sfold (rev (hc ++ hf)) (fst res) = Some st /\
      (snd res = JNil -> rev st = hc ++ later \/ (later <> [] /\ from_num start (rev st) = from_num start canon)).
  Proof.
    intros HW Htip Hagr Hl Hin Hbot fevs res.
    set (pre := map (C06_Spec.undo_event cu j) (rev hf) ++ map (file_event SIrr) I).
    assert (Hpre : Forall (fun e => matches_new (estep e) = false \/ bnum (eblk e) < lowest) pre).
    { apply Forall_app. split; apply Forall_forall; intros e He; apply in_map_iff in He as (x & <- & _); left; reflexivity. }
    assert (Hns : no_stop c pre).
    { apply Forall_forall. intros e _. unfold stops. rewrite (chain_default c Hfilter Hstop). reflexivity. }
    destruct c07_join_only_on_first_delivery_proof as [_ Hpref].
    destruct (Hpref fuel c (mkFP w lowest 0 ps) pre (map fev later) JNil [] Hpre Hns) as (_ & Heq & _).
    unfold file_phase_at in Heq. cbn [fp_w fp_lowest fp_count fp_ps] in Heq.
    assert (Efevs : fevs = pre ++ map fev later) by (unfold fevs, pre; rewrite <- app_assoc; reflexivity).
    unfold res. rewrite Efevs, Heq. cbn [app].
    assert (Hdel : delivered c pre = map (C06_Spec.undo_event cu j) (rev hf)).
    { rewrite (delivered_nu c Hfilter Hstop). unfold pre. rewrite filter_app.
      rewrite (filter_all _ _ (map (C06_Spec.undo_event cu j) (rev hf))), (filter_none _ _ (map (file_event SIrr) I)), app_nil_r; [reflexivity| |].
      - apply Forall_forall. intros e He. apply in_map_iff in He as (x & <- & _). reflexivity.
      - apply Forall_forall. intros e He. apply in_map_iff in He as (x & <- & _). reflexivity. }
    rewrite Hdel.
    destruct (fafter_world c pre (mkFP w lowest 0 ps)) as [m Hm]. cbn [fp_w] in Hm. rewrite Hm.
    apply (file_run U c canon start U_id U_uniq U_up D_decl Hfilter Hstop Hcanon_U Hcanon_l Hcanon_start merged Hmode2 Hmerged_U
             fuel (rev (hc ++ hf)) later hc).
    - apply wok_after; assumption.
    - apply tip_after. exact Htip.
    - apply agree_after. exact Hagr.
    - rewrite rev_app_distr. apply sfold_pops.
    - exact Hl.
    - exact Hin.
    - exact Hbot.
  Qed.
End CursorRun.
