(* C07 composition, part 5: cursor mode out of the files.  C06's output (Proofs/C06_*.v) in one shape - Undo
   events for the pending forked blocks, Irreversible events, then the canonical blocks as new+irreversible -
   fed through the file phase (the Undo / Irreversible events never join: c07_join_only_on_first_delivery),
   then file_run of C07_ComposeRun.v from the consumer that holds hc. *)
From Coq Require Import Sorted.
From BV Require Import Base.Prelude Model.Block Model.ForkDB Model.Forkable Model.ForkableLookups Model.Burst Model.Hub
  Model.CursorResolver Model.Joining
  Spec.Consumer Spec.Universe Check.Fk_Check Check.Burst_Check Check.C07_Check
  Spec.C09_Spec Spec.C05_Spec Spec.C06_Spec Spec.C07_Spec Spec.C13_Spec Spec.C07_Compose_Spec
  Spec.C01_Spec Spec.C01_Moving_Spec Spec.C01_Roots_Spec
  Proofs.C06_Lists Proofs.C06_Proofs Proofs.C06_Forked Proofs.C06_Consumer Proofs.C13_Proofs
  Proofs.Fk.LoopFacts Proofs.Fk.MovingLibDisc Proofs.C02_Proofs Proofs.C01_Roots_Proofs
  Proofs.Hub.ConsFacts Proofs.Hub.HubFed Proofs.Hub.C09_History
  Proofs.C07_File Proofs.C07_Live
  Proofs.C07_ComposeStack Proofs.C07_ComposeHub Proofs.C07_ComposeRun Proofs.C07_Compose.
Local Open Scope N_scope.

(* ------------------------------------------------------------------ C06's output in one shape *)

Lemma last_app_ne {A} (l1 l2 : list A) d : l2 <> [] -> last (l1 ++ l2) d = last l2 d.
Proof.
  intros H. induction l1 as [|a l1 IH]; [reflexivity|].
  cbn [app]. rewrite <- IH. destruct (l1 ++ l2) eqn:E; [|reflexivity].
  apply app_eq_nil in E as [_ E]. contradiction.
Qed.

Lemma not_undo_matches s : s <> SUndo -> matches_undo s = false.
Proof. destruct s; intros H; try reflexivity. contradiction. Qed.

Lemma cursor_events merged forked cu stop bundle L rest' hc hf :
  setting merged cu stop bundle L rest' ->
  branch_from L (hc ++ hf) -> Forall (on_canon (L :: rest')) hc -> Forall (off_canon (L :: rest')) hf ->
  (cu_step cu <> SUndo -> bref (last (hc ++ hf) L) = cu_blk cu) ->
  (cu_step cu = SUndo -> exists X, bref X = cu_blk cu /\ branch_from L (hc ++ hf ++ [X]) /\
     ((on_canon (L :: rest') X /\ hf = []) \/ (off_canon (L :: rest') X /\ file_of forked cu (bid X) = Some X))) ->
  (forall x, In x hf -> file_of forked cu (bid x) = Some x) ->
  reached (L :: rest') cu ->
  exists I later,
    from_cursor_run merged forked cu stop bundle =
      (map (C06_Spec.undo_event cu (last hc L)) (rev hf) ++ map (file_event SIrr) I ++ map fev later, RsOk) /\
    rest' = hc ++ later /\ chain_ok (L :: hc ++ later).
Proof.
  intros Hset Hbr Hon Hoff Hnu Hu Hfiles Hreach.
  destruct (step_eqb (cu_step cu) SUndo) eqn:Es.
  - (* an Undo cursor *)
    assert (Est : cu_step cu = SUndo) by (destruct (cu_step cu); try discriminate; reflexivity).
    destruct (Hu Est) as (X & HX & HbrX & [[HXon ->]|[HXoff HXfile]]).
    + (* the undone block is on the chain *)
      rewrite app_nil_r in *. cbn [app] in HbrX.
      assert (Hbr' : branch_from L ((hc ++ [X]) ++ [])) by (rewrite app_nil_r; exact HbrX).
      assert (Hon' : Forall (on_canon (L :: rest')) (hc ++ [X])).
      { apply Forall_app. split; [exact Hon | constructor; [exact HXon | constructor]]. }
      destruct (setting_decompose _ _ _ _ _ _ _ _ Hset Hbr' Hon') as (later & Erest & Hc & _ & _).
      rewrite (c06_resume_undo_on_chain_proof merged forked cu stop bundle L rest' X Hset Est HXon HX).
      pose proof Hset as (_ & _ & HL). destruct (bref_eq _ _ HL) as [_ ELn]. destruct (bref_eq _ _ HX) as [_ EXn].
      rewrite <- ELn, <- EXn, Erest, <- (app_assoc hc [X] later). cbn [app].
      assert (Hc' : chain_ok (L :: hc ++ X :: later)) by (rewrite <- (app_assoc hc [X] later) in Hc; exact Hc).
      destruct (seg_filters_undo L hc X later (chain_ok_asc _ Hc')) as [E1 E2]. rewrite E1, E2.
      exists hc, (X :: later). cbn [rev map app]. split; [reflexivity|]. split; [reflexivity | exact Hc'].
    + (* the undone block is off the chain *)
      assert (Hoff' : Forall (off_canon (L :: rest')) (hf ++ [X])).
      { apply Forall_app. split; [exact Hoff | constructor; [exact HXoff | constructor]]. }
      assert (Hfiles' : forall x, In x (hf ++ [X]) -> file_of forked cu (bid x) = Some x).
      { intros x Hx. apply in_app_or in Hx as [Hx|[<-|[]]]; [apply Hfiles; exact Hx | exact HXfile]. }
      destruct (setting_decompose _ _ _ _ _ _ _ _ Hset HbrX Hon) as (later & Erest & Hc & Elater & _).
      destruct (c06_resume_forked_undo_proof merged forked cu stop bundle L rest' hc hf X Hset Est HbrX Hon Hoff' HX Hfiles' Hreach) as [E _].
      rewrite E, <- Elater. exists hc, later. split; [reflexivity|]. split; [exact Erest | exact Hc].
  - (* New / Irreversible / new+irreversible cursor *)
    assert (Est : cu_step cu <> SUndo) by (intros E; rewrite E in Es; discriminate).
    specialize (Hnu Est). destruct hf as [|f0 hf0].
    + (* on the chain *)
      rewrite app_nil_r in *.
      destruct (setting_decompose _ _ _ _ _ _ _ _ Hset (eq_ind_r (fun l => branch_from L l) Hbr (app_nil_r hc)) Hon)
        as (later & Erest & Hc & Elater & Ehc).
      assert (Hin : In (last hc L) (L :: rest')).
      { rewrite Erest. pose proof (last_in _ hc L) as H. destruct H as [H|H]; [left; exact H|].
        right. apply in_or_app. left. exact H. }
      rewrite (c06_resume_on_chain_proof merged forked cu stop bundle L rest' (last hc L) Hset (not_undo_matches _ Est) Hin Hnu).
      pose proof Hset as (_ & _ & HL). destruct (bref_eq _ _ HL) as [_ ELn]. destruct (bref_eq _ _ Hnu) as [_ EXn].
      rewrite <- ELn, <- EXn, <- Ehc, <- Elater.
      exists hc, later. cbn [rev map app]. split; [reflexivity|]. split; [exact Erest | exact Hc].
    + (* on a forked block *)
      assert (Hne : f0 :: hf0 <> []) by discriminate.
      rewrite (last_app_ne hc (f0 :: hf0) L Hne) in Hnu.
      destruct (setting_decompose _ _ _ _ _ _ _ _ Hset Hbr Hon) as (later & Erest & Hc & Elater & _).
      destruct (c06_resume_forked_proof merged forked cu stop bundle L rest' hc (f0 :: hf0) Hset Est Hbr Hon Hoff Hne Hnu Hfiles Hreach) as [E _].
      rewrite E, <- Elater. exists hc, later. split; [reflexivity|]. split; [exact Erest | exact Hc].
Qed.

(* ------------------------------------------------------------------ Undo / Irreversible events in the file phase *)

Lemma fafter_world c : forall l p, exists m, fp_w (fafter c p l) = world_after c m (fp_w p).
Proof.
  induction l as [|e l IH]; intros p; [exists 0%nat; reflexivity|].
  unfold fafter. cbn [fold_left]. fold (fafter c (fnext c p e) l).
  destruct (IH (fnext c p e)) as [m Hm]. rewrite Hm.
  unfold fnext. destruct (fst (Joining.chain c e)).
  - destruct (pauses_after c (fp_count p + 1) (fp_ps p) (fp_w p)) as [m1 E1].
    destruct (apply_pauses c (fp_count p + 1) (fp_ps p) (fp_w p)) as [[ps' w'] evs]. cbn [fst snd] in E1. subst w'.
    cbn [fp_w]. exists (m1 + m)%nat. apply world_after_add.
  - cbn [fp_w]. exists m. reflexivity.
Qed.

Lemma sfold_pops cu j : forall l st, sfold (l ++ st) (map (C06_Spec.undo_event cu j) l) = Some st.
Proof.
  induction l as [|u l IH]; intros st; [reflexivity|].
  cbn [map app sfold]. unfold sapply. cbn [C06_Spec.undo_event estep eblk]. rewrite N.eqb_refl. apply IH.
Qed.

Section CursorRun.
  Variable U : list block.
  Variable c : jcfg.
  Variable canon : list block.
  Variable start : N.

  Hypothesis U_id : forall b, In b U -> bid b <> 0 /\ bid b <> bparent b.
  Hypothesis U_uniq : forall x y, In x U -> In y U -> bid x = bid y -> x = y.
  Hypothesis U_up : forall x y, In x U -> In y U -> bparent x = bid y -> bnum y < bnum x.
  Hypothesis D_decl : forall b, In b U -> decl_none U b.
  Hypothesis Hfilter : j_filter c = 0.
  Hypothesis Hstop : j_stop c = 0.
  Hypothesis Hcanon_U : Forall (fun x => In x U) canon.
  Hypothesis Hcanon_l : exists x, lnk x canon.
  Hypothesis Hcanon_start : exists b, In b canon /\ bnum b <= start.
  Variable merged : list block.
  Hypothesis Hmode2 : (j_mode c =? 2) = false.
  Hypothesis Hmerged_U : forall b, In b merged -> In b U.

  (* the file phase over C06's output, consumer holding hc ++ hf *)
  Lemma cursor_file_phase fuel cu j hc hf I later w lowest ps :
    WOK U c w -> eventual_tip c w canon ->
    (exists x, lnk x (hc ++ later)) -> (forall b, In b (hc ++ later) -> In b merged) ->
    (forall z r, hc ++ later = z :: r -> bnum z <= start) ->
    let fevs := map (C06_Spec.undo_event cu j) (rev hf) ++ map (file_event SIrr) I ++ map fev later in
    let res := file_phase fuel c w lowest fevs JNil 0 ps [] in
    exists st, sfold (rev (hc ++ hf)) (fst res) = Some st /\
      (snd res = JNil -> rev st = hc ++ later \/ (later <> [] /\ from_num start (rev st) = from_num start canon)).
  Proof.
    intros HW Htip Hl Hin Hbot fevs res.
    set (pre := map (C06_Spec.undo_event cu j) (rev hf) ++ map (file_event SIrr) I).
    assert (Hpre : Forall (fun e => matches_new (estep e) = false \/ bnum (eblk e) < lowest) pre).
    { apply Forall_app. split; apply Forall_forall; intros e He; apply in_map_iff in He as (x & <- & _); left; reflexivity. }
    assert (Hns : no_stop c pre).
    { apply Forall_forall. intros e _. unfold stops. rewrite (chain_default c Hfilter Hstop). reflexivity. }
    destruct c07_join_only_on_first_delivery_proof as [_ Hpref].
    destruct (Hpref fuel c (mkFP w lowest 0 ps) pre (map fev later) JNil [] Hpre Hns) as (_ & Heq & _).
    unfold file_phase_at in Heq. cbn [fp_w fp_lowest fp_count fp_ps] in Heq.
    assert (Efevs : fevs = pre ++ map fev later) by (unfold fevs, pre; rewrite <- app_assoc; reflexivity).
    unfold res. rewrite Efevs, Heq. cbn [app].
    assert (Hdel : delivered c pre = map (C06_Spec.undo_event cu j) (rev hf)).
    { rewrite (delivered_nu c Hfilter Hstop). unfold pre. rewrite filter_app.
      rewrite (filter_all _ _ (map (C06_Spec.undo_event cu j) (rev hf))), (filter_none _ _ (map (file_event SIrr) I)), app_nil_r; [reflexivity| |].
      - apply Forall_forall. intros e He. apply in_map_iff in He as (x & <- & _). reflexivity.
      - apply Forall_forall. intros e He. apply in_map_iff in He as (x & <- & _). reflexivity. }
    rewrite Hdel.
    destruct (fafter_world c pre (mkFP w lowest 0 ps)) as [m Hm]. cbn [fp_w] in Hm. rewrite Hm.
    apply (file_run U c canon start U_id U_uniq U_up D_decl Hfilter Hstop Hcanon_U Hcanon_l Hcanon_start merged Hmerged_U
             fuel (rev (hc ++ hf)) JNil later hc).
    - apply wok_after; assumption.
    - apply tip_after. exact Htip.
    - apply joins_after. apply id_joins; [exact U_id | exact U_uniq | exact U_up | exact Hmerged_U | exact Hmode2].
    - rewrite rev_app_distr. apply sfold_pops.
    - exact Hl.
    - exact Hin.
    - exact Hbot.
  Qed.
End CursorRun.

(* ------------------------------------------------------------------ lists *)

Lemma filter_comm {A} (p q : A -> bool) : forall l, filter p (filter q l) = filter q (filter p l).
Proof.
  induction l as [|x l IH]; [reflexivity|]. cbn [filter].
  destruct (p x) eqn:Ep, (q x) eqn:Eq; cbn [filter]; rewrite ?Ep, ?Eq, IH; reflexivity.
Qed.

Lemma asc_filter p : forall l, asc l -> asc (filter p l).
Proof.
  induction l as [|x l IH]; intros H; [exact I|]. destruct H as [H1 H2]. cbn [filter].
  destruct (p x); [|apply IH; exact H2]. split; [|apply IH; exact H2].
  apply Forall_forall. intros y Hy. apply filter_In in Hy as [Hy _]. rewrite Forall_forall in H1. apply H1. exact Hy.
Qed.

(* what follows L on the chain *)
Lemma above_of_from_num canon n L rest : asc canon -> from_num n canon = L :: rest -> bnum L = n ->
  above n canon = rest.
Proof.
  intros Hasc Hf HL.
  assert (E : above n canon = above n (from_num n canon)).
  { unfold above, from_num. rewrite filter_comm. symmetry. apply filter_all. apply Forall_forall. intros x Hx.
    apply filter_In in Hx as [_ Hx]. apply N.ltb_lt in Hx. apply N.leb_le. lia. }
  rewrite E, Hf. pose proof (asc_filter (fun b => n <=? bnum b) canon Hasc) as Ha. fold (from_num n canon) in Ha. rewrite Hf in Ha.
  destruct Ha as [Hall _]. unfold above. cbn [filter]. rewrite HL, N.ltb_irrefl.
  apply filter_all. eapply Forall_impl; [|exact Hall]. cbn beta. intros y Hy. apply N.ltb_lt. lia.
Qed.

Lemma from_num_first canon n L r1 rest1 : asc canon -> from_num n canon = L :: r1 :: rest1 ->
  from_num (bnum r1) canon = r1 :: rest1.
Proof.
  intros Hasc Hf.
  pose proof (asc_filter (fun b => n <=? bnum b) canon Hasc) as Ha. fold (from_num n canon) in Ha. rewrite Hf in Ha.
  destruct Ha as [HL [Hr1 _]]. pose proof (Forall_inv HL) as HLr. cbn beta in HLr.
  assert (Hn : n <= bnum L).
  { assert (H : In L (from_num n canon)) by (rewrite Hf; left; reflexivity).
    unfold from_num in H. apply filter_In in H as [_ H]. apply N.leb_le. exact H. }
  assert (E : from_num (bnum r1) canon = from_num (bnum r1) (from_num n canon)).
  { unfold from_num. rewrite filter_comm. symmetry. apply filter_all. apply Forall_forall. intros x Hx.
    apply filter_In in Hx as [_ Hx]. apply N.leb_le in Hx. apply N.leb_le. lia. }
  rewrite E, Hf. unfold from_num. cbn [filter].
  replace (bnum r1 <=? bnum L) with false by (symmetry; apply N.leb_gt; exact HLr).
  rewrite N.leb_refl. f_equal. apply filter_all. eapply Forall_impl; [|exact Hr1]. cbn beta. intros y Hy. apply N.leb_le. lia.
Qed.

(* ------------------------------------------------------------------ the theorem *)

Lemma c07_seamless_cursor_files_proof : C07_seamless_cursor_files.
Proof.
  intros U c w ps merged_end canon forked cu L rest hc hf Hwfb Hlok [[l [Hl Hhub]] Hrest] Hchain Hincl merged Htip
         Hmode Hcur Hfilter Hstop Hbundle Hbound Hnoserve Hfrom HL (Hbr & Hon & Hoff & Hnu & Hu & Hfiles) res.
  assert (Hscope : disc_scope2_b U = true) by (unfold disc_scope2_b; rewrite Hwfb, Hlok; reflexivity).
  pose proof (bridge_id U Hwfb) as Hid. pose proof (bridge_uniq U Hwfb) as Huniq. pose proof (bridge_up U Hwfb) as Hup.
  pose proof (bridge2_decl_none U Hscope) as Hdecl.
  assert (HW : WOK U c w).
  { split; [|exact Hrest]. rewrite Hhub. apply (hub_ok_run U (j_first c) (j_kept c) Hwfb Hlok l Hl). }
  assert (HcU : Forall (fun x => In x U) canon) by (apply Forall_forall; exact Hincl).
  pose proof (lnk_of_chain_ok canon Hchain) as Hcl.
  pose proof (chain_ok_asc canon Hchain) as Hasc.
  pose proof (merged_chain_ok canon merged_end Hchain) as Hmok. fold merged in Hmok.
  assert (HmU : forall b, In b merged -> In b U).
  { intros b Hb. apply Hincl. unfold merged in Hb. apply filter_In in Hb as [Hb _]. exact Hb. }
  destruct (bref_eq _ _ HL) as [_ ELn].
  set (lib := rn (cu_lib cu)) in *.
  pose proof (above_of_from_num canon lib L rest Hasc Hfrom ELn) as Habove.
  assert (HLc : In L canon).
  { assert (H : In L (from_num lib canon)) by (rewrite Hfrom; left; reflexivity). unfold from_num in H. apply filter_In in H as [H _]. exact H. }
  assert (Hrestc : forall x, In x rest -> In x canon).
  { intros x Hx. assert (H : In x (from_num lib canon)) by (rewrite Hfrom; right; exact Hx). unfold from_num in H. apply filter_In in H as [H _]. exact H. }
  (* the start block of the section lemmas: the first block after L *)
  set (start := match rest with r1 :: _ => bnum r1 | [] => bnum L end).
  assert (Hstartblk : exists b, In b canon /\ bnum b <= start).
  { unfold start. destruct rest as [|r1 rest1]; [exists L; split; [exact HLc | lia] | exists r1; split; [apply Hrestc; left; reflexivity | lia]]. }
  assert (Hmode2 : (j_mode c =? 2) = false) by (rewrite Hmode; reflexivity).
  set (J0 := rev (hc ++ hf)).
  set (D := file_delivery merged lib file_bound (j_bundle c)).
  assert (HD : D = filter (fun b => bnum b <? merged_end) (L :: rest)).
  { unfold D. rewrite (delivery_all merged lib (j_bundle c) Hbundle Hbound). unfold merged, from_num.
    rewrite filter_comm. fold (from_num lib canon). rewrite Hfrom. reflexivity. }
  (* the file branch *)
  assert (Hfile : forall fuel lowest,
            let X := (let '(fevs, r) := from_cursor_run merged forked cu file_bound (j_bundle c) in
                      file_phase fuel c w lowest fevs
                        (match r with RsOk => JNil | RsResolveErr => JInvalidArg | RsNotImplemented => JOther | RsFuel => JFuel end)
                        0 ps []) in
            exists st, sfold J0 (fst X) = Some st /\
              (snd X = JNil -> fst X = [] \/ rev st = above lib merged \/
                 exists r1 rest1, rest = r1 :: rest1 /\ from_num (bnum r1) (rev st) = rest)).
  { intros fuel lowest.
    assert (Hnothing : from_cursor_run merged forked cu file_bound (j_bundle c) = ([], RsOk) ->
              let X := (let '(fevs, r) := from_cursor_run merged forked cu file_bound (j_bundle c) in
                        file_phase fuel c w lowest fevs
                          (match r with RsOk => JNil | RsResolveErr => JInvalidArg | RsNotImplemented => JOther | RsFuel => JFuel end)
                          0 ps []) in
              exists st, sfold J0 (fst X) = Some st /\
                (snd X = JNil -> fst X = [] \/ rev st = above lib merged \/
                   exists r1 rest1, rest = r1 :: rest1 /\ from_num (bnum r1) (rev st) = rest)).
    { intros E. rewrite E. cbn [file_phase fst snd]. exists J0. split; [reflexivity|]. intros _. left. reflexivity. }
    destruct (bnum L <? merged_end) eqn:ELm.
    2:{ (* the cursor LIB block is not in the files yet *)
      apply Hnothing. unfold from_cursor_run. fold lib. fold D. rewrite HD. cbn [filter]. rewrite ELm.
      rewrite (filter_none _ _ rest); [reflexivity|].
      pose proof (asc_filter (fun b => lib <=? bnum b) canon Hasc) as Ha. fold (from_num lib canon) in Ha. rewrite Hfrom in Ha.
      destruct Ha as [Hall _]. apply N.ltb_ge in ELm. eapply Forall_impl; [|exact Hall]. cbn beta. intros y Hy. apply N.ltb_ge. lia. }
    set (rest' := filter (fun b => bnum b <? merged_end) rest).
    assert (HD' : D = L :: rest') by (rewrite HD; cbn [filter]; rewrite ELm; reflexivity).
    assert (Hset : setting merged cu file_bound (j_bundle c) L rest').
    { split; [exact Hmok|]. split; [exact HD' | exact HL]. }
    assert (HDc : forall x, In x (L :: rest') -> In x canon /\ bnum x < merged_end).
    { intros x Hx. rewrite <- HD', HD in Hx. apply filter_In in Hx as [Hx Hlt]. apply N.ltb_lt in Hlt. split; [|exact Hlt].
      destruct Hx as [<-|Hx]; [exact HLc | apply Hrestc; exact Hx]. }
    assert (HinD : forall x, In x canon -> lib <= bnum x -> bnum x < merged_end -> In x (L :: rest')).
    { intros x Hx H1 H2. rewrite <- HD', HD. apply filter_In. split; [|apply N.ltb_lt; exact H2].
      rewrite <- Hfrom. unfold from_num. apply filter_In. split; [exact Hx | apply N.leb_le; exact H1]. }
    destruct (existsb (fun b => rn (cu_blk cu) <=? bnum b) (L :: rest')) eqn:Ereach.
    2:{ (* the files do not reach the cursor block *)
      apply Hnothing. apply (c06_not_reached_proof merged forked cu file_bound (j_bundle c) L rest' Hset).
      intros (b & Hb & Hge). assert (H : existsb (fun b => rn (cu_blk cu) <=? bnum b) (L :: rest') = true).
      { apply existsb_exists. exists b. split; [exact Hb | apply N.leb_le; exact Hge]. }
      rewrite H in Ereach. discriminate. }
    apply existsb_exists in Ereach as (br & Hbr_in & Hbr_ge). apply N.leb_le in Hbr_ge.
    assert (Hreach : reached (L :: rest') cu) by (exists br; auto).
    destruct (HDc br Hbr_in) as [_ Hbr_lt].
    (* the consumer's blocks against the delivered chain *)
    assert (Hoff' : forall x, off_canon canon x -> off_canon (L :: rest') x).
    { intros x Hx Hin. apply Hx. unfold ids in *. apply in_map_iff in Hin as (y & Ey & Hy). apply in_map_iff.
      exists y. split; [exact Ey | apply HDc; exact Hy]. }
    (* every held block is numbered at most like the cursor block *)
    assert (Hle : forall top, branch_from L ((hc ++ hf) ++ top) -> bnum (last ((hc ++ hf) ++ top) L) = rn (cu_blk cu) ->
                  forall x, In x (hc ++ hf) -> lib < bnum x /\ bnum x <= rn (cu_blk cu)).
    { intros top Hb Hlast x Hx. pose proof (branch_asc _ _ Hb) as Ha. pose proof (asc_last_max _ _ Ha) as Hmax.
      rewrite Forall_forall in Hmax. rewrite <- Hlast. split.
      - destruct Ha as [Hall _]. rewrite Forall_forall in Hall. rewrite <- ELn. apply Hall. apply in_or_app. left. exact Hx.
      - apply Hmax. right. apply in_or_app. left. exact Hx. }
    assert (Hheld : forall x, In x (hc ++ hf) -> lib < bnum x /\ bnum x <= rn (cu_blk cu)).
    { destruct (step_eqb (cu_step cu) SUndo) eqn:Es.
      - assert (Est : cu_step cu = SUndo) by (destruct (cu_step cu); try discriminate; reflexivity).
        destruct (Hu Est) as (X & HX & HbrX & _). destruct (bref_eq _ _ HX) as [_ EX].
        apply (Hle [X]); [rewrite <- app_assoc; exact HbrX|]. rewrite last_app_one. exact EX.
      - assert (Est : cu_step cu <> SUndo) by (intros E; rewrite E in Es; discriminate).
        destruct (bref_eq _ _ (Hnu Est)) as [_ EX].
        apply (Hle []); rewrite app_nil_r; [exact Hbr | exact EX]. }
    assert (Hon' : Forall (on_canon (L :: rest')) hc).
    { apply Forall_forall. intros x Hx. rewrite Forall_forall in Hon. destruct (Hheld x (in_or_app _ _ _ (or_introl Hx))) as [H1 H2].
      apply HinD; [apply Hon; exact Hx | lia | lia]. }
    assert (Hoffhf : Forall (off_canon (L :: rest')) hf).
    { eapply Forall_impl; [|exact Hoff]. exact Hoff'. }
    assert (Hu' : cu_step cu = SUndo -> exists X, bref X = cu_blk cu /\ branch_from L (hc ++ hf ++ [X]) /\
              ((on_canon (L :: rest') X /\ hf = []) \/ (off_canon (L :: rest') X /\ file_of forked cu (bid X) = Some X))).
    { intros Est. destruct (Hu Est) as (X & HX & HbrX & HXc). exists X. split; [exact HX|]. split; [exact HbrX|].
      destruct HXc as [[HXon Hhf]|[HXoff HXf]]; [left | right; split; [apply Hoff'; exact HXoff | exact HXf]].
      split; [|exact Hhf]. destruct (bref_eq _ _ HX) as [_ EX].
      pose proof (branch_lt _ _ HbrX) as Hlt. rewrite Forall_forall in Hlt.
      assert (HLX : bnum L < bnum X) by (apply Hlt; apply in_or_app; right; apply in_or_app; right; left; reflexivity).
      apply HinD; [exact HXon | lia | lia]. }
    destruct (cursor_events merged forked cu file_bound (j_bundle c) L rest' hc hf Hset Hbr Hon' Hoffhf Hnu Hu' Hfiles Hreach)
      as (I & later & Erun & Erest' & Hc').
    rewrite Erun.
    assert (Hlk : exists x, lnk x (hc ++ later)).
    { destruct (lnk_of_chain_ok _ Hc') as [x Hx]. cbn [lnk] in Hx. exists (bid L). apply Hx. }
    assert (Hinm : forall b, In b (hc ++ later) -> In b merged).
    { intros b Hb. rewrite <- Erest' in Hb. destruct (HDc b (or_intror Hb)) as [H1 H2].
      unfold merged. apply filter_In. split; [exact H1 | apply N.ltb_lt; exact H2]. }
    assert (Hbot : forall z r, hc ++ later = z :: r -> bnum z <= start).
    { intros z r Ez. rewrite <- Erest' in Ez. unfold rest', start in *. destruct rest as [|r1 rest1]; [discriminate|].
      cbn [filter] in Ez. destruct (bnum r1 <? merged_end) eqn:E1; [injection Ez as <- _; lia|].
      exfalso. pose proof (asc_filter (fun b => lib <=? bnum b) canon Hasc) as Ha. fold (from_num lib canon) in Ha. rewrite Hfrom in Ha.
      destruct Ha as [_ [Hall _]]. apply N.ltb_ge in E1.
      assert (Hz : In z (filter (fun b => bnum b <? merged_end) rest1)) by (rewrite Ez; left; reflexivity).
      apply filter_In in Hz as [Hz1 Hz2]. apply N.ltb_lt in Hz2. rewrite Forall_forall in Hall. specialize (Hall z Hz1). lia. }
    destruct (cursor_file_phase U c canon start Hid Huniq Hup Hdecl Hfilter Hstop HcU Hcl Hstartblk merged Hmode2 HmU
                fuel cu (last hc L) hc hf I later w lowest ps HW Htip Hlk Hinm Hbot) as (st & Hst & Hfin).
    exists st. split; [exact Hst|]. intros Hn. right. destruct (Hfin Hn) as [H|[Hne H]].
    - left. rewrite H, <- Erest'. unfold rest'. rewrite <- Habove. unfold above, merged. apply filter_comm.
    - right. destruct rest as [|r1 rest1].
      + exfalso. unfold rest' in Erest'. cbn [filter] in Erest'. symmetry in Erest'. apply app_eq_nil in Erest' as [_ E]. contradiction.
      + exists r1, rest1. split; [reflexivity|]. unfold start in H. rewrite H. exact (from_num_first canon lib L r1 rest1 Hasc Hfrom). }
  (* Stream.Run *)
  assert (Hrun : exists st, sfold J0 (fst res) = Some st /\
            (snd res = JNil -> fst res = [] \/ rev st = above lib merged \/
               exists r1 rest1, rest = r1 :: rest1 /\ from_num (bnum r1) (rev st) = rest)).
  { unfold res, stream_run. cbv zeta. rewrite (file_end_nostop c merged_end Hstop), Hstop, Hfilter, Hmode, Hcur. cbn [N.eqb negb andb].
    unfold live_try. rewrite Hmode, Hcur. cbn [N.eqb].
    assert (Hfuelout : exists st, sfold J0 (fst (@nil event, JFuel)) = Some st /\
              (snd (@nil event, JFuel) = JNil -> fst (@nil event, JFuel) = [] \/ rev st = above lib merged \/
                 exists r1 rest1, rest = r1 :: rest1 /\ from_num (bnum r1) (rev st) = rest)).
    { exists J0. split; [reflexivity | discriminate]. }
    destruct (h_ready (w_hub w)) eqn:Hrd; cbn [negb].
    - destruct (blocks_from_cursor (h_f (w_hub w)) cu) as [evs| | |] eqn:Eb.
      + exfalso. exact (Hnoserve eq_refl evs eq_refl).
      + apply Hfile.
      + exact Hfuelout.
      + exact Hfuelout.
    - apply Hfile. }
  destruct Hrun as (st & Hst & Hfin).
  assert (Hnu' : Forall (fun e => nu_ev e = true) (fst res)).
  { destruct (c13_stream_output_proof c w ps merged_end merged forked (fst res) (snd res)) as [Hp _].
    - apply surjective_pairing.
    - eapply Forall_impl; [|exact Hp]. cbn beta. intros e He. rewrite <- (passes_nu c e Hfilter). exact He. }
  exists (mkCons st 0 false). split.
  - fold J0. rewrite (sfold_cons_aside false (fst res) J0 Hnu'), Hst. reflexivity.
  - cbn [cs_stack]. exact Hfin.
Qed.
