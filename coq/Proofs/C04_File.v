(* C04 on the file source resuming from a cursor (Model/CursorResolver.v): the shape of the resolver's output
   (undo events with the cursor's LIB and head, then final blocks that are their own head and LIB, LIB heights
   never decreasing) for every canonical chain with non-decreasing numbers, and acceptance by the checker of
   Check/C04_More.c04_file_verdict. *)
From Coq Require Import Sorted.
From BV Require Import Base.Prelude Model.Block Model.ForkDB Model.Forkable Model.Burst Model.CursorResolver
  Spec.Consumer Spec.Universe Check.Fk_Check Check.Burst_Check Check.C06_Check Check.C04_More
  Spec.C09_Spec Spec.C05_Spec Spec.C05_Through_Spec Spec.C04_Burst_Spec.
Local Open Scope N_scope.

Lemma ref_eqb_refl : forall r, ref_eqb r r = true.
Proof. intros r. unfold ref_eqb. rewrite !N.eqb_refl. reflexivity. Qed.

Definition nle (a b : block) : Prop := bnum a <= bnum b.
Definition lle (a b : event) : Prop := rn (elib a) <= rn (elib b).

(* ---------------------------------------------------------------- sorted lists *)

Lemma ss_app_inv {A} (R : A -> A -> Prop) l1 l2 : StronglySorted R (l1 ++ l2) ->
  StronglySorted R l1 /\ StronglySorted R l2 /\ (forall a b, In a l1 -> In b l2 -> R a b).
Proof.
  induction l1 as [|x l1 IH]; cbn [app]; intros H.
  - split; [constructor|]. split; [exact H|]. intros a b [].
  - inversion H as [|? ? H1 H2]; subst. destruct (IH H1) as (I1 & I2 & I3).
    rewrite Forall_forall in H2. split.
    + constructor; [exact I1|]. apply Forall_forall. intros y Hy. apply H2. apply in_or_app. left. exact Hy.
    + split; [exact I2|]. intros a b [<-|Ha] Hb; [apply H2; apply in_or_app; right; exact Hb | apply I3; assumption].
Qed.

Lemma ss_app {A} (R : A -> A -> Prop) l1 l2 : StronglySorted R l1 -> StronglySorted R l2 ->
  (forall a b, In a l1 -> In b l2 -> R a b) -> StronglySorted R (l1 ++ l2).
Proof.
  induction l1 as [|x l1 IH]; cbn [app]; intros H1 H2 H3; [exact H2|].
  inversion H1 as [|? ? H1a H1b]; subst. constructor.
  - apply IH; [exact H1a | exact H2|]. intros a b Ha Hb. apply H3; [right; exact Ha | exact Hb].
  - apply Forall_app. split; [exact H1b|]. apply Forall_forall. intros y Hy. apply H3; [left; reflexivity | exact Hy].
Qed.

Lemma ss_filter {A} (R : A -> A -> Prop) (p : A -> bool) l : StronglySorted R l -> StronglySorted R (filter p l).
Proof.
  induction 1 as [|x l H IH Hx]; [constructor|]. cbn [filter]. destruct (p x); [|exact IH].
  constructor; [exact IH|]. rewrite Forall_forall in *. intros y Hy. apply filter_In in Hy. apply Hx. tauto.
Qed.

Lemma ss_map {A B} (R : A -> A -> Prop) (Q : B -> B -> Prop) (f : A -> B) l :
  (forall a b, In a l -> In b l -> R a b -> Q (f a) (f b)) -> StronglySorted R l -> StronglySorted Q (map f l).
Proof.
  intros HRQ H. induction H as [|x l H IH Hx]; [constructor|]. cbn [map]. constructor.
  - apply IH. intros a b Ha Hb. apply HRQ; right; assumption.
  - rewrite Forall_forall in *. intros y Hy. apply in_map_iff in Hy as (z & <- & Hz).
    apply HRQ; [left; reflexivity | right; exact Hz | apply Hx; exact Hz].
Qed.

(* ---------------------------------------------------------------- the walk of the checker *)

Lemma file_walk_undos chead c jr : forall undos last p k,
  Forall (file_undo c jr) undos -> cu_head c = chead ->
  (last = None \/ last = Some (cu_lib c)) -> p <= rn (cu_lib c) ->
  file_walk chead last p (undos ++ k) =
  file_walk chead last (match undos with [] => p | _ => rn (cu_lib c) end) k.
Proof.
  induction undos as [|e undos IH]; intros last p k HU Hh Hl Hp; [reflexivity|].
  inversion HU as [|? ? (Hs & Hb & Hhd & Hlib & _) HU']; subst. cbn [app file_walk].
  rewrite Hs, Hb, Hhd, Hlib, !ref_eqb_refl. cbn [andb].
  replace (p <=? rn (cu_lib c)) with true by (symmetry; apply N.leb_le; exact Hp).
  replace (match last with Some r => ref_eqb (cu_lib c) r | None => true end) with true
    by (destruct Hl as [->| ->]; [reflexivity | symmetry; apply ref_eqb_refl]).
  cbn [andb]. rewrite (IH last (rn (cu_lib c)) k HU' eq_refl Hl (N.le_refl _)).
  destruct undos; reflexivity.
Qed.

Lemma file_walk_files chead : forall files last p,
  Forall file_final files -> StronglySorted lle files -> (forall e, In e files -> p <= rn (elib e)) ->
  file_walk chead last p files = true.
Proof.
  induction files as [|e files IH]; intros last p HF HS Hp; [reflexivity|].
  inversion HF as [|? ? (Hs & Hb & Hhd & Hlib & _) HF']; subst. inversion HS as [|? ? HS' Hall]; subst.
  cbn [file_walk]. rewrite Hb, Hhd, Hlib, !ref_eqb_refl. cbn [andb].
  replace (p <=? rn (bref (eblk e))) with true
    by (symmetry; apply N.leb_le; rewrite <- Hlib; apply Hp; left; reflexivity).
  cbn [andb]. rewrite Forall_forall in Hall.
  assert (IH' : file_walk chead (Some (bref (eblk e))) (rn (bref (eblk e))) files = true).
  { apply IH; [exact HF' | exact HS'|]. intros y Hy. specialize (Hall y Hy). unfold lle in Hall. rewrite Hlib in Hall. exact Hall. }
  destruct Hs as [-> | ->]; exact IH'.
Qed.

(* ---------------------------------------------------------------- the resolver's output *)

Lemma file_event_final st b : st = SIrr \/ st = SNewIrr -> file_final (file_event st b).
Proof. intros H. unfold file_final, file_event. cbn. auto. Qed.

(* what a stretch of final-block events is, relative to the blocks `D` they are taken from *)
Definition finals_in (D : list block) (lo : N) (fs : list event) : Prop :=
  Forall file_final fs /\ Forall (fun e => In (eblk e) D /\ lo <= bnum (eblk e)) fs /\
  StronglySorted (fun a b => bnum (eblk a) <= bnum (eblk b)) fs.

Lemma finals_in_nil D lo : finals_in D lo [].
Proof. split; [constructor|]. split; constructor. Qed.

Lemma send_between_finals st seen lo hi D lo' :
  st = SIrr \/ st = SNewIrr -> StronglySorted nle seen -> (forall b, In b seen -> In b D) -> lo' <= lo + 1 ->
  finals_in D lo' (send_between st seen lo hi).
Proof.
  intros Hst HS HD Hlo. unfold send_between. split; [|split].
  - apply Forall_forall. intros e He. apply in_map_iff in He as (b & <- & _). apply file_event_final. exact Hst.
  - apply Forall_forall. intros e He. apply in_map_iff in He as (b & <- & Hb). apply filter_In in Hb as [Hb Hf].
    cbn [file_event eblk]. split; [apply HD; exact Hb|].
    apply andb_true_iff in Hf as [Hf _]. apply N.ltb_lt in Hf. lia.
  - apply (ss_map nle); [|apply ss_filter; exact HS]. intros a b _ _ H. exact H.
Qed.

Lemma finals_in_app D lo f1 f2 : finals_in D lo f1 -> finals_in D lo f2 ->
  (forall a b, In a f1 -> In b f2 -> bnum (eblk a) <= bnum (eblk b)) -> finals_in D lo (f1 ++ f2).
Proof.
  intros (A1 & A2 & A3) (B1 & B2 & B3) H. split; [apply Forall_app; auto|]. split; [apply Forall_app; auto|].
  apply ss_app; assumption.
Qed.

Lemma finals_in_weaken D D' lo lo' fs : finals_in D lo fs -> (forall b, In b D -> In b D') -> lo' <= lo -> finals_in D' lo' fs.
Proof.
  intros (A1 & A2 & A3) HD Hlo. split; [exact A1|]. split; [|exact A3].
  eapply Forall_impl; [|exact A2]. cbn beta. intros e [H1 H2]. split; [apply HD; exact H1 | lia].
Qed.

Lemma send_between_le st seen lo hi e : In e (send_between st seen lo hi) -> In (eblk e) seen /\ lo < bnum (eblk e) /\ bnum (eblk e) <= hi.
Proof.
  unfold send_between. intros He. apply in_map_iff in He as (b & <- & Hb). apply filter_In in Hb as [Hb Hf].
  apply andb_true_iff in Hf as [H1 H2]. apply N.ltb_lt in H1. apply N.leb_le in H2. cbn [file_event eblk]. auto.
Qed.

Lemma lookup_blk_in id l b : lookup_blk id l = Some b -> In b l.
Proof.
  induction l as [|x l IH]; cbn [lookup_blk]; [discriminate|]. destruct (bid x =? id); [intros [= ->]; left; reflexivity|].
  intros H. right. apply IH. exact H.
Qed.

Lemma resolve_walk_junction c seen forked : forall fuel prev undos u j,
  resolve_walk fuel c seen forked prev undos = Some (Some (u, j)) -> In j seen.
Proof.
  induction fuel as [|f IH]; intros prev undos u j; cbn [resolve_walk]; [discriminate|].
  destruct (lookup_blk prev seen) as [j0|] eqn:E.
  - intros [= _ <-]. eapply lookup_blk_in. exact E.
  - destruct (lookup_blk prev forked) as [fb|]; [|discriminate].
    destruct (bnum fb <? rn (cu_lib c)); [discriminate|]. apply IH.
Qed.

Section Run.
  Variables (c : cursor) (pass : bool) (forked : list block).

  (* resolved: everything is passed on *)
  Lemma run_resolved : forall l s, r_resolved s = true ->
    resolver_run c pass forked s l = (map (file_event SNewIrr) l, RsOk).
  Proof.
    induction l as [|b l IH]; intros s Hr; [reflexivity|]. cbn [resolver_run]. unfold resolver_step. rewrite Hr.
    rewrite (IH s Hr). reflexivity.
  Qed.

  Lemma map_finals D lo l : StronglySorted nle l -> (forall b, In b l -> In b D /\ lo <= bnum b) ->
    finals_in D lo (map (file_event SNewIrr) l).
  Proof.
    intros HS HD. split; [|split].
    - apply Forall_forall. intros e He. apply in_map_iff in He as (b & <- & _). apply file_event_final. auto.
    - apply Forall_forall. intros e He. apply in_map_iff in He as (b & <- & Hb). cbn [file_event eblk]. apply HD. exact Hb.
    - apply (ss_map nle); [|exact HS]. intros a b _ _ H. exact H.
  Qed.

  (* the output: undo events (only when resuming FROM a cursor), then final blocks in non-decreasing number *)
  Definition out_shape (D : list block) (lo : N) (evs : list event) : Prop :=
    exists undos files jr,
      evs = undos ++ files /\ Forall (file_undo c jr) undos /\ (pass = true -> undos = []) /\
      (undos <> [] -> exists j, In j D /\ jr = bref j) /\
      finals_in D lo files.

  Lemma out_files D lo files : finals_in D lo files -> out_shape D lo files.
  Proof.
    intros H. exists [], files, ref_empty. split; [reflexivity|]. split; [constructor|]. split; [reflexivity|].
    split; [congruence|exact H].
  Qed.

  Lemma out_shape_weaken D D' lo lo' evs : out_shape D lo evs -> (forall b, In b D -> In b D') -> lo' <= lo -> out_shape D' lo' evs.
  Proof.
    intros (undos & files & jr & E & HU & Hp & Hj & HF) HD Hlo. exists undos, files, jr.
    split; [exact E|]. split; [exact HU|]. split; [exact Hp|]. split.
    - intros Hne. destruct (Hj Hne) as (j & Hjin & Ej). exists j. split; [apply HD; exact Hjin | exact Ej].
    - eapply finals_in_weaken; eassumption.
  Qed.

  (* one step from an unresolved state *)
  Lemma step_cases s b s' evs r :
    r_resolved s = false -> StronglySorted nle (r_seen s ++ [b]) ->
    resolver_step c pass forked s b = (s', evs, r) ->
    (r = RsOk /\ r_resolved s' = false /\
       ((evs = [] /\ r_seen s' = r_seen s ++ [b] /\ (pass = true -> rn (cu_lib c) < bnum b)) \/
        (pass = true /\ evs = [file_event SNewIrr b] /\ r_seen s' = r_seen s /\ bnum b <= rn (cu_lib c)))) \/
    (r = RsOk /\ r_resolved s' = true /\ out_shape (r_seen s ++ [b]) 0 evs) \/
    (r <> RsOk /\ evs = []).
  Proof.
    intros Hr HS. unfold resolver_step. rewrite Hr.
    assert (Hsub : forall x, In x (r_seen s ++ [b]) -> In x (r_seen s ++ [b])) by auto.
    assert (Hb_in : In b (r_seen s ++ [b])) by (apply in_or_app; right; left; reflexivity).
    destruct (pass && (bnum b <=? rn (cu_lib c))) eqn:E1.
    { apply andb_true_iff in E1 as [Ep E1]. apply N.leb_le in E1. intros [= <- <- <-].
      destruct (bid b =? ri (cu_blk c)) eqn:E2.
      - right. left. split; [reflexivity|]. split; [reflexivity|]. apply out_files.
        apply (map_finals _ 0 [b]); [constructor; constructor|]. intros x [<-|[]]. split; [exact Hb_in | lia].
      - left. split; [reflexivity|]. split; [reflexivity|]. right. auto. }
    assert (Hpb : pass = true -> rn (cu_lib c) < bnum b).
    { intros Ep. rewrite Ep in E1. cbn [andb] in E1. apply N.leb_gt in E1. exact E1. }
    destruct (bnum b <? rn (cu_blk c)) eqn:E2.
    { intros [= <- <- <-]. left. split; [reflexivity|]. split; [reflexivity|]. left. auto. }
    destruct (bid b =? ri (cu_blk c)) eqn:E3.
    { destruct pass eqn:Ep.
      - intros [= <- <- <-]. right. left. split; [reflexivity|]. split; [reflexivity|]. apply out_files.
        apply send_between_finals; auto. lia.
      - destruct (matches_undo (cu_step c)).
        + intros [= <- <- <-]. right. left. split; [reflexivity|]. split; [reflexivity|]. apply out_files.
          apply finals_in_app.
          * destruct (0 <? rn (cu_blk c)); [apply send_between_finals; auto; lia | apply finals_in_nil].
          * apply (map_finals _ 0 [b]); [constructor; constructor|]. intros x [<-|[]]. split; [exact Hb_in | lia].
          * intros x y Hx [<-|[]]. cbn [file_event eblk].
            destruct (0 <? rn (cu_blk c)); [|destruct Hx]. apply send_between_le in Hx as (Hx & _ & _).
            destruct (ss_app_inv _ _ _ HS) as (_ & _ & Hc). apply in_app_iff in Hx as [Hx|[<-|[]]]; [|unfold nle; lia].
            apply (Hc (eblk x) b Hx). left. reflexivity.
        + intros [= <- <- <-]. right. left. split; [reflexivity|]. split; [reflexivity|]. apply out_files.
          apply send_between_finals; auto. lia. }
    destruct pass eqn:Ep.
    { intros [= <- <- <-]. right. right. split; [discriminate | reflexivity]. }
    destruct (resolve_walk _ c (r_seen s ++ [b]) _ (ri (cu_blk c)) []) as [[[undos j]|]|] eqn:EW.
    - intros [= <- <- <-]. right. left. split; [reflexivity|]. split; [reflexivity|].
      pose proof (resolve_walk_junction _ _ _ _ _ _ _ _ EW) as Hj.
      exists (map (fun u => mkEv SUndo u (bref u) (cu_head c) (cu_lib c) (Some (bref j)) 0 0) undos),
             (send_between SIrr (r_seen s ++ [b]) (rn (cu_lib c)) (bnum j) ++
              send_between SNewIrr (r_seen s ++ [b]) (bnum j) (bnum b)), (bref j).
      split; [reflexivity|]. split.
      { apply Forall_forall. intros e He. apply in_map_iff in He as (u & <- & _). unfold file_undo. cbn. auto. }
      split; [intros Ep'; congruence|]. split; [intros _; exists j; auto|].
      apply finals_in_app; [apply send_between_finals; auto; lia | apply send_between_finals; auto; lia|].
      intros x y Hx Hy. apply send_between_le in Hx as (_ & _ & Hx). apply send_between_le in Hy as (_ & Hy & _). lia.
    - intros [= <- <- <-]. right. right. split; [discriminate | reflexivity].
    - intros [= <- <- <-]. right. right. split; [discriminate | reflexivity].
  Qed.

  Lemma run_shape : forall l s D lo,
    r_resolved s = false ->
    StronglySorted nle (r_seen s ++ l) ->
    (forall b, In b (r_seen s ++ l) -> In b D /\ lo <= bnum b) ->
    (pass = true -> forall b, In b (r_seen s) -> rn (cu_lib c) < bnum b) ->
    out_shape D lo (fst (resolver_run c pass forked s l)).
  Proof.
    induction l as [|b l IH]; intros s D lo Hr HS HD Hp.
    { cbn. apply out_files. apply finals_in_nil. }
    destruct (ss_app_inv _ _ _ HS) as (HSs & HSl & Hcross).
    inversion HSl as [|? ? HSl' Hbl]; subst. rewrite Forall_forall in Hbl.
    assert (HSsb : StronglySorted nle (r_seen s ++ [b])).
    { apply ss_app; [exact HSs | constructor; constructor|]. intros x y Hx [<-|[]]. apply Hcross; [exact Hx | left; reflexivity]. }
    assert (HDsb : forall x, In x (r_seen s ++ [b]) -> In x D /\ lo <= bnum x).
    { intros x Hx. apply HD. apply in_app_iff in Hx as [Hx|[<-|[]]]; apply in_or_app; [left; exact Hx | right; left; reflexivity]. }
    assert (HDl : forall x, In x l -> In x D /\ lo <= bnum x).
    { intros x Hx. apply HD. apply in_or_app. right. right. exact Hx. }
    assert (Hsb_l : forall x y, In x (r_seen s ++ [b]) -> In y l -> bnum x <= bnum y).
    { intros x y Hx Hy. apply in_app_iff in Hx as [Hx|[<-|[]]]; [apply Hcross; [exact Hx | right; exact Hy] | apply Hbl; exact Hy]. }
    cbn [resolver_run]. destruct (resolver_step c pass forked s b) as [[s' evs] r] eqn:ES.
    destruct (step_cases s b s' evs r Hr HSsb ES) as [(-> & Hr' & Hc)|[(-> & Hr' & Hout)|(Hne & ->)]].
    - (* still unresolved *)
      destruct (resolver_run c pass forked s' l) as [evs' r'] eqn:ER. cbn [fst].
      destruct Hc as [(-> & Hseen & Hpb)|(Ep & -> & Hseen & Hble)].
      + cbn [app]. replace evs' with (fst (resolver_run c pass forked s' l)) by (rewrite ER; reflexivity).
        apply IH; [exact Hr' | rewrite Hseen, <- app_assoc; exact HS | rewrite Hseen, <- app_assoc; exact HD|].
        intros Ep x Hx. rewrite Hseen in Hx. apply in_app_iff in Hx as [Hx|[<-|[]]]; [apply Hp; assumption | apply Hpb; exact Ep].
      + assert (HI : out_shape D (N.max lo (bnum b)) (fst (resolver_run c pass forked s' l))).
        { apply IH; [exact Hr' | rewrite Hseen; apply ss_app; [exact HSs | exact HSl' |]|  |rewrite Hseen; exact Hp].
          - intros x y Hx Hy. apply Hcross; [exact Hx | right; exact Hy].
          - rewrite Hseen. intros x Hx. apply in_app_iff in Hx as [Hx|Hx].
            + split; [apply HD; apply in_or_app; left; exact Hx|].
              pose proof (Hp Ep x Hx). destruct (HD x (in_or_app _ _ _ (or_introl Hx))). lia.
            + destruct (HDl x Hx). specialize (Hbl x Hx). unfold nle in Hbl. split; [assumption | lia]. }
        rewrite ER in HI. cbn [fst] in HI. destruct HI as (undos & files & jr & -> & HU & Hpu & Hj & HF).
        rewrite (Hpu Ep). cbn [app]. apply out_files.
        apply (finals_in_app D lo [file_event SNewIrr b] files).
        * apply (map_finals D lo [b]); [constructor; constructor|]. intros x [<-|[]]. apply HD. apply in_or_app. right. left. reflexivity.
        * eapply finals_in_weaken; [exact HF | auto | lia].
        * intros x y [<-|[]] Hy. cbn [file_event eblk]. destruct HF as (_ & HF2 & _). rewrite Forall_forall in HF2.
          destruct (HF2 y Hy). lia.
    - (* resolved by this block: the rest is passed on *)
      rewrite (run_resolved l s' Hr'). cbn [fst].
      destruct Hout as (undos & files & jr & -> & HU & Hpu & Hj & HF).
      exists undos, (files ++ map (file_event SNewIrr) l), jr. split; [rewrite app_assoc; reflexivity|].
      split; [exact HU|]. split; [exact Hpu|]. split.
      { intros Hne. destruct (Hj Hne) as (j & Hjin & Ej). exists j. split; [apply HDsb; exact Hjin | exact Ej]. }
      apply finals_in_app.
      + destruct HF as (F1 & F2 & F3). split; [exact F1|]. split; [|exact F3].
        eapply Forall_impl; [|exact F2]. cbn beta. intros e [He _]. apply HDsb. exact He.
      + apply map_finals; assumption.
      + intros x y Hx Hy. apply in_map_iff in Hy as (y0 & <- & Hy0). cbn [file_event eblk]. apply Hsb_l; [|exact Hy0].
        destruct HF as (_ & F2 & _). rewrite Forall_forall in F2. apply F2. exact Hx.
    - (* the source ends with an error: nothing delivered by this block *)
      assert (E : fst (match r with RsOk => let '(evs', r') := resolver_run c pass forked s' l in ([] ++ evs', r') | _ => ([], r) end) = [])
        by (destruct r; try reflexivity; congruence).
      rewrite E. apply out_files. apply finals_in_nil.
  Qed.
End Run.

(* ---------------------------------------------------------------- the streams *)

Lemma delivery_sorted canon start stop bundle : num_sorted canon -> StronglySorted nle (file_delivery canon start stop bundle).
Proof. intros H. unfold file_delivery. apply ss_filter. exact H. Qed.

Lemma delivery_from canon start stop bundle b : In b (file_delivery canon start stop bundle) -> start <= bnum b.
Proof.
  unfold file_delivery. intros H. apply filter_In in H as [_ H]. apply andb_true_iff in H as [H _]. apply N.leb_le in H. exact H.
Qed.

Lemma shape_stream c pass D evs :
  out_shape c pass D (if pass then 0 else rn (cu_lib c)) evs -> file_stream c pass D evs.
Proof.
  intros (undos & files & jr & -> & HU & Hpu & Hj & (F1 & F2 & F3)).
  assert (Hlo : forall e, In e files -> (if pass then 0 else rn (cu_lib c)) <= rn (elib e)).
  { intros e He. rewrite Forall_forall in F1, F2. destruct (F1 e He) as (_ & _ & _ & -> & _). cbn [bref rn]. apply F2. exact He. }
  assert (HSf : StronglySorted lle files).
  { clear - F1 F3. induction F3 as [|x l H IH Hx]; [constructor|]. inversion F1 as [|? ? Fx Fl]; subst. constructor; [apply IH; exact Fl|].
    rewrite Forall_forall in *. intros y Hy. unfold lle. destruct Fx as (_ & _ & _ & -> & _). destruct (Fl y Hy) as (_ & _ & _ & -> & _).
    cbn [bref rn]. apply Hx. exact Hy. }
  assert (HS : StronglySorted lle (undos ++ files)).
  { apply ss_app; [|exact HSf|].
    - clear - HU. induction HU as [|x l Hx Hl IH]; [constructor|]. constructor; [exact IH|].
      apply Forall_forall. intros y Hy. rewrite Forall_forall in Hl. unfold lle.
      destruct Hx as (_ & _ & _ & -> & _). destruct (Hl y Hy) as (_ & _ & _ & -> & _). lia.
    - intros a b Ha Hb. rewrite Forall_forall in HU. destruct (HU a Ha) as (_ & _ & _ & Ea & _). unfold lle. rewrite Ea.
      destruct pass; [rewrite (Hpu eq_refl) in Ha; destruct Ha|]. apply Hlo. exact Hb. }
  exists undos, files, jr. split; [reflexivity|]. split; [exact HU|]. split; [exact Hpu|]. split; [exact Hj|].
  split; [exact F1|]. split; [eapply Forall_impl; [|exact F2]; cbn beta; tauto|]. split; [exact HS|]. split.
  - intros ->. apply Forall_app. split.
    + eapply Forall_impl; [|exact HU]. cbn beta. intros e (_ & _ & _ & -> & _). lia.
    + apply Forall_forall. exact Hlo.
  - destruct pass.
    + rewrite (Hpu eq_refl). cbn [app]. apply file_walk_files; [exact F1 | exact HSf|]. intros; lia.
    + rewrite (file_walk_undos (cu_head c) c jr undos (Some (cu_lib c)) 0 files HU eq_refl); [|auto|lia].
      apply file_walk_files; [exact F1 | exact HSf|]. intros e He. specialize (Hlo e He). destruct undos; lia.
Qed.

Lemma from_cursor_stream canon forked c stop bundle : num_sorted canon ->
  file_stream c false (file_delivery canon (rn (cu_lib c)) stop bundle) (fst (from_cursor_run canon forked c stop bundle)).
Proof.
  intros HS. apply shape_stream. unfold from_cursor_run. apply run_shape; [reflexivity | | |discriminate].
  - cbn [rs_init r_seen app]. apply delivery_sorted. exact HS.
  - cbn [rs_init r_seen app]. intros b Hb. split; [exact Hb|]. eapply delivery_from. exact Hb.
Qed.

Lemma through_cursor_stream canon forked start c stop bundle : num_sorted canon ->
  file_stream c true (file_delivery canon start stop bundle) (fst (through_cursor_run canon forked start c stop bundle)).
Proof.
  intros HS. apply shape_stream. unfold through_cursor_run, through_resolver_run.
  destruct (rn (cu_blk c) <? start).
  { (* the cursor has already passed: a plain file source *)
    cbn [fst]. apply out_files. apply map_finals; [apply delivery_sorted; exact HS|].
    intros b Hb. split; [exact Hb | lia]. }
  apply run_shape; [reflexivity | | |intros _ b []].
  - cbn [rs_init r_seen app]. apply delivery_sorted. exact HS.
  - cbn [rs_init r_seen app]. intros b Hb. split; [exact Hb|]. lia.
Qed.

(* the verdict of Check/C04_More.v is that walk *)
Lemma c04_file_verdict_walk k :
  c04_file_verdict k =
  if x_err k =? 4 then 0
  else if file_walk (cu_head (x_cur k)) (if x_pass k then None else Some (cu_lib (x_cur k))) 0 (x_events k) then 0 else 2.
Proof.
  unfold c04_file_verdict. destruct (x_err k =? 4); [reflexivity|].
  match goal with |- (if ?g ?a ?b ?l0 then _ else _) = _ =>
    assert (H : forall l last p, g last p l = file_walk (cu_head (x_cur k)) last p l) end.
  { induction l as [|e l IH]; intros last p; [reflexivity|].
    cbn [file_walk]. destruct (estep e); try rewrite <- IH; reflexivity. }
  rewrite H. reflexivity.
Qed.

Lemma c04_file_cursors_proof : C04_file_cursors.
Proof.
  split; [exact from_cursor_stream|]. split; [exact through_cursor_stream|].
  intros k HS E. rewrite c04_file_verdict_walk. destruct (x_err k =? 4); [reflexivity|].
  assert (W : file_walk (cu_head (x_cur k)) (if x_pass k then None else Some (cu_lib (x_cur k))) 0 (x_events k) = true).
  { rewrite E. destruct (x_pass k).
    - destruct (through_cursor_stream (x_canon k) (x_forked k) (x_start k) (x_cur k) (x_stop k) (x_bundle k) HS)
        as (u & f & jr & _ & _ & _ & _ & _ & _ & _ & _ & W). exact W.
    - destruct (from_cursor_stream (x_canon k) (x_forked k) (x_cur k) (x_stop k) (x_bundle k) HS)
        as (u & f & jr & _ & _ & _ & _ & _ & _ & _ & _ & W). exact W. }
  rewrite W. reflexivity.
Qed.
