(* C07: the file phase of Model/Joining.v — one-step unfolding, prefix lemma, join / no join / stop. *)
From BV Require Import Base.Prelude Model.Block Model.ForkDB Model.Forkable Model.ForkableLookups
  Model.Burst Model.Hub Model.CursorResolver Model.Joining Spec.C07_Spec.
Local Open Scope N_scope.

(* ------------------------------------------------------------------ one step *)

Lemma file_phase_nil : forall fuel c w lowest fend count ps out,
  file_phase fuel c w lowest [] fend count ps out = (out, fend).
Proof. reflexivity. Qed.

Lemma file_phase_cons : forall fuel c w lowest e rest fend count ps out,
  file_phase fuel c w lowest (e :: rest) fend count ps out =
  match join_try c w lowest e with
  | Some burst => live_phase fuel c w burst count ps out
  | None =>
      let lowest' := if (lowest <=? bnum (eblk e)) && matches_new (estep e) then hub_lowest (w_hub w) else lowest in
      let '(deliver, stop) := chain c e in
      if deliver then
        let count' := count + 1 in
        let '(ps', w', _) := apply_pauses c count' ps w in
        if stop then (out ++ [e], JStop)
        else file_phase fuel c w' lowest' rest fend count' ps' (out ++ [e])
      else if stop then (out, JStop)
      else file_phase fuel c w lowest' rest fend count ps out
  end.
Proof. reflexivity. Qed.

(* a step that neither joins nor stops *)
Lemma file_phase_step : forall fuel c p e rest fend out,
  join_try c (fp_w p) (fp_lowest p) e = None -> stops c e = false ->
  file_phase_at fuel c p (e :: rest) fend out =
  file_phase_at fuel c (fnext c p e) rest fend (out ++ delivered c [e]).
Proof.
  intros fuel c p e rest fend out Hj Hs. unfold file_phase_at at 1.
  rewrite file_phase_cons, Hj. unfold stops in Hs. unfold fnext, delivered. cbn [filter].
  destruct (chain c e) as [deliver stop]. cbn [fst snd] in *. subst stop.
  destruct deliver.
  - destruct (apply_pauses c (fp_count p + 1) (fp_ps p) (fp_w p)) as [[ps' w'] evs]. reflexivity.
  - rewrite app_nil_r. reflexivity.
Qed.

Lemma file_phase_stop : forall fuel c p e rest fend out,
  join_try c (fp_w p) (fp_lowest p) e = None -> stops c e = true ->
  file_phase_at fuel c p (e :: rest) fend out = (out ++ delivered c [e], JStop).
Proof.
  intros fuel c p e rest fend out Hj Hs. unfold file_phase_at.
  rewrite file_phase_cons, Hj. unfold stops in Hs. unfold delivered. cbn [filter].
  destruct (chain c e) as [deliver stop]. cbn [fst snd] in *. subst stop.
  destruct deliver.
  - destruct (apply_pauses c (fp_count p + 1) (fp_ps p) (fp_w p)) as [[ps' w'] evs]. reflexivity.
  - rewrite app_nil_r. reflexivity.
Qed.

Lemma file_phase_join : forall fuel c p e rest fend out burst,
  join_try c (fp_w p) (fp_lowest p) e = Some burst ->
  file_phase_at fuel c p (e :: rest) fend out = live_phase_at fuel c p burst out.
Proof.
  intros fuel c p e rest fend out burst Hj. unfold file_phase_at, live_phase_at.
  rewrite file_phase_cons, Hj. reflexivity.
Qed.

Lemma delivered_app : forall c l1 l2, delivered c (l1 ++ l2) = delivered c l1 ++ delivered c l2.
Proof. intros. unfold delivered. apply filter_app. Qed.

(* ------------------------------------------------------------------ a prefix that does not join *)

Lemma file_phase_prefix : forall fuel c pre p rest fend out,
  no_join c p pre -> no_stop c pre ->
  file_phase_at fuel c p (pre ++ rest) fend out =
  file_phase_at fuel c (fafter c p pre) rest fend (out ++ delivered c pre).
Proof.
  intros fuel c pre. induction pre as [|e pre IH]; intros p rest fend out Hnj Hns.
  - cbn [app fafter fold_left]. unfold delivered. cbn [filter]. rewrite app_nil_r. reflexivity.
  - destruct Hnj as [Hj Hnj]. inversion Hns as [|? ? Hs Hns']; subst.
    cbn [app]. rewrite (file_phase_step _ _ _ _ _ _ _ Hj Hs).
    rewrite (IH _ _ _ _ Hnj Hns'). unfold fafter. cbn [fold_left].
    change (e :: pre) with ([e] ++ pre). rewrite delivered_app, app_assoc. reflexivity.
Qed.

(* ------------------------------------------------------------------ outputs only grow *)

Lemma live_phase_out : forall fuel c w queue count ps out,
  live_phase fuel c w queue count ps out =
  (out ++ fst (live_phase fuel c w queue count ps []), snd (live_phase fuel c w queue count ps [])).
Proof.
  induction fuel as [|f IH]; intros c w queue count ps out.
  - cbn [live_phase fst snd]. rewrite app_nil_r. reflexivity.
  - cbn [live_phase]. destruct queue as [|e q].
    + destruct (w_rest w) as [|b r] eqn:Er.
      * cbn [fst snd]. rewrite app_nil_r. reflexivity.
      * destruct (push_one c w) as [w' evs]. apply IH.
    + destruct (chain c e) as [deliver stop]. destruct deliver.
      * destruct (apply_pauses c (count + 1) ps w) as [[ps' w'] evs].
        destruct stop; [reflexivity|].
        rewrite (IH c w' (q ++ evs) (count + 1) ps' (out ++ [e])).
        rewrite (IH c w' (q ++ evs) (count + 1) ps' ([] ++ [e])).
        cbn [fst snd app]. rewrite <- app_assoc. reflexivity.
      * destruct stop; [cbn [fst snd]; rewrite app_nil_r; reflexivity|]. apply IH.
Qed.

Lemma file_phase_out : forall fuel c fevs w lowest fend count ps out,
  file_phase fuel c w lowest fevs fend count ps out =
  (out ++ fst (file_phase fuel c w lowest fevs fend count ps []),
   snd (file_phase fuel c w lowest fevs fend count ps [])).
Proof.
  intros fuel c fevs. induction fevs as [|e rest IH]; intros w lowest fend count ps out.
  - cbn [file_phase fst snd]. rewrite app_nil_r. reflexivity.
  - rewrite !file_phase_cons. destruct (join_try c w lowest e) as [burst|].
    + apply live_phase_out.
    + cbv zeta. destruct (chain c e) as [deliver stop]. destruct deliver.
      * destruct (apply_pauses c (count + 1) ps w) as [[ps' w'] evs].
        destruct stop; [reflexivity|].
        rewrite (IH w' _ fend (count + 1) ps' (out ++ [e])).
        rewrite (IH w' _ fend (count + 1) ps' ([] ++ [e])).
        cbn [fst snd app]. rewrite <- app_assoc. reflexivity.
      * destruct stop; [cbn [fst snd]; rewrite app_nil_r; reflexivity|]. apply IH.
Qed.

(* ------------------------------------------------------------------ the statements *)

Lemma join_try_some : forall c w lowest e burst,
  join_try c w lowest e = Some burst ->
  matches_new (estep e) = true /\ lowest <= bnum (eblk e) /\ h_ready (w_hub w) = true.
Proof.
  intros c w lowest e burst H. unfold join_try in H.
  destruct ((lowest <=? bnum (eblk e)) && matches_new (estep e)) eqn:E; [|discriminate].
  apply andb_true_iff in E. destruct E as [E1 E2]. apply N.leb_le in E1.
  split; [exact E2|]. split; [exact E1|].
  destruct (if j_mode c =? 2 then _ else _); try discriminate.
  destruct (h_ready (w_hub w)); [reflexivity|discriminate].
Qed.

Lemma join_try_none_of : forall c w lowest e,
  matches_new (estep e) = false \/ bnum (eblk e) < lowest -> join_try c w lowest e = None.
Proof.
  intros c w lowest e H. unfold join_try.
  replace ((lowest <=? bnum (eblk e)) && matches_new (estep e)) with false; [reflexivity|].
  symmetry. apply andb_false_iff. destruct H as [H|H]; [right; exact H|left; apply N.leb_gt; exact H].
Qed.

Lemma fnext_lowest_same : forall c p e,
  matches_new (estep e) = false \/ bnum (eblk e) < fp_lowest p -> fp_lowest (fnext c p e) = fp_lowest p.
Proof.
  intros c p e H. unfold fnext.
  replace ((fp_lowest p <=? bnum (eblk e)) && matches_new (estep e)) with false.
  - destruct (fst (chain c e)); [|reflexivity].
    destruct (apply_pauses c (fp_count p + 1) (fp_ps p) (fp_w p)) as [[ps' w'] evs]. reflexivity.
  - symmetry. apply andb_false_iff. destruct H as [H|H]; [right; exact H|left; apply N.leb_gt; exact H].
Qed.

Lemma first_delivery_prefix : forall c pre p,
  Forall (fun e => matches_new (estep e) = false \/ bnum (eblk e) < fp_lowest p) pre ->
  no_join c p pre /\ fp_lowest (fafter c p pre) = fp_lowest p.
Proof.
  intros c pre. induction pre as [|e pre IH]; intros p H; [split; [exact I|reflexivity]|].
  inversion H as [|? ? He H']; subst.
  pose proof (fnext_lowest_same c p e He) as El.
  destruct (IH (fnext c p e)) as [Hnj Hl]; [rewrite El; exact H'|].
  split.
  - split; [apply join_try_none_of; exact He|exact Hnj].
  - unfold fafter in *. cbn [fold_left]. rewrite Hl. exact El.
Qed.

Lemma c07_join_only_on_first_delivery_proof : C07_join_only_on_first_delivery.
Proof.
  split; [exact join_try_some|].
  intros fuel c p pre rest fend out Hpre Hns.
  destruct (first_delivery_prefix c pre p Hpre) as [Hnj Hl].
  split; [exact Hl|].
  pose proof (file_phase_prefix fuel c pre p rest fend out Hnj Hns) as E.
  split; [exact E|].
  rewrite E. unfold file_phase_at. rewrite file_phase_out. cbn [fst].
  rewrite <- app_assoc. eexists. reflexivity.
Qed.

Lemma c07_file_prefix_then_live_proof : C07_file_prefix_then_live.
Proof.
  split; [|split].
  - intros fuel c p pre e rest fend out burst Hnj Hns Hj.
    assert (E : file_phase_at fuel c p (pre ++ e :: rest) fend out =
                live_phase_at fuel c (fafter c p pre) burst (out ++ delivered c pre)).
    { rewrite (file_phase_prefix fuel c pre p (e :: rest) fend out Hnj Hns).
      apply file_phase_join. exact Hj. }
    split; [exact E|]. rewrite E. unfold live_phase_at. rewrite live_phase_out. cbn [fst].
    rewrite <- app_assoc. reflexivity.
  - intros fuel c p fevs fend out Hnj Hns.
    rewrite <- (app_nil_r fevs) at 1.
    rewrite (file_phase_prefix fuel c fevs p [] fend out Hnj Hns). reflexivity.
  - intros fuel c p pre e rest fend out Hnj Hns Hs.
    assert (Hnj' : no_join c p pre /\ join_try c (fp_w (fafter c p pre)) (fp_lowest (fafter c p pre)) e = None).
    { clear Hns. revert p Hnj. induction pre as [|x pre IH]; intros p Hnj.
      - destruct Hnj as [Hj _]. split; [exact I|exact Hj].
      - destruct Hnj as [Hj Hnj]. destruct (IH _ Hnj) as [H1 H2]. split; [split; assumption|exact H2]. }
    destruct Hnj' as [Hnjp Hje].
    rewrite (file_phase_prefix fuel c pre p (e :: rest) fend out Hnjp Hns).
    rewrite (file_phase_stop _ _ _ _ _ _ _ Hje Hs).
    rewrite delivered_app, app_assoc. reflexivity.
Qed.
