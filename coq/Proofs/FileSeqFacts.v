(* Facts about the sequential reference semantics Model/FileSeq.v, and the proof of c10_seq. *)
From BV Require Import Base.Prelude Model.FileSeq Model.Pipeline Spec.C10_Spec.
Local Open Scope N_scope.

(* ---------- prefix ---------- *)
Lemma prefix_refl : forall A (l : list A), prefix l l.
Proof. intros; exists []; now rewrite app_nil_r. Qed.

Lemma prefix_nil : forall A (l : list A), prefix [] l.
Proof. intros; now exists l. Qed.

Lemma prefix_trans : forall A (a b c : list A), prefix a b -> prefix b c -> prefix a c.
Proof. intros A a b c [r1 H1] [r2 H2]; subst. exists (r1 ++ r2). now rewrite app_assoc. Qed.

Lemma prefix_app_r : forall A (a b : list A), prefix a (a ++ b).
Proof. intros; now exists b. Qed.

Lemma prefix_map : forall A B (f : A -> B) a b, prefix a b -> prefix (map f a) (map f b).
Proof. intros A B f a b [r H]; subst. exists (map f r). now rewrite map_app. Qed.

(* ---------- nsend / stopped ---------- *)
Lemma nsend_from_spec : forall L fuel i,
  let n := nsend_from L i fuel in
  (i <= n <= i + fuel)%nat /\
  (forall j, (i <= j)%nat -> (S j < n)%nat -> stop_after L j = false) /\
  (stopped_from L i fuel = true -> (i < n)%nat /\ stop_after L (pred n) = true) /\
  (stopped_from L i fuel = false ->
     n = (i + fuel)%nat /\ forall j, (i <= j < n)%nat -> stop_after L j = false).
Proof.
  intros L fuel; induction fuel as [|fuel IH]; intros i; simpl.
  - repeat split; try lia; intros; try discriminate.
  - destruct (stop_after L i) eqn:E.
    + repeat split; try lia; intros; try discriminate; simpl; auto; lia.
    + specialize (IH (S i)); simpl in IH. destruct IH as (A & B & Cc & D).
      split; [lia|]. split; [|split].
      * intros j Hj Hn. destruct (Nat.eq_dec j i) as [->|Hne]; [exact E|]. apply B; lia.
      * intros H. apply Cc in H. split; [lia|tauto].
      * intros H. apply D in H. destruct H as [H1 H2]. split; [lia|].
        intros j Hj. destruct (Nat.eq_dec j i) as [->|Hne]; [exact E|]. apply H2; lia.
Qed.

Lemma nsend_le : forall L, (nsend L <= nfiles L)%nat.
Proof. intros L. pose proof (nsend_from_spec L (nfiles L) 0) as H; simpl in H. unfold nsend. lia. Qed.

Lemma nsend_nostop_before : forall L j, (S j < nsend L)%nat -> stop_after L j = false.
Proof.
  intros L j H. pose proof (nsend_from_spec L (nfiles L) 0) as S; simpl in S.
  destruct S as (_ & B & _). apply B; [lia|exact H].
Qed.

Lemma stopped_true : forall L, stopped L = true ->
  (0 < nsend L)%nat /\ stop_after L (pred (nsend L)) = true.
Proof.
  intros L H. pose proof (nsend_from_spec L (nfiles L) 0) as S; simpl in S.
  destruct S as (_ & _ & Cc & _). apply Cc in H. exact H.
Qed.

Lemma stopped_false : forall L, stopped L = false ->
  nsend L = nfiles L /\ forall j, (j < nfiles L)%nat -> stop_after L j = false.
Proof.
  intros L H. pose proof (nsend_from_spec L (nfiles L) 0) as S; simpl in S.
  destruct S as (_ & _ & _ & D). apply D in H. destruct H as [E H]. split; [exact E|].
  intros j Hj. apply H. unfold nsend in *. lia.
Qed.

(* a count reached by the launch reader without meeting the stop test is within nsend *)
Lemma nsend_ge : forall L n, (n <= nfiles L)%nat ->
  (forall j, (S j < n)%nat -> stop_after L j = false) -> (n <= nsend L)%nat.
Proof.
  intros L n Hn Hno. destruct (stopped L) eqn:E.
  - apply stopped_true in E. destruct E as [Hp Hs].
    destruct (le_lt_dec n (nsend L)) as [|Hlt]; [assumption|].
    rewrite Hno in Hs by lia. discriminate.
  - apply stopped_false in E. lia.
Qed.

(* the launch reader met the stop test right after file n-1 *)
Lemma nsend_at_stop : forall L n, (0 < n <= nfiles L)%nat ->
  (forall j, (S j < n)%nat -> stop_after L j = false) -> stop_after L (pred n) = true ->
  n = nsend L /\ stopped L = true.
Proof.
  intros L n Hn Hno Hs. destruct (stopped L) eqn:E.
  - split; [|reflexivity]. apply stopped_true in E. destruct E as [Hp Hs'].
    pose proof (nsend_nostop_before L) as Hb.
    destruct (lt_eq_lt_dec n (nsend L)) as [[Hlt|Heq]|Hgt]; [|assumption|].
    + rewrite Hb in Hs by lia. discriminate.
    + rewrite Hno in Hs' by lia. discriminate.
  - apply stopped_false in E. destruct E as [_ E]. rewrite E in Hs by lia. discriminate.
Qed.

(* the launch reader ran out of existing bundles without meeting the stop test *)
Lemma nsend_at_tail : forall L, (forall j, (j < nfiles L)%nat -> stop_after L j = false) ->
  nsend L = nfiles L /\ stopped L = false.
Proof.
  intros L Hno. destruct (stopped L) eqn:E.
  - apply stopped_true in E. destruct E as [Hp Hs]. pose proof (nsend_le L).
    rewrite Hno in Hs by lia. discriminate.
  - split; [|reflexivity]. now apply stopped_false in E.
Qed.

(* ---------- seq_cut ---------- *)
(* id of the last block of l, or x when l is empty *)
Definition lid (x : N) (l : list blk) : N := fold_left (fun _ b => b_id b) l x.

Lemma lid_app1 : forall x l b, lid x (l ++ [b]) = b_id b.
Proof. intros. unfold lid. now rewrite fold_left_app. Qed.

Lemma lid_last : forall l x, l <> [] -> lid x l = b_id (last l blk0).
Proof.
  induction l as [|b l IH]; intros x H; [congruence|].
  destruct l as [|b' l']; [reflexivity|].
  change (lid x (b :: b' :: l')) with (lid (b_id b) (b' :: l')).
  rewrite IH by discriminate. reflexivity.
Qed.

Lemma seq_cut_app : forall a x r, seq_cut x a = (a, false) ->
  seq_cut x (a ++ r) = let (r', br) := seq_cut (lid x a) r in (a ++ r', br).
Proof.
  induction a as [|b a IH]; intros x r H; simpl in *.
  - destruct (seq_cut x r); reflexivity.
  - destruct (negb (x =? 0) && negb (b_par b =? x)) eqn:E; [discriminate|].
    destruct (seq_cut (b_id b) a) as [r1 br1] eqn:E1. inversion H; subst.
    rewrite (IH (b_id b) r E1). change (lid x (b :: a)) with (lid (b_id b) a).
    destruct (seq_cut (lid (b_id b) a) r); reflexivity.
Qed.

Lemma seq_cut_spec : forall l x d br, seq_cut x l = (d, br) ->
  linked_from x d /\ seq_cut x d = (d, false) /\
  (br = false -> d = l) /\
  (br = true -> exists b r, l = d ++ b :: r /\ lid x d <> 0 /\ b_par b <> lid x d).
Proof.
  induction l as [|b l IH]; intros x d br H; simpl in H.
  - inversion H; subst. simpl. repeat split; auto; discriminate.
  - destruct (negb (x =? 0) && negb (b_par b =? x)) eqn:E.
    + inversion H; subst. simpl. repeat split; auto; try discriminate.
      intros _. exists b, l. apply andb_prop in E. destruct E as [E1 E2].
      apply negb_true_iff in E1, E2. apply N.eqb_neq in E1, E2. unfold lid; simpl. auto.
    + destruct (seq_cut (b_id b) l) as [r1 br1] eqn:E1. inversion H; subst.
      destruct (IH _ _ _ E1) as (A & B & Cc & D).
      split; [|split; [|split]].
      * simpl. split; [|exact A]. apply andb_false_iff in E.
        destruct E as [E|E]; apply negb_false_iff in E; apply N.eqb_eq in E; auto.
      * simpl. rewrite E, B. reflexivity.
      * intros Hb. rewrite (Cc Hb). reflexivity.
      * intros Hb. destruct (D Hb) as (b' & r & -> & Hl). exists b', r. split; [reflexivity|exact Hl].
Qed.

Lemma linked_seq_cut : forall d x, linked_from x d -> seq_cut x d = (d, false).
Proof.
  induction d as [|b d IH]; intros x H; simpl in *; [reflexivity|].
  destruct H as [H1 H2]. rewrite (IH _ H2).
  destruct H1 as [-> | ->]; simpl.
  - reflexivity.
  - rewrite N.eqb_refl. rewrite andb_false_r. reflexivity.
Qed.

Lemma seq_cut_break : forall d b r x, linked_from x d ->
  lid x d <> 0 -> b_par b <> lid x d -> seq_cut x (d ++ b :: r) = (d, true).
Proof.
  intros d b r x Hl H0 Hp. rewrite seq_cut_app by (now apply linked_seq_cut).
  simpl. apply N.eqb_neq in H0, Hp. rewrite H0, Hp. simpl. now rewrite app_nil_r.
Qed.

(* a linked prefix of the candidates is a prefix of what seq_cut keeps *)
Lemma seq_cut_keeps_prefix : forall a r x, seq_cut x a = (a, false) ->
  prefix a (fst (seq_cut x (a ++ r))).
Proof.
  intros a r x H. rewrite (seq_cut_app a x r H). destruct (seq_cut (lid x a) r) as [r' br].
  simpl. apply prefix_app_r.
Qed.

(* ---------- candidates ---------- *)
Lemma candidates_stored : forall L,
  candidates L = map snd (filter (fun ib => keep L (fst ib) (snd ib)) (stored L)).
Proof.
  intros L. unfold candidates, stored. induction (seq 0 (nsend L)) as [|i l IH]; simpl; [reflexivity|].
  rewrite filter_app, map_app, <- IH. f_equal.
  unfold kept. induction (file_of L i) as [|b f IHf]; simpl; [reflexivity|].
  destruct (keep L i b); simpl; now rewrite IHf.
Qed.

Lemma candidates_above_start : forall L, Forall (fun b => l_start L <= b_num b) (candidates L).
Proof.
  intros L. apply Forall_forall. intros b Hb. unfold candidates in Hb.
  apply in_flat_map in Hb. destruct Hb as (i & _ & Hb). unfold kept in Hb.
  apply filter_In in Hb. destruct Hb as [_ Hk]. unfold keep in Hk.
  apply andb_prop in Hk. destruct Hk as [Hk _]. now apply N.leb_le in Hk.
Qed.

Lemma expected_unfold : forall L,
  expected L = (fst (seq_cut 0 (candidates L)),
                if snd (seq_cut 0 (candidates L)) then ONonSeq
                else if stopped L then OStop else OTail).
Proof. intros L. unfold expected. destruct (seq_cut 0 (candidates L)); reflexivity. Qed.

Lemma c10_seq_proof : C10_seq.
Proof.
  intros L d E. subst d E. unfold expected_blocks, expected_outcome. rewrite expected_unfold. simpl.
  destruct (seq_cut 0 (candidates L)) as [d br] eqn:Ecut. simpl.
  destruct (seq_cut_spec _ _ _ _ Ecut) as (Hl & Hd & Hf & Ht).
  split; [apply candidates_stored|]. split; [apply candidates_above_start|].
  split.
  { destruct br.
    - destruct (Ht eq_refl) as (b & r & -> & _). apply prefix_app_r.
    - rewrite (Hf eq_refl). apply prefix_refl. }
  split; [exact Hl|]. split.
  { destruct br.
    - destruct (Ht eq_refl) as (b & r & He & H0 & Hp). exists b, r.
      assert (Hne : d <> []). { intros ->. unfold lid in H0; simpl in H0. congruence. }
      rewrite (lid_last d 0 Hne) in H0, Hp. auto.
    - destruct (stopped L) eqn:Es; split; auto; symmetry; now apply Hf. }
  split.
  - intros Hs. destruct (stopped_true L Hs) as [Hp Hsa].
    unfold stop_after in Hsa. apply andb_prop in Hsa. destruct Hsa as [H0 Hlt].
    apply negb_true_iff in H0. apply N.eqb_neq in H0. apply N.ltb_lt in Hlt.
    replace (S (pred (nsend L))) with (nsend L) in Hlt by lia.
    repeat split; auto.
    intros j Hj. pose proof (nsend_nostop_before L j Hj) as Hn. unfold stop_after in Hn.
    apply andb_false_iff in Hn. destruct Hn as [Hn|Hn].
    + apply negb_false_iff in Hn. apply N.eqb_eq in Hn. congruence.
    + apply N.ltb_ge in Hn. exact Hn.
  - intros Hs. now apply stopped_false in Hs.
Qed.
