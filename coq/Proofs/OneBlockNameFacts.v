(* One-block file names and the fetch by number and id. *)
From BV Require Import Base.Prelude Base.Decimal Model.CursorCodec Model.Dbin Model.OneBlockName
  Spec.C16_Spec Proofs.PreludeFacts Proofs.DecimalFacts Proofs.CursorCodecFacts Proofs.DbinFacts.
Local Open Scope N_scope.

(* ------------------------------------------------------------------ digits *)

Lemma digits_no_dash s : forallb is_digit s = true -> memN dash s = false.
Proof.
  induction s as [|c s IH]; intros H; [reflexivity|].
  cbn [forallb] in H. apply andb_true_iff in H as [Hc Hs].
  cbn [memN]. rewrite (IH Hs). unfold is_digit in Hc. unfold dash.
  destruct (N.eqb_spec 45 c); [lia|reflexivity].
Qed.

Lemma repeat48_digits k : forallb is_digit (repeat 48 k) = true.
Proof. induction k; [reflexivity|]. cbn [repeat forallb]. rewrite IHk. reflexivity. Qed.

Lemma pad10_digits n : forallb is_digit (pad10 n) = true.
Proof.
  unfold pad10. rewrite forallb_app, repeat48_digits.
  destruct (print_dec_digits n) as [H _]. rewrite H. reflexivity.
Qed.

Lemma dval_from_zeros k : forall s, dval_from 0 (repeat 48 k ++ s) = dval_from 0 s.
Proof. induction k as [|k IH]; intros s; [reflexivity|]. cbn [repeat app dval_from]. apply IH. Qed.

Lemma parse_digits_pad10 n : parse_digits (pad10 n) = Some n.
Proof.
  pose proof (pad10_digits n) as Hd.
  destruct (print_dec_spec n) as (ds & Heq & Hne & _ & Hval).
  unfold parse_digits. rewrite Hd.
  assert (Hv : dval_from 0 (pad10 n) = n).
  { unfold pad10. rewrite dval_from_zeros, Heq. exact Hval. }
  rewrite Hv.
  assert (Hnn : pad10 n <> []).
  { unfold pad10. rewrite Heq. intros X. apply app_eq_nil in X as [_ X]. contradiction. }
  destruct (pad10 n); [congruence|reflexivity].
Qed.

Lemma parse_uint_pad10 n : n < two64 -> parse_uint two64 (pad10 n) = Some n.
Proof.
  intros H. unfold parse_uint. rewrite parse_digits_pad10.
  destruct (N.ltb_spec n two64); [reflexivity|lia].
Qed.

Lemma parse_uint_bound lim s v : parse_uint lim s = Some v -> v < lim.
Proof.
  unfold parse_uint. destruct (parse_digits s) as [w|]; [|discriminate].
  destruct (N.ltb_spec w lim); [|discriminate]. intros [= <-]. assumption.
Qed.

(* ------------------------------------------------------------------ names *)

Lemma c16_name_roundtrip_proof : C16_name_roundtrip.
Proof.
  intros num id parent lib suffix (Hn & Hl & Hid & Hpar & Hsuf).
  unfold parse_filename, block_file_name.
  rewrite split_join.
  2:{ cbn [forallb]. rewrite Hid, Hpar, Hsuf.
      rewrite (digits_no_dash _ (pad10_digits num)).
      rewrite (digits_no_dash _ (proj1 (print_dec_digits lib))). reflexivity. }
  rewrite parse_uint_pad10 by exact Hn. rewrite parse_uint_print by exact Hl. reflexivity.
Qed.

Lemma c16_name_parse_sound_proof : C16_name_parse_sound.
Proof.
  intros s p. unfold parse_filename.
  destruct (split dash s) as [|a [|b [|c [|d [|e [|x l]]]]]]; try discriminate.
  destruct (parse_uint two64 a) as [n|] eqn:En; [|discriminate].
  destruct (parse_uint two64 d) as [l|] eqn:El; [|discriminate].
  intros [= <-]. cbn [p_num p_lib p_id p_prev p_canon].
  split; [eapply parse_uint_bound; eassumption|].
  split; [eapply parse_uint_bound; eassumption|].
  exists a, d, e. split; reflexivity.
Qed.

(* ------------------------------------------------------------------ fetch *)

Lemma list_one_blocks_in start to : forall names gate nm p,
  In (nm, p) (list_one_blocks start to gate names) -> In nm names /\ parse_filename nm = Some p.
Proof.
  induction names as [|n r IH]; intros gate nm p H; [contradiction|].
  cbn [list_one_blocks] in H.
  destruct (gate || str_leb start n).
  - destruct (parse_filename n) as [q|] eqn:E.
    + destruct (negb (to =? 0) && (to <? p_num q)); [contradiction|].
      destruct H as [H|H].
      * inversion H; subst. split; [left; reflexivity | exact E].
      * apply IH in H as [H1 H2]. split; [right; exact H1 | exact H2].
    + apply IH in H as [H1 H2]. split; [right; exact H1 | exact H2].
  - apply IH in H as [H1 H2]. split; [right; exact H1 | exact H2].
Qed.

Section Fetch.
  Variable T : Type.
  Variable dec : str -> option T.

  Notation name_of x := (block_file_name (s_num x) (s_id x) (s_parent x) (s_lib x) (s_suffix x)).

  Lemma lookup_store_of l nm : In nm (map fst (store_of l)) ->
    exists x, In x l /\ name_of x = nm /\ lookup nm (store_of l) = Some (file_bytes (s_ct x) [s_msg x]).
  Proof.
    induction l as [|y l IH]; intros H; [contradiction|].
    cbn [store_of map lookup fst] in *.
    destruct (eqb_list (name_of y) nm) eqn:E.
    - apply eqb_list_eq in E. exists y. repeat split; [left; reflexivity | exact E].
    - destruct H as [H|H]; [rewrite H, eqb_list_refl in E; discriminate|].
      destruct (IH H) as (x & Hx & Hn & Hl). exists x. repeat split; [right; exact Hx | exact Hn | exact Hl].
  Qed.

  Lemma decode_one_block_written ct m : ct <> [] -> lenN ct <= 65535 -> msg_wf m ->
    decode_one_block_file dec (file_bytes ct [m]) =
      match dec m with Some b => FBlock b | None => FErr end.
  Proof.
    intros _ Hct Hm. unfold decode_one_block_file, file_bytes.
    rewrite read_header_v1 by exact Hct.
    change (frames [m]) with (frame m ++ []). rewrite bs_read_frame by exact Hm.
    destruct (dec m); reflexivity.
  Qed.

  Lemma c16_fetch_proof : C16_fetch T dec.
  Proof.
    intros l num id Hok. unfold fetch_one_block.
    destruct (find _ _) as [[nm p]|] eqn:Ef; [|exact I].
    apply find_some in Ef as [Hin Hpred]. cbn [snd] in Hpred.
    apply andb_true_iff in Hpred as [Hnum Hsuf]. apply N.eqb_eq in Hnum.
    apply list_one_blocks_in in Hin as [Hnm Hparse].
    destruct (lookup_store_of l nm Hnm) as (x & Hx & Hname & Hlook).
    rewrite Hlook.
    pose proof (proj1 (Forall_forall _ _) Hok x Hx) as (Hnok & Hct1 & Hct2 & Hm).
    rewrite <- Hname, (c16_name_roundtrip_proof _ _ _ _ _ Hnok) in Hparse.
    injection Hparse as <-. cbn [p_num p_id] in *.
    rewrite decode_one_block_written by assumption.
    destruct (dec (s_msg x)) eqn:Ed; exists x; repeat split; assumption.
  Qed.
End Fetch.
